/-
Lexical layer of the `Value` sub-language (helper lemmas for Props/C07 `render_parse_value`): the character classes, names,
keywords, numbers of the GENERATED grammar run by the generic interpreter, under an arbitrary lookahead state (they are
called both directly and inside `!(…)`), and the implicit skip over an arbitrary run of whitespace trivia.
-/
import NitroVerif.Lemmas.ParseRun
import NitroVerif.Lemmas.TypeParse
namespace NitroVerif.ValueParse
open NitroVerif.Peg NitroVerif.Gen NitroVerif.Build NitroVerif.TypeParse

theorem look_DIGIT : gList.look R.ASCII_DIGIT = some (.silent, .range '0' '9') := rfl
theorem look_NZDIGIT : gList.look R.ASCII_NONZERO_DIGIT = some (.silent, .range '1' '9') := rfl
theorem look_IntegerPart : gList.look R.IntegerPart = some (.atomic,
    .seq (.opt (.str ['-'])) (.choice (.str ['0']) (.seq (.call R.ASCII_NONZERO_DIGIT) (.star (.call R.ASCII_DIGIT))))) := rfl
theorem look_IntValue : gList.look R.IntValue = some (.atomic,
    .seq (.call R.IntegerPart) (.not (.choice (.str ['.']) (.call R.NameStart)))) := rfl
theorem look_FractionalPart : gList.look R.FractionalPart =
    some (.atomic, .seq (.str ['.']) (.star (.call R.ASCII_DIGIT))) := rfl
theorem look_ExponentPart : gList.look R.ExponentPart = some (.atomic,
    .seq (.insens ['e']) (.seq (.opt (.choice (.str ['+']) (.str ['-']))) (.plus (.call R.ASCII_DIGIT)))) := rfl
theorem look_FloatValue : gList.look R.FloatValue = some (.atomic,
    .choice (.seq (.call R.IntegerPart) (.seq (.call R.FractionalPart) (.seq (.call R.ExponentPart)
        (.not (.choice (.str ['.']) (.call R.NameStart))))))
      (.choice (.seq (.call R.IntegerPart) (.seq (.call R.FractionalPart) (.not (.choice (.str ['.']) (.call R.NameStart)))))
        (.seq (.call R.IntegerPart) (.seq (.call R.ExponentPart) (.not (.choice (.str ['.']) (.call R.NameStart))))))) := rfl

def digit (d : Char) : Prop := '0' ≤ d ∧ d ≤ '9'
def nzdigit (d : Char) : Prop := '1' ≤ d ∧ d ≤ '9'
instance (d : Char) : Decidable (digit d) := by unfold digit; infer_instance
instance (d : Char) : Decidable (nzdigit d) := by unfold nzdigit; infer_instance

theorem headNot_nil (P : Char → Prop) : HeadNot P [] := fun _ _ he => by cases he
theorem headNot_mono {P Q : Char → Prop} (h : ∀ d, P d → Q d) {rest : List Char} (hq : HeadNot Q rest) : HeadNot P rest :=
  fun d r he hp => hq d r he (h d hp)

/-! ### character classes under any lookahead state (always called inside an atomic rule) -/

theorem rangeL (la : Look) (sk : Bool) (lo hi : Char) (at_ : Atomicity) (p : Nat) (d : Char) (r : List Char) :
    (lo ≤ d ∧ d ≤ hi → RunsL gList la 1 sk (.range lo hi) at_ ⟨p, d :: r⟩ ⟨p + 1, r⟩ []) ∧
    (¬ (lo ≤ d ∧ d ≤ hi) → FailsL gList la 1 sk (.range lo hi) at_ ⟨p, d :: r⟩) := by
  constructor
  · intro h; exact runsL_range (c := ⟨p, d :: r⟩) rfl h
  · intro h
    refine failsL_range (c := ⟨p, d :: r⟩) ?_
    intro d' r' he
    cases he
    exact h

theorem rangeL_nil (la : Look) (sk : Bool) (lo hi : Char) (at_ : Atomicity) (p : Nat) :
    FailsL gList la 1 sk (.range lo hi) at_ ⟨p, []⟩ := by
  refine failsL_range (c := ⟨p, []⟩) ?_
  intro d r he; cases he

theorem rangeL_fails {la : Look} {sk : Bool} {lo hi : Char} {at_ : Atomicity} {p : Nat} {rest : List Char}
    (h : HeadNot (fun d => lo ≤ d ∧ d ≤ hi) rest) : FailsL gList la 1 sk (.range lo hi) at_ ⟨p, rest⟩ := by
  cases rest with
  | nil => exact rangeL_nil _ _ _ _ _ _
  | cons d r => exact (rangeL la sk lo hi at_ p d r).2 (h d r rfl)

theorem digitL_runs {la at_ p d r} (h : digit d) : RunsRuleL gList la 2 R.ASCII_DIGIT at_ ⟨p, d :: r⟩ ⟨p + 1, r⟩ [] :=
  runsRuleL_silent look_DIGIT (notSpecial (by decide) (by decide)) ((rangeL la true _ _ at_ p d r).1 h)

theorem digitL_fails {la at_ p rest} (h : HeadNot digit rest) : FailsRuleL gList la 2 R.ASCII_DIGIT at_ ⟨p, rest⟩ :=
  failsRuleL_silent look_DIGIT (notSpecial (by decide) (by decide)) (rangeL_fails h)

theorem nzdigitL_runs {la at_ p d r} (h : nzdigit d) :
    RunsRuleL gList la 2 R.ASCII_NONZERO_DIGIT at_ ⟨p, d :: r⟩ ⟨p + 1, r⟩ [] :=
  runsRuleL_silent look_NZDIGIT (notSpecial (by decide) (by decide)) ((rangeL la true _ _ at_ p d r).1 h)

theorem nzdigitL_fails {la at_ p rest} (h : HeadNot nzdigit rest) :
    FailsRuleL gList la 2 R.ASCII_NONZERO_DIGIT at_ ⟨p, rest⟩ :=
  failsRuleL_silent look_NZDIGIT (notSpecial (by decide) (by decide)) (rangeL_fails h)

theorem alphaL_runs {la at_ p d r} (h : alpha d) : RunsRuleL gList la 3 R.ASCII_ALPHA at_ ⟨p, d :: r⟩ ⟨p + 1, r⟩ [] := by
  refine runsRuleL_silent look_ALPHA (notSpecial (by decide) (by decide)) ?_
  by_cases h1 : 'a' ≤ d ∧ d ≤ 'z'
  · exact (runsL_choice_l ((rangeL la true _ _ _ p d r).1 h1)).mono (by omega)
  · have h2 : 'A' ≤ d ∧ d ≤ 'Z' := h.resolve_left h1
    exact runsL_choice_r ((rangeL la true _ _ _ p d r).2 h1) ((rangeL la true _ _ _ p d r).1 h2)

theorem alphaL_fails {la at_ p rest} (h : HeadNot alpha rest) : FailsRuleL gList la 3 R.ASCII_ALPHA at_ ⟨p, rest⟩ := by
  refine failsRuleL_silent look_ALPHA (notSpecial (by decide) (by decide)) ?_
  exact failsL_choice (rangeL_fails fun d r he hd => h d r he (Or.inl hd))
    (rangeL_fails fun d r he hd => h d r he (Or.inr hd))

theorem alnumL_runs {la at_ p d r} (h : alnum d) :
    RunsRuleL gList la 4 R.ASCII_ALPHANUMERIC at_ ⟨p, d :: r⟩ ⟨p + 1, r⟩ [] := by
  refine runsRuleL_silent look_ALNUM (notSpecial (by decide) (by decide)) ?_
  by_cases h1 : 'a' ≤ d ∧ d ≤ 'z'
  · exact (runsL_choice_l ((rangeL la true _ _ _ p d r).1 h1)).mono (by omega)
  · have h' := h.resolve_left h1
    refine runsL_choice_r (((rangeL la true _ _ _ p d r).2 h1).mono (by omega : 1 ≤ 2)) ?_
    by_cases h2 : 'A' ≤ d ∧ d ≤ 'Z'
    · exact runsL_choice_l ((rangeL la true _ _ _ p d r).1 h2)
    · exact runsL_choice_r ((rangeL la true _ _ _ p d r).2 h2) ((rangeL la true _ _ _ p d r).1 (h'.resolve_left h2))

theorem alnumL_fails {la at_ p rest} (h : HeadNot alnum rest) :
    FailsRuleL gList la 4 R.ASCII_ALPHANUMERIC at_ ⟨p, rest⟩ := by
  refine failsRuleL_silent look_ALNUM (notSpecial (by decide) (by decide)) ?_
  exact failsL_choice ((rangeL_fails fun d r he hd => h d r he (Or.inl hd)).mono (by omega : 1 ≤ 2))
    (failsL_choice (rangeL_fails fun d r he hd => h d r he (Or.inr (Or.inl hd)))
      (rangeL_fails fun d r he hd => h d r he (Or.inr (Or.inr hd))))

theorem strL_head_fails {la sk at_ p rest} {x : Char} {xs : List Char} (h : HeadNot (· = x) rest) :
    FailsL gList la 1 sk (.str (x :: xs)) at_ ⟨p, rest⟩ :=
  failsL_str (c := ⟨p, rest⟩) (matchStr_none_of_head h)

theorem nameStartL_runs {la p d r} (h : nameStart d) :
    RunsRuleL gList la 6 R.NameStart .atomic ⟨p, d :: r⟩ ⟨p + 1, r⟩ [] := by
  have key : RunsL gList la 5 false (.choice (.call R.ASCII_ALPHA) (.str ['_'])) .atomic ⟨p, d :: r⟩ ⟨p + 1, r⟩ [] := by
    by_cases ha : alpha d
    · exact runsL_choice_l (runsL_call (alphaL_runs ha))
    · have hu : d = '_' := h.resolve_left ha
      subst hu
      refine runsL_choice_r (failsL_call (alphaL_fails ?_))
        ((runsL_str (c := ⟨p, '_' :: r⟩) (by simp [matchStr])).mono (by omega))
      intro d' r' he; cases he; exact ha
  simpa using runsRuleL_atomic (at_ := .atomic) look_NameStart key

theorem nameStartL_fails {la p rest} (h : HeadNot nameStart rest) : FailsRuleL gList la 6 R.NameStart .atomic ⟨p, rest⟩ := by
  refine failsRuleL_atomic look_NameStart ?_
  refine failsL_choice (failsL_call (alphaL_fails fun d r he ha => h d r he (Or.inl ha))) ?_
  exact (strL_head_fails fun d r he hd => h d r he (Or.inr hd)).mono (by omega)

theorem nameContL_runs {la p d r} (h : nameCont d) :
    RunsRuleL gList la 7 R.NameContinue .atomic ⟨p, d :: r⟩ ⟨p + 1, r⟩ [] := by
  have key : RunsL gList la 6 false (.choice (.call R.ASCII_ALPHANUMERIC) (.str ['_'])) .atomic ⟨p, d :: r⟩ ⟨p + 1, r⟩ [] := by
    by_cases ha : alnum d
    · exact runsL_choice_l (runsL_call (alnumL_runs ha))
    · have hu : d = '_' := h.resolve_left ha
      subst hu
      refine runsL_choice_r (failsL_call (alnumL_fails ?_))
        ((runsL_str (c := ⟨p, '_' :: r⟩) (by simp [matchStr])).mono (by omega))
      intro d' r' he; cases he; exact ha
  simpa using runsRuleL_atomic (at_ := .atomic) look_NameContinue key

theorem nameContL_fails {la p rest} (h : HeadNot nameCont rest) :
    FailsRuleL gList la 7 R.NameContinue .atomic ⟨p, rest⟩ := by
  refine failsRuleL_atomic look_NameContinue ?_
  refine failsL_choice (failsL_call (alnumL_fails fun d r he ha => h d r he (Or.inl ha))) ?_
  exact (strL_head_fails fun d r he hd => h d r he (Or.inr hd)).mono (by omega)

/-! ### keywords `@{ "w" ~ !NameContinue }` -/

theorem matchStr_self_append (w x : List Char) : matchStr w (w ++ x) = some x := by
  induction w with
  | nil => simp [matchStr]
  | cons c cs ih => simp [matchStr, ih]

theorem matchStr_some_iff {w t r : List Char} : matchStr w t = some r ↔ t = w ++ r := by
  constructor
  · exact matchStr_eq
  · rintro rfl; exact matchStr_self_append w r


/-- the keyword rule succeeds on `w` followed by a non-name character -/
theorem keywordL_runs {la : Look} {r : RuleId} {w : List Char} {at_ : Atomicity}
    (hl : gList.look r = some (.atomic, .seq (.str w) (.not (.call R.NameContinue)))) (p : Nat) (rest : List Char)
    (hr : HeadNot nameCont rest) :
    RunsRuleL gList la 12 r at_ ⟨p, w ++ rest⟩ ⟨p + w.length, rest⟩
      (if la = .none ∧ at_ ≠ .atomic then [Pair.mk r p (p + w.length) []] else []) := by
  have hm : matchStr w (w ++ rest) = some rest := matchStr_self_append w rest
  have h1 : RunsL gList la 9 false (.str w) .atomic ⟨p, w ++ rest⟩ ⟨p + w.length, rest⟩ [] :=
    (runsL_str (c := ⟨p, w ++ rest⟩) hm).mono (by omega)
  have h2 : RunsL gList la 9 false (.not (.call R.NameContinue)) .atomic ⟨p + w.length, rest⟩ ⟨p + w.length, rest⟩ [] :=
    runsL_not (failsL_call (nameContL_fails hr))
  have := runsRuleL_atomic (at_ := at_) hl (runsL_seq_noskip (Or.inl rfl) h1 h2)
  simpa using this

/-- the keyword rule fails when the text does not start with `w` -/
theorem keywordL_fails_str {la : Look} {r : RuleId} {w : List Char} {at_ : Atomicity}
    (hl : gList.look r = some (.atomic, .seq (.str w) (.not (.call R.NameContinue)))) (p : Nat) (text : List Char)
    (hm : matchStr w text = none) : FailsRuleL gList la 12 r at_ ⟨p, text⟩ :=
  (failsRuleL_atomic hl (failsL_seq_first (failsL_str (c := ⟨p, text⟩) hm))).mono (by omega)

/-- … and when `w` is followed by a name character -/
theorem keywordL_fails_cont {la : Look} {r : RuleId} {w : List Char} {at_ : Atomicity}
    (hl : gList.look r = some (.atomic, .seq (.str w) (.not (.call R.NameContinue)))) (p : Nat) (d : Char)
    (rest : List Char) (hd : nameCont d) : FailsRuleL gList la 12 r at_ ⟨p, w ++ d :: rest⟩ := by
  have hm : matchStr w (w ++ d :: rest) = some (d :: rest) := matchStr_self_append w _
  have h1 : RunsL gList la 9 false (.str w) .atomic ⟨p, w ++ d :: rest⟩ ⟨p + w.length, d :: rest⟩ [] :=
    (runsL_str (c := ⟨p, w ++ d :: rest⟩) hm).mono (by omega)
  have h2 : FailsL gList la 9 false (.not (.call R.NameContinue)) .atomic ⟨p + w.length, d :: rest⟩ :=
    failsL_not (runsL_call (nameContL_runs hd))
  exact (failsRuleL_atomic hl (failsL_seq_last_noskip (Or.inl rfl) h1 h2)).mono (by omega)

/-- a keyword rule on a valid name `n` (followed by a non-name character) that is not the keyword: fails.
    (`w` consists of name characters.) -/
theorem keywordL_fails_name {la : Look} {r : RuleId} {w : List Char} {at_ : Atomicity}
    (hl : gList.look r = some (.atomic, .seq (.str w) (.not (.call R.NameContinue))))
    (hw : ∀ x ∈ w, nameCont x) (p : Nat) (n rest : List Char) (hn : ∀ x ∈ n, nameCont x) (hne : n ≠ w)
    (hr : HeadNot nameCont rest) : FailsRuleL gList la 12 r at_ ⟨p, n ++ rest⟩ := by
  cases hm : matchStr w (n ++ rest) with
  | none => exact keywordL_fails_str hl p _ hm
  | some x =>
    have he := matchStr_eq hm
    -- n ++ rest = w ++ x: compare lengths
    rcases Nat.lt_trichotomy n.length w.length with hlt | heq | hgt
    · -- the character of `w` at position |n| is the head of `rest`: a name character, contradiction
      exfalso
      have h1 : (n ++ rest).drop n.length = rest := by simp
      have h2 : (w ++ x).drop n.length = w.drop n.length ++ x := by
        rw [List.drop_append_of_le_length (by omega)]
      rw [he, h2] at h1
      cases hwd : w.drop n.length with
      | nil =>
        have : (w.drop n.length).length = w.length - n.length := by simp
        rw [hwd] at this; simp at this; omega
      | cons d ds =>
        rw [hwd] at h1
        have hdm : d ∈ w := List.mem_of_mem_drop (hwd ▸ List.mem_cons_self ..)
        exact hr d (ds ++ x) h1.symm (hw d hdm)
    · exfalso
      have := List.append_inj_left he heq
      exact hne this
    · -- n = w ++ d :: n'
      have h1 : (n ++ rest).take w.length = w := by rw [he]; simp
      have h2 : (n ++ rest).take w.length = n.take w.length := by
        rw [List.take_append_of_le_length (by omega)]
      have hnw : n = w ++ n.drop w.length := by
        conv => lhs; rw [← List.take_append_drop w.length n]
        rw [← h2, h1]
      cases hnd : n.drop w.length with
      | nil =>
        have : (n.drop w.length).length = n.length - w.length := by simp
        rw [hnd] at this; simp at this; omega
      | cons d ds =>
        rw [hnd] at hnw
        have hdm : d ∈ n := by rw [hnw]; simp
        have : n ++ rest = w ++ d :: (ds ++ rest) := by rw [hnw]; simp
        rw [this]
        exact keywordL_fails_cont hl p d _ (hn d hdm)

/-! ### runs of digits -/

theorem digits_star {la : Look} (ds : List Char) : ∀ (p : Nat) (rest : List Char), (∀ x ∈ ds, digit x) → HeadNot digit rest →
    RunsL gList la (ds.length + 4) false (.star (.call R.ASCII_DIGIT)) .atomic ⟨p, ds ++ rest⟩ ⟨p + ds.length, rest⟩ [] := by
  induction ds with
  | nil =>
    intro p rest _ hr
    simpa using runsL_star_nil (failsL_call (digitL_fails (p := p) hr))
  | cons d ds ih =>
    intro p rest hds hr
    have h1 := runsL_call (sk := false) (digitL_runs (la := la) (at_ := .atomic) (p := p) (r := ds ++ rest)
      (hds d (List.mem_cons_self ..)))
    have h2 := ih (p + 1) rest (fun x hx => hds x (List.mem_cons_of_mem _ hx)) hr
    have := runsL_star_cons (h1.mono (by omega : 3 ≤ ds.length + 4)) h2
    simpa [Nat.add_assoc, Nat.add_comm 1] using this

/-! ### the implicit skip over whitespace trivia -/

/-- the characters `WHITESPACE` matches (one character each, except that CR LF is matched as one NEWLINE) -/
def wsChar (d : Char) : Prop :=
  d = Char.ofNat 65279 ∨ d = '\t' ∨ d = ' ' ∨ d = '\n' ∨ d = '\r' ∨ d = ','
instance (d : Char) : Decidable (wsChar d) := by unfold wsChar; infer_instance

theorem wsChar_trivia {d : Char} (h : wsChar d) : trivia d := by
  rcases h with h | h | h | h | h | h
  · exact Or.inl h
  · exact Or.inr (Or.inl h)
  · exact Or.inr (Or.inr (Or.inl h))
  · exact Or.inr (Or.inr (Or.inr (Or.inl h)))
  · exact Or.inr (Or.inr (Or.inr (Or.inr (Or.inl h))))
  · exact Or.inr (Or.inr (Or.inr (Or.inr (Or.inr (Or.inl h)))))

/-- `WHITESPACE` on one whitespace character that is not a CR followed by LF consumes exactly that character -/
theorem ws_one {p : Nat} {d : Char} {r : List Char} (hd : wsChar d) (hcr : d = '\r' → HeadNot (· = '\n') r) :
    RunsRule gList 10 R.WHITESPACE .nonAtomic ⟨p, d :: r⟩ ⟨p + 1, r⟩ [] := by
  have one : ∀ (x : Char) (sk : Bool), x = d → Runs gList 1 sk (.str [x]) .atomic ⟨p, d :: r⟩ ⟨p + 1, r⟩ [] := by
    rintro x sk rfl; exact runs_str (c := ⟨p, x :: r⟩) (by simp [matchStr])
  have no : ∀ (x : Char) (xs : List Char) (sk : Bool), x ≠ d → Fails gList 1 sk (.str (x :: xs)) .atomic ⟨p, d :: r⟩ :=
    fun x xs sk hx => fails_str (c := ⟨p, d :: r⟩) (by simp [matchStr, hx])
  have body : Runs gList 9 false (.choice (.str [Char.ofNat 65279]) (.choice (.str ['\t']) (.choice (.str [' '])
      (.choice (.call R.NEWLINE) (.str [',']))))) .atomic ⟨p, d :: r⟩ ⟨p + 1, r⟩ [] := by
    by_cases h1 : d = Char.ofNat 65279
    · exact (runs_choice_l (one _ _ h1.symm)).mono (by omega)
    refine runs_choice_r ((no _ [] _ (Ne.symm h1)).mono (by omega : 1 ≤ 8)) ?_
    by_cases h2 : d = '\t'
    · exact (runs_choice_l (one _ _ h2.symm)).mono (by omega)
    refine runs_choice_r ((no _ [] _ (Ne.symm h2)).mono (by omega : 1 ≤ 7)) ?_
    by_cases h3 : d = ' '
    · exact (runs_choice_l (one _ _ h3.symm)).mono (by omega)
    refine runs_choice_r ((no _ [] _ (Ne.symm h3)).mono (by omega : 1 ≤ 6)) ?_
    by_cases h4 : d = '\n'
    · -- NEWLINE, first alternative
      refine (runs_choice_l (runs_call (runsRule_silent look_NEWLINE (notSpecial (by decide) (by decide)) ?_))).mono
        (by omega : 5 ≤ 6)
      exact runs_choice_l (one _ _ h4.symm)
    by_cases h5 : d = '\r'
    · -- NEWLINE, third alternative (CR not followed by LF)
      have hnl := hcr h5
      subst h5
      refine (runs_choice_l (runs_call (runsRule_silent look_NEWLINE (notSpecial (by decide) (by decide)) ?_))).mono
        (by omega : 6 ≤ 6)
      refine runs_choice_r ((no '\n' [] _ (by decide)).mono (by omega : 1 ≤ 2)) ?_
      refine runs_choice_r (fails_str (c := ⟨p, '\r' :: r⟩) ?_) (one _ _ rfl)
      cases r with
      | nil => simp [matchStr]
      | cons y ys =>
        have : ¬ '\n' = y := fun e => hnl y ys rfl e.symm
        simp [matchStr, this]
    · have h6 : d = ',' := by
        rcases hd with h | h | h | h | h | h
        · exact absurd h h1
        · exact absurd h h2
        · exact absurd h h3
        · exact absurd h h4
        · exact absurd h h5
        · exact h
      have hnl : FailsRule gList 4 R.NEWLINE .atomic ⟨p, d :: r⟩ := by
        refine failsRule_silent look_NEWLINE (notSpecial (by decide) (by decide)) ?_
        exact fails_choice ((no '\n' [] _ (Ne.symm h4)).mono (by omega : 1 ≤ 2))
          (fails_choice (no '\r' ['\n'] _ (Ne.symm h5)) (no '\r' [] _ (Ne.symm h5)))
      exact runs_choice_r (fails_call hnl) ((one _ _ h6.symm).mono (by omega))
  intro tr
  obtain ⟨tr1, h1⟩ := body { tr with steps := tr.steps + 1 }
  refine ⟨tr1, fun f hf => ?_⟩
  obtain ⟨f', rfl⟩ : ∃ f', f = f' + 1 := ⟨f - 1, by omega⟩
  simp only [callRule, look_WHITESPACE, ws_cm.1, true_or, if_true, h1 f' (by omega)]

/-- … and on CR LF it consumes both -/
theorem ws_crlf {p : Nat} {r : List Char} :
    RunsRule gList 10 R.WHITESPACE .nonAtomic ⟨p, '\r' :: '\n' :: r⟩ ⟨p + 2, r⟩ [] := by
  have no : ∀ (x : Char) (xs : List Char) (sk : Bool), x ≠ '\r' →
      Fails gList 1 sk (.str (x :: xs)) .atomic ⟨p, '\r' :: '\n' :: r⟩ :=
    fun x xs sk hx => fails_str (c := ⟨p, '\r' :: '\n' :: r⟩) (by simp [matchStr, hx])
  have hnl : RunsRule gList 4 R.NEWLINE .atomic ⟨p, '\r' :: '\n' :: r⟩ ⟨p + 2, r⟩ [] := by
    refine runsRule_silent look_NEWLINE (notSpecial (by decide) (by decide)) ?_
    refine runs_choice_r ((no '\n' [] _ (by decide)).mono (by omega : 1 ≤ 2)) ?_
    exact runs_choice_l (runs_str (c := ⟨p, '\r' :: '\n' :: r⟩) (by simp [matchStr]))
  have body : Runs gList 9 false (.choice (.str [Char.ofNat 65279]) (.choice (.str ['\t']) (.choice (.str [' '])
      (.choice (.call R.NEWLINE) (.str [',']))))) .atomic ⟨p, '\r' :: '\n' :: r⟩ ⟨p + 2, r⟩ [] := by
    refine runs_choice_r ((no _ [] _ (by decide)).mono (by omega : 1 ≤ 8)) ?_
    refine runs_choice_r ((no _ [] _ (by decide)).mono (by omega : 1 ≤ 7)) ?_
    refine runs_choice_r ((no _ [] _ (by decide)).mono (by omega : 1 ≤ 6)) ?_
    exact (runs_choice_l (runs_call hnl)).mono (by omega)
  intro tr
  obtain ⟨tr1, h1⟩ := body { tr with steps := tr.steps + 1 }
  refine ⟨tr1, fun f hf => ?_⟩
  obtain ⟨f', rfl⟩ : ∃ f', f = f' + 1 := ⟨f - 1, by omega⟩
  simp only [callRule, look_WHITESPACE, ws_cm.1, true_or, if_true, h1 f' (by omega)]

/-- WHITESPACE fails in front of a character it does not match; COMMENT in front of a non-trivia character -/
theorem ws_fails {p rest} (h : HeadNot wsChar rest) : FailsRule gList 10 R.WHITESPACE .nonAtomic ⟨p, rest⟩ := by
  have fs : ∀ (x : Char) (xs : List Char) (at_ : Atomicity) (sk : Bool), wsChar x →
      Fails gList 1 sk (.str (x :: xs)) at_ ⟨p, rest⟩ := fun x xs at_ sk hx =>
    fails_str (c := ⟨p, rest⟩) (matchStr_none_of_head fun d r he hd => h d r he (hd ▸ hx))
  have hnl : FailsRule gList 4 R.NEWLINE .atomic ⟨p, rest⟩ := by
    refine failsRule_silent look_NEWLINE (notSpecial (by decide) (by decide)) ?_
    exact fails_choice ((fs '\n' [] _ _ (by simp [wsChar])).mono (by omega : 1 ≤ 2))
      (fails_choice (fs '\r' ['\n'] _ _ (by simp [wsChar])) (fs '\r' [] _ _ (by simp [wsChar])))
  have e4 : Fails gList 6 false (.choice (.call R.NEWLINE) (.str [','])) .atomic ⟨p, rest⟩ :=
    fails_choice (fails_call hnl) ((fs ',' [] _ _ (by simp [wsChar])).mono (by omega))
  have e3 : Fails gList 7 false (.choice (.str [' ']) (.choice (.call R.NEWLINE) (.str [',']))) .atomic ⟨p, rest⟩ :=
    fails_choice ((fs ' ' [] _ _ (by simp [wsChar])).mono (by omega)) e4
  have e2 : Fails gList 8 false (.choice (.str ['\t']) (.choice (.str [' ']) (.choice (.call R.NEWLINE) (.str [','])))) .atomic
      ⟨p, rest⟩ := fails_choice ((fs '\t' [] _ _ (by simp [wsChar])).mono (by omega)) e3
  exact failsRule_special look_WHITESPACE (Or.inl ws_cm.1)
    (fails_choice ((fs (Char.ofNat 65279) [] _ _ (by simp [wsChar])).mono (by omega)) e2)

theorem cm_fails {p rest} (h : HeadNot trivia rest) : FailsRule gList 10 R.COMMENT .nonAtomic ⟨p, rest⟩ := by
  obtain ⟨tl, hl⟩ := look_COMMENT
  refine (failsRule_special hl (Or.inr ws_cm.2) (fails_seq_first (fails_str (c := ⟨p, rest⟩) ?_))).mono (by omega)
  exact matchStr_none_of_head fun d r he hd => h d r he (hd ▸ (by simp [trivia]))

/-- a run of whitespace trivia: characters `WHITESPACE` matches -/
def WsRun (t : List Char) : Prop := ∀ x ∈ t, wsChar x

/-- `WHITESPACE*` consumes a whole run of whitespace trivia (strong induction on its length: CR LF is one step) -/
theorem ws_star : ∀ (n : Nat) (t : List Char), t.length ≤ n → WsRun t → ∀ (p : Nat) (rest : List Char), HeadNot wsChar rest →
    Runs gList (t.length + 12) false (.star (.call R.WHITESPACE)) .nonAtomic ⟨p, t ++ rest⟩ ⟨p + t.length, rest⟩ [] := by
  intro n
  induction n with
  | zero =>
    intro t ht _ p rest hr
    have : t = [] := List.length_eq_zero_iff.mp (by omega)
    subst this
    simpa using (runs_star_nil (fails_call (ws_fails (p := p) hr))).mono (by omega : 12 ≤ 12)
  | succ n ih =>
    intro t ht hws p rest hr
    cases t with
    | nil => simpa using (runs_star_nil (fails_call (ws_fails (p := p) hr))).mono (by omega : 12 ≤ 12)
    | cons d t =>
      have hd := hws d (List.mem_cons_self ..)
      have hws' : WsRun t := fun x hx => hws x (List.mem_cons_of_mem _ hx)
      by_cases hcrlf : d = '\r' ∧ ∃ t', t = '\n' :: t'
      · obtain ⟨rfl, t', rfl⟩ := hcrlf
        have hws'' : WsRun t' := fun x hx => hws' x (List.mem_cons_of_mem _ hx)
        have h1 := runs_call (sk := false) (ws_crlf (p := p) (r := t' ++ rest))
        have h2 := ih t' (by simp at ht; omega) hws'' (p + 2) rest hr
        have := runs_star_cons (h1.mono (by omega : 11 ≤ t'.length + 12)) h2
        simp only [List.append_nil] at this
        have e1 : ('\r' :: '\n' :: t') ++ rest = '\r' :: '\n' :: (t' ++ rest) := rfl
        have e2 : p + ('\r' :: '\n' :: t').length = p + 2 + t'.length := by simp; omega
        rw [e1, e2]
        exact this.mono (by simp)
      · have hcr : d = '\r' → HeadNot (· = '\n') (t ++ rest) := by
          intro hdr y ys he hy
          subst hy
          cases t with
          | nil =>
            simp only [List.nil_append] at he
            exact hr '\n' ys he (by simp [wsChar])
          | cons z zs =>
            simp only [List.cons_append, List.cons.injEq] at he
            exact hcrlf ⟨hdr, zs, by rw [he.1]⟩
        have h1 := runs_call (sk := false) (ws_one (p := p) (r := t ++ rest) hd hcr)
        have h2 := ih t (by simp at ht; omega) hws' (p + 1) rest hr
        have := runs_star_cons (h1.mono (by omega : 11 ≤ t.length + 12)) h2
        simp only [List.append_nil] at this
        have e1 : (d :: t) ++ rest = d :: (t ++ rest) := rfl
        have e2 : p + (d :: t).length = p + 1 + t.length := by simp; omega
        rw [e1, e2]
        exact this.mono (by simp)

/-- the implicit skip moves over a run of whitespace trivia -/
def SkipTo (n : Nat) (c c' : Cur) : Prop :=
  ∀ tr, ∃ tr', ∀ f, n ≤ f → doSkip gList f true .nonAtomic .none tr c = (tr', .ok c' [])

theorem SkipTo.mono {n m c c'} (h : SkipTo n c c') (hnm : n ≤ m) : SkipTo m c c' :=
  fun tr => let ⟨tr', h'⟩ := h tr; ⟨tr', fun f hf => h' f (Nat.le_trans hnm hf)⟩

theorem skip_wsrun (t : List Char) (hws : WsRun t) (p : Nat) (rest : List Char) (hr : HeadNot trivia rest) :
    SkipTo (t.length + 20) ⟨p, t ++ rest⟩ ⟨p + t.length, rest⟩ := by
  have hW := ws_star t.length t (Nat.le_refl _) hws p rest (headNot_mono (fun _ h => wsChar_trivia h) hr)
  have hC : Runs gList (t.length + 13) false (.star (.seq (.call R.COMMENT) (.star (.call R.WHITESPACE)))) .nonAtomic
      ⟨p + t.length, rest⟩ ⟨p + t.length, rest⟩ [] :=
    (runs_star_nil (fails_seq_first (fails_call (cm_fails (p := p + t.length) hr)))).mono (by omega)
  have hS := runs_seq_nosk (hW.mono (by omega : t.length + 12 ≤ t.length + 13)) hC
  intro tr
  obtain ⟨tr1, h⟩ := hS tr
  refine ⟨tr1, fun f hf => ?_⟩
  obtain ⟨f', rfl⟩ : ∃ f', f = f' + 1 := ⟨f - 1, by omega⟩
  simp only [doSkip, and_self, if_true, G.skipExpr, ws_cm.1, ws_cm.2]
  simpa using h f' (by omega)

/-- sequence with a real skip between the two items -/
theorem runs_seq_skip {n a b c c1 c1' c2 p1 p3} (ha : Runs gList n true a .nonAtomic c c1 p1)
    (hs : SkipTo n c1 c1') (hb : Runs gList n true b .nonAtomic c1' c2 p3) :
    Runs gList (n + 1) true (.seq a b) .nonAtomic c c2 (p1 ++ p3) := by
  intro tr
  obtain ⟨tr1, h1⟩ := ha tr
  obtain ⟨tr2, h2⟩ := hs tr1
  obtain ⟨tr3, h3⟩ := hb tr2
  refine ⟨tr3, fun f hf => ?_⟩
  obtain ⟨f', rfl⟩ : ∃ f', f = f' + 1 := ⟨f - 1, by omega⟩
  simp only [eval, h1 f' (by omega), h2 f' (by omega), h3 f' (by omega), List.append_nil]

theorem fails_seq_skip_last {n a b c c1 c1' p1} (ha : Runs gList n true a .nonAtomic c c1 p1)
    (hs : SkipTo n c1 c1') (hb : Fails gList n true b .nonAtomic c1') :
    Fails gList (n + 1) true (.seq a b) .nonAtomic c := by
  intro tr
  obtain ⟨tr1, h1⟩ := ha tr
  obtain ⟨tr2, h2⟩ := hs tr1
  obtain ⟨tr3, h3⟩ := hb tr2
  refine ⟨tr3, fun f hf => ?_⟩
  obtain ⟨f', rfl⟩ : ∃ f', f = f' + 1 := ⟨f - 1, by omega⟩
  simp only [eval, h1 f' (by omega), h2 f' (by omega), h3 f' (by omega)]

theorem RunsRule.cast {n r at_ c c' ps d d' qs} (h : RunsRule gList n r at_ c c' ps) (h1 : c = d) (h2 : c' = d')
    (h3 : ps = qs) : RunsRule gList n r at_ d d' qs := h1 ▸ h2 ▸ h3 ▸ h

theorem Runs.cast {n sk e at_ c c' ps d d' qs} (h : Runs gList n sk e at_ c c' ps) (h1 : c = d) (h2 : c' = d')
    (h3 : ps = qs) : Runs gList n sk e at_ d d' qs := h1 ▸ h2 ▸ h3 ▸ h

/-! ### the combinators with `max` of the premises' thresholds (no manual `.mono`) -/

theorem fails_choice' {n m sk a b at_ c} (ha : Fails gList n sk a at_ c) (hb : Fails gList m sk b at_ c) :
    Fails gList (max n m + 1) sk (.choice a b) at_ c :=
  fails_choice (ha.mono (Nat.le_max_left ..)) (hb.mono (Nat.le_max_right ..))

theorem runs_choice_r' {n m sk a b at_ c c' ps} (ha : Fails gList n sk a at_ c) (hb : Runs gList m sk b at_ c c' ps) :
    Runs gList (max n m + 1) sk (.choice a b) at_ c c' ps :=
  runs_choice_r (ha.mono (Nat.le_max_left ..)) (hb.mono (Nat.le_max_right ..))

theorem runs_seq_nosk' {n m a b at_ c c1 c2 p1 p3} (ha : Runs gList n false a at_ c c1 p1)
    (hb : Runs gList m false b at_ c1 c2 p3) : Runs gList (max n m + 2) false (.seq a b) at_ c c2 (p1 ++ p3) :=
  runs_seq_nosk (ha.mono (Nat.le_max_left ..)) (hb.mono (Nat.le_max_right ..))

theorem runs_seq_skip' {n k m a b c c1 c1' c2 p1 p3} (ha : Runs gList n true a .nonAtomic c c1 p1)
    (hs : SkipTo k c1 c1') (hb : Runs gList m true b .nonAtomic c1' c2 p3) :
    Runs gList (max n (max k m) + 1) true (.seq a b) .nonAtomic c c2 (p1 ++ p3) :=
  runs_seq_skip (ha.mono (Nat.le_max_left ..)) (hs.mono (Nat.le_trans (Nat.le_max_left ..) (Nat.le_max_right ..)))
    (hb.mono (Nat.le_trans (Nat.le_max_right ..) (Nat.le_max_right ..)))

theorem fails_seq_skip_last' {n k m a b c c1 c1' p1} (ha : Runs gList n true a .nonAtomic c c1 p1)
    (hs : SkipTo k c1 c1') (hb : Fails gList m true b .nonAtomic c1') :
    Fails gList (max n (max k m) + 1) true (.seq a b) .nonAtomic c :=
  fails_seq_skip_last (ha.mono (Nat.le_max_left ..)) (hs.mono (Nat.le_trans (Nat.le_max_left ..) (Nat.le_max_right ..)))
    (hb.mono (Nat.le_trans (Nat.le_max_right ..) (Nat.le_max_right ..)))

/-- a skip that does nothing (next character is not trivia), as a `SkipTo` -/
theorem skipTo_noop {p : Nat} {rest : List Char} (h : HeadNot trivia rest) : SkipTo 20 ⟨p, rest⟩ ⟨p, rest⟩ := by
  have := skip_wsrun [] (fun _ hx => by cases hx) p rest h
  simpa using this

/-- equality of two cursors up to list / arithmetic normalisation -/
macro "cur_eq" : tactic =>
  `(tactic| first
    | rfl
    | (congr 1 <;> first | rfl | omega | (simp; done) | (simp; omega) | (simp [Nat.add_assoc]; done)))

end NitroVerif.ValueParse
