import NitroVerif.Model.GqlPrint
import NitroVerif.Spec.GqlString
/-!
Helper lemmas for C16: the single-line (quoted) form of `print_string` against the GraphQL `StringValue` semantics.
-/
namespace NitroVerif.GqlPrint
open NitroVerif.GqlString

/-- the double quote character (named so that property files need not spell the literal) -/
abbrev dquote : Char := Char.ofNat 34

theorem hexVal_hexDigit : ∀ k : Fin 16, hexVal (hexDigit k.val) = some k.val := by decide

theorem hexVal_hexDigit' (k : Nat) (h : k < 16) : hexVal (hexDigit k) = some k :=
  hexVal_hexDigit ⟨k, h⟩

theorem hexDigit_ne_brace (k : Nat) (h : k < 16) : hexDigit k ≠ '}' := by
  have : ∀ k : Fin 16, hexDigit k.val ≠ '}' := by decide
  exact this ⟨k, h⟩

theorem hexLower_small (n : Nat) (h : n < 16) : hexLower n = [hexDigit n] := by
  simp [hexLower, hexLowerAux, h]

theorem hexLower_two (n : Nat) (h1 : 16 ≤ n) (h2 : n < 256) : hexLower n = [hexDigit (n / 16), hexDigit (n % 16)] := by
  have h3 : ¬ n < 16 := by omega
  have h4 : n / 16 < 16 := by omega
  simp [hexLower, hexLowerAux, h3, h4]

theorem isControl_lt (c : Char) (h : isControl c = true) : c.toNat < 160 := by
  simp [isControl] at h; omega

theorem codePoint_toNat (c : Char) (h : c.toNat < 160) : codePoint c.toNat = some c := by
  have h1 : c.toNat ≤ 0x10FFFF := by omega
  have h2 : isSurrogate c.toNat = false := by simp [isSurrogate]; omega
  simp [codePoint, h1, h2, Char.ofNat_toNat]

/-- reading the `\u{…}` escape the printer writes for a control character -/
theorem quotedRun_control (c : Char) (h : isControl c = true) (rest : List Char) :
    quotedRun .normal (['\\', 'u', '{'] ++ hexLower c.toNat ++ ['}'] ++ rest) = (quotedRun .normal rest).map (c :: ·) := by
  have hlt := isControl_lt c h
  have hcp := codePoint_toNat c hlt
  by_cases h16 : c.toNat < 16
  · rw [hexLower_small _ h16]
    have hv := hexVal_hexDigit' _ h16
    have hb := hexDigit_ne_brace _ h16
    have hle : c.toNat ≤ 1114111 := by omega
    simp [quotedRun, step, hv, hcp, hb, hle]
    cases quotedRun St.normal rest <;> rfl
  · have h1 : 16 ≤ c.toNat := by omega
    rw [hexLower_two _ h1 (by omega)]
    have hv1 := hexVal_hexDigit' (c.toNat / 16) (by omega)
    have hv2 := hexVal_hexDigit' (c.toNat % 16) (by omega)
    have hsum : c.toNat / 16 * 16 + c.toNat % 16 = c.toNat := by omega
    have hle : c.toNat / 16 * 16 + c.toNat % 16 ≤ 1114111 := by omega
    have hle1 : c.toNat / 16 ≤ 1114111 := by omega
    have hle2 : c.toNat ≤ 1114111 := by omega
    have hb1 := hexDigit_ne_brace (c.toNat / 16) (by omega)
    have hb2 := hexDigit_ne_brace (c.toNat % 16) (by omega)
    simp [quotedRun, step, hv1, hv2, hsum, hle, hle1, hle2, hcp, hb1, hb2]
    cases quotedRun St.normal rest <;> rfl

/-- one printed character reads back as itself (any character but the double quote) -/
theorem quotedRun_quotedChar (c : Char) (hq : c ≠ '"') (rest : List Char) :
    quotedRun .normal (quotedChar c ++ rest) = (quotedRun .normal rest).map (c :: ·) := by
  unfold quotedChar
  by_cases h1 : c = '\\'
  · subst h1
    simp [quotedRun, step, escaped]
    cases quotedRun St.normal rest <;> rfl
  · by_cases h2 : c = '\r'
    · subst h2
      simp [quotedRun, step, escaped]
      cases quotedRun St.normal rest <;> rfl
    · by_cases h3 : c = '\n'
      · subst h3
        simp [quotedRun, step, escaped]
        cases quotedRun St.normal rest <;> rfl
      · by_cases h4 : isControl c = true
        · simp only [h1, h2, h3, h4, if_false, if_true]
          have := quotedRun_control c h4 rest
          simpa using this
        · have hsrc : sourceChar c = true := by
            simp [isControl] at h4
            simp [sourceChar]
            omega
          simp [h1, h2, h3, h4, quotedRun, step, hq, hsrc]
          all_goals (cases quotedRun St.normal rest <;> rfl)

theorem quotedRun_quotedBody (s : List Char) (hq : ∀ c ∈ s, c ≠ '"') :
    quotedRun .normal (quotedBody s ++ ['"']) = some s := by
  induction s with
  | nil => simp [quotedBody, quotedRun, step]
  | cons c cs ih =>
    have hc : c ≠ '"' := hq c (by simp)
    have hcs : ∀ x ∈ cs, x ≠ '"' := fun x hx => hq x (by simp [hx])
    rw [quotedBody, List.append_assoc, quotedRun_quotedChar c hc, ih hcs]
    rfl

/-- the first character the printer writes for `c` is not a double quote -/
theorem quotedChar_head (c : Char) (hq : c ≠ '"') : ∃ x xs, quotedChar c = x :: xs ∧ x ≠ '"' := by
  unfold quotedChar
  by_cases h1 : c = '\\'
  · exact ⟨'\\', ['\\'], by simp [h1], by decide⟩
  · by_cases h2 : c = '\r'
    · exact ⟨'\\', ['r'], by simp [h2], by decide⟩
    · by_cases h3 : c = '\n'
      · exact ⟨'\\', ['n'], by simp [h3], by decide⟩
      · by_cases h4 : isControl c = true
        · exact ⟨'\\', _, by simp only [h1, h2, h3, h4, if_false, if_true]; rfl, by decide⟩
        · exact ⟨c, [], by simp [h1, h2, h3, h4], hq⟩

theorem decode_printQuoted (s : List Char) (hq : ∀ c ∈ s, c ≠ '"') :
    decodeStringLiteral (printQuoted s) = some s := by
  unfold printQuoted
  cases s with
  | nil => simp [quotedBody, decodeStringLiteral, quotedRun, step]
  | cons c cs =>
    have hc : c ≠ '"' := hq c (by simp)
    obtain ⟨x, xs, hx, hxq⟩ := quotedChar_head c hc
    have hrun := quotedRun_quotedBody (c :: cs) hq
    have hshape : quotedBody (c :: cs) ++ ['"'] = x :: (xs ++ (quotedBody cs ++ ['"'])) := by
      simp [quotedBody, hx]
    rw [hshape] at hrun ⊢
    unfold decodeStringLiteral
    split
    · rename_i heq
      simp at heq
      exact absurd heq.1 hxq
    · rename_i heq
      simp at heq
      rw [← heq]
      exact hrun
    · rename_i h1 h2
      exact absurd rfl (h2 _)

/-- nothing the printer writes for a string is a carriage return -/
theorem quotedChar_no_cr (c : Char) : ∀ x ∈ quotedChar c, x ≠ '\r' := by
  unfold quotedChar
  by_cases h1 : c = '\\'
  · simp [h1]
  · by_cases h2 : c = '\r'
    · simp [h2]
    · by_cases h3 : c = '\n'
      · simp [h3]
      · by_cases h4 : isControl c = true
        · simp only [h1, h2, h3, h4, if_false, if_true]
          intro x hx
          simp only [List.mem_append, List.mem_cons, List.mem_nil_iff, or_false] at hx
          rcases hx with ((hx | hx | hx) | hx) | hx
          · subst hx; decide
          · subst hx; decide
          · subst hx; decide
          · -- a hexadecimal digit
            have hlt := isControl_lt c h4
            by_cases h16 : c.toNat < 16
            · rw [hexLower_small _ h16] at hx
              simp at hx; subst hx
              have : ∀ k : Fin 16, hexDigit k.val ≠ '\r' := by decide
              exact this ⟨_, h16⟩
            · rw [hexLower_two _ (by omega) (by omega)] at hx
              have : ∀ k : Fin 16, hexDigit k.val ≠ '\r' := by decide
              simp at hx
              rcases hx with hx | hx
              · subst hx; exact this ⟨_, by omega⟩
              · subst hx; exact this ⟨_, by omega⟩
          · subst hx; decide
        · simp [h1, h2, h3, h4]
          all_goals exact h2

end NitroVerif.GqlPrint
