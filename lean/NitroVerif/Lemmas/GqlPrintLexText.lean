import NitroVerif.Lemmas.GqlPrintLex
/-!
C16, character level (continued): the text `JustWriter` writes for a token sequence, token by token, and the main
induction `lexText_runOps`: lexing the written text gives the lexical tokens the printer tokens stand for.
-/
namespace NitroVerif.C16
open NitroVerif.Gql NitroVerif.GqlPrint NitroVerif.GqlTokens NitroVerif.GqlString NitroVerif.JsTemplate
open NitroVerif.GqlLexer

/-! ### what makes a token sequence lexable -/

/-- a GraphQL Name -/
def validName : List Char → Bool
  | [] => false
  | c :: cs => nameStart c && cs.all nameContinue

/-- one of the punctuators `! $ & ( ) ... : = @ [ ] { | }` -/
def punctOK (s : String) : Bool :=
  match s.toList with
  | [c] => punct1 c
  | ['.', '.', '.'] => true
  | _ => false

/-- the first character a token writes -/
def chunkHead : Tok → Option Char
  | .p s | .name s | .int s | .float s | .lay s => s.toList.head?
  | .var _ => some '$'
  | .str _ => some '"'
  | .ind | .ded => none

/-- the first character the tokens write (`nxt` if they write nothing), indentation not counted -/
def firstCharK (nxt : Option Char) : List Tok → Option Char
  | [] => nxt
  | t :: ts =>
    match chunkHead t with
    | some c => some c
    | none => firstCharK nxt ts

def ocAll (p : Char → Bool) : Option Char → Bool
  | none => true
  | some c => p c

/-- the character after the token (if any) ends it: the lookahead restrictions of Name, IntValue / FloatValue and of
    the empty string -/
def followOK : Tok → Option Char → Bool
  | .name _, oc | .var _, oc => ocAll (fun c => !nameContinue c) oc
  | .int _, oc | .float _, oc => ocAll (fun c => !(isDigit c || c = '.' || nameStart c)) oc
  | .str _, oc => ocAll (fun c => c != '"') oc
  | _, _ => true

/-- tokens whose text the printer fixes: punctuators are punctuators, layout is `Ignored` -/
def fixedOK : Tok → Bool
  | .p s => punctOK s
  | .lay s => s.toList.all isIgnored
  | _ => true

/-- tokens whose text comes from the document: names are Names, numbers are IntValue / FloatValue texts -/
def dataOK : Tok → Bool
  | .name s | .var s => validName s.toList
  | .int s => validInt s.toList
  | .float s => validFloat s.toList
  | _ => true

/-- every token is followed by a character that ends it; `nxt` = the first character after the sequence -/
def LexableK (nxt : Option Char) : List Tok → Bool
  | [] => true
  | t :: ts => fixedOK t && followOK t (firstCharK nxt ts) && LexableK nxt ts

/-! ### character classes are disjoint -/

theorem nameStart_class (c : Char) (h : nameStart c = true) :
    isIgnored c = false ∧ c ≠ '#' ∧ punct1 c = false ∧ c ≠ '.' := by
  refine ⟨?_, ?_, ?_, ?_⟩
  · cases hi : isIgnored c with
    | false => rfl
    | true =>
      simp only [isIgnored, Bool.decide_or, Bool.or_eq_true, decide_eq_true_eq] at hi
      rcases hi with rfl | rfl | rfl | rfl | rfl | rfl <;> revert h <;> decide
  · rintro rfl; revert h; decide
  · cases hi : punct1 c with
    | false => rfl
    | true =>
      simp only [punct1, Bool.decide_or, Bool.or_eq_true, decide_eq_true_eq] at hi
      rcases hi with rfl | rfl | rfl | rfl | rfl | rfl | rfl | rfl | rfl | rfl | rfl | rfl | rfl <;>
        revert h <;> decide
  · rintro rfl; revert h; decide

theorem isDigit_class (c : Char) (h : isDigit c = true) :
    isIgnored c = false ∧ c ≠ '#' ∧ punct1 c = false ∧ c ≠ '.' ∧ nameStart c = false := by
  have hr : 48 ≤ c.toNat ∧ c.toNat ≤ 57 := by
    simp only [isDigit, Bool.decide_and, Bool.and_eq_true, decide_eq_true_eq] at h
    exact ⟨h.1, h.2⟩
  have key : ∀ d : Char, d.toNat < 48 ∨ 57 < d.toNat → c ≠ d := by
    intro d hd e; subst e; omega
  refine ⟨?_, key '#' (by decide), ?_, key '.' (by decide), ?_⟩
  · cases hi : isIgnored c with
    | false => rfl
    | true =>
      simp only [isIgnored, Bool.decide_or, Bool.or_eq_true, decide_eq_true_eq] at hi
      rcases hi with rfl | rfl | rfl | rfl | rfl | rfl <;> revert h <;> decide
  · cases hi : punct1 c with
    | false => rfl
    | true =>
      simp only [punct1, Bool.decide_or, Bool.or_eq_true, decide_eq_true_eq] at hi
      rcases hi with rfl | rfl | rfl | rfl | rfl | rfl | rfl | rfl | rfl | rfl | rfl | rfl | rfl <;>
        revert h <;> decide
  · cases hn : nameStart c with
    | false => rfl
    | true =>
      exfalso
      simp only [nameStart, isLetter, Bool.decide_or, Bool.decide_and, Bool.or_eq_true, Bool.and_eq_true,
        decide_eq_true_eq] at hn
      have e1 : ('a' : Char).toNat = 97 := by decide
      have e2 : ('z' : Char).toNat = 122 := by decide
      have e3 : ('A' : Char).toNat = 65 := by decide
      have e4 : ('Z' : Char).toNat = 90 := by decide
      rcases hn with (⟨h1, _⟩ | ⟨h2, _⟩) | rfl
      · have : 97 ≤ c.toNat := h1; omega
      · have : 65 ≤ c.toNat := h2; omega
      · revert h; decide

theorem punct1_class (c : Char) (h : punct1 c = true) : isIgnored c = false ∧ c ≠ '#' := by
  simp only [punct1, Bool.decide_or, Bool.or_eq_true, decide_eq_true_eq] at h
  rcases h with rfl | rfl | rfl | rfl | rfl | rfl | rfl | rfl | rfl | rfl | rfl | rfl | rfl <;>
    exact ⟨by decide, by decide⟩

/-! ### one token of text -/

theorem lexText_skip (A R : List Char) (hA : ∀ c ∈ A, isIgnored c = true) (f : Nat) :
    lexText (f + A.length) (A ++ R) = lexText f R := by
  induction A with
  | nil => simp
  | cons a as ih =>
    have := ih (fun x hx => hA x (by simp [hx]))
    rw [show f + (a :: as).length = (f + as.length) + 1 by simp; omega]
    simp only [List.cons_append, lexText, hA a (by simp), if_true, this]

theorem lexText_name (n R : List Char) (hn : validName n = true) (hR : nameFollowOK R = true) (f : Nat) :
    lexText (f + 1) (n ++ R) = (lexText f R).map (LTok.name (String.ofList n) :: ·) := by
  cases n with
  | nil => simp [validName] at hn
  | cons c cs =>
    simp only [validName, Bool.and_eq_true, List.all_eq_true] at hn
    obtain ⟨h1, h2, h3, h4⟩ := nameStart_class c hn.1
    have hsp := spanName_append cs R hn.2 hR
    simp only [List.cons_append, lexText, h1, h2, h3, h4, hn.1, hsp, Bool.false_eq_true, if_false, if_true]

theorem lexText_punct (s : String) (R : List Char) (hs : punctOK s = true) (f : Nat) :
    lexText (f + 1) (s.toList ++ R) = (lexText f R).map (LTok.p s :: ·) := by
  have hss : String.ofList s.toList = s := String.ofList_toList
  unfold punctOK at hs
  split at hs
  · rename_i c heq
    obtain ⟨h1, h2⟩ := punct1_class c hs
    rw [heq] at hss
    simp only [heq, List.cons_append, List.nil_append, lexText, h1, h2, hs, hss, Bool.false_eq_true, if_false, if_true]
  · rename_i heq
    rw [heq] at hss
    have hd : ("..." : String) = String.ofList ['.', '.', '.'] := by decide
    simp only [heq, List.cons_append, List.nil_append, lexText, show isIgnored '.' = false by decide,
      show ('.' = '#') = False by decide, show punct1 '.' = false by decide, Bool.false_eq_true, if_false, if_true,
      hd, hss]
  · simp at hs

theorem lexText_number (s R : List Char) (tok : LTok) (hlex : lexNumber (s ++ R) = some (tok, R))
    (hhead : ∃ c cs, s = c :: cs ∧ (c = '-' ∨ isDigit c = true)) (f : Nat) :
    lexText (f + 1) (s ++ R) = (lexText f R).map (tok :: ·) := by
  obtain ⟨c, cs, rfl, hc⟩ := hhead
  have hcls : isIgnored c = false ∧ c ≠ '#' ∧ punct1 c = false ∧ c ≠ '.' ∧ nameStart c = false := by
    rcases hc with rfl | hc
    · exact ⟨by decide, by decide, by decide, by decide, by decide⟩
    · exact isDigit_class c hc
  obtain ⟨h1, h2, h3, h4, h5⟩ := hcls
  have hc' : (c = '-' ∨ isDigit c = true) = True := by simp [hc]
  simp only [List.cons_append] at hlex ⊢
  simp only [lexText, h1, h2, h3, h4, h5, hc', hlex, Bool.false_eq_true, if_false, if_true]

theorem lexText_string (cs R v : List Char) (h : lexString (cs ++ R) = some (v, R)) (f : Nat) :
    lexText (f + 1) ('"' :: (cs ++ R)) = (lexText f R).map (LTok.str (String.ofList v) :: ·) := by
  simp only [lexText, show isIgnored '"' = false by decide, show ('"' = '#') = False by decide,
    show punct1 '"' = false by decide, show ('"' = '.') = False by decide, show nameStart '"' = false by decide,
    show ('"' = '-' ∨ isDigit '"' = true) = False by decide, h, Bool.false_eq_true, if_false, if_true]

/-! ### the writer, chunk by chunk -/

theorem writeChars_plain (k : Nat) (c : List Char) (hc : ∀ x ∈ c, x ≠ '\n') (hne : c ≠ []) : ∀ (fl d : Bool),
    writeChars false ⟨k, fl⟩ d c = (pre k fl ++ c, ⟨k, false⟩) := by
  induction c with
  | nil => exact absurd rfl hne
  | cons x xs ih =>
    intro fl d
    have hx : x ≠ '\n' := hc x (by simp)
    cases xs with
    | nil =>
      simp only [writeChars, hx, if_false, Bool.false_eq_true, pre, spaces]
      cases fl <;> simp
    | cons y ys =>
      have := ih (fun z hz => hc z (by simp [hz])) (by simp) false (x == '$')
      simp only [writeChars, hx, if_false, Bool.false_eq_true] at this ⊢
      simp only [this, pre, spaces]
      cases fl <;> simp [pre]

theorem writeChars_ignored (s : List Char) (hs : ∀ c ∈ s, isIgnored c = true) : ∀ (st : WSt) (d : Bool),
    ∀ x ∈ (writeChars false st d s).1, isIgnored x = true := by
  induction s with
  | nil => intro st d x hx; simp [writeChars] at hx
  | cons c cs ih =>
    intro st d x hx
    have hcs : ∀ y ∈ cs, isIgnored y = true := fun y hy => hs y (by simp [hy])
    simp only [writeChars] at hx
    split at hx
    · simp only [List.mem_cons] at hx
      rcases hx with rfl | hx
      · decide
      · exact ih hcs _ _ x hx
    · simp only [Bool.false_eq_true, if_false, List.mem_append, List.mem_cons, List.mem_nil_iff, or_false] at hx
      rcases hx with (hx | rfl) | hx
      · split at hx
        · rw [(List.mem_replicate.mp hx).2]; decide
        · simp at hx
      · exact hs x (by simp)
      · exact ih hcs _ _ x hx

/-- the first character written for a non-empty chunk is its first character, or a blank of the indentation -/
theorem head_writeChars (st : WSt) (d : Bool) (x : Char) (xs T : List Char) :
    ((writeChars false st d (x :: xs)).1 ++ T).head? = some x ∨
    ((writeChars false st d (x :: xs)).1 ++ T).head? = some ' ' := by
  simp only [writeChars]
  split
  · rename_i h; left; simp [h]
  · simp only [Bool.false_eq_true, if_false]
    by_cases hf : st.flag = true
    · cases hk : st.indent with
      | zero => left; simp [hf, hk]
      | succ m => right; simp [hf, hk, List.replicate_succ]
    · left; simp [hf]

theorem ops_cons (t : Tok) (ts : List Tok) : ops (t :: ts) = t.ops ++ ops ts := by simp [ops]

theorem runOps_write (st : WSt) (c : List Char) (rest : List WOp) :
    runOps false st (.write c :: rest) =
      (writeChars false st false c).1 ++ runOps false (writeChars false st false c).2 rest := rfl

theorem writeChars_nil (st : WSt) (d : Bool) : writeChars false st d [] = ([], st) := rfl

/-- the head of the written text of a token sequence -/
theorem head_runOps (ts : List Tok) : ∀ (st : WSt),
    (runOps false st (ops ts)).head? = firstCharK none ts ∨ (runOps false st (ops ts)).head? = some ' ' := by
  induction ts with
  | nil => intro st; left; rfl
  | cons t ts ih =>
    intro st
    have chunk : ∀ (c : List Char), chunkHead t = c.head? → t.ops = [.write c] →
        (runOps false st (ops (t :: ts))).head? = firstCharK none (t :: ts) ∨
        (runOps false st (ops (t :: ts))).head? = some ' ' := by
      intro c hh hops
      rw [ops_cons, hops]
      simp only [List.cons_append, List.nil_append, runOps_write, firstCharK, hh]
      cases c with
      | nil => simpa [writeChars_nil] using ih st
      | cons x xs => simpa using head_writeChars st false x xs _
    cases t with
    | ind => simpa [ops_cons, Tok.ops, runOps, firstCharK, chunkHead] using ih _
    | ded => simpa [ops_cons, Tok.ops, runOps, firstCharK, chunkHead] using ih _
    | p s => exact chunk s.toList rfl rfl
    | name s => exact chunk s.toList rfl rfl
    | int s => exact chunk s.toList rfl rfl
    | float s => exact chunk s.toList rfl rfl
    | lay s => exact chunk s.toList rfl rfl
    | var n =>
      rw [ops_cons]
      simp only [Tok.ops, List.cons_append, List.nil_append, runOps_write, firstCharK, chunkHead]
      exact head_writeChars st false '$' [] _
    | str v =>
      rw [ops_cons]
      simp only [Tok.ops, List.cons_append, List.nil_append, runOps_write, firstCharK, chunkHead]
      have : ∃ cs, printString v.toList = '"' :: cs := by
        unfold printString printBlock printQuoted; split <;> exact ⟨_, rfl⟩
      obtain ⟨cs, hcs⟩ := this
      rw [hcs]
      exact head_writeChars st false '"' cs _

/-- a follow condition that holds for the first character of the tokens and for a blank holds for the written text -/
theorem follow_text (p : Char → Bool) (hsp : p ' ' = true) (ts : List Tok) (st : WSt)
    (h : ocAll p (firstCharK none ts) = true) : ocAll p (runOps false st (ops ts)).head? = true := by
  rcases head_runOps ts st with e | e
  · rw [e]; exact h
  · rw [e]; exact hsp

theorem nameFollowOK_eq (R : List Char) : nameFollowOK R = ocAll (fun c => !nameContinue c) R.head? := by
  cases R <;> rfl
theorem numFollowOK_eq (R : List Char) :
    numFollowOK R = ocAll (fun c => !(isDigit c || c = '.' || nameStart c)) R.head? := by
  cases R <;> rfl
theorem strFollowOK_eq (R : List Char) : strFollowOK R = ocAll (fun c => c != '"') R.head? := by
  cases R <;> rfl

/-! ### the main induction -/

theorem pre_ignored (k : Nat) (fl : Bool) : ∀ c ∈ pre k fl, isIgnored c = true := by
  intro c hc
  cases fl
  · simp [pre] at hc
  · simp only [pre, spaces, if_true] at hc
    rw [(List.mem_replicate.mp hc).2]; decide

/-- one newline-free, non-empty chunk that lexes as the tokens `toks` when followed by the rest of the text -/
theorem lex_chunk (c : List Char) (toks : List LTok) (hnl : ∀ x ∈ c, x ≠ '\n') (hne : c ≠ [])
    (k : Nat) (fl : Bool) (rest : List WOp) (out : List LTok) (f : Nat)
    (hstep : ∀ g, lexText (g + 1) (c ++ runOps false ⟨k, false⟩ rest) =
      (lexText g (runOps false ⟨k, false⟩ rest)).map (toks ++ ·))
    (hrec : ∀ g, (runOps false ⟨k, false⟩ rest).length < g → lexText g (runOps false ⟨k, false⟩ rest) = some out)
    (hf : (runOps false ⟨k, fl⟩ (.write c :: rest)).length < f) :
    lexText f (runOps false ⟨k, fl⟩ (.write c :: rest)) = some (toks ++ out) := by
  rw [runOps_write, writeChars_plain k c hnl hne fl false] at hf ⊢
  simp only [List.append_assoc, List.length_append] at hf ⊢
  have hpos : 1 ≤ c.length := by cases c with | nil => exact absurd rfl hne | cons x xs => simp
  obtain ⟨g, rfl⟩ : ∃ g, f = (g + 1) + (pre k fl).length := ⟨f - (pre k fl).length - 1, by omega⟩
  rw [lexText_skip _ _ (pre_ignored k fl), hstep g, hrec g (by omega)]
  rfl

theorem validName_chars (n : List Char) (h : validName n = true) : (∀ x ∈ n, x ≠ '\n') ∧ n ≠ [] := by
  cases n with
  | nil => simp [validName] at h
  | cons c cs =>
    simp only [validName, Bool.and_eq_true, List.all_eq_true] at h
    refine ⟨?_, by simp⟩
    intro x hx e
    subst e
    rcases List.mem_cons.mp hx with rfl | hx
    · exact absurd h.1 (by decide)
    · exact absurd (h.2 _ hx) (by decide)

theorem scanNum_no_nl (s : List Char) : ∀ (st : NumSt), ∀ x ∈ (scanNum st s).2.1, x ≠ '\n' := by
  induction s with
  | nil => intro st x hx; simp [scanNum] at hx
  | cons c cs ih =>
    intro st x hx
    simp only [scanNum] at hx
    cases hstep : numStep st c with
    | none => simp [hstep] at hx
    | some st1 =>
      simp only [hstep, List.mem_cons] at hx
      rcases hx with rfl | hx
      · intro e; subst e
        cases st <;> simp [numStep, isDigit] at hstep
      · exact ih st1 x hx

theorem lexText_runOps (ts : List Tok) : ∀ (st : WSt) (f : Nat), LexableK none ts = true →
    (∀ t ∈ ts, dataOK t = true) → (∀ t ∈ ts, tokStrOK t = true) →
    (runOps false st (ops ts)).length < f →
    lexText f (runOps false st (ops ts)) = some (ts.flatMap lex) := by
  induction ts with
  | nil =>
    intro st f _ _ _ hf
    obtain ⟨g, rfl⟩ := succ_of_pos f (by omega)
    simp [ops, runOps, lexText]
  | cons t ts ih =>
    intro st f hl hd hs hf
    simp only [LexableK, Bool.and_eq_true] at hl
    obtain ⟨⟨hfix, hfol⟩, hl'⟩ := hl
    have hd' : ∀ t ∈ ts, dataOK t = true := fun x hx => hd x (by simp [hx])
    have hs' : ∀ t ∈ ts, tokStrOK t = true := fun x hx => hs x (by simp [hx])
    have hdt := hd t (by simp)
    obtain ⟨k, fl⟩ := st
    have hrec : ∀ st' g, (runOps false st' (ops ts)).length < g →
        lexText g (runOps false st' (ops ts)) = some (ts.flatMap lex) := fun st' g hg => ih st' g hl' hd' hs' hg
    cases t with
    | ind =>
      rw [ops_cons] at hf ⊢
      simp only [Tok.ops, List.cons_append, List.nil_append, runOps] at hf ⊢
      simpa [lex] using hrec _ f hf
    | ded =>
      rw [ops_cons] at hf ⊢
      simp only [Tok.ops, List.cons_append, List.nil_append, runOps] at hf ⊢
      simpa [lex] using hrec _ f hf
    | name s =>
      simp only [dataOK] at hdt
      obtain ⟨hnl, hne⟩ := validName_chars _ hdt
      rw [ops_cons] at hf ⊢
      simp only [Tok.ops, List.cons_append, List.nil_append] at hf ⊢
      have hR : nameFollowOK (runOps false ⟨k, false⟩ (ops ts)) = true := by
        rw [nameFollowOK_eq]; exact follow_text _ (by decide) ts _ (by simpa [followOK] using hfol)
      have := lex_chunk s.toList [LTok.name s] hnl hne k fl (ops ts) (ts.flatMap lex) f
        (fun g => by rw [lexText_name _ _ hdt hR g]; simp [String.ofList_toList]) (hrec _) hf
      simpa [lex] using this
    | var n =>
      simp only [dataOK] at hdt
      obtain ⟨hnl, hne⟩ := validName_chars _ hdt
      rw [ops_cons] at hf ⊢
      simp only [Tok.ops, List.cons_append, List.nil_append] at hf ⊢
      have hR : nameFollowOK (runOps false ⟨k, false⟩ (ops ts)) = true := by
        rw [nameFollowOK_eq]; exact follow_text _ (by decide) ts _ (by simpa [followOK] using hfol)
      have inner : ∀ g, (runOps false ⟨k, false⟩ (.write n.toList :: ops ts)).length < g →
          lexText g (runOps false ⟨k, false⟩ (.write n.toList :: ops ts)) = some ([LTok.name n] ++ ts.flatMap lex) :=
        fun g hg => lex_chunk n.toList [LTok.name n] hnl hne k false (ops ts) (ts.flatMap lex) g
          (fun g' => by rw [lexText_name _ _ hdt hR g']; simp [String.ofList_toList]) (hrec _) hg
      have := lex_chunk ['$'] [LTok.p "$"] (by simp) (by simp) k fl (.write n.toList :: ops ts) _ f
        (fun g => by
          have := lexText_punct "$" (runOps false ⟨k, false⟩ (.write n.toList :: ops ts)) (by decide) g
          simpa using this) inner hf
      simpa [lex] using this
    | p s =>
      simp only [fixedOK] at hfix
      have hchars : (∀ x ∈ s.toList, x ≠ '\n') ∧ s.toList ≠ [] := by
        unfold punctOK at hfix
        split at hfix
        · rename_i c heq
          rw [heq]
          refine ⟨?_, by simp⟩
          intro x hx e; subst e
          simp only [List.mem_cons, List.mem_nil_iff, or_false] at hx
          subst hx
          exact absurd hfix (by decide)
        · rename_i heq; rw [heq]; exact ⟨by decide, by simp⟩
        · simp at hfix
      rw [ops_cons] at hf ⊢
      simp only [Tok.ops, List.cons_append, List.nil_append] at hf ⊢
      have := lex_chunk s.toList [LTok.p s] hchars.1 hchars.2 k fl (ops ts) (ts.flatMap lex) f
        (fun g => by rw [lexText_punct s _ hfix g]; rfl) (hrec _) hf
      simpa [lex] using this
    | int s =>
      simp only [dataOK] at hdt
      have hv := hdt
      simp only [validInt, Bool.and_eq_true, beq_iff_eq, Bool.or_eq_true, List.isEmpty_iff] at hv
      obtain ⟨⟨h1, h2⟩, h3⟩ := hv
      have hsc : scanNum .start s.toList = ((scanNum .start s.toList).1, s.toList, []) := by
        conv => lhs; rw [scanNum_eta]
        rw [h1, h2]
      have hhead := scanNum_head s.toList _ hsc (by rcases h3 with h | h <;> simp [h])
      have hnl : ∀ x ∈ s.toList, x ≠ '\n' := by
        have := scanNum_no_nl s.toList .start; rw [h1] at this; exact this
      have hne : s.toList ≠ [] := by obtain ⟨c, cs, e, _⟩ := hhead; rw [e]; simp
      rw [ops_cons] at hf ⊢
      simp only [Tok.ops, List.cons_append, List.nil_append] at hf ⊢
      have hR : numFollowOK (runOps false ⟨k, false⟩ (ops ts)) = true := by
        rw [numFollowOK_eq]; exact follow_text _ (by decide) ts _ (by simpa [followOK] using hfol)
      have := lex_chunk s.toList [LTok.int s] hnl hne k fl (ops ts) (ts.flatMap lex) f
        (fun g => by
          rw [lexText_number _ _ _ (lexNumber_int _ _ hdt hR) hhead g]; simp [String.ofList_toList]) (hrec _) hf
      simpa [lex] using this
    | float s =>
      simp only [dataOK] at hdt
      have hv := hdt
      simp only [validFloat, Bool.and_eq_true, beq_iff_eq, Bool.or_eq_true, List.isEmpty_iff] at hv
      obtain ⟨⟨h1, h2⟩, h3⟩ := hv
      have hsc : scanNum .start s.toList = ((scanNum .start s.toList).1, s.toList, []) := by
        conv => lhs; rw [scanNum_eta]
        rw [h1, h2]
      have hhead := scanNum_head s.toList _ hsc (by rcases h3 with h | h <;> simp [h])
      have hnl : ∀ x ∈ s.toList, x ≠ '\n' := by
        have := scanNum_no_nl s.toList .start; rw [h1] at this; exact this
      have hne : s.toList ≠ [] := by obtain ⟨c, cs, e, _⟩ := hhead; rw [e]; simp
      rw [ops_cons] at hf ⊢
      simp only [Tok.ops, List.cons_append, List.nil_append] at hf ⊢
      have hR : numFollowOK (runOps false ⟨k, false⟩ (ops ts)) = true := by
        rw [numFollowOK_eq]; exact follow_text _ (by decide) ts _ (by simpa [followOK] using hfol)
      have := lex_chunk s.toList [LTok.float s] hnl hne k fl (ops ts) (ts.flatMap lex) f
        (fun g => by
          rw [lexText_number _ _ _ (lexNumber_float _ _ hdt hR) hhead g]; simp [String.ofList_toList]) (hrec _) hf
      simpa [lex] using this
    | lay s =>
      simp only [fixedOK, List.all_eq_true] at hfix
      rw [ops_cons] at hf ⊢
      simp only [Tok.ops, List.cons_append, List.nil_append, runOps_write, List.length_append] at hf ⊢
      have hign := writeChars_ignored s.toList hfix ⟨k, fl⟩ false
      obtain ⟨g, rfl⟩ : ∃ g, f = g + (writeChars false ⟨k, fl⟩ false s.toList).1.length :=
        ⟨f - (writeChars false ⟨k, fl⟩ false s.toList).1.length, by omega⟩
      rw [lexText_skip _ _ hign, hrec _ g (by omega)]
      simp [lex]
    | str v =>
      have hsv := hs (.str v) (by simp)
      simp only [tokStrOK] at hsv
      obtain ⟨st', hst', htext⟩ := runOps_str ⟨k, fl⟩ v ts
      simp only at hst' htext
      rw [htext] at hf ⊢
      have hR : strFollowOK (runOps false st' (ops ts)) = true := by
        rw [strFollowOK_eq]; exact follow_text _ (by decide) ts _ (by simpa [followOK] using hfol)
      obtain ⟨cs, hcs, hlex⟩ := lexString_of_decode _ (runOps false st' (ops ts)) _ (decode_written k v.toList hsv) hR
      rw [hcs] at hf ⊢
      simp only [List.append_assoc, List.length_append, List.cons_append, List.length_cons] at hf ⊢
      obtain ⟨g, rfl⟩ : ∃ g, f = (g + 1) + (pre k fl).length := ⟨f - (pre k fl).length - 1, by omega⟩
      rw [lexText_skip _ _ (pre_ignored k fl), lexText_string _ _ _ hlex g, hrec _ g (by omega)]
      simp [lex, String.ofList_toList]

/-- the whole text of a token sequence -/
theorem lexDocument_text (ts : List Tok) (hl : LexableK none ts = true) (hd : ∀ t ∈ ts, dataOK t = true)
    (hs : ∀ t ∈ ts, tokStrOK t = true) : lexDocument (text ts) = some (ts.flatMap lex) :=
  lexText_runOps ts {} _ hl hd hs (Nat.lt_succ_self _)

end NitroVerif.C16
