/-
Helper lemmas for C17 (concrete part 1): the type-system checker model `CheckTs.checkSchema` consults the document
only through the lookups `typeDef?` / `directiveDef?` (first definition wins), `lastTypeDef?` / `lastDirectiveDef?`
(last definition wins) and the number of definitions (fuel of the directive-recursion search). Congruence of every
function of `Model/CheckTsCommon.lean` + `Model/CheckTs.lean` under "the lookups agree".
Core Lean only.
-/
import NitroVerif.Lemmas.Determinism
import NitroVerif.Model.CheckTs
namespace NitroVerif.Determinism
open NitroVerif.Gql NitroVerif.CheckTs

/-- two schemas answer every lookup by name the same way -/
structure SameView (S S' : Schema) : Prop where
  ty : ∀ n, S.typeDef? n = S'.typeDef? n
  dir : ∀ n, S.directiveDef? n = S'.directiveDef? n

section ts
variable {S S' : Schema}

theorem SameView.kind (h : SameView S S') (n : Name) : S.kindOf? n = S'.kindOf? n := by
  unfold Schema.kindOf?
  rw [h.ty]

theorem isSubtype_congr (h : SameView S S') (a b : GType) : isSubtype S a b = isSubtype S' a b := by
  induction a generalizing b with
  | named tn p => cases b <;> simp only [isSubtype, h.ty]
  | list t p ih => cases b <;> simp only [isSubtype, ih]
  | nonNull t ih => cases b <;> simp only [isSubtype, ih]

theorem checkValue_congr_all (h : SameView S S') :
    (∀ v ty, checkValue S v ty = checkValue S' v ty) ∧
    (∀ vs ty, checkValueList S vs ty = checkValueList S' vs ty) ∧
    (∀ fs n ty, checkFieldFind S fs n ty = checkFieldFind S' fs n ty) := by
  apply checkValue.mutual_induct (S := S)
    (motive1 := fun v ty => checkValue S v ty = checkValue S' v ty)
    (motive2 := fun vs ty => checkValueList S vs ty = checkValueList S' vs ty)
    (motive3 := fun fs n ty => checkFieldFind S fs n ty = checkFieldFind S' fs n ty)
  all_goals sorry

end ts
end NitroVerif.Determinism
