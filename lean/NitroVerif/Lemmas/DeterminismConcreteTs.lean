/-
Helper lemmas for C17 (concrete part 1): the type-system checker model `CheckTs.checkSchema` consults the document
only through the lookups `typeDef?` / `directiveDef?` (first definition wins), `lastTypeDef?` / `lastDirectiveDef?`
(last definition wins) and the number of definitions (fuel of the directive-recursion search). Congruence of every
function of `Model/CheckTsCommon.lean` + `Model/CheckTs.lean` under "the lookups agree".
Core Lean only.
-/
import NitroVerif.Lemmas.Determinism
import NitroVerif.Model.CheckTs
namespace NitroVerif.Determinism
open NitroVerif.Gql NitroVerif.CheckTs

/-- two schemas answer every lookup by name the same way -/
structure SameView (S S' : Schema) : Prop where
  ty : ∀ n, S.typeDef? n = S'.typeDef? n
  dir : ∀ n, S.directiveDef? n = S'.directiveDef? n

section ts
variable {S S' : Schema}

theorem SameView.kind (h : SameView S S') (n : Name) : S.kindOf? n = S'.kindOf? n := by
  unfold Schema.kindOf?
  rw [h.ty]

theorem isSubtype_congr (h : SameView S S') (a b : GType) : isSubtype S a b = isSubtype S' a b := by
  induction a generalizing b with
  | named tn p => cases b <;> simp only [isSubtype, h.ty]
  | list t p ih => cases b <;> simp only [isSubtype, ih]
  | nonNull t ih => cases b <;> simp only [isSubtype, ih]

theorem checkValue_congr_all (h : SameView S S') :
    (∀ v ty, checkValue S v ty = checkValue S' v ty) ∧
    (∀ fs n ty, checkFieldFind S fs n ty = checkFieldFind S' fs n ty) ∧
    (∀ vs ty, checkValueList S vs ty = checkValueList S' vs ty) := by
  apply checkValue.mutual_induct (S := S)
    (motive_1 := fun v ty => checkValue S v ty = checkValue S' v ty)
    (motive_2 := fun fs n ty => checkFieldFind S fs n ty = checkFieldFind S' fs n ty)
    (motive_3 := fun vs ty => checkValueList S vs ty = checkValueList S' vs ty)
  all_goals (intros; simp_all [checkValue, checkValueList, checkFieldFind, h.ty])

theorem checkValue_congr (h : SameView S S') (v : Value) (ty : GType) : checkValue S v ty = checkValue S' v ty :=
  (checkValue_congr_all h).1 v ty

theorem checkArguments_congr (h : SameView S S') (p : Pos) (args : List Arg) (defs : List InputValueDef) :
    checkArguments S p args defs = checkArguments S' p args defs := by
  unfold checkArguments
  simp only [checkValue_congr h]

theorem checkDirective_congr (h : SameView S S') (loc : String) (b : Bool) (d : Directive) :
    checkDirective S loc b d = checkDirective S' loc b d := by
  unfold checkDirective
  simp only [h.dir, checkArguments_congr h]

theorem checkDirectivesAux_congr (h : SameView S S') (loc : String) (seen : List Name) (ds : List Directive) :
    checkDirectivesAux S loc seen ds = checkDirectivesAux S' loc seen ds := by
  induction ds generalizing seen with
  | nil => rfl
  | cons d ds ih => simp only [checkDirectivesAux, checkDirective_congr h, h.dir, ih]

theorem checkDirectives_congr (h : SameView S S') (loc : String) (ds : List Directive) :
    checkDirectives S loc ds = checkDirectives S' loc ds :=
  checkDirectivesAux_congr h loc [] ds

theorem checkValidImpl_congr (h : SameView S S') (np : Pos) (fields : List FieldDef) (impl : List (Name × Pos))
    (iface : TypeDef) : checkValidImpl S np fields impl iface = checkValidImpl S' np fields impl iface := by
  unfold checkValidImpl
  simp only [isSubtype_congr h]

theorem checkOutputFieldType_congr (h : SameView S S') (ty : GType) :
    checkOutputFieldType S ty = checkOutputFieldType S' ty := by
  unfold checkOutputFieldType
  rw [h.kind]

theorem checkInputValueType_congr (h : SameView S S') (ty : GType) :
    checkInputValueType S ty = checkInputValueType S' ty := by
  unfold checkInputValueType
  rw [h.kind]

theorem checkArgsDef_congr (h : SameView S S') (args : List InputValueDef) :
    checkArgsDef S args = checkArgsDef S' args := by
  unfold checkArgsDef
  simp only [checkInputValueType_congr h, checkDirectives_congr h]

theorem checkFields_congr (h : SameView S S') (fields : List FieldDef) :
    checkFields S fields = checkFields S' fields := by
  unfold checkFields
  simp only [checkOutputFieldType_congr h, checkDirectives_congr h, checkArgsDef_congr h]

theorem checkEnumValues_congr (h : SameView S S') (vs : List EnumValueDef) :
    checkEnumValues S vs = checkEnumValues S' vs := by
  unfold checkEnumValues
  simp only [checkDirectives_congr h]

theorem checkInputFields_congr (h : SameView S S') (fs : List InputValueDef) :
    checkInputFields S fs = checkInputFields S' fs := by
  unfold checkInputFields
  simp only [checkInputValueType_congr h, checkDirectives_congr h]

end ts

/-- what the checker reads of the raw document `T` besides the schema view: the last-wins lookups of the
    `DefinitionMap` and the number of definitions (fuel bound of the directive-recursion search) -/
structure SameDefMap (T T' : TsDoc) : Prop where
  ty : ∀ n, lastTypeDef? T n = lastTypeDef? T' n
  dir : ∀ n, lastDirectiveDef? T n = lastDirectiveDef? T' n
  len : T.length = T'.length

section doc
variable {T T' : TsDoc} {S S' : Schema}

theorem checkObjectImplements_congr (hT : SameDefMap T T') (h : SameView S S') (t : TypeDef) :
    checkObjectImplements T S t = checkObjectImplements T' S' t := by
  unfold checkObjectImplements
  simp only [hT.ty, checkValidImpl_congr h]

theorem checkInterfaceImplements_congr (hT : SameDefMap T T') (h : SameView S S') (t : TypeDef) :
    checkInterfaceImplements T S t = checkInterfaceImplements T' S' t := by
  unfold checkInterfaceImplements
  simp only [hT.ty, checkValidImpl_congr h]

theorem checkUnionMembers_congr (hT : SameDefMap T T') (ms : List (Name × Pos)) :
    checkUnionMembers T ms = checkUnionMembers T' ms := by
  unfold checkUnionMembers
  simp only [hT.ty]

/-- the field loop of `directives_in_type` reads the document only through `definition_map.types` -/
theorem ditFields_congr (hT : SameDefMap T T') {go go' : TypeDef → List Name → List Directive × List Name}
    (h : ∀ t seen, go t seen = go' t seen) : ∀ (fs : List InputValueDef) (seen : List Name),
    ditFields T go fs seen = ditFields T' go' fs seen
  | [], _ => rfl
  | f :: fs, seen => by
    simp only [ditFields, ← hT.ty]
    cases lastTypeDef? T f.ty.unwrapped with
    | none => exact ditFields_congr hT h fs seen
    | some ft => simp only [h, ditFields_congr hT h fs]

/-- the walk through nested input objects (fix 2e4a65e) reads the document only through `definition_map.types` -/
theorem ditWalk_congr (hT : SameDefMap T T') : ∀ (fuel : Nat) (t : TypeDef) (seen : List Name),
    ditWalk T fuel t seen = ditWalk T' fuel t seen
  | 0, _, _ => rfl
  | fuel + 1, t, seen => by
    simp only [ditWalk]
    rw [ditFields_congr hT (ditWalk_congr hT fuel)]

theorem directivesInType_congr (hT : SameDefMap T T') (t : TypeDef) : directivesInType T t = directivesInType T' t := by
  unfold directivesInType
  rw [hT.len, ditWalk_congr hT]

theorem dirSuccessors_congr (hT : SameDefMap T T') (d : DirectiveDef) : dirSuccessors T d = dirSuccessors T' d := by
  unfold dirSuccessors
  simp only [hT.ty, hT.dir, directivesInType_congr hT]

theorem recRound_congr (hT : SameDefMap T T') (start : Name) (seen : List Name) (ds : List DirectiveDef) :
    recRound T start seen ds = recRound T' start seen ds := by
  induction ds generalizing seen with
  | nil => rfl
  | cons d ds ih => simp only [recRound, ih, dirSuccessors_congr hT]

theorem recLoop_congr (hT : SameDefMap T T') (start : Name) (fuel : Nat) (seen : List Name) (cur : List DirectiveDef) :
    recLoop T start fuel seen cur = recLoop T' start fuel seen cur := by
  induction fuel generalizing seen cur with
  | zero => rfl
  | succ n ih => simp only [recLoop, recRound_congr hT, ih]

theorem checkDirectiveRecursion_congr (hT : SameDefMap T T') (d : DirectiveDef) :
    checkDirectiveRecursion T d = checkDirectiveRecursion T' d := by
  unfold checkDirectiveRecursion
  rw [hT.len, recLoop_congr hT]

theorem checkTypeDef_congr (hT : SameDefMap T T') (h : SameView S S') (t : TypeDef) :
    checkTypeDef T S t = checkTypeDef T' S' t := by
  unfold checkTypeDef
  simp only [checkDirectives_congr h, checkFields_congr h, checkObjectImplements_congr hT h,
    checkInterfaceImplements_congr hT h, checkUnionMembers_congr hT, checkEnumValues_congr h,
    checkInputFields_congr h]

theorem checkDirectiveDef_congr (hT : SameDefMap T T') (h : SameView S S') (d : DirectiveDef) :
    checkDirectiveDef T S d = checkDirectiveDef T' S' d := by
  unfold checkDirectiveDef
  rw [checkDirectiveRecursion_congr hT, checkArgsDef_congr h]

theorem checkItem_congr (hT : SameDefMap T T') (h : SameView S S') (x : TsItem) :
    checkItem T S x = checkItem T' S' x := by
  cases x with
  | schemaDef s => simp only [checkItem, checkSchemaDef, checkDirectives_congr h]
  | typeDef t => simp only [checkItem, checkTypeDef_congr hT h]
  | directiveDef d => simp only [checkItem, checkDirectiveDef_congr hT h]
  | schemaExt _ => rfl
  | typeExt _ => rfl

end doc

/-! ### a permutation of a name-distinct document has the same lookups -/

theorem find?_reverse_eq_of_unique {α : Type} (p : α → Bool) (l : List α) (uniq : (l.filter p).length ≤ 1) :
    l.reverse.find? p = l.find? p :=
  (find?_perm_of_unique p (List.reverse_perm l).symm uniq).symm

theorem lastTypeDef?_eq_typeDef? {T : TsDoc} (nd : NoDupTypeNames T) (n : Name) :
    lastTypeDef? T n = (Schema.mk T).typeDef? n :=
  find?_reverse_eq_of_unique _ _ (filter_length_le_one_of_nodup (fun t : TypeDef => t.name) _ nd n)

theorem lastDirectiveDef?_eq_directiveDef? {T : TsDoc} (nd : NoDupDirectiveNames T) (n : Name) :
    lastDirectiveDef? T n = (Schema.mk T).directiveDef? n :=
  find?_reverse_eq_of_unique _ _ (filter_length_le_one_of_nodup (fun d : DirectiveDef => d.name) _ nd n)

theorem NoDupTypeNames.perm {T T' : TsDoc} (h : T.Perm T') (nd : NoDupTypeNames T) : NoDupTypeNames T' :=
  ((typeDefs_perm h).map _).nodup_iff.mp nd

theorem NoDupDirectiveNames.perm {T T' : TsDoc} (h : T.Perm T') (nd : NoDupDirectiveNames T) :
    NoDupDirectiveNames T' :=
  ((directiveDefs_perm h).map _).nodup_iff.mp nd

theorem sameView_of_perm {T T' : TsDoc} (h : T.Perm T') (ndt : NoDupTypeNames T) (ndd : NoDupDirectiveNames T) :
    SameView ⟨T⟩ ⟨T'⟩ :=
  ⟨fun n => find?_perm_of_unique _ (typeDefs_perm h) (filter_length_le_one_of_nodup (fun t : TypeDef => t.name) _ ndt n),
   fun n => find?_perm_of_unique _ (directiveDefs_perm h)
     (filter_length_le_one_of_nodup (fun d : DirectiveDef => d.name) _ ndd n)⟩

theorem sameDefMap_of_perm {T T' : TsDoc} (h : T.Perm T') (ndt : NoDupTypeNames T) (ndd : NoDupDirectiveNames T) :
    SameDefMap T T' := by
  have hv := sameView_of_perm h ndt ndd
  refine ⟨fun n => ?_, fun n => ?_, h.length_eq⟩
  · rw [lastTypeDef?_eq_typeDef? ndt, lastTypeDef?_eq_typeDef? (ndt.perm h), hv.ty]
  · rw [lastDirectiveDef?_eq_directiveDef? ndd, lastDirectiveDef?_eq_directiveDef? (ndd.perm h), hv.dir]

/-- the per-definition rule set of the concrete checker is the same function for both orders -/
theorem checkItem_perm {T T' : TsDoc} (h : T.Perm T') (ndt : NoDupTypeNames T) (ndd : NoDupDirectiveNames T) :
    checkItem T ⟨T⟩ = checkItem T' ⟨T'⟩ :=
  funext fun x => checkItem_congr (sameDefMap_of_perm h ndt ndd) (sameView_of_perm h ndt ndd) x

end NitroVerif.Determinism
