import NitroVerif.Lemmas.JsTemplate
/-!
C16, template layer with the REAL chunking of `JsStringWriter`: `dollar_flag` is local to one `write` call, so a
chunk that ends in `$` followed by a chunk that starts with `{` would be written `${` (a substitution). This file
states exactly which chunk sequences are safe (`safeOps`) and proves that for those the cooked value of everything
the writer produced is the text `JustWriter` produces for the same operations.
-/
namespace NitroVerif.JsTemplate
open NitroVerif.Cook

/-- was the last character written a `$` — `d` before the chunk, then the chunk `s` -/
def endDollar (d : Bool) : List Char → Bool
  | [] => d
  | c :: cs => endDollar (c == '$') cs

/-- the chunk may follow a text whose last character is (`d`) / is not a `$`: it does not start with `{` then -/
def headOK (d : Bool) : List Char → Bool
  | [] => true
  | c :: _ => !(d && c == '{')

def noCR (s : List Char) : Bool := s.all fun c => c != '\r'

/-- EXACT safety condition of a sequence of writer operations (`d` = the text written so far ends in `$`):
    no chunk starts with `{` directly after a `$` that an EARLIER chunk wrote, and no chunk holds a CR.
    (Inside one chunk `${` is fine: the writer escapes it.) -/
def safeOps : Bool → List WOp → Bool
  | _, [] => true
  | d, .write s :: ops => headOK d s && noCR s && safeOps (endDollar d s) ops
  | d, .indent :: ops => safeOps d ops
  | d, .dedent :: ops => safeOps d ops

theorem escChar_indep (c : Char) (h : c ≠ '{') (d d' : Bool) : escChar d c = escChar d' c := by
  unfold escChar; simp [h]

theorem run_spaces (n : Nat) (rest : List Char) :
    run .normal (List.replicate n ' ' ++ rest) = (run .normal rest).map (List.replicate n ' ' ++ ·) := by
  induction n with
  | zero => simp
  | succ n ih =>
    simp only [List.replicate_succ, List.cons_append, run, step, stepNormal]
    simp only [show (' ' = '`') = False by decide, show (' ' = '\\') = False by decide,
      show (' ' = '$') = False by decide, show (' ' = '\r') = False by decide, if_false, ih]
    cases run St.normal rest <;> rfl

theorem stOf_false : stOf false = .normal := rfl

/-- one chunk: `d` = the writer's flag, `d'` = the truth about the previous character -/
theorem run_writeChars (s : List Char) : ∀ (st : WSt) (d d' : Bool) (rest : List Char),
    (d = true → d' = true) → (st.flag = true → d' = false) →
    (∀ c ∈ s, c ≠ '\r') → (d = d' ∨ headOK d' s = true) →
    run (stOf d') ((writeChars true st d s).1 ++ rest)
        = (run (stOf (endDollar d' s)) rest).map ((writeChars false st d s).1 ++ ·)
      ∧ (writeChars true st d s).2 = (writeChars false st d s).2
      ∧ ((writeChars true st d s).2.flag = true → endDollar d' s = false) := by
  induction s with
  | nil =>
    intro st d d' rest _ hf _ _
    refine ⟨?_, rfl, ?_⟩
    · simp [writeChars, endDollar] <;> (cases run (stOf d') rest <;> rfl)
    · simpa [writeChars, endDollar] using hf
  | cons c cs ih =>
    intro st d d' rest hd hf hcr hh
    have hc : c ≠ '\r' := hcr c (by simp)
    have hcs : ∀ x ∈ cs, x ≠ '\r' := fun x hx => hcr x (by simp [hx])
    by_cases hnl : c = '\n'
    · subst hnl
      obtain ⟨h1, h2, h3⟩ := ih { st with flag := true } false false rest (by simp) (by simp) hcs (Or.inl rfl)
      have hstep : ∀ X, run (stOf d') ('\n' :: X) = (run .normal X).map ('\n' :: ·) := by
        intro X
        cases d' <;> simp [stOf, run, step, stepNormal] <;> (cases run St.normal X <;> rfl)
      refine ⟨?_, ?_, ?_⟩
      · simp only [writeChars, if_true, List.cons_append, hstep, endDollar]
        have : (('\n' : Char) == '$') = false := by decide
        rw [this]
        rw [stOf_false] at h1
        rw [h1]
        cases run (stOf (endDollar false cs)) rest <;> rfl
      · simp only [writeChars, if_true]; exact h2
      · simp only [writeChars, if_true, endDollar]
        have : (('\n' : Char) == '$') = false := by decide
        rw [this]; exact h3
    · -- an ordinary character
      have hesc : escChar d c = escChar d' c := by
        rcases hh with hh | hh
        · rw [hh]
        · by_cases hb : c = '{'
          · subst hb
            simp [headOK] at hh
            cases d <;> cases d' <;> simp_all
          · exact escChar_indep c hb d d'
      obtain ⟨h1, h2, h3⟩ := ih { st with flag := false } (c == '$') (c == '$') rest (fun h => h) (by simp) hcs (Or.inl rfl)
      refine ⟨?_, ?_, ?_⟩
      · simp only [writeChars, hnl, if_false, if_true, endDollar]
        by_cases hfl : st.flag = true
        · have hd' := hf hfl
          subst hd'
          have hdf : d = false := by cases d <;> simp_all
          subst hdf
          simp only [hfl, if_true, List.append_assoc, stOf_false, run_spaces]
          have := run_escChar false c hc ((writeChars true { st with flag := false } (c == '$') cs).1 ++ rest)
          rw [stOf_false] at this
          rw [this, h1]
          cases run (stOf (endDollar (c == '$') cs)) rest <;> simp
        · simp only [hfl, Bool.false_eq_true, if_false, List.nil_append, List.append_assoc, hesc]
          rw [run_escChar d' c hc, h1]
          cases run (stOf (endDollar (c == '$') cs)) rest <;> simp
      · simp only [writeChars, hnl, if_false]; exact h2
      · simp only [writeChars, hnl, if_false, endDollar]; exact h3

/-- a sequence of operations -/
theorem run_runOps (ops : List WOp) : ∀ (st : WSt) (d : Bool), (st.flag = true → d = false) →
    safeOps d ops = true → run (stOf d) (runOps true st ops) = some (runOps false st ops) := by
  induction ops with
  | nil => intro st d _ _; cases d <;> simp [runOps, run, finish, stOf]
  | cons op ops ih =>
    intro st d hf hs
    cases op with
    | write s =>
      simp only [safeOps, Bool.and_eq_true] at hs
      obtain ⟨⟨hh, hcr⟩, hrest⟩ := hs
      have hcr' : ∀ c ∈ s, c ≠ '\r' := by
        intro c hc; have := (List.all_eq_true.mp hcr) c hc; simpa using this
      obtain ⟨h1, h2, h3⟩ := run_writeChars s st false d (runOps true (writeChars true st false s).2 ops)
        (by simp) hf hcr' (Or.inr hh)
      simp only [runOps]
      rw [h1, ih _ _ h3 hrest, h2]
      rfl
    | indent => simpa [runOps, safeOps] using ih { st with indent := st.indent + 2 } d hf (by simpa [safeOps] using hs)
    | dedent => simpa [runOps, safeOps] using ih { st with indent := st.indent - 2 } d hf (by simpa [safeOps] using hs)

end NitroVerif.JsTemplate
