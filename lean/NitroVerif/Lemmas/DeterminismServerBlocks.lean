import NitroVerif.Lemmas.DeterminismServerBalance
/-!
C17 (server schema file): the text either `SourceMapWriter` (`JustWriter`, `JsStringWriter`) holds after a type-system
document was printed into it is the concatenation of the texts of the document's definitions, each printed on its own
into a fresh writer (`runOps_tsDoc`). Reasons: the indentation operations of a definition are balanced
(`Lemmas/DeterminismServerBalance.lean`), the writer's dollar flag is per `write` call, and the only other state — the
"indent before the next character" flag — is irrelevant at indentation 0 for a definition, because every definition
starts by writing a non-empty chunk (a keyword, or the opening quote of its description).
-/
namespace NitroVerif.DeterminismServer
open NitroVerif.Gql NitroVerif.GqlPrint NitroVerif.JsTemplate

/-- the writer state after a sequence of operations -/
def endSt (js : Bool) : WSt → List WOp → WSt
  | st, [] => st
  | st, .write s :: ops => endSt js (writeChars js st false s).2 ops
  | st, .indent :: ops => endSt js { st with indent := st.indent + 2 } ops
  | st, .dedent :: ops => endSt js { st with indent := st.indent - 2 } ops

theorem runOps_append (js : Bool) (a b : List WOp) : ∀ st,
    runOps js st (a ++ b) = runOps js st a ++ runOps js (endSt js st a) b := by
  induction a with
  | nil => intro st; rfl
  | cons o a ih =>
    intro st
    cases o with
    | write s => simp only [List.cons_append, runOps, endSt, ih, List.append_assoc]
    | indent => simp only [List.cons_append, runOps, endSt, ih]
    | dedent => simp only [List.cons_append, runOps, endSt, ih]

theorem endSt_append (js : Bool) (a b : List WOp) : ∀ st, endSt js st (a ++ b) = endSt js (endSt js st a) b := by
  induction a with
  | nil => intro st; rfl
  | cons o a ih => intro st; cases o <;> simp only [List.cons_append, endSt, ih]

/-- a `write` never changes the indentation level -/
theorem writeChars_indent (js : Bool) (s : List Char) : ∀ (st : WSt) (d : Bool),
    (writeChars js st d s).2.indent = st.indent := by
  induction s with
  | nil => intro st d; rfl
  | cons c cs ih =>
    intro st d
    simp only [writeChars]
    split
    · exact ih _ _
    · exact ih _ _

theorem ops_append (a b : List Tok) : ops (a ++ b) = ops a ++ ops b := by simp [ops]

theorem ops_cons (t : Tok) (ts : List Tok) : ops (t :: ts) = t.ops ++ ops ts := by simp [ops]

/-- the indentation level after the operations of a token list is the `net` of the list -/
theorem endSt_indent (js : Bool) (ts : List Tok) : ∀ st, (endSt js st (ops ts)).indent = net st.indent ts := by
  induction ts with
  | nil => intro st; rfl
  | cons t ts ih =>
    intro st
    rw [ops_cons, endSt_append, ih, net_cons]
    congr 1
    cases t <;> simp [Tok.ops, endSt, writeChars_indent, shift]

/-- the operation list starts with a `write` of a non-empty chunk -/
def startsOK : List WOp → Bool
  | .write (_ :: _) :: _ => true
  | _ => false

/-- at indentation 0 the pending-indentation flag does not matter for such an operation list -/
theorem runOps_flag0 (js : Bool) (os : List WOp) (h : startsOK os = true) (f : Bool) :
    runOps js ⟨0, f⟩ os = runOps js ⟨0, false⟩ os := by
  match os, h with
  | .write (c :: cs) :: rest, _ =>
    have : writeChars js ⟨0, f⟩ false (c :: cs) = writeChars js ⟨0, false⟩ false (c :: cs) := by
      simp only [writeChars]
      split <;> simp
    simp only [runOps, this]

theorem printString_head (s : List Char) : ∃ r, printString s = '"' :: r := by
  unfold printString printBlock printQuoted
  split
  · exact ⟨_, rfl⟩
  · exact ⟨_, rfl⟩

theorem startsOK_write (s : List Char) (rest : List WOp) (h : s.isEmpty = false) :
    startsOK (.write s :: rest) = true := by
  cases s with
  | nil => simp at h
  | cons c cs => rfl

theorem startsOK_desc (s : String) (a : List Tok) : startsOK (ops (printDesc (some s) ++ a)) = true := by
  obtain ⟨r, hr⟩ := printString_head s.toList
  simp [printDesc, ops, Tok.ops, hr, startsOK]

theorem kindKeyword_nonempty (k : TypeKind) : (kindKeyword k).toList.isEmpty = false := by
  cases k <;> decide

/-- every definition / extension starts by writing a non-empty chunk -/
theorem startsOK_tsItem (i : TsItem) : startsOK (ops (printTsItem i)) = true := by
  cases i with
  | schemaDef s =>
    cases hd : s.desc with
    | some x =>
      simp only [printTsItem, printSchemaDef, hd, List.append_assoc]
      exact startsOK_desc _ _
    | none =>
      simp only [printTsItem, printSchemaDef, hd, printDesc, List.nil_append, List.cons_append, ops_cons, Tok.ops]
      exact startsOK_write _ _ (by decide)
  | typeDef t =>
    cases hd : t.desc with
    | some x =>
      simp only [printTsItem, printTypeDef, hd, List.append_assoc]
      exact startsOK_desc _ _
    | none =>
      simp only [printTsItem, printTypeDef, hd, printDesc, List.nil_append, List.cons_append, ops_cons, Tok.ops]
      exact startsOK_write _ _ (kindKeyword_nonempty _)
  | directiveDef d =>
    cases hd : d.desc with
    | some x =>
      simp only [printTsItem, printDirectiveDef, hd, List.append_assoc]
      exact startsOK_desc _ _
    | none =>
      simp only [printTsItem, printDirectiveDef, hd, printDesc, List.nil_append, List.cons_append, ops_cons, Tok.ops]
      exact startsOK_write _ _ (by decide)
  | schemaExt s =>
    simp only [printTsItem, printSchemaExt, List.cons_append, ops_cons, Tok.ops]
    exact startsOK_write _ _ (by decide)
  | typeExt t =>
    simp only [printTsItem, printTypeExt, List.cons_append, ops_cons, Tok.ops]
    exact startsOK_write _ _ (by decide)

/-- the text a definition contributes when it is printed on its own into a fresh writer
    (`js = true`: `JsStringWriter`, the characters between the back-ticks; `js = false`: `JustWriter`, the SDL text) -/
def itemBlock (js : Bool) (i : TsItem) : List Char := runOps js {} (ops (printTsItem i))

/-- **The printed document is the concatenation of its definitions' blocks**, for both writers, whatever the
    pending-indentation flag is at the start. -/
theorem runOps_tsDoc (js : Bool) (d : TsDoc) : ∀ f : Bool,
    runOps js ⟨0, f⟩ (ops (printTsDoc d)) = (d.map (itemBlock js)).flatten := by
  induction d with
  | nil => intro f; rfl
  | cons i is ih =>
    intro f
    simp only [printTsDoc, ops_append, runOps_append, List.map_cons, List.flatten_cons]
    have hend : endSt js ⟨0, f⟩ (ops (printTsItem i)) = ⟨0, (endSt js ⟨0, f⟩ (ops (printTsItem i))).flag⟩ := by
      have h := endSt_indent js (printTsItem i) ⟨0, f⟩
      rw [bal_tsItem] at h
      generalize endSt js ⟨0, f⟩ (ops (printTsItem i)) = st at h ⊢
      cases st
      simp_all
    rw [hend, ih, runOps_flag0 js _ (startsOK_tsItem i) f]
    rfl

end NitroVerif.DeterminismServer
