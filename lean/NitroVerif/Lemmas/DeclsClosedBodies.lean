/-
Exactness of the alias BODIES of the schema declaration printer, for every interpretation of the references to other
schema types (the wrapper lemma and the per-kind statements). These are the proofs behind `Props/C10.lean`'s
`ts_conf` / `C10_alias_exact_*`; they live here so that the closed-form lemmas (`DeclsClosed*.lean`) can use them.
Also: the renaming lemmas (`localName` avoids the bag and is injective).
-/
import NitroVerif.Model.SchemaDecls
import NitroVerif.Spec.RefTypes
import NitroVerif.Lemmas.TsSem
namespace NitroVerif.SchemaDecls
open NitroVerif.Gql NitroVerif.Ts NitroVerif.DeclCfg NitroVerif.RefTypes

variable {e : Env}

/-! ### the wrapper lemma -/

/-- non-null part: a value belongs to the TypeScript type emitted for the non-null part of a GraphQL type
    position iff it has the list / element structure of that position (all nesting depths). -/
theorem mem_tsCore_iff (leaf : Name → Ty) (ro : Bool) (ty : GType) :
    ∀ v, Mem e v (tsCore leaf ro ty) ↔ ConfCore (fun n x => Mem e x (leaf n)) ty v := by
  induction ty with
  | named n p => intro v; simp [tsCore, ConfCore]
  | nonNull t ih => intro v; simpa [tsCore, ConfCore] using ih v
  | list t p ih =>
    intro v
    have hel : ∀ x, Mem e x (if t.isNonNull then tsCore leaf ro t else .union [tsCore leaf ro t, .prim "null"])
        ↔ ((t.isNonNull = false ∧ x = .null) ∨ ConfCore (fun n x => Mem e x (leaf n)) t x) := by
      intro x
      cases hnn : t.isNonNull with
      | true => simp [ih x]
      | false =>
        simp only [Bool.false_eq_true, if_false, mem_union_iff, List.mem_cons, List.mem_nil_iff, or_false]
        constructor
        · rintro ⟨t', ht', hm⟩
          rcases ht' with rfl | rfl
          · exact Or.inr ((ih x).1 hm)
          · exact Or.inl ⟨trivial, mem_null_iff.1 hm⟩
        · rintro (⟨_, hx⟩ | hc)
          · exact ⟨_, Or.inr rfl, mem_null_iff.2 hx⟩
          · exact ⟨_, Or.inl rfl, (ih x).2 hc⟩
    cases ro with
    | true =>
      simp only [tsCore, if_true, mem_roArr_iff, ConfCore]
      constructor
      · rintro ⟨xs, rfl, h⟩; exact ⟨xs, rfl, fun x hx => (hel x).1 (h x hx)⟩
      · rintro ⟨xs, rfl, h⟩; exact ⟨xs, rfl, fun x hx => (hel x).2 (h x hx)⟩
    | false =>
      simp only [tsCore, Bool.false_eq_true, if_false, mem_arr_iff, ConfCore]
      constructor
      · rintro ⟨xs, rfl, h⟩; exact ⟨xs, rfl, fun x hx => (hel x).1 (h x hx)⟩
      · rintro ⟨xs, rfl, h⟩; exact ⟨xs, rfl, fun x hx => (hel x).2 (h x hx)⟩

/-- THE WRAPPER LEMMA. For every GraphQL type position (any nesting of `[…]` and `!`), the values of the emitted
    TypeScript type `get_ts_type_of_type(ty)` are exactly: `null` iff the position is nullable, otherwise arrays
    of conforming elements / the named type's values — whatever the named types denote (`leaf`), for mutable and
    readonly arrays alike. -/
theorem mem_tsOf_iff (leaf : Name → Ty) (ro : Bool) (ty : GType) (v : J) :
    Mem e v (tsOf leaf ro ty) ↔ Conf (fun n x => Mem e x (leaf n)) ty v := by
  unfold tsOf Conf
  cases hnn : ty.isNonNull with
  | true => simp [mem_tsCore_iff]
  | false =>
    simp only [Bool.false_eq_true, if_false, mem_union_iff, List.mem_cons, List.mem_nil_iff, or_false, true_and]
    constructor
    · rintro ⟨t', ht', hm⟩
      rcases ht' with rfl | rfl
      · exact Or.inr ((mem_tsCore_iff leaf ro ty v).1 hm)
      · exact Or.inl (mem_null_iff.1 hm)
    · rintro (hx | hc)
      · exact ⟨_, Or.inr rfl, mem_null_iff.2 hx⟩
      · exact ⟨_, Or.inl rfl, (mem_tsCore_iff leaf ro ty v).2 hc⟩


/-! ### alias exactness, per kind

The alias bodies refer to other schema types through a leaf function `L` (the model uses `Ctx.leaf`: a reference
to the type's LOCAL name). Exactness of a body is proved for EVERY interpretation of those references: if the
reference to each named type `n` denotes the set `R n` (hypothesis `hL`; this is what name resolution must
deliver, see `C10_rename_sound_partial` and the OPEN block below), then the body of an enum / object / input
object / interface / union alias denotes exactly what the statement says, with `R` at the leaves. -/

/-- `ts_union` / the printed form of `TSType::Union`: membership is membership in some member. -/
theorem mem_tsUnion_iff (ts : List Ty) (v : J) : Mem e v (tsUnion ts) ↔ ∃ t ∈ ts, Mem e v t := by
  match ts with
  | [] => simp [tsUnion, mem_never_iff]
  | [t] => simp [tsUnion]
  | a :: b :: r => simp only [tsUnion, mem_union_iff]

/-- ENUMS: the alias of an enum type admits exactly the string literals of its values. -/
theorem mem_enumBody_iff (td : TypeDef) (v : J) :
    Mem e v (enumBody td) ↔ ∃ x ∈ td.values, v = .str x.name := by
  simp only [enumBody, mem_tsUnion_iff]
  constructor
  · rintro ⟨t, ht, hm⟩
    obtain ⟨x, hx, rfl⟩ := List.mem_map.1 ht
    exact ⟨x, hx, mem_strLit_iff.1 hm⟩
  · rintro ⟨x, hx, rfl⟩
    exact ⟨_, List.mem_map.2 ⟨x, hx, rfl⟩, mem_strLit_iff.2 rfl⟩

/-- INTERFACES and UNIONS: the alias admits exactly the union of what the references to the listed possible
    object types admit (`names` = `interface_implementers` resp. the union's members). -/
theorem mem_membersBodyL_iff (L : Name → Ty) (R : Name → J → Prop) (hL : ∀ n v, Mem e v (L n) ↔ R n v)
    (names : List Name) (v : J) :
    Mem e v (membersBodyL L names) ↔ ∃ n ∈ names, R n v := by
  simp only [membersBodyL, mem_tsUnion_iff]
  constructor
  · rintro ⟨t, ht, hm⟩
    obtain ⟨n, hn, rfl⟩ := List.mem_map.1 ht
    exact ⟨n, hn, (hL n v).1 hm⟩
  · rintro ⟨n, hn, hr⟩
    exact ⟨_, List.mem_map.2 ⟨n, hn, rfl⟩, (hL n v).2 hr⟩

theorem leaf_ext_iff (L : Name → Ty) (R : Name → J → Prop) (hL : ∀ n v, Mem e v (L n) ↔ R n v) :
    (fun n x => Mem e x (L n)) = R := by
  funext n x; exact propext (hL n x)

/-- OBJECTS: the alias admits exactly the records with `__typename` = the type's name and, for EVERY field, a
    value conforming wrapper-exactly to the field's type; no other key; no field may be omitted. -/
theorem mem_objectBodyL_iff (L : Name → Ty) (R : Name → J → Prop) (hL : ∀ n v, Mem e v (L n) ↔ R n v)
    (td : TypeDef) (v : J) :
    Mem e v (objectBodyL L td) ↔
      ∃ kvs, v = .obj kvs ∧
        RecordSpec (("__typename", false, fun x => x = .str td.name)
          :: td.fields.map fun f => (f.name, false, Conf R f.ty)) kvs := by
  have hR := leaf_ext_iff L R hL
  simp only [objectBodyL, mem_obj_iff, RecordP, RecordSpec]
  constructor
  · rintro ⟨kvs, rfl, h1, h2⟩
    refine ⟨kvs, rfl, ?_, ?_⟩
    · intro f hf
      rcases List.mem_cons.1 hf with rfl | hf
      · right
        have := h1 ("__typename", false, false, .strLit td.name) List.mem_cons_self (by simp)
        exact mem_strLit_iff.1 this
      · obtain ⟨g, hg, rfl⟩ := List.mem_map.1 hf
        right
        have := h1 (g.name, false, false, tsOf L false g.ty)
          (List.mem_cons_of_mem _ (List.mem_map.2 ⟨g, hg, rfl⟩)) (by simp)
        rw [← hR]; exact (mem_tsOf_iff L false g.ty _).1 this
    · intro kv hkv
      rcases h2 kv hkv with h | ⟨f, hf, hk⟩
      · exact Or.inl h
      · right
        rcases List.mem_cons.1 hf with rfl | hf
        · exact ⟨_, List.mem_cons_self, hk⟩
        · obtain ⟨g, hg, rfl⟩ := List.mem_map.1 hf
          exact ⟨(g.name, false, Conf R g.ty), List.mem_cons_of_mem _ (List.mem_map.2 ⟨g, hg, rfl⟩), hk⟩
  · rintro ⟨kvs, rfl, h1, h2⟩
    refine ⟨kvs, rfl, ?_, ?_⟩
    · intro f hf _
      rcases List.mem_cons.1 hf with rfl | hf
      · rcases h1 _ List.mem_cons_self with ⟨h, _⟩ | h
        · cases h
        · exact mem_strLit_iff.2 h
      · obtain ⟨g, hg, rfl⟩ := List.mem_map.1 hf
        rcases h1 (g.name, false, Conf R g.ty) (List.mem_cons_of_mem _ (List.mem_map.2 ⟨g, hg, rfl⟩)) with ⟨h, _⟩ | h
        · cases h
        · rw [← hR] at h; exact (mem_tsOf_iff L false g.ty _).2 h
    · intro kv hkv
      rcases h2 kv hkv with h | ⟨f, hf, hk⟩
      · exact Or.inl h
      · right
        rcases List.mem_cons.1 hf with rfl | hf
        · exact ⟨_, List.mem_cons_self, hk⟩
        · obtain ⟨g, hg, rfl⟩ := List.mem_map.1 hf
          exact ⟨(g.name, false, false, tsOf L false g.ty), List.mem_cons_of_mem _ (List.mem_map.2 ⟨g, hg, rfl⟩), hk⟩

/-- a possibly-optional input position: (optional and omitted) or a member of the emitted type ⇔
    (optional and omitted) or conforming -/
theorem mem_optField_iff (L : Name → Ty) (R : Name → J → Prop) (hL : ∀ n v, Mem e v (L n) ↔ R n v)
    (ro o : Bool) (ty : GType) (ho : o = true → ty.isNonNull = false) (x : J) :
    (¬ (o = true ∧ x = .absent) → Mem e x (optFieldTy L ro o ty)) ↔ ((o = true ∧ x = .absent) ∨ Conf R ty x) := by
  have hR := leaf_ext_iff L R hL
  simp only [optFieldTy]
  cases o with
  | false =>
    simp only [Bool.false_eq_true, false_and, not_false_eq_true, forall_const, if_false, false_or]
    rw [← hR]; exact mem_tsOf_iff L ro ty x
  | true =>
    have hnn : ty.isNonNull = false := ho rfl
    simp only [true_and, if_true]
    rw [← hR]
    constructor
    · intro h
      by_cases hx : x = .absent
      · exact Or.inl hx
      · right
        obtain ⟨t, ht, hm⟩ := mem_union_iff.1 (h hx)
        simp only [List.mem_cons, List.mem_nil_iff, or_false] at ht
        rcases ht with rfl | rfl | rfl
        · exact Or.inr ((mem_tsCore_iff L ro ty x).1 hm)
        · exact Or.inl ⟨hnn, mem_null_iff.1 hm⟩
        · exact absurd (mem_undefined_iff.1 hm) hx
    · rintro (hx | hc) hne
      · exact absurd hx hne
      · rcases hc with ⟨_, hx⟩ | hc
        · exact mem_union_iff.2 ⟨_, by simp, mem_null_iff.2 hx⟩
        · exact mem_union_iff.2 ⟨_, List.mem_cons_self, (mem_tsCore_iff L ro ty x).2 hc⟩

theorem mem_inputField_iff (L : Name → Ty) (R : Name → J → Prop) (hL : ∀ n v, Mem e v (L n) ↔ R n v)
    (opt : Bool) (f : InputValueDef) (x : J) :
    (¬ ((inputFieldL L opt f).2.2.1 = true ∧ x = .absent) → Mem e x (inputFieldL L opt f).2.2.2) ↔
      (((opt && !f.ty.isNonNull) = true ∧ x = .absent) ∨ Conf R f.ty x) := by
  simp only [inputFieldL]
  exact mem_optField_iff L R hL true _ f.ty (by cases h : f.ty.isNonNull <;> simp_all) x

/-- INPUT OBJECTS: the alias admits exactly the records with a conforming value for every field, where a field
    may be omitted iff its type is nullable AND `allowUndefinedAsOptionalInput` is on; no other key. -/
theorem mem_inputBodyL_iff (L : Name → Ty) (R : Name → J → Prop) (hL : ∀ n v, Mem e v (L n) ↔ R n v)
    (opt : Bool) (td : TypeDef) (v : J) :
    Mem e v (inputBodyL L opt td) ↔
      ∃ kvs, v = .obj kvs ∧
        RecordSpec (td.inputs.map fun f => (f.name, opt && !f.ty.isNonNull, Conf R f.ty)) kvs := by
  simp only [inputBodyL, mem_obj_iff, RecordP, RecordSpec]
  constructor
  · rintro ⟨kvs, rfl, h1, h2⟩
    refine ⟨kvs, rfl, ?_, ?_⟩
    · intro f hf
      obtain ⟨g, hg, rfl⟩ := List.mem_map.1 hf
      have := h1 (inputFieldL L opt g) (List.mem_map.2 ⟨g, hg, rfl⟩)
      exact (mem_inputField_iff L R hL opt g _).1 this
    · intro kv hkv
      rcases h2 kv hkv with h | ⟨f, hf, hk⟩
      · exact Or.inl h
      · obtain ⟨g, hg, rfl⟩ := List.mem_map.1 hf
        exact Or.inr ⟨_, List.mem_map.2 ⟨g, hg, rfl⟩, hk⟩
  · rintro ⟨kvs, rfl, h1, h2⟩
    refine ⟨kvs, rfl, ?_, ?_⟩
    · intro f hf
      obtain ⟨g, hg, rfl⟩ := List.mem_map.1 hf
      have := h1 (g.name, opt && !g.ty.isNonNull, Conf R g.ty) (List.mem_map.2 ⟨g, hg, rfl⟩)
      exact (mem_inputField_iff L R hL opt g _).2 this
    · intro kv hkv
      rcases h2 kv hkv with h | ⟨f, hf, hk⟩
      · exact Or.inl h
      · obtain ⟨g, hg, rfl⟩ := List.mem_map.1 hf
        exact Or.inr ⟨_, List.mem_map.2 ⟨g, hg, rfl⟩, hk⟩

/-! ### renaming -/

/-- the local name of a schema type is never an identifier of a scalar text, provided no such identifier starts
    with `__tmp_` -/
theorem localName_not_mem_bag (bagIds : List String) (hbag : ∀ id ∈ bagIds, hasTmpPrefix id = false)
    (n : Name) : ¬ (localName bagIds n ∈ bagIds) := by
  unfold localName
  by_cases h : bagIds.contains n = true
  · simp only [h, if_true]
    intro hm
    have := hbag _ hm
    simp [hasTmpPrefix, String.toList_append] at this
  · simp only [h]
    intro hm
    exact h (List.contains_iff_mem.2 hm) |>.elim

theorem localName_inj (bagIds : List String) (a b : Name)
    (ha : hasTmpPrefix a = false) (hb : hasTmpPrefix b = false)
    (h : localName bagIds a = localName bagIds b) : a = b := by
  unfold localName at h
  split at h <;> split at h
  · have := congrArg String.toList h
    simp only [String.toList_append, List.append_cancel_left_eq] at this
    exact String.toList_inj.1 this
  · exfalso; rw [← h] at hb; simp [hasTmpPrefix, String.toList_append] at hb
  · exfalso; rw [h] at ha; simp [hasTmpPrefix, String.toList_append] at ha
  · exact h

end NitroVerif.SchemaDecls
