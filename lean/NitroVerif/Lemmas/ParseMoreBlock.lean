/-
Block strings (helper lemmas for Props/C07 `parse_render_block_string_raw`): the GENERATED grammar's `StringValue` rule on
`"""` ++ body ++ `"""` and `build_string_value` on the pair it yields. The builder returns the text between the delimiters
RAW (open finding t); here that is PROVED for every body the scan of `BlockStringCharacter*` reads to its end.

`BlockStringCharacter = @{ !"\"\"\"" ~ ("\\\"\"\"" | ANY) }`: at each position the scan stops at `"""`, takes the four
characters `\"""` as one step, any other character as one step. `BlockBody body` says that this scan, run on
body ++ `"""`, arrives exactly at the end of `body`; `blockBody_of` derives it from the readable condition
"no `"""` that is not part of a `\"""`, and the last character is neither `"` nor `\`".
-/
import NitroVerif.Lemmas.ParseString
namespace NitroVerif.StringParse
open NitroVerif.Peg NitroVerif.Gen NitroVerif.Gen.Parts NitroVerif.Build NitroVerif.Spec.Lex NitroVerif.TypeParse
open NitroVerif.ParseText

abbrev q3 : List Char := ['"', '"', '"']
abbrev eq3 : List Char := ['\\', '"', '"', '"']

theorem look_BlockStringCharacter : gList.look R.BlockStringCharacter =
    some (.atomic, .seq (.not (.str q3)) (.choice (.str eq3) .any)) := rfl
theorem look_BlockStringValue' : gList.look R.BlockStringValue =
    some (.atomic, .seq (.str q3) (.seq (.star (.call R.BlockStringCharacter)) (.str q3))) := rfl

/-- the scan of `BlockStringCharacter*` over `body ++ """` ends exactly after `body` -/
inductive BlockBody : List Char → Prop where
  | nil : BlockBody []
  | esc {r : List Char} : BlockBody r → BlockBody ('\\' :: '"' :: '"' :: '"' :: r)
  | char {c : Char} {r : List Char} : BlockBody r → matchStr q3 (c :: (r ++ q3)) = none →
      matchStr eq3 (c :: (r ++ q3)) = none → BlockBody (c :: r)

/-- no `"""` in the text other than as the tail of a `\"""` (scanned left to right) -/
def noBareTriple : List Char → Bool
  | [] => true
  | '\\' :: '"' :: '"' :: '"' :: r => noBareTriple r
  | '"' :: '"' :: '"' :: _ => false
  | _ :: r => noBareTriple r

/-- the last character is neither `"` nor `\` -/
def endsPlain (b : List Char) : Bool :=
  match b.getLast? with
  | some c => c != '"' && c != '\\'
  | none => true

theorem endsPlain_cons {c d : Char} {r : List Char} : endsPlain (c :: d :: r) = endsPlain (d :: r) := by
  simp [endsPlain, List.getLast?_cons_cons]

theorem endsPlain_tail4 {a b c d : Char} {r : List Char} (h : endsPlain (a :: b :: c :: d :: r) = true) (hd : d = '"') :
    endsPlain r = true := by
  cases r with
  | nil => subst hd; simp [endsPlain] at h
  | cons x xs => simpa [endsPlain_cons] using h

/-- the readable condition implies `BlockBody` -/
theorem blockBody_of : ∀ (b : List Char), noBareTriple b = true → endsPlain b = true → BlockBody b := by
  intro b
  induction b using noBareTriple.induct with
  | case1 => intro _ _; exact .nil
  | case2 r ih =>
    intro h1 h2
    simp only [noBareTriple] at h1
    exact .esc (ih h1 (endsPlain_tail4 h2 rfl))
  | case3 r => intro h1; simp [noBareTriple] at h1
  | case4 c r hn1 hn2 ih =>
    intro h1 h2
    have hnb : noBareTriple (c :: r) = noBareTriple r := by
      rw [noBareTriple]
      · intro r' he; exact hn1 r' he
      · intro r' he; exact hn2 r' he
    rw [hnb] at h1
    have he : endsPlain r = true := by
      cases r with
      | nil => rfl
      | cons x xs => simpa [endsPlain_cons] using h2
    refine .char (ih h1 he) ?_ ?_
    · -- the text does not begin with `"""`
      cases hm : matchStr q3 (c :: (r ++ q3)) with
      | none => rfl
      | some x =>
        exfalso
        have e := matchStr_eq hm
        -- c = '"' and r ++ q3 begins with `""`
        match r, e, hn2, h2 with
        | [], e, _, h2 => simp at e; obtain ⟨rfl, _⟩ := e; simp [endsPlain] at h2
        | [y], e, _, h2 => simp at e; obtain ⟨_, rfl, _⟩ := e; simp [endsPlain] at h2
        | y :: z :: w, e, hn2, _ =>
          simp at e
          obtain ⟨rfl, rfl, rfl, _⟩ := e
          exact hn2 w rfl rfl
    · cases hm : matchStr eq3 (c :: (r ++ q3)) with
      | none => rfl
      | some x =>
        exfalso
        have e := matchStr_eq hm
        match r, e, hn1, h2 with
        | [], e, _, h2 => simp at e; obtain ⟨rfl, _⟩ := e; simp [endsPlain] at h2
        | [y], e, _, h2 => simp at e; obtain ⟨_, rfl, _⟩ := e; simp [endsPlain] at h2
        | [y, z], e, _, h2 => simp at e; obtain ⟨_, _, rfl, _⟩ := e; simp [endsPlain] at h2
        | y :: z :: w :: v, e, hn1, _ =>
          simp at e
          obtain ⟨rfl, rfl, rfl, rfl, _⟩ := e
          exact hn1 v rfl rfl

theorem runs_cast {n sk e at_ c c' ps d d' qs} (h : Runs gList n sk e at_ c c' ps) (h1 : c = d) (h2 : c' = d')
    (h3 : ps = qs) : Runs gList n sk e at_ d d' qs := h1 ▸ h2 ▸ h3 ▸ h

/-- a terminal that does not match a text at least as long as itself does not match any extension of it -/
theorem matchStr_none_append : ∀ (s t x : List Char), matchStr s t = none → s.length ≤ t.length →
    matchStr s (t ++ x) = none := by
  intro s
  induction s with
  | nil => intro t x h; simp [matchStr] at h
  | cons c cs ih =>
    intro t x h hl
    cases t with
    | nil => simp at hl
    | cons d ds =>
      simp only [matchStr, List.cons_append] at h ⊢
      split
      · rename_i hcd
        rw [if_pos hcd] at h
        exact ih ds x h (by simpa using hl)
      · rfl

/-! ### `BlockStringCharacter` (called inside the atomic rule `BlockStringValue`) -/

theorem bsc_fails_q3 {p : Nat} {x : List Char} :
    FailsRule gList 6 R.BlockStringCharacter .atomic ⟨p, q3 ++ x⟩ := by
  have hr : RunsL gList .neg 1 false (.str q3) .atomic ⟨p, q3 ++ x⟩ ⟨p + 3, x⟩ [] :=
    runsL_str (c := ⟨p, q3 ++ x⟩) (by simp [matchStr])
  have g1 : Fails gList 2 false (.not (.str q3)) .atomic ⟨p, q3 ++ x⟩ := failsL_not (la := .none) hr
  exact (failsRule_atomic look_BlockStringCharacter (fails_seq_first g1)).mono (by omega)

theorem bsc_runs_esc {p : Nat} {x : List Char} :
    RunsRule gList 8 R.BlockStringCharacter .atomic ⟨p, eq3 ++ x⟩ ⟨p + 4, x⟩ [] := by
  have g1 : Runs gList 4 false (.not (.str q3)) .atomic ⟨p, eq3 ++ x⟩ ⟨p, eq3 ++ x⟩ [] :=
    (runsL_not (la := .none) (failsL_str (c := ⟨p, eq3 ++ x⟩) (by simp [matchStr]))).mono (by omega)
  have g2 : Runs gList 4 false (.choice (.str eq3) .any) .atomic ⟨p, eq3 ++ x⟩ ⟨p + 4, x⟩ [] :=
    (runs_choice_l (runs_str (c := ⟨p, eq3 ++ x⟩) (by simp [matchStr]))).mono (by omega)
  have := runsRule_atomic (at_ := .atomic) look_BlockStringCharacter (runs_seq_nosk g1 g2)
  simpa using this.mono (by omega : 7 ≤ 8)

theorem bsc_runs_any {p : Nat} {c : Char} {x : List Char} (h1 : matchStr q3 (c :: x) = none)
    (h2 : matchStr eq3 (c :: x) = none) :
    RunsRule gList 8 R.BlockStringCharacter .atomic ⟨p, c :: x⟩ ⟨p + 1, x⟩ [] := by
  have g1 : Runs gList 4 false (.not (.str q3)) .atomic ⟨p, c :: x⟩ ⟨p, c :: x⟩ [] :=
    (runsL_not (la := .none) (failsL_str (c := ⟨p, c :: x⟩) h1)).mono (by omega)
  have g2 : Runs gList 4 false (.choice (.str eq3) .any) .atomic ⟨p, c :: x⟩ ⟨p + 1, x⟩ [] :=
    (runs_choice_r ((fails_str (c := ⟨p, c :: x⟩) h2).mono (by omega : 1 ≤ 3))
      ((runsL_any (la := .none) (c := ⟨p, c :: x⟩) rfl).mono (by omega))).mono (by omega)
  have := runsRule_atomic (at_ := .atomic) look_BlockStringCharacter (runs_seq_nosk g1 g2)
  simpa using this.mono (by omega : 7 ≤ 8)

/-- `BlockStringCharacter*` reads the body and stops in front of the closing delimiter -/
theorem bsc_star {b : List Char} (hb : BlockBody b) : ∀ (p : Nat) (x : List Char),
    Runs gList (b.length + 10) false (.star (.call R.BlockStringCharacter)) .atomic ⟨p, b ++ (q3 ++ x)⟩
      ⟨p + b.length, q3 ++ x⟩ [] := by
  induction hb with
  | nil =>
    intro p x
    simpa using (runs_star_nil (fails_call (sk := false) (bsc_fails_q3 (p := p) (x := x)))).mono (by omega : 8 ≤ 10)
  | @esc r _ ih =>
    intro p x
    have h1 := runs_call (sk := false) (bsc_runs_esc (p := p) (x := r ++ (q3 ++ x)))
    have h2 := ih (p + 4) x
    have := runs_star_cons (h1.mono (by omega : 9 ≤ r.length + 10)) h2
    simp only [List.append_nil] at this
    refine runs_cast (this.mono (by simp)) rfl ?_ rfl
    congr 1; simp; omega
  | @char c r _ hq he ih =>
    intro p x
    have e : c :: (r ++ (q3 ++ x)) = (c :: (r ++ q3)) ++ x := by simp
    have hq' : matchStr q3 (c :: (r ++ (q3 ++ x))) = none := by
      rw [e]; exact matchStr_none_append _ _ _ hq (by simp)
    have he' : matchStr eq3 (c :: (r ++ (q3 ++ x))) = none := by
      rw [e]; exact matchStr_none_append _ _ _ he (by simp)
    have h1 := runs_call (sk := false) (bsc_runs_any (p := p) hq' he')
    have h2 := ih (p + 1) x
    have := runs_star_cons (h1.mono (by omega : 9 ≤ r.length + 10)) h2
    simp only [List.append_nil] at this
    refine runs_cast (this.mono (by simp)) rfl ?_ rfl
    congr 1; simp; omega

/-- the `StringValue` pair of a block string with body of length `n` written at offset `p` -/
def blockPair (n p : Nat) : Pair :=
  .mk R.StringValue p (p + (n + 6)) [.mk R.BlockStringValue p (p + (n + 6)) []]

/-- `StringValue` on a block string, embedded at offset `p`, in any context: `EmptyStringValue` and `NormalStringValue` are
    tried first and fail, `BlockStringValue` consumes exactly the literal -/
theorem blockString_runs {b : List Char} (hb : BlockBody b) (p : Nat) (x : List Char) {at_ : Atomicity} :
    RunsRule gList (b.length + 30) R.StringValue at_ ⟨p, q3 ++ (b ++ (q3 ++ x))⟩ ⟨p + (b.length + 6), x⟩
      [blockPair b.length p] := by
  -- EmptyStringValue: `""` then `!"\""` fails on the third quote
  have hempty : FailsRule gList 5 R.EmptyStringValue .compound ⟨p, q3 ++ (b ++ (q3 ++ x))⟩ := by
    have h1 : Runs gList 2 false (.str ['"', '"']) .atomic ⟨p, q3 ++ (b ++ (q3 ++ x))⟩ ⟨p + 2, '"' :: (b ++ (q3 ++ x))⟩ [] :=
      (runs_str (c := ⟨p, q3 ++ (b ++ (q3 ++ x))⟩) (r := '"' :: (b ++ (q3 ++ x))) (by simp [matchStr])).mono (by omega)
    have h2 : Fails gList 2 false (.not (.str ['"'])) .atomic ⟨p + 2, '"' :: (b ++ (q3 ++ x))⟩ :=
      failsL_not (la := .none) (runsL_str (la := .neg) (c := ⟨p + 2, '"' :: (b ++ (q3 ++ x))⟩) (r := b ++ (q3 ++ x))
        (by simp [matchStr]))
    exact (failsRule_atomic look_EmptyStringValue
      (failsL_seq_last_noskip (la := .none) (Or.inl rfl) h1 h2)).mono (by omega)
  -- NormalStringValue: `"` then `StringCharacter+` fails on the second quote
  have hnormal : FailsRule gList 20 R.NormalStringValue .compound ⟨p, q3 ++ (b ++ (q3 ++ x))⟩ := by
    have h1 : Runs gList 15 false (.str ['"']) .compound ⟨p, q3 ++ (b ++ (q3 ++ x))⟩ ⟨p + 1, '"' :: '"' :: (b ++ (q3 ++ x))⟩ [] :=
      (runs_str (c := ⟨p, q3 ++ (b ++ (q3 ++ x))⟩) (r := '"' :: '"' :: (b ++ (q3 ++ x))) (by simp [matchStr])).mono (by omega)
    have hsc : Fails gList 11 false (.call R.StringCharacter) .compound ⟨p + 1, '"' :: '"' :: (b ++ (q3 ++ x))⟩ :=
      fails_call sc_fails_quote
    have hplus : Fails gList 13 false (.plus (.call R.StringCharacter)) .compound ⟨p + 1, '"' :: '"' :: (b ++ (q3 ++ x))⟩ :=
      failsL_plus (la := .none) (fails_seq_first hsc)
    have h2 : Fails gList 15 false (.seq (.plus (.call R.StringCharacter)) (.str ['"'])) .compound
        ⟨p + 1, '"' :: '"' :: (b ++ (q3 ++ x))⟩ := (fails_seq_first hplus).mono (by omega)
    exact (failsRule_compound look_NormalStringValue
      (failsL_seq_last_noskip (la := .none) (Or.inl rfl) h1 h2)).mono (by omega)
  -- BlockStringValue
  have hblock : RunsRule gList (b.length + 20) R.BlockStringValue .compound ⟨p, q3 ++ (b ++ (q3 ++ x))⟩
      ⟨p + 3 + b.length + 3, x⟩ [.mk R.BlockStringValue p (p + 3 + b.length + 3) []] := by
    have h1 : Runs gList (b.length + 12) false (.str q3) .atomic ⟨p, q3 ++ (b ++ (q3 ++ x))⟩ ⟨p + 3, b ++ (q3 ++ x)⟩ [] :=
      (runs_str (c := ⟨p, q3 ++ (b ++ (q3 ++ x))⟩) (r := b ++ (q3 ++ x)) (by simp [matchStr])).mono (by omega)
    have h2 := bsc_star hb (p + 3) x
    have h3 : Runs gList (b.length + 10) false (.str q3) .atomic ⟨p + 3 + b.length, q3 ++ x⟩ ⟨p + 3 + b.length + 3, x⟩ [] :=
      (runs_str (c := ⟨p + 3 + b.length, q3 ++ x⟩) (r := x) (by simp [matchStr])).mono (by omega)
    have body := runs_seq_nosk h1 (runs_seq_nosk h2 h3)
    have := runsRule_atomic (at_ := .compound) look_BlockStringValue' body
    simpa using this.mono (by omega : b.length + 12 + 2 + 1 ≤ b.length + 20)
  have body := runs_choice_r ((fails_call (sk := false) hempty).mono (by omega : 6 ≤ b.length + 23))
    (runs_choice_r ((fails_call (sk := false) hnormal).mono (by omega : 21 ≤ b.length + 22))
      ((runs_call (sk := false) hblock).mono (by omega)))
  have := runsRule_compound (at_ := at_) look_StringValue body
  refine RunsRule.mono ?_ (by omega : b.length + 23 + 1 + 1 ≤ b.length + 30)
  have e : p + 3 + b.length + 3 = p + (b.length + 6) := by omega
  simpa [blockPair, e] using this

/-- `build_string_value` on that pair returns the body RAW -/
theorem stringValueChars_blockPair {inp : List Char} (b : List Char) (p : Nat) (x : List Char)
    (h : inp.drop p = q3 ++ (b ++ (q3 ++ x))) :
    stringValueChars (Ctx.spec inp) (blockPair b.length p) =
      .ok (b, { line := (lineCol inp p).1, col := (lineCol inp p).2 }) := by
  have hs : slice inp p (p + (b.length + 6)) = q3 ++ (b ++ q3) := by
    have := slice_of_drop (inp := inp) (a := p) (t := q3 ++ (b ++ q3)) (r := x) (by simpa using h)
    simpa [Nat.add_comm, Nat.add_left_comm] using this
  have hlen : ¬ (q3 ++ (b ++ q3)).length < 6 := by simp
  have hmid : ((q3 ++ (b ++ q3)).drop 3).take ((q3 ++ (b ++ q3)).length - 6) = b := by
    simp
  simp [stringValueChars, blockPair, onlyChildOf, onlyChild, Pair.children, Pair.rule, OC_StringValue, toPos, Ctx.spec,
    Pair.start, Pair.stop, asStr, bind, Except.bind, R.NormalStringValue, R.EmptyStringValue, R.BlockStringValue, hs]

end NitroVerif.StringParse
