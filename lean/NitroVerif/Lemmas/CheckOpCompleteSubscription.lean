import NitroVerif.Lemmas.CheckOpCompleteWalk
/-!
Completeness of the subscription root count (C04, 5.2.3.1): every response key the checker's
`selection_set_has_more_than_one_fields` collects is one the specification's `CollectFields` collects, so a
subscription with exactly one root response key is not reported.
-/
namespace NitroVerif.CheckOp
open NitroVerif.Gql NitroVerif.CheckCommon NitroVerif.Valid

/-- a key the checker collects at the top level of `ss` is a key of a field there, or was collected through a
    top-level spread -/
theorem rootKeys_sub (H : KeysHandler) (seen : List Name) : ∀ (k : Nat) (ss : List Selection), Selection.sizeList ss ≤ k →
    ∀ key ∈ rootKeys H seen ss, key ∈ keysFlat ss ∨ ∃ n ∈ spreadsFlat ss, key ∈ H seen n := by
  intro k
  induction k with
  | zero =>
    intro ss hsz key hk
    cases ss with
    | nil => simp [rootKeys] at hk
    | cons s ss => have := Selection.one_le_size s; simp [Selection.sizeList] at hsz; omega
  | succ k ih =>
    intro ss
    induction ss with
    | nil => intro _ key hk; simp [rootKeys] at hk
    | cons s ss ihs =>
      intro hsz key hk
      have hs1 := Selection.one_le_size s
      simp only [Selection.sizeList] at hsz
      simp only [rootKeys, List.mem_append] at hk
      simp only [keysFlat, spreadsFlat, List.mem_append]
      rcases hk with hk | hk
      · have hsel : key ∈ keysFlatSel s ∨ ∃ n ∈ spreadsFlatSel s, key ∈ H seen n := by
          cases s with
          | field al name namePos args dirs sel =>
            cases al with
            | none => left; simpa [keysFlatSel, rootKeysSel] using hk
            | some a => obtain ⟨a, ap⟩ := a; left; simpa [keysFlatSel, rootKeysSel] using hk
          | spread name namePos dirs pos =>
            right
            simp only [rootKeysSel] at hk
            exact ⟨name, by simp [spreadsFlatSel], hk⟩
          | inline cond dirs ss' pos =>
            have hss : Selection.sizeList ss' ≤ k := by simp [Selection.size] at hsz; omega
            simp only [rootKeysSel] at hk
            simpa only [keysFlatSel, spreadsFlatSel] using ih ss' hss key hk
        rcases hsel with h | ⟨n, hn, h⟩
        · exact Or.inl (Or.inl h)
        · exact Or.inr ⟨n, Or.inl hn, h⟩
      · rcases ihs (by omega) key hk with h | ⟨n, hn, h⟩
        · exact Or.inl (Or.inr h)
        · exact Or.inr ⟨n, Or.inr hn, h⟩

section
variable {D : Doc} (hnd : nodupB (fragNamesOf D) = true) (hSD : SpreadsDefined D)
include hnd hSD

/-- what the key handler collects through a fragment reachable from the top level of `ss0` -/
theorem keysHandler_sub (ss0 : List Selection) : ∀ (fuel : Nat) (seen : List Name) (n key : Name),
    n ∈ Valid.reachableFlat D ss0 → key ∈ keysHandler D fuel seen n →
    key ∈ (Valid.reachableFlat D ss0).flatMap fun n => match Valid.frag? D n with | some f => keysFlat f.sel | none => [] := by
  intro fuel
  induction fuel with
  | zero => intro seen n key _ hk; simp [keysHandler] at hk
  | succ fuel ih =>
    intro seen n key hn hk
    simp only [keysHandler] at hk
    split at hk
    · cases hk
    · cases hm : fragMap D n with
      | none => simp [hm] at hk
      | some f =>
        simp only [hm] at hk
        rcases rootKeys_sub _ _ _ f.sel (Nat.le_refl _) key hk with h | ⟨n', hn', h⟩
        · refine List.mem_flatMap.mpr ⟨n, hn, ?_⟩
          simp only [frag?_eq_fragMap hnd, hm]
          exact h
        · exact ih _ n' key ((reachableFlat_facts hnd hSD ss0).2 n f n' hn hm hn') h

/-- **Completeness of the subscription root count.** -/
theorem hasMoreThanOneField_false {ss : List Selection} (h : (Valid.rootKeys D ss).length = 1) :
    hasMoreThanOneField D ss = false := by
  unfold hasMoreThanOneField
  have hsub : ∀ key ∈ rootKeys (keysHandler D (fuelFor D)) [] ss,
      key ∈ keysFlat ss ++ (Valid.reachableFlat D ss).flatMap fun n =>
        match Valid.frag? D n with | some f => keysFlat f.sel | none => [] := by
    intro key hk
    rcases rootKeys_sub _ _ _ ss (Nat.le_refl _) key hk with h' | ⟨n, hn, h'⟩
    · exact List.mem_append_left _ h'
    · exact List.mem_append_right _
        (keysHandler_sub hnd hSD ss _ _ n key ((reachableFlat_facts hnd hSD ss).1 n hn) h')
  have hM : (dedupNames (keysFlat ss ++ (Valid.reachableFlat D ss).flatMap fun n =>
      match Valid.frag? D n with | some f => keysFlat f.sel | none => [])).length ≤ 1 := by
    have : (Valid.rootKeys D ss).length ≤ 1 := by omega
    exact this
  have := dedup_le_one_of_subset hsub hM
  have this' : (dedupNames (rootKeys (keysHandler D (fuelFor D)) [] ss)).length ≤ 1 := this
  simp only [decide_eq_false_iff_not]
  omega
end

end NitroVerif.CheckOp
