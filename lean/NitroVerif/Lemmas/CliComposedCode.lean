/-
C18 composed (helper definitions and lemmas): an injective `Nat` coding of names, so that the `Nat`-coded fragment names
of `Model/Imports.lean` identify exactly the fragment names of the documents (`Env.code := nameCode` is a faithful
instance; the theorems of Props/C18Composed.lean hold for every coding).
-/
namespace NitroVerif.CliComposed

def charsCode : List Char → Nat
  | [] => 0
  | c :: cs => (c.toNat + 1) + 1114113 * charsCode cs

theorem char_toNat_lt (c : Char) : c.toNat < 1114112 := by
  have := c.valid
  simp only [Char.toNat]
  rcases this with h | ⟨_, h⟩
  · have : c.val.toNat < 55296 := h
    omega
  · have : c.val.toNat < 1114112 := h
    omega

theorem char_eq_of_toNat {c d : Char} (h : c.toNat = d.toNat) : c = d := by
  apply Char.ext
  apply UInt32.toNat_inj.mp
  exact h

theorem charsCode_inj : ∀ a b : List Char, charsCode a = charsCode b → a = b := by
  intro a
  induction a with
  | nil =>
    intro b h
    cases b with
    | nil => rfl
    | cons d ds => simp only [charsCode] at h; omega
  | cons c cs ih =>
    intro b h
    cases b with
    | nil => simp only [charsCode] at h; omega
    | cons d ds =>
      simp only [charsCode] at h
      have hc := char_toNat_lt c
      have hd := char_toNat_lt d
      have h1 : c.toNat = d.toNat := by omega
      have h2 : charsCode cs = charsCode ds := by omega
      rw [char_eq_of_toNat h1, ih ds h2]

/-- base-1114113 coding of the characters of a name (injective: `nameCode_inj`) -/
def nameCode (n : String) : Nat := charsCode n.toList

theorem nameCode_inj (a b : String) (h : nameCode a = nameCode b) : a = b := by
  have := charsCode_inj _ _ h
  exact String.toList_inj.mp this

end NitroVerif.CliComposed
