import NitroVerif.Lemmas.JsonTextRound
/-!
# C12, text level — JSON ⊂ ECMAScript (ES2019), for ALL texts

`js_of_rfc`: whenever the RFC 8259 reader reads a value at the head of a text — ANY text, not only the writer's — as the tree `t`
leaving `r`, and no member of `t` is named `__proto__`, the ECMAScript literal reader (ES2019 lexical grammar) reads the same text
as the same tree leaving the same `r`, with the same fuel. This is the "JSON superset" fact of ES2019, proved between the two
transcriptions of `Spec/JsonText.lean` (it also cross-checks them against each other).
-/
namespace NitroVerif.JsonText
open NitroVerif

/-! ## strings -/

theorem push_mono {k k' : List Char → Option (List Char × List Char)} (h : ∀ s y, k s = some y → k' s = some y)
    (c : Char) (s : List Char) (y : List Char × List Char) (hy : push c (k s) = some y) : push c (k' s) = some y := by
  cases hk : k s with
  | none => simp [hk, push] at hy
  | some p => rw [hk] at hy; rw [h s p hk]; exact hy

theorem unicodeEscape_mono {k k' : List Char → Option (List Char × List Char)} (h : ∀ s y, k s = some y → k' s = some y)
    (n : Nat) (r : List Char) (y : List Char × List Char) (hy : unicodeEscape k n r = some y) :
    unicodeEscape k' n r = some y := by
  unfold unicodeEscape at hy ⊢
  cases hhi : isHighSurrogate n
  · simp only [hhi, Bool.false_eq_true, if_false] at hy ⊢
    cases hlo : isLowSurrogate n
    · simp only [hlo, Bool.false_eq_true, if_false] at hy ⊢
      exact push_mono h _ _ _ hy
    · simp [hlo] at hy
  · simp only [hhi, if_true] at hy ⊢
    split at hy
    · rename_i b u l1 l2 l3 l4 r2
      split at hy
      · rename_i hbu
        simp only [hbu, and_self, if_true]
        split at hy
        · rename_i m hm
          split at hy
          · rename_i hl
            simp only [hl, if_true]
            exact push_mono h _ _ _ hy
          · cases hy
        · cases hy
      · cases hy
    · cases hy

theorem hexVal_ne_brace {c : Char} {n : Nat} (h : hexVal c = some n) : c ≠ '{' := by
  intro e; subst e; simp [hexVal] at h

theorem hex4_head {a b c d : Char} {n : Nat} (h : hex4 a b c d = some n) : a ≠ '{' := by
  unfold hex4 at h
  cases ha : hexVal a with
  | none => simp [ha] at h
  | some x => exact hexVal_ne_brace ha

theorem simpleEscape_some {e ch : Char} (h : simpleEscape e = some ch) :
    (e = '"' ∧ ch = '"') ∨ (e = '\\' ∧ ch = '\\') ∨ (e = '/' ∧ ch = '/') ∨ (e = 'b' ∧ ch = Char.ofNat 8) ∨
    (e = 'f' ∧ ch = Char.ofNat 12) ∨ (e = 'n' ∧ ch = '\n') ∨ (e = 'r' ∧ ch = '\r') ∨ (e = 't' ∧ ch = '\t') := by
  unfold simpleEscape at h
  repeat' split at h
  all_goals first | (simp only [Option.some.injEq] at h; subst h; simp [*]) | cases h

/-- the RFC 8259 string scanner is included in the ECMA-262 one (`"`-delimited, ES2019) -/
theorem js_of_rfc_str : ∀ (f : Nat) (s : List Char) (y : List Char × List Char),
    strBodyFuel f s = some y → JsLit.strBodyFuel '"' true f s = some y
  | 0, _, _, h => by simp [strBodyFuel] at h
  | _ + 1, [], _, h => by simp [strBodyFuel] at h
  | f + 1, c :: cs, y, h => by
    have ih := js_of_rfc_str f
    simp only [strBodyFuel] at h
    simp only [JsLit.strBodyFuel]
    by_cases hq : c = '"'
    · simpa [hq] using h
    · simp only [hq, if_false] at h ⊢
      by_cases hb : c = '\\'
      · simp only [hb, if_true] at h ⊢
        cases cs with
        | nil => simp at h
        | cons e r =>
          simp only at h ⊢
          by_cases hu : e = 'u'
          · simp only [hu, if_true] at h ⊢
            split at h
            · rename_i h1 h2 h3 h4 r1
              cases hh : hex4 h1 h2 h3 h4 with
              | none => simp [hh] at h
              | some n =>
                simp only [hh] at h
                simp only [hex4_head hh, if_false, hh]
                exact unicodeEscape_mono ih _ _ _ h
            · cases h
          · simp only [hu, if_false] at h ⊢
            cases hs : simpleEscape e with
            | none => simp [hs] at h
            | some ch =>
              simp only [hs] at h
              rcases simpleEscape_some hs with ⟨rfl, rfl⟩ | ⟨rfl, rfl⟩ | ⟨rfl, rfl⟩ | ⟨rfl, rfl⟩ | ⟨rfl, rfl⟩ | ⟨rfl, rfl⟩ |
                ⟨rfl, rfl⟩ | ⟨rfl, rfl⟩ <;>
                (simp [JsLit.singleEscape, JsLit.isLineTerminator, isDigit]; exact push_mono ih _ _ _ h)
      · simp only [hb, if_false] at h ⊢
        by_cases hc : c.toNat < 32
        · simp [hc] at h
        · simp only [hc, if_false] at h
          have h10 : ¬ (c.toNat = 10 ∨ c.toNat = 13) := by omega
          simp only [h10, if_false, Bool.true_eq_false, false_and]
          exact push_mono ih _ _ _ h

theorem js_of_rfc_strBody (s : List Char) (y : List Char × List Char) (h : strBody s = some y) :
    JsLit.strBody true '"' s = some y := js_of_rfc_str _ s y h

/-! ## white space -/

/-- the characters that begin a token of a JSON text -/
def isTok (c : Char) : Bool := isStart c || c = ']' || c = '}' || c = ',' || c = ':'

theorem js_ws_tok {c : Char} (h : isTok c = true) : JsLit.ws c = false := by
  simp only [isTok, Bool.or_eq_true, decide_eq_true_eq] at h
  rcases h with (((h | h) | h) | h) | h
  · exact jsLit_ok.ws_start c h
  · subst h; decide
  · subst h; decide
  · subst h; decide
  · subst h; decide

theorem js_ws_of_rfc {c : Char} (h : rfc8259.ws c = true) : JsLit.ws c = true := by
  simp only [rfc8259, decide_eq_true_eq] at h
  rcases h with h | h | h | h <;> (subst h; decide)

theorem skipWs_js_of_rfc : ∀ (s : List Char) (c : Char) (r : List Char), skipWs rfc8259.ws s = c :: r → isTok c = true →
    skipWs JsLit.ws s = c :: r
  | [], _, _, h, _ => by simp [skipWs] at h
  | d :: ds, c, r, h, ht => by
    by_cases hd : rfc8259.ws d = true
    · simp only [skipWs, hd, if_true] at h
      simp only [skipWs, js_ws_of_rfc hd, if_true]
      exact skipWs_js_of_rfc ds c r h ht
    · simp only [skipWs, hd] at h
      simp only [Bool.false_eq_true, if_false, List.cons.injEq] at h
      obtain ⟨rfl, rfl⟩ := h
      simp [skipWs, js_ws_tok ht]

/-! ## trees without a member named `__proto__` -/

mutual
def protoFree : Json → Bool
  | .arr xs => protoFreeList xs
  | .obj kvs => protoFreeFields kvs
  | _ => true
def protoFreeList : List Json → Bool
  | [] => true
  | x :: xs => protoFree x && protoFreeList xs
def protoFreeFields : List (String × Json) → Bool
  | [] => true
  | (k, v) :: r => JsLit.lex.key k.toList && protoFree v && protoFreeFields r
end

/-! ## the grammar -/

theorem js_quote_dq : JsLit.lex.quote '"' = true := jsLit_ok.quote_dq

theorem isTok_of_start {c : Char} (h : isStart c = true) : isTok c = true := by simp [isTok, h]

/-- a value begins (behind white space) with a start character -/
theorem value_start {f : Nat} {s : List Char} {t : Json} {r : List Char} (h : value rfc8259 f s = some (t, r)) :
    ∃ c r0, skipWs rfc8259.ws s = c :: r0 ∧ isStart c = true := by
  cases f with
  | zero => simp [value] at h
  | succ f =>
    simp only [value] at h
    cases hsk : skipWs rfc8259.ws s with
    | nil => simp [hsk] at h
    | cons c r0 =>
      refine ⟨c, r0, rfl, ?_⟩
      simp only [hsk] at h
      by_cases hq : c = '"'
      · subst hq; decide
      · have hrq : rfc8259.quote c = false := by simp [rfc8259, hq]
        simp only [hrq, Bool.false_eq_true, if_false] at h
        by_cases h1 : c = '['
        · subst h1; decide
        · by_cases h2 : c = '{'
          · subst h2; decide
          · by_cases h3 : c = 't'
            · subst h3; decide
            · by_cases h4 : c = 'f'
              · subst h4; decide
              · by_cases h5 : c = 'n'
                · subst h5; decide
                · simp only [h1, h2, h3, h4, h5, if_false] at h
                  cases hn : number (c :: r0) with
                  | none => simp [hn] at h
                  | some p =>
                    obtain ⟨c', cs, he, hc⟩ := number_head hn
                    simp only [List.cons.injEq] at he
                    obtain ⟨rfl, _⟩ := he
                    rcases hc with hc | hc
                    · subst hc; decide
                    · simp [isStart, hc]

theorem elements_start {f : Nat} {s : List Char} {xs : List Json} {r : List Char}
    (h : elements rfc8259 f s = some (xs, r)) : ∃ c r0, skipWs rfc8259.ws s = c :: r0 ∧ isStart c = true := by
  cases f with
  | zero => simp [elements] at h
  | succ f =>
    simp only [elements] at h
    cases hv : value rfc8259 f s with
    | none => simp [hv] at h
    | some p => obtain ⟨x, r1⟩ := p; exact value_start hv

theorem skipWs_idem (ws : Char → Bool) : ∀ s, skipWs ws (skipWs ws s) = skipWs ws s
  | [] => rfl
  | c :: cs => by
    by_cases h : ws c = true
    · simp only [skipWs, h, if_true]; exact skipWs_idem ws cs
    · simp [skipWs, h]

theorem skipWs_of_eq {ws : Char → Bool} {s : List Char} {c : Char} {r : List Char} (h : skipWs ws s = c :: r) :
    skipWs ws (c :: r) = c :: r := by rw [← h, skipWs_idem]

/-- JSON ⊂ ECMAScript, with the fuel explicit -/
theorem js_of_rfc_fuel : ∀ (f : Nat),
    (∀ s t r, value rfc8259 f s = some (t, r) → protoFree t = true → value JsLit.lex f s = some (t, r)) ∧
    (∀ s xs r, elements rfc8259 f s = some (xs, r) → protoFreeList xs = true → elements JsLit.lex f s = some (xs, r)) ∧
    (∀ s kvs r, members rfc8259 f s = some (kvs, r) → protoFreeFields kvs = true →
      members JsLit.lex f s = some (kvs, r))
  | 0 => by simp [value, elements, members]
  | f + 1 => by
    obtain ⟨ihv, ihe, ihm⟩ := js_of_rfc_fuel f
    have jsws : JsLit.lex.ws = JsLit.ws := rfl
    refine ⟨?_, ?_, ?_⟩
    · -- value
      intro s t r h hp
      obtain ⟨c, r0, hsk, hst⟩ := value_start h
      have hs := skipWs_js_of_rfc s c r0 hsk (isTok_of_start hst)
      simp only [value, hsk] at h
      simp only [value, jsws, hs]
      by_cases hq : c = '"'
      · -- string
        subst hq
        have hrq : rfc8259.quote '"' = true := rfc8259_ok.quote_dq
        simp only [hrq, if_true] at h
        simp only [js_quote_dq, if_true]
        cases hb : strBody r0 with
        | none => simp [rfc8259, hb] at h
        | some p =>
          have hj := js_of_rfc_strBody r0 p hb
          obtain ⟨cs, r'⟩ := p
          simp only [rfc8259, hb] at h
          simp only [JsLit.lex, JsLit.lexOf, hj]
          exact h
      · have hrq : rfc8259.quote c = false := by simp [rfc8259, hq]
        have hjq : JsLit.lex.quote c = false := jsLit_ok.quote_start c hst hq
        simp only [hrq, Bool.false_eq_true, if_false] at h
        simp only [hjq, Bool.false_eq_true, if_false]
        by_cases hlb : c = '['
        · -- array
          subst hlb
          simp only [if_true] at h ⊢
          cases hsk1 : skipWs rfc8259.ws r0 with
          | nil => simp [hsk1] at h
          | cons c1 r1 =>
            simp only [hsk1] at h
            by_cases hc1 : c1 = ']'
            · subst hc1
              simp only [if_true] at h
              simp only [skipWs_js_of_rfc r0 ']' r1 hsk1 (by decide), if_true]
              exact h
            · simp only [hc1, if_false] at h
              cases he : elements rfc8259 f (c1 :: r1) with
              | none => simp [he] at h
              | some p =>
                obtain ⟨xs, r'⟩ := p
                simp only [he, Option.some.injEq, Prod.mk.injEq] at h
                obtain ⟨rfl, rfl⟩ := h
                simp only [protoFree] at hp
                obtain ⟨c2, r2, hsk2, hst2⟩ := elements_start he
                rw [skipWs_of_eq hsk1] at hsk2
                simp only [List.cons.injEq] at hsk2
                obtain ⟨rfl, rfl⟩ := hsk2
                simp only [skipWs_js_of_rfc r0 c1 r1 hsk1 (isTok_of_start hst2), hc1, if_false, ihe _ _ _ he hp]
        · simp only [hlb, if_false] at h ⊢
          by_cases hlc : c = '{'
          · -- object
            subst hlc
            simp only [if_true] at h ⊢
            cases hsk1 : skipWs rfc8259.ws r0 with
            | nil => simp [hsk1] at h
            | cons c1 r1 =>
              simp only [hsk1] at h
              by_cases hc1 : c1 = '}'
              · subst hc1
                simp only [if_true] at h
                simp only [skipWs_js_of_rfc r0 '}' r1 hsk1 (by decide), if_true]
                exact h
              · simp only [hc1, if_false] at h
                cases hm : members rfc8259 f (c1 :: r1) with
                | none => simp [hm] at h
                | some p =>
                  obtain ⟨kvs, r'⟩ := p
                  simp only [hm, Option.some.injEq, Prod.mk.injEq] at h
                  obtain ⟨rfl, rfl⟩ := h
                  simp only [protoFree] at hp
                  -- members begin with a quotation mark
                  have hdq : c1 = '"' := by
                    cases f with
                    | zero => simp [members] at hm
                    | succ g =>
                      simp only [members, skipWs_of_eq hsk1] at hm
                      by_cases hq1 : c1 = '"'
                      · exact hq1
                      · have : rfc8259.quote c1 = false := by simp [rfc8259, hq1]
                        simp [this] at hm
                  subst hdq
                  simp only [skipWs_js_of_rfc r0 '"' r1 hsk1 (by decide), hc1, if_false, ihm _ _ _ hm hp]
          · simp only [hlc, if_false] at h ⊢
            exact h
    · -- elements
      intro s xs r h hp
      simp only [elements] at h ⊢
      cases hv : value rfc8259 f s with
      | none => simp [hv] at h
      | some p =>
        obtain ⟨x, r1⟩ := p
        simp only [hv] at h
        cases hsk : skipWs rfc8259.ws r1 with
        | nil => simp [hsk] at h
        | cons c r2 =>
          simp only [hsk] at h
          by_cases hc : c = ','
          · subst hc
            simp only [if_true] at h
            cases he : elements rfc8259 f r2 with
            | none => simp [he] at h
            | some q =>
              obtain ⟨ys, r3⟩ := q
              simp only [he, Option.some.injEq, Prod.mk.injEq] at h
              obtain ⟨rfl, rfl⟩ := h
              simp only [protoFreeList, Bool.and_eq_true] at hp
              simp only [ihv _ _ _ hv hp.1, jsws, skipWs_js_of_rfc r1 ',' r2 hsk (by decide), if_true,
                ihe _ _ _ he hp.2]
          · simp only [hc, if_false] at h
            by_cases hc' : c = ']'
            · subst hc'
              simp only [if_true, Option.some.injEq, Prod.mk.injEq] at h
              obtain ⟨rfl, rfl⟩ := h
              simp only [protoFreeList, Bool.and_eq_true] at hp
              simp only [ihv _ _ _ hv hp.1, jsws, skipWs_js_of_rfc r1 ']' r2 hsk (by decide), hc, if_false, if_true]
            · simp [hc'] at h
    · -- members
      intro s kvs r h hp
      simp only [members] at h ⊢
      cases hsk : skipWs rfc8259.ws s with
      | nil => simp [hsk] at h
      | cons q r0 =>
        simp only [hsk] at h
        by_cases hq : q = '"'
        · subst hq
          have hrq : rfc8259.quote '"' = true := rfc8259_ok.quote_dq
          simp only [hrq, if_true] at h
          simp only [jsws, skipWs_js_of_rfc s '"' r0 hsk (by decide), js_quote_dq, if_true]
          cases hb : strBody r0 with
          | none => simp [rfc8259, hb] at h
          | some p =>
            have hj := js_of_rfc_strBody r0 p hb
            obtain ⟨k, r1⟩ := p
            have hstr : rfc8259.str '"' r0 = some (k, r1) := hb
            have hjstr : JsLit.lex.str '"' r0 = some (k, r1) := hj
            have hkey : rfc8259.key k = true := rfl
            simp only [hstr, hkey, if_true] at h
            simp only [hjstr]
            cases hsk1 : skipWs rfc8259.ws r1 with
            | nil => simp [hsk1] at h
            | cons c r2 =>
              simp only [hsk1] at h
              by_cases hc : c = ':'
              · subst hc
                simp only [if_true] at h
                cases hv : value rfc8259 f r2 with
                | none => simp [hv] at h
                | some pv =>
                  obtain ⟨v, r3⟩ := pv
                  simp only [hv] at h
                  cases hsk3 : skipWs rfc8259.ws r3 with
                  | nil => simp [hsk3] at h
                  | cons d r4 =>
                    simp only [hsk3] at h
                    by_cases hd : d = ','
                    · subst hd
                      simp only [if_true] at h
                      cases hm : members rfc8259 f r4 with
                      | none => simp [hm] at h
                      | some pm =>
                        obtain ⟨rest, r5⟩ := pm
                        simp only [hm, Option.some.injEq, Prod.mk.injEq] at h
                        obtain ⟨rfl, rfl⟩ := h
                        simp only [protoFreeFields, Bool.and_eq_true, String.toList_ofList] at hp
                        simp only [hp.1.1, if_true, skipWs_js_of_rfc r1 ':' r2 hsk1 (by decide),
                          ihv _ _ _ hv hp.1.2, skipWs_js_of_rfc r3 ',' r4 hsk3 (by decide), ihm _ _ _ hm hp.2]
                    · simp only [hd, if_false] at h
                      by_cases hd' : d = '}'
                      · subst hd'
                        simp only [if_true, Option.some.injEq, Prod.mk.injEq] at h
                        obtain ⟨rfl, rfl⟩ := h
                        simp only [protoFreeFields, Bool.and_eq_true, String.toList_ofList] at hp
                        simp only [hp.1.1, if_true, skipWs_js_of_rfc r1 ':' r2 hsk1 (by decide),
                          ihv _ _ _ hv hp.1.2, skipWs_js_of_rfc r3 '}' r4 hsk3 (by decide), hd, if_false]
                      · simp [hd'] at h
              · simp [hc] at h
        · have hrq : rfc8259.quote q = false := by simp [rfc8259, hq]
          simp [hrq] at h

end NitroVerif.JsonText
