/-
C01/C02 refinement, model side, part 4: branches, branch enumeration, and the induction on the fuel that shows
`implTree … ty ss = .ok T → RelTree c T ty {ss}`.
-/
import NitroVerif.Lemmas.OpTypesRefImpl
namespace NitroVerif.OpTypes.Ref
open NitroVerif.Gql NitroVerif.Ts NitroVerif.Exec NitroVerif.OpTypes

/-! ### one alias class of one branch -/

theorem map_eq_cons {α β : Type} {f : α → β} : ∀ {l : List α} {b : β} {bs : List β}, l.map f = b :: bs →
    ∃ a as, l = a :: as ∧ f a = b ∧ as.map f = bs
  | a :: as, _, _, h => by
    simp only [List.map_cons, List.cons.injEq] at h
    exact ⟨a, as, rfl, h.1, h.2⟩

theorem class_rel {c : Ctx} {mt : SelTree → SelTree → Except Panic SelTree} (HM : MergeSpec c mt) {o : Name}
    {ss : List Selection} {vars : List (Name × Bool)} {tag : Bool} {Lp Lc : List Entry} {M : List SField}
    (hLc : ∀ q, q ∈ Lc ↔ q ∈ Lp ∧ q.2.1 = tag)
    (hgood : ∀ p ∈ Lp, Good c o vars ss p)
    (hcomp : ∀ σ, Agree σ vars → ∀ t, InFlat c.S c.F o (included σ) [] ss t → ∃ p ∈ Lp, p.1 = (t, false))
    (hM : Repr mt M (Lc.map (·.2.2))) (hcoh : CohAt c (Sb1 ss) o)
    (hnest : ∀ t fd, PU c (Sb1 ss) o allInc t → c.S.field? o t.name = some fd →
      ∀ d, Coh c d (SubSet c (Sb1 ss) o allInc t.key) fd.ty.unwrapped) :
    (∀ m ∈ M, ∃ q ∈ Lp, q.2.1 = tag ∧ q.1.1.key = m.name) ∧
    ∀ σ, Agree σ vars → RelFields c o σ (Sb1 ss) tag M ∧
      ∀ t, PU c (Sb1 ss) o (included σ) t → t.aliased = tag → ∃ m ∈ M, m.name = t.key ∧ m.isEmpty = false := by
  obtain ⟨_, hrep, hcov⟩ := hM
  -- the entries behind a merged field
  have entries : ∀ m ∈ M, ∃ p0 prest, Lc.filter (fun q => q.2.2.name == m.name) = p0 :: prest ∧
      mergeAll mt p0.2.2 (prest.map (·.2.2)) = .ok m := by
    intro m hm
    obtain ⟨f0, rest, hfil, hma⟩ := hrep m hm
    rw [List.filter_map] at hfil
    obtain ⟨p0, prest, hps, hf0, hrest⟩ := map_eq_cons hfil
    refine ⟨p0, prest, hps, ?_⟩
    rw [hf0, hrest]; exact hma
  have psfacts : ∀ m : SField, ∀ q ∈ Lc.filter (fun q => q.2.2.name == m.name),
      Good c o vars ss q ∧ q.1.1.key = m.name ∧ q.2.1 = tag := by
    intro m q hq
    obtain ⟨hq1, hq2⟩ := List.mem_filter.1 hq
    obtain ⟨hq3, hq4⟩ := (hLc q).1 hq1
    have hg := hgood q hq3
    exact ⟨hg, by rw [← entryOk_name hg.1]; simpa using hq2, hq4⟩
  constructor
  · intro m hm
    obtain ⟨p0, prest, hps, _⟩ := entries m hm
    have hp0 : p0 ∈ Lc.filter (fun q => q.2.2.name == m.name) := by rw [hps]; simp
    obtain ⟨_, h2, h3⟩ := psfacts m p0 hp0
    exact ⟨p0, ((hLc p0).1 (List.mem_filter.1 hp0).1).1, h3, h2⟩
  · intro σ hag
    constructor
    · apply relFields_of_mem
      intro m hm
      obtain ⟨p0, prest, hps, hma⟩ := entries m hm
      have hfacts := psfacts m
      rw [hps] at hfacts
      have hinv := accInv_fold (ss := ss) (k := m.name) HM hcoh prest [p0] p0.2.2 m
        (accInv_single (hfacts p0 (by simp)).1.1 (hfacts p0 (by simp)).2.1)
        (fun q hq => ⟨(hfacts q (by simpa using hq)).1.1, (hfacts q (by simpa using hq)).2.1,
          (hfacts q (by simpa using hq)).1.2.1⟩)
        (by
          intro Q hQ fd q hq hfd d
          have hq' := hfacts q (by simpa using hq)
          have := hnest q.1.1 fd (pu_sb1.2 hq'.1.2.1) hfd d
          rw [hq'.2.1] at this
          refine coh_subset d _ _ _ ?_ this
          intro s hs
          obtain ⟨q2, hq2, hsub⟩ := hQ s hs
          have hq2' := hfacts q2 (by simpa using hq2)
          exact ⟨q2.1.1, pu_sb1.2 hq2'.1.2.1, hq2'.2.1, hsub⟩)
        hma
      refine accInv_relField (vars := vars) hag hinv (by simp) (fun q hq => hfacts q (by simpa using hq)) ?_ hcoh
      intro t ht hk hta
      obtain ⟨p, hp, hpe⟩ := hcomp σ hag t ht
      have hpc : p ∈ Lc := (hLc p).2 ⟨hp, by rw [(hgood p hp).1.1, hpe]; exact hta⟩
      have : p ∈ Lc.filter (fun q => q.2.2.name == m.name) :=
        List.mem_filter.2 ⟨hpc, by rw [entryOk_name (hgood p hp).1, hpe]; simpa using hk⟩
      rw [hps] at this
      exact ⟨p, by simpa using this, hpe⟩
    · intro t ht hta
      obtain ⟨p, hp, hpe⟩ := hcomp σ hag t (pu_sb1.1 ht)
      have hg := hgood p hp
      have hpc : p ∈ Lc := (hLc p).2 ⟨hp, by rw [hg.1.1, hpe]; exact hta⟩
      have hname : p.2.2.name = t.key := by rw [entryOk_name hg.1, hpe]
      have hne : p.2.2.isEmpty = false := by rw [entry_empty_iff hg.1, hpe]
      obtain ⟨m, hm, hmn⟩ := hcov p.2.2 (List.mem_map_of_mem hpc)
      refine ⟨m, hm, by rw [hmn, hname], ?_⟩
      obtain ⟨f0, rest, hfil, hma⟩ := hrep m hm
      rw [mergeAll_isEmpty rest f0 m hma]
      have hmem : p.2.2 ∈ f0 :: rest := by
        rw [← hfil]; exact List.mem_filter.2 ⟨List.mem_map_of_mem hpc, by simp [hmn]⟩
      rcases List.mem_cons.1 hmem with h | hmem
      · rw [← h]; simp [hne]
      · have : rest.all (·.isEmpty) = false := by
          rw [List.all_eq_false]; exact ⟨p.2.2, hmem, by simp [hne]⟩
        simp [this]

/-! ### one branch -/

def branchOf (S : Schema) (F : Frags) (mfuel fuel : Nat) (ss : List Selection) (cnd : Cond) : Except Panic Branch := do
  let fs ← fieldsFor S F mfuel fuel cnd ss
  let un ← deepMerge mfuel ((fs.filter (!·.1)).map (·.2))
  let al ← deepMerge mfuel ((fs.filter (·.1)).map (·.2))
  .ok (Branch.mk cnd.obj.name cnd.vars un al)

def mkBranches (S : Schema) (F : Frags) (mfuel fuel : Nat) (ss : List Selection) (n : Name) :
    Except Panic (List Branch) := do
  let conds ← branchConds S F mfuel ss n
  conds.mapM (branchOf S F mfuel fuel ss)

theorem implTree_succ (S : Schema) (F : Frags) (mfuel fuel : Nat) (ty : GType) (ss : List Selection) :
    implTree S F mfuel (fuel + 1) ty ss = wrapTree (mkBranches S F mfuel fuel ss) ty := by
  rw [implTree]
  rfl

theorem branch_rel {c : Ctx} {mfuel fuel : Nat} (HF : FFStmt c mfuel fuel) {cnd : Cond} {ss : List Selection}
    {n : Name} {b : Branch} (h : branchOf c.S c.F mfuel fuel ss cnd = .ok b)
    (hcnd : c.S.typeDef? cnd.obj.name = some cnd.obj) (hkind : cnd.obj.kind = .object)
    (hposs : cnd.obj.name ∈ c.S.possibleTypes n) (hself : Agree (sigmaOf cnd.vars) cnd.vars)
    (hC : ∀ d, Coh c d (Sb1 ss) n) : RelBranch c b n (Sb1 ss) := by
  have hcoh : CohAt c (Sb1 ss) cnd.obj.name := by
    have := hC 1; simp only [Coh] at this; exact (this _ hposs).1
  have hnest : ∀ t fd, PU c (Sb1 ss) cnd.obj.name allInc t → c.S.field? cnd.obj.name t.name = some fd →
      ∀ d, Coh c d (SubSet c (Sb1 ss) cnd.obj.name allInc t.key) fd.ty.unwrapped := by
    intro t fd ht hfd d
    have := hC (d + 1); simp only [Coh] at this; exact (this _ hposs).2 t fd ht hfd
  have hsub : SubCoh c cnd.obj.name ss := by
    intro t fd s ht hs hfd d
    refine coh_subset d _ _ _ ?_ (hnest t fd (pu_sb1.2 ht) hfd d)
    intro s' hs'
    simp only [Sb1] at hs'; subst hs'
    exact ⟨t, pu_sb1.2 ht, rfl, hs⟩
  simp only [branchOf, bind, Except.bind] at h
  cases hfs : fieldsFor c.S c.F mfuel fuel cnd ss with
  | error e => simp [hfs] at h
  | ok fs =>
    simp only [hfs] at h
    cases hun : deepMerge mfuel ((fs.filter (!·.1)).map (·.2)) with
    | error e => simp [hun] at h
    | ok un =>
      simp only [hun] at h
      cases hal : deepMerge mfuel ((fs.filter (·.1)).map (·.2)) with
      | error e => simp [hal] at h
      | ok al =>
        simp only [hal] at h; cases h
        obtain ⟨Lp, rfl, hgood, hcomp⟩ := HF cnd ss fs hfs hcnd hsub
        have hRU := deepMerge_repr hun
        have hRA := deepMerge_repr hal
        rw [List.filter_map, List.map_map] at hRU hRA
        have HM := mergeTrees_rel c mfuel
        obtain ⟨origU, relU⟩ := class_rel (tag := false) (Lc := Lp.filter ((fun x => !x.1) ∘ fun x => x.2)) HM
          (fun q => by simp [List.mem_filter]) hgood hcomp hRU hcoh hnest
        obtain ⟨origA, relA⟩ := class_rel (tag := true) (Lc := Lp.filter ((fun x => x.1) ∘ fun x => x.2)) HM
          (fun q => by simp [List.mem_filter]) hgood hcomp hRA hcoh hnest
        simp only [RelBranch]
        refine ⟨hposs, ⟨cnd.obj, hcnd, hkind⟩, hself, hRU.1, hRA.1, ?_, ?_⟩
        · intro f hf g hg hname
          obtain ⟨qa, hqa, hta, hka⟩ := origA f hf
          obtain ⟨qu, hqu, htu, hku⟩ := origU g hg
          have ha := hgood qa hqa
          have hu := hgood qu hqu
          have := (cohAt_full hcoh qa.1.1 qu.1.1 (pu_sb1.2 ha.2.1) (pu_sb1.2 hu.2.1) (by rw [hka, hku, hname])).1
          rw [← ha.1.1, ← hu.1.1, hta, htu] at this; cases this
        · intro σ hag
          obtain ⟨h1, c1⟩ := relU σ hag
          obtain ⟨h2, c2⟩ := relA σ hag
          refine ⟨h1, h2, fun t ht => ?_⟩
          cases hta : t.aliased with
          | true => simpa using c2 t ht hta
          | false => simpa using c1 t ht hta

/-! ### schema facts: parent objects are the possible types -/

/-- type names are unique (a valid schema) -/
def TypeNamesNodup (S : Schema) : Prop := (S.typeDefs.map (·.name)).Nodup

theorem find_of_nodup : ∀ {l : List TypeDef}, (l.map (·.name)).Nodup → ∀ t ∈ l, l.find? (·.name == t.name) = some t
  | [], _, _, h => by cases h
  | a :: l, hn, t, h => by
    simp only [List.map_cons, List.nodup_cons] at hn
    rcases List.mem_cons.1 h with rfl | h
    · simp
    · have hne : a.name ≠ t.name := fun heq => hn.1 (heq ▸ List.mem_map_of_mem h)
      have : (a.name == t.name) = false := by simpa using hne
      simp only [List.find?_cons, this]
      exact find_of_nodup hn.2 t h

theorem foldl_names_mem : ∀ (l : List TypeDef) (acc : List Name) (x : Name),
    x ∈ l.foldl (fun acc t => if acc.contains t.name then acc else acc ++ [t.name]) acc ↔ x ∈ acc ∨ ∃ t ∈ l, t.name = x
  | [], acc, x => by simp
  | a :: l, acc, x => by
    simp only [List.foldl_cons]
    rw [foldl_names_mem l]
    by_cases hc : acc.contains a.name = true
    · have hm : a.name ∈ acc := by simpa using hc
      simp only [hc, ↓reduceIte, List.mem_cons, exists_eq_or_imp]
      constructor
      · rintro (h | h)
        · exact Or.inl h
        · exact Or.inr (Or.inr h)
      · rintro (h | h | h)
        · exact Or.inl h
        · exact Or.inl (h ▸ hm)
        · exact Or.inr h
    · simp only [hc, Bool.false_eq_true, ↓reduceIte, List.mem_append, List.mem_cons, exists_eq_or_imp,
        List.not_mem_nil, or_false]
      constructor
      · rintro ((h | h) | h)
        · exact Or.inl h
        · exact Or.inr (Or.inl h.symm)
        · exact Or.inr (Or.inr h)
      · rintro (h | h | h)
        · exact Or.inl (Or.inl h)
        · exact Or.inl (Or.inr h.symm)
        · exact Or.inr h

theorem kind_beq_object (k : TypeKind) : (k == TypeKind.object) = true ↔ k = .object := by
  cases k <;> decide

theorem mem_typeNames {S : Schema} {t : TypeDef} (h : t ∈ S.typeDefs) : t.name ∈ S.typeNames := by
  unfold Schema.typeNames
  rw [foldl_names_mem]
  exact Or.inr ⟨t, h, rfl⟩

theorem typeDef?_mem {S : Schema} {n : Name} {t : TypeDef} (h : S.typeDef? n = some t) : t ∈ S.typeDefs :=
  List.mem_of_find?_eq_some h

theorem parentObjects_spec {S : Schema} {n : Name} {objs : List TypeDef} (h : parentObjects S n = .ok objs) :
    S.isComposite n = true ∧
    (∀ o ∈ objs, S.typeDef? o.name = some o ∧ o.kind = .object ∧ o.name ∈ S.possibleTypes n) ∧
    (TypeNamesNodup S → ∀ nm ∈ S.possibleTypes n, ∃ o ∈ objs, o.name = nm) := by
  unfold parentObjects at h
  cases ht : S.typeDef? n with
  | none => simp [ht] at h
  | some t =>
    simp only [ht] at h
    have hname := typeDef?_name ht
    cases hk : t.kind with
    | scalar => simp [hk] at h
    | enum => simp [hk] at h
    | input => simp [hk] at h
    | object =>
      simp only [hk] at h; cases h
      refine ⟨by simp [Schema.isComposite, Schema.kindOf?, ht, hk], ?_, ?_⟩
      · intro o ho
        simp only [List.mem_singleton] at ho; subst ho
        exact ⟨by rw [hname]; exact ht, hk, by simp [Schema.possibleTypes, ht, hk]⟩
      · intro _ nm hnm
        simp only [Schema.possibleTypes, ht, hk, List.mem_singleton] at hnm
        exact ⟨t, by simp, hnm.symm⟩
    | interface =>
      simp only [hk] at h; cases h
      have hposs : S.possibleTypes n = S.objectImplementers n := by simp [Schema.possibleTypes, ht, hk]
      refine ⟨by simp [Schema.isComposite, Schema.kindOf?, ht, hk], ?_, ?_⟩
      · intro o ho
        simp only [implementers, List.mem_filterMap] at ho
        obtain ⟨nm, _, hsome⟩ := ho
        cases hd : S.typeDef? nm with
        | none => simp [hd] at hsome
        | some t' =>
          simp only [hd] at hsome
          split at hsome
          · rename_i hcond
            cases hsome
            simp only [Bool.and_eq_true] at hcond
            have hn' := typeDef?_name hd
            refine ⟨by rw [hn']; exact hd, (kind_beq_object _).1 hcond.1, ?_⟩
            rw [hposs]
            simp only [Schema.objectImplementers, List.mem_map, List.mem_filter, Bool.and_eq_true]
            exact ⟨o, ⟨typeDef?_mem hd, hcond.1, by rw [← hname]; exact hcond.2⟩, rfl⟩
          · cases hsome
      · intro hnd nm hnm
        rw [hposs] at hnm
        simp only [Schema.objectImplementers, List.mem_map, List.mem_filter, Bool.and_eq_true] at hnm
        obtain ⟨t', ⟨ht', hk', himp⟩, rfl⟩ := hnm
        refine ⟨t', ?_, rfl⟩
        simp only [implementers, List.mem_filterMap]
        refine ⟨t'.name, mem_typeNames ht', ?_⟩
        have : S.typeDef? t'.name = some t' := find_of_nodup hnd t' ht'
        simp only [this, hk', hname]
        simp [himp]
    | union =>
      simp only [hk] at h
      have hall := mapM_all2 _ _ h
      have hposs : S.possibleTypes n = t.members.map (·.1) := by simp [Schema.possibleTypes, ht, hk]
      have hmem : ∀ (m : Name × Pos) (o : TypeDef), (match S.typeDef? m.1 with
          | some o => if (o.kind == TypeKind.object) = true then (Except.ok o : Except Panic TypeDef)
            else Except.error Panic.typeSystemError
          | none => Except.error Panic.typeSystemError) = .ok o →
          S.typeDef? m.1 = some o ∧ o.kind = .object := by
        intro m o hmo
        cases hd : S.typeDef? m.1 with
        | none => simp [hd] at hmo
        | some o' =>
          simp only [hd] at hmo
          split at hmo
          · rename_i hko; cases hmo; exact ⟨rfl, (kind_beq_object _).1 hko⟩
          · cases hmo
      refine ⟨by simp [Schema.isComposite, Schema.kindOf?, ht, hk], ?_, ?_⟩
      · intro o ho
        obtain ⟨m, hm, hmo⟩ := hall.right o ho
        obtain ⟨hd, hko⟩ := hmem m o hmo
        have hn' := typeDef?_name hd
        exact ⟨by rw [hn']; exact hd, hko, by rw [hposs, hn']; exact List.mem_map_of_mem hm⟩
      · intro _ nm hnm
        rw [hposs] at hnm
        obtain ⟨m, hm, rfl⟩ := List.mem_map.1 hnm
        obtain ⟨o, ho, hmo⟩ := hall.left m hm
        obtain ⟨hd, _⟩ := hmem m o hmo
        exact ⟨o, ho, typeDef?_name hd⟩

/-! ### assignments -/

theorem nodup_eraseDups : ∀ (n : Nat) (l : List Name), l.length ≤ n → l.eraseDups.Nodup
  | _, [], _ => by simp
  | 0, a :: l, h => by simp at h
  | n + 1, a :: l, h => by
    rw [List.eraseDups_cons, List.nodup_cons]
    refine ⟨?_, nodup_eraseDups n _ ?_⟩
    · intro hm
      rw [List.mem_eraseDups] at hm
      have := (List.mem_filter.1 hm).2
      simp at this
    · have := List.length_filter_le (fun b => !b == a) l
      simp only [List.length_cons] at h
      omega

theorem find_key_nodup : ∀ {a : List (Name × Bool)}, (a.map (·.1)).Nodup → ∀ p ∈ a, a.find? (·.1 == p.1) = some p
  | [], _, _, h => by cases h
  | x :: a, hn, p, h => by
    simp only [List.map_cons, List.nodup_cons] at hn
    rcases List.mem_cons.1 h with rfl | h
    · simp
    · have hne : x.1 ≠ p.1 := fun heq => hn.1 (heq ▸ List.mem_map_of_mem h)
      have : (x.1 == p.1) = false := by simpa using hne
      simp only [List.find?_cons, this]
      exact find_key_nodup hn.2 p h

theorem consistent_of_nodup {a : List (Name × Bool)} (hn : (a.map (·.1)).Nodup) : Agree (sigmaOf a) a := by
  intro p hp
  rw [sigmaOf_eq, find_key_nodup hn p hp]

theorem boolVars_nodup {F : Frags} {fuel : Nat} {ss : List Selection} {vars : List Name}
    (h : boolVars F fuel ss = .ok vars) : vars.Nodup := by
  unfold boolVars at h
  cases hg : boolVarsGo F fuel ss [] [] with
  | error e => simp [hg, Except.map] at h
  | ok l =>
    simp only [hg, Except.map] at h; cases h
    exact nodup_eraseDups _ l (Nat.le_refl _)

/-! ### all branches of one object position -/

theorem mkBranches_rel {c : Ctx} {mfuel fuel : Nat} (HF : FFStmt c mfuel fuel) (hnd : TypeNamesNodup c.S)
    {ss : List Selection} {n : Name} {p : Pos} {bs : List Branch}
    (h : mkBranches c.S c.F mfuel fuel ss n = .ok bs) (hC : ∀ d, Coh c d (Sb1 ss) n) :
    RelTree c (.object bs) (.named n p) (Sb1 ss) := by
  simp only [mkBranches, bind, Except.bind] at h
  cases hbc : branchConds c.S c.F mfuel ss n with
  | error e => simp [hbc] at h
  | ok conds =>
    simp only [hbc] at h
    simp only [branchConds, bind, Except.bind] at hbc
    cases hpo : parentObjects c.S n with
    | error e => simp [hpo] at hbc
    | ok objs =>
      simp only [hpo] at hbc
      cases hbv : boolVars c.F mfuel ss with
      | error e => simp [hbv] at hbc
      | ok vars =>
        simp only [hbv] at hbc; cases hbc
        obtain ⟨hcomp, hobjs, hcover⟩ := parentObjects_spec hpo
        have hvn := boolVars_nodup hbv
        have hall := mapM_all2 _ _ h
        have hcond : ∀ cnd ∈ (objs.flatMap fun o => (assignments vars).map fun a => (⟨o, a⟩ : Cond)),
            cnd.obj ∈ objs ∧ cnd.vars.map (·.1) = vars := by
          intro cnd hc
          simp only [List.mem_flatMap, List.mem_map] at hc
          obtain ⟨o, ho, a, ha, rfl⟩ := hc
          exact ⟨ho, (assignments_mem vars a).1 ha⟩
        simp only [RelTree]
        refine ⟨hcomp, ?_, relBranches_of_mem ?_⟩
        · intro o ho σ
          obtain ⟨obj, hobj, rfl⟩ := hcover hnd o ho
          let a : List (Name × Bool) := vars.map fun v => (v, σ v)
          have ha : a ∈ assignments vars := (assignments_mem vars a).2 (by simp [a, List.map_map, Function.comp_def])
          have hc : (⟨obj, a⟩ : Cond) ∈ (objs.flatMap fun o => (assignments vars).map fun a => (⟨o, a⟩ : Cond)) := by
            simp only [List.mem_flatMap, List.mem_map]
            exact ⟨obj, hobj, a, ha, rfl⟩
          obtain ⟨b, hb, hbo⟩ := hall.left _ hc
          refine ⟨b, hb, ?_, ?_⟩
          · simp only [branchOf, bind, Except.bind] at hbo
            split at hbo
            · cases hbo
            · split at hbo
              · cases hbo
              · split at hbo
                · cases hbo
                · cases hbo; rfl
          · have hv : b.vars = a := by
              simp only [branchOf, bind, Except.bind] at hbo
              split at hbo
              · cases hbo
              · split at hbo
                · cases hbo
                · split at hbo
                  · cases hbo
                  · cases hbo; rfl
            rw [hv]
            intro q hq
            simp only [a, List.mem_map] at hq
            obtain ⟨v, _, rfl⟩ := hq
            rfl
        · intro b hb
          obtain ⟨cnd, hc, hbo⟩ := hall.right b hb
          obtain ⟨hco, hcv⟩ := hcond cnd hc
          obtain ⟨h1, h2, h3⟩ := hobjs cnd.obj hco
          exact branch_rel HF hbo h1 h2 h3 (consistent_of_nodup (by rw [hcv]; exact hvn)) hC

theorem wrapTree_rel {c : Ctx} {mk : Name → Except Panic (List Branch)} {Sb : SSet} :
    ∀ (ty : GType) (T : SelTree),
    (∀ n p bs, mk n = .ok bs → ty.unwrapped = n → RelTree c (.object bs) (.named n p) Sb) →
    wrapTree mk ty = .ok T → RelTree c T ty Sb
  | .named n p, T, hmk, h => by
    simp only [wrapTree, bind, Except.bind] at h
    cases hm : mk n with
    | error e => simp [hm] at h
    | ok bs => simp only [hm] at h; cases h; exact hmk n p bs hm rfl
  | .list t p, T, hmk, h => by
    simp only [wrapTree, bind, Except.bind] at h
    cases hm : wrapTree mk t with
    | error e => simp [hm] at h
    | ok T' =>
      simp only [hm] at h; cases h
      simp only [RelTree]
      exact wrapTree_rel t T' (fun n p bs h1 h2 => hmk n p bs h1 (by simpa [GType.unwrapped] using h2)) hm
  | .nonNull t, T, hmk, h => by
    simp only [wrapTree, bind, Except.bind] at h
    cases hm : wrapTree mk t with
    | error e => simp [hm] at h
    | ok T' =>
      simp only [hm] at h; cases h
      simp only [RelTree]
      exact wrapTree_rel t T' (fun n p bs h1 h2 => hmk n p bs h1 (by simpa [GType.unwrapped] using h2)) hm

/-- **The tree `get_type_for_selection_set` builds is related to its selection set**, for every fuel with which the
    model succeeds. -/
theorem impl_rel (c : Ctx) (mfuel : Nat) (hnd : TypeNamesNodup c.S) : ∀ (fuel : Nat),
    ImplStmt c mfuel fuel ∧ FFStmt c mfuel fuel
  | 0 => by
    constructor
    · intro ty ss T h; simp [implTree] at h
    · intro cnd ss L h; simp [fieldsFor] at h
  | fuel + 1 => by
    obtain ⟨HI, HF⟩ := impl_rel c mfuel hnd fuel
    refine ⟨?_, ffStmt_succ HI HF⟩
    intro ty ss T h hC
    rw [implTree_succ] at h
    refine wrapTree_rel ty T ?_ h
    intro n p bs hm hn
    exact mkBranches_rel HF hnd hm (by rw [← hn]; exact hC)

end NitroVerif.OpTypes.Ref
