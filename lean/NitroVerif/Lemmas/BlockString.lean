import NitroVerif.Lemmas.GqlString
/-!
C16: the block form of `print_string` against the GraphQL block-string semantics.
Part A: the printed text lexes back to ONE block-string token whose raw value is the string.
Part B: `BlockStringValue` is the identity on strings whose first and last lines are not blank and whose
continuation lines have no common indentation (`blockFaithful`).
-/
namespace NitroVerif.GqlPrint
open NitroVerif.GqlString

/-! ### equations of `blockRaw` -/

def tripleQ : List Char → Bool
  | '"' :: '"' :: '"' :: _ => true
  | _ => false

def doubleQ : List Char → Bool
  | '"' :: '"' :: _ => true
  | _ => false

theorem blockRaw_close (r : List Char) : blockRaw ('"' :: '"' :: '"' :: r) = some ([], r) := by
  simp [blockRaw]

theorem blockRaw_escape (r : List Char) :
    blockRaw ('\\' :: '"' :: '"' :: '"' :: r) = (blockRaw r).map fun x => ('"' :: '"' :: '"' :: x.1, x.2) := by
  simp [blockRaw]

theorem blockRaw_plain (c : Char) (r : List Char) (h1 : c ≠ '"') (h2 : c ≠ '\\') (hs : sourceChar c = true) :
    blockRaw (c :: r) = (blockRaw r).map fun x => (c :: x.1, x.2) := by
  conv => lhs; unfold blockRaw
  split
  · rename_i heq; simp at heq; exact absurd heq.1 h1
  · rename_i heq; simp at heq; exact absurd heq.1 h2
  · rename_i heq; simp at heq; obtain ⟨rfl, rfl⟩ := heq; simp [hs]
  · rename_i heq; simp at heq

theorem blockRaw_backslash (r : List Char) (h : tripleQ r = false) :
    blockRaw ('\\' :: r) = (blockRaw r).map fun x => ('\\' :: x.1, x.2) := by
  conv => lhs; unfold blockRaw
  split
  · rename_i heq; simp at heq
  · rename_i heq; simp at heq; subst heq; simp [tripleQ] at h
  · rename_i heq; simp at heq; obtain ⟨rfl, rfl⟩ := heq
    have : sourceChar '\\' = true := by decide
    simp [this]
  · rename_i heq; simp at heq

theorem blockRaw_quote (r : List Char) (h : doubleQ r = false) :
    blockRaw ('"' :: r) = (blockRaw r).map fun x => ('"' :: x.1, x.2) := by
  conv => lhs; unfold blockRaw
  split
  · rename_i heq; simp at heq; subst heq; simp [doubleQ] at h
  · rename_i heq; simp at heq
  · rename_i heq; simp at heq; obtain ⟨rfl, rfl⟩ := heq
    have : sourceChar '"' = true := by decide
    simp [this]
  · rename_i heq; simp at heq

/-! ### Part A -/

def close3 : List Char := ['"', '"', '"']

/-- the pending quotes as "last character so far" -/
def pending (n : Nat) : Option Char := if n = 0 then none else some '"'

/-- the text (pending quotes included) does not end in `"` or `\` -/
def endOK (n : Nat) (s : List Char) : Prop :=
  lastOf (pending n) s ≠ some '"' ∧ lastOf (pending n) s ≠ some '\\'

theorem lastOf_cons_ne (d : Option Char) (c : Char) (cs : List Char) (hne : cs ≠ []) :
    lastOf d (c :: cs) = lastOf none cs := by
  cases cs with
  | nil => exact absurd rfl hne
  | cons e es => simp [lastOf]

theorem endOK_cons_of (n : Nat) (c : Char) (cs : List Char) (h : endOK n (c :: cs)) (hne : cs ≠ []) : endOK 0 cs := by
  unfold endOK at h ⊢
  rw [lastOf_cons_ne _ c cs hne] at h
  simpa [pending] using h

theorem endOK_last_single (n : Nat) (c : Char) (h : endOK n [c]) : c ≠ '"' ∧ c ≠ '\\' := by
  unfold endOK at h
  simp only [lastOf] at h
  exact ⟨fun e => h.1 (by rw [e]), fun e => h.2 (by rw [e])⟩

theorem endOK_nil (n : Nat) (h : endOK n []) : n = 0 := by
  cases n with
  | zero => rfl
  | succ n => exfalso; unfold endOK at h; simp [lastOf, pending] at h

theorem endOK_shift (n : Nat) (cs : List Char) (h : endOK n ('"' :: cs)) : endOK (n + 1) cs := by
  unfold endOK at h ⊢
  simpa [lastOf, pending] using h

theorem lastOf_append_quote (pre : List Char) : ∀ d, lastOf d (pre ++ ['"']) = some '"' := by
  induction pre with
  | nil => intro d; rfl
  | cons c cs ih => intro d; simp [lastOf, ih]

/-- after a backslash the printed rest never starts with `"""` -/
theorem tripleQ_rest (cs : List Char) (hne : cs ≠ []) (h : endOK 0 cs) :
    tripleQ (escTriple 0 cs ++ close3) = false := by
  have endq : ∀ (pre : List Char), ¬ endOK 0 (pre ++ ['"']) := by
    intro pre hh; unfold endOK at hh; exact hh.1 (lastOf_append_quote pre _)
  match cs, hne, h with
  | d :: ds, _, h =>
    by_cases hd : d = '"'
    · subst hd
      match ds, h with
      | [], h => exact absurd h (endq [])
      | e :: es, h =>
        by_cases he : e = '"'
        · subst he
          match es, h with
          | [], h => exact absurd h (endq ['"'])
          | f :: fs, h =>
            by_cases hf : f = '"'
            · subst hf; simp [escTriple, tripleQ]
            · simp [escTriple, hf, tripleQ]
        · simp [escTriple, he, tripleQ]
    · simp [escTriple, hd, tripleQ]

theorem doubleQ_cons_ne (c : Char) (hc : c ≠ '"') (X : List Char) : doubleQ (c :: X) = false := by
  unfold doubleQ
  split
  · rename_i heq; simp at heq; exact absurd heq.1 hc
  · rfl

theorem doubleQ_q_ne (c : Char) (hc : c ≠ '"') (X : List Char) : doubleQ ('"' :: c :: X) = false := by
  unfold doubleQ
  split
  · rename_i heq; simp at heq; exact absurd heq.1 hc
  · rfl

theorem blockRaw_quotes (n : Nat) (hn : n ≤ 2) (c : Char) (hc : c ≠ '"') (X : List Char) :
    blockRaw (List.replicate n '"' ++ c :: X) =
      (blockRaw (c :: X)).map fun x => (List.replicate n '"' ++ x.1, x.2) := by
  match n, hn with
  | 0, _ =>
    simp only [List.replicate, List.nil_append]
    cases blockRaw (c :: X) <;> rfl
  | 1, _ =>
    simp only [List.replicate, List.cons_append, List.nil_append, blockRaw_quote _ (doubleQ_cons_ne c hc X)]
    all_goals (cases blockRaw (c :: X) <;> rfl)
  | 2, _ =>
    simp only [List.replicate, List.cons_append, List.nil_append, blockRaw_quote _ (doubleQ_q_ne c hc X),
      blockRaw_quote _ (doubleQ_cons_ne c hc X)]
    all_goals (cases blockRaw (c :: X) <;> rfl)

/-- the block form lexes back: the pending quotes, then the string, nothing after the closing `"""` -/
theorem blockRaw_escTriple (s : List Char) : ∀ (n : Nat), n ≤ 2 → endOK n s → (∀ c ∈ s, sourceChar c = true) →
    blockRaw (escTriple n s ++ close3) = some (List.replicate n '"' ++ s, []) := by
  induction s with
  | nil =>
    intro n _ h _
    have := endOK_nil n h
    subst this
    simp [escTriple, close3, blockRaw_close]
  | cons c cs ih =>
    intro n hn h hsrc
    have hsc : sourceChar c = true := hsrc c (by simp)
    have hsrc' : ∀ x ∈ cs, sourceChar x = true := fun x hx => hsrc x (by simp [hx])
    by_cases hc : c = '"'
    · subst hc
      by_cases h3 : n + 1 = 3
      · have hn2 : n = 2 := by omega
        subst hn2
        have hne : cs ≠ [] := by
          intro e; subst e
          unfold endOK at h; simp [lastOf] at h
        have hcs : endOK 0 cs := endOK_cons_of 2 '"' cs h hne
        simp only [escTriple, ne_eq, not_true_eq_false, if_false, if_true, List.cons_append, List.nil_append,
          List.append_assoc, blockRaw_escape]
        have := ih 0 (by omega) hcs hsrc'
        simp only [List.replicate, List.nil_append] at this
        rw [this]
        rfl
      · have := ih (n + 1) (by omega) (endOK_shift n cs h) hsrc'
        simp only [escTriple, ne_eq, not_true_eq_false, if_false, h3]
        rw [this]
        congr 2
        rw [List.replicate_succ', List.append_assoc]; rfl
    · simp only [escTriple, ne_eq, hc, not_false_eq_true, if_true, List.append_assoc, List.cons_append]
      rw [blockRaw_quotes n hn c hc]
      by_cases hne : cs = []
      · subst hne
        obtain ⟨_, hb⟩ := endOK_last_single n c h
        simp only [escTriple, List.replicate, List.nil_append]
        rw [blockRaw_plain c _ hc hb hsc]
        simp [close3, blockRaw_close]
      · have hcs : endOK 0 cs := endOK_cons_of n c cs h hne
        have hrec := ih 0 (by omega) hcs hsrc'
        simp only [List.replicate, List.nil_append] at hrec
        by_cases hb : c = '\\'
        · subst hb
          rw [blockRaw_backslash _ (tripleQ_rest cs hne hcs), hrec]
          rfl
        · rw [blockRaw_plain c _ hc hb hsc, hrec]
          rfl

/-! ### Part B -/

/-- first and last line not blank, no common indentation of the continuation lines -/
def blockFaithful (s : List Char) : Bool :=
  match splitLines s with
  | [] => false
  | first :: others =>
    !isBlank first &&
    (match (first :: others).reverse with
     | last :: _ => !isBlank last
     | [] => false) &&
    (match commonIndent others with
     | none => true
     | some n => n == 0)

theorem splitLinesAux_ne_nil (s : List Char) : ∀ cr cur, splitLinesAux cr s cur ≠ [] := by
  induction s with
  | nil => intro cr cur; simp [splitLinesAux]
  | cons c cs ih =>
    intro cr cur
    unfold splitLinesAux
    by_cases h1 : c = '\n'
    · simp only [h1, if_true]; cases cr <;> simp [ih]
    · by_cases h2 : c = '\r'
      · simp [h1, h2]
      · simp [h1, h2, ih]

theorem joinLines_cons (l : List Char) (rest : List (List Char)) (h : rest ≠ []) :
    joinLines (l :: rest) = l ++ '\n' :: joinLines rest := by
  cases rest with
  | nil => exact absurd rfl h
  | cons r rs => simp [joinLines]

theorem joinLines_splitLinesAux (s : List Char) (h : ∀ c ∈ s, c ≠ '\r') : ∀ cur,
    joinLines (splitLinesAux false s cur) = cur.reverse ++ s := by
  induction s with
  | nil => intro cur; simp [splitLinesAux, joinLines]
  | cons c cs ih =>
    intro cur
    have hc : c ≠ '\r' := h c (by simp)
    have hcs : ∀ x ∈ cs, x ≠ '\r' := fun x hx => h x (by simp [hx])
    unfold splitLinesAux
    by_cases h1 : c = '\n'
    · subst h1
      simp only [if_true, Bool.false_eq_true, if_false]
      rw [joinLines_cons _ _ (splitLinesAux_ne_nil cs false []), ih hcs []]
      simp
    · simp only [h1, hc, if_false]
      rw [ih hcs (c :: cur)]
      simp

theorem dropLeadingBlank_keep (l : List Char) (ls : List (List Char)) (h : isBlank l = false) :
    dropLeadingBlank (l :: ls) = l :: ls := by
  simp [dropLeadingBlank, h]

theorem blockStringValue_faithful (s : List Char) (hcr : ∀ c ∈ s, c ≠ '\r') (h : blockFaithful s = true) :
    blockStringValue s = s := by
  have hjoin := joinLines_splitLinesAux s hcr []
  unfold blockFaithful at h
  unfold blockStringValue
  unfold splitLines at h hjoin ⊢
  cases hsp : splitLinesAux false s [] with
  | nil => simp [hsp] at h
  | cons first others =>
    rw [hsp] at h hjoin
    simp only [Bool.and_eq_true, Bool.not_eq_true'] at h
    obtain ⟨⟨hfirst, hlast⟩, hind⟩ := h
    have hothers : stripIndent (commonIndent others) others = others := by
      cases hci : commonIndent others with
      | none => rfl
      | some n =>
        rw [hci] at hind
        have : n = 0 := by simpa using hind
        subst this
        simp [stripIndent]
    simp only [hothers]
    rw [dropLeadingBlank_keep first others hfirst]
    unfold dropTrailingBlank
    cases hrev : (first :: others).reverse with
    | nil => simp at hrev
    | cons last rest =>
      rw [hrev] at hlast
      have hl : isBlank last = false := by simpa using hlast
      rw [dropLeadingBlank_keep last rest hl, ← hrev, List.reverse_reverse]
      simpa using hjoin

end NitroVerif.GqlPrint
