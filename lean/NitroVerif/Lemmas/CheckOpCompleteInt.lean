import NitroVerif.Lemmas.CheckOpCompleteHeader
import NitroVerif.Lemmas.IntLit
/-!
Completeness of the Int arm after fix e3584a3 (C04): an integer literal whose text denotes a 32-bit value has no
5.6.1 issue at an `Int` position, and every integer literal has none at a `Float` or `ID` position — the fix must not
have made the checker stricter than the specification.
-/
namespace NitroVerif.CheckOp
open NitroVerif.Gql NitroVerif.CheckCommon NitroVerif.Valid

/-- a valid schema defines the five built-in scalars as scalars -/
theorem builtin_scalar_defined {S : Schema} (h : SchemaValid S) {n : Name}
    (hn : n ∈ ["Int", "Float", "String", "Boolean", "ID"]) : ∃ td, S.typeDef? n = some td ∧ td.kind = .scalar := by
  unfold SchemaValid schemaValidB at h
  simp only [Bool.and_eq_true, List.all_eq_true] at h
  obtain ⟨_, _, ⟨⟨⟨⟨_, _⟩, hbi⟩, _⟩, _⟩, _⟩ := h
  exact kindOf_beq_some (hbi n hn)

/-- the specification's input coercion accepts an integer literal at an `Int` position when its text denotes a 32-bit
    value, and at a `Float` / `ID` position always -/
theorem int_valueIssues_nil {S : Schema} (hS : SchemaValid S) (s : String) (p : Pos) (t : GType)
    (h : (t.unwrapped = "Int" ∧ SpecInt.intTextInRange s = true) ∨ t.unwrapped = "Float" ∨ t.unwrapped = "ID") :
    valueIssues S (.int s p) t = [] := by
  simp only [valueIssues]
  have hc : leafCoercible S (.int s p) t.unwrapped = true := by
    unfold leafCoercible
    rcases h with ⟨hn, hr⟩ | hn | hn
    · obtain ⟨td, ht, hk⟩ := builtin_scalar_defined hS (n := "Int") (by simp)
      rw [hn, ht]; simp [hk, hr]
    · obtain ⟨td, ht, hk⟩ := builtin_scalar_defined hS (n := "Float") (by simp)
      rw [hn, ht]; simp [hk]
    · obtain ⟨td, ht, hk⟩ := builtin_scalar_defined hS (n := "ID") (by simp)
      rw [hn, ht]; simp [hk]
  simp [hc]

end NitroVerif.CheckOp
