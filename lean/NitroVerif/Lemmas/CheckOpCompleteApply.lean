import NitroVerif.Lemmas.CheckOpCompleteArgs
/-!
Completeness of the applicability analysis of `check_fragment_spread_core` (C04): when the possible types of the
type in scope and of the type condition overlap (spec 5.5.2.3, `canApply`), the analysis reports nothing — given
that type names are unique, union members are object types, and no union is empty.
-/
namespace NitroVerif.CheckOp
open NitroVerif.Gql NitroVerif.CheckCommon NitroVerif.Valid

/-- no union type of the schema is empty (spec §3.8: "a Union type must include one or more unique member types") -/
def noEmptyUnionB (S : Schema) : Bool :=
  S.typeDefs.all fun t => t.kind != .union || !t.members.isEmpty

theorem typeDefs_name_inj {l : List TypeDef} (hnd : nodupB (l.map (·.name)) = true) :
    ∀ {f g : TypeDef}, f ∈ l → g ∈ l → f.name = g.name → f = g := by
  induction l with
  | nil => intro f g hf; cases hf
  | cons x xs ih =>
    simp only [List.map_cons] at hnd
    obtain ⟨hx, hxs⟩ := (nodupB_cons_iff _ _).mp hnd
    intro f g hf hg hfg
    rcases List.mem_cons.mp hf with hf' | hf' <;> rcases List.mem_cons.mp hg with hg' | hg'
    · rw [hf', hg']
    · subst hf'; exact absurd (show f.name ∈ xs.map (·.name) from List.mem_map.mpr ⟨g, hg', hfg.symm⟩) hx
    · subst hg'; exact absurd (show g.name ∈ xs.map (·.name) from List.mem_map.mpr ⟨f, hf', hfg⟩) hx
    · exact ih hxs hf' hg' hfg

/-- with unique type names every definition is the one found under its name -/
theorem typeDef?_of_mem {S : Schema} (hnd : nodupB (S.typeDefs.map (·.name)) = true) {td : TypeDef}
    (h : td ∈ S.typeDefs) : S.typeDef? td.name = some td := by
  cases hm : S.typeDef? td.name with
  | none =>
    unfold Schema.typeDef? at hm
    rw [List.find?_eq_none] at hm
    have := hm td h
    simp at this
  | some g =>
    rw [typeDefs_name_inj hnd (typeDef?_mem hm) h (typeDef?_name hm)]

theorem mem_typeNames {S : Schema} {td : TypeDef} (h : td ∈ S.typeDefs) : td.name ∈ S.typeNames := by
  have key : ∀ (l : List TypeDef) (acc : List Name), (td.name ∈ acc ∨ td ∈ l) →
      td.name ∈ l.foldl (fun acc t => if acc.contains t.name then acc else acc ++ [t.name]) acc := by
    intro l
    induction l with
    | nil => intro acc h; rcases h with h | h; exact h; cases h
    | cons y ys ih =>
      intro acc h
      simp only [List.foldl_cons]
      apply ih
      rcases h with h | h
      · left; split; exact h; exact List.mem_append_left _ h
      · rcases List.mem_cons.mp h with rfl | h
        · left
          split
          · rename_i hc; simpa using hc
          · simp
        · right; exact h
  exact key _ [] (Or.inr h)

theorem of_mem_objectImplementers {S : Schema} {x i : Name} (h : x ∈ S.objectImplementers i) :
    ∃ o ∈ S.typeDefs, o.kind = .object ∧ implementsIface o i = true ∧ o.name = x := by
  unfold Schema.objectImplementers at h
  obtain ⟨o, ho, hn⟩ := List.mem_map.mp h
  obtain ⟨hm, hp⟩ := List.mem_filter.mp ho
  simp only [Bool.and_eq_true] at hp
  exact ⟨o, hm, kind_beq_object hp.1, hp.2, hn⟩

/-- the interface × union arm finds an implementing member without complaint when all members are objects -/
theorem unionMemberImplements_complete {S : Schema} {iface : Name} :
    ∀ (ms : List (Name × Pos)), (∀ m ∈ ms, ∃ o, S.typeDef? m.1 = some o ∧ o.kind = .object) →
      (∃ m ∈ ms, ∃ o, S.typeDef? m.1 = some o ∧ implementsIface o iface = true) →
      unionMemberImplements S iface ms = ([], true) := by
  intro ms
  induction ms with
  | nil => rintro _ ⟨m, hm, _⟩; cases hm
  | cons m ms ih =>
    obtain ⟨mn, mp⟩ := m
    intro hobj hex
    obtain ⟨o, ho, hok⟩ := hobj (mn, mp) (by simp)
    simp only at ho
    have hkb : (o.kind == TypeKind.object) = true := by rw [hok]; rfl
    simp only [unionMemberImplements, ho, hkb, if_true]
    cases hi : implementsIface o iface with
    | true => simp
    | false =>
      simp only [Bool.false_eq_true, if_false]
      apply ih (fun m' hm' => hobj m' (List.mem_cons_of_mem _ hm'))
      obtain ⟨m', hm', o', ho', hi'⟩ := hex
      rcases List.mem_cons.mp hm' with rfl | hm'
      · simp only at ho'
        rw [ho] at ho'; cases ho'
        rw [hi] at hi'; cases hi'
      · exact ⟨m', hm', o', ho', hi'⟩

theorem any_contains_common {a b : List Name} (h : (a.any fun t => b.contains t) = true) : ∃ x, x ∈ a ∧ x ∈ b := by
  obtain ⟨x, hx, hb⟩ := List.any_eq_true.mp h
  exact ⟨x, hx, by simpa using hb⟩

/-- **Completeness of the applicability analysis.** -/
theorem applicability_complete {S : Schema} (hND : nodupB (S.typeDefs.map (·.name)) = true)
    (hMem : ∀ td ∈ S.typeDefs, ∀ m ∈ td.members, ∃ o, S.typeDef? m.1 = some o ∧ o.kind = .object)
    (hNE : noEmptyUnionB S = true)
    {t c : Name} {root ct : TypeDef} (pos : Pos) (ht : S.typeDef? t = some root) (hc : S.typeDef? c = some ct)
    (hrk : isCompositeKind root.kind = true) (hck : isCompositeKind ct.kind = true)
    (h : canApply S t c = true) : (spreadApplicability S root ct pos).1 = [] := by
  have htn := typeDef?_name ht
  have hcn := typeDef?_name hc
  have hrm := typeDef?_mem ht
  have hcm := typeDef?_mem hc
  have hsame : t = c → root = ct := by
    intro e; rw [e, hc] at ht; cases ht; rfl
  unfold canApply at h
  rw [isComposite_of_kind ht, isComposite_of_kind hc] at h
  unfold spreadApplicability
  cases hrkk : root.kind <;> cases hckk : ct.kind <;> simp only [hrkk, hckk, isCompositeKind] at hrk hck h ⊢ <;>
    try (cases hrk; done) <;> try (cases hck; done)
  · -- object, object
    have : root.name = ct.name := by
      simp only [Bool.and_self, Bool.not_true, Bool.false_or, Bool.or_eq_true, beq_iff_eq] at h
      rcases h with h | h
      · rw [htn, hcn]; exact h
      · rw [possibleTypes_object ht hrkk, possibleTypes_object hc hckk] at h
        simpa using h
    simp [this]
  · -- object, interface
    simp only [Bool.and_self, Bool.not_true, Bool.false_or, Bool.or_eq_true, beq_iff_eq] at h
    rcases h with h | h
    · have := hsame h; rw [this, hckk] at hrkk; cases hrkk
    · rw [possibleTypes_object ht hrkk, possibleTypes_interface hc hckk] at h
      obtain ⟨x, hx1, hx2⟩ := any_contains_common h
      simp only [List.mem_singleton] at hx1
      obtain ⟨o, hom, _, hoi, hon⟩ := of_mem_objectImplementers hx2
      have : o = root := typeDefs_name_inj hND hom hrm (by rw [hon, hx1])
      rw [this, ← hcn] at hoi
      simp [hoi]
  · -- object, union
    simp only [Bool.and_self, Bool.not_true, Bool.false_or, Bool.or_eq_true, beq_iff_eq] at h
    rcases h with h | h
    · have := hsame h; rw [this, hckk] at hrkk; cases hrkk
    · rw [possibleTypes_object ht hrkk, possibleTypes_union hc hckk] at h
      obtain ⟨x, hx1, hx2⟩ := any_contains_common h
      simp only [List.mem_singleton] at hx1
      obtain ⟨m, hm, hmn⟩ := List.mem_map.mp hx2
      have : ct.members.any (·.1 == root.name) = true :=
        List.any_eq_true.mpr ⟨m, hm, by simp [hmn, hx1]⟩
      simp [this]
  · -- interface, object
    simp only [Bool.and_self, Bool.not_true, Bool.false_or, Bool.or_eq_true, beq_iff_eq] at h
    rcases h with h | h
    · have := hsame h; rw [this, hckk] at hrkk; cases hrkk
    · rw [possibleTypes_interface ht hrkk, possibleTypes_object hc hckk] at h
      obtain ⟨x, hx1, hx2⟩ := any_contains_common h
      simp only [List.mem_singleton] at hx2
      obtain ⟨o, hom, _, hoi, hon⟩ := of_mem_objectImplementers hx1
      have : o = ct := typeDefs_name_inj hND hom hcm (by rw [hon, hx2])
      rw [this, ← htn] at hoi
      simp [hoi]
  · -- interface, interface
    cases hq : (root.name == ct.name) with
    | true => simp
    | false =>
      simp only [Bool.false_eq_true, if_false]
      simp only [Bool.and_self, Bool.not_true, Bool.false_or, Bool.or_eq_true, beq_iff_eq] at h
      rcases h with h | h
      · rw [← htn, ← hcn] at h; simp [h] at hq
      · rw [possibleTypes_interface ht hrkk, possibleTypes_interface hc hckk] at h
        obtain ⟨x, hx1, hx2⟩ := any_contains_common h
        obtain ⟨o1, hom1, hok1, hoi1, hon1⟩ := of_mem_objectImplementers hx1
        obtain ⟨o2, hom2, _, hoi2, hon2⟩ := of_mem_objectImplementers hx2
        have e : o2 = o1 := typeDefs_name_inj hND hom2 hom1 (by rw [hon1, hon2])
        rw [e] at hoi2
        split
        · rfl
        · rename_i hno
          exfalso
          apply hno
          refine List.any_eq_true.mpr ⟨o1.name, mem_typeNames hom1, ?_⟩
          rw [typeDef?_of_mem hND hom1]
          simp only [htn, hcn, hoi1, hoi2, hok1, Bool.and_true]
          rfl
  · -- interface, union
    simp only [Bool.and_self, Bool.not_true, Bool.false_or, Bool.or_eq_true, beq_iff_eq] at h
    rcases h with h | h
    · have := hsame h; rw [this, hckk] at hrkk; cases hrkk
    · rw [possibleTypes_interface ht hrkk, possibleTypes_union hc hckk] at h
      obtain ⟨x, hx1, hx2⟩ := any_contains_common h
      obtain ⟨o, hom, _, hoi, hon⟩ := of_mem_objectImplementers hx1
      obtain ⟨m, hm, hmn⟩ := List.mem_map.mp hx2
      have hr := unionMemberImplements_complete (S := S) (iface := root.name) ct.members (hMem ct hcm)
        ⟨m, hm, o, by rw [hmn, ← hon]; exact typeDef?_of_mem hND hom, by rw [htn]; exact hoi⟩
      rw [hr]; rfl
  · -- union, object
    simp only [Bool.and_self, Bool.not_true, Bool.false_or, Bool.or_eq_true, beq_iff_eq] at h
    rcases h with h | h
    · have := hsame h; rw [this, hckk] at hrkk; cases hrkk
    · rw [possibleTypes_union ht hrkk, possibleTypes_object hc hckk] at h
      obtain ⟨x, hx1, hx2⟩ := any_contains_common h
      simp only [List.mem_singleton] at hx2
      obtain ⟨m, hm, hmn⟩ := List.mem_map.mp hx1
      have : root.members.any (·.1 == ct.name) = true :=
        List.any_eq_true.mpr ⟨m, hm, by simp [hmn, hx2]⟩
      simp [this]
  · -- union, interface
    simp only [Bool.and_self, Bool.not_true, Bool.false_or, Bool.or_eq_true, beq_iff_eq] at h
    rcases h with h | h
    · have := hsame h; rw [this, hckk] at hrkk; cases hrkk
    · rw [possibleTypes_union ht hrkk, possibleTypes_interface hc hckk] at h
      obtain ⟨x, hx1, hx2⟩ := any_contains_common h
      obtain ⟨o, hom, _, hoi, hon⟩ := of_mem_objectImplementers hx2
      obtain ⟨m, hm, hmn⟩ := List.mem_map.mp hx1
      have hr := unionMemberImplements_complete (S := S) (iface := ct.name) root.members (hMem root hrm)
        ⟨m, hm, o, by rw [hmn, ← hon]; exact typeDef?_of_mem hND hom, by rw [hcn]; exact hoi⟩
      rw [hr]; rfl
  · -- union, union
    simp only [Bool.and_self, Bool.not_true, Bool.false_or, Bool.or_eq_true, beq_iff_eq] at h
    have hany : (ct.members.any fun m2 => root.members.any fun m1 => m1.1 == m2.1) = true := by
      rcases h with h | h
      · have e := hsame h
        have hne := List.all_eq_true.mp hNE ct hcm
        rw [hckk] at hne
        cases hms : ct.members with
        | nil => rw [hms] at hne; exact absurd hne (by decide)
        | cons m ms =>
          rw [e, hms]
          simp
      · rw [possibleTypes_union ht hrkk, possibleTypes_union hc hckk] at h
        obtain ⟨x, hx1, hx2⟩ := any_contains_common h
        obtain ⟨m1, hm1, hmn1⟩ := List.mem_map.mp hx1
        obtain ⟨m2, hm2, hmn2⟩ := List.mem_map.mp hx2
        exact List.any_eq_true.mpr ⟨m2, hm2, List.any_eq_true.mpr ⟨m1, hm1, by simp [hmn1, hmn2]⟩⟩
    rw [hany]; rfl

end NitroVerif.CheckOp
