import NitroVerif.Lemmas.PrintMapBodyFile
/-!
# C06 — the statements of the printed operation modules are C14's module

`exportsFile docFile D` is the document as C14's model reads it (kind and name of each operation, name of each fragment and
whether its file differs from the document's); `baseOptions` / `typeOptions` are the printer options as C14's records.
`typeStmts_skel`, `jsStmts_skel`: forgetting the contents, the statements of `Lemmas/PrintMapBodyFile.lean` are exactly
`Exports.printDocument` with the type visitor / the JavaScript visitor — for ALL option values; `FullOpts.ofConfig` +
`typeStmts_skel_dts` / `jsStmts_skel_js` specialise this to the options computed from a configuration (`Exports.dts`, `Exports.js`).
-/
namespace NitroVerif.PrintMap
open NitroVerif.Gql NitroVerif.DeclCfg

def exportsKind : OpKind → Exports.Kind
  | .query => .query
  | .mutation => .mutation
  | .subscription => .subscription

/-- the (import-resolved) document as C14's model reads it; `docFile` = `document.position.file` -/
def exportsFile (docFile : Nat) : Doc → Exports.File
  | [] => []
  | .op op :: r => .op (exportsKind op.kind) (op.name.map (·.1.toList)) :: exportsFile docFile r
  | .frag f :: r => .frag f.name.toList (docFile != f.pos.file) :: exportsFile docFile r
  | .imp _ :: r => exportsFile docFile r

/-- `OperationBasePrinterOptions` as C14's record -/
def baseOptions (fo : FullOpts) : Exports.BaseOptions where
  defaultExportForOperation := fo.defaultExport
  namedExportForOperation := fo.namedExport
  exportInputType := fo.exportInput
  exportResultType := fo.exportResult
  capitalizeOperationNames := fo.names.capitalize
  queryVariableSuffix := fo.names.querySuffix.toList
  mutationVariableSuffix := fo.names.mutationSuffix.toList
  subscriptionVariableSuffix := fo.names.subscriptionSuffix.toList
  fragmentVariableSuffix := fo.names.fragmentVariableSuffix.toList

/-- `OperationTypePrinterOptions` as C14's record -/
def typeOptions (fo : FullOpts) : Exports.TypeOptions where
  base := baseOptions fo
  printValues := fo.names.printValues
  variablesTypeSuffix := fo.names.variablesSuffix.toList
  operationResultTypeSuffix := fo.names.resultSuffix.toList
  fragmentTypeSuffix := fo.names.fragmentTypeSuffix.toList

theorem capitalize_toList (s : String) : (capitalize s).toList = Exports.capitalize s.toList := by
  unfold capitalize
  cases h : s.toList with
  | nil => rfl
  | cons c cs => simp [Exports.capitalize]

theorem operationName_toList (fo : FullOpts) (op : OperationDef) :
    (operationName fo.names op).toList
      = (Exports.operationVariableName (baseOptions fo) (exportsKind op.kind) (op.name.map (·.1.toList))).operationName := by
  unfold operationName Exports.operationVariableName
  cases hn : op.name with
  | none => cases hc : fo.names.capitalize <;> simp [baseOptions, hc]
  | some np =>
    obtain ⟨n, p⟩ := np
    cases hc : fo.names.capitalize <;> simp [baseOptions, hc, capitalize_toList]

theorem operationVariableName_toList (fo : FullOpts) (op : OperationDef) :
    (operationVariableName fo.names op).toList
      = (Exports.operationVariableName (baseOptions fo) (exportsKind op.kind) (op.name.map (·.1.toList))).operationVariableName := by
  have h := operationName_toList fo op
  unfold operationVariableName
  rw [String.toList_append, h]
  unfold Exports.operationVariableName
  cases op.kind <;> simp [kindSuffix, Exports.suffixOf, baseOptions, exportsKind]

theorem exports_operationCount (docFile : Nat) : ∀ D : Doc, Exports.operationCount (exportsFile docFile D) = operationCount D
  | [] => rfl
  | .op _ :: r => by
    have ih := exports_operationCount docFile r
    simp only [Exports.operationCount] at ih ⊢
    simp [exportsFile, List.filter_cons, Exports.isOp, operationCount, ih]
  | .frag _ :: r => by
    have ih := exports_operationCount docFile r
    simp only [Exports.operationCount] at ih ⊢
    simp [exportsFile, Exports.isOp, operationCount, ih]
  | .imp _ :: r => by simpa [exportsFile, operationCount] using exports_operationCount docFile r

theorem typeStmts_skel_go (fo : FullOpts) (S : Schema) (D : Doc) (docFile count : Nat) : ∀ (L : Doc) (i : Nat),
    (typeStmts fo S D docFile count i L).map RStmt.skel
      = Exports.printDefs (baseOptions fo) (Exports.typeVisitor (typeOptions fo)) count i (exportsFile docFile L)
  | [], _ => rfl
  | .op op :: rest, i => by
    have ih := typeStmts_skel_go fo S D docFile count rest (i + 1)
    have h1 := operationName_toList fo op
    have h2 := operationVariableName_toList fo op
    simp only [baseOptions] at h1 h2
    simp only [typeStmts, exportsFile, Exports.printDefs, List.map_append, ih, opStmts]
    congr 1
    cases hd : (fo.defaultExport && count == 1) <;>
      simp [RStmt.skel, Exports.typeVisitor, typeOptions, baseOptions, String.toList_append, optValue, hd, ← h1, ← h2]
      <;> cases fo.names.printValues <;> simp
  | .frag f :: rest, i => by
    have ih := typeStmts_skel_go fo S D docFile count rest (i + 1)
    simp only [typeStmts, exportsFile, Exports.printDefs, List.map_append, ih, fragStmts]
    congr 1
    cases hv : fo.names.printValues <;> cases he : (docFile == f.pos.file) <;>
      simp [RStmt.skel, Exports.typeVisitor, typeOptions, baseOptions, String.toList_append, optValue, hv, bne, he]
  | .imp _ :: rest, i => by simpa [typeStmts, exportsFile] using typeStmts_skel_go fo S D docFile count rest i

/-- the statements of the declaration file, contents forgotten, are C14's module — for all options -/
theorem typeStmts_skel (fo : FullOpts) (S : Schema) (D : Doc) (docFile : Nat) :
    (typeStmts fo S D docFile (operationCount D) 0 D).map RStmt.skel
      = Exports.printDocument (baseOptions fo) (Exports.typeVisitor (typeOptions fo)) (exportsFile docFile D) := by
  rw [typeStmts_skel_go, Exports.printDocument, exports_operationCount]

theorem jsStmts_skel_go (fo : FullOpts) (D : Doc) (docFile count : Nat) : ∀ (L : Doc) (i : Nat),
    (jsStmts fo D docFile count i L).map RStmt.skel
      = Exports.printDefs (baseOptions fo) Exports.jsVisitor count i (exportsFile docFile L)
  | [], _ => rfl
  | .op op :: rest, i => by
    have ih := jsStmts_skel_go fo D docFile count rest (i + 1)
    have h2 := operationVariableName_toList fo op
    simp only [baseOptions] at h2
    simp only [jsStmts, exportsFile, Exports.printDefs, List.map_append, ih]
    congr 1
    cases hd : (fo.defaultExport && count == 1) <;>
      simp [RStmt.skel, Exports.jsVisitor, baseOptions, hd, ← h2]
  | .frag f :: rest, i => by
    have ih := jsStmts_skel_go fo D docFile count rest (i + 1)
    simp only [jsStmts, exportsFile, Exports.printDefs, List.map_cons, ih]
    cases he : (docFile == f.pos.file) <;>
      simp [RStmt.skel, Exports.jsVisitor, baseOptions, String.toList_append, bne, he]
  | .imp _ :: rest, i => by simpa [jsStmts, exportsFile] using jsStmts_skel_go fo D docFile count rest i

/-- the statements of the JavaScript module, contents forgotten, are C14's module -/
theorem jsStmts_skel (fo : FullOpts) (D : Doc) (docFile : Nat) :
    (jsStmts fo D docFile (operationCount D) 0 D).map RStmt.skel
      = Exports.printDocument (baseOptions fo) Exports.jsVisitor (exportsFile docFile D) := by
  rw [jsStmts_skel_go, Exports.printDocument, exports_operationCount]

/-! ### options from a configuration -/

/-- the printer options `from_config` computes (C14's `TypeOptions.fromConfig`), as the options of the call-sequence model;
    `schemaSource` is filled in by the CLI, `optionalInput` = `generate.type.allowUndefinedAsOptionalInput` -/
def FullOpts.ofConfig (c : Exports.Config) (schemaSource : String) (optionalInput : Bool) : FullOpts :=
  let t := Exports.TypeOptions.fromConfig c
  { names := { capitalize := t.base.capitalizeOperationNames
               querySuffix := String.ofList t.base.queryVariableSuffix
               mutationSuffix := String.ofList t.base.mutationVariableSuffix
               subscriptionSuffix := String.ofList t.base.subscriptionVariableSuffix
               fragmentVariableSuffix := String.ofList t.base.fragmentVariableSuffix
               resultSuffix := String.ofList t.operationResultTypeSuffix
               variablesSuffix := String.ofList t.variablesTypeSuffix
               fragmentTypeSuffix := String.ofList t.fragmentTypeSuffix
               printValues := t.printValues }
    defaultExport := t.base.defaultExportForOperation
    namedExport := t.base.namedExportForOperation
    exportInput := t.base.exportInputType
    exportResult := t.base.exportResultType
    schemaSource := schemaSource
    optionalInput := optionalInput }

theorem typeOptions_ofConfig (c : Exports.Config) (ss : String) (oi : Bool) :
    typeOptions (FullOpts.ofConfig c ss oi) = Exports.TypeOptions.fromConfig c := by
  simp [typeOptions, baseOptions, FullOpts.ofConfig, Exports.TypeOptions.fromConfig, Exports.BaseOptions.fromConfig]

theorem baseOptions_ofConfig (c : Exports.Config) (ss : String) (oi : Bool) :
    baseOptions (FullOpts.ofConfig c ss oi) = Exports.BaseOptions.fromConfig c := by
  simp [baseOptions, FullOpts.ofConfig, Exports.TypeOptions.fromConfig, Exports.BaseOptions.fromConfig]

/-- with the options of a configuration the statements are `Exports.dts` -/
theorem typeStmts_skel_dts (c : Exports.Config) (ss : String) (oi : Bool) (S : Schema) (D : Doc) (docFile : Nat) :
    (typeStmts (FullOpts.ofConfig c ss oi) S D docFile (operationCount D) 0 D).map RStmt.skel
      = Exports.dts c (exportsFile docFile D) := by
  rw [typeStmts_skel, typeOptions_ofConfig, baseOptions_ofConfig]
  rfl

/-- with the options of a configuration the statements of the JavaScript module are `Exports.js` -/
theorem jsStmts_skel_js (c : Exports.Config) (ss : String) (oi : Bool) (D : Doc) (docFile : Nat) :
    (jsStmts (FullOpts.ofConfig c ss oi) D docFile (operationCount D) 0 D).map RStmt.skel
      = Exports.js c (exportsFile docFile D) := by
  rw [jsStmts_skel, baseOptions_ofConfig]
  rfl

end NitroVerif.PrintMap
