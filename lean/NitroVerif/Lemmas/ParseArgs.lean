/-
`Arguments` (helper lemmas for Props/C07 `render_parse_arguments`): `"(" ~ Argument+ ~ ")"` with `Argument = Name ~ ":" ~
Value`, on the rendering of a non-empty argument list with arbitrary whitespace trivia at every gap. An argument list has
the same text structure as the fields of an object (`fieldsBody`), with `(` `)` instead of `{` `}` and `Argument` pairs
instead of `ObjectField` pairs; the list-level lemmas are those of `ParseValueObj.lean` re-derived for the rule `Argument`.
-/
import NitroVerif.Lemmas.ParseValueBuild
namespace NitroVerif.ValueParse
open NitroVerif.Peg NitroVerif.Gen NitroVerif.Gen.Parts NitroVerif.Build NitroVerif.TypeParse NitroVerif.StringParse NitroVerif.Gql

theorem look_Arguments : gList.look R.Arguments =
    some (.normal, .seq (.str ['(']) (.seq (.plus (.call R.Argument)) (.str [')']))) := rfl
theorem look_Argument : gList.look R.Argument =
    some (.normal, .seq (.call R.Name) (.seq (.str [':']) (.call R.Value))) := rfl

/-- the `Argument` pair of `k: v` whose name starts at `q0` -/
def argPair (τ : Trivia) (q0 q1 q3 : Nat) (v : Value) : Pair :=
  .mk R.Argument q0 (q3 + (renderV τ q3 v).length) [.mk R.Name q0 q1 [], valuePair τ q3 v]

/-- the `Argument` pairs of an argument list written from offset `q` -/
def argPairs (τ : Trivia) : Nat → Bool → List (Name × Pos × Value) → List Pair
  | _, _, [] => []
  | q, first, (k, _, v) :: fs =>
    argPair τ (fQ0 τ q first) (fQ1 τ q first k) (fQ3 τ q first k) v ::
      argPairs τ (fQ3 τ q first k + (renderV τ (fQ3 τ q first k) v).length) false fs

theorem argPairs_cons (τ : Trivia) (q : Nat) (first : Bool) (k : Name) (pos : Pos) (v : Value)
    (fs : List (Name × Pos × Value)) :
    argPairs τ q first ((k, pos, v) :: fs) = argPair τ (fQ0 τ q first) (fQ1 τ q first k) (fQ3 τ q first k) v ::
      argPairs τ (fQ3 τ q first k + (renderV τ (fQ3 τ q first k) v).length) false fs := rfl

/-! ### one argument -/

theorem arg_runs (τ : Trivia) (hτ : ∀ q, Ws (τ q)) (k : List Char) (v : Value) (hk : validName k) (hwf : WFV v)
    (hv : ValRuns τ v) (q0 : Nat) (g1 g2 : List Char) (hg1 : Ws g1) (hg2 : Ws g2) (rest : List Char) (hend : ValEnd rest) :
    RunsRule gList (B (k.length + g1.length + 1 + g2.length + (renderV τ (q0 + k.length + g1.length + 1 + g2.length) v).length))
      R.Argument .nonAtomic
      ⟨q0, k ++ (g1 ++ (':' :: (g2 ++ (renderV τ (q0 + k.length + g1.length + 1 + g2.length) v ++ rest))))⟩
      ⟨q0 + k.length + g1.length + 1 + g2.length + (renderV τ (q0 + k.length + g1.length + 1 + g2.length) v).length, rest⟩
      [argPair τ q0 (q0 + k.length) (q0 + k.length + g1.length + 1 + g2.length) v] := by
  generalize ht : renderV τ (q0 + k.length + g1.length + 1 + g2.length) v = t
  have hk1 : 1 ≤ k.length := by
    cases k with
    | nil => exact absurd hk id
    | cons d ds => simp
  -- the name
  have hnc : HeadNot nameCont (g1 ++ (':' :: (g2 ++ (t ++ rest)))) := by
    refine (valEnd_ws_append hg1 ?_).nameCont
    intro d r he hd
    cases he
    rcases hd with hd | hd | hd <;> first | exact absurd hd (by decide) | (revert hd; decide)
  have hname := runs_call (sk := true) (name_runs hk q0 _ hnc)
  have hs1 := skip_ws g1 hg1 (q0 + k.length) (':' :: (g2 ++ (t ++ rest))) (headNot_trivia_close (Or.inr (Or.inr (Or.inr rfl))))
  have hcolon : Runs gList 1 true (.str [':']) .nonAtomic ⟨q0 + k.length + g1.length, ':' :: (g2 ++ (t ++ rest))⟩
      ⟨q0 + k.length + g1.length + 1, g2 ++ (t ++ rest)⟩ [] :=
    runs_str (c := ⟨q0 + k.length + g1.length, ':' :: (g2 ++ (t ++ rest))⟩) (by simp [matchStr])
  have hs2 := skip_ws g2 hg2 (q0 + k.length + g1.length + 1) (t ++ rest) (ht ▸ renderV_headNot_trivia τ _ v hwf _)
  have hval := hv (q0 + k.length + g1.length + 1 + g2.length) rest hend
  rw [ht] at hval
  have hcall := runs_call (sk := true) hval
  have body := runs_seq_skip' hname hs1 (runs_seq_skip' hcolon hs2 hcall)
  have := runsRule_normal look_Argument (nsp (by decide) (by decide)) body
  refine RunsRule.cast (this.mono ?_) rfl rfl (by simp [argPair, valuePair, ht])
  simp [B]; omega

theorem arg_fails_close {p : Nat} {r : List Char} : FailsRule gList 12 R.Argument .nonAtomic ⟨p, ')' :: r⟩ :=
  (failsRule_normal look_Argument (nsp (by decide) (by decide))
    (fails_seq_first (fails_call (name_fails (headNot_cons (by decide) _))))).mono (by omega)

/-! ### the arguments -/

/-- everything about the first field of `fieldsBody τ q first ((k, pos, v) :: fs)` followed by `tail`: the pieces of the
    text, the skip over the gap in front of it, and the `ObjectField` run -/
theorem arg_step (τ : Trivia) (hτ : ∀ q, Ws (τ q)) (q : Nat) (first : Bool) (k : Name) (pos : Pos) (v : Value)
    (fs : List (Name × Pos × Value)) (hk : validName k.toList) (hwf : WFV v) (hv : ValRuns τ v)
    (tail : Nat → List Char) (hend : ∀ q', ValEnd (fieldsBody τ q' false fs ++ tail (q' + (fieldsBody τ q' false fs).length))) :
    ∃ (g ft : List Char) (q' : Nat),
      g = gapOf first (τ q) ∧ q' = q + g.length + ft.length ∧ 1 ≤ ft.length ∧
      fieldsBody τ q first ((k, pos, v) :: fs) = g ++ (ft ++ fieldsBody τ q' false fs) ∧
      (∃ fp, argPairs τ q first ((k, pos, v) :: fs) = fp :: argPairs τ q' false fs ∧
        Runs gList (B ft.length + 1) true (.call R.Argument) .nonAtomic
          ⟨q + g.length, ft ++ (fieldsBody τ q' false fs ++ tail (q' + (fieldsBody τ q' false fs).length))⟩
          ⟨q', fieldsBody τ q' false fs ++ tail (q' + (fieldsBody τ q' false fs).length)⟩ [fp]) ∧
      (∀ x : List Char, SkipTo (g.length + 60) ⟨q, g ++ (ft ++ x)⟩ ⟨q + g.length, ft ++ x⟩) ∧
      (∀ x : List Char, HeadNot (· = ')') (ft ++ x)) := by
  have hbody := fieldsBody_cons τ q first k pos v fs
  have hpairs := argPairs_cons τ q first k pos v fs
  simp only [fQ0, fQ1, fQ2, fQ3] at hbody hpairs
  generalize hg : gapOf first (τ q) = g at hbody hpairs
  generalize hg1 : τ (q + g.length + k.toList.length) = g1 at hbody hpairs
  generalize hg2 : τ (q + g.length + k.toList.length + g1.length + 1) = g2 at hbody hpairs
  generalize ht : renderV τ (q + g.length + k.toList.length + g1.length + 1 + g2.length) v = t at hbody hpairs
  have hgws : Ws g := hg ▸ ws_gapOf (hτ q)
  have hg1ws : Ws g1 := hg1 ▸ hτ _
  have hg2ws : Ws g2 := hg2 ▸ hτ _
  have hk1 : 1 ≤ k.toList.length := by
    cases hkl : k.toList with
    | nil => rw [hkl] at hk; exact absurd hk id
    | cons d ds => simp
  refine ⟨g, k.toList ++ (g1 ++ (':' :: (g2 ++ t))), q + g.length + k.toList.length + g1.length + 1 + g2.length + t.length,
    rfl, by simp; omega, by simp; omega, by rw [hbody]; simp, ?_, ?_, ?_⟩
  · refine ⟨_, hpairs, ?_⟩
    have := arg_runs τ hτ k.toList v hk hwf hv (q + g.length) g1 g2 hg1ws hg2ws
      (fieldsBody τ (q + g.length + k.toList.length + g1.length + 1 + g2.length + t.length) false fs ++ tail ((q + g.length + k.toList.length + g1.length + 1 + g2.length + t.length) + (fieldsBody τ (q + g.length + k.toList.length + g1.length + 1 + g2.length + t.length) false fs).length)) (hend (q + g.length + k.toList.length + g1.length + 1 + g2.length + t.length))
    rw [ht] at this
    refine Runs.cast ((runs_call (sk := true) this).mono ?_) (by simp) rfl rfl
    simp [B]; omega
  · intro x
    have hnt : HeadNot trivia (k.toList ++ (g1 ++ (':' :: (g2 ++ t))) ++ x) := by
      cases hkl : k.toList with
      | nil => rw [hkl] at hk; exact absurd hk id
      | cons d ds =>
        rw [hkl] at hk
        exact headNot_cons (nameStart_not_trivia hk.1) _
    exact skip_ws g hgws q _ hnt
  · intro x
    cases hkl : k.toList with
    | nil => rw [hkl] at hk; exact absurd hk id
    | cons d ds =>
      rw [hkl] at hk
      refine headNot_cons ?_ _
      rintro rfl
      exact absurd hk.1 (by decide)

/-- the loop over the remaining fields, from the cursor right after a field -/
theorem args_sr (τ : Trivia) (hτ : ∀ q, Ws (τ q)) (fs : List (Name × Pos × Value)) (hfs : FieldsOk τ fs) :
    ∀ (q : Nat) (rest : List Char),
      RunsSR (B ((fieldsBody τ q false fs).length + (τ (q + (fieldsBody τ q false fs).length)).length)) (.call R.Argument)
        ⟨q, fieldsBody τ q false fs ++ (τ (q + (fieldsBody τ q false fs).length) ++ ')' :: rest)⟩
        ⟨q + (fieldsBody τ q false fs).length, τ (q + (fieldsBody τ q false fs).length) ++ ')' :: rest⟩
        (argPairs τ q false fs) := by
  induction fs with
  | nil =>
    intro q rest
    have hs := skip_ws (τ q) (hτ q) q (')' :: rest) (headNot_trivia_close (Or.inr (Or.inr (Or.inl rfl))))
    have hf := fails_call (sk := true) (arg_fails_close (p := q + (τ q).length) (r := rest))
    have := runsSR_nil hs hf
    refine RunsSR.cast (this.mono ?_) (by simp [fieldsBody]) (by simp [fieldsBody]) (by simp [argPairs])
    simp [fieldsBody, B]; omega
  | cons f fs ih =>
    intro q rest
    obtain ⟨k, pos, v⟩ := f
    obtain ⟨hk, hwf, hv⟩ := hfs (k, pos, v) (List.mem_cons_self ..)
    have ih' := ih (fun w hw => hfs w (List.mem_cons_of_mem _ hw))
    obtain ⟨g, ft, q', hg, hq', hft1, hbody, ⟨fp, hpairs, hrun⟩, hskip, _⟩ :=
      arg_step τ hτ q false k pos v fs hk hwf hv (fun e => τ e ++ ')' :: rest)
        (fun q' => valEnd_fields τ hτ q' fs ')' rest (Or.inr (Or.inr rfl)))
    have hg1 : 1 ≤ g.length := by
      rw [hg]; simp only [gapOf, Bool.false_eq_true, if_false]
      exact List.length_pos_iff.mpr (sepOf_ne_nil _)
    have hlen : q + (fieldsBody τ q false ((k, pos, v) :: fs)).length = q' + (fieldsBody τ q' false fs).length := by
      rw [hbody, hq']; simp; omega
    rw [hlen, hbody, hpairs]
    have := runsSR_cons (hskip _) hrun (ih' q' rest)
    refine RunsSR.cast (this.mono ?_) (by simp) rfl (by simp)
    simp [B]; omega

/-- `ObjectField+`'s tail after the first field: skip, `ObjectField*`, and the skip in front of the closing brace -/
theorem args_plus (τ : Trivia) (hτ : ∀ q, Ws (τ q)) (fs : List (Name × Pos × Value)) (hfs : FieldsOk τ fs)
    (q : Nat) (rest : List Char) :
    ∃ c3 cE, SkipTo (B ((fieldsBody τ q false fs).length + (τ (q + (fieldsBody τ q false fs).length)).length) + 2)
        ⟨q, fieldsBody τ q false fs ++ (τ (q + (fieldsBody τ q false fs).length) ++ ')' :: rest)⟩ c3 ∧
      Runs gList (B ((fieldsBody τ q false fs).length + (τ (q + (fieldsBody τ q false fs).length)).length) + 2) true
        (.star (.call R.Argument)) .nonAtomic c3 cE (argPairs τ q false fs) ∧
      SkipTo (B ((fieldsBody τ q false fs).length + (τ (q + (fieldsBody τ q false fs).length)).length) + 2) cE
        ⟨q + (fieldsBody τ q false fs).length + (τ (q + (fieldsBody τ q false fs).length)).length, ')' :: rest⟩ := by
  cases fs with
  | nil =>
    have hs := skip_ws (τ q) (hτ q) q (')' :: rest) (headNot_trivia_close (Or.inr (Or.inr (Or.inl rfl))))
    have hf := fails_call (sk := true) (arg_fails_close (p := q + (τ q).length) (r := rest))
    have hst := runs_star_sk_nil hf
    have hs2 := skipTo_noop (p := q + (τ q).length) (rest := ')' :: rest) (headNot_trivia_close (Or.inr (Or.inr (Or.inl rfl))))
    refine ⟨_, _, SkipTo.cast (hs.mono ?_) (by simp [fieldsBody]) rfl, Runs.cast (hst.mono ?_) rfl rfl (by simp [argPairs]),
      SkipTo.cast (hs2.mono ?_) rfl (by simp [fieldsBody])⟩ <;>
      first | (simp [fieldsBody, B]; done) | (simp [fieldsBody, B]; omega)
  | cons f fs =>
    obtain ⟨k, pos, v⟩ := f
    obtain ⟨hk, hwf, hv⟩ := hfs (k, pos, v) (List.mem_cons_self ..)
    have hsr := args_sr τ hτ fs (fun w hw => hfs w (List.mem_cons_of_mem _ hw))
    obtain ⟨g, ft, q', hg, hq', hft1, hbody, ⟨fp, hpairs, hrun⟩, hskip, _⟩ :=
      arg_step τ hτ q false k pos v fs hk hwf hv (fun e => τ e ++ ')' :: rest)
        (fun q' => valEnd_fields τ hτ q' fs ')' rest (Or.inr (Or.inr rfl)))
    have hlen : q + (fieldsBody τ q false ((k, pos, v) :: fs)).length = q' + (fieldsBody τ q' false fs).length := by
      rw [hbody, hq']; simp; omega
    rw [hlen, hbody, hpairs]
    have hst := runs_star_sk_cons hrun (hsr q' rest)
    have hs2 := skip_ws (τ (q' + (fieldsBody τ q' false fs).length)) (hτ _) (q' + (fieldsBody τ q' false fs).length)
      (')' :: rest) (headNot_trivia_close (Or.inr (Or.inr (Or.inl rfl))))
    refine ⟨_, _, SkipTo.cast ((hskip _).mono ?_) (by simp) rfl, Runs.cast (hst.mono ?_) rfl rfl (by simp),
      SkipTo.cast (hs2.mono ?_) rfl rfl⟩ <;> first | (simp [B]; done) | (simp [B]; omega)


/-! ### the `Arguments` rule -/

/-- the text of a non-empty argument list written at offset `p` -/
def renderArgs (τ : Trivia) (p : Nat) (args : List Arg) : List Char :=
  '(' :: (fieldsBody τ (p + 1) true args ++ (τ (p + 1 + (fieldsBody τ (p + 1) true args).length) ++ [')']))

def argsPair (τ : Trivia) (p : Nat) (args : List Arg) : Pair :=
  .mk R.Arguments p (p + (renderArgs τ p args).length) (argPairs τ (p + 1) true args)

theorem arguments_runs (τ : Trivia) (hτ : ∀ q, Ws (τ q)) (args : List Arg) (hne : args ≠ []) (hok : FieldsOk τ args)
    (p : Nat) (rest : List Char) :
    RunsRule gList (B (renderArgs τ p args).length) R.Arguments .nonAtomic ⟨p, renderArgs τ p args ++ rest⟩
      ⟨p + (renderArgs τ p args).length, rest⟩ [argsPair τ p args] := by
  have hopen : ∀ x : List Char, Runs gList 1 true (.str ['(']) .nonAtomic ⟨p, '(' :: x⟩ ⟨p + 1, x⟩ [] := fun x =>
    runs_str (c := ⟨p, '(' :: x⟩) (by simp [matchStr])
  cases args with
  | nil => exact absurd rfl hne
  | cons f fs =>
    obtain ⟨k, kpos, v⟩ := f
    obtain ⟨hk, hwf, hv⟩ := hok (k, kpos, v) (List.mem_cons_self ..)
    obtain ⟨g, ft, q', hg, hq', hft1, hbody, ⟨fp, hpairs, hrun⟩, hskip, hnc⟩ :=
      arg_step τ hτ (p + 1) true k kpos v fs hk hwf hv (fun e => τ e ++ ')' :: rest)
        (fun q' => valEnd_fields τ hτ q' fs ')' rest (Or.inr (Or.inr rfl)))
    have hlen : p + 1 + (fieldsBody τ (p + 1) true ((k, kpos, v) :: fs)).length = q' + (fieldsBody τ q' false fs).length := by
      rw [hbody, hq']; simp; omega
    generalize hib : fieldsBody τ q' false fs = ib at *
    generalize hpad : τ (q' + ib.length) = pad at *
    have htext : renderArgs τ p ((k, kpos, v) :: fs) = '(' :: (g ++ (ft ++ ib) ++ (pad ++ [')'])) := by
      simp only [renderArgs]; rw [hlen, hbody, hpad]
    have hL : (renderArgs τ p ((k, kpos, v) :: fs)).length = g.length + ft.length + ib.length + pad.length + 2 := by
      rw [htext]; simp; omega
    have hpair : argsPair τ p ((k, kpos, v) :: fs) = .mk R.Arguments p
        (p + (renderArgs τ p ((k, kpos, v) :: fs)).length) (fp :: argPairs τ q' false fs) := by
      simp [argsPair, hpairs]
    rw [hpair, hL, htext]
    obtain ⟨c3, cE, k1, k2, k3⟩ := args_plus τ hτ fs (fun w hw => hok w (List.mem_cons_of_mem _ hw)) q' rest
    rw [hib, hpad] at k1 k2 k3
    have hplus := runs_plus_sk (runs_seq_skip' hrun k1 k2)
    have hclose : Runs gList 1 true (.str [')']) .nonAtomic ⟨q' + ib.length + pad.length, ')' :: rest⟩
        ⟨q' + ib.length + pad.length + 1, rest⟩ [] :=
      runs_str (c := ⟨q' + ib.length + pad.length, ')' :: rest⟩) (by simp [matchStr])
    have body := runs_seq_skip' (hopen _) (hskip (ib ++ (pad ++ ')' :: rest))) (runs_seq_skip' hplus k3 hclose)
    have := runsRule_normal look_Arguments (nsp (by decide) (by decide)) body
    refine RunsRule.cast (this.mono ?_) (by simp) ?_ (by first | (simp; done) | (simp; omega))
    · simp [B]; omega
    · first | rfl | (congr 1; omega)

/-! ### `build_arguments` on that tree -/

/-- the function `build_arguments` maps over the `Argument` children (value.rs) -/
def argFn (ctx : Ctx) (fuel : Nat) : Pair → M Gql.Arg := fun a => do
  let (n, v) ← get2 "Argument" (← matchParts P_Argument a.children)
  let v ← buildValue ctx fuel v
  .ok ((asString ctx n, toPos ctx n, v) : Gql.Arg)

theorem buildArguments_eq (ctx : Ctx) (fuel : Nat) (s e : Nat) (cs : List Pair)
    (hcs : allChildrenGo AC_Arguments cs = .ok ()) :
    buildArguments ctx fuel (.mk R.Arguments s e cs) = cs.mapM (argFn ctx fuel) := by
  unfold argFn
  simp [buildArguments, allChildren, Pair.children, hcs, bind, Except.bind]

theorem argFn_argPair (τ : Trivia) (inp : List Char) (fuel : Nat) (q0 q1 q3 : Nat) (v : Value) (w : Value)
    (hw : buildValue (Ctx.spec inp) fuel (valuePair τ q3 v) = .ok w) :
    argFn (Ctx.spec inp) fuel (argPair τ q0 q1 q3 v) = .ok (String.ofList (slice inp q0 q1), posAt inp q0, w) := by
  simp only [valuePair] at hw
  simp [argFn, argPair, Pair.children, matchParts, P_Argument, Pair.rule, valuePair, get2, hw,
    asString_spec', toPos_spec', Pair.start, Pair.stop, Except.map, bind, Except.bind]

theorem args_build (τ : Trivia) (inp : List Char) (fuel : Nat) (fs : List (Name × Pos × Value))
    (hfs : ∀ f ∈ fs, ValBuilds τ inp f.2.2 ∧ f.2.2.size ≤ fuel) : ∀ (q : Nat) (first : Bool) (rest : List Char),
    inp.drop q = fieldsBody τ q first fs ++ rest →
    (argPairs τ q first fs).mapM (argFn (Ctx.spec inp) fuel) = .ok (withPosFs τ inp q first fs) := by
  induction fs with
  | nil => intro q first rest _; rfl
  | cons f fs ih =>
    intro q first rest h
    obtain ⟨k, pos, v⟩ := f
    obtain ⟨hb, hsz⟩ := hfs (k, pos, v) (List.mem_cons_self ..)
    rw [fieldsBody_cons] at h
    simp only [List.append_assoc] at h
    have h0 := drop_after h
    have hname : slice inp (fQ0 τ q first) (fQ1 τ q first k) = k.toList := by
      have := slice_of_drop (inp := inp) (a := q + (gapOf first (τ q)).length) (t := k.toList) h0
      simpa [fQ0, fQ1] using this
    have h1 := drop_after h0
    have h2 : inp.drop (fQ2 τ q first k) = τ (fQ2 τ q first k) ++ (renderV τ (fQ3 τ q first k) v ++
        (fieldsBody τ (fQ3 τ q first k + (renderV τ (fQ3 τ q first k) v).length) false fs ++ rest)) := by
      have := drop_after h1
      have e : inp.drop (q + (gapOf first (τ q)).length + k.toList.length + (τ (fQ1 τ q first k)).length + 1) =
          τ (fQ2 τ q first k) ++ (renderV τ (fQ3 τ q first k) v ++
            (fieldsBody τ (fQ3 τ q first k + (renderV τ (fQ3 τ q first k) v).length) false fs ++ rest)) := by
        rw [← List.drop_drop, this]; simp
      simpa [fQ0, fQ1, fQ2] using e
    have h3 := drop_after h2
    have h3' : inp.drop (fQ3 τ q first k) = renderV τ (fQ3 τ q first k) v ++
        (fieldsBody τ (fQ3 τ q first k + (renderV τ (fQ3 τ q first k) v).length) false fs ++ rest) := by
      simpa [fQ3] using h3
    have h4 := drop_after h3'
    have e1 := argFn_argPair τ inp fuel (fQ0 τ q first) (fQ1 τ q first k) (fQ3 τ q first k) v _
      (hb _ _ fuel h3' hsz)
    have e2 := ih (fun w hw => hfs w (List.mem_cons_of_mem _ hw)) _ false rest h4
    rw [argPairs_cons]
    simp [List.mapM_cons, e1, e2, hname, withPosFs, bind, Except.bind, pure, Except.pure]

theorem argPairs_all (τ : Trivia) : ∀ (fs : List (Name × Pos × Value)) (q : Nat) (first : Bool),
    allChildrenGo AC_Arguments (argPairs τ q first fs) = .ok () := by
  intro fs
  induction fs with
  | nil => intro q first; rfl
  | cons f fs ihf =>
    intro q first
    obtain ⟨k, kp, v⟩ := f
    rw [argPairs_cons]
    simp only [allChildrenGo, argPair, Pair.rule, AC_Arguments, if_true]
    exact ihf _ _

/-- `build_arguments` on the pair tree of the rendering returns the arguments with the true token positions -/
theorem buildArguments_argsPair (τ : Trivia) (inp : List Char) (args : List Arg) (p : Nat) (rest : List Char) (fuel : Nat)
    (h : inp.drop p = renderArgs τ p args ++ rest) (hfuel : Value.sizeFields args ≤ fuel) :
    buildArguments (Ctx.spec inp) fuel (argsPair τ p args) = .ok (withPosFs τ inp (p + 1) true args) := by
  have hd : inp.drop (p + 1) = fieldsBody τ (p + 1) true args ++
      (τ (p + 1 + (fieldsBody τ (p + 1) true args).length) ++ [')'] ++ rest) := by
    rw [← List.drop_drop, h]; simp [renderArgs]
  have hm := args_build τ inp fuel args (fun f hf =>
    ⟨value_builds τ inp f.2.2.size f.2.2 (Nat.le_refl _), Nat.le_trans (size_mem_fields hf) hfuel⟩) (p + 1) true _ hd
  simp only [argsPair]
  rw [buildArguments_eq _ _ _ _ _ (argPairs_all τ args _ _), hm]

end NitroVerif.ValueParse
