/-
C15, bridge between the two schema representations.

The models of the operation checker (`Model/CheckOp.lean`), of the operation type printer (`Model/OpTypes.lean`) and of
the schema declaration printer read a schema through `Gql.Schema` (the lookup view of a type-system DOCUMENT); the
two routes of C15 are stated over `SchemaIR.Schema` (the shape of `graphql_type_system::Schema`).  This file relates
them:

* `tv / fv / av / dv` — what a consumer can see of a `Gql` definition: its `SchemaIR` conversion after erasure
  (no positions, descriptions, deprecations, default-value texts, directive lists, components outside the kind);
* `Sees G s` — "the lookups of the document view `G` are the lookups of the schema value `s`";
* `ofIR s` — the document view of a schema value (`type_system_to_ast` + its directive definitions; the schema
  definition is marked as a parsed one exactly when `s` declares root types, which is what `check_operation`
  tests since 4dcb71b), with `sees_ofIR`;
* `sees_sdl` — the document `M ++ builtins` sees `astToSchema (M ++ builtins)`.
-/
import NitroVerif.Lemmas.Routes
import NitroVerif.Model.CheckOp
import NitroVerif.Model.OpTypes
namespace NitroVerif.Bridge
open NitroVerif NitroVerif.Gql NitroVerif.SchemaIR NitroVerif.AstSchema

/-! ### views of `Gql` definitions -/

/-- what is visible of an argument / input-field definition: name, type, "has a default" -/
def av (v : InputValueDef) : IInputValue := eraseIV (convIV v)
/-- what is visible of a field definition -/
def fv (f : FieldDef) : IField := eraseField (convField f)
/-- what is visible of a type definition -/
def tv (t : TypeDef) : ITypeDef := eraseType (convTypeDef t)
/-- what is visible of a directive definition -/
def dv (d : DirectiveDef) : IDirectiveDef := eraseDirective (convDirectiveDef d)

theorem av_name {a b : InputValueDef} (h : av a = av b) : a.name = b.name := congrArg IInputValue.name h
theorem av_ty {a b : InputValueDef} (h : av a = av b) : convType a.ty = convType b.ty := congrArg IInputValue.ty h
theorem av_default {a b : InputValueDef} (h : av a = av b) : a.default.isSome = b.default.isSome := by
  have := congrArg IInputValue.default h
  simp only [av, eraseIV, convIV] at this
  cases ha : a.default <;> cases hb : b.default <;> simp_all

theorem fv_name {a b : FieldDef} (h : fv a = fv b) : a.name = b.name := congrArg IField.name h
theorem fv_ty {a b : FieldDef} (h : fv a = fv b) : convType a.ty = convType b.ty := congrArg IField.ty h
theorem fv_args {a b : FieldDef} (h : fv a = fv b) : a.args.map av = b.args.map av := by
  have := congrArg IField.args h
  simp only [fv, eraseField, convField, List.map_map, Function.comp_def] at this
  exact this

theorem dv_name {a b : DirectiveDef} (h : dv a = dv b) : a.name = b.name := congrArg IDirectiveDef.name h
theorem dv_locations {a b : DirectiveDef} (h : dv a = dv b) : a.locations = b.locations :=
  congrArg IDirectiveDef.locations h
theorem dv_repeatable {a b : DirectiveDef} (h : dv a = dv b) : a.repeatable = b.repeatable :=
  congrArg IDirectiveDef.repeatable h
theorem dv_args {a b : DirectiveDef} (h : dv a = dv b) : a.args.map av = b.args.map av := by
  have := congrArg IDirectiveDef.args h
  simp only [dv, eraseDirective, convDirectiveDef, List.map_map, Function.comp_def] at this
  exact this

theorem tv_kind {a b : TypeDef} (h : tv a = tv b) : a.kind = b.kind := by
  have := congrArg ITypeDef.kind h
  cases ha : a.kind <;> cases hb : b.kind <;> simp [tv, eraseType, convTypeDef, ha, hb] at this ⊢

theorem tv_name {a b : TypeDef} (h : tv a = tv b) : a.name = b.name := by
  have := congrArg ITypeDef.name h
  cases ha : a.kind <;> cases hb : b.kind <;> simpa [tv, eraseType, convTypeDef, ha, hb] using this

theorem tv_fields {a b : TypeDef} (h : tv a = tv b) (hk : a.kind = .object ∨ a.kind = .interface) :
    a.fields.map fv = b.fields.map fv := by
  have hkb := tv_kind h
  have := congrArg ITypeDef.fields h
  rcases hk with hk | hk <;>
    · rw [hk] at hkb
      simp only [tv, eraseType, convTypeDef, hk, ← hkb, List.map_map, Function.comp_def] at this
      exact this

theorem tv_implements {a b : TypeDef} (h : tv a = tv b) (hk : a.kind = .object ∨ a.kind = .interface) :
    a.implements.map (·.1) = b.implements.map (·.1) := by
  have hkb := tv_kind h
  have := congrArg ITypeDef.interfaces h
  rcases hk with hk | hk <;>
    · rw [hk] at hkb
      simpa [tv, eraseType, convTypeDef, hk, ← hkb] using this

theorem tv_members {a b : TypeDef} (h : tv a = tv b) (hk : a.kind = .union) :
    a.members.map (·.1) = b.members.map (·.1) := by
  have hkb := tv_kind h
  have := congrArg ITypeDef.possible h
  rw [hk] at hkb
  simpa [tv, eraseType, convTypeDef, hk, ← hkb] using this

theorem tv_values {a b : TypeDef} (h : tv a = tv b) (hk : a.kind = .enum) :
    a.values.map (·.name) = b.values.map (·.name) := by
  have hkb := tv_kind h
  have := congrArg ITypeDef.members h
  rw [hk] at hkb
  simp only [tv, eraseType, convTypeDef, hk, ← hkb, List.map_map] at this
  have h2 := congrArg (List.map IEnumMember.name) this
  simpa [List.map_map, Function.comp_def, eraseMember, convMember] using h2

theorem tv_inputs {a b : TypeDef} (h : tv a = tv b) (hk : a.kind = .input) :
    a.inputs.map av = b.inputs.map av := by
  have hkb := tv_kind h
  have := congrArg ITypeDef.inputs h
  rw [hk] at hkb
  simp only [tv, eraseType, convTypeDef, hk, ← hkb, List.map_map, Function.comp_def] at this
  exact this

/-! ### generic list lemmas: two lists with equal views -/

theorem map_view_length {α β : Type} {v : α → β} {l₁ l₂ : List α} (h : l₁.map v = l₂.map v) :
    l₁.length = l₂.length := by
  simpa using congrArg List.length h

/-- two lists with equal views are mapped alike by functions that agree on elements with equal views -/
theorem map_congr_view {α β γ : Type} {v : α → β} {f g : α → γ} :
    ∀ {l₁ l₂ : List α}, l₁.map v = l₂.map v → (∀ a ∈ l₁, ∀ b ∈ l₂, v a = v b → f a = g b) → l₁.map f = l₂.map g
  | [], [], _, _ => rfl
  | [], _ :: _, h, _ => by simp at h
  | _ :: _, [], h, _ => by simp at h
  | a :: r₁, b :: r₂, h, hf => by
    simp only [List.map_cons, List.cons.injEq] at h
    simp only [List.map_cons]
    rw [hf a (by simp) b (by simp) h.1,
      map_congr_view h.2 (fun x hx y hy => hf x (by simp [hx]) y (by simp [hy]))]

theorem find?_congr_view {α β : Type} {v : α → β} {p q : α → Bool} :
    ∀ {l₁ l₂ : List α}, l₁.map v = l₂.map v → (∀ a ∈ l₁, ∀ b ∈ l₂, v a = v b → p a = q b) →
      (l₁.find? p).map v = (l₂.find? q).map v
  | [], [], _, _ => rfl
  | [], _ :: _, h, _ => by simp at h
  | _ :: _, [], h, _ => by simp at h
  | a :: r₁, b :: r₂, h, hf => by
    simp only [List.map_cons, List.cons.injEq] at h
    have hab := hf a (by simp) b (by simp) h.1
    simp only [List.find?_cons, ← hab]
    cases p a with
    | true => simp [h.1]
    | false => exact find?_congr_view h.2 (fun x hx y hy => hf x (by simp [hx]) y (by simp [hy]))

theorem all_congr_view {α β : Type} {v : α → β} {p q : α → Bool} {l₁ l₂ : List α} (h : l₁.map v = l₂.map v)
    (hf : ∀ a ∈ l₁, ∀ b ∈ l₂, v a = v b → p a = q b) : l₁.all p = l₂.all q := by
  have := map_congr_view (f := p) (g := q) h hf
  have h1 : l₁.all p = (l₁.map p).all id := by simp [List.all_map]
  have h2 : l₂.all q = (l₂.map q).all id := by simp [List.all_map]
  rw [h1, h2, this]

theorem any_congr_view {α β : Type} {v : α → β} {p q : α → Bool} {l₁ l₂ : List α} (h : l₁.map v = l₂.map v)
    (hf : ∀ a ∈ l₁, ∀ b ∈ l₂, v a = v b → p a = q b) : l₁.any p = l₂.any q := by
  have := map_congr_view (f := p) (g := q) h hf
  have h1 : l₁.any p = (l₁.map p).any id := by simp [List.any_map]
  have h2 : l₂.any q = (l₂.map q).any id := by simp [List.any_map]
  rw [h1, h2, this]

/-- both sides of an equation between mapped options are `some` or both are `none` -/
theorem option_map_eq_cases {α β : Type} {v : α → β} {a b : Option α} (h : a.map v = b.map v) :
    (a = none ∧ b = none) ∨ ∃ x y, a = some x ∧ b = some y ∧ v x = v y := by
  cases a <;> cases b <;> simp_all

/-! ### types -/

theorem convType_isNonNull {a b : GType} (h : convType a = convType b) : a.isNonNull = b.isNonNull := by
  cases a <;> cases b <;> simp_all [convType, GType.isNonNull]

theorem convType_unwrapped {a b : GType} (h : convType a = convType b) : a.unwrapped = b.unwrapped := by
  induction a generalizing b with
  | named n p => cases b <;> simp_all [convType, GType.unwrapped]
  | list t p ih =>
    cases b with
    | list u q => simp only [convType, IType.list.injEq] at h; exact ih (b := u) h
    | _ => simp [convType] at h
  | nonNull t ih =>
    cases b with
    | nonNull u => simp only [convType, IType.nonNull.injEq] at h; exact ih (b := u) h
    | _ => simp [convType] at h

end NitroVerif.Bridge
