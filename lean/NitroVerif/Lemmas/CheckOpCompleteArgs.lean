import NitroVerif.Lemmas.CheckOpCompleteValues
/-!
Completeness of `check_arguments` and `check_directives` (C04): the facts the specification's rules 5.4.1, 5.4.2,
5.4.2.1, 5.6.x (arguments) and 5.7.1 – 5.7.3 (directives) state about one argument list / one directive list
make the two loops report only allowed kinds.
-/
namespace NitroVerif.CheckOp
open NitroVerif.Gql NitroVerif.CheckCommon NitroVerif.Valid

/-- the variable usages inside the typed values of some argument lists are all handled quietly -/
def UsesOK (S : Schema) (A : ErrKind → Bool) (vars : Option (List VarDef)) (sites : List ArgSite) : Prop :=
  ∀ tv ∈ typedValuesOf sites, ∀ u ∈ varUses S tv.value tv.ty tv.locDefault, UseQuiet A vars u

theorem usesOK_mono {S : Schema} {A : ErrKind → Bool} {vars : Option (List VarDef)} {a b : List ArgSite}
    (hsub : ∀ s ∈ a, s ∈ b) (h : UsesOK S A vars b) : UsesOK S A vars a := by
  intro tv htv
  obtain ⟨site, hs, htv'⟩ := typedValuesOf_mem htv
  apply h
  simp only [typedValuesOf, List.mem_flatMap] at htv' ⊢
  obtain ⟨s', hs', h'⟩ := htv'
  simp at hs'; subst hs'
  exact ⟨_, hsub _ hs, h'⟩

/-- the uniqueness loop is silent on pairwise different argument names -/
theorem dupArgsAux_complete : ∀ (as : List Arg) (seen : List Name), (∀ a ∈ as, a.1 ∉ seen) →
    nodupB (as.map (·.1)) = true → dupArgsAux seen as = [] := by
  intro as
  induction as with
  | nil => intro _ _ _; rfl
  | cons a as ih =>
    intro seen hs hnd
    simp only [List.map_cons] at hnd
    obtain ⟨ha, hnd'⟩ := (nodupB_cons_iff _ _).mp hnd
    have hc : seen.contains a.1 = false := by
      cases hc : seen.contains a.1 with
      | false => rfl
      | true => exact absurd (by simpa using hc) (hs a (by simp))
    simp only [dupArgsAux, hc, Bool.false_eq_true, if_false, List.nil_append]
    apply ih _ _ hnd'
    intro b hb hmem
    rcases List.mem_append.mp hmem with hmem | hmem
    · exact hs b (List.mem_cons_of_mem _ hb) hmem
    · simp at hmem
      exact ha (hmem ▸ List.mem_map.mpr ⟨b, hb, rfl⟩)

/-- **Completeness of `check_arguments`** for one argument list against its definitions -/
theorem checkArguments_complete {S : Schema} {A : ErrKind → Bool} {vars : Option (List VarDef)}
    (hU : uniqueArgNamesB S = true) (hI : InputFieldsTyped S)
    {args : List Arg} {defs : List InputValueDef} (pos : Pos)
    (hdefs : nodupB (defs.map (·.name)) = true) (hty : ∀ d ∈ defs, InputTy S d.ty)
    (h541 : ∀ a ∈ args, defs.any (·.name == a.1) = true)
    (h542 : nodupB (args.map (·.1)) = true)
    (h5421 : ∀ d ∈ defs, (d.ty.isNonNull && d.default.isNone) = true → args.any (·.1 == d.name) = true)
    (hval : ∀ tv ∈ typedValuesOf [⟨args, defs⟩], valueIssues S tv.value tv.ty = [])
    (huse : UsesOK S A vars [⟨args, defs⟩]) :
    Quiet A (checkArguments S vars pos args defs) := by
  unfold checkArguments
  cases hde : defs.isEmpty with
  | true =>
    have hd : defs = [] := by simpa using hde
    simp only [if_true]
    cases args with
    | nil => simp; exact quiet_nil
    | cons a as =>
      have := h541 a (by simp)
      rw [hd] at this
      simp at this
  | false =>
    simp only [Bool.false_eq_true, if_false]
    rw [quiet_append, quiet_append]
    refine ⟨⟨?_, ?_⟩, ?_⟩
    · rw [dupArgsAux_complete args [] (by intro a _ h; cases h) h542]; exact quiet_nil
    · rw [quiet_flatMap]
      intro oc hoc
      unfold argOutcomes at hoc
      obtain ⟨d, hd, rfl⟩ := List.mem_map.mp hoc
      cases hf : args.find? (fun a => d.name == a.1) with
      | none =>
        simp only []
        cases hr : (!d.ty.isNonNull || d.default.isSome) with
        | true => simp only [if_true]; exact quiet_nil
        | false =>
          exfalso
          have hreq : (d.ty.isNonNull && d.default.isNone) = true := by
            cases h1 : d.ty.isNonNull <;> cases h2 : d.default <;> simp [h1, h2] at hr ⊢
          obtain ⟨a, ha, han⟩ := List.any_eq_true.mp (h5421 d hd hreq)
          rw [List.find?_eq_none] at hf
          have := hf a ha
          simp at han
          simp [han] at this
      | some a =>
        simp only []
        have ha := List.mem_of_find?_eq_some hf
        have hdn : d.name = a.1 := by simpa using List.find?_some hf
        have hfd : defs.find? (·.name == a.1) = some d := by
          rw [← hdn]; exact find?_inputDef_of_nodup defs hdefs d hd
        have htv : (⟨a.2.2, d.ty, d.default.isSome⟩ : TypedValue) ∈ typedValuesOf [⟨args, defs⟩] := by
          simp only [typedValuesOf, List.flatMap_cons, List.flatMap_nil, List.append_nil, List.mem_filterMap]
          exact ⟨a, ha, by simp [hfd]⟩
        exact checkValue_complete' hU hI (hty d hd) (hval _ htv) (huse _ htv)
    · have : (args.filter fun a => defs.all (fun d => d.name != a.1)) = [] := by
        rw [List.filter_eq_nil_iff]
        intro a ha
        obtain ⟨d, hd, hdn⟩ := List.any_eq_true.mp (h541 a ha)
        simp only [Bool.not_eq_true, List.all_eq_false]
        exact ⟨d, hd, by simpa using hdn⟩
      rw [this]
      split <;> exact quiet_nil

/-- what the directive rules 5.7.1 – 5.7.3 (and the argument rules, for each directive's arguments) say about one
    directive list at the location `loc` -/
def DirListOK (S : Schema) (A : ErrKind → Bool) (vars : Option (List VarDef)) (loc : String) (ds : List Directive) : Prop :=
  (∀ d ∈ ds, ∃ dd, S.directiveDef? d.name = some dd ∧ dd.locations.contains loc = true ∧
      Quiet A (checkArguments S vars d.pos d.args dd.args)) ∧
  nodupB ((ds.filter (nonRepeatable S)).map (·.name)) = true

/-- the loop of `check_directives` with its `seen_directives` accumulator -/
theorem checkDirectivesAux_complete {S : Schema} {A : ErrKind → Bool} {vars : Option (List VarDef)} {loc : String} :
    ∀ (ds : List Directive) (seen : List Name), DirListOK S A vars loc ds →
      (∀ d ∈ ds, nonRepeatable S d = true → d.name ∉ seen) →
      Quiet A (checkDirectivesAux S vars loc seen ds) := by
  intro ds
  induction ds with
  | nil => intro _ _ _; simp only [checkDirectivesAux]; exact quiet_nil
  | cons d ds ih =>
    intro seen hok hseen
    obtain ⟨hA, hnd⟩ := hok
    obtain ⟨dd, hdd, hloc, hargs⟩ := hA d (by simp)
    simp only [checkDirectivesAux, hdd]
    have hnr : nonRepeatable S d = !dd.repeatable := by simp [nonRepeatable, hdd]
    rw [quiet_append, quiet_append, quiet_append]
    refine ⟨⟨⟨?_, ?_⟩, hargs⟩, ?_⟩
    · have : dd.locations.all (· != loc) = false := by
        rw [List.all_eq_false]
        have : loc ∈ dd.locations := by simpa using hloc
        exact ⟨loc, this, by simp⟩
      rw [this]; simp only [Bool.false_eq_true, if_false]; exact quiet_nil
    · cases hc : seen.contains d.name with
      | false => simp only [Bool.false_eq_true, if_false]; exact quiet_nil
      | true =>
        simp only [if_true]
        cases hr : dd.repeatable with
        | true => simp only [if_true]; exact quiet_nil
        | false =>
          exfalso
          exact hseen d (by simp) (by rw [hnr, hr]; rfl) (by simpa using hc)
    · apply ih
      · refine ⟨fun e he => hA e (List.mem_cons_of_mem _ he), ?_⟩
        by_cases hn : nonRepeatable S d = true
        · simp only [List.filter_cons, hn, if_true, List.map_cons] at hnd
          exact ((nodupB_cons_iff _ _).mp hnd).2
        · have hn' : nonRepeatable S d = false := by simpa using hn
          simpa [List.filter_cons, hn'] using hnd
      · intro e he hne hmem
        have hold : e.name ∉ seen := hseen e (List.mem_cons_of_mem _ he) hne
        have hmem' : e.name ∈ seen ++ [d.name] := by
          split at hmem
          · exact List.mem_append_left _ hmem
          · exact hmem
        rcases List.mem_append.mp hmem' with h | h
        · exact hold h
        · simp at h
          -- `e` and `d` have the same name, hence the same definition: both are non-repeatable
          have hnd' : nonRepeatable S d = true := by
            have : nonRepeatable S d = nonRepeatable S e := by simp [nonRepeatable, h]
            rw [this]; exact hne
          simp only [List.filter_cons, hnd', if_true, List.map_cons] at hnd
          have := ((nodupB_cons_iff _ _).mp hnd).1
          apply this
          rw [← h]
          exact List.mem_map.mpr ⟨e, List.mem_filter.mpr ⟨he, hne⟩, rfl⟩

/-- **Completeness of `check_directives`** for one directive list -/
theorem checkDirectives_complete {S : Schema} {A : ErrKind → Bool} {vars : Option (List VarDef)} {loc : String}
    {ds : List Directive} (h : DirListOK S A vars loc ds) : Quiet A (checkDirectives S vars ds loc) :=
  checkDirectivesAux_complete ds [] h (by intro d _ _ hm; cases hm)

end NitroVerif.CheckOp
