/-
Forward ("big-step") combinators for the PEG interpreter: `Runs g n sk e at c c' ps` says that for every trace and
every depth bound ≥ n the evaluation of `e` at cursor `c` succeeds at `c'` with pairs `ps` (`Fails`: fails). Every combinator takes ONE common threshold for its premises (use `.mono`) and adds a
constant, so the resulting bound is the DEPTH of the derivation, not its size.
With these a concrete parse is derived clause by clause without ever mentioning the depth bound, and the bound
comes out as an explicit expression. Used for the render ∘ parse round trip of the `Type` sub-language (Props/C07).
Lookahead state is `.none` throughout.
-/
import NitroVerif.Lemmas.PegInv
namespace NitroVerif.Peg

variable (g : G)

def Runs (n : Nat) (sk : Bool) (e : Expr) (at_ : Atomicity) (c c' : Cur) (ps : List Pair) : Prop :=
  ∀ tr, ∃ tr', ∀ f, n ≤ f → eval g f sk e at_ .none tr c = (tr', .ok c' ps)
def Fails (n : Nat) (sk : Bool) (e : Expr) (at_ : Atomicity) (c : Cur) : Prop :=
  ∀ tr, ∃ tr', ∀ f, n ≤ f → eval g f sk e at_ .none tr c = (tr', .fail)
def RunsRule (n : Nat) (r : RuleId) (at_ : Atomicity) (c c' : Cur) (ps : List Pair) : Prop :=
  ∀ tr, ∃ tr', ∀ f, n ≤ f → callRule g f r at_ .none tr c = (tr', .ok c' ps)
def FailsRule (n : Nat) (r : RuleId) (at_ : Atomicity) (c : Cur) : Prop :=
  ∀ tr, ∃ tr', ∀ f, n ≤ f → callRule g f r at_ .none tr c = (tr', .fail)
/-- the implicit skip does nothing at `c` -/
def SkipNoop (n : Nat) (at_ : Atomicity) (c : Cur) : Prop :=
  ∀ tr, ∃ tr', ∀ f, n ≤ f → doSkip g f true at_ .none tr c = (tr', .ok c [])

variable {g}

theorem Runs.mono {n m sk e at_ c c' ps} (h : Runs g n sk e at_ c c' ps) (hnm : n ≤ m) : Runs g m sk e at_ c c' ps :=
  fun tr => let ⟨tr', h'⟩ := h tr; ⟨tr', fun f hf => h' f (Nat.le_trans hnm hf)⟩
theorem Fails.mono {n m sk e at_ c} (h : Fails g n sk e at_ c) (hnm : n ≤ m) : Fails g m sk e at_ c :=
  fun tr => let ⟨tr', h'⟩ := h tr; ⟨tr', fun f hf => h' f (Nat.le_trans hnm hf)⟩
theorem RunsRule.mono {n m r at_ c c' ps} (h : RunsRule g n r at_ c c' ps) (hnm : n ≤ m) : RunsRule g m r at_ c c' ps :=
  fun tr => let ⟨tr', h'⟩ := h tr; ⟨tr', fun f hf => h' f (Nat.le_trans hnm hf)⟩
theorem FailsRule.mono {n m r at_ c} (h : FailsRule g n r at_ c) (hnm : n ≤ m) : FailsRule g m r at_ c :=
  fun tr => let ⟨tr', h'⟩ := h tr; ⟨tr', fun f hf => h' f (Nat.le_trans hnm hf)⟩
theorem SkipNoop.mono {n m at_ c} (h : SkipNoop g n at_ c) (hnm : n ≤ m) : SkipNoop g m at_ c :=
  fun tr => let ⟨tr', h'⟩ := h tr; ⟨tr', fun f hf => h' f (Nat.le_trans hnm hf)⟩

private theorem succ_of_pos {f n : Nat} (h : n + 1 ≤ f) : ∃ f', f = f' + 1 ∧ n ≤ f' := ⟨f - 1, by omega, by omega⟩

/-! ### terminals -/

theorem runs_str {sk s at_ c r} (h : matchStr s c.rest = some r) : Runs g 1 sk (.str s) at_ c ⟨c.pos + s.length, r⟩ [] := by
  intro tr; refine ⟨tr, fun f hf => ?_⟩
  obtain ⟨f', rfl, _⟩ := succ_of_pos hf
  simp only [eval, h]

theorem fails_str {sk s at_ c} (h : matchStr s c.rest = none) : Fails g 1 sk (.str s) at_ c := by
  intro tr; refine ⟨tr, fun f hf => ?_⟩
  obtain ⟨f', rfl, _⟩ := succ_of_pos hf
  simp only [eval, h]

theorem runs_range {sk lo hi at_ c d r} (h : c.rest = d :: r) (hd : lo ≤ d ∧ d ≤ hi) :
    Runs g 1 sk (.range lo hi) at_ c ⟨c.pos + 1, r⟩ [] := by
  intro tr; refine ⟨tr, fun f hf => ?_⟩
  obtain ⟨f', rfl, _⟩ := succ_of_pos hf
  simp only [eval, h, hd, and_self, if_true]

theorem fails_range {sk lo hi at_ c} (h : ∀ d r, c.rest = d :: r → ¬ (lo ≤ d ∧ d ≤ hi)) :
    Fails g 1 sk (.range lo hi) at_ c := by
  intro tr; refine ⟨tr, fun f hf => ?_⟩
  obtain ⟨f', rfl, _⟩ := succ_of_pos hf
  simp only [eval]
  split
  · rename_i d r hr
    simp [h d r hr]
  · rfl

/-! ### sequence, choice, repetition -/

theorem runs_seq {n a b at_ c c1 c2 p1 p3} (ha : Runs g n true a at_ c c1 p1)
    (hs : SkipNoop g n at_ c1) (hb : Runs g n true b at_ c1 c2 p3) :
    Runs g (n + 1) true (.seq a b) at_ c c2 (p1 ++ p3) := by
  intro tr
  obtain ⟨tr1, h1⟩ := ha tr
  obtain ⟨tr2, h2⟩ := hs tr1
  obtain ⟨tr3, h3⟩ := hb tr2
  refine ⟨tr3, fun f hf => ?_⟩
  obtain ⟨f', rfl, hf'⟩ := succ_of_pos hf
  simp only [eval, h1 f' (by omega), h2 f' (by omega), h3 f' (by omega), List.append_nil]

theorem runs_seq_nosk {n a b at_ c c1 c2 p1 p3} (ha : Runs g n false a at_ c c1 p1)
    (hb : Runs g n false b at_ c1 c2 p3) : Runs g (n + 2) false (.seq a b) at_ c c2 (p1 ++ p3) := by
  intro tr
  obtain ⟨tr1, h1⟩ := ha tr
  obtain ⟨tr3, h3⟩ := hb tr1
  refine ⟨tr3, fun f hf => ?_⟩
  obtain ⟨f', rfl, hf'⟩ := succ_of_pos hf
  have es : doSkip g f' false at_ .none tr1 c1 = (tr1, .ok c1 []) := by
    obtain ⟨f'', rfl, _⟩ := succ_of_pos (n := n) (f := f') (by omega)
    simp [doSkip]
  simp only [eval, h1 f' (by omega), es, h3 f' (by omega), List.append_nil]

theorem fails_seq_first {n sk a b at_ c} (ha : Fails g n sk a at_ c) : Fails g (n + 1) sk (.seq a b) at_ c := by
  intro tr
  obtain ⟨tr1, h1⟩ := ha tr
  refine ⟨tr1, fun f hf => ?_⟩
  obtain ⟨f', rfl, hf'⟩ := succ_of_pos hf
  simp only [eval, h1 f' hf']

theorem fails_seq_last {n a b at_ c c1 p1} (ha : Runs g n true a at_ c c1 p1)
    (hs : SkipNoop g n at_ c1) (hb : Fails g n true b at_ c1) : Fails g (n + 1) true (.seq a b) at_ c := by
  intro tr
  obtain ⟨tr1, h1⟩ := ha tr
  obtain ⟨tr2, h2⟩ := hs tr1
  obtain ⟨tr3, h3⟩ := hb tr2
  refine ⟨tr3, fun f hf => ?_⟩
  obtain ⟨f', rfl, hf'⟩ := succ_of_pos hf
  simp only [eval, h1 f' (by omega), h2 f' (by omega), h3 f' (by omega)]

theorem runs_choice_l {n sk a b at_ c c' ps} (ha : Runs g n sk a at_ c c' ps) : Runs g (n + 1) sk (.choice a b) at_ c c' ps := by
  intro tr
  obtain ⟨tr1, h1⟩ := ha tr
  refine ⟨tr1, fun f hf => ?_⟩
  obtain ⟨f', rfl, hf'⟩ := succ_of_pos hf
  simp only [eval, h1 f' hf']

theorem runs_choice_r {n sk a b at_ c c' ps} (ha : Fails g n sk a at_ c) (hb : Runs g n sk b at_ c c' ps) :
    Runs g (n + 1) sk (.choice a b) at_ c c' ps := by
  intro tr
  obtain ⟨tr1, h1⟩ := ha tr
  obtain ⟨tr2, h2⟩ := hb tr1
  refine ⟨tr2, fun f hf => ?_⟩
  obtain ⟨f', rfl, hf'⟩ := succ_of_pos hf
  simp only [eval, h1 f' (by omega), h2 f' (by omega)]

theorem fails_choice {n sk a b at_ c} (ha : Fails g n sk a at_ c) (hb : Fails g n sk b at_ c) :
    Fails g (n + 1) sk (.choice a b) at_ c := by
  intro tr
  obtain ⟨tr1, h1⟩ := ha tr
  obtain ⟨tr2, h2⟩ := hb tr1
  refine ⟨tr2, fun f hf => ?_⟩
  obtain ⟨f', rfl, hf'⟩ := succ_of_pos hf
  simp only [eval, h1 f' (by omega), h2 f' (by omega)]

theorem runs_star_nil {n a at_ c} (ha : Fails g n false a at_ c) : Runs g (n + 1) false (.star a) at_ c c [] := by
  intro tr
  obtain ⟨tr1, h1⟩ := ha tr
  refine ⟨tr1, fun f hf => ?_⟩
  obtain ⟨f', rfl, hf'⟩ := succ_of_pos hf
  simp only [eval, Bool.false_eq_true, if_false, h1 f' hf']

theorem runs_star_cons {n a at_ c c1 c' p1 p2} (ha : Runs g n false a at_ c c1 p1)
    (hr : Runs g n false (.star a) at_ c1 c' p2) : Runs g (n + 1) false (.star a) at_ c c' (p1 ++ p2) := by
  intro tr
  obtain ⟨tr1, h1⟩ := ha tr
  obtain ⟨tr2, h2⟩ := hr tr1
  refine ⟨tr2, fun f hf => ?_⟩
  obtain ⟨f', rfl, hf'⟩ := succ_of_pos hf
  simp only [eval, Bool.false_eq_true, if_false, h1 f' (by omega), h2 f' (by omega)]

/-! ### rule calls -/

theorem runs_call {n sk r at_ c c' ps} (h : RunsRule g n r at_ c c' ps) : Runs g (n + 1) sk (.call r) at_ c c' ps := by
  intro tr
  obtain ⟨tr1, h1⟩ := h tr
  refine ⟨tr1, fun f hf => ?_⟩
  obtain ⟨f', rfl, hf'⟩ := succ_of_pos hf
  simp only [eval, h1 f' hf']

theorem fails_call {n sk r at_ c} (h : FailsRule g n r at_ c) : Fails g (n + 1) sk (.call r) at_ c := by
  intro tr
  obtain ⟨tr1, h1⟩ := h tr
  refine ⟨tr1, fun f hf => ?_⟩
  obtain ⟨f', rfl, hf'⟩ := succ_of_pos hf
  simp only [eval, h1 f' hf']

/-- a non-special rule of kind normal / atomic / silent called outside lookahead in a non-atomic context -/
theorem runsRule_normal {n r body c c' ps} (hl : g.look r = some (.normal, body))
    (hsp : ¬ (g.ws = some r ∨ g.cm = some r)) (hb : Runs g n true body .nonAtomic c c' ps) :
    RunsRule g (n + 1) r .nonAtomic c c' [Pair.mk r c.pos c'.pos ps] := by
  intro tr
  obtain ⟨tr1, h1⟩ := hb { tr with steps := tr.steps + 1 }
  refine ⟨tr1, fun f hf => ?_⟩
  obtain ⟨f', rfl, hf'⟩ := succ_of_pos hf
  simp only [callRule, hl, hsp, if_false, h1 f' hf', ruleWrap]
  simp

theorem failsRule_normal {n r body c} (hl : g.look r = some (.normal, body))
    (hsp : ¬ (g.ws = some r ∨ g.cm = some r)) (hb : Fails g n true body .nonAtomic c) :
    FailsRule g (n + 1) r .nonAtomic c := by
  intro tr
  obtain ⟨tr1, h1⟩ := hb { tr with steps := tr.steps + 1 }
  refine ⟨track tr1 .nonAtomic c.pos, fun f hf => ?_⟩
  obtain ⟨f', rfl, hf'⟩ := succ_of_pos hf
  simp only [callRule, hl, hsp, if_false, h1 f' hf', ruleWrap]
  simp

theorem runsRule_atomic {n r body at_ c c' ps} (hl : g.look r = some (.atomic, body))
    (hb : Runs g n false body .atomic c c' ps) :
    RunsRule g (n + 1) r at_ c c' (if at_ ≠ .atomic then [Pair.mk r c.pos c'.pos ps] else ps) := by
  intro tr
  obtain ⟨tr1, h1⟩ := hb { tr with steps := tr.steps + 1 }
  refine ⟨tr1, fun f hf => ?_⟩
  obtain ⟨f', rfl, hf'⟩ := succ_of_pos hf
  simp only [callRule, hl, h1 f' hf', ruleWrap]
  simp

theorem failsRule_atomic {n r body at_ c} (hl : g.look r = some (.atomic, body))
    (hb : Fails g n false body .atomic c) : FailsRule g (n + 1) r at_ c := by
  intro tr
  obtain ⟨tr1, h1⟩ := hb { tr with steps := tr.steps + 1 }
  refine ⟨track tr1 at_ c.pos, fun f hf => ?_⟩
  obtain ⟨f', rfl, hf'⟩ := succ_of_pos hf
  simp only [callRule, hl, h1 f' hf', ruleWrap]
  simp

theorem runsRule_silent {n r body at_ c c' ps} (hl : g.look r = some (.silent, body))
    (hsp : ¬ (g.ws = some r ∨ g.cm = some r)) (hb : Runs g n true body at_ c c' ps) : RunsRule g (n + 1) r at_ c c' ps := by
  intro tr
  obtain ⟨tr1, h1⟩ := hb { tr with steps := tr.steps + 1 }
  refine ⟨tr1, fun f hf => ?_⟩
  obtain ⟨f', rfl, hf'⟩ := succ_of_pos hf
  simp only [callRule, hl, hsp, if_false, h1 f' hf']

theorem failsRule_silent {n r body at_ c} (hl : g.look r = some (.silent, body))
    (hsp : ¬ (g.ws = some r ∨ g.cm = some r)) (hb : Fails g n true body at_ c) : FailsRule g (n + 1) r at_ c := by
  intro tr
  obtain ⟨tr1, h1⟩ := hb { tr with steps := tr.steps + 1 }
  refine ⟨tr1, fun f hf => ?_⟩
  obtain ⟨f', rfl, hf'⟩ := succ_of_pos hf
  simp only [callRule, hl, hsp, if_false, h1 f' hf']

/-- the special silent rules (WHITESPACE / COMMENT): body generated atomically, run under Atomic -/
theorem failsRule_special {n r body at_ c} (hl : g.look r = some (.silent, body))
    (hsp : g.ws = some r ∨ g.cm = some r) (hb : Fails g n false body .atomic c) : FailsRule g (n + 1) r at_ c := by
  intro tr
  obtain ⟨tr1, h1⟩ := hb { tr with steps := tr.steps + 1 }
  refine ⟨tr1, fun f hf => ?_⟩
  obtain ⟨f', rfl, hf'⟩ := succ_of_pos hf
  simp only [callRule, hl, hsp, if_true, h1 f' hf']

/-- if WHITESPACE and COMMENT both fail at `c`, the implicit skip does nothing there -/
theorem skipNoop_of_fails {n w m c} (hw : g.ws = some w) (hm : g.cm = some m)
    (h1 : FailsRule g n w .nonAtomic c) (h2 : FailsRule g n m .nonAtomic c) :
    SkipNoop g (n + 8) .nonAtomic c := by
  have hW : Runs g (n + 3) false (.star (.call w)) .nonAtomic c c [] := (runs_star_nil (fails_call h1)).mono (by omega)
  have hC : Runs g (n + 3) false (.star (.seq (.call m) (.star (.call w)))) .nonAtomic c c [] :=
    runs_star_nil (fails_seq_first (fails_call h2))
  have hS := runs_seq_nosk hW hC
  intro tr
  obtain ⟨tr1, h⟩ := hS tr
  refine ⟨tr1, fun f hf => ?_⟩
  obtain ⟨f', rfl, hf'⟩ := succ_of_pos (n := n + 7) hf
  simp only [doSkip, and_self, if_true, G.skipExpr, hw, hm]
  simpa using h f' (by omega)

end NitroVerif.Peg
