/-
C18 composed (helper lemmas): against a VALID schema (C03's `SchemaValid`: argument / input-field types are defined, union
members are object types) every position `check_operation_document` reports is a position of a node of the operation
document itself — the schema's own positions never occur (`checkOp_positions_doc`).
-/
import NitroVerif.Lemmas.CliComposedPosDefs
import NitroVerif.Lemmas.CheckOpCompleteSites
namespace NitroVerif.CliComposed
open NitroVerif NitroVerif.Gql NitroVerif.CheckCommon NitroVerif.CheckOp NitroVerif.Valid

theorem baseNamed_unwrapped (t : GType) : (baseNamed t).1 = t.unwrapped := by
  induction t with
  | named n p => rfl
  | list t p ih => simpa [baseNamed, GType.unwrapped] using ih
  | nonNull t ih => simpa [baseNamed, GType.unwrapped] using ih

theorem tOk_of_inputTy {S : Schema} {Q : Pos → Prop} {t : GType} (h : InputTy S t) : TOk S Q t := by
  obtain ⟨td, htd, _⟩ := h
  left
  rw [baseNamed_unwrapped]
  exact ⟨td, htd⟩

/-- a schema without faults is fine for every `Q` -/
theorem schemaQ_of_facts {S : Schema} (h : SchemaFacts S) (Q : Pos → Prop) : SchemaQ S Q where
  inputs hn _ f hf := tOk_of_inputTy (h.inputTy _ (List.mem_of_find?_eq_some hn) f hf)
  fieldArgs hn _ fd hfd a ha := tOk_of_inputTy ((h.fieldTy _ (List.mem_of_find?_eq_some hn) fd hfd).2 a ha)
  dirArgs hn a ha := tOk_of_inputTy (h.dirArgs _ (List.mem_of_find?_eq_some hn) a ha)
  members hn _ m hm := Or.inl (h.members _ (List.mem_of_find?_eq_some hn) m hm)

theorem schemaQ_of_valid {S : Schema} (h : SchemaValid S) (Q : Pos → Prop) : SchemaQ S Q :=
  schemaQ_of_facts (schemaFacts_of_valid h) Q

/-- against a valid schema, every position the operation checker reports is a position of a node of the operation
    document -/
theorem checkOp_positions_doc (S : Schema) (hS : SchemaValid S) (D : Doc) : ∀ d ∈ checkOp S D, d.2 ∈ Doc.positions D :=
  checkOp_Q (Q := fun p => p ∈ Doc.positions D) (schemaQ_of_valid hS _) (fun _ hp => hp)

end NitroVerif.CliComposed
