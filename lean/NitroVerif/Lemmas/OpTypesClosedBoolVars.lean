/-
C01/C02, second stage, fuels (part 2): `get_boolean_variables` within the fuel the model really uses.

The work list of `boolVarsGo` visits every selection it reaches ONCE (a fragment is entered only if it is not in `seen`),
so on a document without fragment cycles it terminates within the number of selections of the document — whereas the
bound of the first stage (`boolVarsGo_ok`: the EXPANDED size `eszL`, which counts a fragment body once per spread) can be
exponentially larger.  Potential: the work-list weight of `L` plus the weights of the bodies of the fragment definitions
not yet seen and not excluded, where the excluded name is the fragment the selection set itself lies in (which it cannot
reach: `acyclic`).
-/
import NitroVerif.Lemmas.OpTypesClosedReach
namespace NitroVerif.OpTypes.Closed
open NitroVerif.Gql NitroVerif.OpTypes NitroVerif.OpTypes.Ref

mutual
/-- work-list weight: a field counts one (its sub-selection is not entered), an inline fragment one plus its body -/
def wS : Selection → Nat
  | .field .. => 1
  | .spread .. => 1
  | .inline _ _ ss _ => 1 + wL ss
def wL : List Selection → Nat
  | [] => 0
  | s :: r => wS s + wL r
end

theorem wL_append : ∀ (a b : List Selection), wL (a ++ b) = wL a + wL b
  | [], b => by simp [wL]
  | s :: a, b => by simp only [List.cons_append, wL, wL_append a b]; omega

mutual
theorem wS_le : ∀ (s : Selection), wS s ≤ selSize s
  | .field _ _ _ _ _ none => by simp [wS, selSize]
  | .field _ _ _ _ _ (some ss) => by simp [wS, selSize]
  | .spread .. => by simp [wS, selSize]
  | .inline _ _ ss _ => by have := wL_le ss; simp only [wS, selSize]; omega
theorem wL_le : ∀ (L : List Selection), wL L ≤ selSizeList L
  | [] => by simp [wL, selSizeList]
  | s :: r => by have := wS_le s; have := wL_le r; simp only [wL, selSizeList]; omega
end

theorem wS_pos (s : Selection) : 1 ≤ wS s := by
  cases s <;> simp [wS]

/-- weight of a fragment body in the pool -/
def bodyW (f : FragmentDef) : Nat := wL f.sel

theorem bodyW_le (f : FragmentDef) : bodyW f ≤ selSizeList f.sel + 1 := by
  have := wL_le f.sel; unfold bodyW; omega

/-- the printer's fragment map returns definitions of the document -/
theorem fragsOf_mem {D : Doc} {n : Name} {f : FragmentDef} (h : OpTypes.fragsOf D n = some f) :
    ExecDef.frag f ∈ D ∧ f.name = n := by
  rw [Stages.opFragsOf_eq_fragMap] at h
  obtain ⟨h1, h2⟩ := CheckOp.fragMap_mem h
  simp only [CheckOp.fragsOf, List.mem_filterMap] at h1
  obtain ⟨x, hx, hxf⟩ := h1
  cases x <;> simp at hxf
  subst hxf
  exact ⟨hx, h2⟩

/-- **`get_boolean_variables` terminates within the potential** -/
theorem boolVarsGo_tight (D : Doc) (R : Nat) (X : Name → Bool) :
    ∀ (n : Nat) (L : List Selection) (seen acc : List Name),
      (∀ s ∈ L, fitsS (OpTypes.fragsOf D) R s = true) → (∀ nm, X nm = true → ¬ Rch (OpTypes.fragsOf D) L nm) →
      wL L + pool bodyW D (fun m => seen.contains m || X m) ≤ n →
      ∃ r, boolVarsGo (OpTypes.fragsOf D) n L seen acc = .ok r
  | 0, [], _, acc, _, _, _ => ⟨acc, by simp [boolVarsGo]⟩
  | 0, s :: rest, _, _, _, _, hn => by
    have := wS_pos s; simp only [wL] at hn; omega
  | n + 1, [], _, acc, _, _, _ => ⟨acc, by simp [boolVarsGo]⟩
  | n + 1, s :: rest, seen, acc, hfit, hav, hn => by
    have hrest : ∀ s' ∈ rest, fitsS (OpTypes.fragsOf D) R s' = true :=
      fun s' hs' => hfit s' (List.mem_cons_of_mem _ hs')
    have havrest : ∀ nm, X nm = true → ¬ Rch (OpTypes.fragsOf D) rest nm :=
      fun nm hx hr => hav nm hx (rch_mono (fun s hs => List.mem_cons_of_mem _ hs) hr)
    have hs := hfit s (by simp)
    simp only [wL] at hn
    simp only [boolVarsGo]
    cases s with
    | field alias name p args ds sub =>
      simp only [wS] at hn
      exact boolVarsGo_tight D R X n rest seen _ hrest havrest (by omega)
    | spread nm np ds p =>
      simp only [wS] at hn
      simp only
      by_cases hseen : seen.contains nm = true
      · simp only [hseen, if_true]
        exact boolVarsGo_tight D R X n rest seen _ hrest havrest (by omega)
      · simp only [hseen, Bool.false_eq_true, if_false]
        cases R with
        | zero => simp [fitsS] at hs
        | succ R' =>
          simp only [fitsS] at hs
          cases hF : OpTypes.fragsOf D nm with
          | none => simp [hF] at hs
          | some f =>
            simp only [hF] at hs ⊢
            obtain ⟨hfD, hfn⟩ := fragsOf_mem hF
            have hXnm : X nm = false := by
              cases hx : X nm with
              | false => rfl
              | true => exact absurd (Rch.here (List.mem_cons_self)) (hav nm hx)
            have hex : (seen.contains f.name || X f.name) = false := by
              have hs' : seen.contains nm = false := by simpa using hseen
              rw [hfn, hs', hXnm]; rfl
            have hpool := pool_exclude (g := bodyW) (excl := fun m => seen.contains m || X m)
              (excl' := fun m => (seen ++ [nm]).contains m || X m) (f := f) hex
              (by
                intro m
                have h1 : (seen ++ [nm]).contains m = (seen.contains m || m == nm) := by
                  simp only [List.contains_eq_mem, List.mem_append, List.mem_singleton, Bool.decide_or]
                  congr 1
                simp only [h1, hfn]
                cases seen.contains m <;> cases X m <;> cases (m == nm) <;> rfl) hfD
            refine boolVarsGo_tight D (R' + 1) X n (f.sel ++ rest) (seen ++ [nm]) _ ?_ ?_ ?_
            · intro s' hs'
              rcases List.mem_append.1 hs' with h | h
              · exact fitsS_le (Nat.le_succ _) (List.all_eq_true.1 hs s' h)
              · exact hrest s' h
            · intro nm' hx hr
              rcases rch_append hr with h | h
              · exact hav nm' hx (.spread List.mem_cons_self hF h)
              · exact havrest nm' hx h
            · rw [wL_append]
              have hb : bodyW f = wL f.sel := rfl
              omega
    | inline cond ds ss p =>
      simp only [wS] at hn
      simp only
      cases R with
      | zero => simp [fitsS] at hs
      | succ R' =>
        simp only [fitsS] at hs
        refine boolVarsGo_tight D (R' + 1) X n (ss ++ rest) seen _ ?_ ?_ ?_
        · intro s' hs'
          rcases List.mem_append.1 hs' with h | h
          · exact fitsS_le (Nat.le_succ _) (List.all_eq_true.1 hs s' h)
          · exact hrest s' h
        · intro nm' hx hr
          rcases rch_append hr with h | h
          · exact hav nm' hx (.inline List.mem_cons_self h)
          · exact havrest nm' hx h
        · rw [wL_append]; omega

/-- the selection set of a definition -/
def selOf : ExecDef → List Selection
  | .op o => o.sel
  | .frag f => f.sel
  | .imp _ => []

/-- the selection sets `get_type_for_selection_set` is called on: those nested in a definition of the document -/
def InDoc (D : Doc) (ss : List Selection) : Prop :=
  ∃ x ∈ D, (∀ i, x ≠ .imp i) ∧ Sub (selOf x) ss

/-- every definition's selection set fits the nesting bound `R` (no fragment cycle, spreads defined) -/
def FitsDoc (D : Doc) (R : Nat) : Prop :=
  ∀ x ∈ D, ∀ s ∈ selOf x, fitsS (OpTypes.fragsOf D) R s = true

/-- a fragment definition is the one its name denotes (true of all when fragment names are unique) -/
def FragsSelf (D : Doc) : Prop := ∀ f, ExecDef.frag f ∈ D → OpTypes.fragsOf D f.name = some f

/-- **`get_boolean_variables` succeeds with the model's own auxiliary fuel** (`mfuelFor D = docSize D + 64`; `docSize D`
    already suffices) on every selection set of a document without fragment cycles -/
theorem boolVars_inDoc {D : Doc} {R : Nat} (hfit : FitsDoc D R) (hself : FragsSelf D) {ss : List Selection}
    (h : InDoc D ss) {mfuel : Nat} (hm : docSize D ≤ mfuel) : ∃ vars, boolVars (OpTypes.fragsOf D) mfuel ss = .ok vars := by
  obtain ⟨x, hx, hni, hsub⟩ := h
  have hfss := sub_fits hsub (hfit x hx)
  have hsz := sub_size hsub
  have hw := wL_le ss
  rw [docSize_eq] at hm
  have key : ∀ (X : Name → Bool), (∀ nm, X nm = true → ¬ Rch (OpTypes.fragsOf D) ss nm) →
      pool bodyW D X + dsz x ≤ tot D → ∃ vars, boolVars (OpTypes.fragsOf D) mfuel ss = .ok vars := by
    intro X hav hp
    have hd : selSizeList (selOf x) + 1 = dsz x := by
      cases x with
      | op o => rfl
      | frag f => rfl
      | imp i => exact absurd rfl (hni i)
    obtain ⟨r, hr⟩ := boolVarsGo_tight D R X mfuel ss [] [] hfss hav (by
      have : pool bodyW D (fun m => ([] : List Name).contains m || X m) = pool bodyW D X := by
        congr 1
      rw [this]; omega)
    exact ⟨r.eraseDups, by simp [boolVars, hr, Except.map]⟩
  cases x with
  | imp i => exact absurd rfl (hni i)
  | op o =>
    refine key (fun _ => false) (fun _ h => by cases h) ?_
    exact pool_add_le_tot bodyW_le _ (x := .op o) trivial hx
  | frag f =>
    refine key (fun m => m == f.name) ?_ ?_
    · intro nm hnm hr
      have : nm = f.name := by simpa using hnm
      subst this
      exact acyclic (hself f hx) R (hfit _ hx) (sub_rch hsub hr)
    · exact pool_add_le_tot bodyW_le _ (x := .frag f) (by simp) hx

end NitroVerif.OpTypes.Closed
