/-
C01/C02 refinement, model side, part 3: the field lists of `get_fields_for_selection_set` (`fieldsFor`) under a branch
list exactly the occurrences CollectFields collects (`FlatRel` — skipped ones as `empty`), and the tree
`get_type_for_selection_set` (`implTree`) builds is related (`RelTree`) to its selection set.
-/
import NitroVerif.Lemmas.OpTypesRefMerge
namespace NitroVerif.OpTypes.Ref
open NitroVerif.Gql NitroVerif.Ts NitroVerif.Exec NitroVerif.OpTypes

/-! ### `check_skip_directive` under any σ that agrees with the branch's assignment -/

theorem dirIf_agree {vars : List (Name × Bool)} {σ : Sigma} {d : Directive} {ds : List Directive} {b : Bool}
    (h : checkSkip vars (d :: ds) = .ok b) (hsi : (d.name == "skip") = true ∨ (d.name == "include") = true)
    (hag : Agree σ vars) : dirIf σ d = dirIf (sigmaOf vars) d := by
  unfold dirIf
  cases hf : d.args.find? (·.1 == "if") with
  | none => rfl
  | some a =>
    obtain ⟨an, ap, av⟩ := a
    cases av with
    | var v p =>
      simp only
      have hfound : ∃ k b', vars.find? (·.1 == v) = some (k, b') := by
        unfold checkSkip at h
        simp only [ifArg, hf, Option.map_some] at h
        cases hv : vars.find? (·.1 == v) with
        | some x => exact ⟨x.1, x.2, rfl⟩
        | none =>
          rcases hsi with hs | hi
          · simp [hs, hv] at h
          · by_cases hs : (d.name == "skip") = true
            · simp [hs, hv] at h
            · simp [hs, hi, hv] at h
      obtain ⟨k, b', hv⟩ := hfound
      obtain ⟨hm, hk⟩ := find_key_mem hv
      have := hag (k, b') hm
      simp only at this
      rw [sigmaOf_eq, hv, ← hk, this]
    | _ => rfl

theorem headOk_agree {vars : List (Name × Bool)} {σ : Sigma} {d : Directive} {ds : List Directive} {b : Bool}
    (h : checkSkip vars (d :: ds) = .ok b) (hag : Agree σ vars) : headOk σ d = headOk (sigmaOf vars) d := by
  unfold headOk
  by_cases hs : (d.name == "skip") = true
  · simp only [hs, ↓reduceIte, dirIf_agree h (Or.inl hs) hag]
  · by_cases hi : (d.name == "include") = true
    · simp only [hs, hi, ↓reduceIte, dirIf_agree h (Or.inr hi) hag]
    · simp [hs, hi]

theorem included_agree {vars : List (Name × Bool)} {σ : Sigma} (hag : Agree σ vars) : ∀ (ds : List Directive) (b : Bool),
    checkSkip vars ds = .ok b → included σ ds = included (sigmaOf vars) ds
  | [], _, _ => rfl
  | d :: ds, b, h => by
    rw [included_cons, included_cons, headOk_agree h hag]
    rcases checkSkip_step vars d ds b h with ⟨h1, _⟩ | ⟨_, h2⟩
    · simp [h1]
    · rw [included_agree hag ds b h2]

/-- `check_skip_directive` decides the specification's test under EVERY σ that agrees with the branch's assignment -/
theorem checkSkip_agree {vars : List (Name × Bool)} {σ : Sigma} {ds : List Directive} {b : Bool}
    (h : checkSkip vars ds = .ok b) (hag : Agree σ vars) : b = !included σ ds := by
  rw [included_agree hag ds b h]; exact checkSkip_spec vars ds b h

/-! ### field lists -/

def Sb1 (ss : List Selection) : SSet := fun s => s = ss

theorem pu_sb1 {c : Ctx} {ss : List Selection} {o : Name} {inc : Inc} {t : FT} :
    PU c (Sb1 ss) o inc t ↔ InFlat c.S c.F o inc [] ss t := by
  simp only [PU, Sb1]
  constructor
  · rintro ⟨s, rfl, h⟩; exact h
  · intro h; exact ⟨ss, rfl, h⟩

/-- the tree field printed for a collected (not skipped) occurrence -/
def FieldOf (c : Ctx) (o : Name) (t : FT) (f : SField) : Prop :=
  if (t.name == "__typename") = true then f = .leaf t.key (.named "String" { builtin := true }) true
  else ∃ fd, c.S.field? o t.name = some fd ∧
    match t.sub with
    | none => f = .leaf t.key fd.ty false
    | some s => ∃ T, f = .object t.key T ∧ RelTree c T fd.ty (Sb1 s)

abbrev Entry := (FT × Bool) × Tagged

def EntryOk (c : Ctx) (o : Name) (p : Entry) : Prop :=
  p.2.1 = p.1.1.aliased ∧ if p.1.2 = true then p.2.2 = .empty p.1.1.key else FieldOf c o p.1.1 p.2.2

def Good (c : Ctx) (o : Name) (vars : List (Name × Bool)) (ss : List Selection) (p : Entry) : Prop :=
  EntryOk c o p ∧ InFlat c.S c.F o allInc [] ss p.1.1 ∧
    (p.1.2 = false → ∀ σ, Agree σ vars → InFlat c.S c.F o (included σ) [] ss p.1.1)

/-- the tagged field list `L` lists the occurrences collected from `ss` (skipped ones as `empty`), and all of them -/
def FlatRel (c : Ctx) (o : Name) (vars : List (Name × Bool)) (ss : List Selection) (L : List Tagged) : Prop :=
  ∃ Lp : List Entry, L = Lp.map (·.2) ∧ (∀ p ∈ Lp, Good c o vars ss p) ∧
    ∀ σ, Agree σ vars → ∀ t, InFlat c.S c.F o (included σ) [] ss t → ∃ p ∈ Lp, p.1 = (t, false)

/-- the part of the list that comes from one selection (complete only if `want`) -/
def FlatPart (c : Ctx) (o : Name) (vars : List (Name × Bool)) (want : Bool) (s : Selection) (l : List Tagged) : Prop :=
  ∃ Lp : List Entry, l = Lp.map (·.2) ∧ (∀ p ∈ Lp, Good c o vars [s] p) ∧
    (want = true → ∀ σ, Agree σ vars → ∀ t, InFlat c.S c.F o (included σ) [] [s] t → ∃ p ∈ Lp, p.1 = (t, false))

theorem inFlat_cons_iff {S : Schema} {F : Name → Option FragmentDef} {o : Name} {inc : Inc} {V : List Name}
    {s : Selection} {rest : List Selection} {t : FT} :
    InFlat S F o inc V (s :: rest) t ↔ InFlat S F o inc V [s] t ∨ InFlat S F o inc V rest t := by
  have := inFlat_append (S := S) (F := F) (o := o) (inc := inc) (V := V) (a := [s]) (b := rest) (t := t)
  simpa using this

theorem good_head {c : Ctx} {o : Name} {vars : List (Name × Bool)} {s : Selection} {rest : List Selection} {p : Entry}
    (h : Good c o vars [s] p) : Good c o vars (s :: rest) p :=
  ⟨h.1, inFlat_cons_iff.2 (Or.inl h.2.1), fun hs σ hag => inFlat_cons_iff.2 (Or.inl (h.2.2 hs σ hag))⟩

theorem good_tail {c : Ctx} {o : Name} {vars : List (Name × Bool)} {s : Selection} {rest : List Selection} {p : Entry}
    (h : Good c o vars rest p) : Good c o vars (s :: rest) p :=
  ⟨h.1, .tail h.2.1, fun hs σ hag => .tail (h.2.2 hs σ hag)⟩

theorem flat_concat {c : Ctx} {o : Name} {vars : List (Name × Bool)} {want : Selection → Bool} :
    ∀ {ss : List Selection} {ls : List (List Tagged)}, All2 (fun s l => FlatPart c o vars (want s) s l) ss ls →
    ∃ Lp : List Entry, ls.flatten = Lp.map (·.2) ∧ (∀ p ∈ Lp, Good c o vars ss p) ∧
      ∀ σ, Agree σ vars → ∀ s ∈ ss, want s = true → ∀ t, InFlat c.S c.F o (included σ) [] [s] t →
        ∃ p ∈ Lp, p.1 = (t, false)
  | _, _, .nil => by
    refine ⟨[], rfl, ?_, ?_⟩
    · intro p h; cases h
    · intro σ _ s h; cases h
  | _, _, @All2.cons _ _ _ s l ss ls ⟨Lp1, h1, h2, h3⟩ htl => by
    obtain ⟨Lp2, h4, h5, h6⟩ := flat_concat htl
    refine ⟨Lp1 ++ Lp2, by simp [h1, h4], ?_, ?_⟩
    · intro p hp
      rcases List.mem_append.1 hp with hp | hp
      · exact good_head (h2 p hp)
      · exact good_tail (h5 p hp)
    · intro σ hag s' hs' hw t ht
      rcases List.mem_cons.1 hs' with rfl | hs'
      · obtain ⟨p, hp, hpe⟩ := h3 hw σ hag t ht
        exact ⟨p, List.mem_append.2 (Or.inl hp), hpe⟩
      · obtain ⟨p, hp, hpe⟩ := h6 σ hag s' hs' hw t ht
        exact ⟨p, List.mem_append.2 (Or.inr hp), hpe⟩

theorem inFlat_exists_mem {S : Schema} {F : Name → Option FragmentDef} {o : Name} {inc : Inc} {V : List Name} {t : FT} :
    ∀ {ss : List Selection}, InFlat S F o inc V ss t → ∃ s ∈ ss, InFlat S F o inc V [s] t
  | [], h => absurd h inFlat_nil
  | s :: rest, h => by
    rcases inFlat_cons_iff.1 h with h | h
    · exact ⟨s, by simp, h⟩
    · obtain ⟨s', hs', h'⟩ := inFlat_exists_mem h
      exact ⟨s', List.mem_cons_of_mem _ hs', h'⟩

def isFieldSel : Selection → Bool
  | .field .. => true
  | _ => false

theorem all2_map_right {α β γ : Type} {R : α → γ → Prop} {f : β → γ} : ∀ {l : List α} {r : List β},
    All2 (fun a b => R a (f b)) l r → All2 R l (r.map f)
  | _, _, .nil => .nil
  | _, _, .cons h t => .cons h (all2_map_right t)

theorem all2_imp {α β : Type} {R R' : α → β → Prop} : ∀ {l : List α} {r : List β},
    All2 R l r → (∀ a b, a ∈ l → R a b → R' a b) → All2 R' l r
  | _, _, .nil, _ => .nil
  | _, _, .cons h t, hi => .cons (hi _ _ (by simp) h) (all2_imp t fun a b ha => hi a b (List.mem_cons_of_mem _ ha))

theorem filterMap_id_eq_flatten {α : Type} : ∀ (rs : List (Option α)), rs.filterMap id = (rs.map Option.toList).flatten
  | [] => rfl
  | none :: rs => by simp [filterMap_id_eq_flatten rs]
  | some a :: rs => by simp [filterMap_id_eq_flatten rs]

/-! ### the two closures of `get_fields_for_selection_set`, named -/

/-- the `filter_map` closure (direct fields) -/
def simpleOf (obj : TypeDef) (vars : List (Name × Bool)) (rec : GType → List Selection → Except Panic SelTree) :
    Selection → Except Panic (Option Tagged)
  | .field alias name _ _ dirs sub => do
    let key := match alias with | some (a, _) => a | none => name
    let skipped ← checkSkip vars dirs
    let f ← fieldTree obj key name skipped sub rec
    .ok (some (isAliased alias name, f))
  | _ => .ok none

/-- the `flat_map` closure (fragment contents) -/
def fragOf (S : Schema) (F : Frags) (cnd : Cond) (recF : List Selection → Except Panic (List Tagged)) :
    Selection → Except Panic (List Tagged)
  | .field .. => .ok []
  | .spread n _ dirs _ =>
    match F n with
    | none => .error .typeSystemError
    | some fd => do
      if ← fragmentApplies S cnd.obj fd.cond then
        let fs ← recF fd.sel
        if ← checkSkip cnd.vars dirs then .ok (toEmpty fs) else .ok fs
      else .ok []
  | .inline none dirs sub _ => do
    let fs ← recF sub
    if ← checkSkip cnd.vars dirs then .ok (toEmpty fs) else .ok fs
  | .inline (some (cond, _)) dirs sub _ => do
    if ← fragmentApplies S cnd.obj cond then
      let fs ← recF sub
      if ← checkSkip cnd.vars dirs then .ok (toEmpty fs) else .ok fs
    else .ok []

theorem fieldsFor_succ (S : Schema) (F : Frags) (mfuel fuel : Nat) (cnd : Cond) (ss : List Selection) :
    fieldsFor S F mfuel (fuel + 1) cnd ss = (do
      let obj ← match S.typeDef? cnd.obj.name with
        | some t => (.ok t : Except Panic TypeDef)
        | none => .error .typeSystemError
      let simple ← ss.filterMapM (simpleOf obj cnd.vars (fun ty sub => implTree S F mfuel fuel ty sub))
      let frags ← ss.mapM (fragOf S F cnd (fun sub => fieldsFor S F mfuel fuel cnd sub))
      .ok (simple ++ frags.flatten)) := by
  rw [fieldsFor]
  rfl

theorem inFlat_of_mem {S : Schema} {F : Name → Option FragmentDef} {o : Name} {inc : Inc} {V : List Name} {t : FT}
    {s : Selection} : ∀ {ss : List Selection}, s ∈ ss → InFlat S F o inc V [s] t → InFlat S F o inc V ss t
  | [], h, _ => by cases h
  | s0 :: rest, h, ht => by
    rcases List.mem_cons.1 h with rfl | h
    · exact inFlat_cons_iff.2 (Or.inl ht)
    · exact inFlat_cons_iff.2 (Or.inr (inFlat_of_mem h ht))

/-- sub-selections of the collected fields are coherent at every depth -/
def SubCoh (c : Ctx) (o : Name) (ss : List Selection) : Prop :=
  ∀ t fd s, InFlat c.S c.F o allInc [] ss t → t.sub = some s → c.S.field? o t.name = some fd →
    ∀ d, Coh c d (Sb1 s) fd.ty.unwrapped

def ImplStmt (c : Ctx) (mfuel fuel : Nat) : Prop :=
  ∀ ty ss T, implTree c.S c.F mfuel fuel ty ss = .ok T → (∀ d, Coh c d (Sb1 ss) ty.unwrapped) →
    RelTree c T ty (Sb1 ss)

def FFStmt (c : Ctx) (mfuel fuel : Nat) : Prop :=
  ∀ cnd ss L, fieldsFor c.S c.F mfuel fuel cnd ss = .ok L → c.S.typeDef? cnd.obj.name = some cnd.obj →
    SubCoh c cnd.obj.name ss → FlatRel c cnd.obj.name cnd.vars ss L

theorem fieldOf_name {c : Ctx} {o : Name} {t : FT} {f : SField} (h : FieldOf c o t f) :
    f.name = t.key ∧ f.isEmpty = false := by
  unfold FieldOf at h
  split at h
  · subst h; exact ⟨rfl, rfl⟩
  · obtain ⟨fd, _, h⟩ := h
    split at h
    · subst h; exact ⟨rfl, rfl⟩
    · obtain ⟨T, rfl, _⟩ := h; exact ⟨rfl, rfl⟩

theorem entryOk_name {c : Ctx} {o : Name} {p : Entry} (h : EntryOk c o p) : p.2.2.name = p.1.1.key := by
  obtain ⟨_, h⟩ := h
  split at h
  · rw [h]; rfl
  · exact (fieldOf_name h).1

section
variable {c : Ctx} {mfuel fuel : Nat}

theorem fieldTree_fieldOf (HI : ImplStmt c mfuel fuel) {o : Name} {obj : TypeDef} (hobj : c.S.typeDef? o = some obj)
    {key name : Name} {al : Bool} {sub : Option (List Selection)} {f : SField}
    (h : fieldTree obj key name false sub (fun ty s => implTree c.S c.F mfuel fuel ty s) = .ok f)
    (hcoh : ∀ fd s, sub = some s → c.S.field? o name = some fd → ∀ d, Coh c d (Sb1 s) fd.ty.unwrapped) :
    FieldOf c o ⟨key, al, name, sub⟩ f := by
  unfold fieldTree at h
  unfold FieldOf
  simp only [Bool.false_eq_true, ↓reduceIte] at h ⊢
  by_cases htn : (name == "__typename") = true
  · simp only [htn, ↓reduceIte] at h ⊢
    cases h; rfl
  · simp only [htn, Bool.false_eq_true, ↓reduceIte] at h ⊢
    have hfield : c.S.field? o name = obj.fields.find? (·.name == name) := by
      simp [Schema.field?, Schema.fieldsOf, hobj]
    unfold directField? at h
    cases hf : obj.fields.find? (·.name == name) with
    | none => simp [hf, htn] at h
    | some fd =>
      simp only [hf] at h
      refine ⟨fd, by rw [hfield, hf], ?_⟩
      cases sub with
      | none => simp only at h ⊢; cases h; rfl
      | some s =>
        simp only [bind, Except.bind] at h ⊢
        cases hT : implTree c.S c.F mfuel fuel fd.ty s with
        | error e => simp [hT] at h
        | ok T =>
          simp only [hT] at h; cases h
          exact ⟨T, rfl, HI fd.ty s T hT (hcoh fd s rfl (by rw [hfield, hf]))⟩

theorem simpleOf_field (obj : TypeDef) (vars : List (Name × Bool)) (rec : GType → List Selection → Except Panic SelTree)
    (alias : Option (Name × Pos)) (name : Name) (np : Pos) (args : List Arg) (dirs : List Directive)
    (sub : Option (List Selection)) :
    simpleOf obj vars rec (.field alias name np args dirs sub) = (do
      let skipped ← checkSkip vars dirs
      let f ← fieldTree obj (keyOf alias name) name skipped sub rec
      .ok (some (isAliased alias name, f))) := by
  cases alias with
  | none => rfl
  | some a => cases a; rfl

theorem flatPart_nil_false {c : Ctx} {o : Name} {vars : List (Name × Bool)} {s : Selection} :
    FlatPart c o vars false s [] := by
  refine ⟨[], rfl, ?_, ?_⟩
  · intro p hp; cases hp
  · intro h; cases h

theorem simple_spec (HI : ImplStmt c mfuel fuel) {o : Name} {obj : TypeDef} (hobj : c.S.typeDef? o = some obj)
    {vars : List (Name × Bool)} {s : Selection} {r : Option Tagged}
    (h : simpleOf obj vars (fun ty sub => implTree c.S c.F mfuel fuel ty sub) s = .ok r)
    (hcoh : SubCoh c o [s]) : FlatPart c o vars (isFieldSel s) s r.toList := by
  cases s with
  | field alias name np args dirs sub =>
    rw [simpleOf_field] at h
    simp only [bind, Except.bind] at h
    cases hsk : checkSkip vars dirs with
    | error e => simp [hsk] at h
    | ok sk =>
      simp only [hsk] at h
      cases hft : fieldTree obj (keyOf alias name) name sk sub
          (fun ty sub => implTree c.S c.F mfuel fuel ty sub) with
      | error e => simp [hft] at h
      | ok f =>
        simp only [hft] at h; cases h
        let t : FT := ⟨keyOf alias name, isAliased alias name, name, sub⟩
        have hin : ∀ inc : Inc, inc dirs = true →
            InFlat c.S c.F o inc [] [.field alias name np args dirs sub] t := fun inc hi => .field hi
        refine ⟨[((t, sk), (isAliased alias name, f))], rfl, ?_, ?_⟩
        · intro p hp
          simp only [List.mem_singleton] at hp; subst hp
          refine ⟨⟨rfl, ?_⟩, hin allInc rfl, ?_⟩
          · cases sk with
            | true =>
              simp only [↓reduceIte]
              unfold fieldTree at hft
              simp only [↓reduceIte] at hft
              cases hft; rfl
            | false =>
              simp only [Bool.false_eq_true, ↓reduceIte]
              refine fieldTree_fieldOf HI hobj hft ?_
              intro fd s hs hfd d
              exact hcoh t fd s (hin allInc rfl) hs hfd d
          · intro hs σ hag
            simp only at hs; subst hs
            have := checkSkip_agree hsk hag
            exact hin _ (by simpa using this)
        · intro _ σ hag t' ht'
          refine ⟨((t, sk), (isAliased alias name, f)), by simp, ?_⟩
          cases ht' with
          | field hi =>
            have := checkSkip_agree hsk hag
            rw [hi] at this
            simp only [Bool.not_true] at this
            subst this; rfl
          | tail hr => exact absurd hr inFlat_nil
  | spread n np ds p =>
    simp only [simpleOf] at h; cases h
    exact flatPart_nil_false
  | inline cnd ds sub p =>
    simp only [simpleOf] at h; cases h
    exact flatPart_nil_false

/-- the contents of a fragment, kept or blanked by the fragment's own directives -/
theorem wrap_spec {o : Name} {vars : List (Name × Bool)} {s : Selection} {sub : List Selection} {dirs : List Directive}
    {fs : List Tagged} {sk : Bool} (hfs : FlatRel c o vars sub fs) (hsk : checkSkip vars dirs = .ok sk)
    (hemb : ∀ inc : Inc, ∀ t, inc dirs = true → InFlat c.S c.F o inc [] sub t → InFlat c.S c.F o inc [] [s] t)
    (hinv : ∀ inc : Inc, ∀ t, InFlat c.S c.F o inc [] [s] t → inc dirs = true ∧ InFlat c.S c.F o inc [] sub t) :
    FlatPart c o vars true s (if sk = true then toEmpty fs else fs) := by
  obtain ⟨Lp, rfl, hgood, hcomp⟩ := hfs
  cases sk with
  | true =>
    simp only [↓reduceIte]
    refine ⟨Lp.map fun p => ((p.1.1, true), (p.2.1, .empty p.2.2.name)), ?_, ?_, ?_⟩
    · simp [toEmpty, List.map_map, Function.comp_def]
    · intro p hp
      obtain ⟨q, hq, rfl⟩ := List.mem_map.1 hp
      obtain ⟨hok, hall, _⟩ := hgood q hq
      refine ⟨⟨hok.1, ?_⟩, hemb allInc _ rfl hall, fun h => by simp at h⟩
      simp only [↓reduceIte]
      rw [entryOk_name hok]
    · intro _ σ hag t ht
      have h1 := (hinv _ t ht).1
      have := checkSkip_agree hsk hag
      rw [h1] at this; simp at this
  | false =>
    simp only [Bool.false_eq_true, ↓reduceIte]
    refine ⟨Lp, rfl, ?_, ?_⟩
    · intro p hp
      obtain ⟨hok, hall, hinc⟩ := hgood p hp
      refine ⟨hok, hemb allInc _ rfl hall, fun hs σ hag => hemb _ _ ?_ (hinc hs σ hag)⟩
      have := checkSkip_agree hsk hag
      simpa using this
    · intro _ σ hag t ht
      exact hcomp σ hag t (hinv _ t ht).2

theorem frag_spec (HF : FFStmt c mfuel fuel) {cnd : Cond} (hcnd : c.S.typeDef? cnd.obj.name = some cnd.obj)
    {s : Selection} {l : List Tagged}
    (h : fragOf c.S c.F cnd (fun sub => fieldsFor c.S c.F mfuel fuel cnd sub) s = .ok l)
    (hcoh : SubCoh c cnd.obj.name [s]) : FlatPart c cnd.obj.name cnd.vars (!isFieldSel s) s l := by
  -- the common part: the fragment applies, its contents are `sub`
  have core : ∀ (sub : List Selection) (dirs : List Directive),
      (∀ inc : Inc, ∀ t, inc dirs = true → InFlat c.S c.F cnd.obj.name inc [] sub t →
        InFlat c.S c.F cnd.obj.name inc [] [s] t) →
      (∀ inc : Inc, ∀ t, InFlat c.S c.F cnd.obj.name inc [] [s] t →
        inc dirs = true ∧ InFlat c.S c.F cnd.obj.name inc [] sub t) →
      (do let fs ← fieldsFor c.S c.F mfuel fuel cnd sub
          if ← checkSkip cnd.vars dirs then (.ok (toEmpty fs) : Except Panic (List Tagged)) else .ok fs) = .ok l →
      FlatPart c cnd.obj.name cnd.vars true s l := by
    intro sub dirs hemb hinv hl
    simp only [bind, Except.bind] at hl
    cases hfs : fieldsFor c.S c.F mfuel fuel cnd sub with
    | error e => simp [hfs] at hl
    | ok fs =>
      simp only [hfs] at hl
      cases hsk : checkSkip cnd.vars dirs with
      | error e => simp [hsk] at hl
      | ok sk =>
        simp only [hsk] at hl
        have hsub : SubCoh c cnd.obj.name sub := fun t fd s' ht => hcoh t fd s' (hemb allInc t rfl ht)
        have := wrap_spec (s := s) (HF cnd sub fs hfs hcnd hsub) hsk hemb hinv
        cases sk <;> simp only [Bool.false_eq_true, ↓reduceIte] at hl this <;> cases hl <;> exact this
  have none_applies : ∀ (hno : ∀ inc : Inc, ∀ t, ¬ InFlat c.S c.F cnd.obj.name inc [] [s] t),
      FlatPart c cnd.obj.name cnd.vars true s [] := by
    intro hno
    refine ⟨[], rfl, ?_, ?_⟩
    · intro p hp; cases hp
    · intro _ σ _ t ht; exact absurd ht (hno _ t)
  cases s with
  | field alias name np args dirs sub =>
    simp only [fragOf] at h; cases h
    exact flatPart_nil_false
  | spread n np dirs p =>
    simp only [fragOf] at h
    simp only [isFieldSel, Bool.not_false]
    cases hF : c.F n with
    | none => simp [hF] at h
    | some fd =>
      simp only [hF, bind, Except.bind] at h
      cases hap : fragmentApplies c.S cnd.obj fd.cond with
      | error e => simp [hap] at h
      | ok b =>
        simp only [hap] at h
        have hb := fragmentApplies_spec c.S cnd.obj fd.cond b hcnd hap
        cases b with
        | true =>
          simp only [↓reduceIte] at h
          refine core fd.sel dirs ?_ ?_ h
          · intro inc t hi ht; exact .spread hi (by simp) hF hb.symm ht
          · intro inc t ht
            cases ht with
            | spread hi _ hf _ hs => rw [hF] at hf; cases hf; exact ⟨hi, hs⟩
            | tail hr => exact absurd hr inFlat_nil
        | false =>
          simp only [Bool.false_eq_true, ↓reduceIte] at h; cases h
          refine none_applies ?_
          intro inc t ht
          cases ht with
          | spread _ _ hf ha _ => rw [hF] at hf; cases hf; rw [← hb] at ha; cases ha
          | tail hr => exact absurd hr inFlat_nil
  | inline cond dirs sub p =>
    simp only [isFieldSel, Bool.not_false]
    cases cond with
    | none =>
      simp only [fragOf] at h
      refine core sub dirs ?_ ?_ h
      · intro inc t hi ht; exact .inline hi rfl ht
      · intro inc t ht
        cases ht with
        | inline hi _ hs => exact ⟨hi, hs⟩
        | tail hr => exact absurd hr inFlat_nil
    | some tc =>
      obtain ⟨tcn, tcp⟩ := tc
      simp only [fragOf, bind, Except.bind] at h
      cases hap : fragmentApplies c.S cnd.obj tcn with
      | error e => simp [hap] at h
      | ok b =>
        simp only [hap] at h
        have hb := fragmentApplies_spec c.S cnd.obj tcn b hcnd hap
        cases b with
        | true =>
          simp only [↓reduceIte] at h
          refine core sub dirs ?_ ?_ h
          · intro inc t hi ht; exact .inline hi (by simp [condApplies, ← hb]) ht
          · intro inc t ht
            cases ht with
            | inline hi _ hs => exact ⟨hi, hs⟩
            | tail hr => exact absurd hr inFlat_nil
        | false =>
          simp only [Bool.false_eq_true, ↓reduceIte] at h; cases h
          refine none_applies ?_
          intro inc t ht
          cases ht with
          | inline _ hc _ => simp [condApplies, ← hb] at hc
          | tail hr => exact absurd hr inFlat_nil

/-- `get_fields_for_selection_set` at fuel + 1, from the two statements at fuel -/
theorem ffStmt_succ (HI : ImplStmt c mfuel fuel) (HF : FFStmt c mfuel fuel) : FFStmt c mfuel (fuel + 1) := by
  intro cnd ss L h hcnd hcoh
  rw [fieldsFor_succ] at h
  simp only [hcnd, bind, Except.bind] at h
  cases hsimple : ss.filterMapM (simpleOf cnd.obj cnd.vars (fun ty sub => implTree c.S c.F mfuel fuel ty sub)) with
  | error e => simp [hsimple] at h
  | ok simple =>
    simp only [hsimple] at h
    cases hfrags : ss.mapM (fragOf c.S c.F cnd (fun sub => fieldsFor c.S c.F mfuel fuel cnd sub)) with
    | error e => simp [hfrags] at h
    | ok frags =>
      simp only [hfrags] at h; cases h
      have hsub : ∀ s ∈ ss, SubCoh c cnd.obj.name [s] := fun s hs t fd s' ht => hcoh t fd s' (inFlat_of_mem hs ht)
      obtain ⟨rs, hrs, rfl⟩ := filterMapM_all2 _ _ hsimple
      have h1 := flat_concat (want := isFieldSel) (all2_map_right (f := Option.toList)
        (all2_imp hrs fun s r hs hr => simple_spec HI hcnd hr (hsub s hs)))
      have h2 := flat_concat (want := fun s => !isFieldSel s)
        (all2_imp (mapM_all2 _ _ hfrags) fun s l hs hl => frag_spec HF hcnd hl (hsub s hs))
      obtain ⟨Lp1, he1, hg1, hc1⟩ := h1
      obtain ⟨Lp2, he2, hg2, hc2⟩ := h2
      refine ⟨Lp1 ++ Lp2, by rw [filterMap_id_eq_flatten, he1, he2]; simp, ?_, ?_⟩
      · intro p hp
        rcases List.mem_append.1 hp with hp | hp
        · exact hg1 p hp
        · exact hg2 p hp
      · intro σ hag t ht
        obtain ⟨s, hs, hts⟩ := inFlat_exists_mem ht
        cases hw : isFieldSel s with
        | true =>
          obtain ⟨p, hp, hpe⟩ := hc1 σ hag s hs hw t hts
          exact ⟨p, List.mem_append.2 (Or.inl hp), hpe⟩
        | false =>
          obtain ⟨p, hp, hpe⟩ := hc2 σ hag s hs (by simp [hw]) t hts
          exact ⟨p, List.mem_append.2 (Or.inr hp), hpe⟩

end

/-! ### merging the entries of one response key -/

theorem fieldOf_object {c : Ctx} {o : Name} {t : FT} {k : Name} {T : SelTree} (h : FieldOf c o t (.object k T)) :
    (t.name == "__typename") = false ∧ k = t.key ∧
      ∃ fd s, c.S.field? o t.name = some fd ∧ t.sub = some s ∧ RelTree c T fd.ty (Sb1 s) := by
  unfold FieldOf at h
  split at h
  · cases h
  · rename_i htn
    obtain ⟨fd, hfd, h⟩ := h
    split at h
    · cases h
    · rename_i s hs
      obtain ⟨T', h1, h2⟩ := h
      cases h1
      exact ⟨by simpa using htn, rfl, fd, s, hfd, hs, h2⟩

/-- the sub-selections of the not-skipped entries -/
def subsOf (ps : List Entry) : SSet := fun s => ∃ q ∈ ps, q.1.2 = false ∧ q.1.1.sub = some s

/-- what the accumulated field `g` has to do with the entries `ps` merged into it -/
def AccInv (c : Ctx) (o k : Name) (ps : List Entry) : SField → Prop
  | .empty k' => k' = k ∧ ∀ p ∈ ps, p.1.2 = true
  | .leaf k' ty b => ∃ p ∈ ps, p.1.2 = false ∧ FieldOf c o p.1.1 (.leaf k' ty b)
  | .object k' T => k' = k ∧ ∃ p ∈ ps, ∃ fd, p.1.2 = false ∧ (p.1.1.name == "__typename") = false ∧
      p.1.1.sub.isSome = true ∧ c.S.field? o p.1.1.name = some fd ∧ RelTree c T fd.ty (subsOf ps)

theorem entry_empty_iff {c : Ctx} {o : Name} {p : Entry} (h : EntryOk c o p) : p.2.2.isEmpty = p.1.2 := by
  obtain ⟨_, h⟩ := h
  split at h
  · rename_i hs; rw [h, hs]; rfl
  · rename_i hs
    rw [(fieldOf_name h).2]; simpa using hs

theorem accInv_single {c : Ctx} {o k : Name} {p : Entry} (h : EntryOk c o p) (hk : p.1.1.key = k) :
    AccInv c o k [p] p.2.2 := by
  have hname := entryOk_name h
  have hemp := entry_empty_iff h
  obtain ⟨_, h⟩ := h
  cases hf : p.2.2 with
  | empty k' =>
    rw [hf] at hname hemp
    simp only [AccInv, SField.name] at hname ⊢
    exact ⟨by rw [hname, hk], fun q hq => by simp only [List.mem_singleton] at hq; subst hq; exact hemp.symm⟩
  | leaf k' ty b =>
    rw [hf] at hemp
    have hs : p.1.2 = false := hemp.symm
    simp only [hs, Bool.false_eq_true, ↓reduceIte, hf] at h
    simp only [AccInv]
    exact ⟨p, by simp, hs, h⟩
  | object k' T =>
    rw [hf] at hemp hname
    have hs : p.1.2 = false := hemp.symm
    simp only [hs, Bool.false_eq_true, ↓reduceIte, hf] at h
    obtain ⟨htn, hk', fd, s, hfd, hsub, hrel⟩ := fieldOf_object h
    simp only [AccInv]
    refine ⟨by rw [hk', hk], p, by simp, fd, hs, htn, by simp [hsub], hfd,
      relTree_congr T fd.ty _ _ (pEquiv_of_iff ?_) hrel⟩
    intro s'
    simp only [Sb1, subsOf, List.mem_singleton, exists_eq_left, hs, true_and, hsub, Option.some.injEq]
    exact eq_comm

theorem subsOf_snoc_skipped {ps : List Entry} {p : Entry} (hs : p.1.2 = true) (s : List Selection) :
    subsOf (ps ++ [p]) s ↔ subsOf ps s := by
  simp only [subsOf, List.mem_append, List.mem_singleton]
  constructor
  · rintro ⟨q, (hq | rfl), h1, h2⟩
    · exact ⟨q, hq, h1, h2⟩
    · rw [hs] at h1; cases h1
  · rintro ⟨q, hq, h1, h2⟩; exact ⟨q, Or.inl hq, h1, h2⟩

theorem accInv_step {c : Ctx} {mt : SelTree → SelTree → Except Panic SelTree} (HM : MergeSpec c mt) {o k : Name}
    {ss : List Selection} {ps : List Entry} {p : Entry} {g r : SField} (hinv : AccInv c o k ps g)
    (hall : ∀ q ∈ ps ++ [p], EntryOk c o q ∧ q.1.1.key = k ∧ InFlat c.S c.F o allInc [] ss q.1.1)
    (hcoh : CohAt c (Sb1 ss) o)
    (hnest : ∀ (Q : SSet), (∀ s, Q s → ∃ q ∈ ps ++ [p], q.1.1.sub = some s) → ∀ fd q, q ∈ ps ++ [p] →
      c.S.field? o q.1.1.name = some fd → ∀ d, Coh c d Q fd.ty.unwrapped)
    (hm : mergeFieldsWith mt g p.2.2 = .ok r) : AccInv c o k (ps ++ [p]) r := by
  obtain ⟨hok, hkey, hin⟩ := hall p (by simp)
  have hemp := entry_empty_iff hok
  have mono : ∀ q ∈ ps, q ∈ ps ++ [p] := fun q hq => List.mem_append.2 (Or.inl hq)
  rcases mergeFields_cases hm with ⟨rfl, he⟩ | ⟨rfl, he⟩ | ⟨n, t, b, n', t', b', rfl, _, rfl⟩ |
    ⟨n, l, n', r', T, rfl, hf, hmt, rfl⟩
  · -- the new entry is skipped
    have hs : p.1.2 = true := by rw [← hemp, he]
    cases r with
    | empty k' =>
      simp only [AccInv] at hinv ⊢
      refine ⟨hinv.1, fun q hq => ?_⟩
      rcases List.mem_append.1 hq with hq | hq
      · exact hinv.2 q hq
      · simp only [List.mem_singleton] at hq; subst hq; exact hs
    | leaf k' ty b =>
      simp only [AccInv] at hinv ⊢
      obtain ⟨q, hq, h1, h2⟩ := hinv
      exact ⟨q, mono q hq, h1, h2⟩
    | object k' T =>
      simp only [AccInv] at hinv ⊢
      obtain ⟨hk', q, hq, fd, h1, h2, h2', h3, h4⟩ := hinv
      exact ⟨hk', q, mono q hq, fd, h1, h2, h2', h3,
        relTree_congr T fd.ty _ _ (pEquiv_of_iff fun s => (subsOf_snoc_skipped hs s).symm) h4⟩
  · -- everything so far was skipped
    have hall_sk : ∀ q ∈ ps, q.1.2 = true := by
      cases g with
      | empty k' => simp only [AccInv] at hinv; exact hinv.2
      | _ => simp [SField.isEmpty] at he
    have hsingle := accInv_single hok hkey
    cases hf : p.2.2 with
    | empty k' =>
      rw [hf] at hsingle
      simp only [AccInv] at hsingle ⊢
      refine ⟨hsingle.1, fun q hq => ?_⟩
      rcases List.mem_append.1 hq with hq | hq
      · exact hall_sk q hq
      · exact hsingle.2 q hq
    | leaf k' ty b =>
      rw [hf] at hsingle
      simp only [AccInv] at hsingle ⊢
      obtain ⟨q, hq, h1, h2⟩ := hsingle
      exact ⟨q, List.mem_append.2 (Or.inr hq), h1, h2⟩
    | object k' T =>
      rw [hf] at hsingle
      simp only [AccInv] at hsingle ⊢
      obtain ⟨hk', q, hq, fd, h1, h2, h2', h3, h4⟩ := hsingle
      refine ⟨hk', q, List.mem_append.2 (Or.inr hq), fd, h1, h2, h2', h3,
        relTree_congr T fd.ty _ _ (pEquiv_of_iff fun s => ?_) h4⟩
      simp only [subsOf, List.mem_append]
      constructor
      · rintro ⟨q', hq', h⟩; exact ⟨q', Or.inr hq', h⟩
      · rintro ⟨q', (hq' | hq'), h5, h6⟩
        · rw [hall_sk q' hq'] at h5; cases h5
        · exact ⟨q', hq', h5, h6⟩
  · simp only [AccInv] at hinv ⊢
    obtain ⟨q, hq, h1, h2⟩ := hinv
    exact ⟨q, mono q hq, h1, h2⟩
  · -- two object fields: the trees are merged
    simp only [AccInv] at hinv ⊢
    obtain ⟨hk', q, hq, fd, h1, h2, h2', h3, h4⟩ := hinv
    have hs : p.1.2 = false := by rw [← hemp, hf]; rfl
    have hfo : FieldOf c o p.1.1 (.object n' r') := by
      have := hok.2; simp only [hs, Bool.false_eq_true, ↓reduceIte, hf] at this; exact this
    obtain ⟨htn, _, fd', s, hfd', hsub, hrel⟩ := fieldOf_object hfo
    obtain ⟨_, hqk, hqin⟩ := hall q (mono q hq)
    have hsame := (cohAt_full hcoh q.1.1 p.1.1 (pu_sb1.2 hqin) (pu_sb1.2 hin) (by rw [hqk, hkey])).2.1
    rw [← hsame, h3] at hfd'; cases hfd'
    have hunion : ∀ s', SUnion (subsOf ps) (Sb1 s) s' ↔ subsOf (ps ++ [p]) s' := by
      intro s'
      simp only [SUnion, subsOf, Sb1, List.mem_append, List.mem_singleton]
      constructor
      · rintro (⟨q', hq', h⟩ | rfl)
        · exact ⟨q', Or.inl hq', h⟩
        · exact ⟨p, Or.inr rfl, hs, hsub⟩
      · rintro ⟨q', (hq' | rfl), h5, h6⟩
        · exact Or.inl ⟨q', hq', h5, h6⟩
        · rw [hsub] at h6; cases h6; exact Or.inr rfl
    have hT := HM l r' T fd.ty _ _ hmt h4 hrel (by
      intro d
      refine hnest _ ?_ fd q (mono q hq) h3 d
      intro s' hs'
      obtain ⟨q', hq', _, h6⟩ := (hunion s').1 hs'
      exact ⟨q', hq', h6⟩)
    exact ⟨hk', q, mono q hq, fd, h1, h2, h2', h3, relTree_congr T fd.ty _ _ (pEquiv_of_iff hunion) hT⟩

theorem accInv_fold {c : Ctx} {mt : SelTree → SelTree → Except Panic SelTree} (HM : MergeSpec c mt) {o k : Name}
    {ss : List Selection} (hcoh : CohAt c (Sb1 ss) o) : ∀ (rest ps : List Entry) (g m : SField),
    AccInv c o k ps g →
    (∀ q ∈ ps ++ rest, EntryOk c o q ∧ q.1.1.key = k ∧ InFlat c.S c.F o allInc [] ss q.1.1) →
    (∀ (Q : SSet), (∀ s, Q s → ∃ q ∈ ps ++ rest, q.1.1.sub = some s) → ∀ fd q, q ∈ ps ++ rest →
      c.S.field? o q.1.1.name = some fd → ∀ d, Coh c d Q fd.ty.unwrapped) →
    mergeAll mt g (rest.map (·.2.2)) = .ok m → AccInv c o k (ps ++ rest) m
  | [], ps, g, m, hinv, _, _, hm => by
    simp only [List.map_nil, mergeAll] at hm; cases hm; simpa using hinv
  | p :: rest, ps, g, m, hinv, hall, hnest, hm => by
    simp only [List.map_cons, mergeAll] at hm
    cases hx : mergeFieldsWith mt g p.2.2 with
    | error e => simp [hx] at hm
    | ok y =>
      simp only [hx] at hm
      have hsub : ∀ q ∈ ps ++ [p], q ∈ ps ++ p :: rest := by
        intro q hq
        rcases List.mem_append.1 hq with hq | hq
        · exact List.mem_append.2 (Or.inl hq)
        · simp only [List.mem_singleton] at hq; subst hq; simp
      have hstep := accInv_step HM hinv (fun q hq => hall q (hsub q hq)) hcoh
        (fun Q hQ fd q hq => hnest Q (fun s hs => by
          obtain ⟨q', hq', h⟩ := hQ s hs; exact ⟨q', hsub q' hq', h⟩) fd q (hsub q hq)) hx
      have := accInv_fold HM hcoh rest (ps ++ [p]) y m hstep (by simpa using hall) (by simpa using hnest) hm
      simpa using this

/-! ### from the merged entries to the related field -/

theorem accInv_relField {c : Ctx} {o k : Name} {ss : List Selection} {vars : List (Name × Bool)} {σ : Sigma}
    {tag : Bool} {ps : List Entry} {m : SField} (hag : Agree σ vars) (hinv : AccInv c o k ps m) (hne : ps ≠ [])
    (hps : ∀ q ∈ ps, Good c o vars ss q ∧ q.1.1.key = k ∧ q.2.1 = tag)
    (hcomp : ∀ t, InFlat c.S c.F o (included σ) [] ss t → t.key = k → t.aliased = tag → ∃ q ∈ ps, q.1 = (t, false))
    (hcoh : CohAt c (Sb1 ss) o) : RelField c o σ (Sb1 ss) tag m := by
  -- every occurrence with this key belongs to this alias class
  obtain ⟨q0, hq0⟩ := List.exists_mem_of_ne_nil ps hne
  obtain ⟨⟨hok0, hall0, _⟩, hk0, htag0⟩ := hps q0 hq0
  have hclass : ∀ t, InFlat c.S c.F o allInc [] ss t → t.key = k → t.aliased = tag := by
    intro t ht hk
    have := (cohAt_full hcoh t q0.1.1 (pu_sb1.2 ht) (pu_sb1.2 hall0) (by rw [hk, hk0])).1
    rw [this, ← hok0.1, htag0]
  have hcomp' : ∀ t, InFlat c.S c.F o (included σ) [] ss t → t.key = k → ∃ q ∈ ps, q.1 = (t, false) :=
    fun t ht hk => hcomp t ht hk (hclass t (inFlat_inc_mono (fun _ _ => rfl) ht) hk)
  cases m with
  | empty k' =>
    simp only [AccInv] at hinv
    obtain ⟨rfl, hsk⟩ := hinv
    simp only [RelField]
    refine ⟨⟨q0.1.1, pu_sb1.2 hall0, hk0, by rw [← hok0.1, htag0]⟩, fun t ht hk => ?_⟩
    obtain ⟨q, hq, hqe⟩ := hcomp' t (pu_sb1.1 ht) hk
    have := hsk q hq
    rw [hqe] at this; cases this
  | leaf k' ty b =>
    simp only [AccInv] at hinv
    obtain ⟨q, hq, hs, hfo⟩ := hinv
    obtain ⟨⟨hok, _, hinc⟩, hk, htag⟩ := hps q hq
    have hkk : k' = q.1.1.key := (fieldOf_name hfo).1
    simp only [RelField]
    refine ⟨q.1.1, pu_sb1.2 (hinc hs σ hag), hkk.symm, by rw [← hok.1, htag], ?_⟩
    unfold FieldOf at hfo
    split at hfo
    · rename_i htn; rw [if_pos htn]; cases hfo; rfl
    · rename_i htn; rw [if_neg htn]
      obtain ⟨fd, hfd, hfo⟩ := hfo
      split at hfo
      · rename_i hsub; cases hfo; exact ⟨rfl, hsub, fd, hfd, rfl⟩
      · obtain ⟨T, h, _⟩ := hfo; cases h
  | object k' T =>
    simp only [AccInv] at hinv
    obtain ⟨rfl, q, hq, fd, hs, htn, hsome, hfd, hrel⟩ := hinv
    obtain ⟨⟨hok, _, hinc⟩, hk, htag⟩ := hps q hq
    simp only [RelField]
    refine ⟨q.1.1, fd, pu_sb1.2 (hinc hs σ hag), hk, by rw [← hok.1, htag], hsome, htn, hfd,
      relTree_congr T fd.ty _ _ (pEquiv_of_iff fun s => ?_) hrel⟩
    simp only [subsOf, SubSet]
    constructor
    · rintro ⟨q', hq', hs', hsub'⟩
      obtain ⟨⟨_, _, hinc'⟩, hk', _⟩ := hps q' hq'
      exact ⟨q'.1.1, pu_sb1.2 (hinc' hs' σ hag), hk', hsub'⟩
    · rintro ⟨t, ht, hk', hsub'⟩
      obtain ⟨q', hq', hqe⟩ := hcomp' t (pu_sb1.1 ht) hk'
      exact ⟨q', hq', by rw [hqe], by rw [hqe]; exact hsub'⟩

end NitroVerif.OpTypes.Ref
