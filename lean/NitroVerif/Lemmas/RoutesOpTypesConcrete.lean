/-
C15: `AgreeImpl` for the two routes, the root type names of the two views, and the statements about `resultTree` /
`opDecls` that `Props/C15Concrete.lean` restates.
-/
import NitroVerif.Lemmas.RoutesOpTypes
import NitroVerif.Lemmas.RoutesConcrete
namespace NitroVerif.Bridge
open NitroVerif NitroVerif.Gql NitroVerif.SchemaIR NitroVerif.AstSchema NitroVerif.OpTypes
open NitroVerif.IntrospectSpec NitroVerif.Routes NitroVerif.CliSchema

/-! ### `implementers` through a schema value -/

theorem filterMap_eq_filter_map {α β : Type} (p : α → Bool) (e : α → β) (F : α → Option β) :
    ∀ (l : List α), (∀ a ∈ l, F a = if p a then some (e a) else none) → l.filterMap F = (l.filter p).map e
  | [], _ => rfl
  | a :: l, h => by
    rw [List.filterMap_cons, h a (by simp), List.filter_cons,
      filterMap_eq_filter_map p e F l (fun x hx => h x (by simp [hx]))]
    cases p a <;> rfl

def implQ (i : Name) (o : TypeDef) : Bool := o.kind == .object && o.implements.any (·.1 == i)

theorem implQ_tv (i : Name) (o : TypeDef) : implQ i o = implP i (tv o) := by
  unfold implQ implP
  cases h : o.kind <;> simp [tv, eraseType, convTypeDef, h, any_fst_eq, typeKind_beq]

theorem implementers_sees {G : Gql.Schema} {s : SchemaIR.Schema} (h : Sees G s)
    (hnames : G.typeNames = s.types.map (·.name)) (hn : NamesNodup s) (i : Name) :
    (implementers G i).map tv = (s.types.filter (implP i)).map eraseType := by
  unfold implementers
  rw [hnames, List.filterMap_map, List.map_filterMap]
  apply filterMap_eq_filter_map
  intro t ht
  have hfind : s.typeDef? t.name = some t := find?_of_mem_nodup hn ht
  have hty := h.types t.name
  rw [hfind] at hty
  simp only [Function.comp]
  cases ho : G.typeDef? t.name with
  | none => simp [ho] at hty
  | some o =>
    have e : tv o = eraseType t := by simpa [ho] using hty
    have hq : implQ i o = implP i t := by rw [implQ_tv, e]; rfl
    simp only [implQ] at hq
    simp only [hq]
    cases implP i t <;> simp [e]

theorem typeNames_doc (doc : TsDoc) : (Gql.Schema.mk doc).typeNames = (astToSchema doc).types.map (·.name) := by
  rw [typeNames_eq, gql_typeDefs_eq, astToSchema_types]

theorem typeNames_ofIR (s : SchemaIR.Schema) (hn : NamesNodup s) : (ofIR s).typeNames = s.types.map (·.name) := by
  rw [typeNames_eq, ofIR_typeDefs, List.map_map]
  have hnames : (s.types.map (convTypeDef ∘ unconvTypeDef)).map (·.name) = s.types.map (·.name) := by
    simp [List.map_map, Function.comp_def, name_roundtrip]
  rw [extendTypes_nil_nodup _ (by rw [hnames]; exact hn), hnames]

theorem filter_implP_routes (M : TsDoc) (hn : ((userTypes M).map (·.name)).Nodup) (i : String) :
    (routeSdl M).types.filter (implP i) = (jsonSide M).types.filter (implP i) := by
  have hJ : (jsonSide M).types.filter (implP i) = (userTypes M).filter (implP i) := by
    rw [jsonSide_types, filter_extendTypes _ _ _ (implP_builtinScalarDefs i), extendTypes_append,
      filter_extendTypes _ _ _ (implP_specExtra M i), extendTypes_nil_nodup _ hn]
  have hS : (routeSdl M).types.filter (implP i) = (userTypes M).filter (implP i) := by
    rw [routeSdl_types, extendTypes_append, filter_extendTypes _ _ _ (implP_builtinScalarDefs i),
      extendTypes_nil_nodup _ hn]
  rw [hJ, hS]

/-- the lookups of the operation type printer model agree on the two routes, implementers in the same order -/
theorem agreeImpl_routes (M : TsDoc) (h : ValidParsed M) : AgreeImpl (sdlView M) (jsonView M) := by
  refine ⟨(agreeRoots_routes M h).toAgree, fun i => ?_⟩
  rw [implementers_sees (sees_sdl M h.parsed) (typeNames_doc _) (namesNodup_sdl M) i,
    implementers_sees (sees_json M) (typeNames_ofIR _ (namesNodup_json M)) (namesNodup_json M) i,
    filter_implP_routes M h.resolved.typeNames i]

/-! ### root type names (`RootTypes::unwrap_or_default`) -/

theorem rootName_sees {G : Gql.Schema} {s : SchemaIR.Schema} (h : Sees G s) (k : OpKind) :
    G.rootName k = (s.roots.get (convOpKind k)).getD (SchemaIR.Schema.defaultRootName (convOpKind k)) := by
  simp only [Gql.Schema.rootName, h.roots, defaultRootName_conv]

theorem rootName_routes (M : TsDoc) (h : ValidParsed M) (k : OpKind) :
    (sdlView M).rootName k = (jsonView M).rootName k := by
  rw [rootName_sees (sees_sdl M h.parsed), rootName_sees (sees_json M), (routeSdl_roots M).1, (jsonSide_roots M).1]
  cases hs : schemaDefs M with
  | nil =>
    rw [specRoots_default_get M hs]
    simp only [foldRoots, List.foldl_nil, defaultRoot]
    split <;> cases k <;> rfl
  | cons d rest =>
    have hrest : rest = [] := by
      have := h.resolved.oneSchemaDef
      rw [hs] at this
      cases rest with
      | nil => rfl
      | cons _ _ => simp at this
    subst hrest
    rw [specRoots_eq_fold M d [] hs]

theorem rootName_ok (M : TsDoc) (h : ValidParsed M) (k : OpKind) :
    isIntrospectionName ((sdlView M).rootName k) = false := by
  rw [rootName_sees (sees_sdl M h.parsed)]
  cases hg : (routeSdl M).roots.get (convOpKind k) with
  | none => exact defaultRootName_ok _
  | some n =>
    refine rootsOk_sdl M h.rootNames (convOpKind k) n ?_
    have hd : (routeSdl M).rootsDeclared = true := by
      simp only [SchemaIR.Schema.rootsDeclared, Bool.or_eq_true]
      cases k <;> simp [convOpKind, Roots.get] at hg <;> simp [hg]
    simp [SchemaIR.Schema.rootName, hd, hg]

/-! ### result trees and declarations -/

theorem fragsOk_of_docOk {D : Doc} (hD : docOk D = true) : FragsOk (OpTypes.fragsOf D) :=
  fun _ _ h => fragsOf_ok' hD h

theorem implTree_routes (M : TsDoc) (h : ValidParsed M) (D : Doc) (hD : docOk D = true) (mfuel fuel : Nat)
    (p : GType) (hp : isIntrospectionName p.unwrapped = false) (ss : List Selection) (hss : selsOk ss = true) :
    (implTree (sdlView M) (OpTypes.fragsOf D) mfuel fuel p ss).map normTree
      = (implTree (jsonView M) (OpTypes.fragsOf D) mfuel fuel p ss).map normTree :=
  (implTree_fieldsFor_rel (agreeImpl_routes M h) (closed_of_closedB h.closed) _ (fragsOk_of_docOk hD) mfuel fuel).1
    p p ss rfl hp hss

theorem resultTree_routes (M : TsDoc) (h : ValidParsed M) (D : Doc) (hD : docOk D = true) (x : ExecDef) (hx : x ∈ D) :
    (resultTree (sdlView M) D x).map (·.map normTree) = (resultTree (jsonView M) D x).map (·.map normTree) := by
  have hok := List.all_eq_true.mp hD x hx
  cases x with
  | op o =>
    simp only [defOk, Bool.and_eq_true] at hok
    simp only [resultTree, Option.map_some, Option.some.injEq]
    rw [← rootName_routes M h]
    exact implTree_routes M h D hD (mfuelFor D) (fuelFor D) (.nonNull (.named ((sdlView M).rootName o.kind) {}))
      (rootName_ok M h o.kind) o.sel hok.2
  | frag f =>
    simp only [defOk, fragOk, Bool.and_eq_true, nameOk, Bool.not_eq_true'] at hok
    simp only [resultTree, Option.map_some, Option.some.injEq]
    exact implTree_routes M h D hD (mfuelFor D) (fuelFor D) (.nonNull (.named f.cond f.condPos)) hok.1.2 f.sel hok.2
  | imp i => rfl

theorem map_toTs_of_norm (ns : String) {t₁ t₂ : Except Panic SelTree} (h : t₁.map normTree = t₂.map normTree) :
    t₁.map (toTs ns) = t₂.map (toTs ns) := by
  have e : ∀ t : Except Panic SelTree, t.map (toTs ns) = (t.map normTree).map (toTs ns) := by
    intro t
    cases t with
    | error e => rfl
    | ok x => simp [Except.map, toTs_normTree]
  rw [e t₁, e t₂, h]

theorem filterMap_congr' {α β : Type} {f g : α → Option β} : ∀ {l : List α}, (∀ x ∈ l, f x = g x) →
    l.filterMap f = l.filterMap g
  | [], _ => rfl
  | a :: l, h => by
    rw [List.filterMap_cons, List.filterMap_cons, h a (by simp), filterMap_congr' (fun x hx => h x (by simp [hx]))]

theorem opDecls_routes (M : TsDoc) (h : ValidParsed M) (o : Opts) (D : Doc) (hD : docOk D = true) :
    opDecls (sdlView M) o D = opDecls (jsonView M) o D := by
  unfold opDecls
  apply filterMap_congr'
  intro x hx
  have hr := resultTree_routes M h D hD x hx
  cases x with
  | op op =>
    simp only [resultTree, Option.map_some, Option.some.injEq] at hr
    simp only [resultTree, map_toTs_of_norm o.ns hr]
  | frag f =>
    simp only [resultTree, Option.map_some, Option.some.injEq] at hr
    simp only [resultTree, map_toTs_of_norm o.ns hr]
  | imp i => rfl

/-- the type of the single leaf of a one-branch, one-field tree (for the witness about positions) -/
def firstLeafTy : Except Panic SelTree → Option GType
  | .ok (.nonNull (.object [.mk _ _ [.leaf _ ty _] _])) => some ty
  | _ => none

end NitroVerif.Bridge
