/-
Helper lemmas for C05, part 7 (fix 2e4a65e): the directive reference graph the code explores (`succNames` / `Reaches`,
Lemmas/CheckTsRec.lean) against the reference graph of the specification (`refs` / `SpecReaches`, Spec/ValidTs.lean).

* `specReaches_of_reaches`: an edge of the code's graph is a path of the specification's graph
  (`.dir a → .ty arg → … → .ty m → .dir b`, the middle part along input-object fields: `InReach`);
* `reaches_of_specReaches`: conversely — on a document with unique names whose arguments and input fields have input
  types (`inputPositions`) — a path of the specification's graph between two directive nodes is a path of the code's
  graph: the walk of `directives_in_type` returns the directives of EVERY type reached through input-object fields
  (`ditWalk_complete`), and for a scalar, enum, input object (or union) `dirsWithin` = `directivesInTypeOld`.
  (For an object / interface type in argument position the specification also counts the directives on the arguments
  of its fields, which `directives_in_type` does not return; such a document gets `NoOutputType`.)
-/
import NitroVerif.Lemmas.CheckTsRec
import NitroVerif.Lemmas.CheckTsWalk
import NitroVerif.Lemmas.CheckTsAssemble
import NitroVerif.Lemmas.ValidTsClosure
namespace NitroVerif.CheckTs
open NitroVerif.Gql NitroVerif.ValidTs

theorem specReaches_trans {S : Schema} {a b c : Node} (h1 : SpecReaches S a b) (h2 : SpecReaches S b c) :
    SpecReaches S a c := by
  induction h1 with
  | step h => exact .cons h h2
  | cons h _ ih => exact .cons h (ih h2)

theorem directivesInTypeOld_sub_dirsWithin (t : TypeDef) : ∀ d ∈ directivesInTypeOld t, d ∈ dirsWithin t := by
  intro d hd
  unfold directivesInTypeOld at hd
  unfold dirsWithin fieldsOfT valuesOfT inputsOfT isObjOrIface
  cases hk : t.kind <;> rw [hk] at hd <;> simp only [List.mem_append, List.mem_flatMap] at hd ⊢
  case object =>
    rcases hd with h | ⟨a, ha, h⟩
    · simp [h]
    · exact Or.inl (Or.inl (Or.inr ⟨a, by simpa using ha, Or.inl h⟩))
  case interface =>
    rcases hd with h | ⟨a, ha, h⟩
    · simp [h]
    · exact Or.inl (Or.inl (Or.inr ⟨a, by simpa using ha, Or.inl h⟩))
  all_goals simp_all

/-- for a type that is not an object or interface type (which have field ARGUMENTS), the directives the specification
    sees inside the definition are those `directives_in_type` collects from it -/
theorem dirsWithin_sub_directivesInTypeOld (t : TypeDef) (h1 : t.kind ≠ .object) (h2 : t.kind ≠ .interface) :
    ∀ d ∈ dirsWithin t, d ∈ directivesInTypeOld t := by
  intro d hd
  unfold directivesInTypeOld
  unfold dirsWithin fieldsOfT valuesOfT inputsOfT isObjOrIface at hd
  cases hk : t.kind <;> rw [hk] at hd <;> simp only [List.mem_append, List.mem_flatMap] at hd ⊢
  case object => exact absurd hk h1
  case interface => exact absurd hk h2
  all_goals simp_all

/-! ### code ⇒ specification -/

theorem ref_of_inputEdge {T : TsDoc} (hut : uniqueTypeNames T = true) {a b : Name} (h : InputEdge T a b) :
    Node.ty b ∈ refs ⟨T⟩ (.ty a) := by
  obtain ⟨u, hu, hk, f, hf, rfl⟩ := h
  rw [lastTypeDef_eq_typeDef hut] at hu
  simp only [refs, hu, List.mem_append, List.mem_map]
  exact Or.inr ⟨f, by simp [inputsOfT, hk, hf], rfl⟩

theorem specReaches_of_inReach {T : TsDoc} (hut : uniqueTypeNames T = true) {a b : Name} {x : Node}
    (h : InReach T a b) : SpecReaches ⟨T⟩ (.ty b) x → SpecReaches ⟨T⟩ (.ty a) x := by
  induction h with
  | refl => exact id
  | tail _ e ih => exact fun hx => ih (.cons (ref_of_inputEdge hut e) hx)

/-- an edge of the graph the code explores is a path of the specification's graph: a reference from the directive
    definition to a directive on its argument, or to the argument's type, from there along input-object fields to some
    type, and from that type to a directive applied inside it -/
theorem specReaches_of_edge {T : TsDoc} (hut : uniqueTypeNames T = true) (hud : uniqueDirectiveNames T = true)
    {n m : Name} (h : m ∈ succNames T n) : SpecReaches ⟨T⟩ (.dir n) (.dir m) := by
  unfold succNames at h
  cases hd : lastDirectiveDef? T n with
  | none => rw [hd] at h; cases h
  | some d =>
    rw [hd] at h
    obtain ⟨s, hs, rfl⟩ := List.mem_map.mp h
    simp only [dirSuccessors, List.mem_filterMap, List.mem_flatMap, List.mem_append] at hs
    obtain ⟨dir, ⟨a, ha, hdir⟩, hl⟩ := hs
    have hsn : s.name = dir.name := by
      unfold lastDirectiveDef? at hl
      simpa using List.find?_some hl
    rw [lastDirectiveDef_eq_directiveDef hud] at hd
    have hrefs : ∀ x, x ∈ (d.args.flatMap fun a => a.dirs.map (fun x => Node.dir x.name) ++ [Node.ty a.ty.unwrapped]) →
        x ∈ refs ⟨T⟩ (.dir n) := by
      intro x hx; simp only [refs, hd]; exact hx
    rcases hdir with h1 | h2
    · apply SpecReaches.step
      apply hrefs
      simp only [List.mem_flatMap, List.mem_append, List.mem_map]
      exact ⟨a, ha, Or.inl ⟨dir, h1, by rw [hsn]⟩⟩
    · cases ht : lastTypeDef? T a.ty.unwrapped with
      | none => rw [ht] at h2; cases h2
      | some t =>
        rw [ht] at h2
        dsimp only at h2
        obtain ⟨m, u, hr, hu, hdu⟩ := (mem_directivesInType_iff T t (tcanonical_of_lookup ht) dir).mp h2
        rw [lastTypeDef_name ht] at hr
        rw [lastTypeDef_eq_typeDef hut] at hu
        apply SpecReaches.cons (b := .ty a.ty.unwrapped)
        · apply hrefs
          simp only [List.mem_flatMap, List.mem_append, List.mem_map]
          exact ⟨a, ha, Or.inr (by simp)⟩
        · apply specReaches_of_inReach hut hr
          apply SpecReaches.step
          simp only [refs, hu, List.mem_append, List.mem_map]
          exact Or.inl ⟨dir, directivesInTypeOld_sub_dirsWithin u dir hdu, by rw [hsn]⟩

theorem specReaches_of_reaches {T : TsDoc} (hut : uniqueTypeNames T = true) (hud : uniqueDirectiveNames T = true)
    {a b : Name} (h : Reaches T a b) : SpecReaches ⟨T⟩ (.dir a) (.dir b) := by
  induction h with
  | step h1 => exact specReaches_of_edge hut hud h1
  | cons h1 _ ih => exact specReaches_trans (specReaches_of_edge hut hud h1) ih

/-! ### specification ⇒ code -/

/-- the type named `n` is reached from an argument of the directive definition the hash map holds for `a` -/
def ArgReach (T : TsDoc) (a n : Name) : Prop :=
  ∃ d, lastDirectiveDef? T a = some d ∧ ∃ arg ∈ d.args, InReach T arg.ty.unwrapped n

theorem inReach_lookup_start {T : TsDoc} {a n : Name} (h : InReach T a n) :
    ∀ u, lastTypeDef? T n = some u → ∃ t0, lastTypeDef? T a = some t0 := by
  induction h with
  | refl => exact fun u hu => ⟨u, hu⟩
  | tail _ e ih =>
    intro _ _
    obtain ⟨ub, hub, _⟩ := e
    exact ih ub hub

theorem lastDirectiveDef_name {T : TsDoc} {n : Name} {d : DirectiveDef} (h : lastDirectiveDef? T n = some d) :
    d.name = n := by
  unfold lastDirectiveDef? at h
  simpa using List.find?_some h

/-- a directive applied to an argument of `a`'s definition, if defined, is a successor of `a` -/
theorem succ_of_argDir {T : TsDoc} {a : Name} {d : DirectiveDef} (hd : lastDirectiveDef? T a = some d)
    {arg : InputValueDef} (harg : arg ∈ d.args) {dir : Directive} (hdir : dir ∈ arg.dirs)
    {s : DirectiveDef} (hs : lastDirectiveDef? T dir.name = some s) : dir.name ∈ succNames T a := by
  unfold succNames
  rw [hd]
  refine List.mem_map.mpr ⟨s, ?_, lastDirectiveDef_name hs⟩
  simp only [dirSuccessors, List.mem_filterMap, List.mem_flatMap, List.mem_append]
  exact ⟨dir, ⟨arg, harg, Or.inl hdir⟩, hs⟩

/-- a directive applied inside a type reached from an argument of `a`'s definition, if defined, is a successor of `a` -/
theorem succ_of_reachedDir {T : TsDoc} {a n : Name} (hA : ArgReach T a n) {u : TypeDef}
    (hu : lastTypeDef? T n = some u) {dir : Directive} (hdir : dir ∈ directivesInTypeOld u)
    {s : DirectiveDef} (hs : lastDirectiveDef? T dir.name = some s) : dir.name ∈ succNames T a := by
  obtain ⟨d, hd, arg, harg, hr⟩ := hA
  obtain ⟨t0, ht0⟩ := inReach_lookup_start hr u hu
  unfold succNames
  rw [hd]
  refine List.mem_map.mpr ⟨s, ?_, lastDirectiveDef_name hs⟩
  simp only [dirSuccessors, List.mem_filterMap, List.mem_flatMap, List.mem_append]
  refine ⟨dir, ⟨arg, harg, Or.inr ?_⟩, hs⟩
  rw [ht0]
  dsimp only
  refine ditWalk_complete T t0 (tcanonical_of_lookup ht0) ?_ hu hdir
  rw [lastTypeDef_name ht0]
  exact hr

/-- with only input types in input positions, a type reached from a directive argument along input-object fields is a
    scalar, an enum or an input object -/
theorem argReach_kind {T : TsDoc} (hut : uniqueTypeNames T = true) (hin : inputPositions T = true) {a n : Name}
    (hA : ArgReach T a n) {u : TypeDef} (hu : lastTypeDef? T n = some u) :
    u.kind = .scalar ∨ u.kind = .enum ∨ u.kind = .input := by
  obtain ⟨d, hd, arg, harg, hr⟩ := hA
  simp only [inputPositions, List.all_eq_true] at hin
  have key : ∀ v ∈ inputValues T, v.ty.unwrapped = n → u.kind = .scalar ∨ u.kind = .enum ∨ u.kind = .input := by
    intro v hv hvn
    have := hin v hv
    rw [lastTypeDef_eq_typeDef hut] at hu
    rw [hvn, kindOf_of_typeDef hu] at this
    have : (u.kind = .scalar ∨ u.kind = .enum) ∨ u.kind = .input := by simpa using this
    exact or_assoc.mp this
  cases hr with
  | refl =>
    apply key arg _ rfl
    have hdm : d ∈ ValidTs.directiveDefs T := by
      unfold lastDirectiveDef? at hd
      exact List.mem_reverse.mp (List.mem_of_find?_eq_some hd)
    simp only [inputValues, argLists, List.mem_append, List.mem_flatten, List.mem_map]
    exact Or.inl ⟨d.args, Or.inr ⟨d, hdm, rfl⟩, harg⟩
  | tail _ e =>
    obtain ⟨ub, hub, hk, f, hf, hfn⟩ := e
    apply key f _ hfn
    simp only [inputValues, List.mem_append, List.mem_flatMap]
    exact Or.inr ⟨ub, lastTypeDef_mem hub, by simp [inputsOfT, hk, hf]⟩

theorem refs_dir_dir {T : TsDoc} (hud : uniqueDirectiveNames T = true) {a c : Name}
    (h : Node.dir c ∈ refs ⟨T⟩ (.dir a)) :
    ∃ d, lastDirectiveDef? T a = some d ∧ ∃ arg ∈ d.args, ∃ dir ∈ arg.dirs, dir.name = c := by
  simp only [refs] at h
  cases hd : (Schema.mk T).directiveDef? a with
  | none => rw [hd] at h; cases h
  | some d =>
    rw [hd] at h
    simp only [List.mem_flatMap, List.mem_append, List.mem_map, List.mem_singleton, reduceCtorEq, or_false,
      Node.dir.injEq] at h
    rw [← lastDirectiveDef_eq_directiveDef hud] at hd
    exact ⟨d, hd, h⟩

theorem refs_dir_ty {T : TsDoc} (hud : uniqueDirectiveNames T = true) {a n : Name}
    (h : Node.ty n ∈ refs ⟨T⟩ (.dir a)) : ArgReach T a n := by
  simp only [refs] at h
  cases hd : (Schema.mk T).directiveDef? a with
  | none => rw [hd] at h; cases h
  | some d =>
    rw [hd] at h
    simp only [List.mem_flatMap, List.mem_append, List.mem_map, List.mem_singleton, reduceCtorEq, and_false,
      exists_false, false_or, Node.ty.injEq] at h
    rw [← lastDirectiveDef_eq_directiveDef hud] at hd
    obtain ⟨arg, harg, rfl⟩ := h
    exact ⟨d, hd, arg, harg, .refl _⟩

theorem refs_ty_dir {T : TsDoc} (hut : uniqueTypeNames T = true) {n c : Name}
    (h : Node.dir c ∈ refs ⟨T⟩ (.ty n)) :
    ∃ u, lastTypeDef? T n = some u ∧ ∃ dir ∈ dirsWithin u, dir.name = c := by
  simp only [refs] at h
  cases hd : (Schema.mk T).typeDef? n with
  | none => rw [hd] at h; cases h
  | some u =>
    rw [hd] at h
    simp only [List.mem_append, List.mem_map, reduceCtorEq, and_false, exists_false, or_false, Node.dir.injEq] at h
    rw [← lastTypeDef_eq_typeDef hut] at hd
    exact ⟨u, hd, h⟩

theorem refs_ty_ty {T : TsDoc} (hut : uniqueTypeNames T = true) {n n' : Name}
    (h : Node.ty n' ∈ refs ⟨T⟩ (.ty n)) : InputEdge T n n' := by
  simp only [refs] at h
  cases hd : (Schema.mk T).typeDef? n with
  | none => rw [hd] at h; cases h
  | some u =>
    rw [hd] at h
    simp only [List.mem_append, List.mem_map, reduceCtorEq, and_false, exists_false, false_or, Node.ty.injEq] at h
    rw [← lastTypeDef_eq_typeDef hut] at hd
    obtain ⟨f, hf, rfl⟩ := h
    unfold inputsOfT at hf
    cases hk : u.kind == .input with
    | false => rw [hk] at hf; cases hf
    | true =>
      rw [hk] at hf
      exact ⟨u, hd, by simpa using hk, f, hf, rfl⟩

/-- a node with an outgoing reference is defined -/
theorem defined_of_specReaches {T : TsDoc} (hud : uniqueDirectiveNames T = true) {c : Name} {y : Node}
    (h : SpecReaches ⟨T⟩ (.dir c) y) : ∃ s, lastDirectiveDef? T c = some s := by
  have : ∃ z, z ∈ refs ⟨T⟩ (.dir c) := by
    cases h with
    | step h1 => exact ⟨_, h1⟩
    | cons h1 _ => exact ⟨_, h1⟩
  obtain ⟨z, hz⟩ := this
  simp only [refs] at hz
  rw [lastDirectiveDef_eq_directiveDef hud]
  cases hd : (Schema.mk T).directiveDef? c with
  | none => rw [hd] at hz; cases hz
  | some d => exact ⟨d, rfl⟩

/-- what a path of the specification's graph that ends in the directive `b` means for its first node -/
def PathMeans (T : TsDoc) (b : Name) : Node → Prop
  | .dir a => Reaches T a b
  | .ty n => ∀ a, ArgReach T a n → Reaches T a b

/-- an edge from a directive or a reached type to a DEFINED directive is an edge of the code's graph -/
theorem succ_of_ref {T : TsDoc} (hut : uniqueTypeNames T = true) (hud : uniqueDirectiveNames T = true)
    (hin : inputPositions T = true) {c : Name} {s : DirectiveDef} (hs : lastDirectiveDef? T c = some s) :
    ∀ x : Node, Node.dir c ∈ refs ⟨T⟩ x →
      match x with
      | .dir a => c ∈ succNames T a
      | .ty n => ∀ a, ArgReach T a n → c ∈ succNames T a
  | .dir a, h => by
    obtain ⟨d, hd, arg, harg, dir, hdir, rfl⟩ := refs_dir_dir hud h
    exact succ_of_argDir hd harg hdir hs
  | .ty n, h => by
    intro a hA
    obtain ⟨u, hu, dir, hdir, rfl⟩ := refs_ty_dir hut h
    have hk := argReach_kind hut hin hA hu
    have h1 : u.kind ≠ .object := by rcases hk with h | h | h <;> rw [h] <;> decide
    have h2 : u.kind ≠ .interface := by rcases hk with h | h | h <;> rw [h] <;> decide
    exact succ_of_reachedDir hA hu (dirsWithin_sub_directivesInTypeOld u h1 h2 dir hdir) hs

theorem pathMeans_of_specReaches {T : TsDoc} (hut : uniqueTypeNames T = true) (hud : uniqueDirectiveNames T = true)
    (hin : inputPositions T = true) {b : Name} {db : DirectiveDef} (hb : lastDirectiveDef? T b = some db)
    {x y : Node} (h : SpecReaches ⟨T⟩ x y) : y = .dir b → PathMeans T b x := by
  induction h with
  | @step x y h1 =>
    intro hy
    subst hy
    have := succ_of_ref hut hud hin hb x h1
    cases x with
    | dir a => exact .step this
    | ty n => exact fun a hA => .step (this a hA)
  | @cons x z y h1 h2 ih =>
    intro hy
    have ihz := ih hy
    cases z with
    | dir c =>
      obtain ⟨s, hs⟩ := defined_of_specReaches hud h2
      have := succ_of_ref hut hud hin hs x h1
      cases x with
      | dir a => exact .cons this ihz
      | ty n => exact fun a hA => .cons (this a hA) ihz
    | ty n' =>
      cases x with
      | dir a => exact ihz a (refs_dir_ty hud h1)
      | ty n =>
        intro a hA
        obtain ⟨d, hd, arg, harg, hr⟩ := hA
        exact ihz a ⟨d, hd, arg, harg, .tail hr (refs_ty_ty hut h1)⟩

/-- on a document with unique names and input types in input positions, a path of the specification's reference graph
    from a directive to a defined directive is a path of the graph `check_directive_recursion` explores -/
theorem reaches_of_specReaches {T : TsDoc} (hut : uniqueTypeNames T = true) (hud : uniqueDirectiveNames T = true)
    (hin : inputPositions T = true) {a b : Name} {db : DirectiveDef} (hb : lastDirectiveDef? T b = some db)
    (h : SpecReaches ⟨T⟩ (.dir a) (.dir b)) : Reaches T a b :=
  pathMeans_of_specReaches hut hud hin hb h rfl

theorem reaches_iff_specReaches {T : TsDoc} (hut : uniqueTypeNames T = true) (hud : uniqueDirectiveNames T = true)
    (hin : inputPositions T = true) {d : DirectiveDef} (hd : d ∈ ValidTs.directiveDefs T) :
    Reaches T d.name d.name ↔ SpecReaches ⟨T⟩ (.dir d.name) (.dir d.name) :=
  ⟨specReaches_of_reaches hut hud, reaches_of_specReaches hut hud hin (canonical_of_unique hud hd)⟩

end NitroVerif.CheckTs
