/-
No-panic, part E: `get_fields_for_selection_set` succeeds at nesting bound D + 1 if it and `get_type_for_selection_set`
succeed at D; the induction on D; `implTree_ok`.
-/
import NitroVerif.Lemmas.OpTypesRefNoPanicD
namespace NitroVerif.OpTypes.Ref
open NitroVerif.Gql NitroVerif.Ts NitroVerif.Exec NitroVerif.OpTypes

theorem fragmentApplies_ok {S : Schema} {obj : TypeDef} {cond : Name} (h : (S.typeDef? cond).isSome = true) :
    ∃ b, fragmentApplies S obj cond = .ok b := by
  unfold fragmentApplies
  cases hc : S.typeDef? cond with
  | none => rw [hc] at h; cases h
  | some t =>
    simp only
    cases hk : t.kind <;> exact ⟨_, rfl⟩

theorem dirsOk_if {ds : List Directive} (h : dirsOkB ds = true) :
    ∀ d ∈ ds, (d.name == "skip" || d.name == "include") = true → (ifArg d).isSome = true := by
  intro d hd hsi
  have := List.all_eq_true.1 h d hd
  simpa [hsi] using this

theorem ffp_zero (c : Ctx) (mfuel : Nat) : FFP c mfuel 0 := by
  intro fuel cnd ss ss0 bv hfuel hcnd hsel _ _ _ _ _
  have : ss = [] := by
    cases ss with
    | nil => rfl
    | cons x xs => have := (hsel x (by simp)).1; simp [selOkB] at this
  subst this
  cases fuel with
  | zero => omega
  | succ f =>
    rw [fieldsFor_succ]
    simp [hcnd, bind, Except.bind, pure, Except.pure]

theorem ffp_succ {c : Ctx} {mfuel D : Nat} (HF : FFP c mfuel D) (HI : IP c mfuel D) : FFP c mfuel (D + 1) := by
  intro fuel cnd ss ss0 bv hfuel hcnd hsel hesz hcoh hbv hvars hreach
  cases fuel with
  | zero => omega
  | succ f =>
    -- `check_skip_directive` on a reachable directive list
    have cs_ok : ∀ ds, RD c.F [] ss0 ds → dirsOkB ds = true → ∃ b, checkSkip cnd.vars ds = .ok b := fun ds hrd hok =>
      checkSkip_ok cnd.vars ds (ifOk_of_boolVars hbv hvars hrd (dirsOk_if hok))
    have hfieldq : ∀ name, c.S.field? cnd.obj.name name = cnd.obj.fields.find? (·.name == name) := by
      intro name; simp [Schema.field?, Schema.fieldsOf, hcnd]
    rw [fieldsFor_succ]
    simp only [hcnd, bind, Except.bind]
    have hsimple : ∃ simple, ss.filterMapM (simpleOf cnd.obj cnd.vars
        (fun ty sub => implTree c.S c.F mfuel f ty sub)) = .ok simple := by
      apply filterMapM_ok
      intro s hs
      obtain ⟨hok, hfit⟩ := hsel s hs
      cases s with
      | field alias name np args dirs sub =>
        rw [simpleOf_field]
        simp only [selOkB, Bool.and_eq_true] at hok
        obtain ⟨hdirs, hfield⟩ := hok
        obtain ⟨sk, hsk⟩ := cs_ok dirs (hreach _ (rd_of_mem hs)) hdirs
        simp only [hsk, bind, Except.bind]
        have hft : ∃ fld, fieldTree cnd.obj (keyOf alias name) name sk sub
            (fun ty sub => implTree c.S c.F mfuel f ty sub) = .ok fld := by
          unfold fieldTree
          cases sk with
          | true => exact ⟨_, rfl⟩
          | false =>
            simp only [Bool.false_eq_true, ↓reduceIte]
            by_cases htn : (name == "__typename") = true
            · simp only [htn, ↓reduceIte]; exact ⟨_, rfl⟩
            · simp only [htn, Bool.false_eq_true, ↓reduceIte]
              simp only [htn, Bool.false_or] at hfield
              cases hfd : c.S.field? cnd.obj.name name with
              | none => simp [hfd] at hfield
              | some fd =>
                simp only [hfd] at hfield
                have hdf : directField? cnd.obj name = some fd.ty := by
                  unfold directField?
                  rw [← hfieldq, hfd]
                simp only [hdf]
                cases sub with
                | none => exact ⟨_, rfl⟩
                | some ss' =>
                  simp only [Bool.and_eq_true, List.all_eq_true] at hfield
                  simp only [fitsS] at hfit
                  have hsz : eszL c.F D ss' ≤ mfuel := by
                    have h1 := esz_le_of_mem (F := c.F) (D := D + 1) hs
                    simp only [esz] at h1
                    simp only [eszL]; omega
                  obtain ⟨T, hT⟩ := HI f fd.ty ss' (by omega) hfield.1 (fun o ho s' hs' => hfield.2 o ho s' hs')
                    (fun s' hs' => List.all_eq_true.1 hfit s' hs') hsz
                    (hcoh ⟨keyOf alias name, isAliased alias name, name, some ss'⟩ fd ss'
                      (inFlat_of_mem hs (.field rfl)) rfl hfd)
                  simp only [hT, bind, Except.bind]
                  exact ⟨_, rfl⟩
        obtain ⟨fld, hfld⟩ := hft
        simp only [hfld]
        exact ⟨_, rfl⟩
      | spread n np ds p => exact ⟨none, rfl⟩
      | inline cond ds sub p => exact ⟨none, rfl⟩
    -- contents of an applicable fragment
    have core : ∀ (s : Selection) (sub : List Selection) (dirs : List Directive), s ∈ ss →
        dirs = Selection.dirs s → dirsOkB dirs = true →
        (∀ x ∈ sub, selOkB c.S c.F D cnd.obj.name x = true) → (∀ x ∈ sub, fitsS c.F D x = true) →
        1 + eszL c.F D sub ≤ esz c.F (D + 1) s →
        (∀ t, InFlat c.S c.F cnd.obj.name allInc [] sub t → InFlat c.S c.F cnd.obj.name allInc [] [s] t) →
        (∀ d, RD c.F [] sub d → RD c.F [] [s] d) →
        ∃ l, (do
          let fs ← fieldsFor c.S c.F mfuel f cnd sub
          if ← checkSkip cnd.vars dirs then (.ok (toEmpty fs) : Except Panic (List Tagged)) else .ok fs) = .ok l := by
      intro s sub dirs hs hdirs hdok hsok hsfit hsz hemb hrd
      have hsz' : eszL c.F D sub ≤ mfuel := by
        have h1 := esz_le_of_mem (F := c.F) (D := D + 1) hs; omega
      obtain ⟨fs, hfs⟩ := HF f cnd sub ss0 bv (by omega) hcnd (fun x hx => ⟨hsok x hx, hsfit x hx⟩) hsz'
        (fun t fd s' ht => hcoh t fd s' (inFlat_of_mem hs (hemb t ht))) hbv hvars
        (fun d hd => hreach d (rd_into hs (hrd d hd)))
      obtain ⟨sk, hsk⟩ := cs_ok dirs (hreach _ (hdirs ▸ rd_of_mem hs)) hdok
      simp only [hfs, hsk, bind, Except.bind]
      cases sk <;> exact ⟨_, rfl⟩
    have hfrags : ∃ frags, ss.mapM (fragOf c.S c.F cnd (fun sub => fieldsFor c.S c.F mfuel f cnd sub)) = .ok frags := by
      apply mapM_ok
      intro s hs
      obtain ⟨hok, hfit⟩ := hsel s hs
      cases s with
      | field alias name np args dirs sub => exact ⟨[], rfl⟩
      | spread n np dirs p =>
        simp only [selOkB, Bool.and_eq_true] at hok
        obtain ⟨hdirs, hrest⟩ := hok
        simp only [fragOf]
        cases hF : c.F n with
        | none => simp [hF] at hrest
        | some fd =>
          simp only [hF, Bool.and_eq_true, Bool.or_eq_true, Bool.not_eq_true', List.all_eq_true] at hrest
          obtain ⟨hdef, happ⟩ := hrest
          obtain ⟨b, hb⟩ := fragmentApplies_ok (S := c.S) (obj := cnd.obj) hdef
          have hbs := fragmentApplies_spec c.S cnd.obj fd.cond b hcnd hb
          simp only [hb, bind, Except.bind]
          cases b with
          | false => exact ⟨[], rfl⟩
          | true =>
            simp only [↓reduceIte]
            simp only [fitsS, hF] at hfit
            refine core _ fd.sel dirs hs rfl hdirs ?_ (fun x hx => List.all_eq_true.1 hfit x hx) ?_ ?_ ?_
            · rcases happ with h | h
              · rw [← hbs] at h; cases h
              · exact h
            · simp only [esz, hF, eszL]; omega
            · intro t ht; exact .spread rfl (by simp) hF hbs.symm ht
            · intro d hd; exact .spread (by simp) hF hd
      | inline cond dirs sub p =>
        simp only [selOkB, Bool.and_eq_true, Bool.or_eq_true, Bool.not_eq_true', List.all_eq_true] at hok
        obtain ⟨⟨hdirs, hdef⟩, happ⟩ := hok
        simp only [fitsS] at hfit
        have hfit' : ∀ x ∈ sub, fitsS c.F D x = true := fun x hx => List.all_eq_true.1 hfit x hx
        have hsz : 1 + eszL c.F D sub ≤ esz c.F (D + 1) (.inline cond dirs sub p) := by
          simp only [esz, eszL]; omega
        cases cond with
        | none =>
          simp only [fragOf]
          refine core _ sub dirs hs rfl hdirs ?_ hfit' hsz ?_ ?_
          · rcases happ with h | h
            · simp [condApplies] at h
            · exact h
          · intro t ht; exact .inline rfl rfl ht
          · intro d hd; exact .inline hd
        | some tc =>
          obtain ⟨tcn, tcp⟩ := tc
          simp only at hdef
          obtain ⟨b, hb⟩ := fragmentApplies_ok (S := c.S) (obj := cnd.obj) hdef
          have hbs := fragmentApplies_spec c.S cnd.obj tcn b hcnd hb
          simp only [fragOf, hb, bind, Except.bind]
          cases b with
          | false => exact ⟨[], rfl⟩
          | true =>
            simp only [↓reduceIte]
            refine core _ sub dirs hs rfl hdirs ?_ hfit' hsz ?_ ?_
            · rcases happ with h | h
              · simp [condApplies, ← hbs] at h
              · exact h
            · intro t ht; exact .inline rfl (by simp [condApplies, ← hbs]) ht
            · intro d hd; exact .inline hd
    obtain ⟨simple, h1⟩ := hsimple
    obtain ⟨frags, h2⟩ := hfrags
    simp only [h1, h2]
    exact ⟨_, rfl⟩

theorem ffp_all {c : Ctx} {mfuel G K : Nat} (E : NPEnv c mfuel G K) : ∀ D, D ≤ K → FFP c mfuel D
  | 0, _ => ffp_zero c mfuel
  | D + 1, h => by
    have hF := ffp_all E D (by omega)
    exact ffp_succ hF (ip_of_ffp E (by omega) hF)

/-- **`get_type_for_selection_set` does not panic** (and the model does not run out of either fuel) on a selection set that
    passes the validity check `selOkB` for every possible object type, has no fragment cycle (`fitsS`), is coherent, and
    whose expanded size / nesting fit the fuels -/
theorem implTree_ok {c : Ctx} {mfuel G K D : Nat} (E : NPEnv c mfuel G K) (hDK : D ≤ K) {fuel : Nat} {ty : GType}
    {ss : List Selection} (hfuel : 2 * D + 2 ≤ fuel) (hpar : parentsOkB c.S ty.unwrapped = true)
    (hsel : ∀ o ∈ c.S.possibleTypes ty.unwrapped, ∀ s ∈ ss, selOkB c.S c.F D o s = true)
    (hfit : ∀ s ∈ ss, fitsS c.F D s = true) (hesz : eszL c.F D ss ≤ mfuel)
    (hC : ∀ d, Coh c d (Sb1 ss) ty.unwrapped) : ∃ T, implTree c.S c.F mfuel fuel ty ss = .ok T :=
  ip_of_ffp E hDK (ffp_all E D hDK) fuel ty ss hfuel hpar hsel hfit hesz hC

/-- a decidable sufficient check for `FieldDepthLe` -/
def fieldDepthB (S : Schema) (G : Nat) : Bool :=
  S.typeDefs.all fun t => t.fields.all fun f => gdepth f.ty ≤ G

theorem fieldDepth_of_check {c : Ctx} {G : Nat} (h : fieldDepthB c.S G = true) : FieldDepthLe c G := by
  intro o f fd hfd
  unfold Schema.field? Schema.fieldsOf at hfd
  cases ht : c.S.typeDef? o with
  | none => simp [ht] at hfd
  | some t =>
    simp only [ht] at hfd
    have h1 := List.all_eq_true.1 h t (typeDef?_mem ht)
    have h2 := List.all_eq_true.1 h1 fd (List.mem_of_find?_eq_some hfd)
    simpa using h2

end NitroVerif.OpTypes.Ref
