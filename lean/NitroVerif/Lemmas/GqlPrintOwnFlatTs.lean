import NitroVerif.Lemmas.GqlPrintOwnFlatExec
import NitroVerif.Lemmas.ParseDocTsDoc
/-!
C16 over nitrogql's own parser: flat forms of C07's renderings of type-system documents (descriptions, input value / field /
enum value definitions, bracketed lists, name lists, heads, every kind of type definition and extension, schema definition
and extension, directive definition, items, documents).
-/
namespace NitroVerif.C16Own
open NitroVerif.Gql NitroVerif.ValueParse NitroVerif.DocParse NitroVerif.TypeParse NitroVerif.StringParse

/-! ### descriptions, input value definitions, bracketed lists -/

def cOptDesc : Option String → List (List Char × Bool)
  | none => []
  | some s => [(quoted s.toList, false)]

theorem flat_optDesc (τ : Trivia) (p : Nat) (d : Option String) : rOptDesc τ p d = rToks τ p (cOptDesc d) := by
  cases d with
  | none => rfl
  | some s => simp only [rOptDesc, cOptDesc, rToks_cons, rToks_nil, List.append_nil]

def cIVD (sep : Bool) (v : InputValueDef) : List (List Char × Bool) :=
  cOptDesc v.desc ++ ((v.name.toList, false) :: ([':'], false) ::
    (cType (sep && v.dirs.isEmpty && v.default.isNone) v.ty ++
      (cOptDefault (sep && v.dirs.isEmpty) v.default ++ cDirs sep v.dirs)))

theorem flat_ivd (τ : Trivia) (sep : Bool) (p : Nat) (v : InputValueDef) : rIVD τ sep p v = rToks τ p (cIVD sep v) := by
  simp only [rIVD, cIVD, flat_optDesc, flat_type, flat_optDefault, flat_dirs, rToks_cons, rToks_append]

section Braced
variable {α : Type} (ci : Bool → α → List (List Char × Bool)) (sepMid : Bool)

def cBraced (o c : Char) (sep : Bool) (items : List α) : List (List Char × Bool) :=
  ([o], false) :: (cList ci sepMid false items ++ [([c], sep)])

theorem flat_braced (τ : Trivia) (ri : Bool → Nat → α → List Char) (h : ∀ s q a, ri s q a = rToks τ q (ci s a))
    (o c : Char) (sep : Bool) (p : Nat) (items : List α) :
    rBraced ri sepMid τ o c sep p items = rToks τ p (cBraced ci sepMid o c sep items) := by
  simp only [rBraced, cBraced, flat_list ci sepMid false τ ri h, rToks_cons, rToks_append, rToks_nil, List.append_nil]

end Braced

def cOptArgsDef (sep : Bool) : List InputValueDef → List (List Char × Bool)
  | [] => []
  | v :: vs => cBraced cIVD true '(' ')' sep (v :: vs)

theorem flat_optArgsDef (τ : Trivia) (sep : Bool) (p : Nat) (vs : List InputValueDef) :
    rOptArgsDef τ sep p vs = rToks τ p (cOptArgsDef sep vs) := by
  cases vs with
  | nil => rfl
  | cons v vs => exact flat_braced cIVD true τ (rIVD τ) (fun s q a => flat_ivd τ s q a) _ _ _ _ _

def cOptInputs (sep : Bool) : List InputValueDef → List (List Char × Bool)
  | [] => []
  | v :: vs => cBraced cIVD true '{' '}' sep (v :: vs)

theorem flat_optInputs (τ : Trivia) (sep : Bool) (p : Nat) (vs : List InputValueDef) :
    rOptInputs τ sep p vs = rToks τ p (cOptInputs sep vs) := by
  cases vs with
  | nil => rfl
  | cons v vs => exact flat_braced cIVD true τ (rIVD τ) (fun s q a => flat_ivd τ s q a) _ _ _ _ _

/-! ### field definitions, enum values -/

def cFieldDef (sep : Bool) (f : FieldDef) : List (List Char × Bool) :=
  cOptDesc f.desc ++ ((f.name.toList, false) :: (cOptArgsDef false f.args ++
    (([':'], false) :: (cType (sep && f.dirs.isEmpty) f.ty ++ cDirs sep f.dirs))))

theorem flat_fieldDef (τ : Trivia) (sep : Bool) (p : Nat) (f : FieldDef) :
    rFieldDef τ sep p f = rToks τ p (cFieldDef sep f) := by
  simp only [rFieldDef, cFieldDef, flat_optDesc, flat_optArgsDef, flat_type, flat_dirs, rToks_cons, rToks_append]

def cOptFields (sep : Bool) : List FieldDef → List (List Char × Bool)
  | [] => []
  | v :: vs => cBraced cFieldDef true '{' '}' sep (v :: vs)

theorem flat_optFields (τ : Trivia) (sep : Bool) (p : Nat) (vs : List FieldDef) :
    rOptFields τ sep p vs = rToks τ p (cOptFields sep vs) := by
  cases vs with
  | nil => rfl
  | cons v vs => exact flat_braced cFieldDef true τ (rFieldDef τ) (fun s q a => flat_fieldDef τ s q a) _ _ _ _ _

def cEnumVal (sep : Bool) (v : EnumValueDef) : List (List Char × Bool) :=
  cOptDesc v.desc ++ ((v.name.toList, sep && v.dirs.isEmpty) :: cDirs sep v.dirs)

theorem flat_enumVal (τ : Trivia) (sep : Bool) (p : Nat) (v : EnumValueDef) :
    rEnumVal τ sep p v = rToks τ p (cEnumVal sep v) := by
  simp only [rEnumVal, cEnumVal, flat_optDesc, flat_dirs, rToks_cons, rToks_append]

def cOptEnumVals (sep : Bool) : List EnumValueDef → List (List Char × Bool)
  | [] => []
  | v :: vs => cBraced cEnumVal true '{' '}' sep (v :: vs)

theorem flat_optEnumVals (τ : Trivia) (sep : Bool) (p : Nat) (vs : List EnumValueDef) :
    rOptEnumVals τ sep p vs = rToks τ p (cOptEnumVals sep vs) := by
  cases vs with
  | nil => rfl
  | cons v vs => exact flat_braced cEnumVal true τ (rEnumVal τ) (fun s q a => flat_enumVal τ s q a) _ _ _ _ _

/-! ### name lists, root operation types -/

def ciSepName (c : Char) : Bool → (Name × Pos) → List (List Char × Bool) := fun s n => [([c], false), (n.1.toList, s)]

theorem flat_sepName (τ : Trivia) (c : Char) (s : Bool) (q : Nat) (n : Name × Pos) :
    riSepName τ c s q n = rToks τ q (ciSepName c s n) := by
  simp only [riSepName, ciSepName, rToks_cons, rToks_nil, List.append_nil]

/-- names separated by `c`, no leading separator (C07's rendering) -/
def cNames (c : Char) (sep : Bool) : List (Name × Pos) → List (List Char × Bool)
  | [] => []
  | n :: rest => (n.1.toList, sep && rest.isEmpty) :: cList (ciSepName c) false sep rest

theorem flat_names (τ : Trivia) (c : Char) (sep : Bool) (p : Nat) (ns : List (Name × Pos)) :
    rNames τ c sep p ns = rToks τ p (cNames c sep ns) := by
  cases ns with
  | nil => rfl
  | cons n rest =>
    simp only [rNames, cNames, flat_list (ciSepName c) false sep τ (riSepName τ c) (fun s q a => flat_sepName τ c s q a),
      rToks_cons]

/-- … with the optional leading separator when `lead` (the printer always writes it; C07's renderings never do) -/
def cNamesLd (lead : Bool) (c : Char) (sep : Bool) : List (Name × Pos) → List (List Char × Bool)
  | [] => []
  | n :: rest => (if lead then [([c], false)] else []) ++ cNames c sep (n :: rest)

theorem cNamesLd_false (c : Char) (sep : Bool) (ns : List (Name × Pos)) : cNamesLd false c sep ns = cNames c sep ns := by
  cases ns <;> simp [cNamesLd, cNames]

theorem flat_namesLd (τ : Trivia) (c : Char) (sep : Bool) (p : Nat) (ns : List (Name × Pos)) :
    rNames τ c sep p ns = rToks τ p (cNamesLd false c sep ns) := by rw [cNamesLd_false, flat_names]

def cOptImpl (lead : Bool) (sep : Bool) : List (Name × Pos) → List (List Char × Bool)
  | [] => []
  | n :: rest => (kwImplements, true) :: cNamesLd lead '&' sep (n :: rest)

theorem flat_optImpl (τ : Trivia) (sep : Bool) (p : Nat) (ns : List (Name × Pos)) :
    rOptImpl τ sep p ns = rToks τ p (cOptImpl false sep ns) := by
  cases ns with
  | nil => rfl
  | cons n rest => simp only [rOptImpl, cOptImpl, flat_namesLd, rToks_cons]

def cRoot (sep : Bool) (r : OpKind × Name × Pos) : List (List Char × Bool) :=
  [(opKw r.1, false), ([':'], false), (r.2.1.toList, sep)]

theorem flat_root (τ : Trivia) (sep : Bool) (p : Nat) (r : OpKind × Name × Pos) : rRoot τ sep p r = rToks τ p (cRoot sep r) := by
  simp only [rRoot, cRoot, rToks_cons, rToks_nil, List.append_nil]

def cRoots (sep : Bool) (rs : List (OpKind × Name × Pos)) : List (List Char × Bool) := cBraced cRoot true '{' '}' sep rs

theorem flat_roots (τ : Trivia) (sep : Bool) (p : Nat) (rs : List (OpKind × Name × Pos)) :
    rRoots τ sep p rs = rToks τ p (cRoots sep rs) :=
  flat_braced cRoot true τ (rRoot τ) (fun s q a => flat_root τ s q a) _ _ _ _ _

def cOptRoots (sep : Bool) : List (OpKind × Name × Pos) → List (List Char × Bool)
  | [] => []
  | a :: r => cRoots sep (a :: r)

theorem flat_optRoots (τ : Trivia) (sep : Bool) (p : Nat) (rs : List (OpKind × Name × Pos)) :
    rOptRoots τ sep p rs = rToks τ p (cOptRoots sep rs) := by
  cases rs with
  | nil => rfl
  | cons a r => simp only [rOptRoots, cOptRoots, flat_roots]

/-! ### heads -/

def cDefHead (sN : Bool) (desc : Option String) (kw : List Char) (name : Name) : List (List Char × Bool) :=
  cOptDesc desc ++ [(kw, true), (name.toList, sN)]

theorem flat_defHead (τ : Trivia) (sN : Bool) (p : Nat) (desc : Option String) (kw : List Char) (name : Name) :
    rDefHead τ sN p desc kw name = rToks τ p (cDefHead sN desc kw name) := by
  simp only [rDefHead, cDefHead, flat_optDesc, rToks_cons, rToks_append, rToks_nil, List.append_nil]

def cExtHead (sN : Bool) (kw : List Char) (name : Name) : List (List Char × Bool) :=
  [(kwExtend, true), (kw, true), (name.toList, sN)]

theorem flat_extHead (τ : Trivia) (sN : Bool) (p : Nat) (kw : List Char) (name : Name) :
    rExtHead τ sN p kw name = rToks τ p (cExtHead sN kw name) := by
  simp only [rExtHead, cExtHead, rToks_cons, rToks_nil, List.append_nil]

/-! ### type definitions -/

def cScalarDef (sep : Bool) (t : TypeDef) : List (List Char × Bool) :=
  cDefHead (sep && t.dirs.isEmpty) t.desc (kindKw .scalar) t.name ++ cDirs sep t.dirs

theorem flat_scalarDef (τ : Trivia) (sep : Bool) (p : Nat) (t : TypeDef) :
    rScalarDef τ sep p t = rToks τ p (cScalarDef sep t) := by
  simp only [rScalarDef, cScalarDef, flat_defHead, flat_dirs, rToks_append]

def cEnumDef (sep : Bool) (t : TypeDef) : List (List Char × Bool) :=
  cDefHead (sep && t.values.isEmpty && t.dirs.isEmpty) t.desc (kindKw .enum) t.name ++
    (cDirs (sep && t.values.isEmpty) t.dirs ++ cOptEnumVals sep t.values)

theorem flat_enumDef (τ : Trivia) (sep : Bool) (p : Nat) (t : TypeDef) : rEnumDef τ sep p t = rToks τ p (cEnumDef sep t) := by
  simp only [rEnumDef, cEnumDef, flat_defHead, flat_dirs, flat_optEnumVals, rToks_append]

def cInputDef (sep : Bool) (t : TypeDef) : List (List Char × Bool) :=
  cDefHead (sep && t.inputs.isEmpty && t.dirs.isEmpty) t.desc (kindKw .input) t.name ++
    (cDirs (sep && t.inputs.isEmpty) t.dirs ++ cOptInputs sep t.inputs)

theorem flat_inputDef (τ : Trivia) (sep : Bool) (p : Nat) (t : TypeDef) : rInputDef τ sep p t = rToks τ p (cInputDef sep t) := by
  simp only [rInputDef, cInputDef, flat_defHead, flat_dirs, flat_optInputs, rToks_append]

def cUnionDef (lead : Bool) (sep : Bool) (t : TypeDef) : List (List Char × Bool) :=
  cDefHead false t.desc (kindKw .union) t.name ++ (cDirs false t.dirs ++ ((['='], false) :: cNamesLd lead '|' sep t.members))

theorem flat_unionDef (τ : Trivia) (sep : Bool) (p : Nat) (t : TypeDef) : rUnionDef τ sep p t = rToks τ p (cUnionDef false sep t) := by
  simp only [rUnionDef, cUnionDef, flat_defHead, flat_dirs, flat_namesLd, rToks_append, rToks_cons]

def cObjDef (lead : Bool) (kw : List Char) (sep : Bool) (t : TypeDef) : List (List Char × Bool) :=
  cDefHead (!t.implements.isEmpty || (sep && t.fields.isEmpty && t.dirs.isEmpty)) t.desc kw t.name ++
    (cOptImpl lead (sep && t.fields.isEmpty && t.dirs.isEmpty) t.implements ++
      (cDirs (sep && t.fields.isEmpty) t.dirs ++ cOptFields sep t.fields))

theorem flat_objDef (τ : Trivia) (kw : List Char) (sep : Bool) (p : Nat) (t : TypeDef) :
    rObjDef τ kw sep p t = rToks τ p (cObjDef false kw sep t) := by
  simp only [rObjDef, cObjDef, flat_defHead, flat_optImpl, flat_dirs, flat_optFields, rToks_append]

def cTypeDefAny (lead : Bool) (sep : Bool) (t : TypeDef) : List (List Char × Bool) :=
  match t.kind with
  | .scalar => cScalarDef sep t
  | .object => cObjDef lead (kindKw .object) sep t
  | .interface => cObjDef lead (kindKw .interface) sep t
  | .union => cUnionDef lead sep t
  | .enum => cEnumDef sep t
  | .input => cInputDef sep t

theorem flat_typeDefAny (τ : Trivia) (sep : Bool) (p : Nat) (t : TypeDef) :
    rTypeDefAny τ sep p t = rToks τ p (cTypeDefAny false sep t) := by
  unfold rTypeDefAny cTypeDefAny
  cases t.kind <;> simp only [flat_scalarDef, flat_objDef, flat_unionDef, flat_enumDef, flat_inputDef]

/-! ### type extensions -/

def cScalarExt (sep : Bool) (t : TypeDef) : List (List Char × Bool) :=
  cExtHead (sep && t.dirs.isEmpty) (kindKw .scalar) t.name ++ cDirs sep t.dirs

theorem flat_scalarExt (τ : Trivia) (sep : Bool) (p : Nat) (t : TypeDef) :
    rScalarExt τ sep p t = rToks τ p (cScalarExt sep t) := by
  simp only [rScalarExt, cScalarExt, flat_extHead, flat_dirs, rToks_append]

def cEnumExt (sep : Bool) (t : TypeDef) : List (List Char × Bool) :=
  cExtHead (sep && t.values.isEmpty && t.dirs.isEmpty) (kindKw .enum) t.name ++
    (cDirs (sep && t.values.isEmpty) t.dirs ++ cOptEnumVals sep t.values)

theorem flat_enumExt (τ : Trivia) (sep : Bool) (p : Nat) (t : TypeDef) : rEnumExt τ sep p t = rToks τ p (cEnumExt sep t) := by
  simp only [rEnumExt, cEnumExt, flat_extHead, flat_dirs, flat_optEnumVals, rToks_append]

def cInputExt (sep : Bool) (t : TypeDef) : List (List Char × Bool) :=
  cExtHead (sep && t.inputs.isEmpty && t.dirs.isEmpty) (kindKw .input) t.name ++
    (cDirs (sep && t.inputs.isEmpty) t.dirs ++ cOptInputs sep t.inputs)

theorem flat_inputExt (τ : Trivia) (sep : Bool) (p : Nat) (t : TypeDef) : rInputExt τ sep p t = rToks τ p (cInputExt sep t) := by
  simp only [rInputExt, cInputExt, flat_extHead, flat_dirs, flat_optInputs, rToks_append]

def cUnionExtM (lead : Bool) (sep : Bool) (t : TypeDef) : List (List Char × Bool) :=
  cExtHead false (kindKw .union) t.name ++ (cDirs false t.dirs ++ ((['='], false) :: cNamesLd lead '|' sep t.members))

theorem flat_unionExtM (τ : Trivia) (sep : Bool) (p : Nat) (t : TypeDef) :
    rUnionExtM τ sep p t = rToks τ p (cUnionExtM false sep t) := by
  simp only [rUnionExtM, cUnionExtM, flat_extHead, flat_dirs, flat_namesLd, rToks_append, rToks_cons]

def cUnionExtD (sep : Bool) (t : TypeDef) : List (List Char × Bool) :=
  cExtHead false (kindKw .union) t.name ++ cDirs sep t.dirs

theorem flat_unionExtD (τ : Trivia) (sep : Bool) (p : Nat) (t : TypeDef) :
    rUnionExtD τ sep p t = rToks τ p (cUnionExtD sep t) := by
  simp only [rUnionExtD, cUnionExtD, flat_extHead, flat_dirs, rToks_append]

def cUnionExt (lead : Bool) (sep : Bool) (t : TypeDef) : List (List Char × Bool) :=
  if t.members.isEmpty then cUnionExtD sep t else cUnionExtM lead sep t

theorem flat_unionExt (τ : Trivia) (sep : Bool) (p : Nat) (t : TypeDef) : rUnionExt τ sep p t = rToks τ p (cUnionExt false sep t) := by
  unfold rUnionExt cUnionExt
  split <;> simp only [flat_unionExtD, flat_unionExtM]

def cObjExt (lead : Bool) (kw : List Char) (sep : Bool) (t : TypeDef) : List (List Char × Bool) :=
  cExtHead (!t.implements.isEmpty || (sep && t.fields.isEmpty && t.dirs.isEmpty)) kw t.name ++
    (cOptImpl lead (sep && t.fields.isEmpty && t.dirs.isEmpty) t.implements ++
      (cDirs (sep && t.fields.isEmpty) t.dirs ++ cOptFields sep t.fields))

theorem flat_objExt (τ : Trivia) (kw : List Char) (sep : Bool) (p : Nat) (t : TypeDef) :
    rObjExt τ kw sep p t = rToks τ p (cObjExt false kw sep t) := by
  simp only [rObjExt, cObjExt, flat_extHead, flat_optImpl, flat_dirs, flat_optFields, rToks_append]

def cTypeExtAny (lead : Bool) (sep : Bool) (t : TypeDef) : List (List Char × Bool) :=
  match t.kind with
  | .scalar => cScalarExt sep t
  | .object => cObjExt lead (kindKw .object) sep t
  | .interface => cObjExt lead (kindKw .interface) sep t
  | .union => cUnionExt lead sep t
  | .enum => cEnumExt sep t
  | .input => cInputExt sep t

theorem flat_typeExtAny (τ : Trivia) (sep : Bool) (p : Nat) (t : TypeDef) :
    rTypeExtAny τ sep p t = rToks τ p (cTypeExtAny false sep t) := by
  unfold rTypeExtAny cTypeExtAny
  cases t.kind <;> simp only [flat_scalarExt, flat_objExt, flat_unionExt, flat_enumExt, flat_inputExt]

/-! ### schema definition / extension, directive definition -/

def cSchemaDef (sep : Bool) (s : SchemaDef) : List (List Char × Bool) :=
  cOptDesc s.desc ++ ((kwSchema, false) :: (cDirs false s.dirs ++ cRoots sep s.roots))

theorem flat_schemaDef (τ : Trivia) (sep : Bool) (p : Nat) (s : SchemaDef) :
    rSchemaDef τ sep p s = rToks τ p (cSchemaDef sep s) := by
  simp only [rSchemaDef, cSchemaDef, flat_optDesc, flat_dirs, flat_roots, rToks_append, rToks_cons]

def cSchemaExt (sep : Bool) (s : SchemaDef) : List (List Char × Bool) :=
  (kwExtend, true) :: (kwSchema, false) :: (cDirs (sep && s.roots.isEmpty) s.dirs ++ cOptRoots sep s.roots)

theorem flat_schemaExt (τ : Trivia) (sep : Bool) (p : Nat) (s : SchemaDef) :
    rSchemaExt τ sep p s = rToks τ p (cSchemaExt sep s) := by
  simp only [rSchemaExt, cSchemaExt, flat_dirs, flat_optRoots, rToks_append, rToks_cons]

def cOptRep : Bool → List (List Char × Bool)
  | true => [(kwRepeatable, true)]
  | false => []

theorem flat_optRep (τ : Trivia) (p : Nat) (b : Bool) : rOptRep τ p b = rToks τ p (cOptRep b) := by
  cases b with
  | false => rfl
  | true => simp only [rOptRep, cOptRep, rToks_cons, rToks_nil, List.append_nil]

def cDirectiveDef (lead : Bool) (sep : Bool) (d : DirectiveDef) : List (List Char × Bool) :=
  cOptDesc d.desc ++ ((kwDirective, false) :: (['@'], false) :: (d.name.toList, d.args.isEmpty) ::
    (cOptArgsDef false d.args ++ (cOptRep d.repeatable ++ ((kwOn, true) :: cNamesLd lead '|' sep (locNames d)))))

theorem flat_directiveDef (τ : Trivia) (sep : Bool) (p : Nat) (d : DirectiveDef) :
    rDirectiveDef τ sep p d = rToks τ p (cDirectiveDef false sep d) := by
  simp only [rDirectiveDef, cDirectiveDef, flat_optDesc, flat_optArgsDef, flat_optRep, flat_namesLd, rToks_append, rToks_cons]

/-! ### items, documents -/

def cTsItem (lead : Bool) (sep : Bool) : TsItem → List (List Char × Bool)
  | .typeDef t => cTypeDefAny lead sep t
  | .schemaDef s => cSchemaDef sep s
  | .directiveDef d => cDirectiveDef lead sep d
  | .schemaExt s => cSchemaExt sep s
  | .typeExt t => cTypeExtAny lead sep t

theorem flat_tsItem (τ : Trivia) (sep : Bool) (p : Nat) (it : TsItem) : rTsItem τ sep p it = rToks τ p (cTsItem false sep it) := by
  cases it <;> simp only [rTsItem, cTsItem, flat_typeDefAny, flat_schemaDef, flat_directiveDef, flat_schemaExt, flat_typeExtAny]

def cTsDoc (lead : Bool) (doc : List TsItem) : List (List Char × Bool) := cList (cTsItem lead) true false doc

theorem flat_tsDoc (τ : Trivia) (doc : List TsItem) : rTsDoc τ doc = τ 0 ++ rToks τ (τ 0).length (cTsDoc false doc) := by
  simp only [rTsDoc, cTsDoc, flat_list (cTsItem false) true false τ (rTsItem τ) (fun s q a => flat_tsItem τ s q a)]

end NitroVerif.C16Own
