/-
C17 (concrete): reordering the definitions of an executable document does not change what the operation type printer
model computes for each definition (fragments are found by name; the fuel is a sum over the definitions).
Core Lean only.
-/
import NitroVerif.Lemmas.DeterminismConcreteDoc
import NitroVerif.Model.OpTypes
namespace NitroVerif.Determinism
open NitroVerif.Gql

theorem docSize_perm {D D' : Doc} (h : D.Perm D') : OpTypes.docSize D = OpTypes.docSize D' := by
  unfold OpTypes.docSize
  apply h.foldl_eq'
  intro x _ y _ z
  cases x <;> cases y <;> simp only <;> omega

/-- the printer's fragment table (last definition of a name wins) is the checker's -/
theorem opTypes_fragsOf_eq (D : Doc) (n : Name) : OpTypes.fragsOf D n = CheckOp.fragMap D n := by
  unfold OpTypes.fragsOf CheckOp.fragMap
  have key : ∀ (D : Doc) (acc : Option FragmentDef),
      D.foldl (fun acc x => match x with
        | .frag f => if f.name == n then some f else acc
        | _ => acc) acc =
      match (CheckOp.fragsOf D).reverse.find? (·.name == n) with
      | some f => some f
      | none => acc := by
    intro D
    induction D with
    | nil => intro acc; rfl
    | cons x r ih =>
      intro acc
      rw [List.foldl_cons, ih]
      cases x with
      | frag f =>
        have : CheckOp.fragsOf (ExecDef.frag f :: r) = f :: CheckOp.fragsOf r := rfl
        rw [this, List.reverse_cons, List.find?_append]
        cases (CheckOp.fragsOf r).reverse.find? (·.name == n) with
        | some g => rfl
        | none =>
          simp only [Option.none_or, List.find?_cons, List.find?_nil]
          cases f.name == n <;> rfl
      | op o =>
        have : CheckOp.fragsOf (ExecDef.op o :: r) = CheckOp.fragsOf r := rfl
        rw [this]
      | imp i =>
        have : CheckOp.fragsOf (ExecDef.imp i :: r) = CheckOp.fragsOf r := rfl
        rw [this]
  refine (key D none).trans ?_
  cases (CheckOp.fragsOf D).reverse.find? (·.name == n) <;> rfl

theorem opTypes_fragsOf_perm {D D' : Doc} (h : D.Perm D') (nd : NoDupFragNames D) :
    OpTypes.fragsOf D = OpTypes.fragsOf D' := by
  funext n
  rw [opTypes_fragsOf_eq, opTypes_fragsOf_eq, fragMap_perm h nd]

theorem resultTree_doc_perm (S : Schema) {D D' : Doc} (h : D.Perm D') (nd : NoDupFragNames D) (x : ExecDef) :
    OpTypes.resultTree S D x = OpTypes.resultTree S D' x := by
  unfold OpTypes.resultTree OpTypes.fuelFor OpTypes.mfuelFor
  rw [opTypes_fragsOf_perm h nd, docSize_perm h]

theorem opDecls_doc_perm (S : Schema) (o : OpTypes.Opts) {D D' : Doc} (h : D.Perm D') (nd : NoDupFragNames D) :
    (OpTypes.opDecls S o D).Perm (OpTypes.opDecls S o D') := by
  unfold OpTypes.opDecls
  simp only [resultTree_doc_perm S h nd]
  exact h.filterMap _

end NitroVerif.Determinism
