/-
C18 composed (helper lemmas): every diagnostic of the composed model lies in a file of the kind it announces — the
hypothesis `WF` of `C18_located` (a stage reports positions of the documents it was given) is PROVED for the stage
models, from what the parsers do (`ParserStamps`: every position of a parsed document carries the file index set
before the parse).
-/
import NitroVerif.Lemmas.CliComposedImports
import NitroVerif.Lemmas.CliComposedPosExt
import NitroVerif.Lemmas.CliComposedPosValid
namespace NitroVerif.CliComposed
open NitroVerif NitroVerif.Gql NitroVerif.Cli

section
variable {Text κ : Type} [DecidableEq κ]

/-- what the real parser does with positions: `Pos::new` stamps every position of the document with the file index
    set by `set_current_file_of_pos` before the parse, and never marks it built-in; the path literal of an `#import`
    line lies in the file of the line -/
structure ParserStamps (E : Env Text κ) : Prop where
  ts : ∀ i t T, E.parseTs i t = .ok T → ∀ p ∈ TsDoc.positions T, p.file = i ∧ p.builtin = false
  op : ∀ i t D, E.parseOp i t = .ok D → ∀ p ∈ Doc.positions D, p.file = i ∧ p.builtin = false
  path : ∀ i : ImportDef, (E.pathPos i).file = i.pos.file ∧ (E.pathPos i).builtin = i.pos.builtin

/-- the part of C03's `SchemaValid` the operation checker relies on when it reports at positions of the SCHEMA: the
    types of arguments and input fields are defined, union members are object types -/
def schemaRefsOkB (S : Schema) : Bool :=
  S.typeDefs.all (fun t =>
    t.inputs.all (fun a => (S.typeDef? a.ty.unwrapped).isSome) &&
    t.fields.all (fun f => f.args.all fun a => (S.typeDef? a.ty.unwrapped).isSome) &&
    t.members.all (fun m => S.kindOf? m.1 == some .object)) &&
  S.directiveDefs.all (fun d => d.args.all fun a => (S.typeDef? a.ty.unwrapped).isSome)

theorem tOk_of_isSome {S : Schema} {Q : Gql.Pos → Prop} {t : GType} (h : (S.typeDef? t.unwrapped).isSome = true) :
    TOk S Q t := by
  left
  rw [baseNamed_unwrapped]
  cases hq : S.typeDef? t.unwrapped with
  | none => rw [hq] at h; cases h
  | some td => exact ⟨td, rfl⟩

theorem schemaQ_of_refsOk {S : Schema} (h : schemaRefsOkB S = true) (Q : Gql.Pos → Prop) : SchemaQ S Q := by
  unfold schemaRefsOkB at h
  simp only [Bool.and_eq_true, List.all_eq_true] at h
  obtain ⟨ht, hd⟩ := h
  refine ⟨?_, ?_, ?_, ?_⟩
  · intro n td hn _ f hf
    exact tOk_of_isSome ((ht td (List.mem_of_find?_eq_some hn)).1.1 f hf)
  · intro n td hn _ fd hfd a ha
    exact tOk_of_isSome ((ht td (List.mem_of_find?_eq_some hn)).1.2 fd hfd a ha)
  · intro n dd hn a ha
    exact tOk_of_isSome (hd dd (List.mem_of_find?_eq_some hn) a ha)
  · intro n td hn _ m hm
    exact Or.inl (CheckOp.kindOf_beq_some ((ht td (List.mem_of_find?_eq_some hn)).2 m hm))

theorem refsOk_of_valid {S : Schema} (h : Valid.SchemaValid S) : schemaRefsOkB S = true := by
  have hf := CheckOp.schemaFacts_of_valid h
  unfold schemaRefsOkB
  simp only [Bool.and_eq_true, List.all_eq_true]
  have hin : ∀ {t : GType}, CheckOp.InputTy S t → (S.typeDef? t.unwrapped).isSome = true := by
    rintro t ⟨td, htd, _⟩; simp [htd]
  refine ⟨fun t ht => ⟨⟨fun a ha => hin (hf.inputTy t ht a ha), fun f hfm a ha => hin ((hf.fieldTy t ht f hfm).2 a ha)⟩, ?_⟩,
    fun d hd a ha => hin (hf.dirArgs d hd a ha)⟩
  intro m hm
  obtain ⟨o, ho, hk⟩ := hf.members t ht m hm
  simp only [Schema.kindOf?, ho, Option.map_some, hk]
  rfl

/-! ### generic: diagnostics in range are located -/

/-- the file of the diagnostic is of the kind it announces -/
def InRange (r : Run) (e : CheckErr) : Prop :=
  e.diag.pos.builtin = true ∨ (e.kind = .schema ∧ e.diag.pos.file < r.schemaFiles.length) ∨
  (e.kind = .operation ∧ r.schemaFiles.length ≤ e.diag.pos.file ∧
    e.diag.pos.file < r.schemaFiles.length + r.opFiles.length)

/-- if every entry of `check_impl`'s result is in range, every diagnostic of the run resolves to a file of the
    announced kind inside the file store (the conclusion of `C18_located`) -/
theorem located_of_inRange (r : Run) (o : Outcome) (h : runCli r = some o) (hr : ∀ e ∈ checkImpl r, InRange r e) :
    ∀ e ∈ o.diags, e.diag.pos.builtin = false →
      (∃ i, o.store.getFile e.diag.pos.file = some (e.kind, i)) ∧
      jsonFile o.store e.diag.pos = some (e.diag.pos.file, e.diag.pos.line, e.diag.pos.col) := by
  have key : ∀ (fs : FileStore) (e : CheckErr), e.diag.pos.builtin = false →
      (∃ i, fs.getFile e.diag.pos.file = some (e.kind, i)) →
      (∃ i, fs.getFile e.diag.pos.file = some (e.kind, i)) ∧
      jsonFile fs e.diag.pos = some (e.diag.pos.file, e.diag.pos.line, e.diag.pos.col) := by
    intro fs e hb ⟨i, hi⟩
    exact ⟨⟨i, hi⟩, by simp [jsonFile, hb, hi]⟩
  obtain ⟨o', h', sh⟩ := runCli_shape r
  rw [h] at h'; cases h'
  intro e he hb
  cases sh with
  | noCommand _ ho => subst ho; simp [outcomeOf, St.init] at he
  | schemaParse _ _ ho =>
    subst ho
    have he' : e ∈ parseErrs .schema .parseSchema 0 r.schemaFiles := by simpa [outcomeOf] using he
    obtain ⟨hk, _, _, _, hlt⟩ := parseErrs_mem _ _ _ _ e he'
    apply key _ e hb
    refine ⟨e.diag.pos.file, ?_⟩
    rw [hk]
    exact getFile_schema _ _ _ (by simpa using hlt)
  | opParse _ _ _ ho =>
    subst ho
    have he' : e ∈ parseErrs .operation .parseOperation r.schemaFiles.length (r.opFiles.map (·.parse)) := by
      simpa [outcomeOf] using he
    obtain ⟨hk, _, _, hge, hlt⟩ := parseErrs_mem _ _ _ _ e he'
    apply key _ e hb
    refine ⟨e.diag.pos.file - r.schemaFiles.length, ?_⟩
    rw [hk]
    have := getFile_operation r.schemaFiles.length r.opFiles.length (e.diag.pos.file - r.schemaFiles.length)
      (by simp at hlt; omega)
    rwa [Nat.add_sub_cancel' hge] at this
  | commands _ _ _ ho =>
    subst ho
    have fin := (runCommands_spec r r.cmds St.init (Good.init r)).1
    have he' : e ∈ checkImpl r := by
      have he0 : e ∈ (runCommands r r.cmds St.init).1.diags := by simpa [outcomeOf] using he
      by_cases hc : Cmd.check ∈ (runCommands r r.cmds St.init).1.commandsRun
      · rw [fin.ran hc] at he0; exact he0
      · rw [fin.notRan hc] at he0; cases he0
    apply key _ e hb
    rcases hr e he' with hb' | ⟨hk, hlt⟩ | ⟨hk, hge, hlt⟩
    · rw [hb] at hb'; cases hb'
    · refine ⟨e.diag.pos.file, ?_⟩
      rw [hk]
      exact getFile_schema _ _ _ hlt
    · refine ⟨e.diag.pos.file - r.schemaFiles.length, ?_⟩
      rw [hk]
      have := getFile_operation r.schemaFiles.length r.opFiles.length (e.diag.pos.file - r.schemaFiles.length)
        (by omega)
      rwa [Nat.add_sub_cancel' hge] at this

theorem parseErrs_extra (k : FileKind) (c : Cls) (base : Nat) (fs : List ParseRes) :
    ∀ e ∈ parseErrs k c base fs, e.diag.extra = [] := by
  induction fs generalizing base with
  | nil => intro e he; simp [parseErrs] at he
  | cons f rest ih =>
    intro e he
    cases f with
    | ok => simp only [parseErrs] at he; exact ih _ e he
    | err l col t =>
      simp only [parseErrs, List.mem_cons] at he
      rcases he with rfl | he
      · rfl
      · exact ih _ e he

/-- when the check ran, all input files are in the store -/
theorem store_of_check_ran (r : Run) (o : Outcome) (h : runCli r = some o) (hc : Cmd.check ∈ o.commandsRun) :
    o.store = ⟨r.schemaFiles.length, r.opFiles.length⟩ := by
  obtain ⟨o', h', sh⟩ := runCli_shape r
  rw [h] at h'; cases h'
  cases sh with
  | noCommand _ ho => subst ho; simp [outcomeOf, St.init] at hc
  | schemaParse _ _ ho => subst ho; simp [outcomeOf, St.init] at hc
  | opParse _ _ _ ho => subst ho; simp [outcomeOf, St.init] at hc
  | commands _ _ _ ho => subst ho; rfl

/-! ### the composed model: where positions lie -/

/-- a schema position: built-in, or in one of the schema files -/
def SchemaPos (P : Project Text κ) (p : Gql.Pos) : Prop := p.builtin = true ∨ p.file < P.schemaTexts.length

/-- an operation position: in one of the operation files -/
def OpPos (P : Project Text κ) (p : Gql.Pos) : Prop :=
  p.builtin = true ∨ (P.schemaTexts.length ≤ p.file ∧ p.file < P.schemaTexts.length + P.ops.length)

theorem builtins_positions : ∀ p ∈ TsDoc.positions CliSchema.builtins, p.builtin = true := by decide

theorem schemaFiles_length (E : Env Text κ) (P : Project Text κ) :
    (stagesOf E P).schemaFiles.length = P.schemaTexts.length := by
  simp [stagesOf, schemaParses, length_mapFrom]

theorem opFiles_length (E : Env Text κ) (P : Project Text κ) : (stagesOf E P).opFiles.length = P.ops.length := by
  simp [stagesOf, views, length_mapFrom]

omit [DecidableEq κ] in
theorem import_positions_sub {D : Doc} {i : ImportDef} (hi : i ∈ importsOf D) : ∀ p ∈ i.positions, p ∈ Doc.positions D := by
  intro p hp'
  unfold importsOf at hi
  obtain ⟨d, hd, he⟩ := List.mem_filterMap.mp hi
  cases d <;> simp at he
  subst he
  exact List.mem_flatMap.mpr ⟨_, hd, hp'⟩

/-! ### the general statement: two predicates, one for schema positions, one for operation positions -/

section general
variable {E : Env Text κ} {P : Project Text κ} {QS QO : Gql.Pos → Prop}
  (hmerged : PQ QS (TsDoc.positions (mergedSchema E P)))
  (hops : ∀ v ∈ views E P, PQ QO (Doc.positions v.doc))
  (hpath : ∀ v ∈ views E P, ∀ i ∈ importsOf v.doc, QO (E.pathPos i))

include hmerged in
theorem resolvedSchema_QS : PQ QS (TsDoc.positions (resolvedSchema E P)) := by
  unfold resolvedSchema
  cases hq : ExtResolve.resolve (mergedSchema E P) with
  | ok T => exact Ext.resolve_PQ hmerged hq
  | error e => exact pq_nil

include hops in
theorem resolvedDoc_QO {v : OpView Text κ} (hv : v ∈ views E P) : PQ QO (Doc.positions (resolvedDoc E P v)) := by
  unfold Doc.positions
  rw [pq_flatMap]
  intro x hx
  obtain ⟨w, hw, hxw⟩ := mem_resolvedDoc hv hx
  exact (pq_flatMap.mp (hops w hw)) x (mem_defsOf hxw).1

theorem docAt_view {v : OpView Text κ} (hv : v ∈ views E P) {q : κ} {D : Doc}
    (h : docAt (opDocs E P) v.input.path v.doc q = some D) : ∃ w ∈ views E P, w.doc = D := by
  unfold docAt at h
  split at h
  · cases h; exact ⟨v, hv, rfl⟩
  · obtain ⟨w, hw, _, rfl⟩ := mem_opDocs (lookup_mem h)
    exact ⟨w, hw, rfl⟩

include hmerged hops hpath in
/-- **where the stage models report.**  If `QS` holds of every position of the merged schema document (the parsed
    schema files and the built-ins) and `QO` of every position of every parsed operation document and of every path
    literal, then every entry of `check_impl`'s result is a schema diagnostic at a `QS` position or an operation
    diagnostic at a `QO` position — provided the positions at which the operation checker would report a fault of
    the SCHEMA are harmless (`SchemaQ`) whenever the schema check accepted the schema. -/
theorem checkImpl_QQ
    (hS : CheckTs.checkSchema (resolvedSchema E P) = [] → SchemaQ ⟨resolvedSchema E P⟩ QO) :
    ∀ e ∈ checkImpl (stagesOf E P), ∃ p : Gql.Pos, e.diag.pos = toCli p ∧
      ((e.kind = .schema ∧ QS p) ∨ (e.kind = .operation ∧ QO p)) := by
  intro e he
  rcases checkImpl_cases (stagesOf E P) with ⟨d, hd, heq⟩ | ⟨_, _, heq⟩ | ⟨_, _, _, heq⟩ | ⟨_, _, _, _, heq⟩ |
      ⟨_, hsc, _, _, heq⟩
  · -- schema extension resolution
    rw [heq] at he
    simp at he
    subst he
    simp only [stagesOf] at hd
    cases hq : ExtResolve.resolve (mergedSchema E P) with
    | ok T => rw [hq] at hd; cases hd
    | error ee =>
      rw [hq] at hd
      simp only [Option.some.injEq] at hd
      subst hd
      exact ⟨_, rfl, Or.inl ⟨rfl, (Ext.resolve_err_PQ hmerged hq).1⟩⟩
  · -- schema check
    rw [heq] at he
    obtain ⟨hk, _, hd⟩ := mem_tagged.mp he
    simp only [stagesOf] at hd
    obtain ⟨x, hx, hxe⟩ := List.mem_map.mp hd
    have := Ts.checkSchema_Q _ (resolvedSchema_QS hmerged) x hx
    exact ⟨x.2, by rw [← hxe]; rfl, Or.inl ⟨hk, this⟩⟩
  · -- operation extension resolution
    rw [heq] at he
    obtain ⟨hk, _, hd⟩ := mem_tagged.mp he
    obtain ⟨f, hf, hfe⟩ := List.mem_filterMap.mp hd
    simp only [stagesOf] at hf
    obtain ⟨v, hv, rfl⟩ := List.mem_map.mp hf
    simp only [opFileOf] at hfe
    cases hq : extOf E.code v.doc with
    | ok imps => rw [hq] at hfe; cases hfe
    | error ee =>
      rw [hq] at hfe
      simp only [Option.some.injEq] at hfe
      obtain ⟨i, hi, hpos⟩ := extErr_line_exists hq
      refine ⟨_, by rw [← hfe]; rfl, Or.inr ⟨hk, ?_⟩⟩
      rw [hpos]
      exact hops v hv _ (import_pos_mem hi)
  · -- import resolution
    rw [heq] at he
    obtain ⟨hk, _, hd⟩ := mem_tagged.mp he
    obtain ⟨f, hf, hfe⟩ := List.mem_filterMap.mp hd
    simp only [stagesOf] at hf
    obtain ⟨v, hv, rfl⟩ := List.mem_map.mp hf
    simp only [opFileOf] at hfe
    cases hq : impOf E P v with
    | ok out => rw [hq] at hfe; cases hfe
    | outOfFuel => rw [hq] at hfe; cases hfe
    | err ee =>
      rw [hq] at hfe
      simp only [Option.some.injEq] at hfe
      obtain ⟨q, D, i, hD, hi, hpos⟩ := impErr_place E P v ee hq
      obtain ⟨w, hw, rfl⟩ := docAt_view hv hD
      refine ⟨_, by rw [← hfe]; rfl, Or.inr ⟨hk, ?_⟩⟩
      rcases hpos with hpos | hpos
      · rw [hpos]; exact hpath w hw i hi
      · exact hops w hw _ (import_positions_sub hi _ hpos)
  · -- operation check
    rw [heq] at he
    obtain ⟨hk, _, hd⟩ := mem_tagged.mp he
    obtain ⟨f, hf, hfe⟩ := List.mem_flatMap.mp hd
    simp only [stagesOf] at hf
    obtain ⟨v, hv, rfl⟩ := List.mem_map.mp hf
    simp only [opFileOf] at hfe
    obtain ⟨x, hx, hxe⟩ := List.mem_map.mp hfe
    have hts : CheckTs.checkSchema (resolvedSchema E P) = [] := by
      simp only [stagesOf, List.map_eq_nil_iff] at hsc
      exact hsc
    have := checkOp_Q (hS hts) (resolvedDoc_QO hops hv) x hx
    exact ⟨x.2, by rw [← hxe]; rfl, Or.inr ⟨hk, this⟩⟩

end general

variable {E : Env Text κ} {P : Project Text κ} (hp : ParserStamps E)
include hp

theorem mergedSchema_pos : PQ (SchemaPos P) (TsDoc.positions (mergedSchema E P)) := by
  unfold mergedSchema TsDoc.positions
  rw [List.flatMap_append]
  refine pq_append.mpr ⟨?_, fun p hp' => Or.inl (builtins_positions p hp')⟩
  rw [List.flatMap_assoc]
  rw [pq_flatMap]
  intro r hr
  obtain ⟨i, t, hit, rfl⟩ := (mem_schemaParses E P r).mp hr
  have hlt : i < P.schemaTexts.length := by
    rcases Nat.lt_or_ge i P.schemaTexts.length with h | h
    · exact h
    · rw [List.getElem?_eq_none h] at hit; cases hit
  cases hq : E.parseTs i t with
  | error e => simp [docOf]; exact pq_nil
  | ok T =>
    simp only [docOf]
    intro p hp'
    have := hp.ts i t T hq p hp'
    exact Or.inr (by rw [this.1]; exact hlt)

theorem view_doc_pos {v : OpView Text κ} (hv : v ∈ views E P) : PQ (OpPos P) (Doc.positions v.doc) := by
  obtain ⟨j, f, hjf, rfl⟩ := (mem_views E P v).mp hv
  have hlt : j < P.ops.length := by
    rcases Nat.lt_or_ge j P.ops.length with h | h
    · exact h
    · rw [List.getElem?_eq_none h] at hjf; cases hjf
  simp only [OpView.doc]
  cases hq : E.parseOp (P.schemaTexts.length + j) f.text with
  | error e => simp [docOf, Doc.positions]; exact pq_nil
  | ok D =>
    simp only [docOf]
    intro p hp'
    have := hp.op _ _ D hq p hp'
    exact Or.inr (by rw [this.1]; omega)

theorem pathPos_pos {v : OpView Text κ} (hv : v ∈ views E P) : ∀ i ∈ importsOf v.doc, OpPos P (E.pathPos i) := by
  intro i hi
  have hip := view_doc_pos hp hv _ (import_positions_sub hi i.pos (by simp [ImportDef.positions]))
  have hpp := hp.path i
  rcases hip with hb | hr
  · left; rw [hpp.2]; exact hb
  · right; rw [hpp.1]; exact hr

/-- **every entry of `check_impl`'s result, computed by the stage models, lies in a file of the kind it announces** —
    provided the schema check, when it accepts the resolved schema, leaves no undefined argument type / non-object
    union member (`SchemaQ`; discharged in `Lemmas/CliComposedChecked.lean`) -/
theorem checkImpl_inRange
    (hS : CheckTs.checkSchema (resolvedSchema E P) = [] → SchemaQ ⟨resolvedSchema E P⟩ (OpPos P)) :
    ∀ e ∈ checkImpl (stagesOf E P), InRange (stagesOf E P) e := by
  intro e he
  obtain ⟨p, hpe, hq⟩ := checkImpl_QQ (mergedSchema_pos hp) (fun v hv => view_doc_pos hp hv)
    (fun v hv => pathPos_pos hp hv) hS e he
  rcases hq with ⟨hk, hb | hlt⟩ | ⟨hk, hb | ⟨hge, hlt⟩⟩
  · left; rw [hpe]; exact hb
  · right; left; refine ⟨hk, ?_⟩; rw [hpe, schemaFiles_length]; exact hlt
  · left; rw [hpe]; exact hb
  · right; right; refine ⟨hk, ?_, ?_⟩
    · rw [hpe, schemaFiles_length]; exact hge
    · rw [hpe, schemaFiles_length, opFiles_length]; exact hlt

/-- a position of a parsed operation document carries the file index of that file -/
theorem view_doc_file {v : OpView Text κ} (hv : v ∈ views E P) :
    ∀ p ∈ Doc.positions v.doc, p.file = v.idx ∧ p.builtin = false := by
  obtain ⟨j, f, hjf, rfl⟩ := (mem_views E P v).mp hv
  simp only [OpView.doc]
  cases hq : E.parseOp (P.schemaTexts.length + j) f.text with
  | error e => intro p hp'; simp [docOf, Doc.positions] at hp'
  | ok D =>
    simp only [docOf]
    intro p hp'
    exact hp.op _ _ D hq p hp'

/-- the notes of every entry of `check_impl`'s result lie at built-in positions or in schema files -/
theorem checkImpl_extras : ∀ e ∈ checkImpl (stagesOf E P), ∀ q ∈ e.diag.extra,
    q.builtin = true ∨ q.file < P.schemaTexts.length := by
  intro e he q hq
  rcases checkImpl_cases (stagesOf E P) with ⟨d, hd, heq⟩ | ⟨_, _, heq⟩ | ⟨_, _, _, heq⟩ | ⟨_, _, _, _, heq⟩ |
      ⟨_, _, _, _, heq⟩
  · rw [heq] at he
    simp at he
    subst he
    simp only [stagesOf] at hd
    cases hr : ExtResolve.resolve (mergedSchema E P) with
    | ok T => rw [hr] at hd; cases hd
    | error ee =>
      rw [hr] at hd
      simp only [Option.some.injEq] at hd
      subst hd
      simp only [schemaExtDiag, List.mem_map] at hq
      obtain ⟨p, hpm, rfl⟩ := hq
      exact (Ext.resolve_err_PQ (mergedSchema_pos hp) hr).2 p hpm
  · rw [heq] at he
    obtain ⟨_, _, hd⟩ := mem_tagged.mp he
    simp only [stagesOf] at hd
    obtain ⟨x, _, hxe⟩ := List.mem_map.mp hd
    rw [← hxe] at hq
    simp [schemaCheckDiag] at hq
  · rw [heq] at he
    obtain ⟨_, _, hd⟩ := mem_tagged.mp he
    obtain ⟨f, hf, hfe⟩ := List.mem_filterMap.mp hd
    simp only [stagesOf] at hf
    obtain ⟨v, _, rfl⟩ := List.mem_map.mp hf
    simp only [opFileOf] at hfe
    cases hr : extOf E.code v.doc with
    | ok imps => rw [hr] at hfe; cases hfe
    | error ee =>
      rw [hr] at hfe
      simp only [Option.some.injEq] at hfe
      rw [← hfe] at hq
      simp [opExtDiag] at hq
  · rw [heq] at he
    obtain ⟨_, _, hd⟩ := mem_tagged.mp he
    obtain ⟨f, hf, hfe⟩ := List.mem_filterMap.mp hd
    simp only [stagesOf] at hf
    obtain ⟨v, _, rfl⟩ := List.mem_map.mp hf
    simp only [opFileOf] at hfe
    cases hr : impOf E P v with
    | ok out => rw [hr] at hfe; cases hfe
    | outOfFuel => rw [hr] at hfe; cases hfe
    | err ee =>
      rw [hr] at hfe
      simp only [Option.some.injEq] at hfe
      rw [← hfe] at hq
      cases ee <;> simp [opImportDiag, impErrExtra] at hq
      subst hq
      left; rfl
  · rw [heq] at he
    obtain ⟨_, _, hd⟩ := mem_tagged.mp he
    obtain ⟨f, hf, hfe⟩ := List.mem_flatMap.mp hd
    simp only [stagesOf] at hf
    obtain ⟨v, _, rfl⟩ := List.mem_map.mp hf
    simp only [opFileOf] at hfe
    obtain ⟨x, _, hxe⟩ := List.mem_map.mp hfe
    rw [← hxe] at hq
    simp [opCheckDiag] at hq

end
end NitroVerif.CliComposed
