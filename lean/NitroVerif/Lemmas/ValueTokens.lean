import NitroVerif.Lemmas.GqlTokens
/-!
C16, token level for Value and Directive: the significant tokens the printer writes are the canonical token
stream, and the specification's token parser reads the canonical stream back.
-/
namespace NitroVerif.C16
open NitroVerif.Gql NitroVerif.GqlPrint NitroVerif.GqlTokens

theorem lex_sp : lex sp = [] := rfl
theorem lex_nl : lex nl = [] := rfl

mutual
theorem toks_value : (v : Value) → (printValue v).flatMap lex = valueToks v
  | .var n _ => by simp [printValue, valueToks, lex]
  | .int s _ => by simp [printValue, valueToks, lex]
  | .float s _ => by simp [printValue, valueToks, lex]
  | .str s _ => by simp [printValue, valueToks, lex]
  | .bool b _ => by simp [printValue, valueToks, lex]
  | .null _ => by simp [printValue, valueToks, lex]
  | .enum n _ => by simp [printValue, valueToks, lex]
  | .list vs _ => by
    have := toks_valueList vs true
    simp [printValue, valueToks, lex, List.flatMap_append, this]
  | .obj [] _ => by simp [printValue, valueToks, fieldToks, lex]
  | .obj [(k, _, v)] _ => by
    have := toks_value v
    simp [printValue, valueToks, fieldToks, lex, sp, List.flatMap_append, this]
  | .obj (f1 :: f2 :: fs) _ => by
    have := toks_fieldLines (f1 :: f2 :: fs)
    simp [printValue, valueToks, lex, nl, List.flatMap_append, this]
theorem toks_valueList : (vs : List Value) → (b : Bool) → (printValueList vs b).flatMap lex = valueListToks vs
  | [], _ => by simp [printValueList, valueListToks]
  | v :: vs, b => by
    have h1 := toks_value v
    have h2 := toks_valueList vs false
    cases b <;> simp [printValueList, valueListToks, lex, List.flatMap_append, h1, h2]
theorem toks_fieldLines : (fs : List (Name × Pos × Value)) → (printFieldLines fs).flatMap lex = fieldToks fs
  | [] => by simp [printFieldLines, fieldToks]
  | (k, _, v) :: r => by
    have h1 := toks_value v
    have h2 := toks_fieldLines r
    simp [printFieldLines, fieldToks, lex, sp, nl, List.flatMap_append, h1, h2]
end

theorem toks_args : (as : List Arg) → (printArgs as).flatMap lex = argsToks as
  | [] => by simp [printArgs, argsToks]
  | [(k, _, v)] => by
    simp [printArgs, argsToks, fieldToks, lex, sp, List.flatMap_append, toks_value v]
  | a1 :: a2 :: as => by
    simp [printArgs, argsToks, lex, nl, List.flatMap_append, toks_fieldLines (a1 :: a2 :: as)]

/-! ### reading the canonical stream back -/

theorem size_pos (v : Value) : 1 ≤ v.size := by
  cases v <;> simp [Value.size]

/-- a value never starts with `]`: `parseValues` goes on to read it -/
theorem parseValues_step (v : Value) (f : Nat) (X : List LTok) (w : Value) (r' : List LTok)
    (h : parseValue f (valueToks v ++ X) = some (w, r')) :
    parseValues (f + 1) (valueToks v ++ X) = (parseValues f r').map fun x => (w :: x.1, x.2) := by
  cases v <;> simp only [valueToks, List.cons_append, List.nil_append, List.append_assoc] at h ⊢ <;>
    simp [parseValues, h]

theorem succ_of_pos (f : Nat) (h : 1 ≤ f) : ∃ g, f = g + 1 := ⟨f - 1, by omega⟩

mutual
theorem parse_value : (v : Value) → wfValue v = true → ∀ (rest : List LTok) (f : Nat), 2 * v.size ≤ f →
    parseValue f (valueToks v ++ rest) = some (v.erasePos, rest)
  | .var n p, _, rest, f, hf => by
    obtain ⟨g, rfl⟩ := succ_of_pos f (by simp [Value.size] at hf; omega)
    simp [valueToks, parseValue, Value.erasePos]
  | .int s p, _, rest, f, hf => by
    obtain ⟨g, rfl⟩ := succ_of_pos f (by simp [Value.size] at hf; omega)
    simp [valueToks, parseValue, Value.erasePos]
  | .float s p, _, rest, f, hf => by
    obtain ⟨g, rfl⟩ := succ_of_pos f (by simp [Value.size] at hf; omega)
    simp [valueToks, parseValue, Value.erasePos]
  | .str s p, _, rest, f, hf => by
    obtain ⟨g, rfl⟩ := succ_of_pos f (by simp [Value.size] at hf; omega)
    simp [valueToks, parseValue, Value.erasePos]
  | .bool b p, _, rest, f, hf => by
    obtain ⟨g, rfl⟩ := succ_of_pos f (by simp [Value.size] at hf; omega)
    cases b <;> simp [valueToks, parseValue, nameValue, Value.erasePos]
  | .null p, _, rest, f, hf => by
    obtain ⟨g, rfl⟩ := succ_of_pos f (by simp [Value.size] at hf; omega)
    simp [valueToks, parseValue, nameValue, Value.erasePos]
  | .enum n p, hwf, rest, f, hf => by
    obtain ⟨g, rfl⟩ := succ_of_pos f (by simp [Value.size] at hf; omega)
    simp [wfValue, okEnum] at hwf
    simp [valueToks, parseValue, nameValue, Value.erasePos, hwf]
  | .list vs p, hwf, rest, f, hf => by
    obtain ⟨g, rfl⟩ := succ_of_pos f (by simp [Value.size] at hf; omega)
    have := parse_values vs (by simpa [wfValue] using hwf) rest g (by simp [Value.size] at hf; omega)
    simp [valueToks, parseValue, this, Value.erasePos]
  | .obj fs p, hwf, rest, f, hf => by
    obtain ⟨g, rfl⟩ := succ_of_pos f (by simp [Value.size] at hf; omega)
    have := parse_fields "}" fs (by simpa [wfValue] using hwf) rest g (by simp [Value.size] at hf; omega)
    simp [valueToks, parseValue, this, Value.erasePos]
theorem parse_values : (vs : List Value) → wfValueList vs = true → ∀ (rest : List LTok) (f : Nat),
    2 * Value.sizeList vs + 1 ≤ f →
    parseValues f (valueListToks vs ++ LTok.p "]" :: rest) = some (Value.erasePosList vs, rest)
  | [], _, rest, f, hf => by
    obtain ⟨g, rfl⟩ := succ_of_pos f (by omega)
    simp [valueListToks, parseValues, Value.erasePosList]
  | v :: vs, hwf, rest, f, hf => by
    obtain ⟨g, rfl⟩ := succ_of_pos f (by omega)
    simp only [wfValueList, Bool.and_eq_true] at hwf
    have hs := size_pos v
    simp only [Value.sizeList] at hf
    have hv := parse_value v hwf.1 (valueListToks vs ++ LTok.p "]" :: rest) g (by omega)
    have hvs := parse_values vs hwf.2 rest g (by omega)
    rw [valueListToks, List.append_assoc, parseValues_step _ _ _ _ _ hv, hvs]
    simp [Value.erasePosList]
theorem parse_fields (close : String) : (fs : List (Name × Pos × Value)) → wfFields fs = true →
    ∀ (rest : List LTok) (f : Nat), 2 * Value.sizeFields fs + 1 ≤ f →
    parseFields close f (fieldToks fs ++ LTok.p close :: rest) = some (Value.erasePosFields fs, rest)
  | [], _, rest, f, hf => by
    obtain ⟨g, rfl⟩ := succ_of_pos f (by omega)
    simp [fieldToks, parseFields, Value.erasePosFields]
  | (k, p, v) :: r, hwf, rest, f, hf => by
    obtain ⟨g, rfl⟩ := succ_of_pos f (by omega)
    simp only [wfFields, Bool.and_eq_true] at hwf
    have hs := size_pos v
    simp only [Value.sizeFields] at hf
    have hv := parse_value v hwf.1 (fieldToks r ++ LTok.p close :: rest) g (by omega)
    have hr := parse_fields close r hwf.2 rest g (by omega)
    simp [fieldToks, parseFields, hv, hr, Value.erasePosFields]
end

/-! ### selections, variable definitions, operations, fragments: printed significant tokens = canonical stream -/

theorem toks_directive (d : Directive) : (printDirective d).flatMap lex = directiveToks d := by
  simp [printDirective, directiveToks, lex, List.flatMap_append, toks_args]

theorem toks_dirs (ds : List Directive) : (printDirs ds).flatMap lex = dirsToks ds := by
  induction ds with
  | nil => simp [printDirs, dirsToks]
  | cons d ds ih => simp [printDirs, dirsToks, lex, sp, List.flatMap_append, toks_directive, ih]

theorem toks_type (t : GType) : (printType t).flatMap lex = typeToks t := by
  induction t with
  | named n p => rfl
  | list t p ih => simp [printType, typeToks, List.flatMap_append, lex, ih]
  | nonNull t ih => simp [printType, typeToks, List.flatMap_append, lex, ih]

mutual
theorem toks_selection : (s : Selection) → (printSelection s).flatMap lex = selectionToks s
  | .field al n _ as ds none => by
    rcases al with _ | ⟨a, p⟩ <;>
      simp [printSelection, selectionToks, lex, sp, List.flatMap_append, toks_args, toks_dirs]
  | .field al n _ as ds (some xs) => by
    have := toks_selLines xs
    rcases al with _ | ⟨a, p⟩ <;>
      simp [printSelection, selectionToks, lex, sp, nl, List.flatMap_append, toks_args, toks_dirs, this]
  | .spread n _ ds _ => by simp [printSelection, selectionToks, lex, sp, List.flatMap_append, toks_dirs]
  | .inline c ds ss _ => by
    have := toks_selLines ss
    rcases c with _ | ⟨t, p⟩ <;>
      simp [printSelection, selectionToks, lex, sp, nl, List.flatMap_append, toks_dirs, this]
theorem toks_selLines : (ss : List Selection) → (printSelLines ss).flatMap lex = selectionsToks ss
  | [] => by simp [printSelLines, selectionsToks]
  | s :: ss => by
    have h1 := toks_selection s
    have h2 := toks_selLines ss
    simp [printSelLines, selectionsToks, lex, nl, List.flatMap_append, h1, h2]
end

theorem toks_selSet (ss : List Selection) : (printSelSet ss).flatMap lex = selectionSetToks ss := by
  simp [printSelSet, selectionSetToks, lex, nl, List.flatMap_append, toks_selLines]

theorem toks_varDef (v : VarDef) : (printVarDef v).flatMap lex = varDefToks v := by
  cases h : v.default <;>
    simp [printVarDef, varDefToks, h, lex, sp, List.flatMap_append, toks_type, toks_value, toks_dirs]

theorem toks_varDefsSep (vs : List VarDef) : ∀ b, (printVarDefsSep vs b).flatMap lex = varDefListToks vs := by
  induction vs with
  | nil => intro b; simp [printVarDefsSep, varDefListToks]
  | cons v vs ih =>
    intro b
    cases b <;> simp [printVarDefsSep, varDefListToks, lex, List.flatMap_append, toks_varDef, ih]

theorem toks_varDefs : (vs : List VarDef) → (printVarDefs vs).flatMap lex = varDefsToks vs
  | [] => by simp [printVarDefs, varDefsToks]
  | [v] => by simp [printVarDefs, varDefsToks, varDefListToks, lex, List.flatMap_append, toks_varDef]
  | v1 :: v2 :: vs => by
    simp [printVarDefs, varDefsToks, lex, nl, List.flatMap_append, toks_varDefsSep]

theorem toks_operation (o : OperationDef) : (printOperation o).flatMap lex = operationToks o := by
  rcases h : o.name with _ | ⟨n, p⟩ <;>
    simp [printOperation, operationToks, h, lex, sp, nl, List.flatMap_append, toks_varDefs, toks_dirs, toks_selSet]

theorem toks_fragment (f : FragmentDef) : (printFragment f).flatMap lex = fragmentToks f := by
  simp [printFragment, fragmentToks, lex, sp, nl, List.flatMap_append, toks_dirs, toks_selSet]

end NitroVerif.C16
