/-
Helper lemmas for C12 (part 2): the code's fragment collection (`Model/FragClosure.lean`) is the textbook
depth-first search over the spread graph (`Spec/ReadDoc.lean visit`), and that search is correct:
its result extends the visited list, has no duplicates, is closed under "spreads", contains only reachable
names, and never exhausts a depth bound ≥ the number of unseen defined names.
-/
import NitroVerif.Model.FragClosure
import NitroVerif.Spec.ReadDoc
namespace NitroVerif.C12
open NitroVerif NitroVerif.Gql NitroVerif.FragClosure NitroVerif.ReadDoc

/-! ### the walk over selection trees is a fold over the directly spread names -/

theorem visitAll_append (v : Name → List Name → Option (List Name)) (a b : List Name) (vis : List Name) :
    visitAll v (a ++ b) vis = match visitAll v a vis with
      | some r => visitAll v b r
      | none => none := by
  induction a generalizing vis with
  | nil => simp [visitAll]
  | cons c cs ih =>
    simp only [List.cons_append, visitAll]
    cases v c vis with
    | none => rfl
    | some r => exact ih r

/-- the fragment environment seen by the reference: name ↦ body -/
def envOfGet (get : Name → Option FragmentDef) : Env := fun n => (get n).map (·.sel)

mutual
theorem walkSel_eq (get : Name → Option FragmentDef) (recF : List Selection → List Name → Option (List Name))
    (v : Name → List Name → Option (List Name))
    (hv : ∀ n names, v n names = if n ∈ names then some names else
      match get n with
      | none => some (names ++ [n])
      | some f => recF f.sel (names ++ [n])) :
    (s : Selection) → (names : List Name) → walkSel recF get s names = visitAll v (spreadsSel s) names
  | .field _ _ _ _ _ (some ss), names => by
    simp only [walkSel, spreadsSel]; exact walkSels_eq get recF v hv ss names
  | .field _ _ _ _ _ none, names => by simp [walkSel, spreadsSel, visitAll]
  | .spread n _ _ _, names => by
    simp only [walkSel, spreadsSel, visitAll, hv]
    by_cases h : n ∈ names
    · simp [h]
    · simp only [h, if_false]
      cases get n with
      | none => rfl
      | some f => simp only []; cases recF f.sel (names ++ [n]) <;> rfl
  | .inline _ _ ss _, names => by
    simp only [walkSel, spreadsSel]; exact walkSels_eq get recF v hv ss names
theorem walkSels_eq (get : Name → Option FragmentDef) (recF : List Selection → List Name → Option (List Name))
    (v : Name → List Name → Option (List Name))
    (hv : ∀ n names, v n names = if n ∈ names then some names else
      match get n with
      | none => some (names ++ [n])
      | some f => recF f.sel (names ++ [n])) :
    (ss : List Selection) → (names : List Name) → walkSels recF get ss names = visitAll v (spreads ss) names
  | [], names => by simp [walkSels, spreads, visitAll]
  | s :: r, names => by
    simp only [walkSels, spreads, visitAll_append, walkSel_eq get recF v hv s names]
    cases visitAll v (spreadsSel s) names with
    | none => rfl
    | some r' => exact walkSels_eq get recF v hv r r'
end

/-- the code's collection is the reference depth-first search, bound for bound -/
theorem collect_eq_visitAll (get : Name → Option FragmentDef) :
    ∀ (d : Nat) (ss : List Selection) (names : List Name),
      FragClosure.collect get (d + 1) ss names = visitAll (visit (envOfGet get) d) (spreads ss) names := by
  intro d
  induction d with
  | zero =>
    intro ss names
    simp only [FragClosure.collect]
    apply walkSels_eq
    intro n names
    unfold visit
    by_cases h : n ∈ names
    · simp [h]
    · simp only [h, if_false, envOfGet]
      cases get n with
      | none => simp
      | some f => simp
  | succ d ih =>
    intro ss names
    rw [FragClosure.collect]
    apply walkSels_eq
    intro n names
    conv => lhs; unfold visit
    by_cases h : n ∈ names
    · simp [h]
    · simp only [h, if_false, envOfGet]
      cases get n with
      | none => simp
      | some f => simp [ih]

/-! ### correctness of the depth-first search -/

/-- `y`'s direct spreads are all in `r` -/
def ClosedAt (env : Env) (y : Name) (r : List Name) : Prop :=
  ∀ body, env y = some body → ∀ c ∈ spreads body, c ∈ r

/-- `P` is preserved by "the body of a `P` fragment spreads …" -/
def StepClosed (env : Env) (P : Name → Prop) : Prop :=
  ∀ y body c, P y → env y = some body → c ∈ spreads body → P c

/-- what one (or a sequence of) visit(s) of the targets `cs` guarantees about start `vis` and result `r` -/
structure Good (env : Env) (vis cs r : List Name) : Prop where
  sub : ∀ y ∈ vis, y ∈ r
  targets : ∀ c ∈ cs, c ∈ r
  nodup : vis.Nodup → r.Nodup
  closed : ∀ y ∈ r, y ∉ vis → ClosedAt env y r
  sound : ∀ P : Name → Prop, StepClosed env P → (∀ c ∈ cs, P c) → ∀ y ∈ r, y ∈ vis ∨ P y

theorem good_visitAll (env : Env) (v : Name → List Name → Option (List Name))
    (hv : ∀ c vis r, v c vis = some r → Good env vis [c] r) :
    ∀ (cs vis r : List Name), visitAll v cs vis = some r → Good env vis cs r := by
  intro cs
  induction cs with
  | nil =>
    intro vis r h
    simp only [visitAll, Option.some.injEq] at h
    subst h
    exact ⟨fun _ h => h, by simp, id, fun y hy hn => absurd hy hn, fun _ _ _ y hy => Or.inl hy⟩
  | cons c cs ih =>
    intro vis r h
    simp only [visitAll] at h
    cases h1 : v c vis with
    | none => simp [h1] at h
    | some r1 =>
      simp only [h1] at h
      have g1 := hv c vis r1 h1
      have g2 := ih r1 r h
      refine ⟨fun y hy => g2.sub y (g1.sub y hy), ?_, fun hn => g2.nodup (g1.nodup hn), ?_, ?_⟩
      · intro x hx
        rcases List.mem_cons.mp hx with rfl | hx
        · exact g2.sub _ (g1.targets _ (by simp))
        · exact g2.targets x hx
      · intro y hy hn
        by_cases hy1 : y ∈ r1
        · intro body hb c' hc'
          exact g2.sub _ (g1.closed y hy1 hn body hb c' hc')
        · exact g2.closed y hy hy1
      · intro P hP hcs y hy
        rcases g2.sound P hP (fun c' hc' => hcs c' (by simp [hc'])) y hy with h' | h'
        · exact g1.sound P hP (fun c' hc' => by simp at hc'; subst hc'; exact hcs _ (by simp)) y h'
        · exact Or.inr h'

theorem good_visit (env : Env) : ∀ (d : Nat) (x : Name) (vis r : List Name),
    visit env d x vis = some r → Good env vis [x] r := by
  intro d
  induction d with
  | zero =>
    intro x vis r h
    unfold visit at h
    by_cases hx : x ∈ vis
    · simp only [hx, if_true, Option.some.injEq] at h
      subst h
      exact ⟨fun _ h => h, by simpa using hx, id, fun y hy hn => absurd hy hn, fun _ _ _ y hy => Or.inl hy⟩
    · simp only [hx, if_false] at h
      cases he : env x with
      | some body => simp [he] at h
      | none =>
        simp only [he, Option.some.injEq] at h
        subst h
        refine ⟨fun y hy => by simp [hy], by simp, fun hn => ?_, ?_, ?_⟩
        · exact List.nodup_append.mpr ⟨hn, by simp, by intro a ha b hb; simp at hb; subst hb; intro e; subst e; exact hx ha⟩
        · intro y hy hn body hb
          simp only [List.mem_append, List.mem_singleton] at hy
          rcases hy with hy | rfl
          · exact absurd hy hn
          · simp [he] at hb
        · intro P _ hcs y hy
          simp only [List.mem_append, List.mem_singleton] at hy
          rcases hy with hy | rfl
          · exact Or.inl hy
          · exact Or.inr (hcs _ (by simp))
  | succ d ih =>
    intro x vis r h
    unfold visit at h
    by_cases hx : x ∈ vis
    · simp only [hx, if_true, Option.some.injEq] at h
      subst h
      exact ⟨fun _ h => h, by simpa using hx, id, fun y hy hn => absurd hy hn, fun _ _ _ y hy => Or.inl hy⟩
    · simp only [hx, if_false] at h
      cases he : env x with
      | none =>
        simp only [he, Option.some.injEq] at h
        subst h
        refine ⟨fun y hy => by simp [hy], by simp, fun hn => ?_, ?_, ?_⟩
        · exact List.nodup_append.mpr ⟨hn, by simp, by intro a ha b hb; simp at hb; subst hb; intro e; subst e; exact hx ha⟩
        · intro y hy hn body hb
          simp only [List.mem_append, List.mem_singleton] at hy
          rcases hy with hy | rfl
          · exact absurd hy hn
          · simp [he] at hb
        · intro P _ hcs y hy
          simp only [List.mem_append, List.mem_singleton] at hy
          rcases hy with hy | rfl
          · exact Or.inl hy
          · exact Or.inr (hcs _ (by simp))
      | some body =>
        simp only [he] at h
        have g := good_visitAll env (visit env d) ih (spreads body) (vis ++ [x]) r h
        have hxr : x ∈ r := g.sub x (by simp)
        refine ⟨fun y hy => g.sub y (by simp [hy]), by simpa using hxr, fun hn => g.nodup ?_, ?_, ?_⟩
        · exact List.nodup_append.mpr ⟨hn, by simp, by intro a ha b hb; simp at hb; subst hb; intro e; subst e; exact hx ha⟩
        · intro y hy hn
          by_cases hyx : y = x
          · subst hyx
            intro body' hb' c hc
            rw [he] at hb'
            cases hb'
            exact g.targets c hc
          · exact g.closed y hy (by simp [hn, hyx])
        · intro P hP hcs y hy
          have hPx : P x := hcs x (by simp)
          rcases g.sound P hP (fun c hc => hP x body c hPx he hc) y hy with h' | h'
          · simp only [List.mem_append, List.mem_singleton] at h'
            rcases h' with h' | rfl
            · exact Or.inl h'
            · exact Or.inr hPx
          · exact Or.inr h'

/-! ### the depth bound is never exhausted -/

/-- number of elements of `dom` (the defined names, with repetitions) that are not yet visited -/
def unseen (dom vis : List Name) : Nat := dom.countP (fun x => decide (x ∉ vis))

theorem unseen_mono (dom vis vis' : List Name) (h : ∀ y ∈ vis, y ∈ vis') : unseen dom vis' ≤ unseen dom vis := by
  unfold unseen
  apply List.countP_mono_left
  intro x _ hx
  simp only [decide_eq_true_eq] at hx ⊢
  exact fun hv => hx (h x hv)

theorem unseen_lt (dom vis : List Name) (x : Name) (hd : x ∈ dom) (hx : x ∉ vis) :
    unseen dom (vis ++ [x]) < unseen dom vis := by
  unfold unseen
  induction dom with
  | nil => simp at hd
  | cons a dom ih =>
    simp only [List.countP_cons]
    by_cases hax : a = x
    · subst hax
      have h1 : decide (a ∉ vis ++ [a]) = false := by simp
      have h2 : decide (a ∉ vis) = true := by simp [hx]
      have := unseen_mono dom vis (vis ++ [a]) (fun y hy => by simp [hy])
      unfold unseen at this
      simp only [h1, h2, Bool.false_eq_true, if_false, if_true, Nat.add_zero]
      omega
    · have hd' : x ∈ dom := by
        rcases List.mem_cons.mp hd with h | h
        · exact absurd h.symm hax
        · exact h
      have := ih hd'
      have h3 : decide (a ∉ vis ++ [x]) = decide (a ∉ vis) := by simp [hax]
      rw [h3]
      omega

theorem total_visitAll (env : Env) (dom : List Name) (d : Nat)
    (hv : ∀ x vis, unseen dom vis ≤ d → ∃ r, visit env d x vis = some r) :
    ∀ (cs vis : List Name), unseen dom vis ≤ d → ∃ r, visitAll (visit env d) cs vis = some r := by
  intro cs
  induction cs with
  | nil => intro vis _; exact ⟨vis, rfl⟩
  | cons c cs ih =>
    intro vis h
    obtain ⟨r1, h1⟩ := hv c vis h
    have g := good_visit env d c vis r1 h1
    have := unseen_mono dom vis r1 g.sub
    obtain ⟨r, hr⟩ := ih r1 (by omega)
    exact ⟨r, by simp [visitAll, h1, hr]⟩

theorem total_visit (env : Env) (dom : List Name) (hdom : ∀ x body, env x = some body → x ∈ dom) :
    ∀ (d : Nat) (x : Name) (vis : List Name), unseen dom vis ≤ d → ∃ r, visit env d x vis = some r := by
  intro d
  induction d with
  | zero =>
    intro x vis h
    unfold visit
    by_cases hx : x ∈ vis
    · exact ⟨vis, by simp [hx]⟩
    · cases he : env x with
      | none => exact ⟨vis ++ [x], by simp [hx]⟩
      | some body =>
        have := unseen_lt dom vis x (hdom x body he) hx
        omega
  | succ d ih =>
    intro x vis h
    unfold visit
    by_cases hx : x ∈ vis
    · exact ⟨vis, by simp [hx]⟩
    · cases he : env x with
      | none => exact ⟨vis ++ [x], by simp [hx]⟩
      | some body =>
        have := unseen_lt dom vis x (hdom x body he) hx
        obtain ⟨r, hr⟩ := total_visitAll env dom d ih (spreads body) (vis ++ [x]) (by omega)
        exact ⟨r, by simp [hx, hr]⟩

/-- the reference closure is total when the bound is at least the number of defined names -/
theorem closure_total (env : Env) (dom : List Name) (hdom : ∀ x body, env x = some body → x ∈ dom)
    (bound : Nat) (hb : dom.length ≤ bound) (ss : List Selection) : ∃ ns, closure env bound ss = some ns := by
  unfold closure
  apply total_visitAll env dom bound (total_visit env dom hdom bound)
  unfold unseen
  exact Nat.le_trans (List.countP_le_length) hb

/-- everything the reference closure returns, and only that, is transitively spread -/
theorem closure_good (env : Env) (bound : Nat) (ss : List Selection) (ns : List Name)
    (h : closure env bound ss = some ns) :
    ns.Nodup ∧ ∀ n, n ∈ ns ↔ Reach env ss n := by
  have g := good_visitAll env (visit env bound) (good_visit env bound) (spreads ss) [] ns h
  refine ⟨g.nodup List.nodup_nil, fun n => ⟨fun hn => ?_, fun hr => ?_⟩⟩
  · have := g.sound (Reach env ss) (fun y body c hy he hc => Reach.step hy he (Reach.direct hc))
      (fun c hc => Reach.direct hc) n hn
    simpa using this
  · -- the result contains the direct spreads and is closed under "spreads of the body"
    have key : ∀ body m, Reach env body m → (∀ c ∈ spreads body, c ∈ ns) → m ∈ ns := by
      intro body m hm
      induction hm with
      | direct hc => intro hroots; exact hroots _ hc
      | step _ he _ ih1 ih2 =>
        intro hroots
        have hm := ih1 hroots
        exact ih2 (fun c hc => g.closed _ hm (by simp) _ he c hc)
    exact key ss n hr g.targets

/-! ### the model's environment -/

def fragNamesOf : List ExecDef → List Name
  | [] => []
  | .frag f :: r => f.name :: fragNamesOf r
  | _ :: r => fragNamesOf r

theorem fragNamesOf_length (defs : List ExecDef) : (fragNamesOf defs).length ≤ defs.length := by
  induction defs with
  | nil => simp [fragNamesOf]
  | cons d r ih => cases d <;> simp [fragNamesOf] <;> omega

theorem getFrag_some (defs : List ExecDef) (n : Name) (f : FragmentDef) (h : getFrag defs n = some f) :
    f.name = n ∧ n ∈ fragNamesOf defs ∧ ExecDef.frag f ∈ defs := by
  induction defs with
  | nil => simp [getFrag] at h
  | cons d r ih =>
    cases d with
    | frag g =>
      simp only [getFrag] at h
      cases hr : getFrag r n with
      | some g' =>
        simp only [hr, Option.some.injEq] at h
        subst h
        obtain ⟨h1, h2, h3⟩ := ih hr
        exact ⟨h1, by simp [fragNamesOf, h2], by simp [h3]⟩
      | none =>
        simp only [hr] at h
        by_cases hn : g.name = n
        · simp only [hn, if_true, Option.some.injEq] at h
          subst h
          exact ⟨hn, by simp [fragNamesOf, hn], by simp⟩
        · simp [hn] at h
    | op o =>
      simp only [getFrag] at h
      obtain ⟨h1, h2, h3⟩ := ih h
      exact ⟨h1, by simp [fragNamesOf, h2], by simp [h3]⟩
    | imp i =>
      simp only [getFrag] at h
      obtain ⟨h1, h2, h3⟩ := ih h
      exact ⟨h1, by simp [fragNamesOf, h2], by simp [h3]⟩

theorem getFrag_none (defs : List ExecDef) (n : Name) (h : n ∉ fragNamesOf defs) : getFrag defs n = none := by
  cases hg : getFrag defs n with
  | none => rfl
  | some f => exact absurd (getFrag_some defs n f hg).2.1 h

/-- when fragment names are unique, `fragments.get(name)` is THE fragment definition of that name -/
theorem getFrag_unique (defs : List ExecDef) (hu : (fragNamesOf defs).Nodup) (f : FragmentDef)
    (hf : ExecDef.frag f ∈ defs) : getFrag defs f.name = some f := by
  induction defs with
  | nil => simp at hf
  | cons d r ih =>
    cases d with
    | frag g =>
      simp only [fragNamesOf, List.nodup_cons] at hu
      simp only [List.mem_cons, ExecDef.frag.injEq] at hf
      rcases hf with rfl | hf
      · simp [getFrag, getFrag_none r _ hu.1]
      · simp [getFrag, ih hu.2 hf]
    | op o =>
      simp only [fragNamesOf] at hu
      simp only [List.mem_cons] at hf
      rcases hf with hf | hf
      · cases hf
      · simp [getFrag, ih hu hf]
    | imp i =>
      simp only [fragNamesOf] at hu
      simp only [List.mem_cons] at hf
      rcases hf with hf | hf
      · cases hf
      · simp [getFrag, ih hu hf]

/-- the fragment environment of a document: name ↦ body of the fragment definition of that name -/
def envOf (defs : List ExecDef) : Env := envOfGet (getFrag defs)

/-- the fragment definitions named by `names`, in that order -/
def fragDefs (defs : List ExecDef) (names : List Name) : List ExecDef :=
  names.filterMap fun n => (getFrag defs n).map ExecDef.frag

theorem mem_fragDefs (defs : List ExecDef) (names : List Name) (d : ExecDef) :
    d ∈ fragDefs defs names ↔ ∃ n g, n ∈ names ∧ getFrag defs n = some g ∧ d = .frag g := by
  simp only [fragDefs, List.mem_filterMap, Option.map_eq_some_iff]
  constructor
  · rintro ⟨n, hn, g, hg, rfl⟩; exact ⟨n, g, hn, hg, rfl⟩
  · rintro ⟨n, g, hn, hg, rfl⟩; exact ⟨n, hn, g, hg, rfl⟩

theorem lookupAll_ok (defs : List ExecDef) (names : List Name) (h : ∀ n ∈ names, (getFrag defs n).isSome) :
    lookupAll defs names = .ok (fragDefs defs names) := by
  induction names with
  | nil => rfl
  | cons n r ih =>
    have hn := h n (by simp)
    have ih := ih (fun m hm => h m (by simp [hm]))
    cases hg : getFrag defs n with
    | none => simp [hg] at hn
    | some f => simp [lookupAll, hg, ih, fragDefs]

theorem lookupAll_ok_inv (defs : List ExecDef) (names : List Name) (ds : List ExecDef)
    (h : lookupAll defs names = .ok ds) : (∀ n ∈ names, (getFrag defs n).isSome) ∧ ds = fragDefs defs names := by
  induction names generalizing ds with
  | nil => simp only [lookupAll, Except.ok.injEq] at h; subst h; simp [fragDefs]
  | cons n r ih =>
    simp only [lookupAll] at h
    cases hg : getFrag defs n with
    | none => simp [hg] at h
    | some f =>
      simp only [hg] at h
      cases hr : lookupAll defs r with
      | error e => simp [hr] at h
      | ok fs =>
        simp only [hr, Except.ok.injEq] at h
        obtain ⟨h1, h2⟩ := ih fs hr
        subst h h2
        refine ⟨?_, by simp [fragDefs, hg]⟩
        intro m hm
        rcases List.mem_cons.mp hm with rfl | hm
        · simp [hg]
        · exact h1 m hm

theorem lookupAll_error (defs : List ExecDef) (names : List Name) (e : RtErr)
    (h : lookupAll defs names = .error e) : ∃ n ∈ names, getFrag defs n = none ∧ e = .fragmentNotFound n := by
  induction names with
  | nil => simp [lookupAll] at h
  | cons n r ih =>
    simp only [lookupAll] at h
    cases hg : getFrag defs n with
    | none =>
      simp only [hg, Except.error.injEq] at h
      exact ⟨n, by simp, hg, h.symm⟩
    | some f =>
      simp only [hg] at h
      cases hr : lookupAll defs r with
      | ok fs => simp [hr] at h
      | error e' =>
        simp only [hr, Except.error.injEq] at h
        subst h
        obtain ⟨m, hm, h1, h2⟩ := ih hr
        exact ⟨m, by simp [hm], h1, h2⟩

/-- the names the model collects are the reference closure, in the same (first-visit) order -/
theorem fragmentNames_eq_closure (defs : List ExecDef) (ss : List Selection) :
    fragmentNames defs ss = closure (envOf defs) defs.length ss := by
  unfold fragmentNames bound closure envOf
  exact collect_eq_visitAll (getFrag defs) defs.length ss []

theorem envOf_dom (defs : List ExecDef) : ∀ x body, envOf defs x = some body → x ∈ fragNamesOf defs := by
  intro x body h
  simp only [envOf, envOfGet, Option.map_eq_some_iff] at h
  obtain ⟨f, hf, _⟩ := h
  exact (getFrag_some defs x f hf).2.1

theorem fragmentNames_total (defs : List ExecDef) (ss : List Selection) : ∃ ns, fragmentNames defs ss = some ns := by
  rw [fragmentNames_eq_closure]
  exact closure_total (envOf defs) (fragNamesOf defs) (envOf_dom defs) defs.length (fragNamesOf_length defs) ss

end NitroVerif.C12
