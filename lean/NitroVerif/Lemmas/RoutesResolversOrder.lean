/-
C15: the ORDER of the type definitions the declaration printers are given on the JSON route.  `Schema::extend` /
`SchemaBuilder::extend` keep the first definition of a name and append new names at the end, so for a valid `M` the schema
value read from the introspection result (+ the five built-in scalars) lists

    the types of `M` in the order of `M`,
    the built-in scalars some definition refers to   (order Int Float String Boolean ID),
    the eight `__*` types                            (order of the specification's list),
    the built-in scalars nobody refers to            (same order),

while the SDL route's document is `M` followed by the five built-in scalars.
-/
import NitroVerif.Lemmas.RoutesSchemaDecls
namespace NitroVerif.Bridge
open NitroVerif NitroVerif.Gql NitroVerif.SchemaIR NitroVerif.AstSchema NitroVerif.SchemaDecls NitroVerif.DeclCfg
open NitroVerif.IntrospectSpec NitroVerif.Routes NitroVerif.CliSchema

/-! ### `extend` in closed form -/

/-- `extend` onto `acc` of a name-distinct list: `acc`, then the new names in order -/
theorem extendTypes_filter (l : List ITypeDef) (hl : (l.map (·.name)).Nodup) : ∀ acc : List ITypeDef,
    extendTypes acc l = acc ++ l.filter (fun t => !acc.any (·.name == t.name)) := by
  induction l with
  | nil => intro acc; simp [extendTypes]
  | cons t r ih =>
    intro acc
    simp only [List.map_cons, List.nodup_cons] at hl
    simp only [extendTypes, List.filter_cons]
    by_cases ha : acc.any (·.name == t.name) = true
    · simp only [ha, if_true, Bool.not_true, Bool.false_eq_true, if_false]
      exact ih hl.2 acc
    · have ha' : acc.any (·.name == t.name) = false := by simpa using ha
      simp only [ha', Bool.false_eq_true, if_false, Bool.not_false, if_true]
      rw [ih hl.2 (acc ++ [t]), List.append_assoc, List.singleton_append]
      congr 2
      apply List.filter_congr
      intro u hu
      have hne : (t.name == u.name) = false := by
        rw [beq_eq_false_iff_ne]
        intro e
        exact hl.1 (e ▸ List.mem_map.mpr ⟨u, hu, rfl⟩)
      simp [List.any_append, hne]

/-! ### the pieces of the JSON route's type list -/

/-- a built-in scalar is mentioned by a definition of `M`, by a directive definition or by an introspection type
    (spec §3.5: only those are listed in an introspection result) -/
def referenced (M : TsDoc) (b : String) : Bool :=
  ((userTypes M ++ introspectionTypes).flatMap typeRefs ++
    (builtinDirectives ++ userDirectives M).flatMap directiveRefs).contains b

def scalarI (n : String) : ITypeDef := { kind := .scalar, name := n }

/-- the built-in scalars the introspection result lists / does not list, in the order Int Float String Boolean ID -/
def refNames (M : TsDoc) : List String := builtinScalarNames.filter (referenced M)
def restNames (M : TsDoc) : List String := builtinScalarNames.filter fun b => !referenced M b

/-- the eight `__*` types as the reader returns them -/
def introTypes : List ITypeDef := introspectionTypes.map cleanType

theorem specExtra_eq (M : TsDoc) : specExtra M = (refNames M).map scalarI ++ introTypes := by
  simp only [specExtra, referencedBuiltins, refNames, introTypes, List.map_map]
  congr 1

theorem builtinScalarDefs_eq : builtinScalarDefs = builtinScalarNames.map scalarI := rfl

theorem builtinScalarNames_nodup : builtinScalarNames.Nodup := by decide

theorem introTypes_names_nodup : (introTypes.map (·.name)).Nodup := by decide

theorem introTypes_not_builtin : ∀ t ∈ introTypes, t.name ∉ builtinScalarNames := by decide

theorem introTypes_intro : ∀ t ∈ introTypes, isIntrospectionName t.name = true := fun t h => (intro_facts t h).1

theorem map_scalarI_name (l : List String) : (l.map scalarI).map (·.name) = l := by
  simp [List.map_map, Function.comp_def, scalarI]

/-- what the order theorem needs of `M`: distinct type names, no `__*` names, no built-in scalar names -/
structure OrderOk (M : TsDoc) : Prop where
  names : ((userTypes M).map (·.name)).Nodup
  nonIntro : ∀ t ∈ userTypes M, isIntrospectionName t.name = false
  notBuiltin : UserNotBuiltin M

theorem orderOk_of_valid {M : TsDoc} (h : ValidParsed M) (hb : UserNotBuiltin M) : OrderOk M :=
  ⟨h.resolved.typeNames, user_nonintro M h, hb⟩

theorem spec_names_nodup {M : TsDoc} (h : OrderOk M) : ((userTypes M ++ specExtra M).map (·.name)).Nodup := by
  rw [specExtra_eq, List.map_append, List.map_append, map_scalarI_name]
  refine List.nodup_append.mpr ⟨h.names, ?_, ?_⟩
  · refine List.nodup_append.mpr ⟨builtinScalarNames_nodup.sublist List.filter_sublist, introTypes_names_nodup, ?_⟩
    intro a ha b hb e
    subst e
    obtain ⟨t, ht, rfl⟩ := List.mem_map.mp hb
    exact introTypes_not_builtin t ht (List.mem_filter.mp ha).1
  · intro a ha b hb e
    subst e
    obtain ⟨u, hu, rfl⟩ := List.mem_map.mp ha
    rcases List.mem_append.mp hb with hb | hb
    · exact h.notBuiltin u hu (List.mem_filter.mp hb).1
    · obtain ⟨t, ht, e⟩ := List.mem_map.mp hb
      have := introTypes_intro t ht
      rw [e, h.nonIntro u hu] at this
      cases this

/-- is `b` a name of `acc`? -/
theorem any_name_iff (acc : List ITypeDef) (b : String) :
    acc.any (·.name == b) = true ↔ b ∈ acc.map (·.name) := by
  rw [List.any_eq_true, List.mem_map]
  constructor
  · rintro ⟨t, ht, e⟩
    exact ⟨t, ht, by simpa using e⟩
  · rintro ⟨t, ht, e⟩
    exact ⟨t, ht, by simpa using e⟩

/-- **The JSON route's type list in closed form.** -/
theorem jsonSide_types_closed {M : TsDoc} (h : OrderOk M) :
    (jsonSide M).types =
      userTypes M ++ (refNames M).map scalarI ++ introTypes ++ (restNames M).map scalarI := by
  rw [jsonSide_types, extendTypes_nil_nodup _ (spec_names_nodup h),
    extendTypes_filter _ (by rw [builtinScalarDefs_eq, map_scalarI_name]; exact builtinScalarNames_nodup)]
  rw [specExtra_eq, ← List.append_assoc]
  congr 1
  rw [builtinScalarDefs_eq, restNames, List.filter_map]
  congr 1
  apply List.filter_congr
  intro b hb
  simp only [Function.comp_def]
  show (!(List.any _ fun (x : ITypeDef) => x.name == b)) = !referenced M b
  congr 1
  rw [Bool.eq_iff_iff, any_name_iff, List.map_append, List.map_append, map_scalarI_name]
  constructor
  · intro hm
    rcases List.mem_append.mp hm with hm | hm
    · rcases List.mem_append.mp hm with hm | hm
      · obtain ⟨u, hu, e⟩ := List.mem_map.mp hm
        exact absurd (e ▸ hb) (h.notBuiltin u hu)
      · exact (List.mem_filter.mp hm).2
    · obtain ⟨t, ht, e⟩ := List.mem_map.mp hm
      exact absurd (e ▸ hb) (introTypes_not_builtin t ht)
  · intro hr
    exact List.mem_append_left _ (List.mem_append_right _ (List.mem_filter.mpr ⟨hb, hr⟩))

/-! ### the type definitions of the two documents -/

/-- a built-in scalar as `type_system_to_ast` writes it -/
def scalarDefJ (n : String) : TypeDef := unconvTypeDef (scalarI n)
/-- a built-in scalar as `generate_builtins()` writes it -/
def scalarDefS (n : String) : TypeDef := { kind := .scalar, name := n, namePos := bp, pos := bp }
/-- the eight `__*` definitions of the JSON route's document -/
def introDefs : List TypeDef := introTypes.map unconvTypeDef

theorem userTypes_eq_map (M : TsDoc) : userTypes M = (typeDefsOf M).map convTypeDef := by
  unfold userTypes typeDefsOf
  induction M with
  | nil => rfl
  | cons i r ih => cases i <;> simp_all

theorem typeDefsOf_append (a b : TsDoc) : typeDefsOf (a ++ b) = typeDefsOf a ++ typeDefsOf b := by
  simp [typeDefsOf, List.filterMap_append]

theorem typeDefsOf_builtins : typeDefsOf builtins = builtinScalarNames.map scalarDefS := rfl

/-- the SDL route: the definitions of `M`, then the five built-in scalars -/
theorem typeDefsOf_docSdl_closed (M : TsDoc) :
    typeDefsOf (docSdl M) = typeDefsOf M ++ builtinScalarNames.map scalarDefS := by
  rw [docSdl, typeDefsOf_append, typeDefsOf_builtins]

/-- **The JSON route**: the twins of the definitions of `M` in the order of `M`, the referenced built-in scalars, the
    eight `__*` definitions, the unreferenced built-in scalars. -/
theorem typeDefsOf_docJson_closed {M : TsDoc} (h : OrderOk M) :
    typeDefsOf (docJson M) =
      (typeDefsOf M).map twin ++ (refNames M).map scalarDefJ ++ introDefs ++ (restNames M).map scalarDefJ := by
  rw [typeDefsOf_docJson, jsonSide_types_closed h, userTypes_eq_map]
  simp only [List.map_append, List.map_map, introDefs]
  rfl

/-- the referenced and the unreferenced built-in scalars together are the five built-in scalars -/
theorem ref_rest_perm (M : TsDoc) : (refNames M ++ restNames M).Perm builtinScalarNames :=
  List.filter_append_perm _ _

end NitroVerif.Bridge
