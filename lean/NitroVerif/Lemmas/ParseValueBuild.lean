/-
`render_parse_value`, assembly (helper lemmas for Props/C07): (1) every well-formed value parses (`value_runs`, strong
induction on `Value.size` over the list-level lemmas of `ParseValueList.lean` / `ParseValueObj.lean`); (2) the builder
`build_value` on the expected pair tree returns the value with the TRUE positions of its tokens (`withPosV`).
-/
import NitroVerif.Lemmas.ParseValueObj
namespace NitroVerif.ValueParse
open NitroVerif.Peg NitroVerif.Gen NitroVerif.Gen.Parts NitroVerif.Build NitroVerif.TypeParse NitroVerif.StringParse
open NitroVerif.Gql NitroVerif.Spec.Lex

/-! ### parser half -/

theorem size_pos (v : Value) : 1 ≤ v.size := by
  cases v <;> simp [Value.size]

theorem size_mem_list {v : Value} : ∀ {vs : List Value}, v ∈ vs → v.size ≤ Value.sizeList vs := by
  intro vs
  induction vs with
  | nil => intro h; cases h
  | cons w ws ih =>
    intro h
    simp only [Value.sizeList]
    rcases List.mem_cons.mp h with rfl | h
    · omega
    · have := ih h; omega

theorem size_mem_fields {f : Name × Pos × Value} : ∀ {fs : List (Name × Pos × Value)}, f ∈ fs →
    f.2.2.size ≤ Value.sizeFields fs := by
  intro fs
  induction fs with
  | nil => intro h; cases h
  | cons w ws ih =>
    intro h
    obtain ⟨k, pos, v⟩ := w
    simp only [Value.sizeFields]
    rcases List.mem_cons.mp h with rfl | h
    · first | (simp; done) | (simp; omega)
    · have := ih h; omega

theorem wfvs_mem {v : Value} : ∀ {vs : List Value}, WFVs vs → v ∈ vs → WFV v := by
  intro vs
  induction vs with
  | nil => intro _ h; cases h
  | cons w ws ih =>
    intro hwf h
    simp only [WFVs] at hwf
    rcases List.mem_cons.mp h with rfl | h
    · exact hwf.1
    · exact ih hwf.2 h

theorem wffs_mem {f : Name × Pos × Value} : ∀ {fs : List (Name × Pos × Value)}, WFFs fs → f ∈ fs →
    validName f.1.toList ∧ WFV f.2.2 := by
  intro fs
  induction fs with
  | nil => intro _ h; cases h
  | cons w ws ih =>
    intro hwf h
    obtain ⟨k, pos, v⟩ := w
    simp only [WFFs] at hwf
    rcases List.mem_cons.mp h with rfl | h
    · exact ⟨hwf.1, hwf.2.1⟩
    · exact ih hwf.2.2 h

/-- every well-formed value parses, with arbitrary whitespace trivia (parser half of `render_parse_value`) -/
theorem value_runs (τ : Trivia) (hτ : ∀ q, Ws (τ q)) : ∀ (n : Nat) (v : Value), v.size ≤ n → WFV v → ValRuns τ v := by
  intro n
  induction n with
  | zero => intro v hs; have := size_pos v; omega
  | succ n ih =>
    intro v hs hwf
    cases v with
    | var name pos =>
      intro p rest hr
      have := value_var (show validName name.toList from hwf) p rest hr
      refine RunsRule.cast (this.mono ?_) (by simp [renderV]) (by simp [renderV]) (by simp [valuePair, innerV, renderV])
      simp [B, renderV]; omega
    | int s pos =>
      intro p rest hr
      have := value_int (show IntText s.toList from hwf) p rest hr
      refine RunsRule.cast (this.mono ?_) rfl rfl (by simp [valuePair, innerV, renderV])
      simp [B, renderV]; omega
    | float s pos =>
      intro p rest hr
      have := value_float (show FloatText s.toList from hwf) p rest hr
      refine RunsRule.cast (this.mono ?_) rfl rfl (by simp [valuePair, innerV, renderV])
      simp [B, renderV]; omega
    | str s pos =>
      intro p rest hr
      have := value_str s.toList p rest hr
      refine RunsRule.cast (this.mono ?_) rfl rfl (by simp [valuePair, innerV, renderV])
      have := specEscape_length_ge s.toList
      simp [B, renderV, quoted]; omega
    | bool b pos =>
      intro p rest hr
      have := value_bool b p rest hr
      refine RunsRule.cast (this.mono ?_) rfl rfl (by simp [valuePair, innerV, renderV])
      first | (simp [B, renderV]; done) | (simp [B, renderV]; omega)
    | null pos =>
      intro p rest hr
      have := value_null p rest hr
      refine RunsRule.cast (this.mono ?_) rfl rfl (by simp [valuePair, innerV, renderV])
      first | (simp [B, renderV]; done) | (simp [B, renderV]; omega)
    | «enum» name pos =>
      intro p rest hr
      have hw : validName name.toList ∧ name.toList ≠ kwTrue ∧ name.toList ≠ kwFalse ∧ name.toList ≠ kwNull := hwf
      have := value_enum hw.1 hw.2.1 hw.2.2.1 hw.2.2.2 p rest hr
      refine RunsRule.cast (this.mono ?_) rfl rfl (by simp [valuePair, innerV, renderV])
      simp [B, renderV]; omega
    | list vs pos =>
      have hsz : Value.sizeList vs ≤ n := by simp only [Value.size] at hs; omega
      exact value_list τ hτ vs pos fun v hv =>
        ⟨wfvs_mem (show WFVs vs from hwf) hv, ih v (Nat.le_trans (size_mem_list hv) hsz) (wfvs_mem (show WFVs vs from hwf) hv)⟩
    | obj fs pos =>
      have hsz : Value.sizeFields fs ≤ n := by simp only [Value.size] at hs; omega
      exact value_obj τ hτ fs pos fun f hf =>
        ⟨(wffs_mem (show WFFs fs from hwf) hf).1, (wffs_mem (show WFFs fs from hwf) hf).2,
          ih f.2.2 (Nat.le_trans (size_mem_fields hf) hsz) (wffs_mem (show WFFs fs from hwf) hf).2⟩

/-! ### builder half -/

def posAt (inp : List Char) (p : Nat) : Pos := { line := (lineCol inp p).1, col := (lineCol inp p).2 }

mutual
/-- `v` with the positions of its tokens when rendered at offset `p` of `inp` -/
def withPosV (τ : Trivia) (inp : List Char) : Nat → Value → Value
  | p, .var n _ => .var n (posAt inp p)
  | p, .int s _ => .int s (posAt inp p)
  | p, .float s _ => .float s (posAt inp p)
  | p, .str s _ => .str s (posAt inp p)
  | p, .bool b _ => .bool b (posAt inp p)
  | p, .null _ => .null (posAt inp p)
  | p, .enum n _ => .enum n (posAt inp p)
  | p, .list vs _ => .list (withPosVs τ inp (p + 1) true vs) (posAt inp p)
  | p, .obj fs _ => .obj (withPosFs τ inp (p + 1) true fs) (posAt inp p)
def withPosVs (τ : Trivia) (inp : List Char) : Nat → Bool → List Value → List Value
  | _, _, [] => []
  | q, first, v :: vs =>
    withPosV τ inp (q + (gapOf first (τ q)).length) v ::
      withPosVs τ inp (q + (gapOf first (τ q)).length + (renderV τ (q + (gapOf first (τ q)).length) v).length) false vs
def withPosFs (τ : Trivia) (inp : List Char) : Nat → Bool → List (Name × Pos × Value) → List (Name × Pos × Value)
  | _, _, [] => []
  | q, first, (k, _, v) :: fs =>
    (k, posAt inp (fQ0 τ q first), withPosV τ inp (fQ3 τ q first k) v) ::
      withPosFs τ inp (fQ3 τ q first k + (renderV τ (fQ3 τ q first k) v).length) false fs
end

mutual
theorem withPosV_erase (τ : Trivia) (inp : List Char) : (v : Value) → ∀ p, (withPosV τ inp p v).erasePos = v.erasePos
  | .var n _ => fun p => by simp [withPosV, Value.erasePos]
  | .int s _ => fun p => by simp [withPosV, Value.erasePos]
  | .float s _ => fun p => by simp [withPosV, Value.erasePos]
  | .str s _ => fun p => by simp [withPosV, Value.erasePos]
  | .bool b _ => fun p => by simp [withPosV, Value.erasePos]
  | .null _ => fun p => by simp [withPosV, Value.erasePos]
  | .enum n _ => fun p => by simp [withPosV, Value.erasePos]
  | .list vs _ => fun p => by simp [withPosV, Value.erasePos, withPosVs_erase τ inp vs]
  | .obj fs _ => fun p => by simp [withPosV, Value.erasePos, withPosFs_erase τ inp fs]
theorem withPosVs_erase (τ : Trivia) (inp : List Char) : (vs : List Value) → ∀ q first,
    Value.erasePosList (withPosVs τ inp q first vs) = Value.erasePosList vs
  | [] => fun q first => by simp [withPosVs, Value.erasePosList]
  | v :: vs => fun q first => by
    simp [withPosVs, Value.erasePosList, withPosV_erase τ inp v, withPosVs_erase τ inp vs]
theorem withPosFs_erase (τ : Trivia) (inp : List Char) : (fs : List (Name × Pos × Value)) → ∀ q first,
    Value.erasePosFields (withPosFs τ inp q first fs) = Value.erasePosFields fs
  | [] => fun q first => by simp [withPosFs, Value.erasePosFields]
  | (k, _, v) :: fs => fun q first => by
    simp [withPosFs, Value.erasePosFields, withPosV_erase τ inp v, withPosFs_erase τ inp fs]
end

theorem drop_after {inp : List Char} {a : Nat} {x y : List Char} (h : inp.drop a = x ++ y) :
    inp.drop (a + x.length) = y := by
  rw [← List.drop_drop, h]; simp

theorem toPos_spec' (inp : List Char) (q : Pair) : toPos (Ctx.spec inp) q = posAt inp q.start := rfl
theorem asString_spec' (inp : List Char) (q : Pair) :
    asString (Ctx.spec inp) q = String.ofList (slice inp q.start q.stop) := rfl

/-- statement of the builder half for one value -/
def ValBuilds (τ : Trivia) (inp : List Char) (v : Value) : Prop := ∀ p rest fuel, inp.drop p = renderV τ p v ++ rest →
  v.size ≤ fuel → buildValue (Ctx.spec inp) fuel (valuePair τ p v) = .ok (withPosV τ inp p v)

theorem items_build (τ : Trivia) (inp : List Char) (fuel : Nat) (vs : List Value)
    (hvs : ∀ v ∈ vs, ValBuilds τ inp v ∧ v.size ≤ fuel) : ∀ (q : Nat) (first : Bool) (rest : List Char),
    inp.drop q = itemsBody τ q first vs ++ rest →
    (itemPairs τ q first vs).mapM (buildValue (Ctx.spec inp) fuel) = .ok (withPosVs τ inp q first vs) := by
  induction vs with
  | nil => intro q first rest _; rfl
  | cons v vs ih =>
    intro q first rest h
    obtain ⟨hb, hsz⟩ := hvs v (List.mem_cons_self ..)
    rw [itemsBody_cons, List.append_assoc] at h
    have h1 := drop_after h
    rw [List.append_assoc] at h1
    have h2 := drop_after h1
    have e1 := hb _ _ fuel h1 hsz
    have e2 := ih (fun w hw => hvs w (List.mem_cons_of_mem _ hw)) _ false rest h2
    rw [itemPairs_cons]
    simp [List.mapM_cons, e1, e2, withPosVs, bind, Except.bind, pure, Except.pure]

/-- the function `build_value` maps over the `ObjectField` children (value.rs) -/
def objFieldFn (ctx : Ctx) (fuel : Nat) : Pair → M Gql.Arg := fun f => do
  let (n, v) ← get2 "ObjectField" (← matchParts P_ObjectField f.children)
  let v ← buildValue ctx fuel v
  .ok ((asString ctx n, toPos ctx n, v) : Gql.Arg)

theorem buildValue_obj (ctx : Ctx) (fuel : Nat) (p e s' e' : Nat) (cs : List Pair)
    (hcs : allChildrenGo AC_ObjectValue cs = .ok ()) :
    buildValue ctx (fuel + 1) (.mk R.Value p e [.mk R.ObjectValue s' e' cs]) =
      (cs.mapM (objFieldFn ctx fuel) >>= fun fs => .ok (.obj fs (ctx.pos s'))) := by
  unfold objFieldFn
  simp [buildValue, onlyChildOf, onlyChild, Pair.children, Pair.rule, OC_Value, allChildren, hcs, toPos,
    Pair.start, bind, Except.bind, R.Variable, R.IntValue, R.FloatValue, R.StringValue, R.BooleanValue, R.NullValue,
    R.EnumValue, R.ListValue, R.ObjectValue]

theorem objFieldFn_fieldPair (τ : Trivia) (inp : List Char) (fuel : Nat) (q0 q1 q3 : Nat) (v : Value) (w : Value)
    (hw : buildValue (Ctx.spec inp) fuel (valuePair τ q3 v) = .ok w) :
    objFieldFn (Ctx.spec inp) fuel (fieldPair τ q0 q1 q3 v) = .ok (String.ofList (slice inp q0 q1), posAt inp q0, w) := by
  simp only [valuePair] at hw
  simp [objFieldFn, fieldPair, Pair.children, matchParts, P_ObjectField, Pair.rule, valuePair, get2, hw,
    asString_spec', toPos_spec', Pair.start, Pair.stop, Except.map, bind, Except.bind]

theorem fields_build (τ : Trivia) (inp : List Char) (fuel : Nat) (fs : List (Name × Pos × Value))
    (hfs : ∀ f ∈ fs, ValBuilds τ inp f.2.2 ∧ f.2.2.size ≤ fuel) : ∀ (q : Nat) (first : Bool) (rest : List Char),
    inp.drop q = fieldsBody τ q first fs ++ rest →
    (fieldPairs τ q first fs).mapM (objFieldFn (Ctx.spec inp) fuel) = .ok (withPosFs τ inp q first fs) := by
  induction fs with
  | nil => intro q first rest _; rfl
  | cons f fs ih =>
    intro q first rest h
    obtain ⟨k, pos, v⟩ := f
    obtain ⟨hb, hsz⟩ := hfs (k, pos, v) (List.mem_cons_self ..)
    rw [fieldsBody_cons] at h
    simp only [List.append_assoc] at h
    -- the name
    have h0 := drop_after h
    have hname : slice inp (fQ0 τ q first) (fQ1 τ q first k) = k.toList := by
      have := slice_of_drop (inp := inp) (a := q + (gapOf first (τ q)).length) (t := k.toList) h0
      simpa [fQ0, fQ1] using this
    -- up to the value
    have h1 := drop_after h0
    have h2 : inp.drop (fQ2 τ q first k) = τ (fQ2 τ q first k) ++ (renderV τ (fQ3 τ q first k) v ++
        (fieldsBody τ (fQ3 τ q first k + (renderV τ (fQ3 τ q first k) v).length) false fs ++ rest)) := by
      have := drop_after h1
      have e : inp.drop (q + (gapOf first (τ q)).length + k.toList.length + (τ (fQ1 τ q first k)).length + 1) =
          τ (fQ2 τ q first k) ++ (renderV τ (fQ3 τ q first k) v ++
            (fieldsBody τ (fQ3 τ q first k + (renderV τ (fQ3 τ q first k) v).length) false fs ++ rest)) := by
        rw [← List.drop_drop, this]; simp
      simpa [fQ0, fQ1, fQ2] using e
    have h3 := drop_after h2
    have h3' : inp.drop (fQ3 τ q first k) = renderV τ (fQ3 τ q first k) v ++
        (fieldsBody τ (fQ3 τ q first k + (renderV τ (fQ3 τ q first k) v).length) false fs ++ rest) := by
      simpa [fQ3] using h3
    have h4 := drop_after h3'
    have e1 := objFieldFn_fieldPair τ inp fuel (fQ0 τ q first) (fQ1 τ q first k) (fQ3 τ q first k) v _
      (hb _ _ fuel h3' hsz)
    have e2 := ih (fun w hw => hfs w (List.mem_cons_of_mem _ hw)) _ false rest h4
    rw [fieldPairs_cons]
    simp [List.mapM_cons, e1, e2, hname, withPosFs, bind, Except.bind, pure, Except.pure]

/-- the builder half for every well-formed value -/
theorem value_builds (τ : Trivia) (inp : List Char) : ∀ (n : Nat) (v : Value), v.size ≤ n → ValBuilds τ inp v := by
  intro n
  induction n with
  | zero => intro v hs; have := size_pos v; omega
  | succ n ih =>
    intro v hs p rest fuel h hfuel
    obtain ⟨fuel, rfl⟩ : ∃ f, fuel = f + 1 := ⟨fuel - 1, by have := size_pos v; omega⟩
    cases v with
    | var name pos =>
      have hs1 : slice inp (p + 1) (p + 1 + name.toList.length) = name.toList :=
        slice_of_drop (r := rest) (by rw [← List.drop_drop, h]; simp [renderV])
      simp [buildValue, valuePair, innerV, onlyChildOf, onlyChild, Pair.children, Pair.rule, OC_Value, buildVariable,
        OC_Variable, asString_spec', toPos_spec', Pair.start, Pair.stop, hs1, withPosV, bind, Except.bind, R.Variable]
    | int s pos =>
      have hs1 : slice inp p (p + s.toList.length) = s.toList := slice_of_drop (r := rest) (by simpa [renderV] using h)
      simp [buildValue, valuePair, innerV, onlyChildOf, onlyChild, Pair.children, Pair.rule, OC_Value,
        asString_spec', toPos_spec', Pair.start, Pair.stop, hs1, withPosV, bind, Except.bind, R.Variable, R.IntValue]
    | float s pos =>
      have hs1 : slice inp p (p + s.toList.length) = s.toList := slice_of_drop (r := rest) (by simpa [renderV] using h)
      simp [buildValue, valuePair, innerV, onlyChildOf, onlyChild, Pair.children, Pair.rule, OC_Value,
        asString_spec', toPos_spec', Pair.start, Pair.stop, hs1, withPosV, bind, Except.bind, R.Variable, R.IntValue,
        R.FloatValue]
    | str s pos =>
      have hsv := stringValueChars_stringPair (inp := inp) s.toList p rest (by simpa [renderV] using h)
      have hr : (stringPair s.toList p).rule = R.StringValue := by cases s.toList <;> rfl
      simp [buildValue, valuePair, innerV, onlyChildOf, onlyChild, Pair.children, OC_Value, hr, buildStringValue, hsv,
        withPosV, posAt, bind, Except.bind, R.Variable, R.IntValue, R.FloatValue, R.StringValue]
    | bool b pos =>
      cases b <;>
        simp [buildValue, valuePair, innerV, onlyChildOf, onlyChild, Pair.children, Pair.rule, OC_Value, OC_BooleanValue,
          toPos_spec', Pair.start, withPosV, bind, Except.bind, R.Variable, R.IntValue, R.FloatValue, R.StringValue,
          R.BooleanValue, R.KEYWORD_false, R.KEYWORD_true]
    | null pos =>
      simp [buildValue, valuePair, innerV, onlyChildOf, onlyChild, Pair.children, Pair.rule, OC_Value,
        toPos_spec', Pair.start, withPosV, bind, Except.bind, R.Variable, R.IntValue, R.FloatValue, R.StringValue,
        R.BooleanValue, R.NullValue]
    | «enum» name pos =>
      have hs1 : slice inp p (p + name.toList.length) = name.toList :=
        slice_of_drop (r := rest) (by simpa [renderV] using h)
      simp [buildValue, valuePair, innerV, onlyChildOf, onlyChild, Pair.children, Pair.rule, OC_Value,
        asString_spec', toPos_spec', Pair.start, Pair.stop, hs1, withPosV, bind, Except.bind, R.Variable, R.IntValue,
        R.FloatValue, R.StringValue, R.BooleanValue, R.NullValue, R.EnumValue]
    | list vs pos =>
      have hsz : Value.sizeList vs ≤ n := by simp only [Value.size] at hs; omega
      have hszf : Value.sizeList vs ≤ fuel := by simp only [Value.size] at hfuel; omega
      have hd : inp.drop (p + 1) = itemsBody τ (p + 1) true vs ++
          (τ (p + 1 + (itemsBody τ (p + 1) true vs).length) ++ [']'] ++ rest) := by
        rw [← List.drop_drop, h]; simp [renderV]
      have hm := items_build τ inp fuel vs (fun v hv =>
        ⟨ih v (Nat.le_trans (size_mem_list hv) hsz), Nat.le_trans (size_mem_list hv) hszf⟩) (p + 1) true _ hd
      have hall : ∀ (vs : List Value) (q : Nat) (first : Bool),
          allChildrenGo AC_ListValue (itemPairs τ q first vs) = .ok () := by
        intro vs
        induction vs with
        | nil => intro q first; rfl
        | cons v vs ihv =>
          intro q first
          rw [itemPairs_cons]
          simp only [allChildrenGo, valuePair, Pair.rule, AC_ListValue, if_true]
          exact ihv _ _
      simp [buildValue, valuePair, innerV, onlyChildOf, onlyChild, Pair.children, Pair.rule, OC_Value, allChildren, hall,
        toPos_spec', Pair.start, hm, withPosV, bind, Except.bind, R.Variable, R.IntValue, R.FloatValue, R.StringValue,
        R.BooleanValue, R.NullValue, R.EnumValue, R.ListValue]
    | obj fs pos =>
      have hsz : Value.sizeFields fs ≤ n := by simp only [Value.size] at hs; omega
      have hszf : Value.sizeFields fs ≤ fuel := by simp only [Value.size] at hfuel; omega
      have hd : inp.drop (p + 1) = fieldsBody τ (p + 1) true fs ++
          (τ (p + 1 + (fieldsBody τ (p + 1) true fs).length) ++ ['}'] ++ rest) := by
        rw [← List.drop_drop, h]; simp [renderV]
      have hm := fields_build τ inp fuel fs (fun f hf =>
        ⟨ih f.2.2 (Nat.le_trans (size_mem_fields hf) hsz), Nat.le_trans (size_mem_fields hf) hszf⟩) (p + 1) true _ hd
      have hall : ∀ (fs : List (Name × Pos × Value)) (q : Nat) (first : Bool),
          allChildrenGo AC_ObjectValue (fieldPairs τ q first fs) = .ok () := by
        intro fs
        induction fs with
        | nil => intro q first; rfl
        | cons f fs ihf =>
          intro q first
          obtain ⟨k, kp, v⟩ := f
          rw [fieldPairs_cons]
          simp only [allChildrenGo, fieldPair, Pair.rule, AC_ObjectValue, if_true]
          exact ihf _ _
      simp only [valuePair, innerV]
      rw [buildValue_obj _ _ _ _ _ _ _ (hall fs _ _), hm]
      simp [withPosV, posAt, Ctx.spec, bind, Except.bind]

/-! ### the builder's depth bound is at most the length of the text -/

theorem intText_pos {t : List Char} (h : IntText t) : 1 ≤ t.length := by
  obtain ⟨d, r, hd, _⟩ := intText_head h
  rw [hd]; simp

theorem size_le_length (τ : Trivia) : ∀ (n : Nat) (v : Value), v.size ≤ n → WFV v → ∀ p, v.size ≤ (renderV τ p v).length := by
  intro n
  induction n with
  | zero => intro v hs; have := size_pos v; omega
  | succ n ih =>
    intro v hs hwf p
    obtain ⟨d, r, hd, _⟩ := renderV_head τ p v hwf
    cases v with
    | list vs pos =>
      have hsz : Value.sizeList vs ≤ n := by simp only [Value.size] at hs; omega
      have key : ∀ (vs : List Value), (∀ v ∈ vs, v.size ≤ n ∧ WFV v) → ∀ q first,
          Value.sizeList vs ≤ (itemsBody τ q first vs).length := by
        intro vs
        induction vs with
        | nil => intro _ q first; simp [Value.sizeList]
        | cons w ws ihw =>
          intro hws q first
          have h1 := ih w (hws w (List.mem_cons_self ..)).1 (hws w (List.mem_cons_self ..)).2
            (q + (gapOf first (τ q)).length)
          have h2 := ihw (fun x hx => hws x (List.mem_cons_of_mem _ hx))
            (q + (gapOf first (τ q)).length + (renderV τ (q + (gapOf first (τ q)).length) w).length) false
          rw [itemsBody_cons]
          simp only [Value.sizeList, List.length_append]
          omega
      have := key vs (fun v hv => ⟨Nat.le_trans (size_mem_list hv) hsz, wfvs_mem (show WFVs vs from hwf) hv⟩) (p + 1) true
      simp only [Value.size, renderV, List.length_cons, List.length_append, List.length_nil]
      omega
    | obj fs pos =>
      have hsz : Value.sizeFields fs ≤ n := by simp only [Value.size] at hs; omega
      have key : ∀ (fs : List (Name × Pos × Value)), (∀ f ∈ fs, f.2.2.size ≤ n ∧ WFV f.2.2) → ∀ q first,
          Value.sizeFields fs ≤ (fieldsBody τ q first fs).length := by
        intro fs
        induction fs with
        | nil => intro _ q first; simp [Value.sizeFields]
        | cons w ws ihw =>
          intro hws q first
          obtain ⟨k, kp, v⟩ := w
          have h1 := ih v (hws (k, kp, v) (List.mem_cons_self ..)).1 (hws (k, kp, v) (List.mem_cons_self ..)).2
            (fQ3 τ q first k)
          have h2 := ihw (fun x hx => hws x (List.mem_cons_of_mem _ hx))
            (fQ3 τ q first k + (renderV τ (fQ3 τ q first k) v).length) false
          rw [fieldsBody_cons]
          simp only [Value.sizeFields, List.length_append, List.length_cons]
          omega
      have := key fs (fun f hf => ⟨Nat.le_trans (size_mem_fields hf) hsz, (wffs_mem (show WFFs fs from hwf) hf).2⟩)
        (p + 1) true
      simp only [Value.size, renderV, List.length_cons, List.length_append, List.length_nil]
      omega
    | _ => rw [hd]; simp [Value.size]

end NitroVerif.ValueParse
