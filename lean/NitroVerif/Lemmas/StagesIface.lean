/-
C08 (stages after parsing): the schema checker establishes `ifaceOkB`.

`ifaceOkB S` (Lemmas/StagesGenA.lean) is the condition on the schema under which the operation checker's verdict (fields
looked up on the STATIC parent type) carries over to the operation type printer (fields looked up on every POSSIBLE
OBJECT TYPE).  Here: a resolved document with unique type names that `check_type_system_document` accepts satisfies it —
`check_valid_implementation` found every interface field on the implementing object (`InterfaceFieldNotImplemented`), with
a type that `is_subtype` did not refute (`FieldTypeMisMatchWithInterface`; = the spec's covariance by C05's
`isSubtype_spec`), and every interface of an implemented interface is declared (`InterfaceNotImplemented`), which makes
the possible object types of a sub-interface possible types of the super-interface.
-/
import NitroVerif.Lemmas.StagesGenA
import NitroVerif.Lemmas.CheckTsAssemble
namespace NitroVerif.Stages
open NitroVerif.Gql NitroVerif.CheckTs NitroVerif.ValidTs NitroVerif.OpTypes NitroVerif.OpTypes.Ref

theorem nodup_of_noDup : ∀ {l : List Name}, noDup l = true → l.Nodup
  | [], _ => List.nodup_nil
  | x :: xs, h => by
    simp only [noDup, Bool.and_eq_true, Bool.not_eq_true'] at h
    refine List.nodup_cons.2 ⟨?_, nodup_of_noDup h.2⟩
    intro hm
    have : xs.contains x = true := List.contains_iff_mem.mpr hm
    rw [this] at h; cases h.1

theorem nodupB_eq_noDup : ∀ (l : List Name), Valid.nodupB l = noDup l
  | [] => rfl
  | x :: xs => by simp only [Valid.nodupB, noDup, nodupB_eq_noDup xs]

/-- `IsValidImplementationFieldType` relates the innermost named types by `IsSubType` -/
theorem subTypeSpec_of_validImpl (S : Schema) : ∀ (a b : GType), validImplFieldType S a b = true →
    isSubTypeSpec S a.unwrapped b.unwrapped = true := by
  intro a
  induction a with
  | named an p =>
    intro b h
    cases b with
    | named bn q => simpa [validImplFieldType, GType.unwrapped] using h
    | list t q => simp [validImplFieldType] at h
    | nonNull t => simp [validImplFieldType] at h
  | list a' p ih =>
    intro b h
    cases b with
    | named bn q => simp [validImplFieldType] at h
    | list t q =>
      simp only [validImplFieldType] at h
      simpa [GType.unwrapped] using ih t h
    | nonNull t => simp [validImplFieldType] at h
  | nonNull a' ih =>
    intro b h
    cases b with
    | named bn q =>
      simp only [validImplFieldType] at h
      simpa [GType.unwrapped] using ih _ h
    | list t q =>
      simp only [validImplFieldType] at h
      simpa [GType.unwrapped] using ih _ h
    | nonNull t =>
      simp only [validImplFieldType] at h
      simpa [GType.unwrapped] using ih t h

section
variable {T : TsDoc} (hu : uniqueTypeNames T = true) (h : checkSchema T = [])
include hu h

/-- an object type that implements the interface `sd` declares every interface `sd` implements -/
theorem implements_trans {t sd : TypeDef} (ht : t ∈ ValidTs.typeDefs T) (hto : t.kind = .object) {x y : Name}
    (hsd : Schema.typeDef? ⟨T⟩ x = some sd) (htx : t.implements.any (·.1 == x) = true)
    (hsy : sd.implements.any (·.1 == y) = true) : t.implements.any (·.1 == y) = true := by
  simp only [List.any_eq_true] at htx hsy
  obtain ⟨i, hi, hix⟩ := htx
  obtain ⟨j, hj, hjy⟩ := hsy
  have hix' : i.1 = x := by simpa using hix
  have hjy' : j.1 = y := by simpa using hjy
  have hi' : i ∈ implementsOfT t := by simp [implementsOfT, isObjOrIface, hto, hi]
  obtain ⟨_, idef, hl, _, hv⟩ := implementsOfT_facts h ht i hi'
  rw [lastTypeDef_eq_typeDef hu, hix', hsd] at hl
  cases hl
  have := (checkValidImpl_nil hv).1 j hj
  rw [hjy'] at this
  exact this

theorem subOk_of_subTypeSpec {x y : Name} (hs : isSubTypeSpec ⟨T⟩ x y = true) : subOkB ⟨T⟩ x y = true := by
  unfold subOkB
  by_cases hxy : x = y
  · simp [hxy]
  · have hne : (x == y) = false := by simpa using hxy
    unfold isSubTypeSpec at hs
    simp only [hne, Bool.false_or] at hs ⊢
    cases hsd : Schema.typeDef? ⟨T⟩ x with
    | none => simp [hsd] at hs
    | some sd =>
      cases hpd : Schema.typeDef? ⟨T⟩ y with
      | none => simp [hsd, hpd] at hs
      | some pd =>
        simp only [hsd, hpd, Bool.or_eq_true, Bool.and_eq_true, beq_iff_eq] at hs
        have hsdm := typeDef_mem hsd
        have hpdm := typeDef_mem hpd
        rw [Bool.or_eq_true]
        right
        rw [Bool.and_eq_true]
        rcases hs with ⟨⟨hk, hpk⟩, himp⟩ | ⟨⟨hk, hpk⟩, hmem⟩
        · -- `sd` (object or interface) implements the interface `pd`
          have hposs_y : (Schema.mk T).possibleTypes y = (Schema.mk T).objectImplementers y := by
            simp [Schema.possibleTypes, hpd, hpk]
          refine ⟨?_, ?_⟩
          · unfold parentsOkB parentObjects
            rw [hsd]
            rcases hk with hk | hk <;> simp [hk]
          · rw [List.all_eq_true]
            intro o' ho'
            rw [List.contains_iff_mem, hposs_y]
            simp only [Schema.objectImplementers, List.mem_map, List.mem_filter, Bool.and_eq_true, beq_iff_eq]
            rcases hk with hk | hk
            · simp only [Schema.possibleTypes, hsd, hk, List.mem_singleton] at ho'
              exact ⟨sd, ⟨hsdm.1, hk, himp⟩, ho'.symm⟩
            · simp only [Schema.possibleTypes, hsd, hk, Schema.objectImplementers, List.mem_map, List.mem_filter,
                Bool.and_eq_true, beq_iff_eq] at ho'
              obtain ⟨t, ⟨ht, hto, htx⟩, hname⟩ := ho'
              exact ⟨t, ⟨ht, hto, implements_trans hu h ht hto hsd htx himp⟩, hname⟩
        · -- `sd` is an object type, member of the union `pd`
          refine ⟨?_, ?_⟩
          · unfold parentsOkB parentObjects
            rw [hsd]; simp [hk]
          · rw [List.all_eq_true]
            intro o' ho'
            simp only [Schema.possibleTypes, hsd, hk, List.mem_singleton] at ho'
            rw [List.contains_iff_mem]
            simp only [Schema.possibleTypes, hpd, hpk, List.mem_map]
            simp only [List.any_eq_true] at hmem
            obtain ⟨m, hm, hmx⟩ := hmem
            have hmx' : m.1 = x := by simpa using hmx
            exact ⟨m, hm, by rw [hmx', ho', hsdm.2]⟩

/-- **the schema checker establishes `ifaceOkB`** (for a resolved document with unique type names) -/
theorem ifaceOk_of_accepted : ifaceOkB ⟨T⟩ = true := by
  unfold ifaceOkB
  rw [List.all_eq_true]
  intro od hod
  by_cases hk : od.kind = .object
  · simp only [hk, bne_self_eq_false, Bool.false_or, List.all_eq_true]
    intro i hi
    have hi' : i ∈ implementsOfT od := by simp [implementsOfT, isObjOrIface, hk, hi]
    obtain ⟨_, idef, hl, hik, hv⟩ := implementsOfT_facts h hod i hi'
    rw [lastTypeDef_eq_typeDef hu] at hl
    rw [hl]
    simp only [List.all_eq_true]
    intro f hf
    obtain ⟨g, hg, _, _, hsub⟩ := (checkValidImpl_nil hv).2 f hf
    rw [hg]
    simp only
    have hidm := (typeDef_mem hl).1
    have hgm : g ∈ fieldsOfT od := by
      simp only [fieldsOfT, isObjOrIface, hk, beq_self_eq_true, Bool.true_or, if_true]
      exact List.mem_of_find?_eq_some hg
    have hfm : f ∈ fieldsOfT idef := by simp [fieldsOfT, isObjOrIface, hik, hf]
    have hk1 : known ⟨T⟩ g.ty.unwrapped = true := by
      obtain ⟨k, hk', _⟩ := outputFieldType_nil ((fieldsOfT_facts h hod).1 g hgm).2.2.1
      exact known_of_kindOf hk'
    have hk2 : known ⟨T⟩ f.ty.unwrapped = true := by
      obtain ⟨k, hk', _⟩ := outputFieldType_nil ((fieldsOfT_facts h hidm).1 f hfm).2.2.1
      exact known_of_kindOf hk'
    have hspec := isSubtype_spec (implementsOk_of_accepted hu h) g.ty f.ty hk1 hk2
    rw [hspec] at hsub
    have hv' : validImplFieldType ⟨T⟩ g.ty f.ty = true := by
      cases hvv : validImplFieldType ⟨T⟩ g.ty f.ty with
      | true => rfl
      | false => rw [hvv] at hsub; exact absurd rfl hsub
    exact subOk_of_subTypeSpec hu h (subTypeSpec_of_validImpl ⟨T⟩ g.ty f.ty hv')
  · have : (od.kind != TypeKind.object) = true := by
      cases hkk : od.kind <;> first | rfl | exact absurd hkk hk
    simp [this]

/-- **the schema checker establishes `schemaOkB`** for a resolved document with unique type names in which no type
    declares a field named `__typename` (the checker reports `__`-names on the fields of object and interface types) -/
theorem schemaOk_of_accepted (hnr : Valid.noReservedFieldsB ⟨T⟩ = true) : schemaOkB ⟨T⟩ = true := by
  unfold schemaOkB
  simp only [Bool.and_eq_true, List.all_eq_true]
  refine ⟨⟨?_, hnr⟩, ?_⟩
  · rw [nodupB_eq_noDup]; exact hu
  · intro t ht
    by_cases hk : t.kind = .union
    · have hb : (TypeKind.union != TypeKind.union) = false := by decide
      simp only [hk, hb, Bool.false_or, List.all_eq_true]
      intro m hm
      have hmm : m ∈ membersOfT t := by simp [membersOfT, hk, hm]
      obtain ⟨d, hl, hdk⟩ := (membersOfT_facts h ht).1 m hmm
      rw [lastTypeDef_eq_typeDef hu] at hl
      rw [kindOf_of_typeDef hl, hdk]
      decide
    · have : (t.kind != TypeKind.union) = true := by
        cases hkk : t.kind <;> first | rfl | exact absurd hkk hk
      simp [this]

end
end NitroVerif.Stages
