import NitroVerif.Lemmas.DeterminismServerBlocks
import NitroVerif.Props.C16Text
/-!
C17 (server schema file): the side conditions of C16's round-trip theorem (`server_module_roundtrip_text`) are
invariant under permutation of the definitions — each is a "for every definition" statement.
-/
namespace NitroVerif.DeterminismServer
open NitroVerif.Gql NitroVerif.GqlPrint NitroVerif.GqlTokens NitroVerif.C16

theorem listToks_eq_flatMap {α : Type} (t : α → List LTok) (l : List α) : listToks t l = l.flatMap t := by
  induction l with
  | nil => rfl
  | cons x xs ih => simp [listToks, ih]

theorem tsDocToks_perm {d d' : TsDoc} (h : d'.Perm d) : (tsDocToks d').Perm (tsDocToks d) := by
  unfold tsDocToks
  rw [listToks_eq_flatMap, listToks_eq_flatMap]
  exact h.flatMap_right _

theorem onlyOnScalars_perm {n : Name} {d d' : TsDoc} (h : d'.Perm d) (hd : OnlyOnScalars n d) : OnlyOnScalars n d' :=
  fun i hi => hd i (h.mem_iff.mp hi)

theorem onlyOnObjects_perm {n : Name} {d d' : TsDoc} (h : d'.Perm d) (hd : OnlyOnObjects n d) : OnlyOnObjects n d' :=
  fun i hi => hd i (h.mem_iff.mp hi)

theorem stripDirective_perm (n : Name) {d d' : TsDoc} (h : d'.Perm d) :
    (Strip.stripDirective n d').Perm (Strip.stripDirective n d) := h.filterMap _

theorem serverDoc_perm {d d' : TsDoc} (h : d'.Perm d) (mp : Bool) : (serverDoc d' mp).Perm (serverDoc d mp) := by
  unfold serverDoc
  cases mp
  · exact stripDirective_perm _ h
  · exact stripDirective_perm _ (stripDirective_perm _ h)

theorem wfTsDoc_perm {d d' : TsDoc} (h : d'.Perm d) : wfTsDoc d' = wfTsDoc d := h.all_eq

theorem strsOK_perm {a b : List LTok} (h : a.Perm b) : strsOK a = strsOK b := h.all_eq

theorem lexemesOK_perm {a b : List LTok} (h : a.Perm b) : lexemesOK a = lexemesOK b := h.all_eq

end NitroVerif.DeterminismServer
