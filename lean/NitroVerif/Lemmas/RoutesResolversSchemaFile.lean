/-
C15: the WHOLE schema declaration file (`SchemaDecls.schemaFile`) on the two routes, in closed form over the same
per-definition blocks: declaration order inside every namespace and among the representative aliases.
-/
import NitroVerif.Lemmas.RoutesResolversOrder
import NitroVerif.Lemmas.DeterminismConcreteDecls
namespace NitroVerif.Bridge
open NitroVerif NitroVerif.Gql NitroVerif.SchemaIR NitroVerif.AstSchema NitroVerif.SchemaDecls NitroVerif.DeclCfg
open NitroVerif.IntrospectSpec NitroVerif.Routes NitroVerif.CliSchema NitroVerif.Ts
open NitroVerif.DeterminismDecls (Block blockOf OkAt AllOk nsBlocks nsStmt repBlocks preludeWith schemaFile_ok)

theorem twin_scalarDefS (n : String) : twin (scalarDefS n) = scalarDefJ n := rfl

theorem blockOf_routes {c : Cfg} {M : TsDoc} (h : DeclsOk c M) (t : Target) (td : TypeDef) :
    blockOf (Ctx.new c (docJson M) t) (twin td) = blockOf (Ctx.new c (docSdl M) t) td := by
  unfold blockOf
  rw [printType_routes h t td]

theorem introDefs_not_scalar : ∀ td ∈ introDefs, td.kind ≠ .scalar := by
  intro td h
  simp only [introDefs, List.mem_map] at h
  obtain ⟨t, ht, rfl⟩ := h
  rw [unconvTypeDef_kind]
  revert t
  decide

theorem printType_ok_of_not_scalar (x : Ctx) (td : TypeDef) (h : td.kind ≠ .scalar) : ∃ b, printType x td = .ok b := by
  have := body_okB_of_not_scalar x td h
  rw [← printType_okB] at this
  cases hp : printType x td with
  | ok b => exact ⟨b, rfl⟩
  | error e => rw [hp] at this; cases this

/-- if the SDL route prints every definition, so does the JSON route -/
theorem allOk_json {c : Cfg} {M : TsDoc} (h : DeclsOk c M) (hok : AllOk c (docSdl M) Target.all) :
    AllOk c (docJson M) Target.all := by
  have ho := orderOk_of_valid h.valid h.notBuiltin
  intro t ht td' hm
  rw [typeDefsOf_docJson_closed ho] at hm
  have hS := hok t ht
  rw [typeDefsOf_docSdl_closed] at hS
  have hscalar : ∀ n ∈ builtinScalarNames, ∃ b, printType (Ctx.new c (docJson M) t) (scalarDefJ n) = .ok b := by
    intro n hn
    rw [← twin_scalarDefS, ← printType_routes h t]
    exact hS _ (List.mem_append_right _ (List.mem_map.mpr ⟨n, hn, rfl⟩))
  simp only [List.mem_append, List.mem_map] at hm
  rcases hm with ((⟨td, htd, rfl⟩ | ⟨n, hn, rfl⟩) | hi) | ⟨n, hn, rfl⟩
  · rw [← printType_routes h t]
    exact hS _ (List.mem_append_left _ htd)
  · exact hscalar n (List.mem_filter.mp hn).1
  · exact printType_ok_of_not_scalar _ _ (introDefs_not_scalar td' hi)
  · exact hscalar n (List.mem_filter.mp hn).1

/-- "the file is produced" in the two forms used by C15 (`okB`) and C17 (`AllOk`) -/
theorem allOk_of_okB (c : Cfg) (doc : TsDoc) (h : okB (schemaFile c doc) = true) : AllOk c doc Target.all := by
  rw [schemaFile_okB] at h
  intro t ht td hm
  have := List.all_eq_true.mp (List.all_eq_true.mp h t ht) td hm
  cases hp : printType (Ctx.new c doc t) td with
  | ok b => exact ⟨b, rfl⟩
  | error e => rw [hp] at this; cases this

/-! ### the per-definition pieces -/

/-- the blocks of the definitions of `M` in namespace `t`, as the SDL route prints them -/
def userBlocks (c : Cfg) (M : TsDoc) (t : Target) : List Block :=
  (typeDefsOf M).map (blockOf (Ctx.new c (docSdl M) t))
/-- the block of the built-in scalar `n` in namespace `t`, as the SDL route prints it -/
def scalarBlock (c : Cfg) (M : TsDoc) (t : Target) (n : String) : Block :=
  blockOf (Ctx.new c (docSdl M) t) (scalarDefS n)
/-- the blocks of the eight `__*` definitions in namespace `t` (JSON route only) -/
def introBlocks (c : Cfg) (M : TsDoc) (t : Target) : List Block :=
  introDefs.map (blockOf (Ctx.new c (docJson M) t))

def userReps (c : Cfg) (M : TsDoc) : List Block :=
  (typeDefsOf M).map (representative (Ctx.new c (docSdl M) .operationOutput))
def scalarRep (c : Cfg) (M : TsDoc) (n : String) : Block :=
  representative (Ctx.new c (docSdl M) .operationOutput) (scalarDefS n)
def introReps (c : Cfg) (M : TsDoc) : List Block :=
  introDefs.map (representative (Ctx.new c (docJson M) .operationOutput))

/-- the blocks of namespace `t` on the SDL route -/
def sdlNs (c : Cfg) (M : TsDoc) (t : Target) : String × List Block :=
  (t.name, userBlocks c M t ++ builtinScalarNames.map (scalarBlock c M t))
/-- … and on the JSON route -/
def jsonNs (c : Cfg) (M : TsDoc) (t : Target) : String × List Block :=
  (t.name, userBlocks c M t ++ (refNames M).map (scalarBlock c M t) ++ introBlocks c M t ++
    (restNames M).map (scalarBlock c M t))

theorem map_twin_blocks {c : Cfg} {M : TsDoc} (h : DeclsOk c M) (t : Target) (l : List TypeDef) :
    (l.map twin).map (blockOf (Ctx.new c (docJson M) t)) = l.map (blockOf (Ctx.new c (docSdl M) t)) := by
  rw [List.map_map]
  exact List.map_congr_left fun td _ => blockOf_routes h t td

theorem map_scalarJ_blocks {c : Cfg} {M : TsDoc} (h : DeclsOk c M) (t : Target) (l : List String) :
    (l.map scalarDefJ).map (blockOf (Ctx.new c (docJson M) t)) = l.map (scalarBlock c M t) := by
  rw [List.map_map]
  apply List.map_congr_left
  intro n _
  show blockOf (Ctx.new c (docJson M) t) (scalarDefJ n) = blockOf (Ctx.new c (docSdl M) t) (scalarDefS n)
  rw [← twin_scalarDefS, blockOf_routes h t]

theorem map_scalarS_blocks (c : Cfg) (M : TsDoc) (t : Target) (l : List String) :
    (l.map scalarDefS).map (blockOf (Ctx.new c (docSdl M) t)) = l.map (scalarBlock c M t) := by
  rw [List.map_map]
  apply List.map_congr_left
  intro n _
  rfl

theorem nsBlocks_sdl (c : Cfg) (M : TsDoc) (t : Target) : nsBlocks c (docSdl M) t = sdlNs c M t := by
  unfold nsBlocks sdlNs userBlocks
  rw [typeDefsOf_docSdl_closed, List.map_append, map_scalarS_blocks]

theorem nsBlocks_json {c : Cfg} {M : TsDoc} (h : DeclsOk c M) (t : Target) : nsBlocks c (docJson M) t = jsonNs c M t := by
  have ho := orderOk_of_valid h.valid h.notBuiltin
  unfold nsBlocks jsonNs userBlocks introBlocks
  rw [typeDefsOf_docJson_closed ho, List.map_append, List.map_append, List.map_append, map_twin_blocks h,
    map_scalarJ_blocks h, map_scalarJ_blocks h]

theorem map_twin_reps {c : Cfg} {M : TsDoc} (h : DeclsOk c M) (l : List TypeDef) :
    (l.map twin).map (representative (Ctx.new c (docJson M) .operationOutput))
      = l.map (representative (Ctx.new c (docSdl M) .operationOutput)) := by
  rw [List.map_map]
  exact List.map_congr_left fun td _ => (representative_routes h td).symm

theorem map_scalarJ_reps {c : Cfg} {M : TsDoc} (h : DeclsOk c M) (l : List String) :
    (l.map scalarDefJ).map (representative (Ctx.new c (docJson M) .operationOutput)) = l.map (scalarRep c M) := by
  rw [List.map_map]
  apply List.map_congr_left
  intro n _
  show representative (Ctx.new c (docJson M) .operationOutput) (scalarDefJ n)
    = representative (Ctx.new c (docSdl M) .operationOutput) (scalarDefS n)
  rw [← twin_scalarDefS, representative_routes h]

theorem map_scalarS_reps (c : Cfg) (M : TsDoc) (l : List String) :
    (l.map scalarDefS).map (representative (Ctx.new c (docSdl M) .operationOutput)) = l.map (scalarRep c M) := by
  rw [List.map_map]
  apply List.map_congr_left
  intro n _
  rfl

theorem repBlocks_sdl (c : Cfg) (M : TsDoc) :
    repBlocks c (docSdl M) = userReps c M ++ builtinScalarNames.map (scalarRep c M) := by
  unfold repBlocks userReps
  rw [typeDefsOf_docSdl_closed, List.map_append, map_scalarS_reps]

theorem repBlocks_json {c : Cfg} {M : TsDoc} (h : DeclsOk c M) :
    repBlocks c (docJson M) =
      userReps c M ++ (refNames M).map (scalarRep c M) ++ introReps c M ++ (restNames M).map (scalarRep c M) := by
  have ho := orderOk_of_valid h.valid h.notBuiltin
  unfold repBlocks userReps introReps
  rw [typeDefsOf_docJson_closed ho, List.map_append, List.map_append, List.map_append, map_twin_reps h,
    map_scalarJ_reps h, map_scalarJ_reps h]

/-- **both schema declaration files in closed form** (when the SDL route's is produced) -/
theorem schemaFile_routes_closed {c : Cfg} {M : TsDoc} (h : DeclsOk c M) (hok : AllOk c (docSdl M) Target.all) :
    schemaFile c (docSdl M) = .ok (preludeWith (schemaMetadata (docSdl M)) ++ (Target.all.map (sdlNs c M)).map nsStmt ++
      (userReps c M ++ builtinScalarNames.map (scalarRep c M)).flatten) ∧
    schemaFile c (docJson M) = .ok (preludeWith (schemaMetadata (docJson M)) ++ (Target.all.map (jsonNs c M)).map nsStmt ++
      (userReps c M ++ (refNames M).map (scalarRep c M) ++ introReps c M ++ (restNames M).map (scalarRep c M)).flatten) := by
  constructor
  · rw [schemaFile_ok c _ hok, repBlocks_sdl, show nsBlocks c (docSdl M) = sdlNs c M from funext (nsBlocks_sdl c M)]
  · rw [schemaFile_ok c _ (allOk_json h hok), repBlocks_json h,
      show nsBlocks c (docJson M) = jsonNs c M from funext (nsBlocks_json h)]

end NitroVerif.Bridge
