/-
Type-system definitions, shared pieces (helper lemmas for Props/C07Doc): a generic `"o" ~ Item+ ~ "c"` list, optional
descriptions, `InputValueDefinition` and its two lists (`ArgumentsDefinition`, `InputFieldsDefinition`).
-/
import NitroVerif.Lemmas.ParseDocVar
namespace NitroVerif.DocParse
open NitroVerif.Peg NitroVerif.Gen NitroVerif.Gen.Parts NitroVerif.Build NitroVerif.TypeParse NitroVerif.StringParse
open NitroVerif.Gql NitroVerif.ValueParse NitroVerif.Spec.Lex

set_option linter.unusedSimpArgs false

variable {inp : List Char}

/-! ### `"o" ~ Item+ ~ "c"` -/

section Braced
variable {α : Type} (ri : Bool → Nat → α → List Char) (sepMid : Bool)

/-- `o gap items c gap` -/
def rBraced (τ : Trivia) (o c : Char) (sep : Bool) (p : Nat) (items : List α) : List Char :=
  let tO := tk τ false p [o]
  let tI := renderItems ri sepMid false (p + tO.length) items
  tO ++ (tI ++ tk τ sep (p + tO.length + tI.length) [c])

theorem hd_rBraced (τ : Trivia) (o c : Char) (sep : Bool) (p : Nat) (items : List α) :
    Hd (· = o) (rBraced ri sepMid τ o c sep p items) := by
  simp only [rBraced]
  exact Hd.append (hd_tk (P := (· = o)) (hd_cons [] rfl)) _

/-- a rule `"o" ~ Item+ ~ "c"` on a non-empty list of items each of which parses -/
theorem bracedT (τ : Trivia) (hτ : ∀ q, Ws (τ q)) (rule item : RuleId) (o c : Char)
    (hl : gList.look rule = some (.normal, .seq (.str [o]) (.seq (.plus (.call item)) (.str [c]))))
    (h1 : rule ≠ R.WHITESPACE) (h2 : rule ≠ R.COMMENT) (bad : Bool → Char → Prop) (K : Nat)
    (Good : Bool → Nat → α → Pair → Prop)
    (hc : ¬ trivia c ∧ ¬ bad false c ∧ ¬ nameCont c)
    (hfail : ∀ q, HeadNot (· ≠ c) (inp.drop q) → inp.drop q ≠ [] →
      Fails gList (K + 100) true (.call item) .nonAtomic (At inp q))
    (r : List α) (a : α) (sep : Bool) (p : Nat)
    (hitem : ∀ x ∈ a :: r, ∀ s q, HasAt inp q (ri s q x) → Nxt inp (bad s) s (q + (ri s q x).length) →
      ∃ pr, RunsK (B (ri s q x).length + K) (.call item) (At inp q) (At inp (q + (ri s q x).length)) [pr] ∧ Good s q x pr)
    (hhead : ∀ x ∈ a :: r, ∀ s q, Hd (fun d => ¬ trivia d ∧ ¬ bad sepMid d ∧ (sepMid = false → ¬ nameCont d)) (ri s q x))
    (h : HasAt inp p (rBraced ri sepMid τ o c sep p (a :: r)))
    (ht : Tok (At inp (p + (rBraced ri sepMid τ o c sep p (a :: r)).length))) :
    ∃ e pss, RunsK (B (rBraced ri sepMid τ o c sep p (a :: r)).length + K + 15) (.call rule) (At inp p)
        (At inp (p + (rBraced ri sepMid τ o c sep p (a :: r)).length)) [.mk rule p e pss] ∧
      GoodItems ri sepMid false Good (p + (tk τ false p [o]).length) (a :: r) pss := by
  simp only [rBraced] at h ht ⊢
  generalize hO : tk τ false p [o] = tO at *
  generalize hI : renderItems ri sepMid false (p + tO.length) (a :: r) = tI at *
  generalize hC : tk τ sep (p + tO.length + tI.length) [c] = tC at *
  have hlen : p + (tO ++ (tI ++ tC)).length = p + tO.length + tI.length + tC.length := by
    simp only [List.length_append]; omega
  rw [hlen] at ht ⊢
  have g0 : HasAt inp p tO := h.left
  have g1 : HasAt inp (p + tO.length) tI := h.right.left
  have g2 : HasAt inp (p + tO.length + tI.length) tC := h.right.right
  have hdC : Hd (· = c) tC := hC ▸ hd_tk (hd_cons _ rfl)
  have hlO : 1 ≤ tO.length := by rw [← hO]; simp [tk]
  have hlC : 1 ≤ tC.length := hdC.length_pos
  have hnE : Nxt inp (bad false) false (p + tO.length + tI.length) :=
    Nxt.of_hd g2 hdC (by rintro d rfl; exact hc)
  have hne : inp.drop (p + tO.length + tI.length) ≠ [] := by
    obtain ⟨d, rr, hd, _⟩ := hdC
    rw [g2.drop, hd]; simp
  have hfl := hfail (p + tO.length + tI.length) (headNot_of_hd g2 hdC (fun d hd hn => hn hd)) hne
  obtain ⟨pss, hmany, hgood⟩ := items_many1K ri sepMid false (.call item) bad K Good r a (p + tO.length)
    hitem hhead (hI ▸ g1) (by rw [hI]; exact hnE) (by rw [hI]; exact hfl)
  rw [hI] at hmany
  have hTokI : Tok (At inp (p + tO.length)) := by
    obtain ⟨s', tail, htl⟩ := renderItems_cons ri sepMid false (p + tO.length) a r
    exact tok_of_hd g1 (hI ▸ htl ▸ (hhead a (List.mem_cons_self ..) s' _).append _) (fun d h => h.1)
  have r0 := strT hτ [o] (hO ▸ g0) (by rw [hO]; exact hTokI)
  have r2 := strT hτ [c] (hC ▸ g2) (by rw [hC]; exact ht)
  rw [hO] at r0
  rw [hC] at r2
  obtain ⟨e, rS⟩ := runsK_rule hl h1 h2 (runsK_seq r0 (runsK_seq (runsK_plus1 hmany) r2))
  exact ⟨e, pss, RunsK.cast (rS.mono (by barith)) rfl rfl (by simp [At]), hgood⟩

end Braced

/-! ### descriptions -/

theorem look_Description : gList.look R.Description = some (.normal, .call R.StringValue) := rfl

/-- `"…" gap`, nothing without a description -/
def rOptDesc (τ : Trivia) (p : Nat) : Option String → List Char
  | none => []
  | some s => tk τ false p (quoted s.toList)

theorem hd_rOptDesc (τ : Trivia) (p : Nat) (d : Option String) :
    rOptDesc τ p d = [] ∨ Hd (· = '"') (rOptDesc τ p d) := by
  cases d with
  | none => exact Or.inl rfl
  | some s => exact Or.inr (hd_tk ⟨'"', _, rfl, rfl⟩)

theorem description_fails {p : Nat} (h : HeadNot (· = '"') (inp.drop p)) :
    Fails gList 12 true (.call R.Description) .nonAtomic (At inp p) :=
  (fails_rule look_Description (by decide) (by decide) (string_fails h)).mono (by omega)

theorem clean_stringPair' (s : List Char) (p : Nat) : CleanP (stringPair s p) := clean_stringPair s p

theorem stringPair_rule (s : List Char) (p : Nat) : (stringPair s p).rule = R.StringValue := by
  cases s <;> rfl

theorem buildDescription_pair (s : String) (p e : Nat) (h : HasAt inp p (quoted s.toList)) :
    optDesc (Ctx.spec inp) (some (.mk R.Description p e [stringPair s.toList p])) = .ok (some s) := by
  have hsv := stringValueChars_stringPair (inp := inp) s.toList p _ h.drop
  simp [optDesc, buildDescription, onlyChildOf, onlyChild, Pair.children, OC_Description, stringPair_rule,
    buildStringValue, hsv, bind, Except.bind]

/-- `Description?`; what follows is a name or a keyword (anything but `"`) -/
theorem optDescT {τ : Trivia} (hτ : ∀ q, Ws (τ q)) (d : Option String) {p : Nat} (h : HasAt inp p (rOptDesc τ p d))
    (ht : Tok (At inp (p + (rOptDesc τ p d).length))) (hq : HeadNot (· = '"') (inp.drop (p + (rOptDesc τ p d).length))) :
    ∃ o : Option Pair, RunsK (B (rOptDesc τ p d).length + 5) (.opt (.call R.Description)) (At inp p)
        (At inp (p + (rOptDesc τ p d).length)) o.toList ∧ (∀ x ∈ o, x.rule = R.Description ∧ CleanP x) ∧
      optDesc (Ctx.spec inp) o = .ok d := by
  cases d with
  | none =>
    simp only [rOptDesc, List.length_nil, Nat.add_zero] at ht hq ⊢
    exact ⟨none, (runsK_opt_none (description_fails hq) ht).mono (by barith), by simp, rfl⟩
  | some s =>
    simp only [rOptDesc] at h ht hq ⊢
    have r := stringT hτ s.toList h ht hq
    obtain ⟨e, rD⟩ := runsK_rule look_Description (by decide) (by decide) r
    refine ⟨some (.mk R.Description p e [stringPair s.toList p]), ?_, ?_, buildDescription_pair s p e h.left⟩
    · exact RunsK.cast ((runsK_opt_some rD).mono (by omega)) rfl rfl (by simp [At])
    · intro x hx
      cases hx
      exact ⟨rfl, cleanP_of (by decide) (by decide) ⟨clean_stringPair _ _, trivial⟩⟩


/-! ### input value definitions -/

theorem look_InputValueDefinition : gList.look R.InputValueDefinition = some (.normal, .seq (.opt (.call R.Description))
    (.seq (.call R.Name) (.seq (.str [':']) (.seq (.call R.«Type») (.seq (.opt (.call R.DefaultValue))
      (.opt (.call R.Directives))))))) := rfl
theorem look_ArgumentsDefinition : gList.look R.ArgumentsDefinition =
    some (.normal, .seq (.str ['(']) (.seq (.plus (.call R.InputValueDefinition)) (.str [')']))) := rfl
theorem look_InputFieldsDefinition : gList.look R.InputFieldsDefinition =
    some (.normal, .seq (.str ['{']) (.seq (.plus (.call R.InputValueDefinition)) (.str ['}']))) := rfl

def rIVD (τ : Trivia) (sep : Bool) (p : Nat) (v : InputValueDef) : List Char :=
  let tD := rOptDesc τ p v.desc
  let tN := tk τ false (p + tD.length) v.name.toList
  let tC := tk τ false (p + tD.length + tN.length) [':']
  let tT := rType τ (sep && v.dirs.isEmpty && v.default.isNone) (p + tD.length + tN.length + tC.length) v.ty
  let tE := rOptDefault τ (sep && v.dirs.isEmpty) (p + tD.length + tN.length + tC.length + tT.length) v.default
  tD ++ (tN ++ (tC ++ (tT ++ (tE ++ rDirs τ sep (p + tD.length + tN.length + tC.length + tT.length + tE.length) v.dirs))))

def wpIVD (τ : Trivia) (inp : List Char) (sep : Bool) (p : Nat) (v : InputValueDef) : InputValueDef :=
  let tD := rOptDesc τ p v.desc
  let tN := tk τ false (p + tD.length) v.name.toList
  let tC := tk τ false (p + tD.length + tN.length) [':']
  let tT := rType τ (sep && v.dirs.isEmpty && v.default.isNone) (p + tD.length + tN.length + tC.length) v.ty
  let tE := rOptDefault τ (sep && v.dirs.isEmpty) (p + tD.length + tN.length + tC.length + tT.length) v.default
  { desc := v.desc, name := v.name, pos := posAt inp (p + tD.length),
    ty := wpType τ inp (p + tD.length + tN.length + tC.length) v.ty,
    default := wpOptDefault τ inp (p + tD.length + tN.length + tC.length + tT.length) v.default,
    dirs := wpDirs τ inp sep (p + tD.length + tN.length + tC.length + tT.length + tE.length) v.dirs }

def WFIVD (v : InputValueDef) : Prop := validName v.name.toList ∧ WF v.ty ∧ (∀ d ∈ v.default, WFV d) ∧ WFDirs v.dirs

/-- what must not follow an input value definition (`.` and `"` only if no gap separates them from it) -/
abbrev ivdBad (s : Bool) : Char → Prop :=
  fun c => c = '!' ∨ c = '=' ∨ c = '@' ∨ c = '(' ∨ (s = false ∧ (c = '.' ∨ c = '"'))

theorem hd_rIVD (τ : Trivia) (sep : Bool) (p : Nat) (v : InputValueDef) (hwf : WFIVD v) :
    Hd (fun d => nameStart d ∨ d = '"') (rIVD τ sep p v) := by
  simp only [rIVD]
  cases hd : v.desc with
  | none =>
    simp only [rOptDesc, List.nil_append, List.length_nil, Nat.add_zero]
    exact Hd.append (hd_tk (P := fun d => nameStart d ∨ d = '"') ((hd_of_validName hwf.1).mono (fun _ h => Or.inl h))) _
  | some s =>
    simp only [rOptDesc]
    exact Hd.append (hd_tk (P := fun d => nameStart d ∨ d = '"') ⟨'"', _, rfl, Or.inr rfl⟩) _

theorem p_ivd_nodup : (P_InputValueDefinition.map itemRule).Nodup := by decide

theorem ivdT (τ : Trivia) (hτ : ∀ q, Ws (τ q)) (v : InputValueDef) (hwf : WFIVD v) {sep : Bool} {p : Nat}
    (h : HasAt inp p (rIVD τ sep p v)) (hn : Nxt inp (ivdBad sep) sep (p + (rIVD τ sep p v).length)) :
    ∃ pr, RunsK (B (rIVD τ sep p v).length + 30) (.call R.InputValueDefinition) (At inp p)
        (At inp (p + (rIVD τ sep p v).length)) [pr] ∧ PairOk R.InputValueDefinition p pr ∧
      ∀ fuel, (rIVD τ sep p v).length ≤ fuel →
        buildInputValueDefinition (Ctx.spec inp) fuel pr = .ok (wpIVD τ inp sep p v) := by
  obtain ⟨hname, hty, hdef, hdirs⟩ := hwf
  simp only [rIVD, wpIVD] at h hn ⊢
  generalize hS : rOptDesc τ p v.desc = tS at *
  generalize hN : tk τ false (p + tS.length) v.name.toList = tN at *
  generalize hC : tk τ false (p + tS.length + tN.length) [':'] = tC at *
  generalize hsT : (sep && v.dirs.isEmpty && v.default.isNone) = sT at *
  generalize hsE : (sep && v.dirs.isEmpty) = sE at *
  generalize hT : rType τ sT (p + tS.length + tN.length + tC.length) v.ty = tT at *
  generalize hE : rOptDefault τ sE (p + tS.length + tN.length + tC.length + tT.length) v.default = tE at *
  generalize hD : rDirs τ sep (p + tS.length + tN.length + tC.length + tT.length + tE.length) v.dirs = tD at *
  have hlen : p + (tS ++ (tN ++ (tC ++ (tT ++ (tE ++ tD))))).length =
      p + tS.length + tN.length + tC.length + tT.length + tE.length + tD.length := by
    simp only [List.length_append]; omega
  rw [hlen] at hn ⊢
  have g0 : HasAt inp p tS := h.left
  have g1 : HasAt inp (p + tS.length) tN := h.right.left
  have g2 : HasAt inp (p + tS.length + tN.length) tC := h.right.right.left
  have g3 : HasAt inp (p + tS.length + tN.length + tC.length) tT := h.right.right.right.left
  have g4 : HasAt inp (p + tS.length + tN.length + tC.length + tT.length) tE := h.right.right.right.right.left
  have g5 : HasAt inp (p + tS.length + tN.length + tC.length + tT.length + tE.length) tD := h.right.right.right.right.right
  have hdN : Hd nameStart tN := hN ▸ hd_tk (hd_of_validName hname)
  have hdC : Hd (· = ':') tC := hC ▸ hd_tk (hd_cons _ rfl)
  have hdT : Hd (fun d => nameStart d ∨ d = '[') tT := hT ▸ hd_rType τ sT _ v.ty hty
  have hlN := hdN.length_pos
  have hlC := hdC.length_pos
  -- what follows the default value / the type
  have n4 : Nxt inp (fun c => c = '!' ∨ c = '=' ∨ (sE = false ∧ (c = '.' ∨ c = '"'))) sE
      (p + tS.length + tN.length + tC.length + tT.length + tE.length) := by
    refine Nxt.rest' g5 hn (hD ▸ hd_rDirs τ sep _ v.dirs) (P := (· = '@')) ?_ ?_ ?_
    · rintro c rfl
      refine ⟨by decide, ?_, by decide⟩
      rintro (h | h | ⟨_, h | h⟩) <;> exact absurd h (by decide)
    · intro ht c hc
      have hd0 : v.dirs = [] := rDirs_eq_nil (hD.trans ht)
      have hse : sE = sep := by rw [← hsE, hd0]; simp
      rcases hc with h | h | ⟨h1, h2⟩
      · exact Or.inl h
      · exact Or.inr (Or.inl h)
      · exact Or.inr (Or.inr (Or.inr (Or.inr ⟨hse ▸ h1, h2⟩)))
    · intro ht hs
      have : v.dirs = [] := rDirs_eq_nil (hD.trans ht)
      rw [← hsE, this] at hs
      simpa using hs
  have n3 : Nxt inp (· = '!') sT (p + tS.length + tN.length + tC.length + tT.length) := by
    refine Nxt.rest g4 n4 (hE ▸ hd_rOptDefault τ sE _ v.default) (P := (· = '=')) ?_ (fun c hc => Or.inl hc) ?_
    · rintro c rfl
      refine ⟨by decide, by decide, by decide⟩
    · intro ht hs
      have : v.default = none := rOptDefault_eq_nil (hE.trans ht)
      rw [← hsT, this] at hs
      simpa using hs
  -- description, name
  obtain ⟨oS, rS, hokS, hbS⟩ := optDescT hτ v.desc (hS ▸ g0)
    (by rw [hS]; exact tok_of_hd g1 hdN (fun d => nameStart_not_trivia))
    (by rw [hS]; exact headNot_of_hd g1 hdN (fun d hd => (nameStart_not_punct hd).2.2.2.2.2.2.2.2.2.2.2.2.2.2.1))
  rw [hS] at rS
  have r1 := nameT hτ hname (hN ▸ g1) (bad := fun _ => False)
    (by rw [hN]; exact Nxt.of_hd g2 hdC (by rintro c rfl; decide))
  rw [hN] at r1
  have r2 := strT hτ [':'] (hC ▸ g2) (by
    rw [hC]; exact tok_of_hd g3 hdT (by
      rintro c (hc | rfl)
      · exact nameStart_not_trivia hc
      · decide))
  rw [hC] at r2
  obtain ⟨prT, rT, hokT, hbT⟩ := (type_all τ hτ v.ty hty).2 sT _ (· = '!') rfl (hT ▸ g3) (by rw [hT]; exact n3)
  rw [hT] at rT hbT
  obtain ⟨oE, rE, hokE, hbE⟩ := optDefaultT τ hτ v.default hdef
    (bad := fun c => c = '!' ∨ c = '=' ∨ (sE = false ∧ (c = '.' ∨ c = '"')))
    (Or.inr (Or.inl rfl)) (fun hs c hc => Or.inr (Or.inr ⟨hs, hc⟩)) (hE ▸ g4) (by rw [hE]; exact n4)
  rw [hE] at rE hbE
  obtain ⟨oD, rD, hokD, _, hbD⟩ := optDirsT τ hτ v.dirs hdirs (bad := ivdBad sep) (Or.inr (Or.inr (Or.inr (Or.inl rfl))))
    (Or.inr (Or.inr (Or.inl rfl))) (hD ▸ g5) (by rw [hD]; exact hn)
  rw [hD] at rD hbD
  obtain ⟨e, rR⟩ := runsK_rule look_InputValueDefinition (by decide) (by decide)
    (runsK_seq rS (runsK_seq r1.toK (runsK_seq r2 (runsK_seq rT (runsK_seq rE rD)))))
  refine ⟨_, rR.mono (by barith), ?_, ?_⟩
  · refine pairOk_mk (by decide) (by decide) ?_
    simp only [cleanL_append, cleanL_cons, cleanL_nil, and_true, true_and]
    exact ⟨clean_opt (fun x hx => (hokS x hx).2), cleanP_of (by decide) (by decide) trivial, hokT.clean,
      clean_opt (fun x hx => (hokE x hx).2), clean_opt (fun x hx => (hokD x hx).clean)⟩
  · intro fuel hf
    have hf' : tS.length + (tN.length + (tC.length + (tT.length + (tE.length + tD.length)))) ≤ fuel := by
      simpa using hf
    have hch : oS.toList ++ ([Pair.mk R.Name (p + tS.length) (p + tS.length + v.name.toList.length) []] ++
          ([] ++ ([prT] ++ (oE.toList ++ oD.toList)))) =
        slotPairs [oS, some (Pair.mk R.Name (p + tS.length) (p + tS.length + v.name.toList.length) []), some prT,
          oE, oD] := by simp [slotPairs]
    rw [hch]
    have hm := matchParts_slots P_InputValueDefinition _ p_ivd_nodup
      (show slotsOk P_InputValueDefinition [oS, some (Pair.mk R.Name (p + tS.length)
          (p + tS.length + v.name.toList.length) []), some prT, oE, oD] from
        ⟨fun x hx => (hokS x hx).1, ⟨_, rfl, rfl⟩, ⟨_, rfl, hokT.rule⟩, fun x hx => (hokE x hx).1,
          fun x hx => (hokD x hx).rule, trivial⟩)
    have hname' := (hN ▸ g1 : HasAt inp _ (tk τ false _ v.name.toList)).left.slice
    simp [buildInputValueDefinition, Pair.children, hm, hbS, hbT fuel (by omega), hbE fuel (by omega),
      hbD fuel (by omega), asString_spec', toPos_spec', Pair.start, Pair.stop, hname', At, bind, Except.bind]

end NitroVerif.DocParse
