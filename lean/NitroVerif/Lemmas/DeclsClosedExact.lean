/-
Name resolution inside the generated schema declaration file hosted in a declaration table (`Hosted D P F`), and the
induction on values that turns the per-body exactness statements into `Mem … ↔ Ref …` (the closed form of C10).
-/
import NitroVerif.Lemmas.DeclsClosedSchema
import NitroVerif.Lemmas.DeclsClosedGlob
import NitroVerif.Lemmas.DeclsClosedRef
import NitroVerif.Lemmas.DeclsClosedBodies
namespace NitroVerif.SchemaDecls
open NitroVerif.Gql NitroVerif.Ts NitroVerif.DeclCfg NitroVerif.RefTypes

/-! ### a measure on values under which a missing key is smaller than the record -/

mutual
def jrank : J → Nat
  | .arr xs => jrankList xs + 1
  | .obj kvs => jrankFields kvs + 1
  | _ => 0
def jrankList : List J → Nat
  | [] => 0
  | x :: xs => jrank x + jrankList xs
def jrankFields : List (String × J) → Nat
  | [] => 0
  | (_, x) :: r => jrank x + jrankFields r
end

theorem jrank_mem_list {x : J} : ∀ {xs : List J}, x ∈ xs → jrank x ≤ jrankList xs := by
  intro xs
  induction xs with
  | nil => intro h; cases h
  | cons a r ih =>
    intro h
    simp only [jrankList]
    rcases List.mem_cons.1 h with rfl | h
    · omega
    · have := ih h; omega

theorem jrank_mem_fields {kv : String × J} : ∀ {kvs : List (String × J)}, kv ∈ kvs → jrank kv.2 ≤ jrankFields kvs := by
  intro kvs
  induction kvs with
  | nil => intro h; cases h
  | cons a r ih =>
    intro h
    obtain ⟨k, x⟩ := a
    simp only [jrankFields]
    rcases List.mem_cons.1 h with rfl | h
    · simp
    · have := ih h; omega

theorem jrank_get (kvs : List (String × J)) (k : String) : jrank (J.get kvs k) < jrank (.obj kvs) := by
  unfold J.get
  split
  · rename_i k' v h
    have := jrank_mem_fields (List.mem_of_find?_eq_some h)
    simp only [jrank]; simp only at this; omega
  · simp [jrank]

theorem jrank_elem {x : J} {xs : List J} (h : x ∈ xs) : jrank x < jrank (.arr xs) := by
  have := jrank_mem_list h
  simp only [jrank]; omega

/-- wrapper conformance only looks at the value and, through arrays, at its elements -/
theorem confCore_congr {R1 R2 : Name → J → Prop} : ∀ (ty : GType) (x : J),
    (∀ y, jrank y ≤ jrank x → (R1 ty.unwrapped y ↔ R2 ty.unwrapped y)) → (ConfCore R1 ty x ↔ ConfCore R2 ty x) := by
  intro ty
  induction ty with
  | named n p => intro x h; exact h x (Nat.le_refl _)
  | nonNull t ih => intro x h; exact ih x h
  | list t p ih =>
    intro x h
    simp only [ConfCore]
    constructor
    · rintro ⟨xs, rfl, hx⟩
      refine ⟨xs, rfl, fun y hy => ?_⟩
      rcases hx y hy with h1 | h1
      · exact Or.inl h1
      · exact Or.inr ((ih y (fun z hz => h z (by have := jrank_elem hy; omega))).1 h1)
    · rintro ⟨xs, rfl, hx⟩
      refine ⟨xs, rfl, fun y hy => ?_⟩
      rcases hx y hy with h1 | h1
      · exact Or.inl h1
      · exact Or.inr ((ih y (fun z hz => h z (by have := jrank_elem hy; omega))).2 h1)

theorem conf_congr {R1 R2 : Name → J → Prop} (ty : GType) (x : J)
    (h : ∀ y, jrank y ≤ jrank x → (R1 ty.unwrapped y ↔ R2 ty.unwrapped y)) : Conf R1 ty x ↔ Conf R2 ty x := by
  unfold Conf
  rw [confCore_congr ty x h]

/-! ### what is assumed of the schema document and the configuration -/

/-- The document is a checked schema (type names distinct, none beginning with the renaming prefix, every referenced
    type defined and usable in the direction it is used in) and the configured scalar texts stay clear of the
    printer's own identifiers: no type is named like one of the three prelude helpers; no identifier of a scalar text starts with `__tmp_` (open finding
    `C10_rename_counterexample`) or is one of the three prelude helper names / four namespace names; the supplied parse
    of a scalar text mentions only identifiers of that text and contains no internal absolute reference. -/
structure DocOK (c : Cfg) (doc : TsDoc) : Prop where
  distinct : ((typeDefsOf doc).map (·.name)).Nodup
  names : ∀ a ∈ typeDefsOf doc, hasTmpPrefix a.name = false
  notPrelude : ∀ a ∈ typeDefsOf doc, a.name ∉ preludeNames
  fields : ∀ td ∈ typeDefsOf doc, td.kind = .object → ∀ f ∈ td.fields,
    ∃ td' ∈ typeDefsOf doc, td'.name = f.ty.unwrapped ∧ td'.kind ≠ .input
  inputs : ∀ td ∈ typeDefsOf doc, td.kind = .input → ∀ f ∈ td.inputs,
    ∃ td' ∈ typeDefsOf doc, td'.name = f.ty.unwrapped ∧ (td'.kind = .scalar ∨ td'.kind = .enum ∨ td'.kind = .input)
  members : ∀ td ∈ typeDefsOf doc, td.kind = .union → ∀ m ∈ td.members,
    ∃ td' ∈ typeDefsOf doc, td'.name = m.1 ∧ td'.kind = .object
  bagOK : ∀ i ∈ bag (scalarTypes c doc), hasTmpPrefix i = false ∧ i ∉ reservedNames
  parses : ∀ p ∈ scalarTypes c doc, ∀ t ∈ Target.all,
    (c.parseOf (p.2.getType t)).noAbs = true ∧
      ∀ i ∈ (c.parseOf (p.2.getType t)).freeNames, i ∈ bag (scalarTypes c doc)

theorem nodup_names_inj {tds : List TypeDef} (h : (tds.map (·.name)).Nodup) :
    ∀ a ∈ tds, ∀ b ∈ tds, a.name = b.name → a = b := by
  induction tds with
  | nil => intro a ha; cases ha
  | cons x r ih =>
    intro a ha b hb e
    simp only [List.map_cons, List.nodup_cons, List.mem_map, not_exists, not_and] at h
    rcases List.mem_cons.1 ha with e1 | ha <;> rcases List.mem_cons.1 hb with e2 | hb
    · rw [e1, e2]
    · exact absurd (by rw [← e, e1]) (h.1 b hb)
    · exact absurd (by rw [e, e2]) (h.1 a ha)
    · exact ih h.2 a ha b hb e

theorem find?_name_of_nodup {tds : List TypeDef} (h : (tds.map (·.name)).Nodup) {td : TypeDef} (hm : td ∈ tds) :
    tds.find? (·.name == td.name) = some td := by
  induction tds with
  | nil => cases hm
  | cons x r ih =>
    simp only [List.map_cons, List.nodup_cons, List.mem_map, not_exists, not_and] at h
    rcases List.mem_cons.1 hm with rfl | hm
    · simp
    · have : (x.name == td.name) = false := by
        simp only [beq_eq_false_iff_ne, ne_eq]
        intro e; exact h.1 td hm e.symm
      rw [List.find?_cons, this]
      exact ih h.2 hm

theorem typeDefs_eq (doc : TsDoc) : (Schema.mk doc).typeDefs = typeDefsOf doc := by
  unfold Schema.typeDefs typeDefsOf
  induction doc with
  | nil => rfl
  | cons a r ih => cases a <;> simp [ih]

theorem typeDef?_of_mem {c : Cfg} {doc : TsDoc} (ok : DocOK c doc) {td : TypeDef} (hm : td ∈ typeDefsOf doc) :
    (Schema.mk doc).typeDef? td.name = some td := by
  unfold Schema.typeDef?
  rw [typeDefs_eq]
  exact find?_name_of_nodup ok.distinct hm

theorem hasTmpPrefix_tmp (s : String) : hasTmpPrefix ("__tmp_" ++ s) = true := by
  simp [hasTmpPrefix, String.toList_append]

/-! ### lookups in a table that hosts the schema file -/

theorem find?_and {α : Type} (p q : α → Bool) : ∀ (l : List α) (d : α), l.find? p = some d → q d = true →
    l.find? (fun x => p x && q x) = some d := by
  intro l
  induction l with
  | nil => intro d h; cases h
  | cons a r ih =>
    intro d h hq
    rw [List.find?_cons] at h ⊢
    cases hp : p a with
    | true =>
      rw [hp] at h
      cases h
      simp [hq]
    | false =>
      rw [hp] at h
      simp only [Bool.false_and]
      exact ih d h hq

theorem resolveRef_of_findLocal {D : Decls} {sc : Scope} {n : String} {x : Decl} (h : D.findLocal sc n = some x) :
    D.resolveRef sc n = some x := by
  simp [Decls.resolveRef, Decls.resolveRefAux, h]

section hosted
variable {c : Cfg} {doc : TsDoc} {F : File} (hF : schemaFile c doc = .ok F) (ok : DocOK c doc)
variable {D : Decls} {P : Scope} (H : Hosted D P F)

/-- the local name of a schema type -/
abbrev lname (c : Cfg) (doc : TsDoc) (n : Name) : String := localName (bag (scalarTypes c doc)) n

include ok in
theorem lname_inj {a b : TypeDef} (ha : a ∈ typeDefsOf doc) (hb : b ∈ typeDefsOf doc)
    (h : lname c doc a.name = lname c doc b.name) : a = b :=
  nodup_names_inj ok.distinct a ha b hb (localName_inj _ _ _ (ok.names a ha) (ok.names b hb) h)

include hF in
/-- names of the file's declarations: prelude helpers or local names of schema types -/
theorem decl_name_cases (d : Decl) (hd : d ∈ Stmt.declsList P F) :
    d.name ∈ preludeNames ∨ ∃ td ∈ typeDefsOf doc, d.name = lname c doc td.name := by
  rcases decls_schemaFile hF P d hd with ⟨_, h | ⟨td, htd, rfl⟩⟩ | ⟨t, td, htd, ty, _, rfl⟩
  · exact Or.inl h
  · exact Or.inr ⟨td, htd, rfl⟩
  · exact Or.inr ⟨td, htd, rfl⟩

include hF ok in
theorem bag_not_decl {i : String} (hi : i ∈ bag (scalarTypes c doc)) : ∀ d ∈ Stmt.declsList P F, d.name ≠ i := by
  intro d hd e
  rcases decl_name_cases hF d hd with h | ⟨td, _, h⟩
  · exact (ok.bagOK i hi).2 (by rw [← e]; simp [reservedNames, h])
  · have hh : localName (bag (scalarTypes c doc)) td.name = i := h.symm.trans e
    exact localName_not_mem_bag _ (fun j hj => (ok.bagOK j hj).1) td.name (by rw [hh]; exact hi)

include H in
theorem hosted_findLocal_none {sc : Scope} {n : String} (hn : ∀ d ∈ Stmt.declsList P F, d.name ≠ n) :
    D.findLocal (P ++ sc) n = none := by
  rw [H.findLocal]
  apply List.find?_eq_none.2
  intro d hd
  simp only [isDeclAt, Bool.and_eq_true, beq_iff_eq, not_and]
  intro _ e; exact hn d hd e

include H in
/-- a name no declaration of the file has resolves to nothing from inside a namespace of the file -/
theorem hosted_resolveRef_none (a n : String) (hn : ∀ d ∈ Stmt.declsList P F, d.name ≠ n) :
    D.resolveRef (P ++ [a]) n = none := by
  have h1 : D.findLocal (P ++ [a]) n = none := hosted_findLocal_none H hn
  have h2 : D.findLocal P n = none := by
    have := hosted_findLocal_none H (sc := []) hn
    simpa using this
  have h3 : D.roots.contains (P ++ [a]) = false := H.inner [a] (by simp)
  have h4 : (P.isEmpty || D.roots.contains P) = true := by
    rcases H.stop with rfl | h
    · rfl
    · simp only [h, Bool.or_true]
  unfold Decls.resolveRef
  rw [show (P ++ [a]).length + 1 = (P.length + 1) + 1 by simp]
  have h5 : (P ++ [a]).isEmpty = false := by cases P <;> rfl
  simp only [Decls.resolveRefAux, h1, h3, h5, Bool.or_false, Bool.false_eq_true, if_false,
    List.dropLast_concat, h2, h4, if_true]

include hF H in
theorem hosted_nss_contains (sc : Scope) (hsc : sc ≠ []) :
    D.namespaces.contains (P ++ sc) = (Target.all.map fun t => P ++ [t.name]).contains (P ++ sc) := by
  rw [H.nss sc hsc, nss_schemaFile hF P]

include hF H in
theorem hosted_resolveNs_none (a n : String) (hn : n ∉ targetNames) :
    D.resolveNsAux n ((P ++ [a]).length + 1) (P ++ [a]) = none := by
  have h1 : D.namespaces.contains (P ++ [a] ++ [n]) = false := by
    rw [List.append_assoc, hosted_nss_contains hF H _ (by simp)]
    simp [Target.all]
  have h2 : D.namespaces.contains (P ++ [n]) = false := by
    rw [hosted_nss_contains hF H _ (by simp)]
    simp only [targetNames, List.mem_map, not_exists, not_and] at hn
    rw [Bool.eq_false_iff]
    intro hc
    obtain ⟨t, ht, e⟩ := List.mem_map.1 (List.contains_iff_mem.1 hc)
    exact hn t ht (by simpa using e)
  have h3 : D.roots.contains (P ++ [a]) = false := H.inner [a] (by simp)
  have h4 : (P.isEmpty || D.roots.contains P) = true := by
    rcases H.stop with rfl | h
    · rfl
    · simp only [h, Bool.or_true]
  rw [show (P ++ [a]).length + 1 = (P.length + 1) + 1 by simp]
  have h5 : (P ++ [a]).isEmpty = false := by cases P <;> rfl
  simp only [Decls.resolveNsAux, h1, h3, h5, Bool.or_false, Bool.false_eq_true, if_false,
    List.dropLast_concat, h2, h4, if_true]

include hF ok H in
/-- identifiers of scalar texts are unbound inside every namespace of the hosted file -/
theorem hosted_bag_unbound (t : Target) {i : String} (hi : i ∈ bag (scalarTypes c doc)) :
    Unbound D (P ++ [t.name]) i := by
  refine ⟨hosted_resolveRef_none H _ _ (bag_not_decl hF ok hi), ?_⟩
  intro r rest
  have hn : i ∉ targetNames := fun h => (ok.bagOK i hi).2 (by simp [reservedNames, h])
  simp only [Decls.resolveQ, hosted_resolveNs_none hF H t.name i hn]

/-! ### hits -/

/-- the declaration of `td` in the namespace of `t` placed at `P` -/
def aliasDecl (c : Cfg) (doc : TsDoc) (P : Scope) (t : Target) (td : TypeDef) (ty : Ty) : Decl :=
  ⟨P ++ [t.name], lname c doc td.name, td.name == lname c doc td.name, [], ty⟩

include hF ok H in
theorem hosted_findLocal_hit (t : Target) {td : TypeDef} {ty : Ty} (hm : td ∈ typeDefsOf doc)
    (hb : body (Ctx.new c doc t) td = .ok (some ty)) :
    D.findLocal (P ++ [t.name]) (lname c doc td.name) = some (aliasDecl c doc P t td ty) := by
  rw [H.findLocal]
  exact schemaFile_find_hit hF P t td ty hb hm (fun a ha e => lname_inj ok ha hm e)

include hF ok H in
theorem hosted_resolveRef_hit (t : Target) {td : TypeDef} {ty : Ty} (hm : td ∈ typeDefsOf doc)
    (hb : body (Ctx.new c doc t) td = .ok (some ty)) :
    D.resolveRef (P ++ [t.name]) (lname c doc td.name) = some (aliasDecl c doc P t td ty) :=
  resolveRef_of_findLocal (hosted_findLocal_hit hF ok H t hm hb)

include hF ok H in
/-- the stored body of the alias: the printed body with its references bound in the namespace -/
theorem hosted_body (t : Target) {td : TypeDef} {ty : Ty} (hm : td ∈ typeDefsOf doc)
    (hb : body (Ctx.new c doc t) td = .ok (some ty)) :
    D.body? (P ++ [t.name] ++ [lname c doc td.name]) = some ([], globalise D (P ++ [t.name]) [] ty) := by
  simp [Decls.body?, hosted_findLocal_hit hF ok H t hm hb, aliasDecl]

include hF ok H in
/-- the generated reference to a printed type becomes the absolute reference to its alias -/
theorem hosted_leaf (t : Target) {td : TypeDef} {ty : Ty} (hm : td ∈ typeDefsOf doc)
    (hb : body (Ctx.new c doc t) td = .ok (some ty)) :
    globalise D (P ++ [t.name]) [] ((Ctx.new c doc t).leaf td.name) = Ty.abs (P ++ [t.name]) (lname c doc td.name) := by
  have := hosted_resolveRef_hit hF ok H t hm hb
  simp only [Ctx.leaf, globalise, List.contains_nil, Bool.false_eq_true, if_false]
  rw [show (Ctx.new c doc t).local td.name = lname c doc td.name from rfl, this]
  rfl

include hF ok H in
/-- QUALIFIED ROUTE: the namespace of `t` exports the alias of `td` under `td`'s SCHEMA name — directly when the type
    keeps its name, through `export type { __tmp_T as T }` when it was renamed -/
theorem hosted_findExported_hit (t : Target) {td : TypeDef} {ty : Ty} (hm : td ∈ typeDefsOf doc)
    (hb : body (Ctx.new c doc t) td = .ok (some ty)) :
    D.findExported (P ++ [t.name]) td.name = some (aliasDecl c doc P t td ty) := by
  have hfind := schemaFile_find_hit hF P t td ty hb hm (fun a ha e => lname_inj ok ha hm e)
  cases hren : (td.name == lname c doc td.name) with
  | true =>
    have he : td.name = lname c doc td.name := by simpa using hren
    apply findExported_of_type
    rw [H.exported [t.name] td.name]
    have := find?_and (isDeclAt (P ++ [t.name]) (lname c doc td.name)) (fun x => x.exported) _ _ hfind
      (show (td.name == lname c doc td.name) = true from hren)
    rw [← he] at this
    exact this
  | false =>
    have hne : td.name ≠ lname c doc td.name := by simpa using hren
    have h1 : D.types.find? (fun x => x.scope == P ++ [t.name] && x.name == td.name && x.exported) = none := by
      rw [H.exported [t.name] td.name]
      apply List.find?_eq_none.2
      intro d hd
      simp only [Bool.and_eq_true, beq_iff_eq, not_and, Bool.not_eq_true]
      rintro ⟨hsc, hnm⟩
      exfalso
      rcases decls_schemaFile hF P d hd with ⟨hs, _⟩ | ⟨t', a, ha, ty', _, rfl⟩
      · rw [hs] at hsc; exact scope_ne_child P _ hsc
      · simp only at hnm
        unfold localName at hnm
        split at hnm
        · have := ok.names td hm
          rw [← hnm, hasTmpPrefix_tmp] at this; cases this
        · have hat : a = td := nodup_names_inj ok.distinct a ha td hm hnm
          subst hat
          apply hne
          rename_i hc
          show a.name = localName (bag (scalarTypes c doc)) a.name
          unfold localName
          rw [if_neg hc]
    have h2 := schemaFile_export_hit hF P t td ty hb hm hren
      (fun a ha e => nodup_names_inj ok.distinct a ha td hm e)
    rw [findExported_of_export h1 (by rw [H.exports [t.name] td.name]; exact h2)]
    exact hosted_resolveRef_hit hF ok H t hm hb

/-! ### the top-level representatives -/

/-- the representative of `td` at the top of the file placed at `P` -/
def repDecl (c : Cfg) (doc : TsDoc) (P : Scope) (td : TypeDef) : Decl :=
  ⟨P, lname c doc td.name, td.name == lname c doc td.name, [], .qref [(repTarget td).name, td.name]⟩

include ok in
theorem lname_not_prelude {td : TypeDef} (hm : td ∈ typeDefsOf doc) : lname c doc td.name ∉ preludeNames := by
  unfold lname localName
  split
  · intro h
    have : hasTmpPrefix ("__tmp_" ++ td.name) = false := by
      simp only [preludeNames, List.mem_cons, List.mem_nil_iff, or_false] at h
      rcases h with h | h | h <;> rw [h] <;> decide
    rw [hasTmpPrefix_tmp] at this; cases this
  · exact ok.notPrelude td hm

include hF ok H in
theorem hosted_findLocal_top {td : TypeDef} (hm : td ∈ typeDefsOf doc) :
    D.findLocal P (lname c doc td.name) = some (repDecl c doc P td) := by
  have := H.findLocal [] (lname c doc td.name)
  simp only [List.append_nil] at this
  rw [this]
  exact schemaFile_find_top hF P td hm (lname_not_prelude ok hm) (fun a ha e => lname_inj ok ha hm e)

include hF ok H in
/-- the top level of the file exports the representative of `td` under `td`'s SCHEMA name -/
theorem hosted_findExported_top {td : TypeDef} (hm : td ∈ typeDefsOf doc) :
    D.findExported P td.name = some (repDecl c doc P td) := by
  have hfind := schemaFile_find_top hF P td hm (lname_not_prelude ok hm) (fun a ha e => lname_inj ok ha hm e)
  have hexp := H.exported [] td.name
  have hexps := H.exports [] td.name
  simp only [List.append_nil] at hexp hexps
  cases hren : (td.name == lname c doc td.name) with
  | true =>
    have he : td.name = lname c doc td.name := by simpa using hren
    apply findExported_of_type
    rw [hexp]
    have := find?_and (isDeclAt P (lname c doc td.name)) (fun x => x.exported) _ _ hfind
      (show (td.name == lname c doc td.name) = true from hren)
    rw [← he] at this
    exact this
  | false =>
    have hne : td.name ≠ lname c doc td.name := by simpa using hren
    have h1 : D.types.find? (fun x => x.scope == P && x.name == td.name && x.exported) = none := by
      rw [hexp]
      apply List.find?_eq_none.2
      intro d hd
      simp only [Bool.and_eq_true, beq_iff_eq, not_and, Bool.not_eq_true]
      rintro ⟨hsc, hnm⟩
      exfalso
      rcases decls_schemaFile hF P d hd with ⟨_, hp | ⟨a, ha, rfl⟩⟩ | ⟨t', a, ha, ty', _, rfl⟩
      · exact ok.notPrelude td hm (hnm ▸ hp)
      · simp only at hnm
        unfold localName at hnm
        split at hnm
        · have := ok.names td hm
          rw [← hnm, hasTmpPrefix_tmp] at this; cases this
        · have hat : a = td := nodup_names_inj ok.distinct a ha td hm hnm
          subst hat
          apply hne
          rename_i hc
          show a.name = localName (bag (scalarTypes c doc)) a.name
          unfold localName
          rw [if_neg hc]
      · exact scope_ne_child P _ hsc.symm
    have h2 := schemaFile_export_top hF P td hm hren (fun a ha e => nodup_names_inj ok.distinct a ha td hm e)
    rw [findExported_of_export h1 (by rw [hexps]; exact h2)]
    have hl := hosted_findLocal_top hF ok H hm
    rcases H.stop with rfl | hroot
    · exact resolveRef_of_findLocal hl
    · exact resolveRef_of_findLocal hl

include hF H in
theorem hosted_ns_mem (t : Target) : D.namespaces.contains (P ++ [t.name]) = true := by
  rw [hosted_nss_contains hF H [t.name] (by simp)]
  exact List.contains_iff_mem.2 (List.mem_map.2 ⟨t, Target.mem_all t, rfl⟩)

end hosted

end NitroVerif.SchemaDecls
