/-
`parse_no_panic`, composition (helper lemmas for Props/C08): a successful parse with a normal start rule returns exactly
one pair of that rule; if `validate_unicode_escapes` finds nothing, that pair is `Good`; hence the two document builders
are `Quiet` on it and `parseWith` cannot return `Outcome.panic`.
-/
import NitroVerif.Lemmas.ParseQuietTs
namespace NitroVerif.Shape
open NitroVerif.Peg NitroVerif.Gen NitroVerif.Gen.Parts NitroVerif.Build NitroVerif.ParseText

/-- `Parser::parse(rule, input)` with a normal, non-special start rule returns one pair, of that rule -/
theorem parse_root_single {g : G} {fuel : Nat} {r : RuleId} {inp : List Char} {ps : List Pair} {body : Expr}
    (hl : g.look r = some (.normal, body)) (hsp : ¬ (g.ws = some r ∨ g.cm = some r))
    (h : Peg.parse g fuel r inp = .pairs ps) : ∃ s e cs, ps = [Pair.mk r s e cs] := by
  unfold Peg.parse runTr at h
  rcases hc : callRule g fuel r .nonAtomic .none {} ⟨0, inp⟩ with ⟨tr, o⟩
  rw [hc] at h
  cases o with
  | ok c' ps' =>
    simp only [ParseResult.pairs.injEq] at h
    subst h
    obtain ⟨f, tr0, tr1, ps0, _, hps⟩ := rule_inv g hl hc
    simp [bodyCfg, hsp] at hps
    exact ⟨_, _, _, hps⟩
  | fail => simp at h
  | oof => simp at h

theorem firstBadEscape_none {ctx : Ctx} {ps : List Pair} (h : firstBadEscape ctx ps = none) :
    ∀ q ∈ flatList ps, q.rule = R.NormalStringValue → scanEscapes ctx none (stringCharacters q) = none := by
  unfold firstBadEscape at h
  rw [List.findSome?_eq_none_iff] at h
  intro q hq hr
  have := h q hq
  rw [if_pos hr] at this
  cases hs : scanEscapes ctx none (stringCharacters q) with
  | none => rfl
  | some x => rw [hs] at this; cases this

/-- the root pair of a validated parse is `Good` -/
theorem good_of_parse {fuel : Nat} {r : RuleId} {inp : List Char} {p : Pair}
    (h : Peg.parse gList fuel r inp = .pairs [p]) (hesc : firstBadEscape (Ctx.spec inp) [p] = none) : Good inp p := by
  refine ⟨parse_deepOk gList fuel r inp [p] h p (List.mem_singleton.mpr rfl),
    parse_wit gList fuel r inp [p] h p (List.mem_singleton.mpr rfl), fun q hq hr => ?_⟩
  refine firstBadEscape_none hesc q ?_ hr
  simp only [flatList, List.append_nil]
  exact hq

theorem look_ExecutableDocument : ∃ body, gList.look R.ExecutableDocument = some (.normal, body) := ⟨_, rfl⟩
theorem look_TypeSystemExtensionDocument : ∃ body, gList.look R.TypeSystemExtensionDocument = some (.normal, body) :=
  ⟨_, rfl⟩

theorem parseWith_noPanic {α} (root : RuleId) (build : Ctx → Nat → List Pair → M α) (inp : List Char)
    (hroot : ∃ body, gList.look root = some (.normal, body)) (hsp : ¬ (gList.ws = some root ∨ gList.cm = some root))
    (hq : ∀ (p : Pair) (n : Nat), Good inp p → p.rule = root → Quiet (build (Ctx.spec inp) n [p])) :
    (parseWith gList Ctx.spec root build inp).isPanic = false := by
  unfold parseWith
  cases hp : Peg.parse gList (defaultFuel inp) root inp with
  | error att => rfl
  | outOfFuel => rfl
  | pairs ps =>
    dsimp only
    cases hb : firstBadEscape (Ctx.spec inp) ps with
    | some off => rfl
    | none =>
      dsimp only
      obtain ⟨body, hl⟩ := hroot
      obtain ⟨s, e, cs, rfl⟩ := parse_root_single hl hsp hp
      have hg := good_of_parse hp hb
      have := hq _ (4 * inp.length + 64) hg rfl
      cases hbd : build (Ctx.spec inp) (4 * inp.length + 64) [Pair.mk root s e cs] with
      | ok a => rfl
      | error e =>
        have he := this e hbd
        subst he
        rfl

end NitroVerif.Shape
