/-
C18 composed (helper lemmas): every position `check_operation_document` reports is a position of a node of the document
it was given or of the schema it was given — stated for an arbitrary predicate `Q` that holds of all those positions
(`checkOp_Q`).  Part 1: values, arguments, directives.
-/
import NitroVerif.Lemmas.CliComposedPos
import NitroVerif.Model.CheckOp
namespace NitroVerif.CliComposed
open NitroVerif NitroVerif.Gql NitroVerif.CheckCommon NitroVerif.CheckOp

/-- every diagnostic of the list is reported at a position satisfying `Q` -/
def AllQ {ε : Type} (Q : Pos → Prop) (ds : List (ε × Pos)) : Prop := ∀ d ∈ ds, Q d.2

/-- every position of the list satisfies `Q` -/
def PQ (Q : Pos → Prop) (ps : List Pos) : Prop := ∀ p ∈ ps, Q p

section basics
variable {ε : Type} {Q : Pos → Prop}

theorem allQ_nil : AllQ Q ([] : List (ε × Pos)) := by intro d hd; cases hd

theorem allQ_append {a b : List (ε × Pos)} : AllQ Q (a ++ b) ↔ AllQ Q a ∧ AllQ Q b := by
  constructor
  · intro h; exact ⟨fun d hd => h d (List.mem_append_left _ hd), fun d hd => h d (List.mem_append_right _ hd)⟩
  · rintro ⟨h1, h2⟩ d hd
    rcases List.mem_append.mp hd with hd | hd
    · exact h1 d hd
    · exact h2 d hd

theorem allQ_single {k : ε} {p : Pos} : AllQ Q [(k, p)] ↔ Q p := by
  constructor
  · intro h; exact h (k, p) (by simp)
  · intro h d hd; simp at hd; subst hd; exact h

theorem allQ_cons {k : ε} {p : Pos} {ds : List (ε × Pos)} : AllQ Q ((k, p) :: ds) ↔ Q p ∧ AllQ Q ds := by
  rw [show (k, p) :: ds = [(k, p)] ++ ds from rfl, allQ_append, allQ_single]

theorem allQ_ite {c : Prop} [Decidable c] {a b : List (ε × Pos)} (ha : c → AllQ Q a) (hb : ¬ c → AllQ Q b) :
    AllQ Q (if c then a else b) := by
  split
  · exact ha ‹_›
  · exact hb ‹_›

theorem allQ_flatMap {α : Type} {l : List α} {f : α → List (ε × Pos)} (h : ∀ x ∈ l, AllQ Q (f x)) :
    AllQ Q (l.flatMap f) := by
  intro d hd
  obtain ⟨x, hx, hdx⟩ := List.mem_flatMap.mp hd
  exact h x hx d hdx

theorem allQ_filter {p : ε × Pos → Bool} {ds : List (ε × Pos)} (h : AllQ Q ds) : AllQ Q (ds.filter p) :=
  fun d hd => h d (List.mem_filter.mp hd).1

theorem pq_nil : PQ Q [] := by intro p hp; cases hp

theorem pq_append {a b : List Pos} : PQ Q (a ++ b) ↔ PQ Q a ∧ PQ Q b := by
  constructor
  · intro h; exact ⟨fun d hd => h d (List.mem_append_left _ hd), fun d hd => h d (List.mem_append_right _ hd)⟩
  · rintro ⟨h1, h2⟩ d hd
    rcases List.mem_append.mp hd with hd | hd
    · exact h1 d hd
    · exact h2 d hd

theorem pq_cons {p : Pos} {ps : List Pos} : PQ Q (p :: ps) ↔ Q p ∧ PQ Q ps := by
  constructor
  · intro h; exact ⟨h p (by simp), fun d hd => h d (List.mem_cons_of_mem _ hd)⟩
  · rintro ⟨h1, h2⟩ d hd
    rcases List.mem_cons.mp hd with rfl | hd
    · exact h1
    · exact h2 d hd

theorem pq_flatMap {α : Type} {l : List α} {f : α → List Pos} : PQ Q (l.flatMap f) ↔ ∀ x ∈ l, PQ Q (f x) := by
  constructor
  · intro h x hx p hp; exact h p (List.mem_flatMap.mpr ⟨x, hx, hp⟩)
  · intro h p hp
    obtain ⟨x, hx, hpx⟩ := List.mem_flatMap.mp hp
    exact h x hx p hpx

theorem pq_map {α : Type} {l : List α} {f : α → Pos} : PQ Q (l.map f) ↔ ∀ x ∈ l, Q (f x) := by
  constructor
  · intro h x hx; exact h _ (List.mem_map.mpr ⟨x, hx, rfl⟩)
  · intro h p hp
    obtain ⟨x, hx, rfl⟩ := List.mem_map.mp hp
    exact h x hx

end basics

/-! ### types -/

theorem typePos_mem (t : GType) : typePos t ∈ t.positions := by
  induction t with
  | named n p => simp [typePos, GType.positions]
  | list t p _ => simp [typePos, GType.positions]
  | nonNull t ih => simpa [typePos, GType.positions] using ih

theorem baseNamed_mem (t : GType) : (baseNamed t).2 ∈ t.positions := by
  induction t with
  | named n p => simp [baseNamed, GType.positions]
  | list t p ih => simp [baseNamed, GType.positions, ih]
  | nonNull t ih => simpa [baseNamed, GType.positions] using ih

theorem stripNonNull_positions (t : GType) : (stripNonNull t).positions = t.positions := by
  induction t with
  | named n p => rfl
  | list t p _ => rfl
  | nonNull t ih => simpa [stripNonNull, GType.positions] using ih

theorem baseNamed_stripNonNull (t : GType) : baseNamed (stripNonNull t) = baseNamed t := by
  induction t with
  | named n p => rfl
  | list t p _ => rfl
  | nonNull t ih => simpa [stripNonNull, baseNamed] using ih

/-- an expected type is harmless when its innermost named type is defined in the schema (then no diagnostic is
    reported AT the type), or when all its positions satisfy `Q` -/
def TOk (S : Schema) (Q : Pos → Prop) (t : GType) : Prop :=
  (∃ td, S.typeDef? (baseNamed t).1 = some td) ∨ PQ Q t.positions

/-- a type definition the schema's lookup returns -/
def FromS (S : Schema) (td : TypeDef) : Prop := ∃ n, S.typeDef? n = some td

/-- what the lemmas need of the schema: every position at which the operation checker can report a fault OF THE
    SCHEMA (an undefined argument / input-field type, a union member that is not an object type) satisfies `Q` — or
    the fault does not exist.  Established by `schemaQ_of_positions` (all positions of the schema document satisfy
    `Q`) and by `schemaQ_of_facts` (the schema has no such fault, any `Q`). -/
structure SchemaQ (S : Schema) (Q : Pos → Prop) : Prop where
  inputs : ∀ {n td}, S.typeDef? n = some td → td.kind = .input → ∀ f ∈ td.inputs, TOk S Q f.ty
  fieldArgs : ∀ {n td}, S.typeDef? n = some td → (td.kind = .object ∨ td.kind = .interface) →
    ∀ fd ∈ td.fields, ∀ a ∈ fd.args, TOk S Q a.ty
  dirArgs : ∀ {n dd}, S.directiveDef? n = some dd → ∀ a ∈ dd.args, TOk S Q a.ty
  members : ∀ {n td}, S.typeDef? n = some td → td.kind = .union → ∀ m ∈ td.members,
    (∃ o, S.typeDef? m.1 = some o ∧ o.kind = .object) ∨ Q m.2

/-! ### the schema's own positions -/

section schema
variable {S : Schema} {Q : Pos → Prop}

theorem typeDef_PQ (hS : PQ Q (TsDoc.positions S.items)) {n : Name} {td : TypeDef} (h : S.typeDef? n = some td) :
    PQ Q td.positions := by
  have hm : td ∈ S.typeDefs := List.mem_of_find?_eq_some h
  unfold Schema.typeDefs at hm
  obtain ⟨it, hit, he⟩ := List.mem_filterMap.mp hm
  have := (pq_flatMap.mp hS) it hit
  cases it <;> simp at he
  subst he
  exact this

theorem directiveDef_PQ (hS : PQ Q (TsDoc.positions S.items)) {n : Name} {dd : DirectiveDef}
    (h : S.directiveDef? n = some dd) : PQ Q dd.positions := by
  have hm : dd ∈ S.directiveDefs := List.mem_of_find?_eq_some h
  unfold Schema.directiveDefs at hm
  obtain ⟨it, hit, he⟩ := List.mem_filterMap.mp hm
  have := (pq_flatMap.mp hS) it hit
  cases it <;> simp at he
  subst he
  exact this

theorem inputValue_ty_PQ {v : InputValueDef} (h : PQ Q v.positions) : PQ Q v.ty.positions := by
  unfold InputValueDef.positions at h
  exact (pq_append.mp (pq_append.mp (pq_cons.mp h).2).1).1

theorem typeDef_inputs_PQ {td : TypeDef} (h : PQ Q td.positions) : ∀ f ∈ td.inputs, PQ Q f.ty.positions := by
  intro f hf
  unfold TypeDef.positions at h
  have := (pq_append.mp (pq_cons.mp (pq_cons.mp h).2).2).2
  exact inputValue_ty_PQ ((pq_flatMap.mp this) f hf)

theorem typeDef_members_PQ {td : TypeDef} (h : PQ Q td.positions) : ∀ m ∈ td.members, Q m.2 := by
  unfold TypeDef.positions at h
  have := (pq_append.mp (pq_append.mp (pq_append.mp (pq_cons.mp (pq_cons.mp h).2).2).1).1).2
  exact pq_map.mp this

theorem typeDef_fields_args_PQ {td : TypeDef} (h : PQ Q td.positions) :
    ∀ fd ∈ td.fields, ∀ a ∈ fd.args, PQ Q a.ty.positions := by
  intro fd hfd a ha
  unfold TypeDef.positions at h
  have := (pq_append.mp (pq_append.mp (pq_append.mp (pq_append.mp (pq_cons.mp (pq_cons.mp h).2).2).1).1).1).2
  have hf := (pq_flatMap.mp this) fd hfd
  unfold FieldDef.positions at hf
  have := (pq_append.mp (pq_append.mp (pq_cons.mp hf).2).1).1
  exact inputValue_ty_PQ ((pq_flatMap.mp this) a ha)

theorem directiveDef_args_PQ {dd : DirectiveDef} (h : PQ Q dd.positions) : ∀ a ∈ dd.args, PQ Q a.ty.positions := by
  intro a ha
  unfold DirectiveDef.positions at h
  exact inputValue_ty_PQ ((pq_flatMap.mp (pq_cons.mp (pq_cons.mp h).2).2) a ha)

/-- if every position of the schema document satisfies `Q`, the schema is fine for `Q` -/
theorem schemaQ_of_positions (hS : PQ Q (TsDoc.positions S.items)) : SchemaQ S Q where
  inputs h _ f hf := Or.inr (typeDef_inputs_PQ (typeDef_PQ hS h) f hf)
  fieldArgs h _ fd hfd a ha := Or.inr (typeDef_fields_args_PQ (typeDef_PQ hS h) fd hfd a ha)
  dirArgs h a ha := Or.inr (directiveDef_args_PQ (directiveDef_PQ hS h) a ha)
  members h _ m hm := Or.inr (typeDef_members_PQ (typeDef_PQ hS h) m hm)

end schema

/-! ### values -/

theorem Value.one_le_size (v : Value) : 1 ≤ v.size := by
  cases v <;> simp [Value.size]

section values
variable {S : Schema} {Q : Pos → Prop} (hS : SchemaQ S Q) (vars : Option (List VarDef))

theorem leafCompat_Q (v : Value) (td : TypeDef) (hv : Q v.pos) : AllQ Q (leafCompat v td).1 := by
  unfold leafCompat
  cases td.kind <;> simp only
  all_goals first
    | exact allQ_nil
    | (cases v <;> simp only <;> first
        | exact allQ_nil
        | (apply allQ_ite
           · intro _; exact allQ_single.mpr hv
           · intro _; exact allQ_nil))

theorem namedLeaf_Q (v : Value) (n : Name) (np : Pos) (hv : Q v.pos) (hn : S.typeDef? n = none → Q np) :
    AllQ Q (namedLeaf S v n np) := by
  unfold namedLeaf
  cases hq : S.typeDef? n with
  | none => exact allQ_single.mpr (hn hq)
  | some td =>
    simp only
    rw [allQ_append]
    refine ⟨leafCompat_Q v td hv, ?_⟩
    apply allQ_ite
    · intro _; exact allQ_nil
    · intro _; exact allQ_single.mpr hv

theorem varCheck_Q (n : Name) (p : Pos) (t : GType) (ld : Bool) (hp : Q p) : AllQ Q (varCheck vars n p t ld) := by
  unfold varCheck
  cases varDef? (vars.getD []) n with
  | none => exact allQ_single.mpr hp
  | some d =>
    simp only
    apply allQ_ite
    · intro _; exact allQ_nil
    · intro _; exact allQ_single.mpr hp

theorem objResult_Q (outcomes : List FieldOutcome) (n : Nat) (p : Pos) (ho : ∀ o ∈ outcomes, AllQ Q o.diags)
    (hp : Q p) : AllQ Q (objResult outcomes n p) := by
  unfold objResult
  simp only
  rw [allQ_append]
  refine ⟨allQ_flatMap ho, ?_⟩
  apply allQ_ite
  · intro _; exact allQ_nil
  · intro _; exact allQ_single.mpr hp

theorem fieldOutcome_Q (r : Option (List Diag)) (f : InputValueDef) (hr : ∀ ds, r = some ds → AllQ Q ds) :
    AllQ Q (fieldOutcome r f).diags := by
  unfold fieldOutcome
  cases r with
  | some ds => exact hr ds rfl
  | none => simp only; split <;> exact allQ_nil

theorem tOk_named {t : GType} {n : Name} {np : Pos} (ht : TOk S Q t) (hst : stripNonNull t = .named n np) :
    S.typeDef? n = none → Q np := by
  intro hnone
  have hb : baseNamed t = (n, np) := by rw [← baseNamed_stripNonNull, hst]; rfl
  rcases ht with ⟨td, htd⟩ | hp
  · rw [hb] at htd; simp only at htd; rw [hnone] at htd; cases htd
  · have := hp _ (baseNamed_mem t)
    rw [hb] at this; exact this

theorem tOk_base {t : GType} (ht : TOk S Q t) : S.typeDef? (baseNamed t).1 = none → Q (baseNamed t).2 := by
  intro hnone
  rcases ht with ⟨td, htd⟩ | hp
  · rw [hnone] at htd; cases htd
  · exact hp _ (baseNamed_mem t)

theorem tOk_inner {t inner : GType} {q : Pos} (ht : TOk S Q t) (hst : stripNonNull t = .list inner q) :
    TOk S Q inner := by
  have hb : baseNamed t = baseNamed inner := by rw [← baseNamed_stripNonNull, hst]; rfl
  rcases ht with ⟨td, htd⟩ | hp
  · left; rw [hb] at htd; exact ⟨td, htd⟩
  · right
    have : PQ Q (stripNonNull t).positions := by rw [stripNonNull_positions]; exact hp
    rw [hst] at this
    simp only [GType.positions] at this
    exact (pq_cons.mp this).2

include hS in
/-- `check_value`: every reported position is a position of the value, or of the expected type when that type's
    name is undefined -/
theorem checkValue_Q : ∀ (k : Nat) (v : Value), v.size ≤ k → ∀ (t : GType) (ld : Bool),
    PQ Q v.positions → TOk S Q t → AllQ Q (checkValue S vars v t ld) := by
  intro k
  induction k with
  | zero => intro v hv; have := Value.one_le_size v; omega
  | succ k ih =>
    have hlist : ∀ (vs : List Value), Value.sizeList vs ≤ k → ∀ t, PQ Q (Value.positionsList vs) → TOk S Q t →
        AllQ Q (checkValueList S vars vs t) := by
      intro vs
      induction vs with
      | nil => intro _ t _ _; simp only [checkValueList]; exact allQ_nil
      | cons v vs ihv =>
        intro hsz t hp ht
        simp only [Value.sizeList] at hsz
        simp only [Value.positionsList] at hp
        simp only [checkValueList]
        rw [allQ_append]
        exact ⟨ih v (by omega) t false (pq_append.mp hp).1 ht, ihv (by have := Value.one_le_size v; omega) t (pq_append.mp hp).2 ht⟩
    have hfields : ∀ (fs : List (Name × Pos × Value)), Value.sizeFields fs ≤ k → ∀ n t ld,
        PQ Q (Value.positionsFields fs) → TOk S Q t →
        ∀ ds, lookupField S vars fs n t ld = some ds → AllQ Q ds := by
      intro fs
      induction fs with
      | nil => intro _ n t ld _ _ ds h; simp [lookupField] at h
      | cons f fs ihf =>
        obtain ⟨key, kp, v⟩ := f
        intro hsz n t ld hp ht ds h
        simp only [Value.sizeFields] at hsz
        simp only [Value.positionsFields] at hp
        have hp' := pq_append.mp (pq_cons.mp hp).2
        simp only [lookupField] at h
        split at h
        · cases h
          exact ih v (by omega) t ld hp'.1 ht
        · exact ihf (by have := Value.one_le_size v; omega) n t ld hp'.2 ht ds h
    intro v hsz t ld hv ht
    have hvp : Q v.pos := hv _ (Value.pos_mem_positions v)
    have hgen : ∀ v', Q v'.pos →
        AllQ Q (if Value.isNull v' then
          (if t.isNonNull then [(ErrKind.TypeMismatch, v'.pos)]
           else match stripNonNull t with
             | .list _ _ => []
             | .named n np => namedLeaf S v' n np
             | .nonNull _ => [])
          else namedLeaf S v' (baseNamed t).1 (baseNamed t).2) := by
      intro v' hv'
      apply allQ_ite
      · intro _
        apply allQ_ite
        · intro _; exact allQ_single.mpr hv'
        · intro _
          cases hst : stripNonNull t with
          | named n np =>
            simp only
            exact namedLeaf_Q v' n np hv' (tOk_named ht hst)
          | list _ _ => exact allQ_nil
          | nonNull _ => exact allQ_nil
      · intro _; exact namedLeaf_Q v' _ _ hv' (tOk_base ht)
    cases v with
    | var n p => simp only [checkValue]; exact varCheck_Q vars n p t ld hvp
    | list vs p =>
      simp only [checkValue]
      simp only [Value.size] at hsz
      simp only [Value.positions] at hv
      cases hst : stripNonNull t with
      | named n np =>
        simp only
        exact namedLeaf_Q _ n np hvp (tOk_named ht hst)
      | list inner q =>
        simp only
        exact hlist vs (by omega) inner (pq_cons.mp hv).2 (tOk_inner ht hst)
      | nonNull _ => exact allQ_nil
    | obj fs p =>
      simp only [checkValue]
      simp only [Value.size] at hsz
      simp only [Value.positions] at hv
      cases htd : S.typeDef? (baseNamed t).1 with
      | none => exact allQ_single.mpr (tOk_base ht htd)
      | some td =>
        simp only
        apply allQ_ite
        · intro hkb
          have hk : td.kind = .input := by
            cases hk' : td.kind <;> first | rfl | (rw [hk'] at hkb; exact absurd hkb (by decide))
          apply objResult_Q
          · intro o ho
            obtain ⟨f, hf, rfl⟩ := List.mem_map.mp ho
            apply fieldOutcome_Q
            intro ds hds
            exact hfields fs (by omega) _ _ _ (pq_cons.mp hv).2 (hS.inputs htd hk f hf) ds hds
          · exact hvp
        · intro _
          rw [allQ_append]
          refine ⟨leafCompat_Q _ td hvp, ?_⟩
          apply allQ_ite
          · intro _; exact allQ_nil
          · intro _; exact allQ_single.mpr hvp
    | int s p => simp only [checkValue]; exact hgen _ hvp
    | float s p => simp only [checkValue]; exact hgen _ hvp
    | str s p => simp only [checkValue]; exact hgen _ hvp
    | bool b p => simp only [checkValue]; exact hgen _ hvp
    | null p => simp only [checkValue]; exact hgen _ hvp
    | enum n p => simp only [checkValue]; exact hgen _ hvp

include hS in
theorem checkValue_Q' (v : Value) (t : GType) (ld : Bool) (hv : PQ Q v.positions) (ht : TOk S Q t) :
    AllQ Q (checkValue S vars v t ld) :=
  checkValue_Q hS vars v.size v (Nat.le_refl _) t ld hv ht

end values

end NitroVerif.CliComposed
