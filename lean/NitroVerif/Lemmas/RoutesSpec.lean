/-
C15, the SDL half against the specification: the schema the SDL route builds from `M` (+ built-ins) is `≃` the type
system the specification assigns to `M` (`specSchema M`, + the built-in scalars the CLI always adds).
-/
import NitroVerif.Lemmas.Routes
namespace NitroVerif.Routes
open NitroVerif NitroVerif.Gql NitroVerif.SchemaIR NitroVerif.AstSchema NitroVerif.IntrospectSpec NitroVerif.CliSchema

theorem introspectionTypes_clean : introspectionTypes.map cleanType = introspectionTypes := by decide

theorem referencedBuiltins_clean (ts : List ITypeDef) (ds : List IDirectiveDef) :
    (referencedBuiltins ts ds).map cleanType = referencedBuiltins ts ds := by
  simp only [referencedBuiltins, List.map_map]
  apply List.map_congr_left
  intro b _
  rfl

/-- the non-user types of the specification are already clean -/
theorem specExtra_eq (M : TsDoc) :
    specExtra M = referencedBuiltins (userTypes M ++ introspectionTypes) (builtinDirectives ++ userDirectives M)
      ++ introspectionTypes := by
  simp only [specExtra, introspectionTypes_clean, referencedBuiltins_clean]

theorem specSchema_types (M : TsDoc) : (specSchema M).types = userTypes M ++ specExtra M := by
  simp only [specSchema, specExtra_eq, List.append_assoc]

/-- the schema the specification assigns to `M`, with the five built-in scalars -/
def specSide (M : TsDoc) : Schema := addBuiltinScalars (specSchema M)

theorem specSide_types (M : TsDoc) : (specSide M).types = extendTypes (userTypes M ++ specExtra M) builtinScalarDefs := by
  simp only [specSide, addBuiltinScalars, specSchema_types]

/-- reading the introspection result back loses nothing a consumer can see -/
theorem jsonSide_equiv_specSide (M : TsDoc) (hn : ((userTypes M).map (·.name)).Nodup) : jsonSide M ≃ specSide M := by
  have htypes : ∀ n, (jsonSide M).typeDef? n = (specSide M).typeDef? n := by
    intro n
    simp only [Schema.typeDef?, jsonSide_types, specSide_types, find?_extendTypes]
    rw [List.find?_append, find?_extendTypes, List.nil_append, ← List.find?_append]
  have hv : viewType (jsonSide M) = viewType (specSide M) := by
    funext n; simp only [viewType, htypes]
  refine ⟨fun n => congrFun hv n, fun n => ?_, fun k => ?_, fun i o => ?_⟩
  · simp only [viewDirective, Schema.directiveDef?, jsonSide_directives, find?_extendDirectives, List.nil_append]
    rfl
  · have hr : (jsonSide M).rootName k = (specSide M).rootName k := by
      simp [Schema.rootName, Schema.rootsDeclared, (jsonSide_roots M).1, (jsonSide_roots M).2, specSide,
        addBuiltinScalars, specSchema]
    simp only [viewRoot, hv, hr]
  · have hJ : (jsonSide M).types.filter (implP i) = (userTypes M).filter (implP i) := by
      rw [jsonSide_types, filter_extendTypes _ _ _ (implP_builtinScalarDefs i), extendTypes_append,
        filter_extendTypes _ _ _ (implP_specExtra M i), extendTypes_nil_nodup _ hn]
    have hS : (specSide M).types.filter (implP i) = (userTypes M).filter (implP i) := by
      rw [specSide_types, filter_extendTypes _ _ _ (implP_builtinScalarDefs i), List.filter_append]
      have : (specExtra M).filter (implP i) = [] := by
        rw [List.filter_eq_nil_iff]
        intro t ht
        simp [implP_specExtra M i t ht]
      rw [this, List.append_nil]
    have hfun : (fun t : ITypeDef => t.kind == IKind.object && t.interfaces.contains i) = implP i := rfl
    simp only [implementsB, Schema.objectImplementers, hfun, hJ, hS]

/-- the SDL route builds the specification's type system of `M` -/
theorem routeSdl_equiv_specSide (M : TsDoc) (h : ValidResolved M) : routeSdl M ≃ specSide M :=
  (routes_equiv M h).symm.trans (jsonSide_equiv_specSide M h.typeNames)

end NitroVerif.Routes
