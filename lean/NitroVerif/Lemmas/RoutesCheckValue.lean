/-
C15: the shared part of the checker (`Model/CheckCommon.lean`: `check_value`, `check_arguments`, `check_directives`)
gives the same diagnostics on two document views that agree on the lookups (`Agree`), the first of which is closed
(`Closed`: every type a definition refers to in an input position is defined — otherwise the checker reports a
`TypeSystemError` at a position INSIDE the schema source, which the two routes cannot share).
-/
import NitroVerif.Lemmas.RoutesBridge
namespace NitroVerif.Bridge
open NitroVerif NitroVerif.Gql NitroVerif.SchemaIR NitroVerif.AstSchema NitroVerif.CheckCommon NitroVerif.CheckOp

/-- the test of the interface × interface arm of `check_fragment_spread_core`: some object type implements both -/
def ifaceBoth (S : Gql.Schema) (a b : Name) : Bool :=
  S.typeNames.any (fun n => match S.typeDef? n with
    | some o => o.kind == .object && implementsIface o a && implementsIface o b
    | none => false)

/-- two document views answer the lookups of the operation checker alike (after erasure) -/
structure Agree (S₁ S₂ : Gql.Schema) : Prop where
  types : ∀ n, isIntrospectionName n = false → (S₁.typeDef? n).map tv = (S₂.typeDef? n).map tv
  directives : ∀ n, isNitrogqlDirective n = false → (S₁.directiveDef? n).map dv = (S₂.directiveDef? n).map dv
  ifaceBoth : ∀ a b, ifaceBoth S₁ a b = ifaceBoth S₂ a b

/-- a type name a definition may refer to: not reserved for introspection, and defined -/
def RefOk (S : Gql.Schema) (n : Name) : Prop := isIntrospectionName n = false ∧ (S.typeDef? n).isSome = true

/-- references inside the definitions of a document view are resolvable (part of "the schema passed `check`") -/
structure Closed (S : Gql.Schema) : Prop where
  fields : ∀ n td, S.typeDef? n = some td → ∀ f ∈ td.fields,
    isIntrospectionName f.ty.unwrapped = false ∧ ∀ a ∈ f.args, RefOk S a.ty.unwrapped
  inputs : ∀ n td, S.typeDef? n = some td → ∀ f ∈ td.inputs, RefOk S f.ty.unwrapped
  members : ∀ n td, S.typeDef? n = some td → ∀ m ∈ td.members,
    isIntrospectionName m.1 = false ∧ ∃ o, S.typeDef? m.1 = some o ∧ o.kind = .object
  directives : ∀ n dd, S.directiveDef? n = some dd → ∀ a ∈ dd.args, RefOk S a.ty.unwrapped
  typeNames : ∀ n td, S.typeDef? n = some td → isIntrospectionName n = false

/-! ### types -/

theorem typeCompat_congr (d : GType) : ∀ {t₁ t₂ : GType}, convType t₁ = convType t₂ →
    typeCompat d t₁ = typeCompat d t₂ := by
  induction d with
  | named n p =>
    intro t₁ t₂ h
    cases t₁ <;> cases t₂ <;> simp_all [convType, typeCompat]
  | list d p ih =>
    intro t₁ t₂ h
    cases t₁ <;> cases t₂ <;> simp_all [convType, typeCompat]
    exact ih h
  | nonNull d ih =>
    intro t₁ t₂ h
    cases t₁ with
    | named n p => cases t₂ <;> simp_all [convType, typeCompat]; exact ih (by simp [convType])
    | list a p => cases t₂ <;> simp_all [convType, typeCompat]; exact ih (by simp [convType, h])
    | nonNull a => cases t₂ <;> simp_all [convType, typeCompat]; exact ih h

theorem varCheck_congr (vars : Option (List VarDef)) (n : Name) (p : Pos) {t₁ t₂ : GType}
    (h : convType t₁ = convType t₂) (ld : Bool) : varCheck vars n p t₁ ld = varCheck vars n p t₂ ld := by
  unfold varCheck
  cases varDef? (vars.getD []) n with
  | none => rfl
  | some d =>
    simp only
    have hc := typeCompat_congr d.ty h
    cases t₁ with
    | named a p => cases t₂ <;> simp_all [convType]
    | list a p => cases t₂ <;> simp_all [convType]
    | nonNull a =>
      cases t₂ with
      | nonNull b =>
        have hi : convType a = convType b := by simpa [convType] using h
        simp only [hc, typeCompat_congr d.ty hi]
      | _ => simp [convType] at h

theorem baseNamed_fst' (t : GType) : (baseNamed t).1 = t.unwrapped := by
  induction t with
  | named n p => rfl
  | list t p ih => simpa [baseNamed, GType.unwrapped] using ih
  | nonNull t ih => simpa [baseNamed, GType.unwrapped] using ih

/-- the two shapes of `stripNonNull` on related types -/
theorem stripNonNull_rel : ∀ {t₁ t₂ : GType}, convType t₁ = convType t₂ →
    (∃ i₁ p₁ i₂ p₂, stripNonNull t₁ = .list i₁ p₁ ∧ stripNonNull t₂ = .list i₂ p₂ ∧ convType i₁ = convType i₂ ∧
      i₁.unwrapped = t₁.unwrapped) ∨
    (∃ p₁ p₂, stripNonNull t₁ = .named t₁.unwrapped p₁ ∧ stripNonNull t₂ = .named t₁.unwrapped p₂) := by
  intro t₁
  induction t₁ with
  | named n p =>
    intro t₂ h
    cases t₂ with
    | named m q =>
      have : n = m := by simpa [convType] using h
      subst this
      exact Or.inr ⟨p, q, rfl, rfl⟩
    | _ => simp [convType] at h
  | list a p _ =>
    intro t₂ h
    cases t₂ with
    | list b q =>
      have hi : convType a = convType b := by simpa [convType] using h
      exact Or.inl ⟨a, p, b, q, rfl, rfl, hi, rfl⟩
    | _ => simp [convType] at h
  | nonNull a ih =>
    intro t₂ h
    cases t₂ with
    | nonNull b =>
      have hi : convType a = convType b := by simpa [convType] using h
      simpa [stripNonNull, GType.unwrapped] using ih hi
    | _ => simp [convType] at h

/-! ### leaves -/

theorem leafCompat_congr (v : Value) {td₁ td₂ : TypeDef} (h : tv td₁ = tv td₂) :
    leafCompat v td₁ = leafCompat v td₂ := by
  have hk := tv_kind h
  have hn := tv_name h
  unfold leafCompat
  rw [← hk, ← hn]
  cases hk1 : td₁.kind <;> simp only
  -- enum
  have hv := tv_values h hk1
  cases v <;> simp only
  rename_i m p
  have : td₁.values.all (·.name != m) = td₂.values.all (·.name != m) :=
    all_congr_view (v := (·.name)) hv (fun a _ b _ hab => by simp only [hab])
  rw [this]

variable {S₁ S₂ : Gql.Schema}

theorem agree_ref (hA : Agree S₁ S₂) {n : Name} (hr : RefOk S₁ n) :
    ∃ td₁ td₂, S₁.typeDef? n = some td₁ ∧ S₂.typeDef? n = some td₂ ∧ tv td₁ = tv td₂ := by
  rcases option_map_eq_cases (hA.types n hr.1) with ⟨h1, _⟩ | ⟨x, y, hx, hy, hxy⟩
  · have := hr.2; simp [h1] at this
  · exact ⟨x, y, hx, hy, hxy⟩

theorem namedLeaf_congr (hA : Agree S₁ S₂) (v : Value) {n : Name} (hr : RefOk S₁ n) (p₁ p₂ : Pos) :
    namedLeaf S₁ v n p₁ = namedLeaf S₂ v n p₂ := by
  obtain ⟨td₁, td₂, h1, h2, ht⟩ := agree_ref hA hr
  simp only [namedLeaf, h1, h2, leafCompat_congr v ht]

theorem fieldOutcome_congr (r : Option (List Diag)) {a b : InputValueDef} (h : av a = av b) :
    fieldOutcome r a = fieldOutcome r b := by
  have h1 := convType_isNonNull (av_ty h)
  have h2 := av_default h
  have h3 : a.default.isNone = b.default.isNone := by
    cases ha : a.default <;> cases hb : b.default <;> simp_all
  simp only [fieldOutcome, h1, h3]

/-! ### `check_value` -/

mutual
theorem checkValue_congr (hA : Agree S₁ S₂) (hC : Closed S₁) (vars : Option (List VarDef)) :
    ∀ (v : Value) (t₁ t₂ : GType) (ld : Bool), convType t₁ = convType t₂ → RefOk S₁ t₁.unwrapped →
      checkValue S₁ vars v t₁ ld = checkValue S₂ vars v t₂ ld
  | .var n p, t₁, t₂, ld, h, _ => by
    simp only [checkValue]; exact varCheck_congr vars n p h ld
  | .list vs p, t₁, t₂, ld, h, hr => by
    simp only [checkValue]
    rcases stripNonNull_rel h with ⟨i₁, p₁, i₂, p₂, e1, e2, hi, hu⟩ | ⟨p₁, p₂, e1, e2⟩
    · rw [e1, e2]
      exact checkValueList_congr hA hC vars vs i₁ i₂ hi (hu ▸ hr)
    · rw [e1, e2]
      exact namedLeaf_congr hA _ hr p₁ p₂
  | .obj fs p, t₁, t₂, ld, h, hr => by
    simp only [checkValue, baseNamed_fst']
    rw [← convType_unwrapped h]
    obtain ⟨td₁, td₂, h1, h2, ht⟩ := agree_ref hA hr
    simp only [h1, h2]
    have hk := tv_kind ht
    rw [← hk]
    have hm : ∀ hki : td₁.kind = .input,
        td₁.inputs.map (fun f => fieldOutcome (lookupField S₁ vars fs f.name f.ty f.default.isSome) f)
          = td₂.inputs.map (fun f => fieldOutcome (lookupField S₂ vars fs f.name f.ty f.default.isSome) f) := by
      intro hki
      apply map_congr_view (tv_inputs ht hki)
      intro a ha b _ hab
      rw [lookupField_congr hA hC vars fs a.name a.ty b.ty a.default.isSome (av_ty hab) (hC.inputs _ _ h1 a ha),
        av_name hab, av_default hab, fieldOutcome_congr _ hab]
    cases hk1 : td₁.kind with
    | input => rw [hm hk1]; rfl
    | _ => simp only [leafCompat_congr _ ht]; rfl
  | .int s p, t₁, t₂, ld, h, hr => by
    simp only [checkValue, Value.isNull, Bool.false_eq_true, if_false, baseNamed_fst']
    rw [← convType_unwrapped h]; exact namedLeaf_congr hA _ hr _ _
  | .float s p, t₁, t₂, ld, h, hr => by
    simp only [checkValue, Value.isNull, Bool.false_eq_true, if_false, baseNamed_fst']
    rw [← convType_unwrapped h]; exact namedLeaf_congr hA _ hr _ _
  | .str s p, t₁, t₂, ld, h, hr => by
    simp only [checkValue, Value.isNull, Bool.false_eq_true, if_false, baseNamed_fst']
    rw [← convType_unwrapped h]; exact namedLeaf_congr hA _ hr _ _
  | .bool s p, t₁, t₂, ld, h, hr => by
    simp only [checkValue, Value.isNull, Bool.false_eq_true, if_false, baseNamed_fst']
    rw [← convType_unwrapped h]; exact namedLeaf_congr hA _ hr _ _
  | .enum s p, t₁, t₂, ld, h, hr => by
    simp only [checkValue, Value.isNull, Bool.false_eq_true, if_false, baseNamed_fst']
    rw [← convType_unwrapped h]; exact namedLeaf_congr hA _ hr _ _
  | .null p, t₁, t₂, ld, h, hr => by
    simp only [checkValue, Value.isNull, if_true, convType_isNonNull h]
    split
    · rfl
    · rcases stripNonNull_rel h with ⟨i₁, p₁, i₂, p₂, e1, e2, _, _⟩ | ⟨p₁, p₂, e1, e2⟩
      · rw [e1, e2]
      · rw [e1, e2]; exact namedLeaf_congr hA _ hr _ _
theorem checkValueList_congr (hA : Agree S₁ S₂) (hC : Closed S₁) (vars : Option (List VarDef)) :
    ∀ (vs : List Value) (t₁ t₂ : GType), convType t₁ = convType t₂ → RefOk S₁ t₁.unwrapped →
      checkValueList S₁ vars vs t₁ = checkValueList S₂ vars vs t₂
  | [], _, _, _, _ => by simp only [checkValueList]
  | v :: vs, t₁, t₂, h, hr => by
    simp only [checkValueList]
    rw [checkValue_congr hA hC vars v t₁ t₂ false h hr, checkValueList_congr hA hC vars vs t₁ t₂ h hr]
theorem lookupField_congr (hA : Agree S₁ S₂) (hC : Closed S₁) (vars : Option (List VarDef)) :
    ∀ (fs : List (Name × Pos × Value)) (n : Name) (t₁ t₂ : GType) (ld : Bool), convType t₁ = convType t₂ →
      RefOk S₁ t₁.unwrapped → lookupField S₁ vars fs n t₁ ld = lookupField S₂ vars fs n t₂ ld
  | [], _, _, _, _, _, _ => by simp only [lookupField]
  | (k, _, v) :: rest, n, t₁, t₂, ld, h, hr => by
    simp only [lookupField]
    rw [checkValue_congr hA hC vars v t₁ t₂ ld h hr, lookupField_congr hA hC vars rest n t₁ t₂ ld h hr]
end

/-! ### `check_arguments`, `check_directives` -/

/-- argument definitions whose types are resolvable -/
def ArgsOk (S : Gql.Schema) (defs : List InputValueDef) : Prop := ∀ a ∈ defs, RefOk S a.ty.unwrapped

theorem checkArguments_congr (hA : Agree S₁ S₂) (hC : Closed S₁) (vars : Option (List VarDef)) (pos : Pos)
    (args : List Arg) {defs₁ defs₂ : List InputValueDef} (h : defs₁.map av = defs₂.map av) (hok : ArgsOk S₁ defs₁) :
    checkArguments S₁ vars pos args defs₁ = checkArguments S₂ vars pos args defs₂ := by
  have hempty : defs₁.isEmpty = defs₂.isEmpty := by
    cases defs₁ <;> cases defs₂ <;> simp_all
  have hout : argOutcomes S₁ vars pos args defs₁ = argOutcomes S₂ vars pos args defs₂ := by
    unfold argOutcomes
    apply map_congr_view h
    intro a ha b _ hab
    simp only [av_name hab, convType_isNonNull (av_ty hab), av_default hab]
    cases args.find? (fun x => b.name == x.1) with
    | none => rfl
    | some x => simp only [checkValue_congr hA hC vars x.2.2 a.ty b.ty _ (av_ty hab) (hok a ha)]
  have hunk : ∀ x : Arg, defs₁.all (fun d => d.name != x.1) = defs₂.all (fun d => d.name != x.1) := fun x =>
    all_congr_view h (fun a _ b _ hab => by simp only [av_name hab])
  unfold checkArguments
  simp only [hempty, hout, hunk]

theorem checkDirectivesAux_congr (hA : Agree S₁ S₂) (hC : Closed S₁) (vars : Option (List VarDef)) (loc : String) :
    ∀ (ds : List Directive) (seen : List Name), (∀ d ∈ ds, isNitrogqlDirective d.name = false) →
      checkDirectivesAux S₁ vars loc seen ds = checkDirectivesAux S₂ vars loc seen ds
  | [], _, _ => by simp only [checkDirectivesAux]
  | d :: ds, seen, hd => by
    have hrest := fun seen' => checkDirectivesAux_congr hA hC vars loc ds seen' (fun x hx => hd x (by simp [hx]))
    simp only [checkDirectivesAux]
    rcases option_map_eq_cases (hA.directives d.name (hd d (by simp))) with ⟨h1, h2⟩ | ⟨x, y, hx, hy, hxy⟩
    · simp only [h1, h2, hrest]
    · simp only [hx, hy, hrest, dv_locations hxy, dv_repeatable hxy,
        checkArguments_congr hA hC vars d.pos d.args (dv_args hxy) (hC.directives _ _ hx)]

/-- the directives of a list are not the nitrogql-only `@nitrogql_ts_type` -/
def dirsOk (ds : List Directive) : Bool := ds.all fun d => !isNitrogqlDirective d.name

theorem checkDirectives_congr (hA : Agree S₁ S₂) (hC : Closed S₁) (vars : Option (List VarDef)) (ds : List Directive)
    (loc : String) (hd : dirsOk ds = true) : checkDirectives S₁ vars ds loc = checkDirectives S₂ vars ds loc := by
  unfold checkDirectives
  apply checkDirectivesAux_congr hA hC
  intro d hdm
  have := List.all_eq_true.mp hd d hdm
  simpa using this

end NitroVerif.Bridge
