/-
The model of the type-system checker (`Model/CheckTsCommon.lean` + `Model/CheckTs.lean`) as it was BEFORE fix e3584a3
(verbatim copy at /verif commit fc21a0d, namespace renamed to `NitroVerif.PreE3584a3.CheckTs`; it has its own copy of
`ErrKind`): the `"Int"` arm of `scalarAccepts` is `matches!(value, IntValue(_) | NullValue(_))` — every integer literal
is accepted as a directive argument of type `Int`. Used ONLY by the kernel-evaluated pre-repair witness
`C05_int_range_prerepair_witness` (Props/C05.lean); no K comparison runs against it (the code it models is gone).
Core Lean only; structurally recursive (kernel-evaluable).
-/
import NitroVerif.Gql.Schema
namespace NitroVerif.PreE3584a3.CheckTs
open NitroVerif.Gql

/-- the variants of `CheckErrorMessage` reachable from `check_type_system_document` -/
inductive ErrKind where
  | UnknownDirective | DirectiveLocationNotAllowed | RepeatedDirective | ArgumentsNotNeeded
  | RequiredArgumentNotSpecified | TypeMismatch | UnknownVariable | UnknownEnumMember | UnknownArgument
  | UnscoUnsco | DuplicatedName | UnknownType | RecursingDirective | NoOutputType | NoInputType
  | NotInterface | InterfaceNotImplemented | NoImplementSelf | InterfaceFieldNotImplemented
  | FieldTypeMisMatchWithInterface | InterfaceArgumentNotImplemented | ArgumentTypeMisMatchWithInterface
  | ArgumentTypeNonNullAgainstInterface | NonObjectTypeUnionMember | TypeSystemError
  deriving DecidableEq, Repr, Inhabited, BEq

def ErrKind.asStr : ErrKind → String
  | .UnknownDirective => "UnknownDirective"
  | .DirectiveLocationNotAllowed => "DirectiveLocationNotAllowed"
  | .RepeatedDirective => "RepeatedDirective"
  | .ArgumentsNotNeeded => "ArgumentsNotNeeded"
  | .RequiredArgumentNotSpecified => "RequiredArgumentNotSpecified"
  | .TypeMismatch => "TypeMismatch"
  | .UnknownVariable => "UnknownVariable"
  | .UnknownEnumMember => "UnknownEnumMember"
  | .UnknownArgument => "UnknownArgument"
  | .UnscoUnsco => "UnscoUnsco"
  | .DuplicatedName => "DuplicatedName"
  | .UnknownType => "UnknownType"
  | .RecursingDirective => "RecursingDirective"
  | .NoOutputType => "NoOutputType"
  | .NoInputType => "NoInputType"
  | .NotInterface => "NotInterface"
  | .InterfaceNotImplemented => "InterfaceNotImplemented"
  | .NoImplementSelf => "NoImplementSelf"
  | .InterfaceFieldNotImplemented => "InterfaceFieldNotImplemented"
  | .FieldTypeMisMatchWithInterface => "FieldTypeMisMatchWithInterface"
  | .InterfaceArgumentNotImplemented => "InterfaceArgumentNotImplemented"
  | .ArgumentTypeMisMatchWithInterface => "ArgumentTypeMisMatchWithInterface"
  | .ArgumentTypeNonNullAgainstInterface => "ArgumentTypeNonNullAgainstInterface"
  | .NonObjectTypeUnionMember => "NonObjectTypeUnionMember"
  | .TypeSystemError => "TypeSystemError"

abbrev Err := ErrKind × Pos

/-- `name.starts_with("__")` (written over the character list so that the kernel can evaluate it) -/
def reserved (n : Name) : Bool :=
  match n.toList with
  | '_' :: '_' :: _ => true
  | _ => false

/-- `HasPos for Type`: name position / `[` position / position of the inner type -/
def typePos : GType → Pos
  | .named _ p => p
  | .list _ p => p
  | .nonNull t => typePos t

/-- position of the innermost type name (`original_node_ref` of the `NamedType` node) -/
def namedPos : GType → Pos
  | .named _ p => p
  | .list t _ => namedPos t
  | .nonNull t => namedPos t

/-- remove every leading non-null wrapper -/
def stripNN : GType → GType
  | .nonNull t => stripNN t
  | t => t

/-- generic shape of the `let mut seen = vec![]; for x in xs { if seen.contains(name) {…} else {seen.push(name)} … }`
    loops: `body` receives "the name was seen before" -/
def loopSeen {α β : Type} (name : α → Name) (body : Bool → α → List β) : List Name → List α → List β
  | _, [] => []
  | seen, x :: xs =>
    body (seen.contains (name x)) x ++
      loopSeen name body (if seen.contains (name x) then seen else name x :: seen) xs

/-! ### `is_subtype` (types.rs) -/

/-- `is_subtype(definitions, target, other)`; `none` = unknown -/
def isSubtype (S : Schema) : GType → GType → Option Bool
  | .nonNull ti, other =>
    match other with
    | .nonNull oi => isSubtype S ti oi
    | o => isSubtype S ti o
  | .list ti _, other =>
    match other with
    | .list oi _ => isSubtype S ti oi
    | _ => some false
  | .named tn _, other =>
    match other with
    | .named on _ =>
      if tn == on then some true else
      match S.typeDef? tn with
      | none => none
      | some td =>
        match td.kind with
        | .scalar | .enum | .union | .input => some false
        | .interface =>
          if td.implements.any (·.1 == on) then some true
          else if (S.typeDef? on).isSome then some false else none
        | .object =>
          if td.implements.any (·.1 == on) then some true
          else match S.typeDef? on with
            | none => none
            | some od => if od.kind == .union && od.members.any (·.1 == tn) then some true else some false
    | _ =>
      match S.typeDef? tn with
      | none => none
      | some _ => some false

/-! ### `check_value` / `is_value_compatible_type_def` with `variables = None` -/

/-- the scalar arm of `is_value_compatible_type_def`: built-in scalars by name, custom scalars accept anything -/
def scalarAccepts (name : Name) (v : Value) : Bool :=
  if name == "Boolean" then (match v with | .bool .. | .null .. => true | _ => false)
  else if name == "Int" then (match v with | .int .. | .null .. => true | _ => false)
  else if name == "Float" then (match v with | .float .. | .int .. | .null .. => true | _ => false)
  else if name == "String" then (match v with | .str .. | .null .. => true | _ => false)
  else if name == "ID" then (match v with | .str .. | .int .. | .null .. => true | _ => false)
  else true

/-- "non-nullable and without default value" -/
def InputValueDef.required (d : InputValueDef) : Bool := d.ty.isNonNull && d.default.isNone

/-- `res && !(seen_fields < value.fields.len())` of the input-object arm -/
def objShapeOk (defs : List InputValueDef) (fs : List (Name × Pos × Value)) : Bool :=
  !(defs.any fun ef => !(fs.any (·.1 == ef.name)) && InputValueDef.required ef) &&
  !((defs.filter fun ef => fs.any (·.1 == ef.name)).length < fs.length)

mutual
/-- `check_value(definitions, None, value, expected_type, result)` -/
def checkValue (S : Schema) : Value → GType → List Err
  | .var _ p, _ => [(.UnknownVariable, p)]
  | .null p, ty =>
    if ty.isNonNull then [(.TypeMismatch, p)] else
    match stripNN ty with
    | .named n np =>
      match S.typeDef? n with
      | none => [(.TypeSystemError, np)]
      | some td =>
        match td.kind with
        | .object | .interface | .union => [(.TypeMismatch, p)]
        | _ => []
    | _ => []
  | .list vs p, ty =>
    match stripNN ty with
    | .list inner _ => checkValueList S vs inner
    | .named n np =>
      match S.typeDef? n with
      | none => [(.TypeSystemError, np)]
      | some td =>
        match td.kind with
        | .scalar => if scalarAccepts td.name (.list [] p) then [] else [(.TypeMismatch, p)]
        | _ => [(.TypeMismatch, p)]
    | .nonNull _ => []
  | .obj fs p, ty =>
    -- a non-list, non-null value for a list type is checked against the item type (list input coercion),
    -- so it ends up being checked against the innermost named type
    match S.typeDef? ty.unwrapped with
    | none => [(.TypeSystemError, namedPos ty)]
    | some td =>
      match td.kind with
      | .scalar => if scalarAccepts td.name (.obj [] p) then [] else [(.TypeMismatch, p)]
      | .input =>
        -- `for expected_field in object_def.fields { value.fields.find(key == name) → check_value }`
        (td.inputs.flatMap fun ef => checkFieldFind S fs ef.name ef.ty) ++ (if objShapeOk td.inputs fs then [] else [(.TypeMismatch, p)])
      | _ => [(.TypeMismatch, p)]
  | .enum e p, ty =>
    match S.typeDef? ty.unwrapped with
    | none => [(.TypeSystemError, namedPos ty)]
    | some td =>
      match td.kind with
      | .scalar => if scalarAccepts td.name (.enum e p) then [] else [(.TypeMismatch, p)]
      | .enum => if td.values.all (·.name != e) then [(.UnknownEnumMember, p)] else []
      | _ => [(.TypeMismatch, p)]
  | v, ty =>
    -- int / float / str / bool literals
    match S.typeDef? ty.unwrapped with
    | none => [(.TypeSystemError, namedPos ty)]
    | some td =>
      match td.kind with
      | .scalar => if scalarAccepts td.name v then [] else [(.TypeMismatch, v.pos)]
      | _ => [(.TypeMismatch, v.pos)]
/-- the elements of a list literal against the item type -/
def checkValueList (S : Schema) : List Value → GType → List Err
  | [], _ => []
  | v :: vs, ty => checkValue S v ty ++ checkValueList S vs ty
/-- `check_value` of the first field of the object literal with the given key (nothing if absent) -/
def checkFieldFind (S : Schema) : List (Name × Pos × Value) → Name → GType → List Err
  | [], _, _ => []
  | (k, _, v) :: r, name, ty => if k == name then checkValue S v ty else checkFieldFind S r name ty
end

/-! ### `check_arguments` and `check_directives` -/

/-- `check_arguments(definitions, None, parent_pos, …, arguments, arguments_definition, result)`;
    `args = []` is `arguments = None` (the grammar has no empty argument list) -/
def checkArguments (S : Schema) (parentPos : Pos) (args : List Arg) (defs : List InputValueDef) : List Err :=
  if defs.isEmpty then
    (if args.isEmpty then [] else [(.ArgumentsNotNeeded, parentPos)])
  else
    -- "Argument names must be unique; only the first argument of a name is matched below"
    loopSeen (·.1) (fun dup (a : Arg) => if dup then [(ErrKind.DuplicatedName, a.2.1)] else []) [] args ++
    (defs.flatMap fun ad =>
      match args.find? (·.1 == ad.name) with
      | none => if InputValueDef.required ad then [(.RequiredArgumentNotSpecified, parentPos)] else []
      | some (_, _, v) => checkValue S v ad.ty) ++
    (if (defs.filter fun ad => args.any (·.1 == ad.name)).length < args.length then
      (args.filter fun a => defs.all (·.name != a.1)).map fun a => (ErrKind.UnknownArgument, a.2.1)
     else [])

/-- body of the `for d in directives` loop of `check_directives` for a directive whose name was / was not
    seen before at this location -/
def checkDirective (S : Schema) (loc : String) (seenBefore : Bool) (d : Directive) : List Err :=
  match S.directiveDef? d.name with
  | none => [(.UnknownDirective, d.namePos)]
  | some df =>
    (if df.locations.all (· != loc) then [(.DirectiveLocationNotAllowed, d.pos)] else []) ++
    (if seenBefore && !df.repeatable then [(.RepeatedDirective, d.pos)] else []) ++
    checkArguments S d.pos d.args df.args

/-- `check_directives(definitions, None, directives, current_position, result)`: the `seen_directives`
    vector only records names of *defined* directives -/
def checkDirectivesAux (S : Schema) (loc : String) : List Name → List Directive → List Err
  | _, [] => []
  | seen, d :: ds =>
    checkDirective S loc (seen.contains d.name) d ++
      checkDirectivesAux S loc
        (if (S.directiveDef? d.name).isSome && !seen.contains d.name then d.name :: seen else seen) ds

def checkDirectives (S : Schema) (loc : String) (ds : List Directive) : List Err :=
  checkDirectivesAux S loc [] ds

end NitroVerif.PreE3584a3.CheckTs

namespace NitroVerif.PreE3584a3.CheckTs
open NitroVerif.Gql

/-- `definition_map.types.get(n)`: the last type definition named `n` -/
def lastTypeDef? (T : TsDoc) (n : Name) : Option TypeDef :=
  (Schema.typeDefs ⟨T⟩).reverse.find? (·.name == n)

/-- `definition_map.directives.get(n)`: the last directive definition named `n` -/
def lastDirectiveDef? (T : TsDoc) (n : Name) : Option DirectiveDef :=
  (Schema.directiveDefs ⟨T⟩).reverse.find? (·.name == n)

/-! ### interfaces.rs -/

/-- `check_valid_implementation(definitions, object_name, fields, implements, interface, result)` -/
def checkValidImpl (S : Schema) (namePos : Pos) (fields : List FieldDef) (implements : List (Name × Pos))
    (iface : TypeDef) : List Err :=
  ((iface.implements.filter fun imp => !(implements.any (·.1 == imp.1))).map
      fun _ => (ErrKind.InterfaceNotImplemented, namePos)) ++
  iface.fields.flatMap fun impF =>
    match fields.find? (·.name == impF.name) with
    | none => [(.InterfaceFieldNotImplemented, namePos)]
    | some f =>
      (impF.args.flatMap fun ia =>
        match f.args.find? (·.name == ia.name) with
        | none => [(.InterfaceArgumentNotImplemented, f.pos)]
        | some fa => if !(fa.ty.same ia.ty) then [(.ArgumentTypeMisMatchWithInterface, fa.pos)] else []) ++
      ((f.args.filter fun fa => impF.args.all (·.name != fa.name) && InputValueDef.required fa).map
        fun fa => (ErrKind.ArgumentTypeNonNullAgainstInterface, fa.pos)) ++
      (if isSubtype S f.ty impF.ty == some false then [(.FieldTypeMisMatchWithInterface, f.pos)] else [])

/-! ### check_directive_recursion.rs -/

/-- `directives_in_type` as it was before fix 2e4a65e, which is still what the repaired function returns for every
    kind but INPUT OBJECT — and, for an input object, the first part of the result (the directives on the type and on
    its fields, not those inside the types of its fields) -/
def directivesInTypeOld (t : TypeDef) : List Directive :=
  match t.kind with
  | .scalar | .union => t.dirs
  | .object | .interface => t.dirs ++ t.fields.flatMap (·.dirs)
  | .enum => t.dirs ++ t.values.flatMap (·.dirs)
  | .input => t.dirs ++ t.inputs.flatMap (·.dirs)

/-- the `for field in def.fields.iter()` loop of `directives_in_type` (input-object arm): the type of each field is looked
    up in `definition_map.types` (fields of an undefined type are skipped) and walked by `go` with the `seen_types` set
    the previous fields left behind; result = (directives appended to `result`, `seen_types` afterwards) -/
def ditFields (T : TsDoc) (go : TypeDef → List Name → List Directive × List Name) :
    List InputValueDef → List Name → List Directive × List Name
  | [], seen => ([], seen)
  | f :: fs, seen =>
    match lastTypeDef? T f.ty.unwrapped with
    | none => ditFields T go fs seen
    | some ft =>
      let r := go ft seen
      let r' := ditFields T go fs r.2
      (r.1 ++ r'.1, r'.2)

/-- `directives_in_type(definition_map, def, seen_types)` (since fix 2e4a65e) with the mutable `seen_types` threaded
    through: (directives returned, `seen_types` afterwards). An input object whose name is already in `seen_types`
    contributes nothing; otherwise its name is inserted, the directives on the type and on its fields come first, then —
    field by field, depth first — the directives inside the types of its fields. The fuel bounds the NESTING depth:
    every nested call that does not return at once has inserted a new input-object name of the document, so `|T| + 1`
    is never exhausted (`Lemmas/CheckTsWalk.lean`: `ditWalk_fuel_indep`); the out-of-fuel branch is silent. -/
def ditWalk (T : TsDoc) : Nat → TypeDef → List Name → List Directive × List Name
  | 0, t, seen => if t.kind == .input then ([], seen) else (directivesInTypeOld t, seen)
  | fuel + 1, t, seen =>
    if t.kind == .input then
      if seen.contains t.name then ([], seen)
      else
        let r := ditFields T (ditWalk T fuel) t.inputs (t.name :: seen)
        (t.dirs ++ t.inputs.flatMap (·.dirs) ++ r.1, r.2)
    else (directivesInTypeOld t, seen)

/-- `directives_in_type(definition_map, def, &mut HashSet::new())`: the call made for the type of ONE argument of the
    directive definition being expanded (`seen_types` is created afresh for each argument) -/
def directivesInType (T : TsDoc) (t : TypeDef) : List Directive :=
  (ditWalk T (T.length + 1) t []).1

/-- the directive definitions pushed to `next_directives` when `d` is expanded -/
def dirSuccessors (T : TsDoc) (d : DirectiveDef) : List DirectiveDef :=
  (d.args.flatMap fun a =>
      a.dirs ++ (match lastTypeDef? T a.ty.unwrapped with
                 | none => []
                 | some t => directivesInType T t)).filterMap fun dir => lastDirectiveDef? T dir.name

/-- `dirSuccessors` before fix 2e4a65e (only the argument's own type was looked into); kept for the pre-repair
    witnesses -/
def dirSuccessorsOld (T : TsDoc) (d : DirectiveDef) : List DirectiveDef :=
  (d.args.flatMap fun a =>
      a.dirs ++ (match lastTypeDef? T a.ty.unwrapped with
                 | none => []
                 | some t => directivesInTypeOld t)).filterMap fun dir => lastDirectiveDef? T dir.name

/-- one `for d in current_directives` pass: (seen afterwards, diagnostics, next_directives) -/
def recRound (T : TsDoc) (start : Name) : List Name → List DirectiveDef → List Name × List Err × List DirectiveDef
  | seen, [] => (seen, [], [])
  | seen, d :: ds =>
    if seen.contains d.name then
      let r := recRound T start seen ds
      (r.1, (if d.name == start then [(ErrKind.RecursingDirective, d.pos)] else []) ++ r.2.1, r.2.2)
    else
      let r := recRound T start (d.name :: seen) ds
      (r.1, r.2.1, dirSuccessors T d ++ r.2.2)

/-- the `loop { … }`; every round that continues has put at least one new directive name into `seen`,
    so `#directive definitions + 2` rounds of fuel are never exhausted -/
def recLoop (T : TsDoc) (start : Name) : Nat → List Name → List DirectiveDef → List Err
  | 0, _, _ => []
  | fuel + 1, seen, cur =>
    let r := recRound T start seen cur
    if r.2.2.isEmpty then r.2.1 else r.2.1 ++ recLoop T start fuel r.1 r.2.2

/-- `check_directive_recursion(definition_map, directive, result)` -/
def checkDirectiveRecursion (T : TsDoc) (d : DirectiveDef) : List Err :=
  recLoop T d.name (T.length + 2) [] [d]

/-! ### mod.rs -/

/-- the type of an output field (object / interface): `NoInputType` for an input object type,
    `UnknownType` for an undefined one -/
def checkOutputFieldType (S : Schema) (ty : GType) : List Err :=
  match S.kindOf? ty.unwrapped with
  | some k => if Schema.isOutputKind k then [] else [(.NoInputType, typePos ty)]
  | none => [(.UnknownType, typePos ty)]

/-- the type of an argument or input field -/
def checkInputValueType (S : Schema) (ty : GType) : List Err :=
  match S.kindOf? ty.unwrapped with
  | none => [(.UnknownType, typePos ty)]
  | some k => if Schema.isInputKind k then [] else [(.NoOutputType, typePos ty)]

/-- `check_arguments_definition` -/
def checkArgsDef (S : Schema) (args : List InputValueDef) : List Err :=
  loopSeen (·.name) (fun dup (v : InputValueDef) =>
    (if reserved v.name then [(ErrKind.UnscoUnsco, v.pos)] else []) ++
    (if dup then [(.DuplicatedName, v.pos)] else []) ++
    checkInputValueType S v.ty ++
    checkDirectives S "ARGUMENT_DEFINITION" v.dirs) [] args

/-- the `for f in fields` loop shared by `check_object` and `check_interface` -/
def checkFields (S : Schema) (fields : List FieldDef) : List Err :=
  loopSeen (·.name) (fun dup (f : FieldDef) =>
    (if dup then [(ErrKind.DuplicatedName, f.pos)] else []) ++
    (if reserved f.name then [(.UnscoUnsco, f.pos)] else []) ++
    checkDirectives S "FIELD_DEFINITION" f.dirs ++
    checkOutputFieldType S f.ty ++
    checkArgsDef S f.args) [] fields

/-- the `for interface in object.implements` loop of `check_object` -/
def checkObjectImplements (T : TsDoc) (S : Schema) (t : TypeDef) : List Err :=
  t.implements.flatMap fun (n, p) =>
    match lastTypeDef? T n with
    | none => [(.UnknownType, p)]
    | some idef =>
      if idef.kind != .interface then [(.NotInterface, p)]
      else checkValidImpl S t.namePos t.fields t.implements idef

/-- the `for other_interface in interface.implements` loop of `check_interface` -/
def checkInterfaceImplements (T : TsDoc) (S : Schema) (t : TypeDef) : List Err :=
  t.implements.flatMap fun (n, p) =>
    if t.name == n then [(.NoImplementSelf, p)] else
    match lastTypeDef? T n with
    | none => [(.UnknownType, p)]
    | some idef =>
      if idef.kind != .interface then [(.NotInterface, p)]
      else checkValidImpl S t.namePos t.fields t.implements idef

def checkUnionMembers (T : TsDoc) (members : List (Name × Pos)) : List Err :=
  loopSeen (·.1) (fun dup (m : Name × Pos) =>
    (if dup then [(ErrKind.DuplicatedName, m.2)] else []) ++
    (match lastTypeDef? T m.1 with
     | none => [(.UnknownType, m.2)]
     | some d => if d.kind != .object then [(.NonObjectTypeUnionMember, m.2)] else [])) [] members

def checkEnumValues (S : Schema) (values : List EnumValueDef) : List Err :=
  loopSeen (·.name) (fun dup (v : EnumValueDef) =>
    (if dup then [(ErrKind.DuplicatedName, v.pos)] else []) ++
    (if reserved v.name then [(.UnscoUnsco, v.pos)] else []) ++
    checkDirectives S "ENUM_VALUE" v.dirs) [] values

def checkInputFields (S : Schema) (inputs : List InputValueDef) : List Err :=
  loopSeen (·.name) (fun dup (f : InputValueDef) =>
    (if dup then [(ErrKind.DuplicatedName, f.pos)] else []) ++
    (if reserved f.name then [(.UnscoUnsco, f.pos)] else []) ++
    checkDirectives S "INPUT_FIELD_DEFINITION" f.dirs ++
    checkInputValueType S f.ty) [] inputs

def locationOfKind : TypeKind → String
  | .scalar => "SCALAR" | .object => "OBJECT" | .interface => "INTERFACE"
  | .union => "UNION" | .enum => "ENUM" | .input => "INPUT_OBJECT"

/-- `check_scalar` / `check_object` / `check_interface` / `check_union` / `check_enum` / `check_input_object` -/
def checkTypeDef (T : TsDoc) (S : Schema) (t : TypeDef) : List Err :=
  (if reserved t.name then [(ErrKind.UnscoUnsco, t.namePos)] else []) ++
  checkDirectives S (locationOfKind t.kind) t.dirs ++
  (match t.kind with
   | .scalar => []
   | .object => checkFields S t.fields ++ checkObjectImplements T S t
   | .interface => checkFields S t.fields ++ checkInterfaceImplements T S t
   | .union => checkUnionMembers T t.members
   | .enum => checkEnumValues S t.values
   | .input => checkInputFields S t.inputs)

/-- `check_directive` -/
def checkDirectiveDef (T : TsDoc) (S : Schema) (d : DirectiveDef) : List Err :=
  checkDirectiveRecursion T d ++
  (if reserved d.name then [(ErrKind.UnscoUnsco, d.namePos)] else []) ++
  checkArgsDef S d.args

/-- `check_schema`: the directives at `SCHEMA` -/
def checkSchemaDef (_T : TsDoc) (S : Schema) (s : SchemaDef) : List Err :=
  checkDirectives S "SCHEMA" s.dirs

def checkItem (T : TsDoc) (S : Schema) : TsItem → List Err
  | .schemaDef s => checkSchemaDef T S s
  | .typeDef t => checkTypeDef T S t
  | .directiveDef d => checkDirectiveDef T S d
  | .schemaExt _ => []
  | .typeExt _ => []

/-! ### `check_unique_names` (fix 8cdbacf) -/

/-- the `match (other.position.builtin, name.position.builtin)` of `check_unique_names`: which of the two
    identifiers of one name is reported, if any. `other` is the identifier seen EARLIER, `cur` the current one. -/
def uniqueReport (isType : Bool) (other cur : Pos) : List Err :=
  match other.builtin, cur.builtin with
  | false, false => [(.DuplicatedName, cur)]
  | false, true => if isType then [(.DuplicatedName, other)] else []
  | true, false => if isType then [(.DuplicatedName, cur)] else []
  | true, true => []

/-- one iteration: `seen.iter().find(|other| other.name == name.name)` — the FIRST identifier pushed with that
    name — then the report -/
def uniqueStep (isType : Bool) (seen : List (Name × Pos)) (name : Name) (pos : Pos) : List Err :=
  match seen.find? (·.1 == name) with
  | none => []
  | some other => uniqueReport isType other.2 pos

/-- the `for def in document.definitions` loop of `check_unique_names` with its two vectors `seen_types`,
    `seen_directives` (in push order); schema definitions are skipped -/
def checkUniqueNamesAux : List (Name × Pos) → List (Name × Pos) → TsDoc → List Err
  | _, _, [] => []
  | st, sd, .typeDef t :: r =>
    uniqueStep true st t.name t.namePos ++ checkUniqueNamesAux (st ++ [(t.name, t.namePos)]) sd r
  | st, sd, .directiveDef d :: r =>
    uniqueStep false sd d.name d.namePos ++ checkUniqueNamesAux st (sd ++ [(d.name, d.namePos)]) r
  | st, sd, _ :: r => checkUniqueNamesAux st sd r

/-- `check_unique_names(document, &mut result)` -/
def checkUniqueNames (T : TsDoc) : List Err := checkUniqueNamesAux [] [] T

/-- the `for def in document.definitions { match def … }` loop of `check_type_system_document`: the
    per-definition diagnostics. This is ALL the function reported before fix 8cdbacf (pre-repair witnesses are
    stated about it). -/
def checkSchemaItems (T : TsDoc) : List Err :=
  T.flatMap (checkItem T ⟨T⟩)

/-- `check_type_system_document(document)`: the name-uniqueness diagnostics first, then the per-definition ones -/
def checkSchema (T : TsDoc) : List Err :=
  checkUniqueNames T ++ checkSchemaItems T

/-! ### the duplicate-definition rule of `resolve_schema_extensions` -/

/-- `ExtensionList::set_original` over the seven lists: the first definition (in document order) whose
    (kind, name) — or "schema" — was already set. `none` = no `DuplicateOriginal` error. -/
def dupOriginalAux : List (Option (TypeKind × Name)) → TsDoc → Option (Option (TypeKind × Name))
  | _, [] => none
  | seen, .schemaDef _ :: r =>
    if seen.contains none then some none else dupOriginalAux (none :: seen) r
  | seen, .typeDef t :: r =>
    if seen.contains (some (t.kind, t.name)) then some (some (t.kind, t.name))
    else dupOriginalAux (some (t.kind, t.name) :: seen) r
  | seen, _ :: r => dupOriginalAux seen r

def dupOriginal? (T : TsDoc) : Option (Option (TypeKind × Name)) := dupOriginalAux [] T

end NitroVerif.PreE3584a3.CheckTs
