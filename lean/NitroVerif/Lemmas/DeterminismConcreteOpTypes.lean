/-
Helper lemmas for C17 (concrete part 3b): the operation type model `OpTypes.implTree` reads the schema through
by-name lookups and through `implementers` (object types implementing an interface, in `type_names` order).
Core Lean only.
-/
import NitroVerif.Lemmas.DeterminismConcreteOp
import NitroVerif.Model.OpTypes
namespace NitroVerif.DeterminismOpTypes
open NitroVerif.Gql NitroVerif.OpTypes
open NitroVerif.Determinism (SameView SameSchema NoDupTypeNames NoDupDirectiveNames sameView_of_perm typeDefs_perm)

/-- the two schemas answer every by-name lookup the same way AND list the implementers of every interface in the
    same order -/
structure SameImpl (S S' : Schema) : Prop extends SameView S S' where
  impl : ∀ n, implementers S n = implementers S' n

section congr
variable {S S' : Schema}

theorem parentObjects_congr (h : SameImpl S S') (n : Name) : parentObjects S n = parentObjects S' n := by
  unfold parentObjects
  simp only [h.ty, h.impl]

theorem branchConds_congr (h : SameImpl S S') (F : Frags) (fuel : Nat) (ss : List Selection) (n : Name) :
    branchConds S F fuel ss n = branchConds S' F fuel ss n := by
  unfold branchConds
  rw [parentObjects_congr h]

theorem fragmentApplies_congr (h : SameView S S') (obj : TypeDef) (cond : Name) :
    fragmentApplies S obj cond = fragmentApplies S' obj cond := by
  unfold fragmentApplies
  rw [h.ty]

theorem implTree_fieldsFor_congr (h : SameImpl S S') (F : Frags) (mfuel : Nat) : ∀ fuel,
    (∀ parent ss, implTree S F mfuel fuel parent ss = implTree S' F mfuel fuel parent ss) ∧
    (∀ c ss, fieldsFor S F mfuel fuel c ss = fieldsFor S' F mfuel fuel c ss) := by
  intro fuel
  induction fuel with
  | zero => exact ⟨fun _ _ => rfl, fun _ _ => rfl⟩
  | succ n ih =>
    obtain ⟨ih1, ih2⟩ := ih
    refine ⟨fun parent ss => ?_, fun c ss => ?_⟩
    · simp only [implTree, branchConds_congr h, ih2]
    · simp only [fieldsFor, h.ty, ih1, ih2, fragmentApplies_congr h.toSameView]

theorem implTree_congr (h : SameImpl S S') (F : Frags) (mfuel fuel : Nat) (parent : GType) (ss : List Selection) :
    implTree S F mfuel fuel parent ss = implTree S' F mfuel fuel parent ss :=
  (implTree_fieldsFor_congr h F mfuel fuel).1 parent ss

end congr
/-! ### closed form of `implementers` on a name-distinct schema -/

theorem foldl_dedup_eq {α : Type} (f : α → Name) (l : List α) (acc : List Name) (nd : (acc ++ l.map f).Nodup) :
    l.foldl (fun acc t => if acc.contains (f t) then acc else acc ++ [f t]) acc = acc ++ l.map f := by
  induction l generalizing acc with
  | nil => simp
  | cons a l ih =>
    have hna : ¬ f a ∈ acc := by
      intro hm
      rw [List.nodup_append] at nd
      exact nd.2.2 (f a) hm (f a) (by simp) rfl
    have hc : acc.contains (f a) = false := by
      rw [Bool.eq_false_iff]
      intro hh
      exact hna (List.contains_iff_mem.mp hh)
    simp only [List.foldl_cons, hc, Bool.false_eq_true, if_false, List.map_cons]
    rw [ih (acc ++ [f a]) (by simpa using nd)]
    simp

theorem typeNames_eq_of_nodup {T : TsDoc} (nd : NoDupTypeNames T) :
    (Schema.mk T).typeNames = (Schema.mk T).typeDefs.map (·.name) := by
  unfold Schema.typeNames
  have nd' : ([] ++ (Schema.mk T).typeDefs.map (fun t : TypeDef => t.name)).Nodup := by
    rw [List.nil_append]; exact nd
  rw [foldl_dedup_eq (fun t : TypeDef => t.name) _ [] nd']
  simp

theorem find?_name_of_mem {l : List TypeDef} (nd : (l.map (·.name)).Nodup) {t : TypeDef} (ht : t ∈ l) :
    l.find? (·.name == t.name) = some t := by
  induction l with
  | nil => cases ht
  | cons a l ih =>
    simp only [List.map_cons, List.nodup_cons] at nd
    rcases List.mem_cons.mp ht with rfl | ht'
    · simp
    · have hne : (a.name == t.name) = false := by
        rw [beq_eq_false_iff_ne]
        intro he
        exact nd.1 (he ▸ List.mem_map.mpr ⟨t, ht', rfl⟩)
      simp only [List.find?_cons, hne]
      exact ih nd.2 ht'

theorem typeDef?_of_mem {T : TsDoc} (nd : NoDupTypeNames T) {t : TypeDef} (ht : t ∈ (Schema.mk T).typeDefs) :
    (Schema.mk T).typeDef? t.name = some t :=
  find?_name_of_mem nd ht

/-- the predicate "object type that lists `iface` among its interfaces" -/
def implementsP (iface : Name) (t : TypeDef) : Bool := t.kind == .object && t.implements.any (·.1 == iface)

theorem filterMap_eq_filter_of {α : Type} (p : α → Bool) (g : α → Option α) (l : List α)
    (h : ∀ a ∈ l, g a = if p a then some a else none) : l.filterMap g = l.filter p := by
  induction l with
  | nil => rfl
  | cons a l ih =>
    rw [List.filterMap_cons, h a List.mem_cons_self, List.filter_cons,
      ih fun x hx => h x (List.mem_cons_of_mem _ hx)]
    cases p a <;> rfl

/-- **closed form**: on a schema with distinct type names, `interface_implementers` is the list of object type
    definitions that implement the interface, in definition order -/
theorem implementers_eq_filter {T : TsDoc} (nd : NoDupTypeNames T) (iface : Name) :
    implementers ⟨T⟩ iface = (Schema.mk T).typeDefs.filter (implementsP iface) := by
  unfold implementers
  rw [typeNames_eq_of_nodup nd, List.filterMap_map]
  apply filterMap_eq_filter_of
  intro t ht
  simp only [Function.comp, typeDef?_of_mem nd ht, implementsP]
  rfl

theorem implementers_perm {T T' : TsDoc} (h : T.Perm T') (nd : NoDupTypeNames T) (iface : Name) :
    (implementers ⟨T⟩ iface).Perm (implementers ⟨T'⟩ iface) := by
  rw [implementers_eq_filter nd, implementers_eq_filter (nd.perm h)]
  exact (typeDefs_perm h).filter _

theorem objectImplementers_eq_map (S : Schema) (iface : Name) :
    S.objectImplementers iface = (S.typeDefs.filter (implementsP iface)).map (·.name) := rfl

/-- on a name-distinct schema the implementer DEFINITIONS are recovered from the implementer NAMES -/
theorem implementers_eq_lookup {T : TsDoc} (nd : NoDupTypeNames T) (iface : Name) :
    implementers ⟨T⟩ iface = ((Schema.mk T).objectImplementers iface).filterMap (Schema.mk T).typeDef? := by
  rw [implementers_eq_filter nd, objectImplementers_eq_map, List.filterMap_map]
  symm
  have : ∀ l : List TypeDef, (∀ t ∈ l, t ∈ (Schema.mk T).typeDefs) →
      l.filterMap ((Schema.mk T).typeDef? ∘ fun t => t.name) = l := by
    intro l
    induction l with
    | nil => intro _; rfl
    | cons a l ih =>
      intro hm
      rw [List.filterMap_cons]
      simp only [Function.comp, typeDef?_of_mem nd (hm a List.mem_cons_self)]
      rw [ih fun t ht => hm t (List.mem_cons_of_mem _ ht)]
  exact this _ fun t ht => (List.mem_filter.mp ht).1

/-- a permutation that keeps, for every interface, the relative order of its implementing object types -/
def KeepsImplOrder (T T' : TsDoc) : Prop :=
  ∀ iface, (Schema.mk T).objectImplementers iface = (Schema.mk T').objectImplementers iface

theorem sameImpl_of_perm {T T' : TsDoc} (h : T.Perm T') (ndt : NoDupTypeNames T) (ndd : NoDupDirectiveNames T)
    (hk : KeepsImplOrder T T') : SameImpl ⟨T⟩ ⟨T'⟩ := by
  have hv := sameView_of_perm h ndt ndd
  refine { toSameView := hv, impl := fun n => ?_ }
  rw [implementers_eq_lookup ndt, implementers_eq_lookup (ndt.perm h), hk n]
  congr 1
  funext m
  exact hv.ty m

end NitroVerif.DeterminismOpTypes
