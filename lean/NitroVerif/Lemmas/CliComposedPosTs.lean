/-
C18 composed (helper lemmas): every position `check_type_system_document` reports is a position of a node of the document
it was given (`checkSchema_Q`, `checkSchema_positions`) — for an arbitrary predicate `Q` that holds of all positions
of the document.
-/
import NitroVerif.Lemmas.CliComposedPosWalk
import NitroVerif.Model.CheckTs
namespace NitroVerif.CliComposed.Ts
open NitroVerif NitroVerif.Gql NitroVerif.CheckTs NitroVerif.CliComposed

theorem typePos_mem (t : GType) : CheckTs.typePos t ∈ t.positions := by
  induction t with
  | named n p => simp [CheckTs.typePos, GType.positions]
  | list t p _ => simp [CheckTs.typePos, GType.positions]
  | nonNull t ih => simpa [CheckTs.typePos, GType.positions] using ih

theorem namedPos_mem (t : GType) : namedPos t ∈ t.positions := by
  induction t with
  | named n p => simp [namedPos, GType.positions]
  | list t p ih => simp [namedPos, GType.positions, ih]
  | nonNull t ih => simpa [namedPos, GType.positions] using ih

theorem stripNN_positions (t : GType) : (stripNN t).positions = t.positions := by
  induction t with
  | named n p => rfl
  | list t p _ => rfl
  | nonNull t ih => simpa [stripNN, GType.positions] using ih

section parts
variable {Q : Pos → Prop}

theorem inputValue_parts {v : InputValueDef} (h : PQ Q v.positions) :
    Q v.pos ∧ PQ Q v.ty.positions ∧ PQ Q (optValuePositions v.default) ∧ PQ Q (dirsPositions v.dirs) := by
  unfold InputValueDef.positions at h
  have h1 := pq_cons.mp h
  have h2 := pq_append.mp h1.2
  exact ⟨h1.1, (pq_append.mp h2.1).1, (pq_append.mp h2.1).2, h2.2⟩

theorem field_parts {f : FieldDef} (h : PQ Q f.positions) :
    Q f.pos ∧ (∀ a ∈ f.args, PQ Q a.positions) ∧ PQ Q f.ty.positions ∧ PQ Q (dirsPositions f.dirs) := by
  unfold FieldDef.positions at h
  have h1 := pq_cons.mp h
  have h2 := pq_append.mp h1.2
  exact ⟨h1.1, pq_flatMap.mp (pq_append.mp h2.1).1, (pq_append.mp h2.1).2, h2.2⟩

theorem enumValue_parts {v : EnumValueDef} (h : PQ Q v.positions) : Q v.pos ∧ PQ Q (dirsPositions v.dirs) := by
  unfold EnumValueDef.positions at h
  exact pq_cons.mp h

theorem typeDef_parts {t : TypeDef} (h : PQ Q t.positions) :
    Q t.namePos ∧ Q t.pos ∧ (∀ i ∈ t.implements, Q i.2) ∧ PQ Q (dirsPositions t.dirs) ∧
    (∀ f ∈ t.fields, PQ Q f.positions) ∧ (∀ m ∈ t.members, Q m.2) ∧ (∀ v ∈ t.values, PQ Q v.positions) ∧
    (∀ v ∈ t.inputs, PQ Q v.positions) := by
  unfold TypeDef.positions at h
  have h1 := pq_cons.mp h
  have h2 := pq_cons.mp h1.2
  have a5 := pq_append.mp h2.2
  have a4 := pq_append.mp a5.1
  have a3 := pq_append.mp a4.1
  have a2 := pq_append.mp a3.1
  have a1 := pq_append.mp a2.1
  exact ⟨h1.1, h2.1, pq_map.mp a1.1, a1.2, pq_flatMap.mp a2.2, pq_map.mp a3.2, pq_flatMap.mp a4.2, pq_flatMap.mp a5.2⟩

theorem directiveDef_parts {d : DirectiveDef} (h : PQ Q d.positions) :
    Q d.namePos ∧ Q d.pos ∧ (∀ a ∈ d.args, PQ Q a.positions) := by
  unfold DirectiveDef.positions at h
  have h1 := pq_cons.mp h
  have h2 := pq_cons.mp h1.2
  exact ⟨h1.1, h2.1, pq_flatMap.mp h2.2⟩

theorem directive_parts {d : Directive} (h : PQ Q d.positions) :
    Q d.namePos ∧ Q d.pos ∧ PQ Q (Value.positionsFields d.args) := by
  unfold Directive.positions at h
  have h1 := pq_cons.mp h
  have h2 := pq_cons.mp h1.2
  exact ⟨h1.1, h2.1, h2.2⟩

theorem loopSeen_Q {α ε : Type} (name : α → Name) (body : Bool → α → List (ε × Pos)) (seen : List Name) (xs : List α)
    (h : ∀ b, ∀ x ∈ xs, AllQ Q (body b x)) : AllQ Q (loopSeen name body seen xs) := by
  induction xs generalizing seen with
  | nil => exact allQ_nil
  | cons x xs ih =>
    simp only [loopSeen]
    rw [allQ_append]
    exact ⟨h _ x (by simp), ih _ (fun b y hy => h b y (List.mem_cons_of_mem _ hy))⟩

end parts

section checker
variable {T : TsDoc} {Q : Pos → Prop} (hT : PQ Q (TsDoc.positions T))

theorem lastTypeDef_PQ (hT : PQ Q (TsDoc.positions T)) {n : Name} {td : TypeDef} (h : lastTypeDef? T n = some td) :
    PQ Q td.positions := by
  unfold lastTypeDef? at h
  have hm : td ∈ Schema.typeDefs ⟨T⟩ := List.mem_reverse.mp (List.mem_of_find?_eq_some h)
  unfold Schema.typeDefs at hm
  obtain ⟨it, hit, he⟩ := List.mem_filterMap.mp hm
  have := (pq_flatMap.mp hT) it hit
  cases it <;> simp at he
  subst he
  exact this

theorem lastDirectiveDef_PQ (hT : PQ Q (TsDoc.positions T)) {n : Name} {dd : DirectiveDef}
    (h : lastDirectiveDef? T n = some dd) : PQ Q dd.positions := by
  unfold lastDirectiveDef? at h
  have hm : dd ∈ Schema.directiveDefs ⟨T⟩ := List.mem_reverse.mp (List.mem_of_find?_eq_some h)
  unfold Schema.directiveDefs at hm
  obtain ⟨it, hit, he⟩ := List.mem_filterMap.mp hm
  have := (pq_flatMap.mp hT) it hit
  cases it <;> simp at he
  subst he
  exact this

include hT

/-- `check_value` of the type-system checker -/
theorem checkValue_Q : ∀ (k : Nat) (v : Value), v.size ≤ k → ∀ (ty : GType),
    PQ Q v.positions → PQ Q ty.positions → AllQ Q (CheckTs.checkValue ⟨T⟩ v ty) := by
  intro k
  induction k with
  | zero => intro v hv; have := Value.one_le_size v; omega
  | succ k ih =>
    have hlist : ∀ (vs : List Value), Value.sizeList vs ≤ k → ∀ ty, PQ Q (Value.positionsList vs) → PQ Q ty.positions →
        AllQ Q (CheckTs.checkValueList ⟨T⟩ vs ty) := by
      intro vs
      induction vs with
      | nil => intro _ ty _ _; simp only [CheckTs.checkValueList]; exact allQ_nil
      | cons v vs ihv =>
        intro hsz ty hp ht
        simp only [Value.sizeList] at hsz
        simp only [Value.positionsList] at hp
        simp only [CheckTs.checkValueList]
        rw [allQ_append]
        exact ⟨ih v (by omega) ty (pq_append.mp hp).1 ht,
          ihv (by have := Value.one_le_size v; omega) ty (pq_append.mp hp).2 ht⟩
    have hfields : ∀ (fs : List (Name × Pos × Value)), Value.sizeFields fs ≤ k → ∀ n ty,
        PQ Q (Value.positionsFields fs) → PQ Q ty.positions → AllQ Q (checkFieldFind ⟨T⟩ fs n ty) := by
      intro fs
      induction fs with
      | nil => intro _ n ty _ _; simp only [checkFieldFind]; exact allQ_nil
      | cons f fs ihf =>
        obtain ⟨key, kp, v⟩ := f
        intro hsz n ty hp ht
        simp only [Value.sizeFields] at hsz
        simp only [Value.positionsFields] at hp
        have hp' := pq_append.mp (pq_cons.mp hp).2
        simp only [checkFieldFind]
        split
        · exact ih v (by omega) ty hp'.1 ht
        · exact ihf (by have := Value.one_le_size v; omega) n ty hp'.2 ht
    intro v hsz ty hv ht
    have hvp : Q v.pos := hv _ (Value.pos_mem_positions v)
    have hnp : Q (namedPos ty) := ht _ (namedPos_mem ty)
    have hstrip : PQ Q (stripNN ty).positions := by rw [stripNN_positions]; exact ht
    cases v with
    | var n p => simp only [CheckTs.checkValue]; exact allQ_single.mpr hvp
    | null p =>
      simp only [CheckTs.checkValue]
      apply allQ_ite
      · intro _; exact allQ_single.mpr hvp
      · intro _
        cases hst : stripNN ty with
        | named n np =>
          simp only
          rw [hst] at hstrip
          have hq : Q np := hstrip np (by simp [GType.positions])
          cases S_td : Schema.typeDef? ⟨T⟩ n with
          | none => exact allQ_single.mpr hq
          | some td =>
            simp only
            cases td.kind <;> simp only <;> (first | exact allQ_nil | exact allQ_single.mpr hvp | (split <;> first | exact allQ_nil | exact allQ_single.mpr hvp))
        | list _ _ => exact allQ_nil
        | nonNull _ => exact allQ_nil
    | list vs p =>
      simp only [CheckTs.checkValue]
      simp only [Value.size] at hsz
      simp only [Value.positions] at hv
      cases hst : stripNN ty with
      | named n np =>
        simp only
        rw [hst] at hstrip
        have hq : Q np := hstrip np (by simp [GType.positions])
        cases S_td : Schema.typeDef? ⟨T⟩ n with
        | none => exact allQ_single.mpr hq
        | some td =>
          simp only
          cases td.kind <;> simp only <;> (first | exact allQ_nil | exact allQ_single.mpr hvp | (split <;> first | exact allQ_nil | exact allQ_single.mpr hvp))
      | list inner q =>
        simp only
        rw [hst] at hstrip
        simp only [GType.positions] at hstrip
        exact hlist vs (by omega) inner (pq_cons.mp hv).2 (pq_cons.mp hstrip).2
      | nonNull _ => exact allQ_nil
    | obj fs p =>
      simp only [CheckTs.checkValue]
      simp only [Value.size] at hsz
      simp only [Value.positions] at hv
      cases htd : Schema.typeDef? ⟨T⟩ ty.unwrapped with
      | none => exact allQ_single.mpr hnp
      | some td =>
        simp only
        have htdq := typeDef_PQ (S := ⟨T⟩) hT htd
        cases hk : td.kind <;> simp only <;> first
          | first | exact allQ_nil | exact allQ_single.mpr hvp | (split <;> first | exact allQ_nil | exact allQ_single.mpr hvp)
          | (rw [allQ_append]
             refine ⟨allQ_flatMap fun ef hef => hfields fs (by omega) _ _ (pq_cons.mp hv).2 (typeDef_inputs_PQ htdq ef hef), ?_⟩
             apply allQ_ite
             · intro _; exact allQ_nil
             · intro _; exact allQ_single.mpr hvp)
    | enum e p =>
      simp only [CheckTs.checkValue]
      cases htd : Schema.typeDef? ⟨T⟩ ty.unwrapped with
      | none => exact allQ_single.mpr hnp
      | some td =>
        simp only
        cases hk : td.kind <;> simp only <;> (first | exact allQ_nil | exact allQ_single.mpr hvp | (split <;> first | exact allQ_nil | exact allQ_single.mpr hvp))
    | int s p =>
      simp only [CheckTs.checkValue]
      cases htd : Schema.typeDef? ⟨T⟩ ty.unwrapped with
      | none => exact allQ_single.mpr hnp
      | some td =>
        simp only
        cases hk : td.kind <;> simp only <;> (first | exact allQ_nil | exact allQ_single.mpr hvp | (split <;> first | exact allQ_nil | exact allQ_single.mpr hvp))
    | float s p =>
      simp only [CheckTs.checkValue]
      cases htd : Schema.typeDef? ⟨T⟩ ty.unwrapped with
      | none => exact allQ_single.mpr hnp
      | some td =>
        simp only
        cases hk : td.kind <;> simp only <;> (first | exact allQ_nil | exact allQ_single.mpr hvp | (split <;> first | exact allQ_nil | exact allQ_single.mpr hvp))
    | str s p =>
      simp only [CheckTs.checkValue]
      cases htd : Schema.typeDef? ⟨T⟩ ty.unwrapped with
      | none => exact allQ_single.mpr hnp
      | some td =>
        simp only
        cases hk : td.kind <;> simp only <;> (first | exact allQ_nil | exact allQ_single.mpr hvp | (split <;> first | exact allQ_nil | exact allQ_single.mpr hvp))
    | bool b p =>
      simp only [CheckTs.checkValue]
      cases htd : Schema.typeDef? ⟨T⟩ ty.unwrapped with
      | none => exact allQ_single.mpr hnp
      | some td =>
        simp only
        cases hk : td.kind <;> simp only <;> (first | exact allQ_nil | exact allQ_single.mpr hvp | (split <;> first | exact allQ_nil | exact allQ_single.mpr hvp))

theorem checkValue_Q' (v : Value) (ty : GType) (hv : PQ Q v.positions) (ht : PQ Q ty.positions) :
    AllQ Q (CheckTs.checkValue ⟨T⟩ v ty) :=
  checkValue_Q hT v.size v (Nat.le_refl _) ty hv ht

theorem checkArguments_Q (parentPos : Pos) (args : List Arg) (defs : List InputValueDef) (hp : Q parentPos)
    (ha : PQ Q (Value.positionsFields args)) (hd : ∀ d ∈ defs, PQ Q d.ty.positions) :
    AllQ Q (CheckTs.checkArguments ⟨T⟩ parentPos args defs) := by
  unfold CheckTs.checkArguments
  apply allQ_ite
  · intro _
    apply allQ_ite
    · intro _; exact allQ_nil
    · intro _; exact allQ_single.mpr hp
  · intro _
    rw [allQ_append, allQ_append]
    refine ⟨⟨?_, ?_⟩, ?_⟩
    · apply loopSeen_Q
      intro b a ham
      split
      · exact allQ_single.mpr (arg_mem_PQ ha a ham).1
      · exact allQ_nil
    · apply allQ_flatMap
      intro ad had
      cases hf : args.find? (·.1 == ad.name) with
      | none =>
        simp only
        split
        · exact allQ_single.mpr hp
        · exact allQ_nil
      | some a =>
        obtain ⟨an, ap, av⟩ := a
        simp only
        have ham := List.mem_of_find?_eq_some hf
        exact checkValue_Q' hT av ad.ty (arg_mem_PQ ha _ ham).2 (hd ad had)
    · apply allQ_ite
      · intro _
        intro x hx
        obtain ⟨a, ham, rfl⟩ := List.mem_map.mp hx
        exact (arg_mem_PQ ha a (List.mem_filter.mp ham).1).1
      · intro _; exact allQ_nil

theorem checkDirective_Q (loc : String) (b : Bool) (d : Directive) (hd : PQ Q d.positions) :
    AllQ Q (checkDirective ⟨T⟩ loc b d) := by
  obtain ⟨hnp, hpos, hargs⟩ := directive_parts hd
  unfold checkDirective
  cases hdf : Schema.directiveDef? ⟨T⟩ d.name with
  | none => exact allQ_single.mpr hnp
  | some df =>
    simp only
    rw [allQ_append, allQ_append]
    refine ⟨⟨?_, ?_⟩, checkArguments_Q hT d.pos d.args df.args hpos hargs
      (directiveDef_args_PQ (directiveDef_PQ (S := ⟨T⟩) hT hdf))⟩
    · apply allQ_ite
      · intro _; exact allQ_single.mpr hpos
      · intro _; exact allQ_nil
    · apply allQ_ite
      · intro _; exact allQ_single.mpr hpos
      · intro _; exact allQ_nil

theorem checkDirectives_Q (loc : String) (ds : List Directive) (h : PQ Q (dirsPositions ds)) :
    AllQ Q (CheckTs.checkDirectives ⟨T⟩ loc ds) := by
  unfold CheckTs.checkDirectives
  have key : ∀ seen, AllQ Q (CheckTs.checkDirectivesAux ⟨T⟩ loc seen ds) := by
    induction ds with
    | nil => intro _; exact allQ_nil
    | cons d ds ih =>
      intro seen
      unfold dirsPositions at h
      rw [List.flatMap_cons] at h
      simp only [CheckTs.checkDirectivesAux]
      rw [allQ_append]
      exact ⟨checkDirective_Q hT loc _ d (pq_append.mp h).1, ih (pq_append.mp h).2 _⟩
  exact key []

theorem checkValidImpl_Q (namePos : Pos) (fields : List FieldDef) (implements : List (Name × Pos)) (iface : TypeDef)
    (hn : Q namePos) (hf : ∀ f ∈ fields, PQ Q f.positions) :
    AllQ Q (checkValidImpl ⟨T⟩ namePos fields implements iface) := by
  unfold checkValidImpl
  rw [allQ_append]
  constructor
  · intro x hx
    obtain ⟨_, _, rfl⟩ := List.mem_map.mp hx
    exact hn
  · apply allQ_flatMap
    intro impF _
    cases hfd : fields.find? (·.name == impF.name) with
    | none => exact allQ_single.mpr hn
    | some f =>
      simp only
      obtain ⟨hfpos, hfargs, _, _⟩ := field_parts (hf f (List.mem_of_find?_eq_some hfd))
      rw [allQ_append, allQ_append]
      refine ⟨⟨?_, ?_⟩, ?_⟩
      · apply allQ_flatMap
        intro ia _
        cases hfa : f.args.find? (·.name == ia.name) with
        | none => exact allQ_single.mpr hfpos
        | some fa =>
          simp only
          apply allQ_ite
          · intro _; exact allQ_single.mpr (inputValue_parts (hfargs fa (List.mem_of_find?_eq_some hfa))).1
          · intro _; exact allQ_nil
      · intro x hx
        obtain ⟨fa, hfa, rfl⟩ := List.mem_map.mp hx
        exact (inputValue_parts (hfargs fa (List.mem_filter.mp hfa).1)).1
      · apply allQ_ite
        · intro _; exact allQ_single.mpr hfpos
        · intro _; exact allQ_nil

/-! #### `check_directive_recursion` -/

theorem dirSuccessors_Q (d : DirectiveDef) : ∀ x ∈ dirSuccessors T d, Q x.pos := by
  intro x hx
  unfold dirSuccessors at hx
  obtain ⟨dir, _, hl⟩ := List.mem_filterMap.mp hx
  exact (directiveDef_parts (lastDirectiveDef_PQ hT hl)).2.1

theorem recRound_Q (start : Name) (seen : List Name) (cur : List DirectiveDef) (hc : ∀ d ∈ cur, Q d.pos) :
    AllQ Q (recRound T start seen cur).2.1 ∧ ∀ d ∈ (recRound T start seen cur).2.2, Q d.pos := by
  induction cur generalizing seen with
  | nil => simp only [recRound]; exact ⟨allQ_nil, fun d hd => by cases hd⟩
  | cons d ds ih =>
    have hd : Q d.pos := hc d (by simp)
    have hds : ∀ x ∈ ds, Q x.pos := fun x hx => hc x (List.mem_cons_of_mem _ hx)
    simp only [recRound]
    split
    · obtain ⟨h1, h2⟩ := ih seen hds
      refine ⟨?_, h2⟩
      simp only
      rw [allQ_append]
      refine ⟨?_, h1⟩
      apply allQ_ite
      · intro _; exact allQ_single.mpr hd
      · intro _; exact allQ_nil
    · obtain ⟨h1, h2⟩ := ih (d.name :: seen) hds
      refine ⟨h1, ?_⟩
      intro x hx
      simp only at hx
      rcases List.mem_append.mp hx with hx | hx
      · exact dirSuccessors_Q hT d x hx
      · exact h2 x hx

theorem recLoop_Q (start : Name) (fuel : Nat) (seen : List Name) (cur : List DirectiveDef) (hc : ∀ d ∈ cur, Q d.pos) :
    AllQ Q (recLoop T start fuel seen cur) := by
  induction fuel generalizing seen cur with
  | zero => simp only [recLoop]; exact allQ_nil
  | succ fuel ih =>
    obtain ⟨h1, h2⟩ := recRound_Q hT start seen cur hc
    simp only [recLoop]
    split
    · exact h1
    · rw [allQ_append]
      exact ⟨h1, ih _ _ h2⟩

theorem checkDirectiveRecursion_Q (d : DirectiveDef) (hd : Q d.pos) : AllQ Q (checkDirectiveRecursion T d) := by
  unfold checkDirectiveRecursion
  exact recLoop_Q hT _ _ _ _ (fun x hx => by simp at hx; subst hx; exact hd)

/-! #### the per-definition checks -/

theorem checkOutputFieldType_Q (ty : GType) (h : PQ Q ty.positions) : AllQ Q (checkOutputFieldType ⟨T⟩ ty) := by
  have := h _ (typePos_mem ty)
  unfold checkOutputFieldType
  cases Schema.kindOf? ⟨T⟩ ty.unwrapped with
  | none => exact allQ_single.mpr this
  | some k =>
    simp only
    split
    · exact allQ_nil
    · exact allQ_single.mpr this

theorem checkInputValueType_Q (ty : GType) (h : PQ Q ty.positions) : AllQ Q (checkInputValueType ⟨T⟩ ty) := by
  have := h _ (typePos_mem ty)
  unfold checkInputValueType
  cases Schema.kindOf? ⟨T⟩ ty.unwrapped with
  | none => exact allQ_single.mpr this
  | some k =>
    simp only
    split
    · exact allQ_nil
    · exact allQ_single.mpr this

theorem checkArgsDef_Q (args : List InputValueDef) (h : ∀ a ∈ args, PQ Q a.positions) :
    AllQ Q (checkArgsDef ⟨T⟩ args) := by
  unfold checkArgsDef
  apply loopSeen_Q
  intro b v hv
  obtain ⟨hpos, hty, _, hdirs⟩ := inputValue_parts (h v hv)
  rw [allQ_append, allQ_append, allQ_append]
  refine ⟨⟨⟨?_, ?_⟩, checkInputValueType_Q hT v.ty hty⟩, checkDirectives_Q hT _ v.dirs hdirs⟩
  · apply allQ_ite
    · intro _; exact allQ_single.mpr hpos
    · intro _; exact allQ_nil
  · apply allQ_ite
    · intro _; exact allQ_single.mpr hpos
    · intro _; exact allQ_nil

theorem checkFields_Q (fields : List FieldDef) (h : ∀ f ∈ fields, PQ Q f.positions) :
    AllQ Q (checkFields ⟨T⟩ fields) := by
  unfold checkFields
  apply loopSeen_Q
  intro b f hf
  obtain ⟨hpos, hargs, hty, hdirs⟩ := field_parts (h f hf)
  rw [allQ_append, allQ_append, allQ_append, allQ_append]
  refine ⟨⟨⟨⟨?_, ?_⟩, checkDirectives_Q hT _ f.dirs hdirs⟩, checkOutputFieldType_Q hT f.ty hty⟩,
    checkArgsDef_Q hT f.args hargs⟩
  · apply allQ_ite
    · intro _; exact allQ_single.mpr hpos
    · intro _; exact allQ_nil
  · apply allQ_ite
    · intro _; exact allQ_single.mpr hpos
    · intro _; exact allQ_nil

theorem checkObjectImplements_Q (t : TypeDef) (ht : PQ Q t.positions) : AllQ Q (checkObjectImplements T ⟨T⟩ t) := by
  obtain ⟨hnp, _, himpl, _, hfields, _⟩ := typeDef_parts ht
  unfold checkObjectImplements
  apply allQ_flatMap
  intro ip hip
  obtain ⟨n, p⟩ := ip
  have hp : Q p := himpl (n, p) hip
  simp only
  cases lastTypeDef? T n with
  | none => exact allQ_single.mpr hp
  | some idef =>
    simp only
    apply allQ_ite
    · intro _; exact allQ_single.mpr hp
    · intro _; exact checkValidImpl_Q hT _ _ _ _ hnp hfields

theorem checkInterfaceImplements_Q (t : TypeDef) (ht : PQ Q t.positions) :
    AllQ Q (checkInterfaceImplements T ⟨T⟩ t) := by
  obtain ⟨hnp, _, himpl, _, hfields, _⟩ := typeDef_parts ht
  unfold checkInterfaceImplements
  apply allQ_flatMap
  intro ip hip
  obtain ⟨n, p⟩ := ip
  have hp : Q p := himpl (n, p) hip
  simp only
  apply allQ_ite
  · intro _; exact allQ_single.mpr hp
  · intro _
    cases lastTypeDef? T n with
    | none => exact allQ_single.mpr hp
    | some idef =>
      simp only
      apply allQ_ite
      · intro _; exact allQ_single.mpr hp
      · intro _; exact checkValidImpl_Q hT _ _ _ _ hnp hfields

theorem checkUnionMembers_Q (members : List (Name × Pos)) (h : ∀ m ∈ members, Q m.2) :
    AllQ Q (checkUnionMembers T members) := by
  unfold checkUnionMembers
  apply loopSeen_Q
  intro b m hm
  have hq := h m hm
  rw [allQ_append]
  constructor
  · apply allQ_ite
    · intro _; exact allQ_single.mpr hq
    · intro _; exact allQ_nil
  · cases lastTypeDef? T m.1 with
    | none => exact allQ_single.mpr hq
    | some d =>
      simp only
      apply allQ_ite
      · intro _; exact allQ_single.mpr hq
      · intro _; exact allQ_nil

theorem checkEnumValues_Q (values : List EnumValueDef) (h : ∀ v ∈ values, PQ Q v.positions) :
    AllQ Q (checkEnumValues ⟨T⟩ values) := by
  unfold checkEnumValues
  apply loopSeen_Q
  intro b v hv
  obtain ⟨hpos, hdirs⟩ := enumValue_parts (h v hv)
  rw [allQ_append, allQ_append]
  refine ⟨⟨?_, ?_⟩, checkDirectives_Q hT _ v.dirs hdirs⟩
  · apply allQ_ite
    · intro _; exact allQ_single.mpr hpos
    · intro _; exact allQ_nil
  · apply allQ_ite
    · intro _; exact allQ_single.mpr hpos
    · intro _; exact allQ_nil

theorem checkInputFields_Q (inputs : List InputValueDef) (h : ∀ v ∈ inputs, PQ Q v.positions) :
    AllQ Q (checkInputFields ⟨T⟩ inputs) := by
  unfold checkInputFields
  apply loopSeen_Q
  intro b f hf
  obtain ⟨hpos, hty, _, hdirs⟩ := inputValue_parts (h f hf)
  rw [allQ_append, allQ_append, allQ_append]
  refine ⟨⟨⟨?_, ?_⟩, checkDirectives_Q hT _ f.dirs hdirs⟩, checkInputValueType_Q hT f.ty hty⟩
  · apply allQ_ite
    · intro _; exact allQ_single.mpr hpos
    · intro _; exact allQ_nil
  · apply allQ_ite
    · intro _; exact allQ_single.mpr hpos
    · intro _; exact allQ_nil

theorem checkTypeDef_Q (t : TypeDef) (ht : PQ Q t.positions) : AllQ Q (checkTypeDef T ⟨T⟩ t) := by
  obtain ⟨hnp, _, _, hdirs, hfields, hmembers, hvalues, hinputs⟩ := typeDef_parts ht
  unfold checkTypeDef
  rw [allQ_append, allQ_append]
  refine ⟨⟨?_, checkDirectives_Q hT _ t.dirs hdirs⟩, ?_⟩
  · apply allQ_ite
    · intro _; exact allQ_single.mpr hnp
    · intro _; exact allQ_nil
  · cases t.kind <;> simp only
    · exact allQ_nil
    · rw [allQ_append]; exact ⟨checkFields_Q hT _ hfields, checkObjectImplements_Q hT t ht⟩
    · rw [allQ_append]; exact ⟨checkFields_Q hT _ hfields, checkInterfaceImplements_Q hT t ht⟩
    · exact checkUnionMembers_Q hT _ hmembers
    · exact checkEnumValues_Q hT _ hvalues
    · exact checkInputFields_Q hT _ hinputs

theorem checkDirectiveDef_Q (d : DirectiveDef) (hd : PQ Q d.positions) : AllQ Q (checkDirectiveDef T ⟨T⟩ d) := by
  obtain ⟨hnp, hpos, hargs⟩ := directiveDef_parts hd
  unfold checkDirectiveDef
  rw [allQ_append, allQ_append]
  refine ⟨⟨checkDirectiveRecursion_Q hT d hpos, ?_⟩, checkArgsDef_Q hT d.args hargs⟩
  apply allQ_ite
  · intro _; exact allQ_single.mpr hnp
  · intro _; exact allQ_nil

theorem checkItem_Q (it : TsItem) (h : PQ Q it.positions) : AllQ Q (checkItem T ⟨T⟩ it) := by
  cases it with
  | schemaDef s =>
    simp only [checkItem, checkSchemaDef]
    simp only [TsItem.positions, SchemaDef.positions] at h
    exact checkDirectives_Q hT _ s.dirs (pq_append.mp (pq_cons.mp h).2).1
  | typeDef t => exact checkTypeDef_Q hT t h
  | directiveDef d => exact checkDirectiveDef_Q hT d h
  | schemaExt _ => exact allQ_nil
  | typeExt _ => exact allQ_nil

theorem checkSchemaItems_Q : AllQ Q (checkSchemaItems T) := by
  unfold checkSchemaItems
  exact allQ_flatMap fun it hit => checkItem_Q hT it ((pq_flatMap.mp hT) it hit)

end checker

/-! #### `check_unique_names` -/

section unique
variable {Q : Pos → Prop}

theorem uniqueStep_Q (isType : Bool) (seen : List (Name × Pos)) (name : Name) (pos : Pos)
    (hs : ∀ x ∈ seen, Q x.2) (hp : Q pos) : AllQ Q (uniqueStep isType seen name pos) := by
  unfold uniqueStep
  cases hf : seen.find? (·.1 == name) with
  | none => exact allQ_nil
  | some other =>
    simp only
    have ho : Q other.2 := hs other (List.mem_of_find?_eq_some hf)
    unfold uniqueReport
    cases other.2.builtin <;> cases pos.builtin <;> simp only
    · exact allQ_single.mpr hp
    · split
      · exact allQ_single.mpr ho
      · exact allQ_nil
    · split
      · exact allQ_single.mpr hp
      · exact allQ_nil
    · exact allQ_nil

theorem checkUniqueNamesAux_Q (T : TsDoc) (hT : PQ Q (TsDoc.positions T)) :
    ∀ (st sd : List (Name × Pos)), (∀ x ∈ st, Q x.2) → (∀ x ∈ sd, Q x.2) → AllQ Q (checkUniqueNamesAux st sd T) := by
  induction T with
  | nil => intro _ _ _ _; simp only [checkUniqueNamesAux]; exact allQ_nil
  | cons it r ih =>
    intro st sd hst hsd
    unfold TsDoc.positions at hT
    rw [List.flatMap_cons] at hT
    have hit := (pq_append.mp hT).1
    have hr : PQ Q (TsDoc.positions r) := (pq_append.mp hT).2
    cases it with
    | typeDef t =>
      have hnp : Q t.namePos := hit _ (by simp [TsItem.positions, TypeDef.positions])
      simp only [checkUniqueNamesAux]
      rw [allQ_append]
      refine ⟨uniqueStep_Q true st t.name t.namePos hst hnp, ih hr _ _ ?_ hsd⟩
      intro x hx
      rcases List.mem_append.mp hx with hx | hx
      · exact hst x hx
      · simp at hx; subst hx; exact hnp
    | directiveDef d =>
      have hnp : Q d.namePos := hit _ (by simp [TsItem.positions, DirectiveDef.positions])
      simp only [checkUniqueNamesAux]
      rw [allQ_append]
      refine ⟨uniqueStep_Q false sd d.name d.namePos hsd hnp, ih hr _ _ hst ?_⟩
      intro x hx
      rcases List.mem_append.mp hx with hx | hx
      · exact hsd x hx
      · simp at hx; subst hx; exact hnp
    | schemaDef s => simp only [checkUniqueNamesAux]; exact ih hr _ _ hst hsd
    | schemaExt s => simp only [checkUniqueNamesAux]; exact ih hr _ _ hst hsd
    | typeExt t => simp only [checkUniqueNamesAux]; exact ih hr _ _ hst hsd

theorem checkUniqueNames_Q (T : TsDoc) (hT : PQ Q (TsDoc.positions T)) : AllQ Q (checkUniqueNames T) :=
  checkUniqueNamesAux_Q T hT [] [] (fun _ h => by cases h) (fun _ h => by cases h)

/-- **`check_type_system_document` invents no position** -/
theorem checkSchema_Q (T : TsDoc) (hT : PQ Q (TsDoc.positions T)) : AllQ Q (checkSchema T) := by
  unfold checkSchema
  rw [allQ_append]
  exact ⟨checkUniqueNames_Q T hT, checkSchemaItems_Q hT⟩

end unique

/-- … in particular every reported position IS a position of a node of the document -/
theorem checkSchema_positions (T : TsDoc) : ∀ d ∈ checkSchema T, d.2 ∈ TsDoc.positions T :=
  checkSchema_Q (Q := fun p => p ∈ TsDoc.positions T) T (fun _ hp => hp)

end NitroVerif.CliComposed.Ts
