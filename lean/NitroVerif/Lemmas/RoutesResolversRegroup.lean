/-
C15: the SDL route's document `M ++ builtins` satisfies the hypotheses of C17's permutation theorems (distinct type names,
at most one schema definition), so any regrouping of it (`resolve_schema_extensions` emits directive definitions, the
schema definition and the type definitions kind by kind) gives equivalent declaration files.
-/
import NitroVerif.Lemmas.RoutesResolversMeta
namespace NitroVerif.Bridge
open NitroVerif NitroVerif.Gql NitroVerif.SchemaIR NitroVerif.AstSchema NitroVerif.SchemaDecls NitroVerif.DeclCfg
open NitroVerif.IntrospectSpec NitroVerif.Routes NitroVerif.CliSchema

theorem userNames_eq (M : TsDoc) : (typeDefsOf M).map (·.name) = (userTypes M).map (·.name) := by
  rw [userTypes_eq_map, List.map_map]
  exact List.map_congr_left fun t _ => (convTypeDef_name t).symm

theorem noDupTypeNames_docSdl {M : TsDoc} (h : OrderOk M) : Determinism.NoDupTypeNames (docSdl M) := by
  unfold Determinism.NoDupTypeNames
  rw [← typeDefsOf_eq, typeDefsOf_docSdl_closed, List.map_append, userNames_eq]
  have hb : (builtinScalarNames.map scalarDefS).map (·.name) = builtinScalarNames := by
    rw [List.map_map]
    exact List.map_id _
  rw [hb]
  refine List.nodup_append.mpr ⟨h.names, builtinScalarNames_nodup, ?_⟩
  intro a ha b hb' e
  subst e
  obtain ⟨t, ht, rfl⟩ := List.mem_map.mp ha
  exact h.notBuiltin t ht hb'

theorem oneSchemaDef_docSdl {M : TsDoc} (h : ValidResolved M) : (Gql.Schema.mk (docSdl M)).schemaDefs.length ≤ 1 := by
  rw [gql_schemaDefs_docSdl]
  exact h.oneSchemaDef

end NitroVerif.Bridge
