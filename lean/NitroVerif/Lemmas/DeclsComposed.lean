/-
C10 ∘ C11 — helper lemmas: the type definitions of a RESOLVED document (`ExtResolve.resolve src = .ok R`) are, up to
order, the source's type definitions merged with their extensions (`ExtMerge.refType`), and what the lookups the
declaration printers and the reference `Ref` perform (`typeDef?`, `objectImplementers`, `possibleTypes`, `scalarType?`)
return on `R` in terms of the SOURCE items.
Definitions and helper lemmas only; the property theorems are in `Props/C10Composed.lean`.
-/
import NitroVerif.Props.C11
import NitroVerif.Lemmas.DeclsClosedExact
import NitroVerif.Model.CliSchema
namespace NitroVerif.DeclsComposed
open NitroVerif.Gql NitroVerif.Ts NitroVerif.DeclCfg NitroVerif.SchemaDecls NitroVerif.RefTypes
open NitroVerif.ExtMerge NitroVerif.ExtResolve

/-! ### the merged components of a source definition, spelled out -/

/-- the extensions of the source definition `td`: same kind, same name, in document order -/
def extsOf (src : TsDoc) (td : TypeDef) : List TypeDef := typeExts td.kind td.name src

/-- fields of `td` followed by the fields of each of its extensions (document order) -/
def mergedFields (src : TsDoc) (td : TypeDef) : List FieldDef := td.fields ++ (extsOf src td).flatMap (·.fields)
/-- `implements` of `td` followed by those of its extensions -/
def mergedImplements (src : TsDoc) (td : TypeDef) : List (Name × Pos) :=
  td.implements ++ (extsOf src td).flatMap (·.implements)
/-- union members of `td` followed by those of its extensions -/
def mergedMembers (src : TsDoc) (td : TypeDef) : List (Name × Pos) := td.members ++ (extsOf src td).flatMap (·.members)
/-- enum values of `td` followed by those of its extensions -/
def mergedValues (src : TsDoc) (td : TypeDef) : List EnumValueDef := td.values ++ (extsOf src td).flatMap (·.values)
/-- input fields of `td` followed by those of its extensions -/
def mergedInputs (src : TsDoc) (td : TypeDef) : List InputValueDef := td.inputs ++ (extsOf src td).flatMap (·.inputs)
/-- directives of `td` followed by those of its extensions -/
def mergedDirs (src : TsDoc) (td : TypeDef) : List Directive := td.dirs ++ (extsOf src td).flatMap (·.dirs)

theorem refType_kind (src : TsDoc) (td : TypeDef) : (refType src td).kind = td.kind := rfl
theorem refType_name (src : TsDoc) (td : TypeDef) : (refType src td).name = td.name := rfl
theorem refType_desc (src : TsDoc) (td : TypeDef) : (refType src td).desc = td.desc := rfl
theorem refType_dirs (src : TsDoc) (td : TypeDef) : (refType src td).dirs = mergedDirs src td := rfl

theorem refType_fields (src : TsDoc) (td : TypeDef) (hk : td.kind = .object ∨ td.kind = .interface) :
    (refType src td).fields = mergedFields src td := by
  rcases hk with hk | hk <;> simp [refType, refTypeWith, hasFields, hk, mergedFields, extsOf]

theorem refType_implements (src : TsDoc) (td : TypeDef) (hk : td.kind = .object ∨ td.kind = .interface) :
    (refType src td).implements = mergedImplements src td := by
  rcases hk with hk | hk <;> simp [refType, refTypeWith, hasImplements, hk, mergedImplements, extsOf]

theorem refType_members (src : TsDoc) (td : TypeDef) (hk : td.kind = .union) :
    (refType src td).members = mergedMembers src td := by
  simp [refType, refTypeWith, hasMembers, hk, mergedMembers, extsOf]

theorem refType_values (src : TsDoc) (td : TypeDef) (hk : td.kind = .enum) :
    (refType src td).values = mergedValues src td := by
  simp [refType, refTypeWith, hasValues, hk, mergedValues, extsOf]

theorem refType_inputs (src : TsDoc) (td : TypeDef) (hk : td.kind = .input) :
    (refType src td).inputs = mergedInputs src td := by
  simp [refType, refTypeWith, hasInputs, hk, mergedInputs, extsOf]

/-! ### the type definitions of the resolved document -/

theorem kind_beq {k k' : TypeKind} : (k == k') = true ↔ k = k' := by
  cases k <;> cases k' <;> decide

theorem mem_typeDefsOf {doc : TsDoc} {td : TypeDef} : td ∈ typeDefsOf doc ↔ TsItem.typeDef td ∈ doc := by
  unfold typeDefsOf
  rw [List.mem_filterMap]
  constructor
  · rintro ⟨x, hx, hxe⟩
    cases x <;> simp at hxe
    subst hxe; exact hx
  · intro h; exact ⟨_, h, rfl⟩

theorem typeDefsOf_append (a b : TsDoc) : typeDefsOf (a ++ b) = typeDefsOf a ++ typeDefsOf b := by
  simp [typeDefsOf, List.filterMap_append]

theorem typeDefsOf_directiveDefs (src : TsDoc) : typeDefsOf (directiveDefs src) = [] := by
  unfold typeDefsOf directiveDefs
  induction src with
  | nil => rfl
  | cons it r ih => cases it <;> simp only [List.filterMap_cons] <;> exact ih

theorem typeDefsOf_filterMap_refItem (D : TsDoc) : ∀ l : TsDoc,
    typeDefsOf (l.filterMap (refItem? D)) = (typeDefsOf l).map (refType D) := by
  intro l
  unfold typeDefsOf
  induction l with
  | nil => rfl
  | cons it r ih => cases it <;> simp_all [List.filterMap_cons, refItem?]

theorem typeDefsOf_refMerge (src : TsDoc) : typeDefsOf (refMerge src) = (typeDefsOf src).map (refType src) :=
  typeDefsOf_filterMap_refItem src src

/-- THE BRIDGE: the type definitions of the resolved document are, up to order, the source's type definitions, each
    merged with its extensions -/
theorem typeDefsOf_resolved {src R : TsDoc} (h : resolve src = .ok R) :
    (typeDefsOf R).Perm ((typeDefsOf src).map (refType src)) := by
  have hp : (typeDefsOf R).Perm (typeDefsOf (directiveDefs src ++ refMerge src)) := (C11_merge src R h).filterMap _
  rwa [typeDefsOf_append, typeDefsOf_directiveDefs, List.nil_append, typeDefsOf_refMerge] at hp

theorem mem_typeDefsOf_resolved {src R : TsDoc} (h : resolve src = .ok R) {td' : TypeDef} :
    td' ∈ typeDefsOf R ↔ ∃ td, TsItem.typeDef td ∈ src ∧ td' = refType src td := by
  rw [(typeDefsOf_resolved h).mem_iff, List.mem_map]
  constructor
  · rintro ⟨td, htd, rfl⟩; exact ⟨td, mem_typeDefsOf.mp htd, rfl⟩
  · rintro ⟨td, htd, rfl⟩; exact ⟨td, mem_typeDefsOf.mpr htd, rfl⟩

theorem refType_mem_resolved {src R : TsDoc} (h : resolve src = .ok R) {td : TypeDef} (hm : TsItem.typeDef td ∈ src) :
    refType src td ∈ typeDefsOf R :=
  (mem_typeDefsOf_resolved h).mpr ⟨td, hm, rfl⟩

/-- in a resolved document with distinct type names, looking a source-defined name up gives the merged definition -/
theorem typeDef?_resolved {src R : TsDoc} (h : resolve src = .ok R)
    (hd : ((typeDefsOf R).map (·.name)).Nodup) {td : TypeDef} (hm : TsItem.typeDef td ∈ src) :
    (Schema.mk R).typeDef? td.name = some (refType src td) := by
  unfold Schema.typeDef?
  rw [typeDefs_eq]
  exact find?_name_of_nodup hd (refType_mem_resolved h hm)

/-- … and two source definitions with the same name are the same definition (names distinct after resolution) -/
theorem src_def_unique {src R : TsDoc} (h : resolve src = .ok R)
    (hd : ((typeDefsOf R).map (·.name)).Nodup) {a b : TypeDef} (ha : TsItem.typeDef a ∈ src)
    (hb : TsItem.typeDef b ∈ src) (hn : a.name = b.name) : a = b := by
  have hp := (typeDefsOf_resolved h).map (·.name)
  rw [List.map_map] at hp
  have hnd : ((typeDefsOf src).map (·.name)).Nodup := by
    have : ((typeDefsOf src).map ((·.name) ∘ refType src)) = (typeDefsOf src).map (·.name) :=
      List.map_congr_left (fun _ _ => rfl)
    rw [← this]; exact hp.nodup_iff.mp hd
  exact nodup_names_inj hnd a (mem_typeDefsOf.mpr ha) b (mem_typeDefsOf.mpr hb) hn

/-! ### interface implementers / possible types over the sources -/

/-- the object types implementing `iface` in the resolved document are the source's object types that list `iface`
    in their own `implements` or in the `implements` of one of their extensions -/
theorem mem_objectImplementers_resolved {src R : TsDoc} (h : resolve src = .ok R) (iface o : Name) :
    o ∈ (Schema.mk R).objectImplementers iface ↔
      ∃ od, TsItem.typeDef od ∈ src ∧ od.kind = .object ∧ od.name = o ∧ ∃ i ∈ mergedImplements src od, i.1 = iface := by
  unfold Schema.objectImplementers
  rw [typeDefs_eq]
  simp only [List.mem_map, List.mem_filter, Bool.and_eq_true, kind_beq, beq_iff_eq, List.any_eq_true]
  constructor
  · rintro ⟨td', ⟨hm, hk, i, hi, hie⟩, rfl⟩
    obtain ⟨od, hod, rfl⟩ := (mem_typeDefsOf_resolved h).mp hm
    refine ⟨od, hod, hk, rfl, i, ?_, hie⟩
    rwa [refType_implements src od (Or.inl hk)] at hi
  · rintro ⟨od, hod, hk, rfl, i, hi, hie⟩
    refine ⟨refType src od, ⟨refType_mem_resolved h hod, hk, i, ?_, hie⟩, rfl⟩
    rwa [refType_implements src od (Or.inl hk)]

/-- the possible types of a union of the sources, in the resolved document: its own members followed by the members
    its extensions add -/
theorem possibleTypes_union_resolved {src R : TsDoc} (h : resolve src = .ok R)
    (hd : ((typeDefsOf R).map (·.name)).Nodup) {td : TypeDef} (hm : TsItem.typeDef td ∈ src) (hk : td.kind = .union) :
    (Schema.mk R).possibleTypes td.name = (mergedMembers src td).map (·.1) := by
  unfold Schema.possibleTypes
  rw [typeDef?_resolved h hd hm]
  simp only [refType_kind, hk, refType_members src td hk]

/-- … and of an interface: the implementing object types -/
theorem possibleTypes_interface_resolved {src R : TsDoc} (h : resolve src = .ok R)
    (hd : ((typeDefsOf R).map (·.name)).Nodup) {td : TypeDef} (hm : TsItem.typeDef td ∈ src)
    (hk : td.kind = .interface) :
    (Schema.mk R).possibleTypes td.name = (Schema.mk R).objectImplementers td.name := by
  unfold Schema.possibleTypes
  rw [typeDef?_resolved h hd hm]
  simp only [refType_kind, hk]

/-! ### the TypeScript type of a scalar: configuration first, then the MERGED directives -/

/-- the entry `get_scalar_types` makes for one definition -/
def scalarEntry (c : Cfg) (t : TypeDef) : Option (Name × ScalarCfg) :=
  if t.kind == .scalar then
    match (c.optionScalar? t.name).orElse (fun _ => directiveScalar? t) with
    | some s => some (t.name, s)
    | none => none
  else none

theorem scalarTypes_eq (c : Cfg) (doc : TsDoc) : scalarTypes c doc = (typeDefsOf doc).filterMap (scalarEntry c) := by
  unfold scalarTypes typeDefsOf
  rw [List.filterMap_filterMap]
  congr 1
  funext x
  cases x <;> rfl

theorem scalarEntry_key {c : Cfg} {t : TypeDef} {p : Name × ScalarCfg} (h : scalarEntry c t = some p) : p.1 = t.name := by
  unfold scalarEntry at h
  split at h
  · split at h
    · cases h; rfl
    · cases h
  · cases h

theorem find?_scalarEntry (c : Cfg) : ∀ {l : List TypeDef}, ((l.map (·.name)).Nodup) → ∀ {td : TypeDef}, td ∈ l →
    (l.filterMap (scalarEntry c)).find? (·.1 == td.name) = scalarEntry c td := by
  intro l
  induction l with
  | nil => intro _ td hm; cases hm
  | cons x r ih =>
    intro hd td hm
    simp only [List.map_cons, List.nodup_cons, List.mem_map, not_exists, not_and] at hd
    rcases List.mem_cons.1 hm with rfl | hm
    · rw [List.filterMap_cons]
      cases hx : scalarEntry c td with
      | some p =>
        simp only
        rw [List.find?_cons, scalarEntry_key hx]
        simp
      | none =>
        simp only
        rw [List.find?_eq_none]
        intro p hp hpe
        obtain ⟨y, hy, hye⟩ := List.mem_filterMap.mp hp
        have : y.name = td.name := by rw [← scalarEntry_key hye]; simpa using hpe
        exact hd.1 y hy this
    · have hne : x.name ≠ td.name := fun e => hd.1 td hm e.symm
      rw [List.filterMap_cons]
      cases hx : scalarEntry c x with
      | some p =>
        simp only
        rw [List.find?_cons]
        have : (p.1 == td.name) = false := by rw [scalarEntry_key hx]; simpa using hne
        rw [this]
        exact ih hd.2 hm
      | none => exact ih hd.2 hm

/-- the configured TypeScript type of a scalar of the sources, as the printer and `Ref` look it up in the resolved
    document: the configuration entry (or the built-in mapping) for its name; failing that, the `@nitrogql_ts_type`
    directive among the scalar's own directives FOLLOWED BY those of its `extend scalar` items -/
theorem scalarType?_resolved (c : Cfg) {src R : TsDoc} (h : resolve src = .ok R)
    (hd : ((typeDefsOf R).map (·.name)).Nodup) {td : TypeDef} (hm : TsItem.typeDef td ∈ src) (hk : td.kind = .scalar) :
    scalarType? c R td.name = (c.optionScalar? td.name).orElse (fun _ => directiveScalar? (refType src td)) := by
  unfold scalarType?
  rw [scalarTypes_eq]
  have := find?_scalarEntry c hd (refType_mem_resolved h hm)
  rw [refType_name] at this
  rw [this]
  simp only [scalarEntry, refType_kind, hk, refType_name]
  cases (c.optionScalar? td.name).orElse (fun _ => directiveScalar? (refType src td)) <;> rfl

/-! ### the schema definition (`__nitrogql_schema` metadata) -/

theorem findSome?_of_filterMap_singleton {α β : Type} (f : α → Option β) {b : β} :
    ∀ {l : List α}, l.filterMap f = [b] → l.findSome? f = some b := by
  intro l
  induction l with
  | nil => intro h; cases h
  | cons x r ih =>
    intro h
    rw [List.filterMap_cons] at h
    rw [List.findSome?_cons]
    cases hx : f x with
    | none => rw [hx] at h; exact ih h
    | some y => rw [hx] at h; simp only [List.cons.injEq] at h; rw [h.1]

theorem schemaDefs_filterMap_refItem (D : TsDoc) : ∀ l : TsDoc,
    schemaDefs (l.filterMap (refItem? D)) = (schemaDefs l).map (refSchema D) := by
  intro l
  unfold schemaDefs
  induction l with
  | nil => rfl
  | cons it r ih => cases it <;> simp_all [List.filterMap_cons, refItem?]

theorem schemaDefs_directiveDefs (src : TsDoc) : schemaDefs (directiveDefs src) = [] := by
  unfold schemaDefs directiveDefs
  induction src with
  | nil => rfl
  | cons it r ih => cases it <;> simp only [List.filterMap_cons] <;> exact ih

/-- the schema definitions of the resolved document: the source's, merged with the `extend schema` items -/
theorem schemaDefs_resolved {src R : TsDoc} (h : resolve src = .ok R) :
    (schemaDefs R).Perm ((schemaDefs src).map (refSchema src)) := by
  have hp : (schemaDefs R).Perm (schemaDefs (directiveDefs src ++ refMerge src)) := (C11_merge src R h).filterMap _
  rwa [schemaDefs_append, schemaDefs_directiveDefs, List.nil_append, refMerge, schemaDefs_filterMap_refItem] at hp

/-- the schema definition `get_schema_metadata_type` finds in the resolved document is the source's `schema {…}`
    followed by the root operation types (and directives) of every `extend schema {…}` -/
theorem findSome?_schema_resolved {src R : TsDoc} (h : resolve src = .ok R) {s : SchemaDef}
    (hs : TsItem.schemaDef s ∈ src) :
    R.findSome? (fun | .schemaDef s => some s | _ => none) = some (refSchema src s) := by
  have hle : (schemaDefs src).length ≤ 1 := ((C11_ok_iff src).mp ⟨R, h⟩).1.1
  have hmem : s ∈ schemaDefs src := List.mem_filterMap.mpr ⟨_, hs, rfl⟩
  have he : schemaDefs src = [s] := by
    match hq : schemaDefs src, hle, hmem with
    | [a], _, hm => simp only [List.mem_cons, List.not_mem_nil, or_false] at hm; rw [hm]
    | [], _, hm => cases hm
    | _ :: _ :: _, hl, _ => simp at hl
  have hp := schemaDefs_resolved h
  rw [he, List.map_cons, List.map_nil, List.perm_singleton] at hp
  exact findSome?_of_filterMap_singleton _ hp

/-- … and without a `schema {…}` in the sources there is none in the resolved document -/
theorem findSome?_schema_resolved_none {src R : TsDoc} (h : resolve src = .ok R)
    (hs : ∀ s, TsItem.schemaDef s ∉ src) :
    R.findSome? (fun | .schemaDef s => some s | _ => none) = none := by
  have he : schemaDefs src = [] := by
    rw [schemaDefs, List.filterMap_eq_nil_iff]
    intro x hx
    cases x <;> first | rfl | exact absurd hx (hs _)
  have hp := schemaDefs_resolved h
  rw [he, List.map_nil, List.perm_nil] at hp
  rw [List.findSome?_eq_none_iff]
  intro x hx
  unfold schemaDefs at hp
  rw [List.filterMap_eq_nil_iff] at hp
  exact hp x hx

/-! ### the document the CLI resolves: the user's items followed by the built-ins -/

theorem typeExts_append (k : TypeKind) (n : Name) (a b : TsDoc) : typeExts k n (a ++ b) = typeExts k n a ++ typeExts k n b := by
  simp [typeExts, List.filterMap_append]

theorem typeExts_builtins (k : TypeKind) (n : Name) : typeExts k n CliSchema.builtins = [] := by
  simp [typeExts, CliSchema.builtins, CliSchema.bScalar, CliSchema.bDirective]

/-- the built-ins the CLI appends contain no extension: the extensions of a definition are those the user wrote -/
theorem extsOf_cli (user : TsDoc) (td : TypeDef) : extsOf (user ++ CliSchema.builtins) td = extsOf user td := by
  simp [extsOf, typeExts_append, typeExts_builtins]

theorem mergedFields_cli (user : TsDoc) (td : TypeDef) : mergedFields (user ++ CliSchema.builtins) td = mergedFields user td := by
  simp [mergedFields, extsOf_cli]
theorem mergedImplements_cli (user : TsDoc) (td : TypeDef) :
    mergedImplements (user ++ CliSchema.builtins) td = mergedImplements user td := by
  simp [mergedImplements, extsOf_cli]
theorem mergedMembers_cli (user : TsDoc) (td : TypeDef) : mergedMembers (user ++ CliSchema.builtins) td = mergedMembers user td := by
  simp [mergedMembers, extsOf_cli]
theorem mergedValues_cli (user : TsDoc) (td : TypeDef) : mergedValues (user ++ CliSchema.builtins) td = mergedValues user td := by
  simp [mergedValues, extsOf_cli]
theorem mergedInputs_cli (user : TsDoc) (td : TypeDef) : mergedInputs (user ++ CliSchema.builtins) td = mergedInputs user td := by
  simp [mergedInputs, extsOf_cli]
theorem mergedDirs_cli (user : TsDoc) (td : TypeDef) : mergedDirs (user ++ CliSchema.builtins) td = mergedDirs user td := by
  simp [mergedDirs, extsOf_cli]

/-- the type definitions of the document the CLI resolves: the user's, or one of the five built-in scalars -/
theorem mem_cli_defs (user : TsDoc) (td : TypeDef) :
    TsItem.typeDef td ∈ user ++ CliSchema.builtins ↔
      TsItem.typeDef td ∈ user ∨
      ∃ n ∈ ["Int", "Float", "String", "Boolean", "ID"],
        td = { kind := .scalar, name := n, namePos := CliSchema.bp, pos := CliSchema.bp } := by
  rw [List.mem_append]
  apply or_congr Iff.rfl
  simp [CliSchema.builtins, CliSchema.bScalar, CliSchema.bDirective]

end NitroVerif.DeclsComposed
