import NitroVerif.Lemmas.JsonTextDoc
import NitroVerif.Lemmas.PrintMapBodyFile
import NitroVerif.Lemmas.DocJson
import NitroVerif.Lemmas.FragClosure
/-!
# C12, text level — from the text of a runtime document to the definitions a consumer reads, and the frame around the literal

* `readText` / `readJsExpr`: what a consumer of the emitted TEXT sees — the reference JSON reader (resp. the reference
  ECMAScript literal reader at the head of a text) followed by the reference `DocumentNode` reader `ReadDoc.readDoc`.
* `parse_doc`, `expr_doc`: both readers read the text of ANY `DocJson.toJson defs` back as that tree.
* `text_lift`: a tree-level statement `runtimeDefs D x = ok ds`, `readDoc (toJson ds) = some r` lifted to the text the printer
  writes (`PrintMap.runtimeText`).
* the frame: the statements `[export ]const N = <literal>;` (JavaScript module, loader) and
  `[export ]const N: T = <literal> as unknown as T;` (`.graphql.ts`) as prefix ++ literal ++ rest, with `rest` unable to continue
  a number (`;` resp. a space).
* `jsStmts_values`: every `const` of the JavaScript module `opJsOps` prints carries the text of the runtime document of a
  definition of the document.
-/
namespace NitroVerif.JsonText
open NitroVerif NitroVerif.Gql NitroVerif.DocJson NitroVerif.ReadDoc NitroVerif.FragClosure NitroVerif.PrintMap

/-- the definitions a consumer of a JSON text reads: RFC 8259 reading, then the graphql-js `DocumentNode` reading -/
def readText (s : List Char) : Option (List ExecDef) := (parse s).bind readDoc

/-- the definitions a consumer of a JavaScript module reads from the expression at the head of `s` (the text behind
    `const N = `), and the text behind that expression -/
def readJsExpr (s : List Char) : Option (List ExecDef × List Char) :=
  match JsLit.expr s with
  | some (t, r) => (readDoc t).map fun ds => (ds, r)
  | none => none

theorem parse_jsonText (t : Json) (h : good rfc8259.key t = true) : parse (jsonText t).toList = some t := by
  rw [jsonText_toList]; exact parseWith_chars rfc8259_ok t h

theorem expr_jsonText (t : Json) (h : good JsLit.lex.key t = true) (rest : List Char) (hd : Delim rest) :
    JsLit.expr ((jsonText t).toList ++ rest) = some (t, rest) := by
  rw [jsonText_toList]; exact value_chars_fuelFor jsLit_ok t h rest hd

theorem good_doc_rfc (defs : List ExecDef) : good rfc8259.key (toJson defs) = true :=
  good_of_shape _ rfc_key_vocab _ (shape_toJson defs)

theorem good_doc_js (defs : List ExecDef) : good JsLit.lex.key (toJson defs) = true :=
  good_of_shape _ js_key_vocab _ (shape_toJson defs)

theorem parse_doc (defs : List ExecDef) : parse (jsonText (toJson defs)).toList = some (toJson defs) :=
  parse_jsonText _ (good_doc_rfc defs)

theorem expr_doc (defs : List ExecDef) (rest : List Char) (hd : Delim rest) :
    JsLit.expr ((jsonText (toJson defs)).toList ++ rest) = some (toJson defs, rest) :=
  expr_jsonText _ (good_doc_js defs) rest hd

theorem runtimeText_ok {D : Doc} {x : ExecDef} {ds : List ExecDef} (h : runtimeDefs D x = .ok ds) :
    runtimeText D x = .ok (jsonText (toJson ds)) := by simp [runtimeText, h]

theorem runtimeModelText_ok {D : Doc} {x : ExecDef} {ds : List ExecDef} (h : runtimeDefs D x = .ok ds) :
    runtimeModelText D x = jsonText (toJson ds) := by simp [runtimeModelText, h]

/-- from trees to text -/
theorem text_lift {D : Doc} {x : ExecDef} {ds r : List ExecDef} (hrun : runtimeDefs D x = .ok ds)
    (hread : readDoc (toJson ds) = some r) :
    runtimeText D x = .ok (jsonText (toJson ds)) ∧
    readText (jsonText (toJson ds)).toList = some r ∧
    ∀ rest, Delim rest → readJsExpr ((jsonText (toJson ds)).toList ++ rest) = some (r, rest) := by
  refine ⟨runtimeText_ok hrun, ?_, ?_⟩
  · simp [readText, parse_doc, hread]
  · intro rest hd
    simp [readJsExpr, expr_doc ds rest hd, hread]

/-! ## the frame -/

/-- `;\n\n` and whatever follows cannot continue a number -/
theorem delim_semicolon (after : List Char) : Delim (';' :: '\n' :: '\n' :: after) := delim_cons (by decide)

theorem delim_space (after : List Char) : Delim (' ' :: after) := delim_cons (by decide)

/-- `[export ]const N = ` -/
def jsConstPrefix (n : String) (e : Bool) : String := (if e then "export " else "") ++ "const " ++ n ++ " = "

theorem jsConst_toList (n : String) (i : Nat) (e : Bool) (j : String) (after : List Char) :
    (RStmt.text (.jsConst n i e j)).toList ++ after =
      (jsConstPrefix n e).toList ++ (j.toList ++ ';' :: '\n' :: '\n' :: after) := by
  simp [RStmt.text, jsConstPrefix, String.toList_append]

/-- `[export |declare ]const N: T = ` -/
def tsConstPrefix (n : String) (e a : Bool) (ty : NitroVerif.Ts.Ty) : String :=
  (if e then "export " else if a then "declare " else "") ++ "const " ++ n ++ ": " ++ layoutTy ty ++ " = "

/-- `as unknown as T;\n\n` (behind the space that follows the literal) -/
def tsConstSuffix (ty : NitroVerif.Ts.Ty) : String := "as unknown as " ++ layoutTy ty ++ ";\n\n"

theorem tsConst_toList (n : String) (i : Nat) (e a : Bool) (ty : NitroVerif.Ts.Ty) (j : String) (after : List Char) :
    (RStmt.text (.const n i e a ty (some j))).toList ++ after =
      (tsConstPrefix n e a ty).toList ++ (j.toList ++ ' ' :: ((tsConstSuffix ty).toList ++ after)) := by
  have h1 : (" = " : String).toList = [' ', '=', ' '] := by decide
  have h2 : (" as unknown as " : String).toList = ' ' :: ("as unknown as " : String).toList := by decide
  simp only [RStmt.text, tsConstPrefix, tsConstSuffix, String.toList_append, h1, h2, List.append_assoc, List.cons_append,
    List.nil_append]

/-! ## the JavaScript module: every constant carries a runtime document -/

/-- a statement of the JavaScript module is `export { … as default }` or a constant whose value is the text of the runtime
    document of a definition of `L` -/
def JsStmtOk (D : Doc) (L : Doc) (s : RStmt) : Prop :=
  (∃ l, s = .exportDefault l) ∨
  ∃ n i e x ds, s = .jsConst n i e (jsonText (toJson ds)) ∧ x ∈ L ∧ runtimeDefs D x = .ok ds

theorem JsStmtOk.mono {D L L' : Doc} {s : RStmt} (h : JsStmtOk D L s) (hl : ∀ x, x ∈ L → x ∈ L') : JsStmtOk D L' s := by
  rcases h with h | ⟨n, i, e, x, ds, h1, h2, h3⟩
  · exact Or.inl h
  · exact Or.inr ⟨n, i, e, x, ds, h1, hl x h2, h3⟩

theorem jsStmts_values (fo : FullOpts) (D : Doc) (docFile count : Nat) :
    ∀ (L : Doc) (r : List POp) (i : Nat), opJsDefsOps fo D docFile count L = .ok r →
      ∀ s ∈ jsStmts fo D docFile count i L, JsStmtOk D L s
  | [], _, _, _, s, hs => by simp [jsStmts] at hs
  | .op op :: rest, r, i, h, s, hs => by
    simp only [opJsDefsOps] at h
    split at h
    · cases h
    · rename_i js hjs
      split at h
      · cases h
      · rename_i r' hr'
        have hv := runtimeText_value hjs
        cases hrd : runtimeDefs D (.op op) with
        | error e => simp [runtimeText, hrd] at hjs
        | ok ds =>
          simp only [jsStmts, List.mem_append, List.mem_cons, List.not_mem_nil, or_false] at hs
          rcases hs with (hs | hs) | hs
          · subst hs
            exact Or.inr ⟨_, _, _, .op op, ds, by rw [runtimeModelText_ok hrd], by simp, hrd⟩
          · split at hs
            · simp only [List.mem_cons, List.not_mem_nil, or_false] at hs; exact Or.inl ⟨_, hs⟩
            · cases hs
          · exact (jsStmts_values fo D docFile count rest r' (i + 1) hr' s hs).mono (fun x hx => by simp [hx])
  | .frag f :: rest, r, i, h, s, hs => by
    simp only [opJsDefsOps] at h
    split at h
    · cases h
    · rename_i js hjs
      split at h
      · cases h
      · rename_i r' hr'
        cases hrd : runtimeDefs D (.frag f) with
        | error e => simp [runtimeText, hrd] at hjs
        | ok ds =>
          simp only [jsStmts, List.mem_cons] at hs
          rcases hs with hs | hs
          · subst hs
            exact Or.inr ⟨_, _, _, .frag f, ds, by rw [runtimeModelText_ok hrd], by simp, hrd⟩
          · exact (jsStmts_values fo D docFile count rest r' (i + 1) hr' s hs).mono (fun x hx => by simp [hx])
  | .imp _ :: rest, r, i, h, s, hs => by
    simp only [opJsDefsOps] at h
    simp only [jsStmts] at hs
    exact (jsStmts_values fo D docFile count rest r i h s hs).mono (fun x hx => by simp [hx])

/-! ## the declaration file (`.graphql.ts` with `print_values`): every constant with a value carries a runtime document -/

/-- a statement of the declaration file is a type alias, the default export, a constant without a value, or a constant
    whose value is the text of the runtime document of a definition of `L` -/
def TsStmtOk (D : Doc) (L : Doc) (s : RStmt) : Prop :=
  (∃ n e ty, s = .typeAlias n e ty) ∨ (∃ l, s = .exportDefault l) ∨ (∃ n i e a ty, s = .const n i e a ty none) ∨
  ∃ n i e a ty x ds, s = .const n i e a ty (some (jsonText (toJson ds))) ∧ x ∈ L ∧ runtimeDefs D x = .ok ds

theorem TsStmtOk.mono {D L L' : Doc} {s : RStmt} (h : TsStmtOk D L s) (hl : ∀ x, x ∈ L → x ∈ L') : TsStmtOk D L' s := by
  rcases h with h | h | h | ⟨n, i, e, a, ty, x, ds, h1, h2, h3⟩
  · exact Or.inl h
  · exact Or.inr (Or.inl h)
  · exact Or.inr (Or.inr (Or.inl h))
  · exact Or.inr (Or.inr (Or.inr ⟨n, i, e, a, ty, x, ds, h1, hl x h2, h3⟩))

/-- the value of a constant of the declaration file, when the printer returned -/
theorem optValue_cases {pv : Bool} {D : Doc} {x : ExecDef} {js : Option String} (h : optRuntime pv D x = .ok js) :
    optValue pv D x = none ∨ ∃ ds, runtimeDefs D x = .ok ds ∧ optValue pv D x = some (jsonText (toJson ds)) := by
  cases pv
  · left; simp [optValue]
  · right
    simp only [optRuntime, if_true] at h
    cases hrd : runtimeDefs D x with
    | error e => simp [runtimeText, hrd, Except.map] at h
    | ok ds => exact ⟨ds, rfl, by simp [optValue, runtimeModelText_ok hrd]⟩

theorem typeStmts_values (fo : FullOpts) (S : Schema) (D : Doc) (docFile count : Nat) :
    ∀ (L : Doc) (sps : List Pos) (r : List POp) (i : Nat), opTypeDefsOps fo S D docFile count L sps = .ok r →
      ∀ s ∈ typeStmts fo S D docFile count i L, TsStmtOk D L s
  | [], _, _, _, _, s, hs => by simp [typeStmts] at hs
  | .op op :: rest, sps, r, i, h, s, hs => by
    simp only [opTypeDefsOps] at h
    split at h
    · cases h
    · rename_i a ha
      split at h
      · cases h
      · rename_i r' hr'
        simp only [typeStmts, List.mem_append] at hs
        rcases hs with hs | hs
        · simp only [opStmts, List.mem_append, List.mem_cons, List.not_mem_nil, or_false] at hs
          rcases hs with (hs | hs | hs) | hs
          · exact Or.inl ⟨_, _, _, hs⟩
          · exact Or.inl ⟨_, _, _, hs⟩
          · unfold opTypeOperationOps at ha
            split at ha
            · cases ha
            · split at ha
              · cases ha
              · rename_i js hjs
                rcases optValue_cases hjs with hv | ⟨ds, hrd, hv⟩
                · rw [hv] at hs; exact Or.inr (Or.inr (Or.inl ⟨_, _, _, _, _, hs⟩))
                · rw [hv] at hs
                  exact Or.inr (Or.inr (Or.inr ⟨_, _, _, _, _, .op op, ds, hs, by simp, hrd⟩))
          · split at hs
            · simp only [List.mem_cons, List.not_mem_nil, or_false] at hs; exact Or.inr (Or.inl ⟨_, hs⟩)
            · cases hs
        · exact (typeStmts_values fo S D docFile count rest sps.tail r' (i + 1) hr' s hs).mono
            (fun x hx => by simp [hx])
  | .frag f :: rest, sps, r, i, h, s, hs => by
    simp only [opTypeDefsOps] at h
    split at h
    · cases h
    · rename_i a ha
      split at h
      · cases h
      · rename_i r' hr'
        simp only [typeStmts, List.mem_append] at hs
        rcases hs with hs | hs
        · simp only [fragStmts, List.mem_cons, List.not_mem_nil, or_false] at hs
          rcases hs with hs | hs
          · exact Or.inl ⟨_, _, _, hs⟩
          · unfold opTypeFragmentOps at ha
            split at ha
            · cases ha
            · split at ha
              · cases ha
              · rename_i js hjs
                rcases optValue_cases hjs with hv | ⟨ds, hrd, hv⟩
                · rw [hv] at hs; exact Or.inr (Or.inr (Or.inl ⟨_, _, _, _, _, hs⟩))
                · rw [hv] at hs
                  exact Or.inr (Or.inr (Or.inr ⟨_, _, _, _, _, .frag f, ds, hs, by simp, hrd⟩))
        · exact (typeStmts_values fo S D docFile count rest sps r' (i + 1) hr' s hs).mono (fun x hx => by simp [hx])
  | .imp _ :: rest, sps, r, i, h, s, hs => by
    simp only [opTypeDefsOps] at h
    simp only [typeStmts] at hs
    exact (typeStmts_values fo S D docFile count rest sps r i h s hs).mono (fun x hx => by simp [hx])

/-! ## member lookup: first and last occurrence agree when names are distinct -/

/-- the LAST value stored under `k` (what `JSON.parse` and an object literal keep when a name is repeated) -/
def lookupLast (k : String) : List (String × Json) → Option Json
  | [] => none
  | (k', v) :: r =>
    match lookupLast k r with
    | some x => some x
    | none => if k' = k then some v else none

theorem lookupLast_none_of_not_mem (k : String) (kvs : List (String × Json)) (h : k ∉ kvs.map (·.1)) :
    lookupLast k kvs = none := by
  induction kvs with
  | nil => rfl
  | cons kv r ih =>
    obtain ⟨k', v⟩ := kv
    simp only [List.map_cons, List.mem_cons, not_or] at h
    simp [lookupLast, ih h.2, Ne.symm h.1]

theorem lookup_eq_lookupLast (k : String) (kvs : List (String × Json)) (h : (kvs.map (·.1)).Nodup) :
    Json.lookup k kvs = lookupLast k kvs := by
  induction kvs with
  | nil => rfl
  | cons kv r ih =>
    obtain ⟨k', v⟩ := kv
    simp only [List.map_cons, List.nodup_cons] at h
    by_cases hk : k' = k
    · subst hk
      simp [Json.lookup, lookupLast, lookupLast_none_of_not_mem _ _ h.1]
    · simp only [Json.lookup, hk, if_false, lookupLast, ih h.2]
      cases lookupLast k r <;> rfl

end NitroVerif.JsonText
