/-
No-panic, part A: `get_boolean_variables` (`boolVarsGo`) — it succeeds on selection sets without fragment cycles and
with defined spreads (`fitsS`), and it collects the variable of every `@skip`/`@include` of every selection reachable
through inline fragments and fragment spreads (`RD`); `check_skip_directive` succeeds when the `if` arguments are there
and the variables are in the assignment.
-/
import NitroVerif.Lemmas.OpTypesRefFuel
import NitroVerif.Lemmas.OpTypesDen
namespace NitroVerif.OpTypes.Ref
open NitroVerif.Gql NitroVerif.Ts NitroVerif.Exec NitroVerif.OpTypes

/-- directive lists of the selections reachable from a selection set (never entering a fragment of `V`) -/
inductive RD (F : FragMap) (V : List Name) : List Selection → List Directive → Prop where
  | here {s rest} : RD F V (s :: rest) (Selection.dirs s)
  | inline {cond ds ss p rest d} : RD F V ss d → RD F V (.inline cond ds ss p :: rest) d
  | spread {nm np ds p rest f d} : nm ∉ V → F nm = some f → RD F V f.sel d → RD F V (.spread nm np ds p :: rest) d
  | tail {s rest d} : RD F V rest d → RD F V (s :: rest) d

section
variable {F : FragMap}

theorem rd_nil {V : List Name} {d : List Directive} : ¬ RD F V [] d := by intro h; cases h

theorem rd_append {V : List Name} {a b : List Selection} {d : List Directive} :
    RD F V (a ++ b) d ↔ RD F V a d ∨ RD F V b d := by
  induction a with
  | nil => simp [rd_nil]
  | cons s a ih =>
    constructor
    · intro h
      rw [List.cons_append] at h
      cases h with
      | here => exact Or.inl .here
      | inline h1 => exact Or.inl (.inline h1)
      | spread h1 h2 h3 => exact Or.inl (.spread h1 h2 h3)
      | tail hr =>
        rcases ih.1 hr with h | h
        · exact Or.inl (.tail h)
        · exact Or.inr h
    · rintro (h | h)
      · rw [List.cons_append]
        cases h with
        | here => exact .here
        | inline h1 => exact .inline h1
        | spread h1 h2 h3 => exact .spread h1 h2 h3
        | tail hr => exact .tail (ih.2 (Or.inl hr))
      · rw [List.cons_append]; exact .tail (ih.2 (Or.inr h))

theorem rd_mono {V V' : List Name} (hV : ∀ x ∈ V, x ∈ V') {ss : List Selection} {d : List Directive}
    (h : RD F V' ss d) : RD F V ss d := by
  induction h with
  | here => exact .here
  | inline _ ih => exact .inline ih
  | spread hv hf _ ih => exact .spread (fun hm => hv (hV _ hm)) hf ih
  | tail _ ih => exact .tail ih

theorem rd_split {V V' : List Name} (nm : Name) (hV' : ∀ x, x ∈ V' ↔ x = nm ∨ x ∈ V) {ss : List Selection}
    {d : List Directive} (h : RD F V ss d) : RD F V' ss d ∨ ∃ f, F nm = some f ∧ RD F V' f.sel d := by
  induction h with
  | here => exact Or.inl .here
  | inline _ ih =>
    rcases ih with h | h
    · exact Or.inl (.inline h)
    · exact Or.inr h
  | @spread m np ds p rest f d hv hf _ ih =>
    rcases ih with h | h
    · by_cases hm : m = nm
      · subst hm; exact Or.inr ⟨f, hf, h⟩
      · exact Or.inl (.spread (by rw [hV']; simp [hm, hv]) hf h)
    · exact Or.inr h
  | tail _ ih =>
    rcases ih with h | h
    · exact Or.inl (.tail h)
    · exact Or.inr h

/-- **`get_boolean_variables` collects exactly the variables of the reachable directive lists** -/
theorem boolVarsGo_spec : ∀ (n : Nat) (L : List Selection) (seen acc r : List Name),
    boolVarsGo F n L seen acc = .ok r → ∀ v, v ∈ r ↔ v ∈ acc ∨ ∃ d, RD F seen L d ∧ v ∈ dirVars d
  | 0, [], seen, acc, r, h => by
    simp only [boolVarsGo] at h; cases h; intro v; simp [rd_nil]
  | 0, _ :: _, seen, acc, r, h => by simp [boolVarsGo] at h
  | n + 1, [], seen, acc, r, h => by
    simp only [boolVarsGo] at h; cases h; intro v; simp [rd_nil]
  | n + 1, s :: rest, seen, acc, r, h => by
    intro v
    simp only [boolVarsGo] at h
    -- not entering anything below `s`
    have plain : boolVarsGo F n rest seen (acc ++ dirVars (Selection.dirs s)) = .ok r →
        (∀ d, RD F seen (s :: rest) d → d = Selection.dirs s ∨ RD F seen rest d) →
        (v ∈ r ↔ v ∈ acc ∨ ∃ d, RD F seen (s :: rest) d ∧ v ∈ dirVars d) := by
      intro h hinv
      rw [boolVarsGo_spec n rest seen _ r h v, List.mem_append]
      constructor
      · rintro ((h1 | h1) | ⟨d, h2, h3⟩)
        · exact Or.inl h1
        · exact Or.inr ⟨_, .here, h1⟩
        · exact Or.inr ⟨d, .tail h2, h3⟩
      · rintro (h1 | ⟨d, h2, h3⟩)
        · exact Or.inl (Or.inl h1)
        · rcases hinv d h2 with rfl | h4
          · exact Or.inl (Or.inr h3)
          · exact Or.inr ⟨d, h4, h3⟩
    cases s with
    | field alias name p args ds sub =>
      simp only at h
      refine plain h ?_
      intro d hd
      cases hd with
      | here => exact Or.inl rfl
      | tail hr => exact Or.inr hr
    | spread nm np ds p =>
      simp only at h
      by_cases hs : seen.contains nm = true
      · simp only [hs, ↓reduceIte] at h
        refine plain h ?_
        intro d hd
        cases hd with
        | here => exact Or.inl rfl
        | spread hv _ _ => exact absurd (by simpa using hs) hv
        | tail hr => exact Or.inr hr
      · have hs' : nm ∉ seen := by simpa using hs
        simp only [hs, Bool.false_eq_true, ↓reduceIte] at h
        cases hF : F nm with
        | none => simp [hF] at h
        | some f =>
          simp only [hF] at h
          have hV' : ∀ x, x ∈ seen ++ [nm] ↔ x = nm ∨ x ∈ seen := by
            intro x; simp only [List.mem_append, List.mem_singleton]; exact Or.comm
          have hmono : ∀ x ∈ seen, x ∈ seen ++ [nm] := fun x hx => List.mem_append.2 (Or.inl hx)
          rw [boolVarsGo_spec n (f.sel ++ rest) (seen ++ [nm]) _ r h v, List.mem_append]
          constructor
          · rintro ((h1 | h1) | ⟨d, h2, h3⟩)
            · exact Or.inl h1
            · exact Or.inr ⟨_, .here, h1⟩
            · rcases rd_append.1 h2 with h4 | h4
              · exact Or.inr ⟨d, .spread hs' hF (rd_mono hmono h4), h3⟩
              · exact Or.inr ⟨d, .tail (rd_mono hmono h4), h3⟩
          · rintro (h1 | ⟨d, h2, h3⟩)
            · exact Or.inl (Or.inl h1)
            · have key : ∀ {L' : List Selection}, RD F seen L' d →
                  RD F (seen ++ [nm]) L' d ∨ RD F (seen ++ [nm]) f.sel d := by
                intro L' hL
                rcases rd_split nm hV' hL with h4 | ⟨f', hf', h4⟩
                · exact Or.inl h4
                · rw [hF] at hf'; cases hf'; exact Or.inr h4
              cases h2 with
              | here => exact Or.inl (Or.inr h3)
              | spread _ hf hsel =>
                rw [hF] at hf; cases hf
                rcases key hsel with h4 | h4 <;> exact Or.inr ⟨d, rd_append.2 (Or.inl h4), h3⟩
              | tail hr =>
                rcases key hr with h4 | h4
                · exact Or.inr ⟨d, rd_append.2 (Or.inr h4), h3⟩
                · exact Or.inr ⟨d, rd_append.2 (Or.inl h4), h3⟩
    | inline cond ds ss p =>
      simp only at h
      rw [boolVarsGo_spec n (ss ++ rest) seen _ r h v, List.mem_append]
      constructor
      · rintro ((h1 | h1) | ⟨d, h2, h3⟩)
        · exact Or.inl h1
        · exact Or.inr ⟨_, .here, h1⟩
        · rcases rd_append.1 h2 with h4 | h4
          · exact Or.inr ⟨d, .inline h4, h3⟩
          · exact Or.inr ⟨d, .tail h4, h3⟩
      · rintro (h1 | ⟨d, h2, h3⟩)
        · exact Or.inl (Or.inl h1)
        · cases h2 with
          | here => exact Or.inl (Or.inr h3)
          | inline hsel => exact Or.inr ⟨d, rd_append.2 (Or.inl hsel), h3⟩
          | tail hr => exact Or.inr ⟨d, rd_append.2 (Or.inr hr), h3⟩

/-- the variables of every reachable directive list are among the Boolean variables of the selection set -/
theorem boolVars_complete {fuel : Nat} {ss : List Selection} {vars : List Name} (h : boolVars F fuel ss = .ok vars)
    {d : List Directive} (hd : RD F [] ss d) {v : Name} (hv : v ∈ dirVars d) : v ∈ vars := by
  unfold boolVars at h
  cases hg : boolVarsGo F fuel ss [] [] with
  | error e => simp [hg, Except.map] at h
  | ok l =>
    simp only [hg, Except.map] at h; cases h
    rw [List.mem_eraseDups]
    exact (boolVarsGo_spec fuel ss [] [] l hg v).2 (Or.inr ⟨d, hd, hv⟩)

/-! ### termination of `get_boolean_variables` -/

/-- `fits` and every reachable spread is defined -/
def fitsS (F : FragMap) : Nat → Selection → Bool
  | 0, _ => false
  | _ + 1, .field _ _ _ _ _ none => true
  | D + 1, .field _ _ _ _ _ (some ss) => ss.all (fitsS F D)
  | D + 1, .inline _ _ ss _ => ss.all (fitsS F D)
  | D + 1, .spread nm _ _ _ =>
    match F nm with
    | some f => f.sel.all (fitsS F D)
    | none => false

theorem fitsS_fits : ∀ (D : Nat) (s : Selection), fitsS F D s = true → fits F D s = true
  | 0, _, h => by simp [fitsS] at h
  | D + 1, s, h => by
    have hl : ∀ ss : List Selection, ss.all (fitsS F D) = true → ss.all (fits F D) = true := by
      intro ss hs
      rw [List.all_eq_true] at hs ⊢
      exact fun x hx => fitsS_fits D x (hs x hx)
    cases s with
    | field a n p args ds sub =>
      cases sub with
      | none => simp [fits]
      | some ss => simp only [fitsS] at h; simp only [fits]; exact hl ss h
    | inline cnd ds ss p => simp only [fitsS] at h; simp only [fits]; exact hl ss h
    | spread nm np ds p =>
      simp only [fitsS] at h
      simp only [fits]
      cases hF : F nm with
      | none => simp [hF] at h
      | some f => simp only [hF] at h ⊢; exact hl f.sel h

theorem fitsS_succ : ∀ (D : Nat) (s : Selection), fitsS F D s = true → fitsS F (D + 1) s = true
  | 0, _, h => by simp [fitsS] at h
  | D + 1, s, h => by
    have hl : ∀ ss : List Selection, ss.all (fitsS F D) = true → ss.all (fitsS F (D + 1)) = true := by
      intro ss hs
      rw [List.all_eq_true] at hs ⊢
      exact fun x hx => fitsS_succ D x (hs x hx)
    cases s with
    | field a n p args ds sub =>
      cases sub with
      | none => simp [fitsS]
      | some ss => simp only [fitsS] at h ⊢; exact hl ss h
    | inline cnd ds ss p => simp only [fitsS] at h ⊢; exact hl ss h
    | spread nm np ds p =>
      simp only [fitsS] at h ⊢
      cases hF : F nm with
      | none => simp [hF] at h
      | some f => simp only [hF] at h ⊢; exact hl f.sel h

theorem boolVarsGo_ok (D : Nat) : ∀ (n : Nat) (L : List Selection) (seen acc : List Name),
    (∀ s ∈ L, fitsS F D s = true) → eszL F D L ≤ n → ∃ r, boolVarsGo F n L seen acc = .ok r
  | 0, [], _, acc, _, _ => ⟨acc, by simp [boolVarsGo]⟩
  | 0, s :: rest, _, _, _, hn => by
    rw [eszL_cons] at hn; have := esz_pos F D s; omega
  | n + 1, [], _, acc, _, _ => ⟨acc, by simp [boolVarsGo]⟩
  | n + 1, s :: rest, seen, acc, hfit, hn => by
    rw [eszL_cons] at hn
    have hpos := esz_pos F D s
    have hrest : ∀ s' ∈ rest, fitsS F D s' = true := fun s' hs' => hfit s' (List.mem_cons_of_mem _ hs')
    have hs := hfit s (by simp)
    simp only [boolVarsGo]
    cases D with
    | zero => simp [fitsS] at hs
    | succ D' =>
      have lift : ∀ ss : List Selection, ss.all (fitsS F D') = true →
          (∀ x ∈ ss, fitsS F (D' + 1) x = true) ∧ eszL F (D' + 1) ss = eszL F D' ss := by
        intro ss hss
        have h1 : ∀ x ∈ ss, fitsS F D' x = true := fun x hx => List.all_eq_true.1 hss x hx
        exact ⟨fun x hx => fitsS_succ D' x (h1 x hx), (fitsAll_succ F D' ss (fun x hx => fitsS_fits D' x (h1 x hx))).2⟩
      cases s with
      | field alias name p args ds sub =>
        simp only
        exact boolVarsGo_ok (D' + 1) n rest seen _ hrest (by omega)
      | spread nm np ds p =>
        simp only
        split
        · exact boolVarsGo_ok (D' + 1) n rest seen _ hrest (by omega)
        · simp only [fitsS] at hs
          cases hF : F nm with
          | none => simp [hF] at hs
          | some fd =>
            simp only [hF] at hs ⊢
            obtain ⟨hl1, hl2⟩ := lift fd.sel hs
            have hsz : esz F (D' + 1) (.spread nm np ds p) = 1 + eszL F (D' + 1) fd.sel := by
              simp only [eszL] at hl2
              simp only [esz, hF, eszL]; omega
            refine boolVarsGo_ok (D' + 1) n (fd.sel ++ rest) _ _ ?_ (by rw [eszL_append]; omega)
            intro s' hs'
            rcases List.mem_append.1 hs' with h | h
            · exact hl1 s' h
            · exact hrest s' h
      | inline cond ds ss p =>
        simp only [fitsS] at hs
        obtain ⟨hl1, hl2⟩ := lift ss hs
        have hsz : esz F (D' + 1) (.inline cond ds ss p) = 1 + eszL F (D' + 1) ss := by
          have h2 := hl2
          simp only [eszL] at h2
          simp only [esz, eszL]; omega
        simp only
        refine boolVarsGo_ok (D' + 1) n (ss ++ rest) _ _ ?_ (by rw [eszL_append]; omega)
        intro s' hs'
        rcases List.mem_append.1 hs' with h | h
        · exact hl1 s' h
        · exact hrest s' h

theorem boolVars_ok {D fuel : Nat} {ss : List Selection} (hfit : ∀ s ∈ ss, fitsS F D s = true)
    (hn : eszL F D ss ≤ fuel) : ∃ vars, boolVars F fuel ss = .ok vars := by
  obtain ⟨r, hr⟩ := boolVarsGo_ok D fuel ss [] [] hfit hn
  exact ⟨r.eraseDups, by simp [boolVars, hr, Except.map]⟩

end

/-! ### `check_skip_directive` does not panic -/

/-- a `@skip`/`@include` has its `if` argument, and if that is a variable it is in the assignment -/
def IfOk (vars : List (Name × Bool)) (d : Directive) : Prop :=
  (d.name == "skip" || d.name == "include") = true →
    match ifArg d with
    | none => False
    | some (.var v _) => vars.any (·.1 == v) = true
    | some _ => True

theorem checkSkip_ok (vars : List (Name × Bool)) : ∀ (ds : List Directive), (∀ d ∈ ds, IfOk vars d) →
    ∃ b, checkSkip vars ds = .ok b
  | [], _ => ⟨false, rfl⟩
  | d :: ds, h => by
    obtain ⟨b', hb'⟩ := checkSkip_ok vars ds (fun d' hd' => h d' (List.mem_cons_of_mem _ hd'))
    have hd := h d (by simp)
    unfold IfOk at hd
    unfold checkSkip
    rw [hb']
    have hvar : ∀ v, vars.any (·.1 == v) = true → ∃ k b, vars.find? (·.1 == v) = some (k, b) := by
      intro v hv
      cases hf : vars.find? (·.1 == v) with
      | none =>
        rw [List.find?_eq_none] at hf
        obtain ⟨x, hx, hxv⟩ := List.any_eq_true.1 hv
        exact absurd hxv (hf x hx)
      | some x => exact ⟨x.1, x.2, rfl⟩
    by_cases hs : (d.name == "skip") = true
    · simp only [hs, Bool.true_or, forall_const, ↓reduceIte] at hd ⊢
      cases ha : ifArg d with
      | none => simp [ha] at hd
      | some a =>
        simp only [ha] at hd
        cases a with
        | var v p =>
          simp only at hd
          obtain ⟨k, b, hf⟩ := hvar v hd
          simp only [hf]
          cases b <;> simp
        | bool bv p => cases bv <;> simp
        | _ => simp
    · by_cases hi : (d.name == "include") = true
      · simp only [hs, hi, Bool.or_true, forall_const, Bool.false_eq_true, ↓reduceIte] at hd ⊢
        cases ha : ifArg d with
        | none => simp [ha] at hd
        | some a =>
          simp only [ha] at hd
          cases a with
          | var v p =>
            simp only at hd
            obtain ⟨k, b, hf⟩ := hvar v hd
            simp only [hf]
            cases b <;> simp
          | bool bv p => cases bv <;> simp
          | _ => simp
      · simp only [hs, hi, Bool.false_eq_true, ↓reduceIte]
        exact ⟨b', rfl⟩

theorem ifVariable_of_ifArg {d : Directive} {v : Name} {p : Pos} (h : ifArg d = some (.var v p)) :
    ifVariable d = some v := by
  unfold ifArg at h
  unfold ifVariable
  generalize d.args = args at h ⊢
  induction args with
  | nil => simp at h
  | cons a as ih =>
    simp only [List.find?_cons] at h
    simp only [List.findSome?_cons]
    by_cases ha : (a.1 == "if") = true
    · simp only [ha, Option.map_some, Option.some.injEq] at h
      have : (a.1 != "if") = false := by simp [bne, ha]
      simp only [this, Bool.false_eq_true, ↓reduceIte, h]
    · have ha' : (a.1 == "if") = false := by simpa using ha
      simp only [ha'] at h
      have : (a.1 != "if") = true := by simp [bne, ha']
      simp only [this, ↓reduceIte]
      exact ih h

/-- the directive lists of a selection set are fine for an assignment over its Boolean variables -/
theorem ifOk_of_boolVars {F : FragMap} {fuel : Nat} {ss : List Selection} {vars : List Name}
    (hbv : boolVars F fuel ss = .ok vars) {a : List (Name × Bool)} (ha : a.map (·.1) = vars)
    {ds : List Directive} (hrd : RD F [] ss ds) (hif : ∀ d ∈ ds, (d.name == "skip" || d.name == "include") = true →
      (ifArg d).isSome = true) : ∀ d ∈ ds, IfOk a d := by
  intro d hd hsi
  have h1 := hif d hd hsi
  cases harg : ifArg d with
  | none => rw [harg] at h1; cases h1
  | some x =>
    cases x with
    | var v p =>
      simp only
      have hv : v ∈ dirVars ds := by
        simp only [dirVars, List.mem_filterMap]
        exact ⟨d, hd, by simp only [hsi, ↓reduceIte]; exact ifVariable_of_ifArg harg⟩
      have := boolVars_complete hbv hrd hv
      rw [← ha] at this
      obtain ⟨q, hq, hqv⟩ := List.mem_map.1 this
      exact List.any_eq_true.2 ⟨q, hq, by simp [hqv]⟩
    | _ => trivial

end NitroVerif.OpTypes.Ref
