import NitroVerif.Lemmas.CheckOpCompleteDefs
/-!
Completeness from the IMPLEMENTED rules alone (C04): the header diagnostics of the main loop from 5.2.1.1, 5.2.2.1,
5.5.1.1; the record `Rules` from "every implemented rule holds"; and the assembled statement. The four additional
rules of `SpecValid` (5.2.3.1b, 5.3.2, 5.5.1.4, 5.8.4) are not needed for the checker to be silent.
-/
namespace NitroVerif.CheckOp
open NitroVerif.Gql NitroVerif.CheckCommon NitroVerif.Valid

/-- the header diagnostics of the main loop are never raised when operation names and fragment names are unique
    and an anonymous operation is alone -/
theorem defHeader_complete {S : Schema} {D : Doc} (h1 : rule_5_2_1_1 S D = true) (h2 : rule_5_2_2_1 S D = true)
    (h3 : rule_5_5_1_1 S D = true) :
    ∀ pre d post, D = pre ++ d :: post → defHeader (opsOf D).length pre d = [] := by
  intro pre d post hD
  have hops : nodupB (opNamesOf D) = true := by simpa [rule_5_2_1_1, opNames, opNamesOf, ops_eq] using h1
  have hfr : nodupB (fragNamesOf D) = true := by simpa [rule_5_5_1_1, fragNamesOf, frags_eq] using h3
  cases d with
  | imp i => rfl
  | frag f =>
    rw [hD, fragNamesOf_append, fragNamesOf_cons] at hfr
    have hnot := nodupB_append_cons _ _ hfr
    have : pre.any (fragHasName f.name) = false := by
      cases hc : pre.any (fragHasName f.name) with
      | false => rfl
      | true => exact absurd ((any_fragHasName _ _).mp hc) hnot
    simp [defHeader, this]
  | op o =>
    cases hn : o.name with
    | some np =>
      obtain ⟨n, p⟩ := np
      rw [hD, opNamesOf_append, opNamesOf_cons] at hops
      simp only [hn, List.cons_append, List.nil_append] at hops
      have hnot := nodupB_append_cons _ _ hops
      have : pre.any (opHasName n) = false := by
        cases hc : pre.any (opHasName n) with
        | false => rfl
        | true => exact absurd ((any_opHasName _ _).mp hc) hnot
      simp [defHeader, hn, this]
    | none =>
      have hmem : o ∈ Valid.ops D := by
        simp only [Valid.ops, List.mem_filterMap]
        exact ⟨.op o, by rw [hD]; simp, rfl⟩
      have hany : (Valid.ops D).any (·.name.isNone) = true :=
        List.any_eq_true.mpr ⟨o, hmem, by simp [hn]⟩
      have hlen : (opsOf D).length = 1 := by
        unfold rule_5_2_2_1 at h2
        rw [hany] at h2
        simpa [ops_eq] using h2
      simp [defHeader, hn, hlen]

/-- the rules the completeness proof uses are all among the implemented ones -/
theorem rules_of_implemented {S : Schema} {D : Doc} (h : ∀ r ∈ ImplementedRules, Holds r S D) :
    Rules S D ∧ rule_5_2_1_1 S D = true ∧ rule_5_2_2_1 S D = true := by
  have g : ∀ (r : String) (f : Schema → Doc → Bool), (r, f) ∈ ruleTable → f S D = true := by
    intro r f hm
    exact h r (List.mem_map.mpr ⟨(r, f), hm, rfl⟩) f (List.mem_append_left _ hm)
  exact ⟨{
    r2_3_1 := g "5.2.3.1" rule_5_2_3_1 (by simp [ruleTable])
    r3_1 := g "5.3.1" rule_5_3_1 (by simp [ruleTable])
    r3_3 := g "5.3.3" rule_5_3_3 (by simp [ruleTable])
    r4_1 := g "5.4.1" rule_5_4_1 (by simp [ruleTable])
    r4_2 := g "5.4.2" rule_5_4_2 (by simp [ruleTable])
    r4_2_1 := g "5.4.2.1" rule_5_4_2_1 (by simp [ruleTable])
    r6_1 := g "5.6.1" rule_5_6_1 (by simp [ruleTable])
    r6_2 := g "5.6.2" rule_5_6_2 (by simp [ruleTable])
    r6_3 := g "5.6.3" rule_5_6_3 (by simp [ruleTable])
    r6_4 := g "5.6.4" rule_5_6_4 (by simp [ruleTable])
    r8_1 := g "5.8.1" rule_5_8_1 (by simp [ruleTable])
    r8_2 := g "5.8.2" rule_5_8_2 (by simp [ruleTable])
    r8_3 := g "5.8.3" rule_5_8_3 (by simp [ruleTable])
    r8_5 := g "5.8.5" rule_5_8_5 (by simp [ruleTable])
    r5_1_1 := g "5.5.1.1" rule_5_5_1_1 (by simp [ruleTable])
    r5_1_2 := g "5.5.1.2" rule_5_5_1_2 (by simp [ruleTable])
    r5_1_3 := g "5.5.1.3" rule_5_5_1_3 (by simp [ruleTable])
    r5_2_1 := g "5.5.2.1" rule_5_5_2_1 (by simp [ruleTable])
    r5_2_2 := g "5.5.2.2" rule_5_5_2_2 (by simp [ruleTable])
    r5_2_3 := g "5.5.2.3" rule_5_5_2_3 (by simp [ruleTable])
    r7_1 := g "5.7.1" rule_5_7_1 (by simp [ruleTable])
    r7_2 := g "5.7.2" rule_5_7_2 (by simp [ruleTable])
    r7_3 := g "5.7.3" rule_5_7_3 (by simp [ruleTable]) },
    g "5.2.1.1" rule_5_2_1_1 (by simp [ruleTable]), g "5.2.2.1" rule_5_2_2_1 (by simp [ruleTable])⟩

/-- the checker is silent as soon as the implemented rules hold (and the side conditions) -/
theorem checkOp_nil_of_implemented {S : Schema} {D : Doc} (hS : SchemaValid S)
    (h : ∀ r ∈ ImplementedRules, Holds r S D)
    (hNE : noEmptyUnionB S = true) (hroots : rootsDefinedB S D = true) (hconst : constVarDefsB D = true) :
    checkOp S D = [] := by
  obtain ⟨R, h1, h2⟩ := rules_of_implemented h
  exact checkOp_nil_of (defHeader_complete h1 h2 R.r5_1_1) (defBody_complete hS hNE R hroots hconst)

end NitroVerif.CheckOp
