/-
The TEXT of the pairs whose text a builder inspects (helper lemmas for Props/C08 `parse_no_panic`, the text-dependent
panic sites): from the witness `Wit` of a pair (the evaluation of its rule's body on the actual input) and the body of
the rule as GENERATED (`gList.look R.X = …` by `rfl`: if grammar.pest changes one of these rules this file no longer
compiles), derived with the inversion lemmas:
* `OperationType`   — the text is `query`, `mutation` or `subscription`        (`str_to_operation_type`)
* `EscapedCharacter` — the text is `\` followed by one of `" \ / b f n r t`      ("Unknown escape sequence")
* `BlockStringValue` — at least 6 characters                                    (two `split_at`)
* `EscapedUnicode4`  — at least 2 characters                                    (`split_at(2)`)
* `NormalStringCharacter` — not empty                                           (`chars().next().unwrap()`)
* `EscapedUnicodeBrace` — one child `EscapedUnicodeBraceDigits` spanning exactly the text between `\u{` and `}`
  (so that what `validate_unicode_escapes` checked is what `build_string_value` decodes).
-/
import NitroVerif.Lemmas.ParseWit
import NitroVerif.Model.Build
namespace NitroVerif.Peg

variable (g : G)

/-! ### fuel-agnostic inversions -/

theorem str_inv {fuel sk s at_ la tr c tr' c' ps}
    (h : eval g fuel sk (.str s) at_ la tr c = (tr', .ok c' ps)) : TermStep (.str s) c c' ∧ ps = [] := by
  obtain ⟨f, rfl⟩ := eval_pos g h
  exact eval_str_ok g h

theorem any_inv {fuel sk at_ la tr c tr' c' ps}
    (h : eval g fuel sk .any at_ la tr c = (tr', .ok c' ps)) : TermStep .any c c' ∧ ps = [] := by
  obtain ⟨f, rfl⟩ := eval_pos g h
  exact eval_any_ok g h

theorem not_inv {fuel sk a at_ la tr c tr' c' ps}
    (h : eval g fuel sk (.not a) at_ la tr c = (tr', .ok c' ps)) : c' = c ∧ ps = [] := by
  obtain ⟨f, rfl⟩ := eval_pos g h
  exact eval_not_ok g h

theorem choice_inv {fuel sk a b at_ la tr c tr' c' ps}
    (h : eval g fuel sk (.choice a b) at_ la tr c = (tr', .ok c' ps)) :
    ∃ f tr1, eval g f sk a at_ la tr c = (tr', .ok c' ps) ∨ eval g f sk b at_ la tr1 c = (tr', .ok c' ps) := by
  obtain ⟨f, rfl⟩ := eval_pos g h
  rcases eval_choice_ok g h with h1 | ⟨tr1, _, h2⟩
  · exact ⟨f, tr, Or.inl h1⟩
  · exact ⟨f, tr1, Or.inr h2⟩

/-- a sequence in which the implicit skip is a no-op (rule body generated without skip calls, or atomic context) -/
theorem seq_inv {fuel sk a b at_ la tr c tr' c' ps} (hn : sk = false ∨ at_ ≠ .nonAtomic)
    (h : eval g fuel sk (.seq a b) at_ la tr c = (tr', .ok c' ps)) :
    ∃ f tr1 c1 p1 tr2 p3, eval g f sk a at_ la tr c = (tr1, .ok c1 p1) ∧
      eval g f sk b at_ la tr2 c1 = (tr', .ok c' p3) ∧ ps = p1 ++ p3 := by
  obtain ⟨f, rfl⟩ := eval_pos g h
  obtain ⟨tr1, c1, p1, tr2, c2, p2, p3, h1, h2, h3, rfl⟩ := eval_seq_ok g h
  obtain ⟨rfl, rfl⟩ := doSkip_noop_ok g hn h2
  exact ⟨f, tr1, c2, p1, tr2, p3, h1, h3, by simp⟩

theorem call_inv {fuel sk r at_ la tr c tr' c' ps}
    (h : eval g fuel sk (.call r) at_ la tr c = (tr', .ok c' ps)) :
    ∃ f, callRule g f r at_ la tr c = (tr', .ok c' ps) := by
  obtain ⟨f, rfl⟩ := eval_pos g h
  rw [eval_call] at h
  exact ⟨f, h⟩

/-- a call of a rule whose table entry is known -/
theorem rule_inv {fuel r at_ la tr c tr' c' ps kind body} (hl : g.look r = some (kind, body))
    (h : callRule g fuel r at_ la tr c = (tr', .ok c' ps)) :
    ∃ f tr0 tr1 ps0,
      eval g f (bodyCfg (decide (g.ws = some r ∨ g.cm = some r)) kind at_).1 body
        (bodyCfg (decide (g.ws = some r ∨ g.cm = some r)) kind at_).2.1 la tr0 c = (tr1, .ok c' ps0) ∧
      ps = if kind = .silent then ps0
           else if la = .none ∧ (bodyCfg (decide (g.ws = some r ∨ g.cm = some r)) kind at_).2.2 ≠ .atomic
             then [Pair.mk r c.pos c'.pos ps0] else ps0 := by
  obtain ⟨f, rfl⟩ := callRule_pos g h
  obtain ⟨kind', body', tr0, tr1, ps0, hl', hb, hps⟩ := callRule_ok g h
  rw [hl] at hl'
  cases hl'
  exact ⟨f, tr0, tr1, ps0, hb, hps⟩

/-- any successful evaluation from a consistent cursor ends at a consistent cursor further right -/
theorem eval_curOk {inp : List Char} {fuel sk e at_ la tr c tr' c' ps} (hc : CurOk inp c)
    (h : eval g fuel sk e at_ la tr c = (tr', .ok c' ps)) : CurOk inp c' ∧ c.pos ≤ c'.pos := by
  obtain ⟨h1, h2⟩ := (spanInv g inp fuel).ev _ _ _ _ _ _ _ _ _ hc h
  exact ⟨h1, h2.le⟩

/-- the evaluation recorded in a witness, for a rule whose table entry is known -/
theorem Wit.body {g : G} {inp : List Char} {p : Pair} (h : Wit g inp p) {kind : RuleKind} {body : Expr}
    (hl : g.look p.rule = some (kind, body)) :
    ∃ at_ fuel tr0 tr1 c c',
      (bodyCfg (decide (g.ws = some p.rule ∨ g.cm = some p.rule)) kind at_).2.2 ≠ .atomic ∧
      CurOk inp c ∧ CurOk inp c' ∧ c.pos = p.start ∧ c'.pos = p.stop ∧
      eval g fuel (bodyCfg (decide (g.ws = some p.rule ∨ g.cm = some p.rule)) kind at_).1 body
        (bodyCfg (decide (g.ws = some p.rule ∨ g.cm = some p.rule)) kind at_).2.1 .none tr0 c =
        (tr1, .ok c' p.children) := by
  cases h with
  | mk kind' body' at_ fuel tr0 tr1 c c' hl' hk hseen hc hc' hs he hb hcs =>
    simp only [Pair.rule] at hl
    rw [hl] at hl'
    cases hl'
    exact ⟨at_, fuel, tr0, tr1, c, c', hseen, hc, hc', hs, he, hb⟩

/-! ### alternatives of string terminals -/

/-- `"a" | "b" | …` as the list of its strings -/
def strAlts : Expr → Option (List (List Char))
  | .str s => some [s]
  | .choice (.str s) b => (strAlts b).map (s :: ·)
  | _ => none

theorem strAlts_inv {inp : List Char} : ∀ (e : Expr) (ws : List (List Char)), strAlts e = some ws →
    ∀ {fuel sk at_ la tr c tr' c' ps}, CurOk inp c → eval g fuel sk e at_ la tr c = (tr', .ok c' ps) →
      ∃ w ∈ ws, Txt inp c.pos c'.pos w := by
  intro e
  induction e with
  | str s =>
    intro ws hws fuel sk at_ la tr c tr' c' ps hc h
    simp only [strAlts, Option.some.injEq] at hws
    subst hws
    exact ⟨s, List.mem_singleton.mpr rfl, (txt_of_str hc (str_inv g h).1).1⟩
  | choice a b _ ihb =>
    intro ws hws fuel sk at_ la tr c tr' c' ps hc h
    cases a with
    | str s =>
      simp only [strAlts] at hws
      cases hb : strAlts b with
      | none => simp [hb] at hws
      | some wb =>
        simp only [hb, Option.map_some, Option.some.injEq] at hws
        subst hws
        obtain ⟨f, tr1, h1 | h2⟩ := choice_inv g h
        · exact ⟨s, List.mem_cons_self .., (txt_of_str hc (str_inv g h1).1).1⟩
        · obtain ⟨w, hw, ht⟩ := ihb wb hb hc h2
          exact ⟨w, List.mem_cons_of_mem _ hw, ht⟩
    | _ => simp [strAlts] at hws
  | _ => intro ws hws; simp [strAlts] at hws

end NitroVerif.Peg

namespace NitroVerif.ParseText
open NitroVerif.Peg NitroVerif.Gen NitroVerif.Build

/-! ### the rules, as generated -/

theorem look_OperationType : gList.look R.OperationType =
    some (.normal, .choice (.call R.KEYWORD_query) (.choice (.call R.KEYWORD_mutation) (.call R.KEYWORD_subscription))) := rfl
theorem look_KEYWORD_query : gList.look R.KEYWORD_query =
    some (.atomic, .seq (.str ['q', 'u', 'e', 'r', 'y']) (.not (.call R.NameContinue))) := rfl
theorem look_KEYWORD_mutation : gList.look R.KEYWORD_mutation =
    some (.atomic, .seq (.str ['m', 'u', 't', 'a', 't', 'i', 'o', 'n']) (.not (.call R.NameContinue))) := rfl
theorem look_KEYWORD_subscription : gList.look R.KEYWORD_subscription =
    some (.atomic, .seq (.str ['s', 'u', 'b', 's', 'c', 'r', 'i', 'p', 't', 'i', 'o', 'n']) (.not (.call R.NameContinue))) := rfl
theorem look_EscapedCharacter : gList.look R.EscapedCharacter =
    some (.atomic, .seq (.str ['\\']) (.choice (.str ['"']) (.choice (.str ['\\']) (.choice (.str ['/'])
      (.choice (.str ['b']) (.choice (.str ['f']) (.choice (.str ['n']) (.choice (.str ['r']) (.str ['t']))))))))) := rfl
theorem look_BlockStringValue : gList.look R.BlockStringValue =
    some (.atomic, .seq (.str ['"', '"', '"']) (.seq (.star (.call R.BlockStringCharacter)) (.str ['"', '"', '"']))) := rfl
theorem look_EscapedUnicode4 : gList.look R.EscapedUnicode4 =
    some (.atomic, .seq (.str ['\\', 'u']) (.rep 4 (.call R.ASCII_HEX_DIGIT))) := rfl
theorem look_NormalStringCharacter : gList.look R.NormalStringCharacter =
    some (.atomic, .seq (.not (.choice (.str ['"']) (.choice (.str ['\\']) (.call R.NEWLINE)))) .any) := rfl
theorem look_EscapedUnicodeBrace : gList.look R.EscapedUnicodeBrace =
    some (.compound, .seq (.str ['\\', 'u']) (.seq (.str ['{']) (.seq (.call R.EscapedUnicodeBraceDigits) (.str ['}'])))) := rfl
theorem look_EscapedUnicodeBraceDigits : gList.look R.EscapedUnicodeBraceDigits =
    some (.atomic, .plus (.call R.ASCII_HEX_DIGIT)) := rfl

/-- the text of a pair -/
abbrev textOf (inp : List Char) (p : Pair) : List Char := slice inp p.start p.stop

/-- a call of a keyword rule `@{ "w" ~ !x }` consumes exactly `w` -/
theorem kw_txt {inp : List Char} {r : RuleId} {w : List Char} {x : Expr} {fuel at_ tr c tr' c' ps}
    (hl : gList.look r = some (.atomic, .seq (.str w) (.not x))) (hc : CurOk inp c)
    (h : callRule gList fuel r at_ .none tr c = (tr', .ok c' ps)) : Txt inp c.pos c'.pos w := by
  obtain ⟨f, tr0, tr1, ps0, hb, _⟩ := rule_inv gList hl h
  simp only [bodyCfg] at hb
  obtain ⟨f', tr2, c1, p1, tr3, p3, h1, h2, _⟩ := seq_inv gList (Or.inl rfl) hb
  obtain ⟨ht, _⟩ := txt_of_str hc (str_inv gList h1).1
  obtain ⟨rfl, _⟩ := not_inv gList h2
  exact ht

/-- `OperationType`: the text of the pair is one of the three keywords -/
theorem operationType_text {inp : List Char} {p : Pair} (hw : Wit gList inp p) (hr : p.rule = R.OperationType) :
    textOf inp p = ['q', 'u', 'e', 'r', 'y'] ∨ textOf inp p = ['m', 'u', 't', 'a', 't', 'i', 'o', 'n'] ∨
    textOf inp p = ['s', 'u', 'b', 's', 'c', 'r', 'i', 'p', 't', 'i', 'o', 'n'] := by
  obtain ⟨at_, fuel, tr0, tr1, c, c', _, hc, hc', hs, he, hb⟩ := hw.body (hr ▸ look_OperationType)
  unfold textOf
  rw [← hs, ← he]
  obtain ⟨f, tr2, h1 | h2⟩ := choice_inv gList hb
  · obtain ⟨f', h1⟩ := call_inv gList h1
    exact Or.inl (kw_txt look_KEYWORD_query hc h1).slice
  · obtain ⟨f2, tr3, h3 | h4⟩ := choice_inv gList h2
    · obtain ⟨f', h3⟩ := call_inv gList h3
      exact Or.inr (Or.inl (kw_txt look_KEYWORD_mutation hc h3).slice)
    · obtain ⟨f', h4⟩ := call_inv gList h4
      exact Or.inr (Or.inr (kw_txt look_KEYWORD_subscription hc h4).slice)

theorem operationType_ok {inp : List Char} {p : Pair} (hw : Wit gList inp p) (hr : p.rule = R.OperationType) :
    ∃ k, strToOperationType (asStr (Ctx.spec inp) p) = .ok k := by
  have : asStr (Ctx.spec inp) p = textOf inp p := rfl
  rw [this]
  rcases operationType_text hw hr with h | h | h <;> rw [h]
  · exact ⟨.query, by simp [strToOperationType]⟩
  · exact ⟨.mutation, by simp [strToOperationType]⟩
  · exact ⟨.subscription, by simp [strToOperationType]⟩

/-- `EscapedCharacter`: the text is one of the eight two-character escapes, which `escapedChar` decodes -/
theorem escapedCharacter_ok {inp : List Char} {p : Pair} (hw : Wit gList inp p) (hr : p.rule = R.EscapedCharacter) :
    ∃ ch, escapedChar (asStr (Ctx.spec inp) p) = .ok ch := by
  have e0 : asStr (Ctx.spec inp) p = textOf inp p := rfl
  rw [e0]
  obtain ⟨at_, fuel, tr0, tr1, c, c', _, hc, hc', hs, he, hb⟩ := hw.body (hr ▸ look_EscapedCharacter)
  simp only [bodyCfg] at hb
  obtain ⟨f, tr2, c1, p1, tr3, p3, h1, h2, _⟩ := seq_inv gList (Or.inl rfl) hb
  obtain ⟨t1, hc1⟩ := txt_of_str hc (str_inv gList h1).1
  obtain ⟨w, hw', t2⟩ := strAlts_inv gList _ _ rfl hc1 h2
  have ht := (t1.append t2).slice
  unfold textOf
  rw [← hs, ← he, ht]
  simp only [List.mem_cons, List.not_mem_nil, or_false] at hw'
  rcases hw' with rfl | rfl | rfl | rfl | rfl | rfl | rfl | rfl <;> exact ⟨_, rfl⟩

/-- `BlockStringValue`: at least the two `"""` delimiters -/
theorem blockString_len {inp : List Char} {p : Pair} (hw : Wit gList inp p) (hr : p.rule = R.BlockStringValue) :
    6 ≤ (asStr (Ctx.spec inp) p).length := by
  have e0 : asStr (Ctx.spec inp) p = textOf inp p := rfl
  rw [e0]
  obtain ⟨at_, fuel, tr0, tr1, c, c', _, hc, hc', hs, he, hb⟩ := hw.body (hr ▸ look_BlockStringValue)
  simp only [bodyCfg] at hb
  obtain ⟨f, tr2, c1, p1, tr3, p3, h1, h2, _⟩ := seq_inv gList (Or.inl rfl) hb
  obtain ⟨t1, hc1⟩ := txt_of_str hc (str_inv gList h1).1
  obtain ⟨f2, tr4, c2, p4, tr5, p5, h3, h4, _⟩ := seq_inv gList (Or.inl rfl) h2
  obtain ⟨hc2, hle⟩ := eval_curOk gList hc1 h3
  obtain ⟨t3, _⟩ := txt_of_str hc2 (str_inv gList h4).1
  have l1 := t1.1
  have l3 := t3.1
  have hb' := t3.2.1
  simp only [List.length_cons, List.length_nil] at l1 l3
  unfold textOf
  rw [← hs, ← he]
  simp only [slice, List.length_take, List.length_drop]
  omega

/-- `EscapedUnicode4`: at least `\u` -/
theorem unicode4_len {inp : List Char} {p : Pair} (hw : Wit gList inp p) (hr : p.rule = R.EscapedUnicode4) :
    2 ≤ (asStr (Ctx.spec inp) p).length := by
  have e0 : asStr (Ctx.spec inp) p = textOf inp p := rfl
  rw [e0]
  obtain ⟨at_, fuel, tr0, tr1, c, c', _, hc, hc', hs, he, hb⟩ := hw.body (hr ▸ look_EscapedUnicode4)
  simp only [bodyCfg] at hb
  obtain ⟨f, tr2, c1, p1, tr3, p3, h1, h2, _⟩ := seq_inv gList (Or.inl rfl) hb
  obtain ⟨t1, hc1⟩ := txt_of_str hc (str_inv gList h1).1
  obtain ⟨hc2, hle⟩ := eval_curOk gList hc1 h2
  have l1 := t1.1
  have hb' := hc2.1
  simp only [List.length_cons, List.length_nil] at l1
  unfold textOf
  rw [← hs, ← he]
  simp only [slice, List.length_take, List.length_drop]
  omega

/-- `NormalStringCharacter`: exactly one character -/
theorem normalChar_text {inp : List Char} {p : Pair} (hw : Wit gList inp p) (hr : p.rule = R.NormalStringCharacter) :
    ∃ d, asStr (Ctx.spec inp) p = [d] := by
  have e0 : asStr (Ctx.spec inp) p = textOf inp p := rfl
  rw [e0]
  obtain ⟨at_, fuel, tr0, tr1, c, c', _, hc, hc', hs, he, hb⟩ := hw.body (hr ▸ look_NormalStringCharacter)
  simp only [bodyCfg] at hb
  obtain ⟨f, tr2, c1, p1, tr3, p3, h1, h2, _⟩ := seq_inv gList (Or.inl rfl) hb
  obtain ⟨rfl, _⟩ := not_inv gList h1
  obtain ⟨d, t, _⟩ := txt_of_any hc (any_inv gList h2).1
  unfold textOf
  rw [← hs, ← he]
  exact ⟨d, t.slice⟩

/-- `EscapedUnicodeBrace`: exactly one child, and the child's text is the pair's text without `\u{` and `}` -/
theorem unicodeBrace_child {inp : List Char} {p : Pair} (hw : Wit gList inp p) (hr : p.rule = R.EscapedUnicodeBrace) :
    ∃ d, p.children = [d] ∧
      asStr (Ctx.spec inp) d =
        ((asStr (Ctx.spec inp) p).drop 3).take ((asStr (Ctx.spec inp) p).length - 4) := by
  have e0 : ∀ q, asStr (Ctx.spec inp) q = textOf inp q := fun _ => rfl
  obtain ⟨at_, fuel, tr0, tr1, c, c', _, hc, hc', hs, he, hb⟩ := hw.body (hr ▸ look_EscapedUnicodeBrace)
  simp only [bodyCfg] at hb
  have hna : Atomicity.compound ≠ .nonAtomic := by decide
  obtain ⟨f, tr2, c1, p1, tr3, p3, h1, h2, hp⟩ := seq_inv gList (Or.inl rfl) hb
  obtain ⟨ht1, hp1⟩ := str_inv gList h1
  obtain ⟨t1, hc1⟩ := txt_of_str hc ht1
  obtain ⟨f2, tr4, c2, p4, tr5, p5, h3, h4, hp'⟩ := seq_inv gList (Or.inl rfl) h2
  obtain ⟨ht2, hp4⟩ := str_inv gList h3
  obtain ⟨t2, hc2⟩ := txt_of_str hc1 ht2
  obtain ⟨f3, tr6, c3, p6, tr7, p7, h5, h6, hp''⟩ := seq_inv gList (Or.inl rfl) h4
  obtain ⟨ht4, hp7⟩ := str_inv gList h6
  obtain ⟨f4, h5⟩ := call_inv gList h5
  obtain ⟨f5, tr8, tr9, ps0, hbd, hps⟩ := rule_inv gList look_EscapedUnicodeBraceDigits h5
  simp only [bodyCfg] at hbd hps
  obtain ⟨hc3, hle⟩ := eval_curOk gList hc2 hbd
  obtain ⟨t4, _⟩ := txt_of_str hc3 ht4
  have t3 := txt_of_curOk hc2 hc3 hle
  have hps' : p6 = [Pair.mk R.EscapedUnicodeBraceDigits c2.pos c3.pos ps0] := by
    rw [hps]; simp
  refine ⟨Pair.mk R.EscapedUnicodeBraceDigits c2.pos c3.pos ps0, ?_, ?_⟩
  · rw [hp, hp', hp'', hp1, hp4, hp7, hps']; rfl
  · have hall := (((t1.append t2).append t3).append t4).slice
    rw [e0, e0]
    unfold textOf
    rw [← hs, ← he, hall]
    simp only [Pair.start, Pair.stop]
    have hl := t3.length
    simp only [List.cons_append, List.nil_append, List.drop_succ_cons, List.drop_zero,
      List.length_cons, List.length_append, List.length_nil]
    rw [show (slice inp c2.pos c3.pos).length + (0 + 1) + 1 + 1 + 1 - 4 = (slice inp c2.pos c3.pos).length by omega]
    simp

end NitroVerif.ParseText
