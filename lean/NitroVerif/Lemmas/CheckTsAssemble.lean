/-
Helper lemmas for C05, part 5 (completeness direction): each loop of the checker is empty under the
conditions the specification's rules provide.
-/
import NitroVerif.Lemmas.CheckTsComplete
namespace NitroVerif.CheckTs
open NitroVerif.Gql NitroVerif.ValidTs

theorem lastDirectiveDef_eq_directiveDef {T : TsDoc} (hu : uniqueDirectiveNames T = true) (n : Name) :
    lastDirectiveDef? T n = (Schema.mk T).directiveDef? n := by
  unfold lastDirectiveDef? Schema.directiveDef?
  exact find?_reverse_of_noDup (fun (t : DirectiveDef) => t.name) n (Schema.directiveDefs ⟨T⟩) hu

theorem reserved_false_of {n : Name} (h : (!startsWithUU n) = true) : reserved n = false := by
  rw [reserved_eq_startsWithUU]; simpa using h

theorem checkArgsDef_eq_nil {S : Schema} {args : List InputValueDef}
    (hnd : noDup (args.map (·.name)) = true)
    (h : ∀ a ∈ args, reserved a.name = false ∧ checkInputValueType S a.ty = [] ∧
      checkDirectives S "ARGUMENT_DEFINITION" a.dirs = []) : checkArgsDef S args = [] := by
  unfold checkArgsDef
  apply loopSeen_eq_nil _ _ _ _ ((noDup_iff_nodup _).mp hnd) (by intro x _ hin; cases hin)
  intro a ha
  obtain ⟨h1, h2, h3⟩ := h a ha
  simp [h1, h2, h3]

theorem checkFields_eq_nil {S : Schema} {fields : List FieldDef}
    (hnd : noDup (fields.map (·.name)) = true)
    (h : ∀ f ∈ fields, reserved f.name = false ∧ checkDirectives S "FIELD_DEFINITION" f.dirs = [] ∧
      checkOutputFieldType S f.ty = [] ∧ checkArgsDef S f.args = []) : checkFields S fields = [] := by
  unfold checkFields
  apply loopSeen_eq_nil _ _ _ _ ((noDup_iff_nodup _).mp hnd) (by intro x _ hin; cases hin)
  intro f hf
  obtain ⟨h1, h2, h3, h4⟩ := h f hf
  simp [h1, h2, h3, h4]

theorem checkInputFields_eq_nil {S : Schema} {inputs : List InputValueDef}
    (hnd : noDup (inputs.map (·.name)) = true)
    (h : ∀ a ∈ inputs, reserved a.name = false ∧ checkInputValueType S a.ty = [] ∧
      checkDirectives S "INPUT_FIELD_DEFINITION" a.dirs = []) : checkInputFields S inputs = [] := by
  unfold checkInputFields
  apply loopSeen_eq_nil _ _ _ _ ((noDup_iff_nodup _).mp hnd) (by intro x _ hin; cases hin)
  intro a ha
  obtain ⟨h1, h2, h3⟩ := h a ha
  simp [h1, h2, h3]

theorem checkEnumValues_eq_nil {S : Schema} {values : List EnumValueDef}
    (hnd : noDup (values.map (·.name)) = true)
    (h : ∀ v ∈ values, reserved v.name = false ∧ checkDirectives S "ENUM_VALUE" v.dirs = []) :
    checkEnumValues S values = [] := by
  unfold checkEnumValues
  apply loopSeen_eq_nil _ _ _ _ ((noDup_iff_nodup _).mp hnd) (by intro x _ hin; cases hin)
  intro v hv
  obtain ⟨h1, h2⟩ := h v hv
  simp [h1, h2]

theorem checkUnionMembers_eq_nil {T : TsDoc} {members : List (Name × Pos)}
    (hnd : noDup (members.map (·.1)) = true)
    (h : ∀ m ∈ members, ∃ d, lastTypeDef? T m.1 = some d ∧ d.kind = .object) :
    checkUnionMembers T members = [] := by
  unfold checkUnionMembers
  apply loopSeen_eq_nil _ _ _ _ ((noDup_iff_nodup _).mp hnd) (by intro x _ hin; cases hin)
  intro m hm
  obtain ⟨d, h1, h2⟩ := h m hm
  simp [h1, h2]

theorem checkValidImpl_eq_nil {S : Schema} {namePos : Pos} {fields : List FieldDef}
    {implements : List (Name × Pos)} {iface : TypeDef}
    (h1 : ∀ imp ∈ iface.implements, implements.any (·.1 == imp.1) = true)
    (h2 : ∀ impF ∈ iface.fields, ∃ f, fields.find? (·.name == impF.name) = some f ∧
      (∀ ia ∈ impF.args, ∃ fa, f.args.find? (·.name == ia.name) = some fa ∧ sameType fa.ty ia.ty = true) ∧
      (∀ fa ∈ f.args, impF.args.any (·.name == fa.name) = true ∨ requiredArg fa = false) ∧
      isSubtype S f.ty impF.ty ≠ some false) :
    checkValidImpl S namePos fields implements iface = [] := by
  simp only [checkValidImpl, List.append_eq_nil_iff, List.map_eq_nil_iff, List.filter_eq_nil_iff,
    List.flatMap_eq_nil_iff]
  refine ⟨?_, ?_⟩
  · intro imp himp; simp [h1 imp himp]
  · intro impF hF
    obtain ⟨f, hfind, ha, hb, hc⟩ := h2 impF hF
    rw [hfind]
    simp only [List.append_eq_nil_iff, List.map_eq_nil_iff, List.filter_eq_nil_iff, List.flatMap_eq_nil_iff]
    refine ⟨⟨?_, ?_⟩, ?_⟩
    · intro ia hia
      obtain ⟨fa, hfa, hs⟩ := ha ia hia
      rw [hfa]
      simp [same_eq_sameType, hs]
    · intro fa hfa
      simp only [Bool.and_eq_true, not_and, Bool.not_eq_true]
      intro hall
      rcases hb fa hfa with h | h
      · obtain ⟨x, hx, hxe⟩ := List.any_eq_true.mp h
        have := List.all_eq_true.mp hall x hx
        simp at this hxe
        exact absurd hxe this
      · rw [required_eq_requiredArg]; exact h
    · cases hsub : isSubtype S f.ty impF.ty with
      | none => rfl
      | some b =>
        cases b with
        | true => rfl
        | false => exact absurd hsub hc

end NitroVerif.CheckTs
