import NitroVerif.Model.SourceMap
import NitroVerif.Spec.SourceMap
/-! Helper lemmas for C06 (no property statements here). -/
namespace NitroVerif.SourceMap
open NitroVerif.SourceMapSpec (strictGo strictSegments b64Val vlqDecodeNat fromVlqSigned vlqDecode vlqDecodeMany Segment DState applyFields closeSeg decodeGo decodeMappings)

/-! ### VLQ -/

theorem vlqRest_zero : vlqRest 0 = [] := by
  unfold vlqRest; simp

theorem vlqRest_pos {v : Nat} (h : v ≠ 0) :
    vlqRest v = (if v / 32 > 0 then 32 + v % 32 else v % 32) :: vlqRest (v / 32) := by
  rw [vlqRest]; simp [h]

/-- the continuation digits decode to the value they were cut from -/
theorem vlqDecodeNat_rest (v : Nat) : ∀ (acc mul : Nat) (rest : List Nat), v ≠ 0 →
    vlqDecodeNat acc mul (vlqRest v ++ rest) = some (acc + v * mul, rest) := by
  induction v using Nat.strongRecOn with
  | _ v ih =>
    intro acc mul rest hv
    rw [vlqRest_pos hv]
    by_cases hq : v / 32 > 0
    · have hlt : v / 32 < v := by omega
      have hne : v / 32 ≠ 0 := by omega
      simp only [hq, if_true, List.cons_append]
      have h64 : ¬ (64 ≤ 32 + v % 32) := by omega
      have h32 : 32 ≤ 32 + v % 32 := by omega
      have hm : (32 + v % 32) % 32 = v % 32 := by omega
      rw [vlqDecodeNat]
      simp only [h64, h32, if_true, if_false, hm]
      rw [ih (v / 32) hlt _ _ _ hne]
      congr 2
      have hd := Nat.div_add_mod v 32
      calc acc + v % 32 * mul + v / 32 * (mul * 32)
          = acc + (32 * (v / 32) + v % 32) * mul := by
            rw [Nat.add_mul, Nat.mul_comm mul 32, ← Nat.mul_assoc, Nat.mul_comm (v / 32) 32]; omega
        _ = acc + v * mul := by rw [hd]
    · have hq0 : v / 32 = 0 := by omega
      have hd : (if v / 32 > 0 then 32 + v % 32 else v % 32) = v := by rw [if_neg hq]; omega
      rw [hd, hq0, vlqRest_zero]
      simp only [List.cons_append, List.nil_append]
      have h64 : ¬ (64 ≤ v) := by omega
      have h32 : ¬ (32 ≤ v) := by omega
      rw [vlqDecodeNat]
      simp only [h64, h32, if_false]

theorem vlqRest_digits (v : Nat) : ∀ d ∈ vlqRest v, d < 64 := by
  induction v using Nat.strongRecOn with
  | _ v ih =>
    intro d hd
    by_cases hv : v = 0
    · subst hv; simp [vlqRest_zero] at hd
    · rw [vlqRest_pos hv] at hd
      simp only [List.mem_cons] at hd
      rcases hd with rfl | hd
      · split <;> omega
      · exact ih (v / 32) (by omega) d hd

/-- shape of the continuation digits: all but the last carry the continuation bit -/
theorem vlqRest_shape (v : Nat) : v ≠ 0 →
    ∃ init last, vlqRest v = init ++ [last] ∧ last < 32 ∧ ∀ d ∈ init, 32 ≤ d ∧ d < 64 := by
  induction v using Nat.strongRecOn with
  | _ v ih =>
    intro hv
    rw [vlqRest_pos hv]
    by_cases hq : v / 32 > 0
    · obtain ⟨init, last, e, hl, hi⟩ := ih (v / 32) (by omega) (by omega)
      refine ⟨(32 + v % 32) :: init, last, by simp [hq, e], hl, ?_⟩
      intro d hd
      simp only [List.mem_cons] at hd
      rcases hd with rfl | hd
      · omega
      · exact hi d hd
    · have hq0 : v / 32 = 0 := by omega
      refine ⟨[], v % 32, by simp [hq0, vlqRest_zero], by omega, by simp⟩

theorem vlqEncode_ne_nil (n : Int) : vlqEncode n ≠ [] := by
  unfold vlqEncode; simp only; split <;> simp

theorem vlqEncode_digits (n : Int) : ∀ d ∈ vlqEncode n, d < 64 := by
  intro d hd
  unfold vlqEncode at hd
  simp only at hd
  split at hd
  · simp only [List.mem_singleton] at hd
    subst hd; split <;> omega
  · simp only [List.mem_cons] at hd
    rcases hd with rfl | hd
    · split <;> omega
    · exact vlqRest_digits _ d hd

theorem fromVlqSigned_even (v : Nat) : fromVlqSigned (0 + 2 * v) = (v : Int) := by
  unfold fromVlqSigned
  have h1 : ¬ ((0 + 2 * v) % 2 = 1) := by omega
  have h2 : (0 + 2 * v) / 2 = v := by omega
  simp only [h1, h2, if_false]

theorem fromVlqSigned_odd (v : Nat) (h : v ≠ 0) : fromVlqSigned (1 + 2 * v) = -(v : Int) := by
  unfold fromVlqSigned
  have h1 : (1 + 2 * v) % 2 = 1 := by omega
  have h2 : (1 + 2 * v) / 2 = v := by omega
  simp only [h1, h2, h, if_true, if_false]

/-- the digits assemble to sign + 2·|n| -/
theorem vlqDecodeNat_encode (n : Int) (rest : List Nat) :
    vlqDecodeNat 0 1 (vlqEncode n ++ rest) = some ((if n < 0 then 1 else 0) + 2 * n.natAbs, rest) := by
  unfold vlqEncode
  simp only
  obtain ⟨sg, hsg, hle⟩ : ∃ sg : Nat, (if n < 0 then 1 else 0 : Nat) = sg ∧ sg ≤ 1 :=
    ⟨_, rfl, by split <;> omega⟩
  rw [hsg]
  by_cases h16 : n.natAbs < 16
  · simp only [h16, if_true, List.cons_append, List.nil_append]
    rw [vlqDecodeNat]
    have h64 : ¬ (64 ≤ sg + 2 * n.natAbs) := by omega
    have h32 : ¬ (32 ≤ sg + 2 * n.natAbs) := by omega
    simp only [h64, h32, if_false]
    congr 2; omega
  · simp only [h16, if_false, List.cons_append]
    have hne : n.natAbs / 16 ≠ 0 := by omega
    rw [vlqDecodeNat]
    have h64 : ¬ (64 ≤ sg + 2 * (n.natAbs % 16) + 32) := by omega
    have h32 : 32 ≤ sg + 2 * (n.natAbs % 16) + 32 := by omega
    have hm : (sg + 2 * (n.natAbs % 16) + 32) % 32 = sg + 2 * (n.natAbs % 16) := by omega
    simp only [h64, h32, if_true, if_false, hm]
    rw [vlqDecodeNat_rest _ _ _ _ hne]
    congr 2; omega

/-- decoding the digits of `n` gives `n` back, whatever follows -/
theorem vlqDecode_encode (n : Int) (rest : List Nat) :
    vlqDecode (vlqEncode n ++ rest) = some (n, rest) := by
  unfold vlqDecode
  rw [vlqDecodeNat_encode]
  by_cases hneg : n < 0
  · simp only [hneg, if_true]
    rw [fromVlqSigned_odd _ (by omega)]
    congr 2; omega
  · simp only [hneg, if_false]
    rw [fromVlqSigned_even]
    congr 2; omega

/-! ### base64 table -/

theorem b64_table : ∀ d, d < 64 → (b64Val (b64Char d) = some d ∧ b64Char d ≠ ';' ∧ b64Char d ≠ ',') := by
  decide

/-! ### several numbers in a row -/

theorem vlqDecodeMany_flat (ns : List Int) : ∀ f, ns.length ≤ f →
    vlqDecodeMany f (ns.flatMap vlqEncode) = some ns := by
  induction ns with
  | nil => intro f _; cases f <;> simp [vlqDecodeMany]
  | cons n ns ih =>
    intro f hf
    cases f with
    | zero => simp at hf
    | succ f =>
      have hne : (vlqEncode n ++ ns.flatMap vlqEncode).isEmpty = false := by
        have := vlqEncode_ne_nil n
        cases h : vlqEncode n with
        | nil => exact absurd h this
        | cons a l => simp
      simp only [List.flatMap_cons, vlqDecodeMany, hne, vlqDecode_encode]
      rw [ih f (by simpa using hf)]
      simp

theorem length_le_flatMap_vlq (ns : List Int) : ns.length ≤ (ns.flatMap vlqEncode).length := by
  induction ns with
  | nil => simp
  | cons n ns ih =>
    have : 1 ≤ (vlqEncode n).length := by
      have := vlqEncode_ne_nil n
      cases h : vlqEncode n with
      | nil => exact absurd h this
      | cons a l => simp
    simp only [List.flatMap_cons, List.length_append, List.length_cons]
    omega

theorem flatMap_vlq_digits (ns : List Int) : ∀ d ∈ ns.flatMap vlqEncode, d < 64 := by
  intro d hd
  simp only [List.mem_flatMap] at hd
  obtain ⟨n, _, hn⟩ := hd
  exact vlqEncode_digits n d hn

/-! ### the mapping writer against the reference decoder -/

/-- the segment the decoder must produce for an entry: `as isize` of each field -/
def segOf (e : Entry) : Segment :=
  ⟨toIsize e.genCol, some (toIsize e.src, toIsize e.origLine, toIsize e.origCol), e.name.map toIsize⟩

/-- entries grouped by generated line, starting on line `L` whose segments so far are `line` -/
def groupFrom (L : Nat) (line : List Segment) : List Entry → List (List Segment)
  | [] => [line]
  | e :: es =>
    if e.genLine = L then groupFrom L (line ++ [segOf e]) es
    else line :: (List.replicate (e.genLine - L - 1) [] ++ groupFrom e.genLine [segOf e] es)

/-- generated lines never decrease, starting from `L` -/
def Mono (L : Nat) : List Entry → Prop
  | [] => True
  | e :: es => L ≤ e.genLine ∧ Mono e.genLine es

/-- the VLQ fields `add_entry` writes for `e` in state `st` -/
def fieldsOf (st : MState) (e : Entry) : List Int :=
  [ (if st.lastGenLine != e.genLine then toIsize e.genCol else toIsize e.genCol - toIsize st.lastGenCol),
    toIsize e.src - toIsize st.lastSrc,
    toIsize e.origLine - toIsize st.lastOrigLine,
    toIsize e.origCol - toIsize st.lastOrigCol ]
  ++ (match e.name with
      | some n => [toIsize n - toIsize st.lastName]
      | none => [])

theorem emit_eq (st : MState) (e : Entry) :
    emit st e = List.replicate (e.genLine - st.lastGenLine) ';'
      ++ (if st.lastGenLine != e.genLine then [] else [','])
      ++ ((fieldsOf st e).flatMap vlqEncode).map b64Char := by
  unfold emit fieldsOf vlqStr
  cases e.name <;> cases (st.lastGenLine != e.genLine) <;>
    simp [List.flatMap_cons, List.map_append, List.append_assoc]

/-- what `add_entry` appends for a list of entries, as a function of the `last_*` fields -/
def encodeFrom (st : MState) : List Entry → List Char
  | [] => []
  | e :: es => emit st e ++ encodeFrom (addEntry st e) es

theorem foldl_addEntry_buf (es : List Entry) : ∀ st : MState,
    (es.foldl addEntry st).buf = st.buf ++ encodeFrom st es := by
  induction es with
  | nil => intro st; simp [encodeFrom]
  | cons e es ih =>
    intro st
    simp only [List.foldl_cons, encodeFrom]
    rw [ih]
    simp [addEntry, List.append_assoc]

theorem foldl_addEntry_log (es : List Entry) : ∀ st : MState,
    (es.foldl addEntry st).log = st.log ++ es := by
  induction es with
  | nil => intro st; simp
  | cons e es ih =>
    intro st
    simp only [List.foldl_cons]
    rw [ih]
    simp [addEntry, List.append_assoc]

/-- reading the base64 characters of digits appends the digits to the open segment -/
theorem decodeGo_digits (ds : List Nat) : (∀ d ∈ ds, d < 64) →
    ∀ (st : DState) (seg : List Nat) (line : List Segment) (rest : List Char),
    decodeGo st seg line (ds.map b64Char ++ rest) = decodeGo st (seg ++ ds) line rest := by
  induction ds with
  | nil => intro _ st seg line rest; simp
  | cons d ds ih =>
    intro h st seg line rest
    obtain ⟨h1, h2, h3⟩ := b64_table d (h d (by simp))
    simp only [List.map_cons, List.cons_append, decodeGo, h2, h3, if_false, h1]
    rw [ih (fun x hx => h x (by simp [hx]))]
    simp [List.append_assoc]

/-- the decoder's running values agree with the writer's `last_*` fields (all but the generated column) -/
def SyncO (st : MState) (d : DState) : Prop :=
  d.src = toIsize st.lastSrc ∧ d.origLine = toIsize st.lastOrigLine ∧
  d.origCol = toIsize st.lastOrigCol ∧ d.name = toIsize st.lastName

theorem closeSeg_nil (d : DState) (line : List Segment) : closeSeg d [] line = some (d, line) := by
  simp [closeSeg]

/-- the decoder state after the segment of `e` -/
def dAfter (d : DState) (e : Entry) : DState :=
  ⟨toIsize e.genCol, toIsize e.src, toIsize e.origLine, toIsize e.origCol,
    match e.name with
    | some n => toIsize n
    | none => d.name⟩

theorem applyFields_entry (st : MState) (e : Entry) (d : DState)
    (hs : SyncO st d)
    (hg : d.genCol = if st.lastGenLine != e.genLine then 0 else toIsize st.lastGenCol) :
    applyFields d (fieldsOf st e) = some (dAfter d e, segOf e) := by
  obtain ⟨h1, h2, h3, h4⟩ := hs
  have hc : d.genCol + (if st.lastGenLine != e.genLine then toIsize e.genCol
      else toIsize e.genCol - toIsize st.lastGenCol) = toIsize e.genCol := by
    rw [hg]
    by_cases hb : (st.lastGenLine != e.genLine) = true <;> simp only [hb, if_true, if_false, Bool.false_eq_true] <;> omega
  have hsrc : d.src + (toIsize e.src - toIsize st.lastSrc) = toIsize e.src := by omega
  have hl : d.origLine + (toIsize e.origLine - toIsize st.lastOrigLine) = toIsize e.origLine := by omega
  have hcol : d.origCol + (toIsize e.origCol - toIsize st.lastOrigCol) = toIsize e.origCol := by omega
  unfold fieldsOf segOf dAfter
  cases hn : e.name with
  | none =>
    simp only [List.append_nil, applyFields, hc, hsrc, hl, hcol, Option.map_none]
  | some n =>
    have hnm : d.name + (toIsize n - toIsize st.lastName) = toIsize n := by omega
    simp only [List.cons_append, List.nil_append, applyFields, hc, hsrc, hl, hcol, hnm, Option.map_some]

theorem syncO_after (st : MState) (e : Entry) (d : DState) (hs : SyncO st d) :
    SyncO (addEntry st e) (dAfter d e) := by
  obtain ⟨h1, h2, h3, h4⟩ := hs
  unfold SyncO addEntry dAfter
  refine ⟨rfl, rfl, rfl, ?_⟩
  cases e.name <;> simp [h4]

/-- closing the segment written for `e` yields `segOf e` and keeps the two sides in step -/
theorem closeSeg_entry (st : MState) (e : Entry) (d : DState) (line : List Segment)
    (hs : SyncO st d)
    (hg : d.genCol = if st.lastGenLine != e.genLine then 0 else toIsize st.lastGenCol) :
    closeSeg d ((fieldsOf st e).flatMap vlqEncode) line = some (dAfter d e, line ++ [segOf e]) := by
  have hne : ((fieldsOf st e).flatMap vlqEncode).isEmpty = false := by
    have hl := length_le_flatMap_vlq (fieldsOf st e)
    have : 4 ≤ (fieldsOf st e).length := by unfold fieldsOf; cases e.name <;> simp
    cases hx : (fieldsOf st e).flatMap vlqEncode with
    | nil => rw [hx] at hl; simp only [List.length_nil] at hl; omega
    | cons a l => simp
  unfold closeSeg
  simp only [hne, Bool.false_eq_true, if_false]
  rw [vlqDecodeMany_flat _ _ (length_le_flatMap_vlq _)]
  simp only [applyFields_entry st e d hs hg]

theorem decodeGo_semis (m : Nat) (d : DState) (hd : d.genCol = 0) (rest : List Char) :
    decodeGo d [] [] (List.replicate m ';' ++ rest) =
      (decodeGo d [] [] rest).map (fun ls => List.replicate m [] ++ ls) := by
  induction m with
  | zero => simp
  | succ m ih =>
    have hd' : ({ d with genCol := 0 } : DState) = d := by cases d; simp at hd; subst hd; rfl
    simp only [List.replicate_succ, List.cons_append, decodeGo, if_true, closeSeg_nil, hd', ih]
    cases decodeGo d [] [] rest <;> simp

/-- Main invariant: if closing the open segment brings the decoder in step with the writer, then
    decoding everything the writer emits from here gives the remaining entries grouped by line. -/
theorem decodeGo_encodeFrom (es : List Entry) :
    ∀ (st : MState) (d : DState) (seg : List Nat) (line : List Segment) (d' : DState) (line' : List Segment),
    Mono st.lastGenLine es →
    closeSeg d seg line = some (d', line') →
    SyncO st d' → d'.genCol = toIsize st.lastGenCol →
    decodeGo d seg line (encodeFrom st es) = some (groupFrom st.lastGenLine line' es) := by
  induction es with
  | nil =>
    intro st d seg line d' line' _ hc _ _
    simp [encodeFrom, decodeGo, hc, groupFrom]
  | cons e es ih =>
    intro st d seg line d' line' hm hc hs hg
    obtain ⟨hle, hm'⟩ := hm
    have hdig := flatMap_vlq_digits (fieldsOf st e)
    have hL : (addEntry st e).lastGenLine = e.genLine := rfl
    have hC : (addEntry st e).lastGenCol = e.genCol := rfl
    simp only [encodeFrom, emit_eq]
    by_cases hsame : e.genLine = st.lastGenLine
    · -- same generated line: ',' then the segment
      have hb : (st.lastGenLine != e.genLine) = false := by simp [hsame]
      have hk : e.genLine - st.lastGenLine = 0 := by omega
      simp only [hb, hk, List.replicate_zero, List.nil_append, Bool.false_eq_true, if_false,
        List.cons_append]
      have hne : ¬ ((',' : Char) = ';') := by decide
      simp only [decodeGo, hne, if_false, if_true, hc]
      rw [decodeGo_digits _ hdig, List.nil_append]
      have hcl := closeSeg_entry st e d' line' hs (by simp [hb, hg])
      have := ih (addEntry st e) d' _ line' _ _ (by rw [hL]; exact hm') hcl (syncO_after st e d' hs)
        (by rw [hC]; rfl)
      rw [this, hL]
      simp [groupFrom, hsame]
    · -- a later generated line: k ≥ 1 semicolons, then the segment with an absolute column
      have hb : (st.lastGenLine != e.genLine) = true := by
        simp only [bne_iff_ne, ne_eq]; omega
      obtain ⟨k, hk⟩ : ∃ k, e.genLine - st.lastGenLine = k + 1 := ⟨e.genLine - st.lastGenLine - 1, by omega⟩
      simp only [hb, hk, if_true, List.append_nil, List.replicate_succ, List.cons_append, List.append_assoc]
      simp only [decodeGo, if_true, hc]
      have hd0 : ({ d' with genCol := 0 } : DState).genCol = 0 := rfl
      rw [decodeGo_semis k _ hd0, decodeGo_digits _ hdig, List.nil_append]
      have hs0 : SyncO st { d' with genCol := 0 } := hs
      have hcl := closeSeg_entry st e { d' with genCol := 0 } [] hs0 (by simp [hb])
      have := ih (addEntry st e) { d' with genCol := 0 } _ [] _ _ (by rw [hL]; exact hm') hcl
        (syncO_after st e _ hs0) (by rw [hC]; rfl)
      rw [this, hL]
      have hk' : e.genLine - st.lastGenLine - 1 = k := by omega
      simp [groupFrom, hsame, hk']

/-! ### name mapper -/

/-- every cached pair points at its own name in the names table -/
def NInv (st : NState) : Prop := ∀ x ∈ st.cache, st.names[x.2]? = some x.1

theorem cacheGet_mem (cache : List (List Char × Nat)) (k : List Char) (i : Nat) :
    cacheGet cache k = some i → (k, i) ∈ cache := by
  induction cache with
  | nil => simp [cacheGet]
  | cons x rest ih =>
    obtain ⟨k', v⟩ := x
    unfold cacheGet
    by_cases h : k' = k
    · simp only [h, if_true, Option.some.injEq]; intro hv; subst hv; simp
    · simp only [h, if_false]; intro hr; exact List.mem_cons_of_mem _ (ih hr)

theorem getElem?_append_some {α} (l suf : List α) (i : Nat) (a : α) (h : l[i]? = some a) :
    (l ++ suf)[i]? = some a := by
  have hi : i < l.length := by
    cases hlt : decide (i < l.length) with
    | true => exact of_decide_eq_true hlt
    | false =>
      have : l.length ≤ i := by have := of_decide_eq_false hlt; omega
      rw [List.getElem?_eq_none this] at h; cases h
  rw [List.getElem?_append_left hi]; exact h

theorem mapName_spec (p : Policy) (hp : p.Sound) (st : NState) (name : List Char) (hinv : NInv st) :
    NInv (mapName p st name).1 ∧ (mapName p st name).1.names[(mapName p st name).2]? = some name ∧
    ∃ suf, (mapName p st name).1.names = st.names ++ suf := by
  unfold mapName
  cases hget : cacheGet st.cache name with
  | some i =>
    have hmem := cacheGet_mem _ _ _ hget
    refine ⟨?_, hinv _ hmem, [], by simp⟩
    intro x hx
    exact hinv x (hp _ _ _ hx)
  | none =>
    refine ⟨?_, by simp, [name], rfl⟩
    intro x hx
    have hx' := hp _ _ _ hx
    simp only [List.mem_cons] at hx'
    rcases hx' with rfl | hx'
    · simp
    · exact getElem?_append_some _ _ _ _ (hinv x hx')

theorem lruPolicy_sound : Policy.Sound lruPolicy := by
  intro k l x hx
  unfold lruPolicy at hx
  have := List.mem_of_mem_take hx
  simp only [List.mem_append, List.mem_filter] at this
  rcases this with ⟨h, _⟩ | ⟨h, _⟩ <;> exact h

/-- a sequence of `map_name` calls: final state and the returned indices -/
def mapNames (p : Policy) (st : NState) : List (List Char) → NState × List Nat
  | [] => (st, [])
  | n :: ns =>
    let r := mapName p st n
    let r2 := mapNames p r.1 ns
    (r2.1, r.2 :: r2.2)

theorem mapNames_spec (p : Policy) (hp : p.Sound) (ns : List (List Char)) : ∀ (st : NState), NInv st →
    NInv (mapNames p st ns).1 ∧ (∃ suf, (mapNames p st ns).1.names = st.names ++ suf) ∧
    (mapNames p st ns).2.length = ns.length ∧
    ∀ x ∈ ns.zip (mapNames p st ns).2, (mapNames p st ns).1.names[x.2]? = some x.1 := by
  induction ns with
  | nil => intro st h; exact ⟨h, ⟨[], by simp [mapNames]⟩, rfl, by simp [mapNames]⟩
  | cons n ns ih =>
    intro st h
    obtain ⟨h1, h2, suf1, h3⟩ := mapName_spec p hp st n h
    obtain ⟨i1, ⟨suf2, i2⟩, i3, i4⟩ := ih (mapName p st n).1 h1
    simp only [mapNames]
    refine ⟨i1, ⟨suf1 ++ suf2, by rw [i2, h3, List.append_assoc]⟩, by simp [i3], ?_⟩
    intro x hx
    simp only [List.zip_cons_cons, List.mem_cons] at hx
    rcases hx with rfl | hx
    · rw [i2]; exact getElem?_append_some _ _ _ _ h2
    · exact i4 x hx

/-! ### writer cursor -/

theorem cursorFrom_append (a b : List Char) : ∀ lc, cursorFrom lc (a ++ b) = cursorFrom (cursorFrom lc a) b := by
  induction a with
  | nil => intro lc; rfl
  | cons c a ih =>
    intro lc
    simp only [List.cons_append, cursorFrom]
    split <;> exact ih _

theorem cursorFrom_noNl (s : List Char) : ∀ lc, '\n' ∉ s → cursorFrom lc s = (lc.1, lc.2 + utf16Len s) := by
  induction s with
  | nil => intro lc _; simp [cursorFrom, utf16Len]
  | cons c s ih =>
    intro lc h
    simp only [List.mem_cons, not_or] at h
    have hc : ¬ (c = '\n') := fun e => h.1 e.symm
    simp only [cursorFrom, hc, if_false, utf16Len]
    rw [ih _ h.2]
    simp [Nat.add_assoc]

theorem utf16Len_spaces (n : Nat) : utf16Len (List.replicate n ' ') = n := by
  induction n with
  | zero => rfl
  | succ n ih => simp only [List.replicate_succ, utf16Len, ih]; simp [utf16Char]; omega

theorem splitOn_noSep (sep : Char) (s : List Char) : ∀ l ∈ splitOn sep s, sep ∉ l := by
  induction s with
  | nil => intro l hl; simp [splitOn] at hl; subst hl; simp
  | cons c s ih =>
    intro l hl
    unfold splitOn at hl
    by_cases hc : c = sep
    · simp only [hc, if_true, List.mem_cons] at hl
      rcases hl with rfl | hl
      · simp
      · exact ih l hl
    · simp only [hc, if_false] at hl
      cases hs : splitOn sep s with
      | nil => rw [hs] at hl; simp at hl; subst hl; simp; exact fun e => hc e.symm
      | cons l0 ls =>
        rw [hs] at hl ih
        simp only [List.mem_cons] at hl
        rcases hl with rfl | hl
        · have := ih l0 (by simp)
          simp only [List.mem_cons, not_or]
          exact ⟨fun e => hc e.symm, this⟩
        · exact ih l (by simp [hl])

/-- writer invariant: the tracked (line, column) is the UTF-16 cursor of the emitted buffer, and a
    pending indentation is only ever pending at column 0 -/
def WInv (st : WState) : Prop :=
  cursorOf st.buf = (st.line, st.col) ∧ (st.pending = true → st.col = 0)

theorem winv_flush (st : WState) (h : WInv st) : WInv (flushIndent st) ∧ (flushIndent st).pending = false := by
  unfold flushIndent
  by_cases hp : st.pending = true
  · simp only [hp, if_true]
    refine ⟨⟨?_, by simp⟩, by simp⟩
    show cursorOf (st.buf ++ List.replicate st.indent ' ') = (st.line, st.col + st.indent)
    have h1 : cursorFrom (0, 0) st.buf = (st.line, st.col) := h.1
    unfold cursorOf
    rw [cursorFrom_append, h1, cursorFrom_noNl _ _ (by simp [List.mem_replicate]), utf16Len_spaces]
  · simp only [hp, if_false, Bool.false_eq_true]
    exact ⟨h, by simp_all⟩

theorem winv_writeLine (st : WState) (l : List Char) (hl : '\n' ∉ l) (h : WInv st) : WInv (writeLine st l) := by
  unfold writeLine
  by_cases he : l.isEmpty = true
  · simp only [he, if_true]; exact h
  · simp only [he, if_false, Bool.false_eq_true]
    obtain ⟨hf, hpf⟩ := winv_flush st h
    refine ⟨?_, by intro hp; simp [hpf] at hp⟩
    show cursorOf ((flushIndent st).buf ++ l) = ((flushIndent st).line, (flushIndent st).col + utf16Len l)
    have h1 : cursorFrom (0, 0) (flushIndent st).buf = ((flushIndent st).line, (flushIndent st).col) := hf.1
    unfold cursorOf
    rw [cursorFrom_append, h1, cursorFrom_noNl _ _ hl]

theorem winv_newline (st : WState) (h : WInv st) : WInv (newline st) := by
  refine ⟨?_, fun _ => rfl⟩
  show cursorOf (st.buf ++ ['\n']) = (st.line + 1, 0)
  have h1 : cursorFrom (0, 0) st.buf = (st.line, st.col) := h.1
  unfold cursorOf
  rw [cursorFrom_append, h1]
  simp [cursorFrom]

theorem winv_writeLines (ls : List (List Char)) : ∀ st, (∀ l ∈ ls, '\n' ∉ l) → WInv st → WInv (writeLines st ls) := by
  induction ls with
  | nil => intro st _ h; exact h
  | cons l ls ih =>
    intro st hl h
    exact ih _ (fun x hx => hl x (by simp [hx])) (winv_writeLine _ l (hl l (by simp)) (winv_newline st h))

theorem winv_write (st : WState) (chunk : List Char) (h : WInv st) : WInv (write st chunk) := by
  unfold write
  have hs := splitOn_noSep '\n' chunk
  cases hsp : splitOn '\n' chunk with
  | nil => exact h
  | cons l ls =>
    rw [hsp] at hs
    exact winv_writeLines ls _ (fun x hx => hs x (by simp [hx])) (winv_writeLine st l (hs l (by simp)) h)

theorem winv_wAddEntry (st : WState) (e : Entry) (h : WInv st) : WInv (wAddEntry st e) := h

theorem winv_writeFor (p : Policy) (st st' : WState) (chunk : List Char) (node : Node)
    (h : WInv st) (hr : writeFor p st chunk node = some st') : WInv st' := by
  unfold writeFor at hr
  by_cases hb : node.builtin = true
  · simp only [hb, if_true, Option.some.injEq] at hr; subst hr; exact winv_write _ _ h
  · simp only [hb, if_false, Bool.false_eq_true] at hr
    split at hr
    · cases hr
    · rename_i fileIndex _
      cases hn : node.name with
      | some nm =>
        simp only [hn, Option.some.injEq] at hr
        subst hr
        apply winv_wAddEntry
        apply winv_write
        apply winv_wAddEntry
        exact (winv_flush _ (show WInv { st with names := (mapName p st.names nm).1 } from h)).1
      | none =>
        simp only [hn, Option.some.injEq] at hr
        subst hr
        apply winv_write
        exact winv_wAddEntry _ _ h

theorem winv_step (p : Policy) (st st' : WState) (op : Op) (h : WInv st) (hr : step p st op = some st') : WInv st' := by
  cases op with
  | write c => simp only [step, Option.some.injEq] at hr; subst hr; exact winv_write _ _ h
  | writeFor c n => exact winv_writeFor p st st' c n h hr
  | indent => simp only [step, Option.some.injEq] at hr; subst hr; exact h
  | dedent => simp only [step, Option.some.injEq] at hr; subst hr; exact h
  | setMapper m => simp only [step, Option.some.injEq] at hr; subst hr; exact h

theorem winv_run (p : Policy) (ops : List Op) : ∀ st st', WInv st → run p st ops = some st' → WInv st' := by
  induction ops with
  | nil => intro st st' h hr; simp only [run, Option.some.injEq] at hr; subst hr; exact h
  | cons op ops ih =>
    intro st st' h hr
    simp only [run] at hr
    cases hs : step p st op with
    | none => rw [hs] at hr; cases hr
    | some st1 => rw [hs] at hr; exact ih st1 st' (winv_step p st st1 op h hs) hr

theorem winv_init : WInv WState.init := ⟨rfl, by intro h; cases h⟩

/-! ### what the writer records in the mapping -/

/-- `st'` comes from `st` by emitting text only -/
def Ext (st st' : WState) : Prop :=
  st'.mapping = st.mapping ∧ st.line ≤ st'.line ∧ ∃ x, st'.buf = st.buf ++ x

theorem ext_refl (st : WState) : Ext st st := ⟨rfl, Nat.le_refl _, [], by simp⟩

theorem ext_trans {a b c : WState} (h1 : Ext a b) (h2 : Ext b c) : Ext a c := by
  obtain ⟨m1, l1, x1, b1⟩ := h1
  obtain ⟨m2, l2, x2, b2⟩ := h2
  exact ⟨m2.trans m1, Nat.le_trans l1 l2, x1 ++ x2, by rw [b2, b1, List.append_assoc]⟩

theorem ext_flush (st : WState) : Ext st (flushIndent st) := by
  unfold flushIndent
  split
  · exact ⟨rfl, Nat.le_refl _, _, rfl⟩
  · exact ext_refl st

theorem ext_writeLine (st : WState) (l : List Char) : Ext st (writeLine st l) := by
  unfold writeLine
  split
  · exact ext_refl st
  · exact ext_trans (ext_flush st) ⟨rfl, Nat.le_refl _, _, rfl⟩

theorem ext_newline (st : WState) : Ext st (newline st) := ⟨rfl, Nat.le_succ _, _, rfl⟩

theorem ext_writeLines (ls : List (List Char)) : ∀ st, Ext st (writeLines st ls) := by
  induction ls with
  | nil => intro st; exact ext_refl st
  | cons l ls ih => intro st; exact ext_trans (ext_trans (ext_newline st) (ext_writeLine _ l)) (ih _)

theorem ext_write (st : WState) (chunk : List Char) : Ext st (write st chunk) := by
  unfold write
  split
  · exact ext_refl st
  · exact ext_trans (ext_writeLine st _) (ext_writeLines _ _)

theorem mono_snoc (l : List Entry) : ∀ (L : Nat) (e : Entry), Mono L l → (∀ x ∈ l, x.genLine ≤ e.genLine) →
    L ≤ e.genLine → Mono L (l ++ [e]) := by
  induction l with
  | nil => intro L e _ _ h; exact ⟨h, trivial⟩
  | cons a l ih =>
    intro L e hm hall hle
    exact ⟨hm.1, ih a.genLine e hm.2 (fun x hx => hall x (by simp [hx])) (hall a (by simp))⟩

/-- invariant of the mapping side of the writer -/
def WMInv (st : WState) : Prop :=
  st.mapping = st.mapping.log.foldl addEntry MState.init ∧
  Mono 0 st.mapping.log ∧
  (∀ e ∈ st.mapping.log, e.genLine ≤ st.line) ∧
  (∀ e ∈ st.mapping.log, ∃ pre suf, st.buf = pre ++ suf ∧ cursorOf pre = (e.genLine, e.genCol))

theorem wminv_ext {st st' : WState} (h : WMInv st) (hx : Ext st st') : WMInv st' := by
  obtain ⟨a, b, c, d⟩ := h
  obtain ⟨m, l, x, hb⟩ := hx
  rw [WMInv, m]
  refine ⟨a, b, fun e he => Nat.le_trans (c e he) l, ?_⟩
  intro e he
  obtain ⟨pre, suf, h1, h2⟩ := d e he
  exact ⟨pre, suf ++ x, by rw [hb, h1, List.append_assoc], h2⟩

theorem wminv_add (st : WState) (h : WMInv st) (hw : WInv st) (a b c : Nat) (n : Option Nat) :
    WMInv (wAddEntry st ⟨st.line, st.col, a, b, c, n⟩) := by
  obtain ⟨ha, hb, hc, hd⟩ := h
  refine ⟨?_, ?_, ?_, ?_⟩
  · show addEntry st.mapping _ = (st.mapping.log ++ [_]).foldl addEntry MState.init
    rw [List.foldl_append, ← ha]; rfl
  · show Mono 0 (st.mapping.log ++ [_])
    exact mono_snoc _ 0 _ hb hc (Nat.zero_le _)
  · intro e he
    have he' : e ∈ st.mapping.log ++ [⟨st.line, st.col, a, b, c, n⟩] := he
    simp only [List.mem_append, List.mem_singleton] at he'
    rcases he' with he' | rfl
    · exact hc e he'
    · exact Nat.le_refl _
  · intro e he
    have he' : e ∈ st.mapping.log ++ [⟨st.line, st.col, a, b, c, n⟩] := he
    simp only [List.mem_append, List.mem_singleton] at he'
    rcases he' with he' | rfl
    · exact hd e he'
    · exact ⟨st.buf, [], by simp [wAddEntry], hw.1⟩

theorem wminv_writeFor (p : Policy) (st st' : WState) (chunk : List Char) (node : Node)
    (h : WMInv st) (hw : WInv st) (hr : writeFor p st chunk node = some st') : WMInv st' := by
  unfold writeFor at hr
  by_cases hb : node.builtin = true
  · simp only [hb, if_true, Option.some.injEq] at hr; subst hr; exact wminv_ext h (ext_write _ _)
  · simp only [hb, if_false, Bool.false_eq_true] at hr
    split at hr
    · cases hr
    · rename_i fileIndex _
      cases hn : node.name with
      | some nm =>
        simp only [hn, Option.some.injEq] at hr
        subst hr
        have h0 : WMInv { st with names := (mapName p st.names nm).1 } := h
        have w0 : WInv { st with names := (mapName p st.names nm).1 } := hw
        have h1 := wminv_ext h0 (ext_flush _)
        have w1 := (winv_flush _ w0).1
        refine wminv_add _ (wminv_ext (wminv_add _ h1 w1 _ _ _ _) (ext_write _ chunk)) ?_ _ _ _ _
        exact winv_write _ chunk w1
      | none =>
        simp only [hn, Option.some.injEq] at hr
        subst hr
        exact wminv_ext (wminv_add _ h hw node.line node.col fileIndex none) (ext_write _ chunk)

theorem wminv_step (p : Policy) (st st' : WState) (op : Op) (h : WMInv st) (hw : WInv st)
    (hr : step p st op = some st') : WMInv st' := by
  cases op with
  | write c => simp only [step, Option.some.injEq] at hr; subst hr; exact wminv_ext h (ext_write _ _)
  | writeFor c n => exact wminv_writeFor p st st' c n h hw hr
  | indent => simp only [step, Option.some.injEq] at hr; subst hr; exact h
  | dedent => simp only [step, Option.some.injEq] at hr; subst hr; exact h
  | setMapper m => simp only [step, Option.some.injEq] at hr; subst hr; exact h

theorem wminv_run (p : Policy) (ops : List Op) : ∀ st st', WMInv st → WInv st → run p st ops = some st' → WMInv st' := by
  induction ops with
  | nil => intro st st' h _ hr; simp only [run, Option.some.injEq] at hr; subst hr; exact h
  | cons op ops ih =>
    intro st st' h hw hr
    simp only [run] at hr
    cases hs : step p st op with
    | none => rw [hs] at hr; cases hr
    | some st1 =>
      rw [hs] at hr
      exact ih st1 st' (wminv_step p st st1 op h hw hs) (winv_step p st st1 op hw hs) hr

theorem wminv_init : WMInv WState.init := by
  refine ⟨rfl, trivial, ?_, ?_⟩ <;> intro e he <;> cases he

theorem syncO_init : SyncO MState.init DState.init := by
  unfold SyncO MState.init DState.init toIsize; simp

/-! ### a chunk without line breaks -/

theorem splitOn_single (sep : Char) (s : List Char) (h : sep ∉ s) : splitOn sep s = [s] := by
  induction s with
  | nil => rfl
  | cons c s ih =>
    simp only [List.mem_cons, not_or] at h
    have hc : ¬ (c = sep) := fun e => h.1 e.symm
    simp [splitOn, hc, ih h.2]

theorem write_noNl (st : WState) (chunk : List Char) (h : '\n' ∉ chunk) (hp : st.pending = false) :
    write st chunk = { st with buf := st.buf ++ chunk, col := st.col + utf16Len chunk } := by
  unfold write
  rw [splitOn_single _ _ h]
  simp only [writeLines, writeLine]
  cases chunk with
  | nil => cases st; simp [utf16Len]
  | cons c cs => simp [flushIndent, hp]

theorem flush_buf (st : WState) : ∃ ind, (flushIndent st).buf = st.buf ++ ind ∧ ∀ c ∈ ind, c = ' ' := by
  unfold flushIndent
  split
  · exact ⟨List.replicate st.indent ' ', rfl, fun c hc => (List.mem_replicate.mp hc).2⟩
  · exact ⟨[], by simp, by simp⟩

/-- `write_for` of a named, non-builtin node with a one-line chunk, spelled out -/
theorem writeFor_named (p : Policy) (st st' : WState) (chunk nm : List Char) (node : Node)
    (hw : WInv st) (hb : node.builtin = false) (hname : node.name = some nm) (hnl : '\n' ∉ chunk)
    (hr : writeFor p st chunk node = some st') :
    ∃ (fileIndex : Nat) (pre ind : List Char) (l c : Nat),
      st'.mapping.log = st.mapping.log ++
        [⟨l, c, node.line, node.col, fileIndex, some (mapName p st.names nm).2⟩,
         ⟨l, c + utf16Len chunk, node.line, node.col + utf16Len nm, fileIndex, none⟩] ∧
      st'.buf = pre ++ chunk ∧ pre = st.buf ++ ind ∧ (∀ x ∈ ind, x = ' ') ∧
      cursorOf pre = (l, c) ∧ cursorOf st'.buf = (l, c + utf16Len chunk) ∧
      st'.names = (mapName p st.names nm).1 := by
  unfold writeFor at hr
  simp only [hb, Bool.false_eq_true, if_false] at hr
  split at hr
  · cases hr
  · rename_i fileIndex _
    simp only [hname, Option.some.injEq] at hr
    have w0 : WInv { st with names := (mapName p st.names nm).1 } := hw
    obtain ⟨w1, hp1⟩ := winv_flush _ w0
    obtain ⟨ind, hind, hsp⟩ := flush_buf { st with names := (mapName p st.names nm).1 }
    generalize hs1 : flushIndent { st with names := (mapName p st.names nm).1 } = s1 at hr w1 hp1 hind
    have hnames : s1.names = (mapName p st.names nm).1 := by
      rw [← hs1]; unfold flushIndent; split <;> rfl
    have hmap : s1.mapping = st.mapping := by
      rw [← hs1]; unfold flushIndent; split <;> rfl
    have hpend : (wAddEntry s1 ⟨s1.line, s1.col, node.line, node.col, fileIndex, some (mapName p st.names nm).2⟩).pending = false := hp1
    rw [write_noNl _ chunk hnl hpend] at hr
    subst hr
    refine ⟨fileIndex, s1.buf, ind, s1.line, s1.col, ?_, rfl, hind, hsp, w1.1, ?_, hnames⟩
    · simp [wAddEntry, addEntry, hmap]
    · show cursorOf (s1.buf ++ chunk) = (s1.line, s1.col + utf16Len chunk)
      have h1 : cursorFrom (0, 0) s1.buf = (s1.line, s1.col) := w1.1
      unfold cursorOf
      rw [cursorFrom_append, h1, cursorFrom_noNl _ _ hnl]

/-! ### what "grouped by line" means -/

/-- lines of segments → (generated line number, segment) pairs, in order -/
def flattenFrom (L : Nat) : List (List Segment) → List (Nat × Segment)
  | [] => []
  | l :: ls => l.map (fun s => (L, s)) ++ flattenFrom (L + 1) ls

theorem flattenFrom_empties (k : Nat) : ∀ (M : Nat) (G : List (List Segment)),
    flattenFrom M (List.replicate k [] ++ G) = flattenFrom (M + k) G := by
  induction k with
  | zero => intro M G; simp
  | succ k ih =>
    intro M G
    simp only [List.replicate_succ, List.cons_append, flattenFrom, List.map_nil, List.nil_append]
    rw [ih]; congr 1; omega

theorem flatten_groupFrom (es : List Entry) : ∀ (L : Nat) (line : List Segment), Mono L es →
    flattenFrom L (groupFrom L line es) =
      line.map (fun s => (L, s)) ++ es.map (fun e => (e.genLine, segOf e)) := by
  induction es with
  | nil => intro L line _; simp [groupFrom, flattenFrom]
  | cons e es ih =>
    intro L line hm
    obtain ⟨hle, hm'⟩ := hm
    by_cases hsame : e.genLine = L
    · simp only [groupFrom, hsame, if_true]
      rw [ih L _ (by rw [← hsame]; exact hm')]
      simp [hsame]
    · simp only [groupFrom, hsame, if_false, flattenFrom]
      rw [flattenFrom_empties]
      have : L + 1 + (e.genLine - L - 1) = e.genLine := by omega
      rw [this, ih e.genLine _ hm']
      simp

/-! ### FileMap (cli/src/generate.rs) -/

/-- a file is listed in `sources` iff it is a schema file or one of the document's files -/
def keptFile (nSchema : Nat) (used : List Nat) (f : Nat) : Prop := f < nSchema ∨ used.contains f = true

theorem fileIndicesOpGo_spec (nSchema : Nat) (used : List Nat) (r : Nat) :
    ∀ (idx next : Nat) (pre : List Nat),
    pre.length = (if idx < nSchema then idx else next) →
    (idx < nSchema → next = nSchema) → next ≤ idx + nSchema → idx + nSchema + r < usizeMax →
    ∀ f, idx ≤ f → f < idx + r → keptFile nSchema used f →
    ∃ i, (fileIndicesOpGo nSchema used idx next r)[f - idx]? = some i ∧ i ≠ usizeMax ∧
      (pre ++ sourceFilesGo idx (fileIndicesOpGo nSchema used idx next r))[i]? = some f := by
  induction r with
  | zero => intro idx next pre _ _ _ _ f h1 h2; omega
  | succ r ih =>
    intro idx next pre hpre hns hle hbound f h1 h2 hk
    by_cases hs : idx < nSchema
    · have hne : idx ≠ usizeMax := by omega
      simp only [fileIndicesOpGo, hs, if_true, sourceFilesGo, hne, if_false]
      simp only [hs, if_true] at hpre
      by_cases hf : f = idx
      · subst hf
        refine ⟨f, by simp, hne, ?_⟩
        rw [List.getElem?_append_right (by omega)]
        simp [hpre]
      · have := ih (idx + 1) next (pre ++ [idx])
          (by simp only [List.length_append, List.length_singleton, hpre]
              split
              · rfl
              · have := hns hs; omega)
          (fun _ => hns hs) (by omega) (by omega) f (by omega) (by omega) hk
        obtain ⟨i, e1, e2, e3⟩ := this
        refine ⟨i, ?_, e2, ?_⟩
        · have : f - idx = (f - (idx + 1)) + 1 := by omega
          rw [this, List.getElem?_cons_succ]; exact e1
        · simpa [List.append_assoc] using e3
    · simp only [hs, if_false] at hpre
      by_cases hu : used.contains idx = true
      · have hne : next ≠ usizeMax := by omega
        simp only [fileIndicesOpGo, hs, if_false, hu, if_true, sourceFilesGo, hne]
        by_cases hf : f = idx
        · subst hf
          refine ⟨next, by simp, hne, ?_⟩
          rw [List.getElem?_append_right (by omega)]
          simp [hpre]
        · have := ih (idx + 1) (next + 1) (pre ++ [idx])
            (by simp only [List.length_append, List.length_singleton, hpre]
                have : ¬ (idx + 1 < nSchema) := by omega
                simp [this])
            (fun h => by omega) (by omega) (by omega) f (by omega) (by omega) hk
          obtain ⟨i, e1, e2, e3⟩ := this
          refine ⟨i, ?_, e2, ?_⟩
          · have : f - idx = (f - (idx + 1)) + 1 := by omega
            rw [this, List.getElem?_cons_succ]; exact e1
          · simpa [List.append_assoc] using e3
      · simp only [fileIndicesOpGo, hs, if_false, hu, sourceFilesGo, if_true, Bool.false_eq_true]
        have hf : f ≠ idx := by
          intro e; subst e
          rcases hk with hk | hk
          · exact hs hk
          · exact hu hk
        have := ih (idx + 1) next pre
          (by have : ¬ (idx + 1 < nSchema) := by omega
              simp [this, hpre])
          (fun h => by omega) (by omega) (by omega) f (by omega) (by omega) hk
        obtain ⟨i, e1, e2, e3⟩ := this
        refine ⟨i, ?_, e2, e3⟩
        have : f - idx = (f - (idx + 1)) + 1 := by omega
        rw [this, List.getElem?_cons_succ]; exact e1

/-! ### empty segments -/

theorem strictGo_digits (ds : List Nat) : (∀ d ∈ ds, d < 64) → ds ≠ [] →
    ∀ (se ac : Bool) (rest : List Char), strictGo se ac (ds.map b64Char ++ rest) = strictGo false ac rest := by
  induction ds with
  | nil => intro _ h; exact absurd rfl h
  | cons d ds ih =>
    intro h _ se ac rest
    obtain ⟨_, h2, h3⟩ := b64_table d (h d (by simp))
    simp only [List.map_cons, List.cons_append, strictGo, h2, h3, if_false]
    cases ds with
    | nil => simp
    | cons d2 ds2 => exact ih (fun x hx => h x (by simp [hx])) (by simp) false ac rest

theorem strictGo_semis (k : Nat) (rest : List Char) :
    strictGo true false (List.replicate k ';' ++ rest) = strictGo true false rest := by
  induction k with
  | zero => simp
  | succ k ih =>
    have hne : ¬ ((';' : Char) = ',') := by decide
    simp [List.replicate_succ, strictGo, hne, ih]

theorem fields_digits_ne_nil (st : MState) (e : Entry) : (fieldsOf st e).flatMap vlqEncode ≠ [] := by
  have hl := length_le_flatMap_vlq (fieldsOf st e)
  have : 4 ≤ (fieldsOf st e).length := by unfold fieldsOf; cases e.name <;> simp
  intro h; rw [h] at hl; simp only [List.length_nil] at hl; omega

/-- once a segment is open, everything the writer appends keeps the text free of empty segments -/
theorem strictGo_encodeFrom (es : List Entry) : ∀ (st : MState) (ac : Bool), Mono st.lastGenLine es →
    strictGo false ac (encodeFrom st es) = true := by
  induction es with
  | nil => intro st ac _; simp [encodeFrom, strictGo]
  | cons e es ih =>
    intro st ac hm
    obtain ⟨hle, hm'⟩ := hm
    have hdig := flatMap_vlq_digits (fieldsOf st e)
    have hnn := fields_digits_ne_nil st e
    have hL : (addEntry st e).lastGenLine = e.genLine := rfl
    simp only [encodeFrom, emit_eq]
    by_cases hsame : e.genLine = st.lastGenLine
    · have hb : (st.lastGenLine != e.genLine) = false := by simp [hsame]
      have hk : e.genLine - st.lastGenLine = 0 := by omega
      simp only [hb, hk, List.replicate_zero, List.nil_append, Bool.false_eq_true, if_false,
        List.cons_append]
      simp only [strictGo, if_true, Bool.not_false, Bool.true_and]
      rw [strictGo_digits _ hdig hnn]
      exact ih _ _ (by rw [hL]; exact hm')
    · have hb : (st.lastGenLine != e.genLine) = true := by
        simp only [bne_iff_ne, ne_eq]; omega
      obtain ⟨k, hk⟩ : ∃ k, e.genLine - st.lastGenLine = k + 1 := ⟨e.genLine - st.lastGenLine - 1, by omega⟩
      have hne : ¬ ((';' : Char) = ',') := by decide
      simp only [hb, hk, if_true, List.append_nil, List.replicate_succ, List.cons_append, List.append_assoc]
      simp only [strictGo, hne, if_false, if_true, Bool.and_false, Bool.not_false, Bool.true_and]
      rw [strictGo_semis, strictGo_digits _ hdig hnn]
      exact ih _ _ (by rw [hL]; exact hm')

end NitroVerif.SourceMap
