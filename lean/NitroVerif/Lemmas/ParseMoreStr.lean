/-
ANY legal normal string literal (helper lemmas for Props/C07 `string_decode_general`): a literal body is a list of
`SItem`s — one per alternative of the grammar's `StringCharacter` rule:

  plain c         a character other than `"`, `\`, LF, CR                         (NormalStringCharacter)
  esc e           `\` followed by one of `" \ / b f n r t`                          (EscapedCharacter)
  u4 a b c d      `\u` followed by four hexadecimal digits                          (EscapedUnicode4)
  ubrace ds       `\u{` one or more hexadecimal digits `}`                          (EscapedUnicodeBrace)

For EVERY list of items the GENERATED grammar's `StringValue` rule run by the generic interpreter on
`"` ++ texts ++ `"` consumes exactly the literal and yields the pair tree `litPair` (the ordered choice of `StringCharacter`
is followed literally: `EscapedUnicodeBrace` fails on `\uXXXX` at the missing `{`, both `\u` rules fail on a simple escape …).
-/
import NitroVerif.Lemmas.ParseString
import NitroVerif.Lemmas.ParseLex
import NitroVerif.Lemmas.TypeRoundTrip
namespace NitroVerif.StringParse
open NitroVerif.Peg NitroVerif.Gen NitroVerif.Gen.Parts NitroVerif.Build NitroVerif.Spec.Lex NitroVerif.TypeParse
open NitroVerif.ParseText NitroVerif.ValueParse

def hexDigit (d : Char) : Prop := ('0' ≤ d ∧ d ≤ '9') ∨ (('a' ≤ d ∧ d ≤ 'f') ∨ ('A' ≤ d ∧ d ≤ 'F'))
instance (d : Char) : Decidable (hexDigit d) := by unfold hexDigit; infer_instance

inductive SItem where
  | plain (c : Char)
  | esc (e : Char)
  | u4 (a b c d : Char)
  | ubrace (ds : List Char)
  deriving Repr

abbrev escLetters : List (List Char) := [['"'], ['\\'], ['/'], ['b'], ['f'], ['n'], ['r'], ['t']]

/-- the text of an item -/
def SItem.text : SItem → List Char
  | .plain c => [c]
  | .esc e => ['\\', e]
  | .u4 a b c d => ['\\', 'u', a, b, c, d]
  | .ubrace ds => '\\' :: 'u' :: '{' :: (ds ++ ['}'])

/-- the item is one the grammar admits -/
def SItem.Ok : SItem → Prop
  | .plain c => c ≠ '"' ∧ c ≠ '\\' ∧ c ≠ '\n' ∧ c ≠ '\r'
  | .esc e => [e] ∈ escLetters
  | .u4 a b c d => hexDigit a ∧ hexDigit b ∧ hexDigit c ∧ hexDigit d
  | .ubrace ds => ds ≠ [] ∧ ∀ x ∈ ds, hexDigit x

/-- the pair tree of an item written at offset `p` -/
def SItem.pair : SItem → Nat → Pair
  | .plain _, p => .mk R.StringCharacter p (p + 1) [.mk R.NormalStringCharacter p (p + 1) []]
  | .esc _, p => .mk R.StringCharacter p (p + 2) [.mk R.EscapedCharacter p (p + 2) []]
  | .u4 _ _ _ _, p => .mk R.StringCharacter p (p + 6) [.mk R.EscapedUnicode4 p (p + 6) []]
  | .ubrace ds, p => .mk R.StringCharacter p (p + (ds.length + 4))
      [.mk R.EscapedUnicodeBrace p (p + (ds.length + 4)) [.mk R.EscapedUnicodeBraceDigits (p + 3) (p + 3 + ds.length) []]]

def litText (its : List SItem) : List Char := its.flatMap SItem.text

def litPairs : List SItem → Nat → List Pair
  | [], _ => []
  | it :: its, p => it.pair p :: litPairs its (p + it.text.length)

theorem litText_cons (it : SItem) (its : List SItem) : litText (it :: its) = it.text ++ litText its := by
  simp [litText]

theorem text_length_pos (it : SItem) : 1 ≤ it.text.length := by cases it <;> simp [SItem.text]

theorem litText_length_ge (its : List SItem) : its.length ≤ (litText its).length := by
  induction its with
  | nil => simp [litText]
  | cons it its ih =>
    rw [litText_cons]
    have := text_length_pos it
    simp only [List.length_cons, List.length_append]; omega

/-- the first character of an item is not `"` -/
theorem text_head (it : SItem) (h : it.Ok) : ∃ d r, it.text = d :: r ∧ d ≠ '"' := by
  cases it with
  | plain c => exact ⟨c, [], rfl, h.1⟩
  | esc e => exact ⟨'\\', [e], rfl, by decide⟩
  | u4 a b c d => exact ⟨'\\', _, rfl, by decide⟩
  | ubrace ds => exact ⟨'\\', _, rfl, by decide⟩

/-! ### hexadecimal digits -/

theorem look_HEX : gList.look R.ASCII_HEX_DIGIT =
    some (.silent, .choice (.range '0' '9') (.choice (.range 'a' 'f') (.range 'A' 'F'))) := rfl

theorem hexL_runs {la at_ p d r} (h : hexDigit d) :
    RunsRuleL gList la 4 R.ASCII_HEX_DIGIT at_ ⟨p, d :: r⟩ ⟨p + 1, r⟩ [] := by
  refine runsRuleL_silent look_HEX (notSpecial (by decide) (by decide)) ?_
  by_cases h1 : '0' ≤ d ∧ d ≤ '9'
  · exact (runsL_choice_l ((rangeL la true _ _ _ p d r).1 h1)).mono (by omega)
  · have h' := h.resolve_left h1
    refine runsL_choice_r (((rangeL la true _ _ _ p d r).2 h1).mono (by omega : 1 ≤ 2)) ?_
    by_cases h2 : 'a' ≤ d ∧ d ≤ 'f'
    · exact runsL_choice_l ((rangeL la true _ _ _ p d r).1 h2)
    · exact runsL_choice_r ((rangeL la true _ _ _ p d r).2 h2) ((rangeL la true _ _ _ p d r).1 (h'.resolve_left h2))

theorem hexL_fails {la at_ p rest} (h : HeadNot hexDigit rest) :
    FailsRuleL gList la 4 R.ASCII_HEX_DIGIT at_ ⟨p, rest⟩ := by
  refine failsRuleL_silent look_HEX (notSpecial (by decide) (by decide)) ?_
  exact failsL_choice ((rangeL_fails fun d r he hd => h d r he (Or.inl hd)).mono (by omega : 1 ≤ 2))
    (failsL_choice (rangeL_fails fun d r he hd => h d r he (Or.inr (Or.inl hd)))
      (rangeL_fails fun d r he hd => h d r he (Or.inr (Or.inr hd))))

theorem hex_star (ds : List Char) : ∀ (p : Nat) (rest : List Char), (∀ x ∈ ds, hexDigit x) → HeadNot hexDigit rest →
    Runs gList (ds.length + 6) false (.star (.call R.ASCII_HEX_DIGIT)) .atomic ⟨p, ds ++ rest⟩ ⟨p + ds.length, rest⟩ [] := by
  induction ds with
  | nil =>
    intro p rest _ hr
    simpa using (runs_star_nil (fails_call (sk := false) (hexL_fails (la := .none) (p := p) hr))).mono (by omega : 6 ≤ 6)
  | cons d ds ih =>
    intro p rest hds hr
    have h1 : Runs gList 5 false (.call R.ASCII_HEX_DIGIT) .atomic ⟨p, d :: (ds ++ rest)⟩ ⟨p + 1, ds ++ rest⟩ [] :=
      runs_call (hexL_runs (la := .none) (hds d (List.mem_cons_self ..)))
    have h2 := ih (p + 1) rest (fun x hx => hds x (List.mem_cons_of_mem _ hx)) hr
    have := runs_star_cons (h1.mono (by omega : 5 ≤ ds.length + 6)) h2
    simpa [Nat.add_assoc, Nat.add_comm 1] using this

theorem runs_rep {n sk k a at_ c c' ps} (h : Runs gList n sk (unroll k a) at_ c c' ps) :
    Runs gList (n + 1) sk (.rep k a) at_ c c' ps := by
  intro tr
  obtain ⟨tr1, h1⟩ := h tr
  refine ⟨tr1, fun f hf => ?_⟩
  obtain ⟨f', rfl⟩ : ∃ f', f = f' + 1 := ⟨f - 1, by omega⟩
  simp only [eval, h1 f' (by omega)]

/-! ### the two `\u` rules -/

theorem hex_ne_brace {d : Char} (h : hexDigit d) : d ≠ '{' ∧ d ≠ '}' := by
  constructor <;> (rintro rfl; exact absurd h (by decide))

/-- `EscapedUnicodeBrace` fails on `\u` followed by something other than `{` -/
theorem brace_fails_u {p : Nat} {d : Char} {r : List Char} {at_ : Atomicity} (hd : d ≠ '{') :
    FailsRule gList 6 R.EscapedUnicodeBrace at_ ⟨p, '\\' :: 'u' :: d :: r⟩ := by
  have h1 : Runs gList 2 false (.str ['\\', 'u']) .compound ⟨p, '\\' :: 'u' :: d :: r⟩ ⟨p + 2, d :: r⟩ [] :=
    (runs_str (c := ⟨p, '\\' :: 'u' :: d :: r⟩) (r := d :: r) (by simp [matchStr])).mono (by omega)
  have h2 : Fails gList 2 false (.seq (.str ['{']) (.seq (.call R.EscapedUnicodeBraceDigits) (.str ['}']))) .compound
      ⟨p + 2, d :: r⟩ :=
    fails_seq_first (fails_str (c := ⟨p + 2, d :: r⟩) (by simp [matchStr, Ne.symm hd]))
  exact (failsRule_compound look_EscapedUnicodeBrace
    (failsL_seq_last_noskip (la := .none) (Or.inl rfl) h1 h2)).mono (by omega)

/-- `EscapedUnicode4` on `\uXXXX` (called from `StringCharacter`, a compound-atomic context) -/
theorem u4_runs {p : Nat} {a b c d : Char} {r : List Char} (ha : hexDigit a) (hb : hexDigit b) (hc : hexDigit c)
    (hd : hexDigit d) :
    RunsRule gList 20 R.EscapedUnicode4 .compound ⟨p, '\\' :: 'u' :: a :: b :: c :: d :: r⟩ ⟨p + 6, r⟩
      [.mk R.EscapedUnicode4 p (p + 6) []] := by
  have h0 : Runs gList 14 false (.str ['\\', 'u']) .atomic ⟨p, '\\' :: 'u' :: a :: b :: c :: d :: r⟩
      ⟨p + 2, a :: b :: c :: d :: r⟩ [] :=
    (runs_str (c := ⟨p, '\\' :: 'u' :: a :: b :: c :: d :: r⟩) (r := a :: b :: c :: d :: r) (by simp [matchStr])).mono
      (by omega)
  have one : ∀ (q : Nat) (x : Char) (y : List Char), hexDigit x →
      Runs gList 5 false (.call R.ASCII_HEX_DIGIT) .atomic ⟨q, x :: y⟩ ⟨q + 1, y⟩ [] :=
    fun q x y hx => runsL_call (la := .none) (hexL_runs hx)
  have h4 : Runs gList 11 false (unroll 4 (.call R.ASCII_HEX_DIGIT)) .atomic ⟨p + 2, a :: b :: c :: d :: r⟩
      ⟨p + 2 + 1 + 1 + 1 + 1, r⟩ [] := by
    have e : unroll 4 (.call R.ASCII_HEX_DIGIT) = .seq (.call R.ASCII_HEX_DIGIT) (.seq (.call R.ASCII_HEX_DIGIT)
        (.seq (.call R.ASCII_HEX_DIGIT) (.call R.ASCII_HEX_DIGIT))) := rfl
    rw [e]
    have s3 := runs_seq_nosk (one (p + 2 + 1 + 1) c (d :: r) hc) (one (p + 2 + 1 + 1 + 1) d r hd)
    have s2 := runs_seq_nosk ((one (p + 2 + 1) b (c :: d :: r) hb).mono (by omega : 5 ≤ 7)) s3
    have s1 := runs_seq_nosk ((one (p + 2) a (b :: c :: d :: r) ha).mono (by omega : 5 ≤ 9)) s2
    simpa using s1
  have body := runs_seq_nosk (h0.mono (by omega : 14 ≤ 14)) ((runs_rep h4).mono (by omega : 12 ≤ 14))
  have := runsRule_atomic (at_ := .compound) look_EscapedUnicode4 body
  have e : p + 2 + 1 + 1 + 1 + 1 = p + 6 := by omega
  simpa [e] using this.mono (by omega : 17 ≤ 20)

/-- `EscapedUnicodeBrace` on `\u{X…}` -/
theorem ubrace_runs {p : Nat} {ds : List Char} {r : List Char} {at_ : Atomicity} (hne : ds ≠ [])
    (hds : ∀ x ∈ ds, hexDigit x) :
    RunsRule gList (ds.length + 30) R.EscapedUnicodeBrace at_ ⟨p, '\\' :: 'u' :: '{' :: (ds ++ '}' :: r)⟩
      ⟨p + (ds.length + 4), r⟩
      [.mk R.EscapedUnicodeBrace p (p + (ds.length + 4)) [.mk R.EscapedUnicodeBraceDigits (p + 3) (p + 3 + ds.length) []]] := by
  cases ds with
  | nil => exact absurd rfl hne
  | cons d ds' =>
    have hd := hds d (List.mem_cons_self ..)
    have hds' : ∀ x ∈ ds', hexDigit x := fun x hx => hds x (List.mem_cons_of_mem _ hx)
    have hend : HeadNot hexDigit ('}' :: r) := headNot_cons (by decide) _
    -- the digits: `ASCII_HEX_DIGIT+`
    have hfirst : Runs gList (ds'.length + 6) false (.call R.ASCII_HEX_DIGIT) .atomic ⟨p + 3, d :: (ds' ++ '}' :: r)⟩
        ⟨p + 3 + 1, ds' ++ '}' :: r⟩ [] := (runs_call (hexL_runs (la := .none) hd)).mono (by omega)
    have hstar := hex_star ds' (p + 3 + 1) ('}' :: r) hds' hend
    have hplus : Runs gList (ds'.length + 9) false (.plus (.call R.ASCII_HEX_DIGIT)) .atomic ⟨p + 3, d :: (ds' ++ '}' :: r)⟩
        ⟨p + 3 + 1 + ds'.length, '}' :: r⟩ [] := by
      have : Runs gList _ false (.plus (.call R.ASCII_HEX_DIGIT)) .atomic _ _ _ :=
        runsL_plus (la := .none) (runs_seq_nosk hfirst hstar)
      simpa using this
    have hdig : RunsRule gList (ds'.length + 10) R.EscapedUnicodeBraceDigits .compound ⟨p + 3, d :: (ds' ++ '}' :: r)⟩
        ⟨p + 3 + 1 + ds'.length, '}' :: r⟩ [.mk R.EscapedUnicodeBraceDigits (p + 3) (p + 3 + 1 + ds'.length) []] := by
      have := runsRule_atomic (at_ := .compound) look_EscapedUnicodeBraceDigits hplus
      simpa using this
    have h0 : Runs gList (ds'.length + 11) false (.str ['\\', 'u']) .compound ⟨p, '\\' :: 'u' :: '{' :: (d :: ds' ++ '}' :: r)⟩
        ⟨p + 2, '{' :: (d :: ds' ++ '}' :: r)⟩ [] :=
      (runs_str (c := ⟨p, '\\' :: 'u' :: '{' :: (d :: ds' ++ '}' :: r)⟩) (r := '{' :: (d :: ds' ++ '}' :: r))
        (by simp [matchStr])).mono (by omega)
    have h1 : Runs gList (ds'.length + 11) false (.str ['{']) .compound ⟨p + 2, '{' :: (d :: ds' ++ '}' :: r)⟩
        ⟨p + 2 + 1, d :: ds' ++ '}' :: r⟩ [] :=
      (runs_str (c := ⟨p + 2, '{' :: (d :: ds' ++ '}' :: r)⟩) (r := d :: ds' ++ '}' :: r) (by simp [matchStr])).mono (by omega)
    have h2 : Runs gList (ds'.length + 11) false (.call R.EscapedUnicodeBraceDigits) .compound ⟨p + 3, d :: (ds' ++ '}' :: r)⟩
        ⟨p + 3 + 1 + ds'.length, '}' :: r⟩ [.mk R.EscapedUnicodeBraceDigits (p + 3) (p + 3 + 1 + ds'.length) []] :=
      runs_call hdig
    have h3 : Runs gList (ds'.length + 11) false (.str ['}']) .compound ⟨p + 3 + 1 + ds'.length, '}' :: r⟩
        ⟨p + 3 + 1 + ds'.length + 1, r⟩ [] :=
      (runs_str (c := ⟨p + 3 + 1 + ds'.length, '}' :: r⟩) (r := r) (by simp [matchStr])).mono (by omega)
    have s2 := runs_seq_nosk h2 h3
    have s1 := runs_seq_nosk (h1.mono (by omega : _ ≤ ds'.length + 13)) (by simpa using s2)
    have s0 := runs_seq_nosk (h0.mono (by omega : _ ≤ ds'.length + 15)) s1
    have := runsRule_compound (at_ := at_) look_EscapedUnicodeBrace s0
    refine RunsRule.cast (this.mono (by simp : ds'.length + 15 + 2 + 1 ≤ (d :: ds').length + 30)) rfl ?_ ?_
    · congr 1; simp; omega
    · simp only [List.length_cons, List.nil_append, List.append_nil, List.cons.injEq, and_true]
      congr 1
      · omega
      · simp only [List.cons.injEq, and_true]
        congr 1; omega

/-! ### one `StringCharacter`, any item -/

/-- `StringCharacter` on the text of an item -/
theorem sc_item_runs (it : SItem) (hok : it.Ok) (p : Nat) (rest : List Char) {at_ : Atomicity} :
    RunsRule gList (it.text.length + 40) R.StringCharacter at_ ⟨p, it.text ++ rest⟩ ⟨p + it.text.length, rest⟩
      [it.pair p] := by
  cases it with
  | plain c =>
    obtain ⟨h1, h2, h3, h4⟩ := hok
    have hm : matchStr ['\\', 'u'] (c :: rest) = none := by simp [matchStr, Ne.symm h2]
    have hm' : matchStr ['\\'] (c :: rest) = none := by simp [matchStr, Ne.symm h2]
    have hnorm : RunsRule gList 11 R.NormalStringCharacter .compound ⟨p, c :: rest⟩ ⟨p + 1, rest⟩
        [Pair.mk R.NormalStringCharacter p (p + 1) []] := by
      have g1 : Runs gList 8 false (.not (.choice (.str ['"']) (.choice (.str ['\\']) (.call R.NEWLINE)))) .atomic
          ⟨p, c :: rest⟩ ⟨p, c :: rest⟩ [] := runsL_not (la := .none) (normalGuard_fails h1 h2 h3 h4)
      have g2 : Runs gList 8 false .any .atomic ⟨p, c :: rest⟩ ⟨p + 1, rest⟩ [] :=
        (runsL_any (la := .none) (c := ⟨p, c :: rest⟩) rfl).mono (by omega)
      have hb := runs_seq_nosk g1 g2
      have := runsRule_atomic (at_ := .compound) look_NormalStringCharacter hb
      simpa using this
    have body : Runs gList 19 false (.choice (.call R.EscapedUnicodeBrace) (.choice (.call R.EscapedUnicode4)
        (.choice (.call R.EscapedCharacter) (.call R.NormalStringCharacter)))) .compound ⟨p, c :: rest⟩
        ⟨p + 1, rest⟩ [Pair.mk R.NormalStringCharacter p (p + 1) []] := by
      refine (runs_choice_r ((fails_call (brace_fails hm)).mono (by omega : 4 ≤ 14)) ?_).mono (by omega)
      refine runs_choice_r ((fails_call (u4_fails hm)).mono (by omega : 4 ≤ 13)) ?_
      exact runs_choice_r ((fails_call (esc_fails hm')).mono (by omega : 4 ≤ 12)) (runs_call hnorm)
    have := runsRule_compound (at_ := at_) look_StringCharacter body
    exact RunsRule.cast (this.mono (show 19 + 1 ≤ (SItem.text (.plain c)).length + 40 by simp [SItem.text])) rfl rfl
      (by simp [SItem.pair])
  | esc e =>
    have hmem : [e] ∈ escLetters := hok
    have hu : e ≠ 'u' := by
      rintro rfl
      exact absurd hmem (by decide)
    have hm : matchStr ['\\', 'u'] ('\\' :: e :: rest) = none := by simp [matchStr, Ne.symm hu]
    have hesc : RunsRule gList 13 R.EscapedCharacter .compound ⟨p, '\\' :: e :: rest⟩ ⟨p + 1 + 1, rest⟩
        [Pair.mk R.EscapedCharacter p (p + 1 + 1) []] := by
      have h1 : Runs gList 9 false (.str ['\\']) .atomic ⟨p, '\\' :: e :: rest⟩ ⟨p + 1, e :: rest⟩ [] :=
        (runs_str (c := ⟨p, '\\' :: e :: rest⟩) (r := e :: rest) (by simp [matchStr])).mono (by omega)
      have h2 := (oneChar_alts (g := gList) (la := .none) (sk := false) (at_ := .atomic) _ _ escAlts
        (by decide) (p + 1) e rest).1 hmem
      have hb := runs_seq_nosk h1 h2
      have := (runsRule_atomic (at_ := .compound) look_EscapedCharacter hb).mono (by omega : 12 ≤ 13)
      simpa using this
    have body : Runs gList 19 false (.choice (.call R.EscapedUnicodeBrace) (.choice (.call R.EscapedUnicode4)
        (.choice (.call R.EscapedCharacter) (.call R.NormalStringCharacter)))) .compound ⟨p, '\\' :: e :: rest⟩
        ⟨p + 1 + 1, rest⟩ [Pair.mk R.EscapedCharacter p (p + 1 + 1) []] := by
      refine (runs_choice_r ((fails_call (brace_fails hm)).mono (by omega : 4 ≤ 16)) ?_).mono (by omega)
      refine runs_choice_r ((fails_call (u4_fails hm)).mono (by omega : 4 ≤ 15)) ?_
      exact runs_choice_l (runs_call hesc)
    have := runsRule_compound (at_ := at_) look_StringCharacter body
    exact RunsRule.cast (this.mono (show 19 + 1 ≤ (SItem.text (.esc e)).length + 40 by simp [SItem.text])) rfl
      (by simp [SItem.text, Nat.add_assoc]) (by simp [SItem.pair, Nat.add_assoc])
  | u4 a b c d =>
    obtain ⟨ha, hb, hc, hd⟩ := hok
    have hbr : Fails gList 22 false (.call R.EscapedUnicodeBrace) .compound ⟨p, '\\' :: 'u' :: a :: b :: c :: d :: rest⟩ :=
      (fails_call (brace_fails_u (hex_ne_brace ha).1)).mono (by omega)
    have body : Runs gList 24 false (.choice (.call R.EscapedUnicodeBrace) (.choice (.call R.EscapedUnicode4)
        (.choice (.call R.EscapedCharacter) (.call R.NormalStringCharacter)))) .compound
        ⟨p, '\\' :: 'u' :: a :: b :: c :: d :: rest⟩ ⟨p + 6, rest⟩ [Pair.mk R.EscapedUnicode4 p (p + 6) []] :=
      (runs_choice_r hbr ((runs_choice_l (runs_call (u4_runs ha hb hc hd))).mono (by omega : 22 ≤ 22))).mono (by omega)
    have := runsRule_compound (at_ := at_) look_StringCharacter body
    exact RunsRule.cast (this.mono (show 24 + 1 ≤ (SItem.text (.u4 a b c d)).length + 40 by simp [SItem.text])) rfl
      (by simp [SItem.text]) (by simp [SItem.pair])
  | ubrace ds =>
    obtain ⟨hne, hds⟩ := hok
    have hrun := ubrace_runs (p := p) (r := rest) (at_ := .compound) hne hds
    have body : Runs gList (ds.length + 32) false (.choice (.call R.EscapedUnicodeBrace) (.choice (.call R.EscapedUnicode4)
        (.choice (.call R.EscapedCharacter) (.call R.NormalStringCharacter)))) .compound
        ⟨p, '\\' :: 'u' :: '{' :: (ds ++ '}' :: rest)⟩ ⟨p + (ds.length + 4), rest⟩
        [.mk R.EscapedUnicodeBrace p (p + (ds.length + 4)) [.mk R.EscapedUnicodeBraceDigits (p + 3) (p + 3 + ds.length) []]] :=
      runs_choice_l (runs_call hrun)
    have := runsRule_compound (at_ := at_) look_StringCharacter body
    have e : SItem.text (.ubrace ds) ++ rest = '\\' :: 'u' :: '{' :: (ds ++ '}' :: rest) := by simp [SItem.text]
    rw [e]
    refine RunsRule.mono ?_ (by simp [SItem.text] : ds.length + 32 + 1 ≤ (SItem.text (.ubrace ds)).length + 40)
    have e2 : p + (SItem.text (.ubrace ds)).length = p + (ds.length + 4) := by simp [SItem.text]
    simpa [SItem.pair, e2] using this

/-! ### the body and the literal -/

def AllOk (its : List SItem) : Prop := ∀ it ∈ its, it.Ok

theorem lit_star (its : List SItem) (hok : AllOk its) : ∀ (p : Nat) (tail : List Char),
    Runs gList ((litText its).length + 45) false (.star (.call R.StringCharacter)) .compound
      ⟨p, litText its ++ '"' :: tail⟩ ⟨p + (litText its).length, '"' :: tail⟩ (litPairs its p) := by
  induction its with
  | nil =>
    intro p tail
    have := runs_star_nil (fails_call (sk := false) (sc_fails_quote (p := p) (r := tail) (at_ := .compound)))
    simpa [litText, litPairs] using this.mono (by omega : 12 ≤ 45)
  | cons it its ih =>
    intro p tail
    have h1 := runs_call (sk := false) (sc_item_runs it (hok it (List.mem_cons_self ..)) p (litText its ++ '"' :: tail)
      (at_ := .compound))
    have h2 := ih (fun x hx => hok x (List.mem_cons_of_mem _ hx)) (p + it.text.length) tail
    have hpos := text_length_pos it
    have := runs_star_cons (h1.mono (by omega : it.text.length + 40 + 1 ≤ it.text.length + (litText its).length + 44))
      (h2.mono (by omega : (litText its).length + 45 ≤ it.text.length + (litText its).length + 44))
    rw [litText_cons]
    refine Runs.cast (this.mono (by simp)) (by simp) ?_ (by simp [litPairs])
    congr 1; simp; omega

/-- the `StringValue` pair of the literal `"` items `"` (at least one item) written at offset `p` -/
def litPair (its : List SItem) (p : Nat) : Pair :=
  .mk R.StringValue p (p + ((litText its).length + 2))
    [.mk R.NormalStringValue p (p + ((litText its).length + 2)) (litPairs its (p + 1))]

/-- `StringValue` on the literal of a non-empty list of items, embedded at offset `p`, in any context -/
theorem litValue_runs (it : SItem) (its : List SItem) (hok : AllOk (it :: its)) (p : Nat) (rest : List Char)
    {at_ : Atomicity} :
    RunsRule gList ((litText (it :: its)).length + 60) R.StringValue at_
      ⟨p, '"' :: (litText (it :: its) ++ '"' :: rest)⟩ ⟨p + ((litText (it :: its)).length + 2), rest⟩
      [litPair (it :: its) p] := by
  have hit := hok it (List.mem_cons_self ..)
  have hoks : AllOk its := fun x hx => hok x (List.mem_cons_of_mem _ hx)
  obtain ⟨d0, r0, ht0, hd0⟩ := text_head it hit
  have hempty : FailsRule gList 3 R.EmptyStringValue .compound ⟨p, '"' :: (litText (it :: its) ++ '"' :: rest)⟩ := by
    refine failsRule_atomic look_EmptyStringValue (fails_seq_first (fails_str (c := ⟨p, _⟩) ?_))
    rw [litText_cons, ht0]
    simp [matchStr, Ne.symm hd0]
  generalize hL : (litText (it :: its)).length = L
  have h1 : Runs gList (L + 50) false (.str ['"']) .compound ⟨p, '"' :: (litText (it :: its) ++ '"' :: rest)⟩
      ⟨p + 1, litText (it :: its) ++ '"' :: rest⟩ [] :=
    (runs_str (c := ⟨p, '"' :: (litText (it :: its) ++ '"' :: rest)⟩) (r := litText (it :: its) ++ '"' :: rest)
      (by simp [matchStr])).mono (by omega)
  have hsc := runs_call (sk := false) (sc_item_runs it hit (p + 1) (litText its ++ '"' :: rest) (at_ := .compound))
  have hst := lit_star its hoks (p + 1 + it.text.length) rest
  have hLe : L = it.text.length + (litText its).length := by rw [← hL, litText_cons]; simp
  have hplus : Runs gList (L + 48) false (.plus (.call R.StringCharacter)) .compound
      ⟨p + 1, litText (it :: its) ++ '"' :: rest⟩ ⟨p + 1 + L, '"' :: rest⟩ (litPairs (it :: its) (p + 1)) := by
    have := runsL_plus (la := .none) (runs_seq_nosk (hsc.mono (by omega : _ ≤ L + 45)) (hst.mono (by omega)))
    refine Runs.cast (this.mono (by omega)) (by rw [litText_cons]; simp) ?_ (by simp [litPairs])
    congr 1; omega
  have h3 : Runs gList (L + 48) false (.str ['"']) .compound ⟨p + 1 + L, '"' :: rest⟩ ⟨p + 1 + L + 1, rest⟩ [] :=
    (runs_str (c := ⟨p + 1 + L, '"' :: rest⟩) (r := rest) (by simp [matchStr])).mono (by omega)
  have inner := runs_seq_nosk hplus h3
  have outer := runs_seq_nosk h1 inner
  have hn := runsRule_compound (at_ := .compound) look_NormalStringValue outer
  have body := runs_choice_r ((fails_call (sk := false) hempty).mono (by omega : 4 ≤ L + 55))
    (runs_choice_l (b := .call R.BlockStringValue) (runs_call (sk := false) hn))
  have := runsRule_compound (at_ := at_) look_StringValue body
  refine RunsRule.mono ?_ (by omega : L + 55 + 1 + 1 ≤ L + 60)
  have e : p + 1 + L + 1 = p + (L + 2) := by omega
  simpa [litPair, hL, e] using this

end NitroVerif.StringParse
