/-
Directive definitions as items of a type-system document (helper lemmas for Props/C07Doc):
`Description? directive @ Name ArgumentsDefinition? repeatable? on Location (| Location)*`.
-/
import NitroVerif.Lemmas.ParseDocTsLoc
namespace NitroVerif.DocParse
open NitroVerif.Peg NitroVerif.Gen NitroVerif.Gen.Parts NitroVerif.Build NitroVerif.TypeParse NitroVerif.StringParse
open NitroVerif.Gql NitroVerif.ValueParse NitroVerif.Spec.Lex NitroVerif.ParseText

set_option linter.unusedSimpArgs false

theorem look_DirectiveLocations : gList.look R.DirectiveLocations = some (.normal, .seq (.opt (.str ['|']))
    (.seq (.call R.DirectiveLocation) (.star (.seq (.str ['|']) (.call R.DirectiveLocation))))) := rfl
theorem look_DirectiveDefinition' : gList.look R.DirectiveDefinition = some (.normal,
    .seq (.opt (.call R.Description)) (.seq (.call R.KEYWORD_directive) (.seq (.str ['@']) (.seq (.call R.Name)
      (.seq (.opt (.call R.ArgumentsDefinition)) (.seq (.opt (.call R.KEYWORD_repeatable)) (.seq (.call R.KEYWORD_on)
        (.call R.DirectiveLocations)))))))) := rfl

abbrev kwRepeatable : List Char := ['r', 'e', 'p', 'e', 'a', 't', 'a', 'b', 'l', 'e']
theorem look_KEYWORD_repeatable : gList.look R.KEYWORD_repeatable =
    some (.atomic, .seq (.str kwRepeatable) (.not (.call R.NameContinue))) := rfl

variable {inp : List Char}

theorem mapItems_const {α β : Type} (ri : Bool → Nat → α → List Char) (sm sl : Bool) (g : α → β) :
    ∀ (as : List α) (p : Nat), mapItems ri sm sl (fun _ _ x => g x) p as = as.map g := by
  intro as
  induction as with
  | nil => intro p; rfl
  | cons a r ih =>
    intro p
    cases r with
    | nil => simp [mapItems]
    | cons b r => simp only [mapItems, List.map_cons, ih]

def LocItemGood (inp : List Char) : Bool → Nat → (Name × Pos) → Pair → Prop := fun _ _ x pr => LocGood inp x.1.toList pr

/-- `Location (| Location)*` on a non-empty list of location words; what follows must not begin with `|` -/
theorem locsListT (τ : Trivia) (hτ : ∀ q, Ws (τ q)) (n : Name × Pos) (rest : List (Name × Pos))
    (hv : ∀ x ∈ n :: rest, x.1.toList ∈ locWords) {sep : Bool} {p : Nat} {bad : Char → Prop}
    (hb : bad '|') (h : HasAt inp p (rNames τ '|' sep p (n :: rest)))
    (hn : Nxt inp bad sep (p + (rNames τ '|' sep p (n :: rest)).length)) :
    ∃ pss, RunsK (B (rNames τ '|' sep p (n :: rest)).length + 40)
        (.seq (.call R.DirectiveLocation) (.star (.seq (.str ['|']) (.call R.DirectiveLocation)))) (At inp p)
        (At inp (p + (rNames τ '|' sep p (n :: rest)).length)) pss ∧
      (∀ x ∈ pss, x.rule = R.DirectiveLocation) ∧ CleanL pss ∧
      pss.map (asString (Ctx.spec inp)) = (n :: rest).map (·.1) := by
  simp only [rNames] at h hn ⊢
  generalize hs1 : (sep && rest.isEmpty) = s1 at *
  generalize hN : tk τ s1 p n.1.toList = tN at *
  generalize hI : renderItems (riSepName τ '|') false sep (p + tN.length) rest = tI at *
  have hlen : p + (tN ++ tI).length = p + tN.length + tI.length := by simp only [List.length_append]; omega
  rw [hlen] at hn ⊢
  have g0 : HasAt inp p tN := h.left
  have g1 : HasAt inp (p + tN.length) tI := h.right
  have hvn := hv n (List.mem_cons_self ..)
  have hhd : ∀ x s q, Hd (· = '|') (riSepName τ '|' s q x) := fun x s q =>
    Hd.append (hd_tk (P := (· = '|')) (hd_cons [] rfl)) _
  -- one `| Location` item
  have hitem : ∀ x ∈ rest, ∀ s q, HasAt inp q (riSepName τ '|' s q x) →
      Nxt inp (fun _ => False) s (q + (riSepName τ '|' s q x).length) →
      ∃ pr, RunsK (B (riSepName τ '|' s q x).length + 20) (.seq (.str ['|']) (.call R.DirectiveLocation)) (At inp q)
        (At inp (q + (riSepName τ '|' s q x).length)) [pr] ∧ LocItemGood inp s q x pr := by
    intro x hx s q hat hnx
    simp only [riSepName, LocItemGood] at hat hnx ⊢
    generalize hC : tk τ false q ['|'] = tC at *
    generalize hM : tk τ s (q + tC.length) x.1.toList = tM at *
    have hl : q + (tC ++ tM).length = q + tC.length + tM.length := by simp only [List.length_append]; omega
    rw [hl] at hnx ⊢
    have hxv := hv x (List.mem_cons_of_mem _ hx)
    have a0 : HasAt inp q tC := hat.left
    have a1 : HasAt inp (q + tC.length) tM := hat.right
    have r0 := strT hτ ['|'] (hC ▸ a0) (by
      rw [hC]; exact tok_of_hd a1 (hM ▸ hd_tk (locWords_ok _ hxv).1) (fun d => nameStart_not_trivia))
    obtain ⟨pr, r1, hgd⟩ := locT hτ hxv (hM ▸ a1) (by rw [hM]; exact hnx)
    rw [hC] at r0
    rw [hM] at r1
    exact ⟨pr, RunsK.cast ((runsK_seq r0 r1).mono (by barith)) rfl rfl (by simp), hgd⟩
  -- the first word
  have hnx0 : Nxt inp (fun _ => False) s1 (p + tN.length) := by
    cases rest with
    | nil =>
      have hI0 : tI = [] := by rw [← hI]; rfl
      subst hI0
      have hs : s1 = sep := by rw [← hs1]; simp
      rw [hs]
      have : Nxt inp bad sep (p + tN.length) := by simpa using hn
      exact ⟨this.tok, fun _ _ _ h => h, this.glue⟩
    | cons m ms =>
      obtain ⟨s', tail, htl⟩ := renderItems_cons (riSepName τ '|') false sep (p + tN.length) m ms
      exact Nxt.of_hd g1 (hI ▸ htl ▸ (hhd m s' _).append _) (by rintro d rfl; decide)
  obtain ⟨pr0, r0, hg0⟩ := locT hτ hvn (hN ▸ g0) (by rw [hN]; exact hnx0)
  rw [hN] at r0
  have hfailE : Fails gList (20 + 100) true (.seq (.str ['|']) (.call R.DirectiveLocation)) .nonAtomic
      (At inp (p + tN.length + tI.length)) :=
    (fails_seq_1 (str_fails (headNot_mono (fun d (hd : d = '|') => hd ▸ hb) hn.ok))).mono (by omega)
  cases rest with
  | nil =>
    have hI0 : tI = [] := by rw [← hI]; rfl
    subst hI0
    simp only [List.length_nil, Nat.add_zero] at hn hfailE ⊢
    have rS := runsK_star (ManyK.nil hfailE hn.tok)
    refine ⟨_, (runsK_seq r0 rS).mono (by barith), ?_, ?_, ?_⟩
    · intro x hx; simp at hx; subst hx; exact hg0.1
    · exact ⟨hg0.2.1, trivial⟩
    · simp [hg0.2.2]
  | cons m ms =>
    obtain ⟨pss, hmany, hgood⟩ := items_many1K (riSepName τ '|') false sep (.seq (.str ['|']) (.call R.DirectiveLocation))
      (fun _ _ => False) 20 (LocItemGood inp) ms m (p + tN.length) hitem
      (fun x _ s q => (hhd x s q).mono (by rintro d rfl; exact ⟨by decide, id, fun _ => by decide⟩))
      (hI ▸ g1) (by rw [hI]; exact ⟨hn.tok, fun _ _ _ h => h, hn.glue⟩) (by rw [hI]; exact hfailE)
    rw [hI] at hmany
    obtain ⟨k, hk, hmany'⟩ := hmany.many
    have rS := runsK_star hmany'
    have hrules : ∀ x ∈ pss, x.rule = R.DirectiveLocation :=
      goodItems_forall (riSepName τ '|') false sep _ (fun x => x.rule = R.DirectiveLocation) (m :: ms)
        (fun x _ s q pr hg => hg.1) _ pss hgood
    have hclean : CleanL pss := goodItems_clean (riSepName τ '|') false sep _ (m :: ms)
      (fun x _ s q pr hg => hg.2.1) _ pss hgood
    have hmap := goodItems_map (riSepName τ '|') false sep (LocItemGood inp) (asString (Ctx.spec inp))
      (fun _ _ x => x.1) (m :: ms) (fun x _ s q pr hg => by rw [hg.2.2]; simp) _ pss hgood
    rw [mapItems_const] at hmap
    refine ⟨_, (runsK_seq r0 rS).mono (by barith), ?_, ?_, ?_⟩
    · intro x hx
      simp only [List.singleton_append, List.mem_cons] at hx
      rcases hx with rfl | hx
      · exact hg0.1
      · exact hrules x hx
    · exact ⟨hg0.2.1, hclean⟩
    · simp [hg0.2.2, hmap]

/-- the `DirectiveLocations` rule -/
theorem locsT (τ : Trivia) (hτ : ∀ q, Ws (τ q)) (n : Name × Pos) (rest : List (Name × Pos))
    (hv : ∀ x ∈ n :: rest, x.1.toList ∈ locWords) {sep : Bool} {p : Nat} {bad : Char → Prop} (hb : bad '|')
    (h : HasAt inp p (rNames τ '|' sep p (n :: rest))) (hn : Nxt inp bad sep (p + (rNames τ '|' sep p (n :: rest)).length)) :
    ∃ pr, RunsK (B (rNames τ '|' sep p (n :: rest)).length + 50) (.call R.DirectiveLocations) (At inp p)
        (At inp (p + (rNames τ '|' sep p (n :: rest)).length)) [pr] ∧ PairOk R.DirectiveLocations p pr ∧
      (allChildren AC_DirectiveLocations pr).map (List.map (asString (Ctx.spec inp))) = .ok ((n :: rest).map (·.1)) := by
  have hdN : Hd nameStart (rNames τ '|' sep p (n :: rest)) := by
    simp only [rNames]
    exact Hd.append (hd_tk (locWords_ok _ (hv n (List.mem_cons_self ..))).1) _
  have rBar : RunsK 22 (.opt (.str ['|'])) (At inp p) (At inp p) [] :=
    (runsK_opt_none (str_fails (headNot_of_hd h hdN (fun d hd => (nameStart_not_punct hd).2.2.2.2.2.2.2.2.2.2.2.2.1)))
      (tok_of_hd h hdN (fun d => nameStart_not_trivia))).mono (by simp)
  obtain ⟨pss, rN, hrules, hclean, hmap⟩ := locsListT τ hτ n rest hv hb h hn
  obtain ⟨e, rU⟩ := runsK_rule look_DirectiveLocations (by decide) (by decide) (runsK_seq rBar rN)
  have hall : allChildrenGo AC_DirectiveLocations pss = .ok () := by
    clear hmap hclean rU rN
    induction pss with
    | nil => rfl
    | cons x xs ih =>
      simp only [allChildrenGo, AC_DirectiveLocations, hrules x (List.mem_cons_self ..), if_true]
      exact ih (fun y hy => hrules y (List.mem_cons_of_mem _ hy))
  refine ⟨.mk R.DirectiveLocations p e pss, RunsK.cast (rU.mono (by barith)) rfl rfl (by simp [At]),
    pairOk_mk (by decide) (by decide) hclean, ?_⟩
  simp [allChildren, Pair.children, hall, hmap, bind, Except.bind, Except.map]

/-! ### `repeatable?` -/

def rOptRep (τ : Trivia) (p : Nat) : Bool → List Char
  | true => tk τ true p kwRepeatable
  | false => []

theorem repT {τ : Trivia} (hτ : ∀ q, Ws (τ q)) (b : Bool) {p : Nat} {Rr : List Char} (h : HasAt inp p (rOptRep τ p b))
    (hR : HasAt inp (p + (rOptRep τ p b).length) Rr) (hdR : Hd (· = 'o') Rr) :
    ∃ o : Option Pair, RunsK (B (rOptRep τ p b).length + 25) (.opt (.call R.KEYWORD_repeatable)) (At inp p)
        (At inp (p + (rOptRep τ p b).length)) o.toList ∧ o.isSome = b ∧
      ∀ x ∈ o, x.rule = R.KEYWORD_repeatable ∧ CleanP x := by
  cases b with
  | false =>
    simp only [rOptRep, List.length_nil, Nat.add_zero] at hR ⊢
    have hf : Fails gList 13 true (.call R.KEYWORD_repeatable) .nonAtomic (At inp p) :=
      kw_fails_head (la := .none) look_KEYWORD_repeatable (headNot_of_hd hR hdR (by rintro d rfl; decide))
    exact ⟨none, (runsK_opt_none hf (tok_of_hd hR hdR (by rintro d rfl; decide))).mono (by barith), rfl, by simp⟩
  | true =>
    simp only [rOptRep] at h hR ⊢
    have r := kwT hτ look_KEYWORD_repeatable h (bad := fun _ => False)
      (Nxt.of_hd_sep hR hdR (by rintro d rfl; exact ⟨by decide, id⟩))
    refine ⟨some _, (runsK_opt_some r.toK).mono (by barith), rfl, ?_⟩
    intro x hx; cases hx
    exact ⟨rfl, cleanP_of (by decide) (by decide) trivial⟩

/-! ### directive definition -/

/-- the location names as the `(name, position)` pairs `rNames` renders -/
def locNames (d : DirectiveDef) : List (Name × Pos) := d.locations.map (fun l => (l, ({} : Pos)))

def rDirectiveDef (τ : Trivia) (sep : Bool) (p : Nat) (d : DirectiveDef) : List Char :=
  let tS := rOptDesc τ p d.desc
  let tK := tk τ false (p + tS.length) kwDirective
  let tA := tk τ false (p + tS.length + tK.length) ['@']
  let tN := tk τ d.args.isEmpty (p + tS.length + tK.length + tA.length) d.name.toList
  let tG := rOptArgsDef τ false (p + tS.length + tK.length + tA.length + tN.length) d.args
  let tR := rOptRep τ (p + tS.length + tK.length + tA.length + tN.length + tG.length) d.repeatable
  let tO := tk τ true (p + tS.length + tK.length + tA.length + tN.length + tG.length + tR.length) kwOn
  tS ++ (tK ++ (tA ++ (tN ++ (tG ++ (tR ++ (tO ++
    rNames τ '|' sep (p + tS.length + tK.length + tA.length + tN.length + tG.length + tR.length + tO.length)
      (locNames d)))))))

def wpDirectiveDef (τ : Trivia) (inp : List Char) (_sep : Bool) (p : Nat) (d : DirectiveDef) : DirectiveDef :=
  let tS := rOptDesc τ p d.desc
  let tK := tk τ false (p + tS.length) kwDirective
  let tA := tk τ false (p + tS.length + tK.length) ['@']
  let tN := tk τ d.args.isEmpty (p + tS.length + tK.length + tA.length) d.name.toList
  { desc := d.desc, name := d.name, namePos := posAt inp (p + tS.length + tK.length + tA.length),
    args := wpIVDs τ inp (p + tS.length + tK.length + tA.length + tN.length +
      (tk τ false (p + tS.length + tK.length + tA.length + tN.length) ['(']).length) d.args,
    repeatable := d.repeatable, locations := d.locations, pos := posAt inp (p + tS.length) }

/-- well-formed directive definitions: valid name, well-formed argument definitions, at least one location, every location
    one of the 19 words of the grammar -/
def WFDirectiveDef (d : DirectiveDef) : Prop :=
  validName d.name.toList ∧ (∀ v ∈ d.args, WFIVD v) ∧ d.locations ≠ [] ∧ ∀ l ∈ d.locations, l.toList ∈ locWords

theorem p_directiveDef_nodup : (P_DirectiveDefinition.map itemRule).Nodup := by decide

theorem hd_rDirectiveDef (τ : Trivia) (sep : Bool) (p : Nat) (d : DirectiveDef) :
    Hd (fun c => nameStart c ∨ c = '"') (rDirectiveDef τ sep p d) := by
  simp only [rDirectiveDef]
  cases d.desc with
  | none =>
    simp only [rOptDesc, List.nil_append, List.length_nil, Nat.add_zero]
    exact Hd.append (hd_tk (P := fun d => nameStart d ∨ d = '"')
      ((hd_of_validName kw_words_valid.2.2).mono (fun _ h => Or.inl h))) _
  | some s =>
    simp only [rOptDesc]
    exact Hd.append (hd_tk (P := fun d => nameStart d ∨ d = '"') ⟨'"', _, rfl, Or.inr rfl⟩) _

theorem buildItem_directiveDef (ctx : Ctx) (fuel : Nat) (p e e2 e3 : Nat) (cs : List Pair) (dd : DirectiveDef)
    (h : buildDirectiveDefinition ctx fuel (.mk R.DirectiveDefinition p e cs) = .ok dd) :
    buildTypeSystemDefinitionOrExtension ctx fuel (.mk R.TypeSystemDefinitionOrExtension p e3
      [.mk R.TypeSystemDefinition p e2 [.mk R.DirectiveDefinition p e cs]]) = .ok (.directiveDef dd) := by
  simp [buildTypeSystemDefinitionOrExtension, onlyChildOf, onlyChild, Pair.children, Pair.rule,
    OC_TypeSystemDefinitionOrExtension, OC_TypeSystemDefinition, h, bind, Except.bind, pure, Except.pure,
    R.TypeSystemDefinition, R.SchemaDefinition, R.TypeDefinition, R.DirectiveDefinition]

theorem directiveDefT (τ : Trivia) (hτ : ∀ q, Ws (τ q)) (d : DirectiveDef) (hwf : WFDirectiveDef d) {sep : Bool} {p : Nat}
    (h : HasAt inp p (rDirectiveDef τ sep p d)) (hn : Nxt inp tdBad sep (p + (rDirectiveDef τ sep p d).length)) :
    TsItemOk inp p (rDirectiveDef τ sep p d) (.directiveDef (wpDirectiveDef τ inp sep p d)) := by
  obtain ⟨hname, hargs, hlne, hlv⟩ := hwf
  unfold TsItemOk
  obtain ⟨l0, ls, hls⟩ : ∃ l0 ls, locNames d = l0 :: ls := by
    simp only [locNames]
    cases hh : d.locations with
    | nil => exact absurd hh hlne
    | cons a r => exact ⟨_, _, rfl⟩
  have hlv' : ∀ x ∈ l0 :: ls, x.1.toList ∈ locWords := by
    rw [← hls]
    intro x hx
    simp only [locNames, List.mem_map] at hx
    obtain ⟨l, hl, rfl⟩ := hx
    exact hlv l hl
  have hlmap : (l0 :: ls).map (·.1) = d.locations := by
    rw [← hls, locNames, List.map_map]
    exact (List.map_congr_left (fun _ _ => rfl)).trans (List.map_id _)
  simp only [rDirectiveDef, wpDirectiveDef] at h hn ⊢
  rw [hls] at h hn ⊢
  generalize hS : rOptDesc τ p d.desc = tS at *
  generalize hK : tk τ false (p + tS.length) kwDirective = tK at *
  generalize hA : tk τ false (p + tS.length + tK.length) ['@'] = tA at *
  generalize hsN : d.args.isEmpty = sN at *
  generalize hN : tk τ sN (p + tS.length + tK.length + tA.length) d.name.toList = tN at *
  generalize hG : rOptArgsDef τ false (p + tS.length + tK.length + tA.length + tN.length) d.args = tG at *
  generalize hR : rOptRep τ (p + tS.length + tK.length + tA.length + tN.length + tG.length) d.repeatable = tR at *
  generalize hO : tk τ true (p + tS.length + tK.length + tA.length + tN.length + tG.length + tR.length) kwOn = tO at *
  generalize hL : rNames τ '|' sep (p + tS.length + tK.length + tA.length + tN.length + tG.length + tR.length + tO.length)
    (l0 :: ls) = tL at *
  have hlen : p + (tS ++ (tK ++ (tA ++ (tN ++ (tG ++ (tR ++ (tO ++ tL))))))).length =
      p + tS.length + tK.length + tA.length + tN.length + tG.length + tR.length + tO.length + tL.length := by
    simp only [List.length_append]; omega
  rw [hlen] at hn ⊢
  have g0 : HasAt inp p tS := h.left
  have g1 : HasAt inp (p + tS.length) tK := h.right.left
  have g2 : HasAt inp (p + tS.length + tK.length) tA := h.right.right.left
  have g3 : HasAt inp (p + tS.length + tK.length + tA.length) tN := h.right.right.right.left
  have g4 : HasAt inp (p + tS.length + tK.length + tA.length + tN.length) tG := h.right.right.right.right.left
  have g5 : HasAt inp (p + tS.length + tK.length + tA.length + tN.length + tG.length) tR :=
    h.right.right.right.right.right.left
  have g6 : HasAt inp (p + tS.length + tK.length + tA.length + tN.length + tG.length + tR.length) tO :=
    h.right.right.right.right.right.right.left
  have g7 : HasAt inp (p + tS.length + tK.length + tA.length + tN.length + tG.length + tR.length + tO.length) tL :=
    h.right.right.right.right.right.right.right
  have g5' : HasAt inp (p + tS.length + tK.length + tA.length + tN.length + tG.length) (tR ++ (tO ++ tL)) :=
    h.right.right.right.right.right
  have hdK : Hd nameStart tK := hK ▸ hd_tk (hd_of_validName kw_words_valid.2.2)
  have hdA : Hd (· = '@') tA := hA ▸ hd_tk (hd_cons _ rfl)
  have hdN : Hd nameStart tN := hN ▸ hd_tk (hd_of_validName hname)
  have hdO : Hd (· = 'o') tO := hO ▸ hd_tk (hd_cons _ rfl)
  have hdL : Hd nameStart tL := by
    rw [← hL]; simp only [rNames]
    exact Hd.append (hd_tk (locWords_ok _ (hlv' l0 (List.mem_cons_self ..))).1) _
  have hdRO : Hd nameStart (tR ++ (tO ++ tL)) := by
    rw [← hR]
    cases d.repeatable with
    | true => exact Hd.append (hd_tk (hd_of_validName (validName_of_lower _ (by simp) (by decide)))) _
    | false => simpa [rOptRep] using (hdO.mono (by rintro c rfl; decide)).append tL
  -- what follows the name
  have n4 : Nxt inp (fun _ => False) sN (p + tS.length + tK.length + tA.length + tN.length) := by
    cases hargs0 : d.args with
    | nil =>
      have hG0 : tG = [] := by rw [← hG, hargs0]; rfl
      have hs : sN = true := by rw [← hsN, hargs0]; rfl
      subst hG0
      rw [hs]
      have g5'' : HasAt inp (p + tS.length + tK.length + tA.length + tN.length) (tR ++ (tO ++ tL)) := by simpa using g5'
      exact Nxt.of_hd_sep g5'' hdRO (fun c hc => ⟨nameStart_not_trivia hc, id⟩)
    | cons a r =>
      have hdG : Hd (· = '(') tG := by rw [← hG, hargs0]; exact hd_rBraced _ _ τ '(' ')' false _ _
      exact Nxt.of_hd g4 hdG (by rintro c rfl; decide)
  obtain ⟨oS, rS, hokS, hbS⟩ := optDescT hτ d.desc (hS ▸ g0)
    (by rw [hS]; exact tok_of_hd g1 hdK (fun d => nameStart_not_trivia))
    (by rw [hS]; exact headNot_of_hd g1 hdK (fun d hd => (nameStart_not_punct hd).2.2.2.2.2.2.2.2.2.2.2.2.2.2.1))
  rw [hS] at rS
  have nK : Nxt inp (fun _ => False) false (p + tS.length + tK.length) :=
    Nxt.of_hd g2 hdA (by rintro c rfl; decide)
  have rK := kwT hτ look_KEYWORD_directive (hK ▸ g1) (bad := fun _ => False) (by rw [hK]; exact nK)
  rw [hK] at rK
  have rA := strT hτ ['@'] (hA ▸ g2) (by rw [hA]; exact tok_of_hd g3 hdN (fun d => nameStart_not_trivia))
  rw [hA] at rA
  have rN := nameT hτ hname (hN ▸ g3) (by rw [hN]; exact n4)
  rw [hN] at rN
  obtain ⟨oG, rG, hokG, hbG⟩ := optArgsDefT τ hτ d.args hargs (hG ▸ g4)
    (by rw [hG]; exact tok_of_hd g5' hdRO (fun d => nameStart_not_trivia))
    (by rw [hG]; exact headNot_of_hd g5' hdRO (fun d hd => (nameStart_not_punct hd).1))
  rw [hG] at rG hbG
  obtain ⟨oR, rR, hoR, hokR⟩ := repT hτ d.repeatable (hR ▸ g5) (by rw [hR]; exact g6) hdO
  rw [hR] at rR
  have rO := kwT hτ look_KEYWORD_on (hO ▸ g6) (bad := fun _ => False)
    (by rw [hO]; exact Nxt.of_hd_sep g7 hdL (fun c hc => ⟨nameStart_not_trivia hc, id⟩))
  rw [hO] at rO
  obtain ⟨prL, rL, hokL, hbL⟩ := locsT τ hτ l0 ls hlv' (bad := tdBad)
    (Or.inr (Or.inr (Or.inr (Or.inr (Or.inl rfl))))) (hL ▸ g7) (by rw [hL]; exact hn)
  rw [hL] at rL
  obtain ⟨e, rDD⟩ := runsK_rule look_DirectiveDefinition' (by decide) (by decide)
    (runsK_seq rS (runsK_seq rK.toK (runsK_seq rA (runsK_seq rN.toK (runsK_seq rG (runsK_seq rR
      (runsK_seq rO.toK rL)))))))
  -- the earlier alternatives of `TypeSystemDefinition` fail: the keyword is neither `schema` nor one of the six
  have h' : HasAt inp p (rOptDesc τ p d.desc ++ tk τ false (p + (rOptDesc τ p d.desc).length) kwDirective) := by
    rw [hS, hK]; exact hasAt_append.mpr ⟨g0, g1⟩
  have hn' : Nxt inp (fun _ => False) false
      (p + (rOptDesc τ p d.desc).length + (tk τ false (p + (rOptDesc τ p d.desc).length) kwDirective).length) := by
    rw [hS, hK]; exact nK
  have fs := schemaDef_fails_kw hτ d.desc kwDirective kw_words_valid.2.2 (by decide) h' hn'
  have ft := typeDefinition_fails_kw hτ d.desc kwDirective kw_words_valid.2.2 (by intro k; cases k <;> decide) h' hn'
  rw [hS] at fs ft
  obtain ⟨e2, rTSD⟩ := runsK_rule look_TypeSystemDefinition (by decide) (by decide)
    (runsK_choice_r fs (runsK_choice_r ft rDD))
  obtain ⟨e3, rI⟩ := runsK_rule look_TSDOE (by decide) (by decide)
    (runsK_choice_l (b := .call R.TypeSystemExtension) rTSD)
  have hlK : 1 ≤ tK.length := hdK.length_pos
  have hlA : 1 ≤ tA.length := hdA.length_pos
  have hlN : 1 ≤ tN.length := hdN.length_pos
  have hlO : 1 ≤ tO.length := hdO.length_pos
  refine ⟨_, rI.mono (by barith), ?_, ?_⟩
  · refine pairOk_mk (by decide) (by decide) ⟨cleanP_of (by decide) (by decide) ⟨cleanP_of (by decide) (by decide) ?_,
      trivial⟩, trivial⟩
    simp only [cleanL_append, cleanL_cons, cleanL_nil, and_true]
    exact ⟨clean_opt (fun x hx => (hokS x hx).2), cleanP_of (by decide) (by decide) trivial, trivial,
      cleanP_of (by decide) (by decide) trivial, clean_opt (fun x hx => (hokG x hx).clean),
      clean_opt (fun x hx => (hokR x hx).2), cleanP_of (by decide) (by decide) trivial, hokL.clean⟩
  · intro fuel hf
    have hf' : tS.length + (tK.length + (tA.length + (tN.length + (tG.length + (tR.length + (tO.length + tL.length))))))
        ≤ fuel := by simpa using hf
    have hch : oS.toList ++ ([Pair.mk R.KEYWORD_directive (p + tS.length) (p + tS.length + kwDirective.length) []] ++
          ([] ++ ([Pair.mk R.Name (p + tS.length + tK.length + tA.length)
            (p + tS.length + tK.length + tA.length + d.name.toList.length) []] ++ (oG.toList ++ (oR.toList ++
              ([Pair.mk R.KEYWORD_on (p + tS.length + tK.length + tA.length + tN.length + tG.length + tR.length)
                (p + tS.length + tK.length + tA.length + tN.length + tG.length + tR.length + kwOn.length) []] ++
                [prL])))))) =
        slotPairs [oS, some (Pair.mk R.KEYWORD_directive (p + tS.length) (p + tS.length + kwDirective.length) []),
          some (Pair.mk R.Name (p + tS.length + tK.length + tA.length)
            (p + tS.length + tK.length + tA.length + d.name.toList.length) []), oG, oR,
          some (Pair.mk R.KEYWORD_on (p + tS.length + tK.length + tA.length + tN.length + tG.length + tR.length)
            (p + tS.length + tK.length + tA.length + tN.length + tG.length + tR.length + kwOn.length) []),
          some prL] := by simp [slotPairs]
    have hm := matchParts_slots P_DirectiveDefinition _ p_directiveDef_nodup
      (show slotsOk P_DirectiveDefinition [oS, some (Pair.mk R.KEYWORD_directive (p + tS.length)
            (p + tS.length + kwDirective.length) []),
          some (Pair.mk R.Name (p + tS.length + tK.length + tA.length)
            (p + tS.length + tK.length + tA.length + d.name.toList.length) []), oG, oR,
          some (Pair.mk R.KEYWORD_on (p + tS.length + tK.length + tA.length + tN.length + tG.length + tR.length)
            (p + tS.length + tK.length + tA.length + tN.length + tG.length + tR.length + kwOn.length) []),
          some prL] from
        ⟨fun x hx => (hokS x hx).1, ⟨_, rfl, rfl⟩, ⟨_, rfl, rfl⟩, fun x hx => (hokG x hx).rule,
          fun x hx => (hokR x hx).1, ⟨_, rfl, rfl⟩, ⟨_, rfl, hokL.rule⟩, trivial⟩)
    refine buildItem_directiveDef _ _ _ _ _ _ _ _ ?_
    rw [hch]
    simp only [show kwDirective.length = 9 from rfl, show kwOn.length = 2 from rfl] at hm
    have hname' := (hN ▸ g3 : HasAt inp _ (tk τ sN _ d.name.toList)).left.slice
    have hbG' := hbG fuel (by omega)
    have hbL' : allChildren AC_DirectiveLocations prL = .ok prL.children ∧
        prL.children.map (asString (Ctx.spec inp)) = d.locations := by
      rw [hlmap] at hbL
      cases hac : allChildren AC_DirectiveLocations prL with
      | error e => rw [hac] at hbL; cases hbL
      | ok v =>
        have hv : v = prL.children := by
          simp only [allChildren, bind, Except.bind] at hac
          split at hac
          · cases hac
          · simpa using hac.symm
        subst hv
        rw [hac] at hbL
        exact ⟨rfl, by simpa [Except.map] using hbL⟩
    cases oG with
    | none =>
      have ha0 : wpIVDs τ inp (p + tS.length + tK.length + tA.length + tN.length +
          (tk τ false (p + tS.length + tK.length + tA.length + tN.length) ['(']).length) d.args = [] := by
        simpa [optArgsDefB] using hbG'.symm
      simp [buildDirectiveDefinition, Pair.children, hm, hbS, ha0, hbL'.1, hbL'.2, hoR, asString_spec', toPos_spec',
        Pair.start, Pair.stop, hname', At, bind, Except.bind, pure, Except.pure]
      exact hbL'.2
    | some a =>
      simp only [optArgsDefB] at hbG'
      simp [buildDirectiveDefinition, Pair.children, hm, hbS, hbG', hbL'.1, hbL'.2, hoR, asString_spec', toPos_spec',
        Pair.start, Pair.stop, hname', At, bind, Except.bind, pure, Except.pure]
      exact hbL'.2

end NitroVerif.DocParse
