/-
Comments inside trivia (helper lemmas for Props/C07): the `COMMENT` rule of the GENERATED grammar
(`"#" ~ " "* ~ !ext_ImportStatementContent ~ CommentCharacter* ~ (NEWLINE | EOI)`) on a comment text, and the implicit skip
`WHITESPACE* (COMMENT WHITESPACE*)*` over ARBITRARY trivia `Ws t`: a run of whitespace characters followed by any number of
(comment, run of whitespace characters).

A comment is `#`, then characters other than LF / CR which — after leading spaces — are visibly NOT the beginning of an
`#import` statement (`NotImportHead`: the text does not begin with the letters `import`, or `import` is followed by a name
character as in `important`, or after `import` and blanks comes a character that can start neither a name nor `*` nor a
nested comment — the rule's negative lookahead `!ext_ImportStatementContent` is followed through the keyword and the first
import target), then a line terminator LF, CR LF or CR.
-/
import NitroVerif.Lemmas.ParseLex
import NitroVerif.Lemmas.TypeRoundTrip
import NitroVerif.Lemmas.ParseMoreLook
namespace NitroVerif.ValueParse
open NitroVerif.Peg NitroVerif.Gen NitroVerif.Build NitroVerif.TypeParse

theorem look_COMMENT_full : gList.look R.COMMENT = some (.silent, .seq (.str ['#']) (.seq (.star (.str [' ']))
    (.seq (.not (.call R.ext_ImportStatementContent)) (.seq (.star (.call R.CommentCharacter))
      (.choice (.call R.NEWLINE) (.call R.EOI)))))) := rfl
theorem look_CommentCharacter : gList.look R.CommentCharacter = some (.normal, .seq (.not (.call R.NEWLINE)) .any) := rfl
theorem look_ext_KEYWORD_import : gList.look R.ext_KEYWORD_import =
    some (.atomic, .seq (.str ['i', 'm', 'p', 'o', 'r', 't']) (.not (.call R.NameContinue))) := rfl
theorem look_ext_ISC : ∃ tl, gList.look R.ext_ImportStatementContent =
    some (.nonAtomic, .seq (.call R.ext_KEYWORD_import) tl) := ⟨_, rfl⟩

abbrev kwImport : List Char := ['i', 'm', 'p', 'o', 'r', 't']

/-- whitespace characters that do not end a line: BOM, tab, space, comma -/
def lineWs (x : Char) : Prop := x = Char.ofNat 65279 ∨ x = '\t' ∨ x = ' ' ∨ x = ','
instance (x : Char) : Decidable (lineWs x) := by unfold lineWs; infer_instance

/-- why a comment text `b` (leading spaces removed) is not the beginning of an `#import` statement, visibly within the line:
    it does not begin with `import`; or `import` is followed by a name character (`important`, `imports`); or after
    `import` and blanks `w` comes a character `d` that starts neither a name, nor `*`, nor a nested comment, nor is a blank
    (`# import: see below`, `#import "x"`, `# import 2 files`) -/
def NotImportHead (b : List Char) : Prop :=
  ¬ (kwImport <+: b) ∨
  (∃ d r, b = kwImport ++ d :: r ∧ nameCont d) ∨
  (∃ w d r, b = kwImport ++ (w ++ d :: r) ∧ (∀ x ∈ w, lineWs x) ∧ (w = [] → ¬ nameCont d) ∧ ¬ nameStart d ∧ d ≠ '*' ∧
    d ≠ '#' ∧ ¬ lineWs d)

/-- the text of a comment after `#`: `body` then the line terminator `nl` -/
structure CommentText (body nl : List Char) : Prop where
  chars : ∀ x ∈ body, x ≠ '\n' ∧ x ≠ '\r'
  noImport : NotImportHead (body.dropWhile (· = ' '))
  nl : nl = ['\n'] ∨ nl = ['\r', '\n'] ∨ nl = ['\r']

/-! ### more rule-call combinators -/

/-- a non-special normal rule called in an ATOMIC context: no pair, the body runs under Atomic with skip calls that do
    nothing -/
theorem runsRuleL_normal_atomic {la n r body c c' ps} (hl : gList.look r = some (.normal, body))
    (hsp : ¬ (gList.ws = some r ∨ gList.cm = some r)) (hb : RunsL gList la n true body .atomic c c' ps) :
    RunsRuleL gList la (n + 1) r .atomic c c' ps := by
  intro tr
  obtain ⟨tr1, h1⟩ := hb { tr with steps := tr.steps + 1 }
  refine ⟨if la = .neg then track tr1 .atomic c.pos else tr1, fun f hf => ?_⟩
  obtain ⟨f', rfl⟩ : ∃ f', f = f' + 1 := ⟨f - 1, by omega⟩
  simp only [callRule, hl, hsp, if_false, h1 f' (by omega), ruleWrap]
  simp

theorem failsRuleL_normal_atomic {la n r body c} (hl : gList.look r = some (.normal, body))
    (hsp : ¬ (gList.ws = some r ∨ gList.cm = some r)) (hb : FailsL gList la n true body .atomic c) :
    FailsRuleL gList la (n + 1) r .atomic c := by
  intro tr
  obtain ⟨tr1, h1⟩ := hb { tr with steps := tr.steps + 1 }
  refine ⟨if la ≠ .neg then track tr1 .atomic c.pos else tr1, fun f hf => ?_⟩
  obtain ⟨f', rfl⟩ : ∃ f', f = f' + 1 := ⟨f - 1, by omega⟩
  simp only [callRule, hl, hsp, if_false, h1 f' (by omega), ruleWrap]

/-- a `!{…}` (non-atomic) rule whose body fails -/
theorem failsRuleL_nonAtomicKind {la n r body at_ c} (hl : gList.look r = some (.nonAtomic, body))
    (hb : FailsL gList la n true body .nonAtomic c) : FailsRuleL gList la (n + 1) r at_ c := by
  intro tr
  obtain ⟨tr1, h1⟩ := hb { tr with steps := tr.steps + 1 }
  refine ⟨if la ≠ .neg then track tr1 .nonAtomic c.pos else tr1, fun f hf => ?_⟩
  obtain ⟨f', rfl⟩ : ∃ f', f = f' + 1 := ⟨f - 1, by omega⟩
  simp only [callRule, hl, h1 f' (by omega), ruleWrap]

/-- the special silent rules WHITESPACE / COMMENT: body generated atomically, run under Atomic -/
theorem runsRule_special {n r body at_ c c' ps} (hl : gList.look r = some (.silent, body))
    (hsp : gList.ws = some r ∨ gList.cm = some r) (hb : Runs gList n false body .atomic c c' ps) :
    RunsRule gList (n + 1) r at_ c c' ps := by
  intro tr
  obtain ⟨tr1, h1⟩ := hb { tr with steps := tr.steps + 1 }
  refine ⟨tr1, fun f hf => ?_⟩
  obtain ⟨f', rfl⟩ : ∃ f', f = f' + 1 := ⟨f - 1, by omega⟩
  simp only [callRule, hl, hsp, if_true, h1 f' (by omega)]

/-! ### NEWLINE under any lookahead state -/

theorem newlineL_fails {la : Look} {at_ : Atomicity} {p : Nat} {rest : List Char}
    (h : HeadNot (fun d => d = '\n' ∨ d = '\r') rest) : FailsRuleL gList la 4 R.NEWLINE at_ ⟨p, rest⟩ := by
  refine failsRuleL_silent look_NEWLINE (notSpecial (by decide) (by decide)) ?_
  exact failsL_choice ((strL_head_fails fun d r he hd => h d r he (Or.inl hd)).mono (by omega : 1 ≤ 2))
    (failsL_choice (strL_head_fails fun d r he hd => h d r he (Or.inr hd))
      (strL_head_fails fun d r he hd => h d r he (Or.inr hd)))

/-- NEWLINE consumes exactly the line terminator `nl` (a lone CR must not be followed by LF) -/
theorem newlineL_runs {la : Look} {at_ : Atomicity} {p : Nat} {nl x : List Char}
    (hnl : nl = ['\n'] ∨ nl = ['\r', '\n'] ∨ nl = ['\r']) (hx : nl = ['\r'] → HeadNot (· = '\n') x) :
    RunsRuleL gList la 4 R.NEWLINE at_ ⟨p, nl ++ x⟩ ⟨p + nl.length, x⟩ [] := by
  refine runsRuleL_silent look_NEWLINE (notSpecial (by decide) (by decide)) ?_
  rcases hnl with rfl | rfl | rfl
  · exact (runsL_choice_l (runsL_str (c := ⟨p, ['\n'] ++ x⟩) (by simp [matchStr]))).mono (by omega)
  · refine runsL_choice_r ((failsL_str (c := ⟨p, ['\r', '\n'] ++ x⟩) (by simp [matchStr])).mono (by omega : 1 ≤ 2)) ?_
    exact runsL_choice_l (runsL_str (c := ⟨p, ['\r', '\n'] ++ x⟩) (by simp [matchStr]))
  · have hn := hx rfl
    refine runsL_choice_r ((failsL_str (c := ⟨p, ['\r'] ++ x⟩) (by simp [matchStr])).mono (by omega : 1 ≤ 2)) ?_
    refine runsL_choice_r (failsL_str (c := ⟨p, ['\r'] ++ x⟩) ?_) (runsL_str (c := ⟨p, ['\r'] ++ x⟩) (by simp [matchStr]))
    cases x with
    | nil => simp [matchStr]
    | cons y ys =>
      have : ¬ '\n' = y := fun e => hn y ys rfl e.symm
      simp [matchStr, this]

/-- NEWLINE matches SOMETHING on a text that begins with LF or CR -/
theorem newlineL_runs_some {la : Look} {at_ : Atomicity} {p : Nat} {d : Char} {r : List Char} (hd : d = '\n' ∨ d = '\r') :
    ∃ c', RunsRuleL gList la 4 R.NEWLINE at_ ⟨p, d :: r⟩ c' [] := by
  rcases hd with rfl | rfl
  · exact ⟨_, newlineL_runs (nl := ['\n']) (x := r) (Or.inl rfl) (fun h => by cases h)⟩
  · cases r with
    | nil => exact ⟨_, newlineL_runs (nl := ['\r']) (x := []) (Or.inr (Or.inr rfl)) (fun _ => headNot_nil _)⟩
    | cons y ys =>
      by_cases hy : y = '\n'
      · subst hy
        exact ⟨_, newlineL_runs (nl := ['\r', '\n']) (x := ys) (Or.inr (Or.inl rfl)) (fun h => by cases h)⟩
      · exact ⟨_, newlineL_runs (nl := ['\r']) (x := y :: ys) (Or.inr (Or.inr rfl)) (fun _ => headNot_cons (P := (· = '\n')) hy _)⟩

/-! ### CommentCharacter (called inside COMMENT, i.e. in an atomic context) -/

theorem cc_runs {p : Nat} {d : Char} {r : List Char} (hd : d ≠ '\n' ∧ d ≠ '\r') :
    RunsRule gList 10 R.CommentCharacter .atomic ⟨p, d :: r⟩ ⟨p + 1, r⟩ [] := by
  have hnl : FailsRuleL gList .neg 4 R.NEWLINE .atomic ⟨p, d :: r⟩ :=
    newlineL_fails (headNot_cons (fun h => h.elim hd.1 hd.2) _)
  have g1 : Runs gList 6 true (.not (.call R.NEWLINE)) .atomic ⟨p, d :: r⟩ ⟨p, d :: r⟩ [] :=
    runsL_not (la := .none) (failsL_call hnl)
  have g2 : Runs gList 6 true .any .atomic ⟨p, d :: r⟩ ⟨p + 1, r⟩ [] :=
    (runsL_any (la := .none) (c := ⟨p, d :: r⟩) rfl).mono (by omega)
  have body := runsL_seq_noskip (la := .none) (Or.inr (by decide)) g1 g2
  have h' : RunsRule gList 10 R.CommentCharacter .atomic ⟨p, d :: r⟩ ⟨p + 1, r⟩ ([] ++ []) :=
    (runsRuleL_normal_atomic (la := .none) look_CommentCharacter (notSpecial (by decide) (by decide)) body).mono (by omega)
  simpa using h'

theorem cc_fails {p : Nat} {d : Char} {r : List Char} (hd : d = '\n' ∨ d = '\r') :
    FailsRule gList 10 R.CommentCharacter .atomic ⟨p, d :: r⟩ := by
  obtain ⟨c', hrun⟩ := newlineL_runs_some (la := .neg) (at_ := .atomic) (p := p) (r := r) hd
  have g1 : Fails gList 6 true (.not (.call R.NEWLINE)) .atomic ⟨p, d :: r⟩ := failsL_not (la := .none) (runsL_call hrun)
  exact (failsRuleL_normal_atomic (la := .none) look_CommentCharacter (notSpecial (by decide) (by decide))
    (failsL_seq_first g1)).mono (by omega)

/-- `CommentCharacter*` consumes the comment text up to the line terminator -/
theorem cc_star (b : List Char) : ∀ (p : Nat) (d : Char) (r : List Char), (∀ x ∈ b, x ≠ '\n' ∧ x ≠ '\r') →
    (d = '\n' ∨ d = '\r') →
    Runs gList (b.length + 12) false (.star (.call R.CommentCharacter)) .atomic ⟨p, b ++ d :: r⟩ ⟨p + b.length, d :: r⟩ [] := by
  induction b with
  | nil =>
    intro p d r _ hd
    simpa using runs_star_nil (fails_call (cc_fails (p := p) (r := r) hd))
  | cons c cs ih =>
    intro p d r hb hd
    have h1 := runs_call (sk := false) (cc_runs (p := p) (r := cs ++ d :: r) (hb c (List.mem_cons_self ..)))
    have h2 := ih (p + 1) d r (fun x hx => hb x (List.mem_cons_of_mem _ hx)) hd
    have := runs_star_cons (h1.mono (by omega : 11 ≤ cs.length + 12)) h2
    simp only [List.append_nil] at this
    refine Runs.cast (this.mono (by simp)) rfl ?_ rfl
    congr 1; simp; omega

/-- `" "*` consumes the leading spaces -/
theorem spaces_star (sp : List Char) : ∀ (p : Nat) (y : List Char), (∀ x ∈ sp, x = ' ') → HeadNot (· = ' ') y →
    Runs gList (sp.length + 3) false (.star (.str [' '])) .atomic ⟨p, sp ++ y⟩ ⟨p + sp.length, y⟩ [] := by
  induction sp with
  | nil =>
    intro p y _ hy
    simpa using (runs_star_nil (strL_head_fails (la := .none) (xs := []) hy)).mono (by omega : 2 ≤ 3)
  | cons c cs ih =>
    intro p y hsp hy
    have hc : c = ' ' := hsp c (List.mem_cons_self ..)
    subst hc
    have h1 : Runs gList (cs.length + 3) false (.str [' ']) .atomic ⟨p, ' ' :: (cs ++ y)⟩ ⟨p + 1, cs ++ y⟩ [] :=
      (runs_str (c := ⟨p, ' ' :: (cs ++ y)⟩) (by simp [matchStr])).mono (by omega)
    have h2 := ih (p + 1) y (fun x hx => hsp x (List.mem_cons_of_mem _ hx)) hy
    have := runs_star_cons h1 h2
    simp only [List.append_nil] at this
    refine Runs.cast (this.mono (by simp)) rfl ?_ rfl
    congr 1; simp; omega

theorem split_spaces (l : List Char) : ∃ sp, l = sp ++ l.dropWhile (· = ' ') ∧ (∀ x ∈ sp, x = ' ') ∧
    HeadNot (· = ' ') (l.dropWhile (· = ' ')) := by
  induction l with
  | nil => exact ⟨[], rfl, (fun _ h => by cases h), headNot_nil _⟩
  | cons c cs ih =>
    by_cases hc : c = ' '
    · obtain ⟨sp, h1, h2, h3⟩ := ih
      refine ⟨c :: sp, ?_, ?_, ?_⟩
      · simp only [List.dropWhile_cons, hc, decide_true, if_true, List.cons_append]
        subst hc
        exact congrArg _ h1
      · intro x hx
        rcases List.mem_cons.mp hx with rfl | hx
        · exact hc
        · exact h2 x hx
      · simpa [List.dropWhile_cons, hc] using h3
    · refine ⟨[], ?_, (fun _ h => by cases h), ?_⟩
      · simp [List.dropWhile_cons, hc]
      · simp only [List.dropWhile_cons, hc, decide_false, Bool.false_eq_true, if_false]
        exact headNot_cons (P := (· = ' ')) hc _

/-- `import` is not a prefix of the comment text continued by its line terminator -/
theorem noImport_match {b' cont : List Char} (h : ¬ (kwImport <+: b'))
    (hc : ∀ d r, cont = d :: r → d = '\n' ∨ d = '\r') : matchStr kwImport (b' ++ cont) = none := by
  cases hm : matchStr kwImport (b' ++ cont) with
  | none => rfl
  | some r =>
    exfalso
    have he := matchStr_eq hm
    rcases List.append_eq_append_iff.mp he with ⟨a', h1, h2⟩ | ⟨c', h1, _⟩
    · cases a' with
      | nil => exact h ⟨[], by rw [List.append_nil] at h1 ⊢; exact h1⟩
      | cons d ds =>
        have hd := hc d (ds ++ r) (by simpa using h2)
        have hmem : d ∈ kwImport := by rw [h1]; simp
        simp only [kwImport, List.mem_cons, List.not_mem_nil, or_false] at hmem
        rcases hd with rfl | rfl <;> (rcases hmem with h | h | h | h | h | h <;> exact absurd h (by decide))
    · exact h ⟨c', h1.symm⟩

/-! ### `ext_ImportStatementContent` fails on a text that is visibly not an import statement -/

theorem look_ext_ISC_full : gList.look R.ext_ImportStatementContent = some (.nonAtomic,
    .seq (.call R.ext_KEYWORD_import) (.seq (.call R.ext_ImportTargets) (.seq (.call R.ext_KEYWORD_from)
      (.call R.StringValue)))) := rfl
theorem look_ext_ImportTargets : gList.look R.ext_ImportTargets = some (.normal, .plus (.call R.ext_NameOrAsterisk)) := rfl
theorem look_ext_NameOrAsterisk : gList.look R.ext_NameOrAsterisk = some (.silent,
    .choice (.seq (.not (.call R.ext_KEYWORD_from)) (.call R.Name)) (.call R.ext_PUNC_asterisk)) := rfl
theorem look_ext_PUNC_asterisk : gList.look R.ext_PUNC_asterisk = some (.normal, .str ['*']) := rfl
theorem look_ext_KEYWORD_from : gList.look R.ext_KEYWORD_from =
    some (.atomic, .seq (.str ['f', 'r', 'o', 'm']) (.not (.call R.NameContinue))) := rfl

/-- `ext_ImportTargets` fails in front of a character that starts neither a name nor `*` -/
theorem importTargets_fails {p : Nat} {d : Char} {y : List Char} (h1 : ¬ nameStart d) (h2 : d ≠ '*') (h3 : ¬ trivia d) :
    FailsRule gList 27 R.ext_ImportTargets .nonAtomic ⟨p, d :: y⟩ := by
  have hf : d ≠ 'f' := by rintro rfl; exact h1 (by decide)
  have g1 : Runs gList 20 true (.not (.call R.ext_KEYWORD_from)) .nonAtomic ⟨p, d :: y⟩ ⟨p, d :: y⟩ [] :=
    (runsL_not (la := .none) (failsL_call (keywordL_fails_str look_ext_KEYWORD_from p (d :: y)
      (by simp [matchStr, Ne.symm hf])))).mono (by omega)
  have g2 : SkipTo 20 ⟨p, d :: y⟩ ⟨p, d :: y⟩ := skipTo_noop (headNot_cons h3 _)
  have g3 : Fails gList 20 true (.call R.Name) .nonAtomic ⟨p, d :: y⟩ :=
    (fails_call (name_fails (headNot_cons h1 _))).mono (by omega)
  have s1 := fails_seq_skip_last g1 g2 g3
  have s2 : Fails gList 21 true (.call R.ext_PUNC_asterisk) .nonAtomic ⟨p, d :: y⟩ :=
    (fails_call (failsRule_normal look_ext_PUNC_asterisk (notSpecial (by decide) (by decide))
      (fails_str (c := ⟨p, d :: y⟩) (by simp [matchStr, Ne.symm h2])))).mono (by omega)
  have s3 := failsRule_silent look_ext_NameOrAsterisk (notSpecial (by decide) (by decide)) (fails_choice s1 s2)
  have s4 : Fails gList 26 true (.plus (.call R.ext_NameOrAsterisk)) .nonAtomic ⟨p, d :: y⟩ :=
    failsL_plus (la := .none) (fails_seq_first (fails_call s3))
  exact failsRule_normal look_ext_ImportTargets (notSpecial (by decide) (by decide)) s4

theorem lineWs_wsChar {x : Char} (h : lineWs x) : wsChar x := by
  rcases h with h | h | h | h
  · exact Or.inl h
  · exact Or.inr (Or.inl h)
  · exact Or.inr (Or.inr (Or.inl h))
  · exact Or.inr (Or.inr (Or.inr (Or.inr (Or.inr h))))

/-- `ext_ImportStatementContent` (any calling context, any lookahead state) fails on a text that is visibly not an import
    statement; `cont` is what follows the comment text: it begins with LF / CR or is empty -/
theorem isc_fails {la : Look} {at_ : Atomicity} {b cont : List Char} (h : NotImportHead b)
    (hb : ∀ x ∈ b, x ≠ '\n' ∧ x ≠ '\r') (hc : ∀ d r, cont = d :: r → d = '\n' ∨ d = '\r') (p : Nat) :
    FailsRuleL gList la (b.length + 24) R.ext_ImportStatementContent at_ ⟨p, b ++ cont⟩ := by
  rcases h with h | ⟨d, r, rfl, hd⟩ | ⟨w, d, r, rfl, hw, hwd, hns, hstar, hhash, hlw⟩
  · have hm : matchStr kwImport (b ++ cont) = none := noImport_match h hc
    exact (failsRuleL_nonAtomicKind look_ext_ISC_full (failsL_seq_first (failsL_call
      (keywordL_fails_str look_ext_KEYWORD_import _ _ hm)))).mono (by omega)
  · have := keywordL_fails_cont (la := la) (at_ := .nonAtomic) look_ext_KEYWORD_import p d (r ++ cont) hd
    have e : (kwImport ++ d :: r) ++ cont = kwImport ++ d :: (r ++ cont) := by simp
    rw [e]
    exact (failsRuleL_nonAtomicKind look_ext_ISC_full (failsL_seq_first (failsL_call this))).mono (by omega)
  · refine FailsRuleL.look (la := .none) ?_ la
    have hdb : d ≠ '\n' ∧ d ≠ '\r' := hb d (by simp)
    have hdt : ¬ trivia d := by
      rintro (h | h | h | h | h | h | h)
      · exact hlw (Or.inl h)
      · exact hlw (Or.inr (Or.inl h))
      · exact hlw (Or.inr (Or.inr (Or.inl h)))
      · exact hdb.1 h
      · exact hdb.2 h
      · exact hlw (Or.inr (Or.inr (Or.inr h)))
      · exact hhash h
    have e : (kwImport ++ (w ++ d :: r)) ++ cont = kwImport ++ (w ++ (d :: (r ++ cont))) := by simp
    rw [e]
    -- `import`
    have hglue : HeadNot nameCont (w ++ (d :: (r ++ cont))) := by
      cases w with
      | nil => exact headNot_cons (hwd rfl) _
      | cons x xs =>
        refine headNot_cons ?_ _
        have := hw x (List.mem_cons_self ..)
        rcases this with rfl | rfl | rfl | rfl <;> decide
    have g1 : Runs gList (w.length + 29) true (.call R.ext_KEYWORD_import) .nonAtomic ⟨p, kwImport ++ (w ++ (d :: (r ++ cont)))⟩
        ⟨p + 6, w ++ (d :: (r ++ cont))⟩ [Pair.mk R.ext_KEYWORD_import p (p + 6) []] := by
      have := keywordL_runs (la := .none) (at_ := .nonAtomic) look_ext_KEYWORD_import p _ hglue
      exact (runs_call (runsRule_iff.mpr (by simpa using this))).mono (by omega)
    -- the blanks
    have g2 : SkipTo (w.length + 29) ⟨p + 6, w ++ (d :: (r ++ cont))⟩ ⟨p + 6 + w.length, d :: (r ++ cont)⟩ :=
      (skip_wsrun w (fun x hx => lineWs_wsChar (hw x hx)) (p + 6) _ (headNot_cons hdt _)).mono (by omega)
    -- no import target
    have g3 : Fails gList (w.length + 29) true (.seq (.call R.ext_ImportTargets) (.seq (.call R.ext_KEYWORD_from)
        (.call R.StringValue))) .nonAtomic ⟨p + 6 + w.length, d :: (r ++ cont)⟩ :=
      (fails_seq_first (fails_call (importTargets_fails hns hstar hdt))).mono (by omega)
    have body := fails_seq_skip_last g1 g2 g3
    refine (failsRuleL_nonAtomicKind (la := .none) look_ext_ISC_full body).mono ?_
    simp only [List.length_append, List.length_cons]; omega

/-- the `COMMENT` rule on a comment -/
theorem comment_runs {body nl : List Char} (h : CommentText body nl) (p : Nat) (x : List Char)
    (hx : nl = ['\r'] → HeadNot (· = '\n') x) :
    RunsRule gList (body.length + 40) R.COMMENT .nonAtomic ⟨p, '#' :: (body ++ (nl ++ x))⟩
      ⟨p + 1 + body.length + nl.length, x⟩ [] := by
  obtain ⟨sp, hsplit, hsp, hb'⟩ := split_spaces body
  generalize hbd : body.dropWhile (· = ' ') = b' at hsplit hb'
  have hb'chars : ∀ c ∈ b', c ≠ '\n' ∧ c ≠ '\r' := fun c hc => h.chars c (by rw [hsplit]; simp [hc])
  obtain ⟨d, nr, hnl0, hd⟩ : ∃ d nr, nl = d :: nr ∧ (d = '\n' ∨ d = '\r') := by
    rcases h.nl with rfl | rfl | rfl
    · exact ⟨_, _, rfl, Or.inl rfl⟩
    · exact ⟨_, _, rfl, Or.inr rfl⟩
    · exact ⟨_, _, rfl, Or.inr rfl⟩
  have hlen : body.length = sp.length + b'.length := by rw [hsplit]; simp
  -- "#"
  have h1 : Runs gList 1 false (.str ['#']) .atomic ⟨p, '#' :: (sp ++ (b' ++ (nl ++ x)))⟩ ⟨p + 1, sp ++ (b' ++ (nl ++ x))⟩ [] :=
    runs_str (c := ⟨p, '#' :: (sp ++ (b' ++ (nl ++ x)))⟩) (by simp [matchStr])
  -- " "*
  have hhead : HeadNot (· = ' ') (b' ++ (nl ++ x)) := by
    cases b' with
    | nil => rw [hnl0]; refine headNot_cons ?_ _; rcases hd with rfl | rfl <;> decide
    | cons c cs => exact headNot_cons (P := (· = ' ')) (hb' c cs rfl) _
  have h2 := spaces_star sp (p + 1) (b' ++ (nl ++ x)) hsp hhead
  -- !ext_ImportStatementContent
  have hisc : FailsRuleL gList .neg (b'.length + 24) R.ext_ImportStatementContent .atomic
      ⟨p + 1 + sp.length, b' ++ (nl ++ x)⟩ :=
    isc_fails (hbd ▸ h.noImport) hb'chars (fun d' r he => by rw [hnl0] at he; cases he; exact hd) _
  have h3 : Runs gList (b'.length + 26) false (.not (.call R.ext_ImportStatementContent)) .atomic ⟨p + 1 + sp.length, b' ++ (nl ++ x)⟩
      ⟨p + 1 + sp.length, b' ++ (nl ++ x)⟩ [] :=
    runsL_not (la := .none) (failsL_call hisc)
  -- CommentCharacter*
  have h4 := cc_star b' (p + 1 + sp.length) d (nr ++ x) hb'chars hd
  -- NEWLINE
  have h5 : Runs gList 6 false (.choice (.call R.NEWLINE) (.call R.EOI)) .atomic ⟨p + 1 + sp.length + b'.length, nl ++ x⟩
      ⟨p + 1 + sp.length + b'.length + nl.length, x⟩ [] :=
    runs_choice_l (runs_call (newlineL_runs (la := .none) h.nl hx))
  have e4 : b' ++ d :: (nr ++ x) = b' ++ (nl ++ x) := by rw [hnl0]; simp
  rw [e4] at h4
  have e5 : nl ++ x = d :: (nr ++ x) := by rw [hnl0]; simp
  have body := runs_seq_nosk' h1 (runs_seq_nosk' h2 (runs_seq_nosk' h3 (runs_seq_nosk' (Runs.cast h4 rfl (by rw [e5]) rfl) h5)))
  have := runsRule_special (at_ := .nonAtomic) look_COMMENT_full (Or.inr ws_cm.2) body
  refine RunsRule.cast (this.mono ?_) (by rw [hsplit]; simp) ?_ (by simp)
  · omega
  · congr 1; omega

/-! ### arbitrary trivia -/

/-- `(COMMENT WHITESPACE*)*` -/
inductive Cms : List Char → Prop where
  | nil : Cms []
  | cons {body nl w t : List Char} : CommentText body nl → WsRun w → (nl = ['\r'] → HeadNot (· = '\n') (w ++ t)) →
      Cms t → Cms ('#' :: (body ++ (nl ++ (w ++ t))))

/-- arbitrary trivia: whitespace characters (space, tab, LF, CR, comma, BOM) and comments, in any order -/
def Ws (t : List Char) : Prop := ∃ w0 u, t = w0 ++ u ∧ WsRun w0 ∧ Cms u

theorem ws_of_run {t : List Char} (h : WsRun t) : Ws t := ⟨t, [], by simp, h, .nil⟩
theorem Ws.nil : Ws [] := ws_of_run (fun _ h => by cases h)

theorem cms_head {u : List Char} (h : Cms u) : ∀ d r, u = d :: r → d = '#' := by
  cases h with
  | nil => intro d r he; cases he
  | cons _ _ _ _ => intro d r he; cases he; rfl

/-- trivia begins with a whitespace character or `#` -/
theorem Ws.head {t : List Char} (h : Ws t) : ∀ d r, t = d :: r → wsChar d ∨ d = '#' := by
  obtain ⟨w0, u, rfl, hw, hc⟩ := h
  intro d r he
  cases w0 with
  | nil => exact Or.inr (cms_head hc d r (by simpa using he))
  | cons c cs =>
    simp only [List.cons_append, List.cons.injEq] at he
    exact Or.inl (he.1 ▸ hw c (List.mem_cons_self ..))

theorem cms_skip {u : List Char} (h : Cms u) : ∀ (p : Nat) (rest : List Char), HeadNot trivia rest →
    Runs gList (u.length + 45) false (.star (.seq (.call R.COMMENT) (.star (.call R.WHITESPACE)))) .nonAtomic
      ⟨p, u ++ rest⟩ ⟨p + u.length, rest⟩ [] := by
  induction h with
  | nil =>
    intro p rest hr
    simpa using (runs_star_nil (fails_seq_first (fails_call (cm_fails (p := p) hr)))).mono (by omega : 13 ≤ 45)
  | @cons body nl w t hc hw hcr ht ih =>
    intro p rest hr
    -- what follows the whitespace run is `#` or the non-trivia rest
    have hnext : HeadNot wsChar (t ++ rest) := by
      cases t with
      | nil => exact headNot_mono (fun _ h => wsChar_trivia h) hr
      | cons c cs =>
        have := cms_head ht c cs rfl
        subst this
        exact headNot_cons (by decide) _
    have hcr' : nl = ['\r'] → HeadNot (· = '\n') (w ++ (t ++ rest)) := by
      intro hnl
      have h0 := hcr hnl
      cases hwt : w ++ t with
      | nil =>
        have hw0 : w = [] := (List.append_eq_nil_iff.mp hwt).1
        have ht0 : t = [] := (List.append_eq_nil_iff.mp hwt).2
        subst hw0 ht0
        exact headNot_mono (fun _ h => by subst h; simp [trivia]) hr
      | cons c cs =>
        rw [← List.append_assoc, hwt]
        rw [hwt] at h0
        exact headNot_cons (P := (· = '\n')) (h0 c cs rfl) _
    have h1 := runs_call (sk := false) (comment_runs hc p (w ++ (t ++ rest)) hcr')
    have h2 := ws_star w.length w (Nat.le_refl _) hw (p + 1 + body.length + nl.length) (t ++ rest) hnext
    have item := runs_seq_nosk' h1 h2
    have hrest := ih (p + 1 + body.length + nl.length + w.length) rest hr
    have := runs_star_cons (item.mono (by omega : _ ≤ body.length + nl.length + w.length + t.length + 45)) (hrest.mono (by omega))
    simp only [List.append_nil] at this
    refine Runs.cast (this.mono ?_) (by simp) ?_ rfl
    · simp; omega
    · congr 1; simp; omega

/-- the implicit skip moves over ARBITRARY trivia (whitespace and comments) and stops in front of the next token -/
theorem skip_ws (t : List Char) (hws : Ws t) (p : Nat) (rest : List Char) (hr : HeadNot trivia rest) :
    SkipTo (t.length + 60) ⟨p, t ++ rest⟩ ⟨p + t.length, rest⟩ := by
  obtain ⟨w0, u, rfl, hw, hc⟩ := hws
  have hnext : HeadNot wsChar (u ++ rest) := by
    cases u with
    | nil => exact headNot_mono (fun _ h => wsChar_trivia h) hr
    | cons c cs =>
      have := cms_head hc c cs rfl
      subst this
      exact headNot_cons (by decide) _
  have hW := ws_star w0.length w0 (Nat.le_refl _) hw p (u ++ rest) hnext
  have hC := cms_skip hc (p + w0.length) rest hr
  have hS := runs_seq_nosk' hW hC
  intro tr
  obtain ⟨tr1, h⟩ := hS tr
  refine ⟨tr1, fun f hf => ?_⟩
  obtain ⟨f', rfl⟩ : ∃ f', f = f' + 1 := ⟨f - 1, by omega⟩
  simp only [doSkip, and_self, if_true, G.skipExpr, ws_cm.1, ws_cm.2]
  have := h f' (by simp at hf ⊢; omega)
  simpa [Nat.add_assoc] using this

end NitroVerif.ValueParse
