import NitroVerif.Model.Imports
import NitroVerif.Spec.Imports
/-! Helper lemmas for C13 (no property statements here). -/
namespace NitroVerif.Imports
open NitroVerif.Imports.Spec

set_option linter.unusedSectionVars false

variable {κ ρ : Type} [DecidableEq κ] [DecidableEq ρ]

/-! ### selection of definitions by an import line -/

theorem selects_iff (t : Targets) (d : Def) :
    selects t d = true ↔ ∃ n, d = Def.frag n ∧ Requests t n := by
  cases d with
  | other => simp [selects]
  | frag m =>
    cases t with
    | wildcard => simp [selects, Requests]
    | specific ids => simp [selects, Requests]

theorem mem_selectedFrom (t : Targets) (ds : List Def) (k i : Nat) :
    i ∈ selectedFrom t k ds ↔ ∃ j d, i = k + j ∧ ds[j]? = some d ∧ selects t d = true := by
  induction ds generalizing k with
  | nil => simp [selectedFrom]
  | cons d ds ih =>
    unfold selectedFrom
    constructor
    · intro h
      by_cases hd : selects t d = true
      · simp only [hd, if_true, List.mem_cons] at h
        rcases h with rfl | h
        · exact ⟨0, d, by simp, by simp, hd⟩
        · obtain ⟨j, d', rfl, hj, hs⟩ := (ih (k + 1)).mp h
          exact ⟨j + 1, d', by omega, by simpa using hj, hs⟩
      · simp only [hd] at h
        obtain ⟨j, d', rfl, hj, hs⟩ := (ih (k + 1)).mp h
        exact ⟨j + 1, d', by omega, by simpa using hj, hs⟩
    · rintro ⟨j, d', rfl, hj, hs⟩
      cases j with
      | zero =>
        simp at hj; subst hj
        simp [hs]
      | succ j =>
        have : k + (j + 1) ∈ selectedFrom t (k + 1) ds :=
          (ih (k + 1)).mpr ⟨j, d', by omega, by simpa using hj, hs⟩
        split
        · exact List.mem_cons_of_mem _ this
        · exact this

theorem mem_selectedIdx (t : Targets) (ds : List Def) (i : Nat) :
    i ∈ selectedIdx t ds ↔ ∃ n, ds[i]? = some (Def.frag n) ∧ Requests t n := by
  unfold selectedIdx
  rw [mem_selectedFrom]
  constructor
  · rintro ⟨j, d, rfl, hj, hs⟩
    obtain ⟨n, rfl, hr⟩ := (selects_iff t d).mp hs
    exact ⟨n, by simpa using hj, hr⟩
  · rintro ⟨n, hi, hr⟩
    exact ⟨i, Def.frag n, by simp, hi, (selects_iff t _).mpr ⟨n, rfl, hr⟩⟩

theorem any_isFragNamed (n : Nat) (ds : List Def) : ds.any (isFragNamed n) = true ↔ Def.frag n ∈ ds := by
  induction ds with
  | nil => simp
  | cons d ds ih =>
    cases d with
    | other => simp [isFragNamed, ih]
    | frag m =>
      simp only [List.any_cons, Bool.or_eq_true, ih, List.mem_cons, isFragNamed, beq_iff_eq]
      constructor
      · rintro (h | h)
        · left; rw [h]
        · right; exact h
      · rintro (h | h)
        · left; injection h with h; exact h.symm
        · right; exact h

theorem missingTarget_none (t : Targets) (ds : List Def) :
    missingTarget t ds = none ↔ ∀ n ∈ namesOf t, Def.frag n ∈ ds := by
  cases t with
  | wildcard => simp [missingTarget, namesOf]
  | specific ids =>
    simp only [missingTarget, namesOf, List.find?_eq_none, List.mem_map, forall_exists_index, and_imp,
      forall_apply_eq_imp_iff₂]
    constructor
    · intro h id hid
      have := h id hid
      rw [Bool.not_eq_eq_eq_not, Bool.not_true, Bool.not_eq_false] at this
      exact (any_isFragNamed _ _).mp this
    · intro h id hid
      rw [Bool.not_eq_eq_eq_not, Bool.not_true, Bool.not_eq_false]
      exact (any_isFragNamed _ _).mpr (h id hid)

theorem missingTarget_some {t : Targets} {ds : List Def} {id : Ident} (h : missingTarget t ds = some id) :
    id.name ∈ namesOf t ∧ Def.frag id.name ∉ ds := by
  cases t with
  | wildcard => simp [missingTarget] at h
  | specific ids =>
    simp only [missingTarget] at h
    have hm := List.mem_of_find?_eq_some h
    have hp := List.find?_some h
    refine ⟨by simpa [namesOf] using ⟨id, hm, rfl⟩, ?_⟩
    intro hin
    have := (any_isFragNamed id.name ds).mpr hin
    simp [this] at hp

/-! ### the resolver's map -/

omit [DecidableEq ρ] in
theorem lookup_some_mem_keys {fs : FS κ ρ} {p : κ} {f : File ρ} (h : fs.lookup p = some f) :
    p ∈ fs.map Prod.fst := by
  induction fs with
  | nil => simp at h
  | cons a fs ih =>
    obtain ⟨k, v⟩ := a
    by_cases hk : p = k
    · simp [hk]
    · have : (p == k) = false := by simpa using hk
      simp only [List.lookup_cons, this] at h
      simp [ih h]

/-- `k` is not in `E` (kept opaque to `simp` so that the filters below keep one shape) -/
def fresh (E : List κ) (k : κ) : Bool := decide (k ∉ E)

theorem fresh_true {E : List κ} {k : κ} : fresh E k = true ↔ k ∉ E := by simp [fresh]
theorem fresh_false {E : List κ} {k : κ} : fresh E k = false ↔ k ∈ E := by simp [fresh]

/-- number of configured files not yet expanded (the termination measure) -/
def unexp (fs : FS κ ρ) (E : List κ) : Nat := ((fs.map Prod.fst).filter (fresh E)).length

omit [DecidableEq ρ] in
theorem unexp_le_length (fs : FS κ ρ) (E : List κ) : unexp fs E ≤ fs.length := by
  unfold unexp
  exact Nat.le_trans (List.length_filter_le _ _) (by simp)

theorem filter_fresh_anti (l : List κ) {E E' : List κ} (h : ∀ x ∈ E, x ∈ E') :
    (l.filter (fresh E')).length ≤ (l.filter (fresh E)).length := by
  induction l with
  | nil => simp
  | cons a l ih =>
    rw [List.filter_cons, List.filter_cons]
    cases h2 : fresh E' a with
    | false =>
      cases h1 : fresh E a with
      | false => simpa using ih
      | true => simp only [Bool.false_eq_true, if_false, if_true, List.length_cons]; omega
    | true =>
      have : fresh E a = true := fresh_true.mpr (fun hin => (fresh_true.mp h2) (h a hin))
      simp only [this, if_true, List.length_cons]; omega

omit [DecidableEq ρ] in
theorem unexp_anti (fs : FS κ ρ) {E E' : List κ} (h : ∀ x ∈ E, x ∈ E') : unexp fs E' ≤ unexp fs E :=
  filter_fresh_anti _ h

theorem filter_fresh_lt (l : List κ) {E : List κ} {p : κ} (hp : p ∈ l) (hE : p ∉ E) :
    (l.filter (fresh (p :: E))).length < (l.filter (fresh E)).length := by
  induction l with
  | nil => simp at hp
  | cons a l ih =>
    have hanti : (l.filter (fresh (p :: E))).length ≤ (l.filter (fresh E)).length :=
      filter_fresh_anti l (fun x hx => List.mem_cons_of_mem _ hx)
    rw [List.filter_cons, List.filter_cons]
    by_cases hap : a = p
    · subst hap
      have h1 : fresh (a :: E) a = false := fresh_false.mpr (by simp)
      have h2 : fresh E a = true := fresh_true.mpr hE
      simp only [h1, h2, Bool.false_eq_true, if_false, if_true, List.length_cons]; omega
    · have hp' : p ∈ l := by
        rcases List.mem_cons.mp hp with h | h
        · exact absurd h.symm hap
        · exact h
      have := ih hp'
      cases h1 : fresh E a with
      | false =>
        have : fresh (p :: E) a = false := fresh_false.mpr (List.mem_cons_of_mem _ (fresh_false.mp h1))
        simp only [this, Bool.false_eq_true, if_false]; assumption
      | true =>
        have : fresh (p :: E) a = true := fresh_true.mpr (by
          intro hin
          rcases List.mem_cons.mp hin with h | h
          · exact hap h
          · exact (fresh_true.mp h1) h)
        simp only [this, if_true, List.length_cons]; omega

omit [DecidableEq ρ] in
theorem unexp_lt (fs : FS κ ρ) {E : List κ} {p : κ} (hp : p ∈ fs.map Prod.fst) (hE : p ∉ E) :
    unexp fs (p :: E) < unexp fs E :=
  filter_fresh_lt _ hp hE

/-! ### inversion of one loop iteration -/

variable (res : κ → ρ → κ) (fs : FS κ ρ)

/-- the state handed to the recursive call -/
def enter (st : St κ) (p : κ) : St κ := { st with expanded := p :: st.expanded }
/-- the state after the recursive call returned -/
def leave (st : St κ) (p : κ) : St κ := { st with finished := st.finished ++ [p] }
/-- the state after the targets of the line were recorded -/
def record (st : St κ) (p : κ) (t : Targets) (ds : List Def) : St κ :=
  { st with requested := st.requested ++ (selectedIdx t ds).map (fun i => (p, i)) }

omit [DecidableEq ρ] in
theorem step_ok_inv {expand : κ → List (Import ρ) → St κ → Res κ ρ (St κ)} {doc : κ} {st st' : St κ}
    {imp : Import ρ} (h : step res fs expand doc st imp = .ok st') :
    ∃ file st1, fs.lookup (res doc imp.rel) = some file ∧ missingTarget imp.targets file.defs = none ∧
      st' = record st1 (res doc imp.rel) imp.targets file.defs ∧
      ((res doc imp.rel ∈ st.expanded ∧ st1 = st) ∨
       (res doc imp.rel ∉ st.expanded ∧ ∃ st0, expand (res doc imp.rel) file.imports (enter st (res doc imp.rel)) = .ok st0 ∧
          st1 = leave st0 (res doc imp.rel))) := by
  simp only [step] at h
  cases hl : fs.lookup (res doc imp.rel) with
  | none => simp [hl] at h
  | some file =>
    simp only [hl] at h
    by_cases hp : res doc imp.rel ∈ st.expanded
    · simp only [hp, if_true] at h
      cases hm : missingTarget imp.targets file.defs with
      | some id => simp [hm] at h
      | none =>
        simp only [hm] at h
        injection h with h
        exact ⟨file, st, rfl, hm, h.symm, Or.inl ⟨hp, rfl⟩⟩
    · simp only [hp, if_false] at h
      cases he : expand (res doc imp.rel) file.imports { st with expanded := res doc imp.rel :: st.expanded } with
      | err e => simp [he] at h
      | outOfFuel => simp [he] at h
      | ok st0 =>
        simp only [he] at h
        cases hm : missingTarget imp.targets file.defs with
        | some id => simp [hm] at h
        | none =>
          simp only [hm] at h
          injection h with h
          exact ⟨file, leave st0 (res doc imp.rel), rfl, hm, h.symm, Or.inr ⟨hp, st0, he, rfl⟩⟩

omit [DecidableEq ρ] in
theorem step_err_inv {expand : κ → List (Import ρ) → St κ → Res κ ρ (St κ)} {doc : κ} {st : St κ}
    {imp : Import ρ} {e : ImpErr κ ρ} (h : step res fs expand doc st imp = .err e) :
    (fs.lookup (res doc imp.rel) = none ∧ e = .fileNotFound doc imp.rel imp.line) ∨
    (∃ file, fs.lookup (res doc imp.rel) = some file ∧ res doc imp.rel ∉ st.expanded ∧
      expand (res doc imp.rel) file.imports (enter st (res doc imp.rel)) = .err e) ∨
    (∃ file id, fs.lookup (res doc imp.rel) = some file ∧ missingTarget imp.targets file.defs = some id ∧
      e = .fragmentNotFound doc imp.rel id) := by
  simp only [step] at h
  cases hl : fs.lookup (res doc imp.rel) with
  | none =>
    simp only [hl] at h
    injection h with h
    exact Or.inl ⟨rfl, h.symm⟩
  | some file =>
    simp only [hl] at h
    by_cases hp : res doc imp.rel ∈ st.expanded
    · simp only [hp, if_true] at h
      cases hm : missingTarget imp.targets file.defs with
      | none => simp [hm] at h
      | some id =>
        simp only [hm] at h
        injection h with h
        exact Or.inr (Or.inr ⟨file, id, rfl, hm, h.symm⟩)
    · simp only [hp, if_false] at h
      cases he : expand (res doc imp.rel) file.imports { st with expanded := res doc imp.rel :: st.expanded } with
      | err e' =>
        simp only [he] at h
        injection h with h
        exact Or.inr (Or.inl ⟨file, rfl, hp, by rw [← h]; exact he⟩)
      | outOfFuel => simp [he] at h
      | ok st0 =>
        simp only [he] at h
        cases hm : missingTarget imp.targets file.defs with
        | none => simp [hm] at h
        | some id =>
          simp only [hm] at h
          injection h with h
          exact Or.inr (Or.inr ⟨file, id, rfl, hm, h.symm⟩)

omit [DecidableEq ρ] in
theorem step_fuel_inv {expand : κ → List (Import ρ) → St κ → Res κ ρ (St κ)} {doc : κ} {st : St κ}
    {imp : Import ρ} (h : step res fs expand doc st imp = .outOfFuel) :
    ∃ file, fs.lookup (res doc imp.rel) = some file ∧ res doc imp.rel ∉ st.expanded ∧
      expand (res doc imp.rel) file.imports (enter st (res doc imp.rel)) = .outOfFuel := by
  simp only [step] at h
  cases hl : fs.lookup (res doc imp.rel) with
  | none => simp [hl] at h
  | some file =>
    simp only [hl] at h
    by_cases hp : res doc imp.rel ∈ st.expanded
    · simp only [hp, if_true] at h
      cases hm : missingTarget imp.targets file.defs <;> simp [hm] at h
    · simp only [hp, if_false] at h
      cases he : expand (res doc imp.rel) file.imports { st with expanded := res doc imp.rel :: st.expanded } with
      | err e' => simp [he] at h
      | outOfFuel => exact ⟨file, rfl, hp, he⟩
      | ok st0 =>
        simp only [he] at h
        cases hm : missingTarget imp.targets file.defs <;> simp [hm] at h

omit [DecidableEq ρ] in
theorem iter_cons_ok {expand : κ → List (Import ρ) → St κ → Res κ ρ (St κ)} {doc : κ} {st st' : St κ}
    {imp : Import ρ} {rest : List (Import ρ)} (h : iter res fs expand doc (imp :: rest) st = .ok st') :
    ∃ st1, step res fs expand doc st imp = .ok st1 ∧ iter res fs expand doc rest st1 = .ok st' := by
  simp only [iter] at h
  cases hs : step res fs expand doc st imp with
  | ok st1 => simp only [hs] at h; exact ⟨st1, rfl, h⟩
  | err e => simp [hs] at h
  | outOfFuel => simp [hs] at h

omit [DecidableEq ρ] in
theorem iter_cons_err {expand : κ → List (Import ρ) → St κ → Res κ ρ (St κ)} {doc : κ} {st : St κ}
    {imp : Import ρ} {rest : List (Import ρ)} {e : ImpErr κ ρ}
    (h : iter res fs expand doc (imp :: rest) st = .err e) :
    step res fs expand doc st imp = .err e ∨
    ∃ st1, step res fs expand doc st imp = .ok st1 ∧ iter res fs expand doc rest st1 = .err e := by
  simp only [iter] at h
  cases hs : step res fs expand doc st imp with
  | ok st1 => simp only [hs] at h; exact Or.inr ⟨st1, rfl, h⟩
  | err e' => simp only [hs] at h; injection h with h; left; rw [h]
  | outOfFuel => simp [hs] at h

omit [DecidableEq ρ] in
theorem iter_cons_fuel {expand : κ → List (Import ρ) → St κ → Res κ ρ (St κ)} {doc : κ} {st : St κ}
    {imp : Import ρ} {rest : List (Import ρ)}
    (h : iter res fs expand doc (imp :: rest) st = .outOfFuel) :
    step res fs expand doc st imp = .outOfFuel ∨
    ∃ st1, step res fs expand doc st imp = .ok st1 ∧ iter res fs expand doc rest st1 = .outOfFuel := by
  simp only [iter] at h
  cases hs : step res fs expand doc st imp with
  | ok st1 => simp only [hs] at h; exact Or.inr ⟨st1, rfl, h⟩
  | err e' => simp [hs] at h
  | outOfFuel => left; rfl

/-! ### the state only grows -/

structure Le (a b : St κ) : Prop where
  exp : ∀ x ∈ a.expanded, x ∈ b.expanded
  req : ∀ x ∈ a.requested, x ∈ b.requested
  fin : ∀ x ∈ a.finished, x ∈ b.finished

omit [DecidableEq κ] in
theorem Le.refl (a : St κ) : Le a a := ⟨fun _ h => h, fun _ h => h, fun _ h => h⟩
omit [DecidableEq κ] in
theorem Le.trans {a b c : St κ} (h1 : Le a b) (h2 : Le b c) : Le a c :=
  ⟨fun x h => h2.exp x (h1.exp x h), fun x h => h2.req x (h1.req x h), fun x h => h2.fin x (h1.fin x h)⟩

omit [DecidableEq κ] in
theorem le_enter (st : St κ) (p : κ) : Le st (enter st p) :=
  ⟨fun _ h => List.mem_cons_of_mem _ h, fun _ h => h, fun _ h => h⟩
omit [DecidableEq κ] in
theorem le_leave (st : St κ) (p : κ) : Le st (leave st p) :=
  ⟨fun _ h => h, fun _ h => h, fun _ h => List.mem_append_left _ h⟩
omit [DecidableEq κ] in
theorem le_record (st : St κ) (p : κ) (t : Targets) (ds : List Def) : Le st (record st p t ds) :=
  ⟨fun _ h => h, fun _ h => List.mem_append_left _ h, fun _ h => h⟩

def Mono (expand : κ → List (Import ρ) → St κ → Res κ ρ (St κ)) : Prop :=
  ∀ doc imps st st', expand doc imps st = .ok st' → Le st st'

theorem step_mono {expand : κ → List (Import ρ) → St κ → Res κ ρ (St κ)} (hm : Mono expand) {doc : κ}
    {st st' : St κ} {imp : Import ρ} (h : step res fs expand doc st imp = .ok st') : Le st st' := by
  obtain ⟨file, st1, _, _, hst, hc⟩ := step_ok_inv res fs h
  clear h
  subst hst
  rcases hc with ⟨_, rfl⟩ | ⟨_, st0, he, rfl⟩
  · exact le_record _ _ _ _
  · exact ((le_enter st _).trans (hm _ _ _ _ he)).trans ((le_leave _ _).trans (le_record _ _ _ _))

theorem iter_mono {expand : κ → List (Import ρ) → St κ → Res κ ρ (St κ)} (hm : Mono expand) :
    Mono (iter res fs expand) := by
  intro doc imps
  induction imps with
  | nil => intro st st' h; simp only [iter] at h; injection h with h; subst h; exact Le.refl _
  | cons imp rest ih =>
    intro st st' h
    obtain ⟨st1, hs, hr⟩ := iter_cons_ok res fs h
    exact (step_mono res fs hm hs).trans (ih _ _ hr)

theorem expandFuel_mono (n : Nat) : Mono (expandFuel res fs n) := by
  induction n with
  | zero => intro doc imps st st' h; simp [expandFuel] at h
  | succ n ih => intro doc imps st st' h; exact iter_mono res fs ih doc imps st st' h

/-! ### the recursion budget is sufficient -/

theorem iter_fuel (n : Nat) : ∀ (doc : κ) (imps : List (Import ρ)) (st : St κ),
    unexp fs st.expanded ≤ n → iter res fs (expandFuel res fs n) doc imps st ≠ .outOfFuel := by
  induction n with
  | zero =>
    intro doc imps
    induction imps with
    | nil => intro st _ h; simp [iter] at h
    | cons imp rest ih =>
      intro st hn h
      rcases iter_cons_fuel res fs h with hs | ⟨st1, hs, hr⟩
      · obtain ⟨file, hl, hp, _⟩ := step_fuel_inv res fs hs
        have := unexp_lt fs (lookup_some_mem_keys hl) hp
        omega
      · have hle := step_mono res fs (expandFuel_mono res fs 0) hs
        exact ih st1 (Nat.le_trans (unexp_anti fs hle.exp) hn) hr
  | succ n ihn =>
    intro doc imps
    induction imps with
    | nil => intro st _ h; simp [iter] at h
    | cons imp rest ih =>
      intro st hn h
      rcases iter_cons_fuel res fs h with hs | ⟨st1, hs, hr⟩
      · obtain ⟨file, hl, hp, he⟩ := step_fuel_inv res fs hs
        have hlt := unexp_lt fs (lookup_some_mem_keys hl) hp
        exact ihn _ _ (enter st (res doc imp.rel)) (by simp only [enter]; omega) he
      · have hle := step_mono res fs (expandFuel_mono res fs (n + 1)) hs
        exact ih st1 (Nat.le_trans (unexp_anti fs hle.exp) hn) hr

/-! ### what a call of the traversal establishes -/

variable (root : κ) (rootFile : File ρ)

/-- the import line `imp` of document `doc` has been processed in state `st` -/
def Proc (st : St κ) (doc : κ) (imp : Import ρ) : Prop :=
  ∃ f, fs.lookup (res doc imp.rel) = some f ∧ res doc imp.rel ∈ st.expanded ∧
    missingTarget imp.targets f.defs = none ∧
    ∀ i ∈ selectedIdx imp.targets f.defs, (res doc imp.rel, i) ∈ st.requested

theorem Proc.mono {st st' : St κ} {doc : κ} {imp : Import ρ} (h : Proc res fs st doc imp) (hle : Le st st') :
    Proc res fs st' doc imp := by
  obtain ⟨f, h1, h2, h3, h4⟩ := h
  exact ⟨f, h1, hle.exp _ h2, h3, fun i hi => hle.req _ (h4 i hi)⟩

/-- every import line of the document at `q` has been processed -/
def Done (st : St κ) (q : κ) : Prop := ∀ imp ∈ importsOf fs root rootFile q, Proc res fs st q imp

theorem Done.mono {st st' : St κ} {q : κ} (h : Done res fs root rootFile st q) (hle : Le st st') :
    Done res fs root rootFile st' q := fun imp hi => (h imp hi).mono res fs hle

/-- a requested definition is backed by an import line of a reachable file -/
def ReqJust (x : DefId κ) : Prop :=
  ∃ q imp f, Reach res fs root rootFile q ∧ imp ∈ importsOf fs root rootFile q ∧ res q imp.rel = x.1 ∧
    fs.lookup x.1 = some f ∧ x.2 ∈ selectedIdx imp.targets f.defs

structure Inv (st : St κ) : Prop where
  root_exp : root ∈ st.expanded
  reach : ∀ q ∈ st.expanded, Reach res fs root rootFile q
  just : ∀ x ∈ st.requested, ReqJust res fs root rootFile x
  nodup : st.finished.Nodup
  fin_exp : ∀ q ∈ st.finished, q ∈ st.expanded

structure Post (doc : κ) (imps : List (Import ρ)) (st st' : St κ) : Prop where
  le : Le st st'
  inv : Inv res fs root rootFile st'
  proc : ∀ imp ∈ imps, Proc res fs st' doc imp
  new : ∀ q ∈ st'.expanded, q ∉ st.expanded → Done res fs root rootFile st' q ∧ q ∈ st'.finished
  finNew : ∀ q ∈ st'.finished, q ∈ st.finished ∨ q ∉ st.expanded

/-- an error is raised only for a dangling / missing-name import line of a reachable file -/
inductive ErrJust : ImpErr κ ρ → Prop where
  | dangling {q : κ} {imp : Import ρ} : Reach res fs root rootFile q → imp ∈ importsOf fs root rootFile q →
      fs.lookup (res q imp.rel) = none → ErrJust (.fileNotFound q imp.rel imp.line)
  | missing {q : κ} {imp : Import ρ} {f : File ρ} {id : Ident} : Reach res fs root rootFile q →
      imp ∈ importsOf fs root rootFile q → fs.lookup (res q imp.rel) = some f →
      missingTarget imp.targets f.defs = some id → ErrJust (.fragmentNotFound q imp.rel id)

def Outcome (doc : κ) (imps : List (Import ρ)) (st : St κ) : Res κ ρ (St κ) → Prop
  | .ok st' => Post res fs root rootFile doc imps st st'
  | .err e => ErrJust res fs root rootFile e
  | .outOfFuel => True

def Sound (expand : κ → List (Import ρ) → St κ → Res κ ρ (St κ)) : Prop :=
  ∀ doc imps st, Inv res fs root rootFile st → Reach res fs root rootFile doc →
    (∀ imp ∈ imps, imp ∈ importsOf fs root rootFile doc) →
    Outcome res fs root rootFile doc imps st (expand doc imps st)

theorem defsAt_of_lookup {p : κ} {f : File ρ} (h : fs.lookup p = some f) : defsAt fs p = some f.defs := by
  simp [defsAt, h]

theorem enter_pre {st : St κ} {doc : κ} {imp : Import ρ} {file : File ρ}
    (hinv : Inv res fs root rootFile st) (hdoc : Reach res fs root rootFile doc)
    (himp : imp ∈ importsOf fs root rootFile doc) (hl : fs.lookup (res doc imp.rel) = some file)
    (hp : res doc imp.rel ∉ st.expanded) :
    Inv res fs root rootFile (enter st (res doc imp.rel)) ∧ Reach res fs root rootFile (res doc imp.rel) ∧
      importsOf fs root rootFile (res doc imp.rel) = file.imports := by
  have hreach : Reach res fs root rootFile (res doc imp.rel) :=
    Reach.step hdoc himp (by simp [defsAt_of_lookup fs hl])
  have hne : res doc imp.rel ≠ root := fun e => hp (e ▸ hinv.root_exp)
  refine ⟨⟨?_, ?_, hinv.just, hinv.nodup, ?_⟩, hreach, ?_⟩
  · exact List.mem_cons_of_mem _ hinv.root_exp
  · intro q hq
    rcases List.mem_cons.mp hq with rfl | hq
    · exact hreach
    · exact hinv.reach q hq
  · intro q hq
    exact List.mem_cons_of_mem _ (hinv.fin_exp q hq)
  · simp [importsOf, hne, hl]

theorem just_record {st1 : St κ} {doc : κ} {imp : Import ρ} {file : File ρ}
    (hdoc : Reach res fs root rootFile doc) (himp : imp ∈ importsOf fs root rootFile doc)
    (hl : fs.lookup (res doc imp.rel) = some file) (hj : ∀ x ∈ st1.requested, ReqJust res fs root rootFile x) :
    ∀ x ∈ (record st1 (res doc imp.rel) imp.targets file.defs).requested, ReqJust res fs root rootFile x := by
  intro x hx
  simp only [record, List.mem_append, List.mem_map] at hx
  rcases hx with hx | ⟨i, hi, rfl⟩
  · exact hj x hx
  · exact ⟨doc, imp, file, hdoc, himp, rfl, hl, hi⟩

theorem proc_record {st1 : St κ} {doc : κ} {imp : Import ρ} {file : File ρ}
    (hl : fs.lookup (res doc imp.rel) = some file) (hm : missingTarget imp.targets file.defs = none)
    (hp : res doc imp.rel ∈ st1.expanded) :
    Proc res fs (record st1 (res doc imp.rel) imp.targets file.defs) doc imp :=
  ⟨file, hl, hp, hm, fun i hi => by
    simp only [record, List.mem_append, List.mem_map]
    exact Or.inr ⟨i, hi, rfl⟩⟩

theorem step_sound {expand : κ → List (Import ρ) → St κ → Res κ ρ (St κ)}
    (hs : Sound res fs root rootFile expand) {doc : κ} {st : St κ} {imp : Import ρ}
    (hinv : Inv res fs root rootFile st) (hdoc : Reach res fs root rootFile doc)
    (himp : imp ∈ importsOf fs root rootFile doc) :
    Outcome res fs root rootFile doc [imp] st (step res fs expand doc st imp) := by
  cases hr : step res fs expand doc st imp with
  | outOfFuel => trivial
  | err e =>
    show ErrJust res fs root rootFile e
    rcases step_err_inv res fs hr with ⟨hl, rfl⟩ | ⟨file, hl, hp, he⟩ | ⟨file, id, hl, hm, rfl⟩
    · exact ErrJust.dangling hdoc himp hl
    · obtain ⟨hinv', hreach, himps⟩ := enter_pre res fs root rootFile hinv hdoc himp hl hp
      have := hs _ file.imports _ hinv' hreach (by intro i hi; rw [himps]; exact hi)
      rw [he] at this
      exact this
    · exact ErrJust.missing hdoc himp hl hm
  | ok st' =>
    show Post res fs root rootFile doc [imp] st st'
    obtain ⟨file, st1, hl, hm, hst, hc⟩ := step_ok_inv res fs hr
    clear hr
    subst hst
    rcases hc with ⟨hp, rfl⟩ | ⟨hp, st0, he, rfl⟩
    · refine ⟨le_record _ _ _ _, ⟨hinv.root_exp, hinv.reach, ?_, hinv.nodup, hinv.fin_exp⟩, ?_, ?_, ?_⟩
      · exact just_record res fs root rootFile hdoc himp hl hinv.just
      · intro i hi
        rw [List.mem_singleton.mp hi]
        exact proc_record res fs hl hm hp
      · intro q hq hnq; exact absurd hq hnq
      · intro q hq; exact Or.inl hq
    · obtain ⟨hinv', hreach, himps⟩ := enter_pre res fs root rootFile hinv hdoc himp hl hp
      have P0 := hs _ file.imports _ hinv' hreach (by intro i hi; rw [himps]; exact hi)
      rw [he] at P0
      change Post res fs root rootFile (res doc imp.rel) file.imports (enter st (res doc imp.rel)) st0 at P0
      have hle1 : Le st0 (record (leave st0 (res doc imp.rel)) (res doc imp.rel) imp.targets file.defs) :=
        (le_leave _ _).trans (le_record _ _ _ _)
      have hpexp : res doc imp.rel ∈ st0.expanded := P0.le.exp _ (by simp [enter])
      have hpfin : res doc imp.rel ∉ st0.finished := by
        intro hin
        rcases P0.finNew _ hin with h | h
        · exact hp (hinv.fin_exp _ h)
        · exact h (by simp [enter])
      refine ⟨((le_enter st _).trans P0.le).trans hle1, ⟨P0.inv.root_exp, P0.inv.reach, ?_, ?_, ?_⟩, ?_, ?_, ?_⟩
      · exact just_record res fs root rootFile hdoc himp hl P0.inv.just
      · show (st0.finished ++ [res doc imp.rel]).Nodup
        rw [List.nodup_append]
        refine ⟨P0.inv.nodup, by simp, ?_⟩
        intro a ha b hb
        rw [List.mem_singleton.mp hb]
        intro e; subst e; exact hpfin ha
      · intro q hq
        change q ∈ st0.finished ++ [res doc imp.rel] at hq
        change q ∈ st0.expanded
        rcases List.mem_append.mp hq with hq | hq
        · exact P0.inv.fin_exp q hq
        · rw [List.mem_singleton.mp hq]; exact hpexp
      · intro i hi
        rw [List.mem_singleton.mp hi]
        exact proc_record res fs hl hm hpexp
      · intro q hq hnq
        change q ∈ st0.expanded at hq
        by_cases hqp : q = res doc imp.rel
        · subst hqp
          refine ⟨?_, ?_⟩
          · intro imp' hi'
            rw [himps] at hi'
            exact (P0.proc imp' hi').mono res fs hle1
          · show res doc imp.rel ∈ st0.finished ++ [res doc imp.rel]
            simp
        · have hnq' : q ∉ (enter st (res doc imp.rel)).expanded := by
            simp only [enter, List.mem_cons, not_or]; exact ⟨hqp, hnq⟩
          obtain ⟨hd, hf⟩ := P0.new q hq hnq'
          exact ⟨hd.mono res fs root rootFile hle1, hle1.fin _ hf⟩
      · intro q hq
        change q ∈ st0.finished ++ [res doc imp.rel] at hq
        rcases List.mem_append.mp hq with hq | hq
        · rcases P0.finNew q hq with h | h
          · exact Or.inl h
          · right; intro hin; exact h (List.mem_cons_of_mem _ hin)
        · rw [List.mem_singleton.mp hq]; exact Or.inr hp

theorem Post.nil {doc : κ} {st : St κ} (hinv : Inv res fs root rootFile st) :
    Post res fs root rootFile doc [] st st :=
  ⟨Le.refl _, hinv, (fun i hi => by cases hi), fun q hq hnq => absurd hq hnq, fun q hq => Or.inl hq⟩

theorem Post.trans {doc : κ} {imp : Import ρ} {rest : List (Import ρ)} {st st1 st' : St κ}
    (h1 : Post res fs root rootFile doc [imp] st st1) (h2 : Post res fs root rootFile doc rest st1 st') :
    Post res fs root rootFile doc (imp :: rest) st st' := by
  refine ⟨h1.le.trans h2.le, h2.inv, ?_, ?_, ?_⟩
  · intro i hi
    rcases List.mem_cons.mp hi with rfl | hi
    · exact (h1.proc i (by simp)).mono res fs h2.le
    · exact h2.proc i hi
  · intro q hq hnq
    by_cases h : q ∈ st1.expanded
    · obtain ⟨hd, hf⟩ := h1.new q h hnq
      exact ⟨hd.mono res fs root rootFile h2.le, h2.le.fin _ hf⟩
    · exact h2.new q hq h
  · intro q hq
    rcases h2.finNew q hq with h | h
    · exact h1.finNew q h
    · right; intro hin; exact h (h1.le.exp _ hin)

theorem iter_sound {expand : κ → List (Import ρ) → St κ → Res κ ρ (St κ)}
    (hs : Sound res fs root rootFile expand) : Sound res fs root rootFile (iter res fs expand) := by
  intro doc imps
  induction imps with
  | nil => intro st hinv _ _; simp only [iter]; exact Post.nil res fs root rootFile hinv
  | cons imp rest ih =>
    intro st hinv hdoc himps
    have h1 := step_sound res fs root rootFile hs hinv hdoc (himps imp (by simp))
    simp only [iter]
    cases hr : step res fs expand doc st imp with
    | outOfFuel => trivial
    | err e => rw [hr] at h1; exact h1
    | ok st1 =>
      rw [hr] at h1
      change Post res fs root rootFile doc [imp] st st1 at h1
      have h2 := ih st1 h1.inv hdoc (fun i hi => himps i (List.mem_cons_of_mem _ hi))
      show Outcome res fs root rootFile doc (imp :: rest) st (iter res fs expand doc rest st1)
      cases hr2 : iter res fs expand doc rest st1 with
      | outOfFuel => trivial
      | err e => rw [hr2] at h2; exact h2
      | ok st' =>
        rw [hr2] at h2
        exact Post.trans res fs root rootFile h1 h2

theorem expandFuel_sound (n : Nat) : Sound res fs root rootFile (expandFuel res fs n) := by
  induction n with
  | zero => intro doc imps st _ _ _; simp only [expandFuel]; trivial
  | succ n ih => intro doc imps st h1 h2 h3; exact iter_sound res fs root rootFile ih doc imps st h1 h2 h3

/-! ### the top-level call -/

theorem importsOf_root : importsOf fs root rootFile root = rootFile.imports := by simp [importsOf]

theorem inv_init : Inv res fs root rootFile (initSt root) :=
  ⟨by simp [initSt], by intro q hq; simp [initSt] at hq; subst hq; exact Reach.root,
   by intro x hx; simp [initSt] at hx, by simp [initSt], by intro q hq; simp [initSt] at hq⟩

theorem top_sound : Outcome res fs root rootFile root rootFile.imports (initSt root)
    (expandFuel res fs (fs.length + 1) root rootFile.imports (initSt root)) :=
  expandFuel_sound res fs root rootFile _ root rootFile.imports (initSt root) (inv_init res fs root rootFile)
    Reach.root (by intro i hi; rw [importsOf_root]; exact hi)

theorem top_fuel : expandFuel res fs (fs.length + 1) root rootFile.imports (initSt root) ≠ .outOfFuel :=
  iter_fuel res fs fs.length root rootFile.imports (initSt root) (unexp_le_length fs _)

theorem resolve_ok {out : List (DefId κ)} (h : resolve res fs root rootFile = .ok out) :
    ∃ st, Post res fs root rootFile root rootFile.imports (initSt root) st ∧ out = emit fs st := by
  have hs := top_sound res fs root rootFile
  unfold resolve at h
  cases hr : expandFuel res fs (fs.length + 1) root rootFile.imports (initSt root) with
  | ok st => rw [hr] at h hs; injection h with h; exact ⟨st, hs, h.symm⟩
  | err e => rw [hr] at h; cases h
  | outOfFuel => rw [hr] at h; cases h

theorem resolve_err {e : ImpErr κ ρ} (h : resolve res fs root rootFile = .err e) :
    ErrJust res fs root rootFile e := by
  have hs := top_sound res fs root rootFile
  unfold resolve at h
  cases hr : expandFuel res fs (fs.length + 1) root rootFile.imports (initSt root) with
  | ok st => rw [hr] at h; cases h
  | err e' => rw [hr] at h hs; injection h with h; rw [← h]; exact hs
  | outOfFuel => rw [hr] at h; cases h

theorem resolve_fuel : resolve res fs root rootFile ≠ .outOfFuel := by
  intro h
  unfold resolve at h
  cases hr : expandFuel res fs (fs.length + 1) root rootFile.imports (initSt root) with
  | ok st => rw [hr] at h; cases h
  | err e' => rw [hr] at h; cases h
  | outOfFuel => exact top_fuel res fs root rootFile hr

/-- in the final state the expanded files are closed under import lines, and all their lines are processed -/
theorem post_closed {st : St κ} (hp : Post res fs root rootFile root rootFile.imports (initSt root) st) :
    ∀ q, Reach res fs root rootFile q → q ∈ st.expanded ∧ Done res fs root rootFile st q := by
  have hdone : ∀ q ∈ st.expanded, Done res fs root rootFile st q := by
    intro q hq
    by_cases hqr : q = root
    · subst hqr
      intro imp hi
      rw [importsOf_root] at hi
      exact hp.proc imp hi
    · exact (hp.new q hq (by simpa [initSt] using hqr)).1
  intro q hq
  induction hq with
  | root => exact ⟨hp.inv.root_exp, hdone _ hp.inv.root_exp⟩
  | step _ himp _ ih =>
    obtain ⟨f, _, hexp, _, _⟩ := ih.2 _ himp
    exact ⟨hexp, hdone _ hexp⟩

theorem post_finished {st : St κ} (hp : Post res fs root rootFile root rootFile.imports (initSt root) st) (q : κ) :
    q ∈ st.finished ↔ q ∈ st.expanded ∧ q ≠ root := by
  constructor
  · intro hq
    refine ⟨hp.inv.fin_exp q hq, ?_⟩
    rcases hp.finNew q hq with h | h
    · simp [initSt] at h
    · simpa [initSt] using h
  · rintro ⟨hq, hne⟩
    exact (hp.new q hq (by simpa [initSt] using hne)).2

/-! ### the final loop -/

theorem mem_emitFile {R : List (DefId κ)} {p : κ} {x : DefId κ} :
    x ∈ emitFile fs R p ↔ x.1 = p ∧ x ∈ R ∧ ∃ f, fs.lookup p = some f ∧ x.2 < f.defs.length := by
  unfold emitFile
  cases hl : fs.lookup p with
  | none => simp
  | some f =>
    simp only [List.mem_map, List.mem_filter, List.mem_range, decide_eq_true_eq, Option.some.injEq,
      exists_eq_left']
    constructor
    · rintro ⟨i, ⟨hi, hr⟩, rfl⟩
      exact ⟨rfl, hr, hi⟩
    · rintro ⟨h1, h2, h3⟩
      obtain ⟨a, b⟩ := x
      simp only at h1 h3
      subst h1
      exact ⟨b, ⟨h3, h2⟩, rfl⟩

theorem mem_emit {st : St κ} {x : DefId κ} :
    x ∈ emit fs st ↔ x.1 ∈ st.finished ∧ x ∈ st.requested ∧ ∃ f, fs.lookup x.1 = some f ∧ x.2 < f.defs.length := by
  unfold emit
  simp only [List.mem_flatMap, mem_emitFile]
  constructor
  · rintro ⟨p, hp, rfl, h2, h3⟩
    exact ⟨hp, h2, h3⟩
  · rintro ⟨h1, h2, h3⟩
    exact ⟨x.1, h1, rfl, h2, h3⟩

theorem nodup_emitFile (R : List (DefId κ)) (p : κ) : (emitFile fs R p).Nodup := by
  unfold emitFile
  cases fs.lookup p with
  | none => simp
  | some f =>
    simp only [List.Nodup]
    rw [List.pairwise_map]
    refine List.Pairwise.imp ?_ (List.Pairwise.filter _ List.nodup_range)
    intro a b hab h
    injection h with _ h
    exact hab h

theorem nodup_emit {st : St κ} (h : st.finished.Nodup) : (emit fs st).Nodup := by
  unfold emit
  simp only [List.Nodup]
  rw [List.pairwise_flatMap]
  refine ⟨fun a _ => nodup_emitFile fs _ a, List.Pairwise.imp ?_ h⟩
  intro a b hab x hx y hy e
  rw [mem_emitFile] at hx hy
  exact hab (by rw [← hx.1, ← hy.1, e])

/-! ### the specification only looks at the set of import lines of each file -/

omit [DecidableEq ρ] in
theorem mem_rootIds {x : DefId κ} : x ∈ rootIds root rootFile ↔ x.1 = root ∧ x.2 < rootFile.defs.length := by
  obtain ⟨a, b⟩ := x
  simp only [rootIds, List.mem_map, List.mem_range, Prod.mk.injEq]
  constructor
  · rintro ⟨i, hi, rfl, rfl⟩; exact ⟨rfl, hi⟩
  · rintro ⟨rfl, h⟩; exact ⟨b, h, rfl, rfl⟩

section congr
variable {fs} {rootFile} {fs' : FS κ ρ} {rootFile' : File ρ}
variable (hd : ∀ p, defsAt fs p = defsAt fs' p)
variable (hi : ∀ q imp, imp ∈ importsOf fs root rootFile q ↔ imp ∈ importsOf fs' root rootFile' q)
include hd hi

theorem reach_congr {q : κ} (h : Reach res fs root rootFile q) : Reach res fs' root rootFile' q := by
  induction h with
  | root => exact Reach.root
  | step _ himp hsome ih => exact Reach.step ih ((hi _ _).mp himp) (by rw [← hd]; exact hsome)

theorem selected_congr {x : DefId κ} (h : Selected res fs root rootFile x) : Selected res fs' root rootFile' x := by
  obtain ⟨q, imp, ds, n, h1, h2, h3, h4, h5, h6⟩ := h
  exact ⟨q, imp, ds, n, reach_congr res root hd hi h1, (hi _ _).mp h2, h3, by rw [← hd]; exact h4, h5, h6⟩

theorem dangling_congr (h : Dangling res fs root rootFile) : Dangling res fs' root rootFile' := by
  obtain ⟨q, imp, h1, h2, h3⟩ := h
  exact ⟨q, imp, reach_congr res root hd hi h1, (hi _ _).mp h2, by rw [← hd]; exact h3⟩

theorem missing_congr (h : MissingName res fs root rootFile) : MissingName res fs' root rootFile' := by
  obtain ⟨q, imp, ds, n, h1, h2, h3, h4, h5⟩ := h
  exact ⟨q, imp, ds, n, reach_congr res root hd hi h1, (hi _ _).mp h2, by rw [← hd]; exact h3, h4, h5⟩

end congr

/-- same definitions, import lines permuted -/
def FilePerm (a b : File ρ) : Prop := a.defs = b.defs ∧ a.imports.Perm b.imports

/-- the same configured documents, the import lines of each one permuted -/
inductive FSPerm : FS κ ρ → FS κ ρ → Prop where
  | nil : FSPerm [] []
  | cons {k : κ} {f f' : File ρ} {l l' : FS κ ρ} : FilePerm f f' → FSPerm l l' → FSPerm ((k, f) :: l) ((k, f') :: l')

omit [DecidableEq ρ] in
theorem FilePerm.symm {a b : File ρ} (h : FilePerm a b) : FilePerm b a := ⟨h.1.symm, h.2.symm⟩

omit [DecidableEq ρ] in
theorem FSPerm.symm {fs fs' : FS κ ρ} (h : FSPerm fs fs') : FSPerm fs' fs := by
  induction h with
  | nil => exact FSPerm.nil
  | cons hab _ ih => exact FSPerm.cons hab.symm ih

omit [DecidableEq ρ] in
theorem FSPerm.lookup {fs fs' : FS κ ρ} (h : FSPerm fs fs') (p : κ) :
    (fs.lookup p = none ∧ fs'.lookup p = none) ∨
    ∃ f f', fs.lookup p = some f ∧ fs'.lookup p = some f' ∧ FilePerm f f' := by
  induction h with
  | nil => left; simp
  | @cons ka fa fb l l' hf _ ih =>
    by_cases hp : p = ka
    · subst hp
      right
      exact ⟨fa, fb, by simp, by simp, hf⟩
    · have : (p == ka) = false := by simpa using hp
      simpa [List.lookup_cons, this] using ih

omit [DecidableEq ρ] in
theorem FSPerm.defsAt {fs fs' : FS κ ρ} (h : FSPerm fs fs') (p : κ) : defsAt fs p = defsAt fs' p := by
  rcases h.lookup p with ⟨h1, h2⟩ | ⟨f, f', h1, h2, h3⟩
  · simp [Spec.defsAt, h1, h2]
  · simp [Spec.defsAt, h1, h2, h3.1]

omit [DecidableEq ρ] in
theorem FSPerm.importsOf {fs fs' : FS κ ρ} {rootFile rootFile' : File ρ} (h : FSPerm fs fs')
    (hr : FilePerm rootFile rootFile') (q : κ) (imp : Import ρ) :
    imp ∈ importsOf fs root rootFile q ↔ imp ∈ importsOf fs' root rootFile' q := by
  unfold Spec.importsOf
  by_cases hq : q = root
  · simp only [hq, if_true]; exact hr.2.mem_iff
  · simp only [hq, if_false]
    rcases h.lookup q with ⟨h1, h2⟩ | ⟨f, f', h1, h2, h3⟩
    · simp [h1, h2]
    · simp only [h1, h2]; exact h3.2.mem_iff

/-! ### the executable reference computes the declarative one -/

theorem mem_dedup {α : Type} [DecidableEq α] (l : List α) (a : α) : a ∈ dedup l ↔ a ∈ l := by
  induction l with
  | nil => simp [dedup]
  | cons b l ih =>
    unfold dedup
    by_cases hb : b ∈ l
    · simp only [hb, if_true, ih, List.mem_cons]
      constructor
      · exact Or.inr
      · rintro (rfl | h)
        · exact hb
        · exact h
    · simp [hb, ih]

theorem nodup_dedup {α : Type} [DecidableEq α] (l : List α) : (dedup l).Nodup := by
  induction l with
  | nil => simp [dedup]
  | cons b l ih =>
    unfold dedup
    by_cases hb : b ∈ l
    · simpa [hb] using ih
    · rw [if_neg hb, List.nodup_cons, mem_dedup]
      exact ⟨hb, ih⟩

theorem mem_targetsOf {S : List κ} {p : κ} :
    p ∈ targetsOf res fs root rootFile S ↔
      ∃ q ∈ S, ∃ imp ∈ importsOf fs root rootFile q, (defsAt fs (res q imp.rel)).isSome = true ∧ res q imp.rel = p := by
  simp only [targetsOf, List.mem_flatMap, List.mem_filterMap]
  constructor
  · rintro ⟨q, hq, imp, hi, h⟩
    by_cases hs : (defsAt fs (res q imp.rel)).isSome = true
    · simp only [hs, if_true, Option.some.injEq] at h
      exact ⟨q, hq, imp, hi, hs, h⟩
    · simp [hs] at h
  · rintro ⟨q, hq, imp, hi, hs, rfl⟩
    exact ⟨q, hq, imp, hi, by simp [hs]⟩

theorem closure_subset (n : Nat) (S : List κ) : ∀ q ∈ S, q ∈ closure res fs root rootFile n S := by
  induction n generalizing S with
  | zero => intro q hq; exact hq
  | succ n ih =>
    intro q hq
    simp only [closure]
    split
    · exact hq
    · exact ih _ q (List.mem_append_left _ hq)

theorem closure_sound (n : Nat) (S : List κ) (hS : ∀ q ∈ S, Reach res fs root rootFile q) :
    ∀ q ∈ closure res fs root rootFile n S, Reach res fs root rootFile q := by
  induction n generalizing S with
  | zero => exact hS
  | succ n ih =>
    simp only [closure]
    split
    · exact hS
    · apply ih
      intro q hq
      rcases List.mem_append.mp hq with h | h
      · exact hS q h
      · obtain ⟨hq', _⟩ := List.mem_filter.mp h
        obtain ⟨q0, hq0, imp, hi, hs, rfl⟩ := (mem_targetsOf res fs root rootFile).mp hq'
        exact Reach.step (hS q0 hq0) hi hs

/-- closed under import lines with an existing target -/
def Closed (T : List κ) : Prop := ∀ p ∈ targetsOf res fs root rootFile T, p ∈ T

omit [DecidableEq ρ] in
theorem defsAt_isSome_mem_keys {p : κ} (h : (defsAt fs p).isSome = true) : p ∈ fs.map Prod.fst := by
  unfold Spec.defsAt at h
  cases hl : fs.lookup p with
  | none => simp [hl] at h
  | some f => exact lookup_some_mem_keys hl

omit [DecidableEq ρ] in
theorem unexp_zero_mem {E : List κ} (h : unexp fs E = 0) {p : κ} (hp : p ∈ fs.map Prod.fst) : p ∈ E := by
  unfold unexp at h
  have hnil : (fs.map Prod.fst).filter (fresh E) = [] := List.eq_nil_of_length_eq_zero h
  have := (List.filter_eq_nil_iff.mp hnil) p hp
  exact fresh_false.mp (by simpa using this)

theorem closure_closed (n : Nat) (S : List κ) (hn : unexp fs S ≤ n) :
    Closed res fs root rootFile (closure res fs root rootFile n S) := by
  induction n generalizing S with
  | zero =>
    intro p hp
    obtain ⟨q, _, imp, _, hs, rfl⟩ := (mem_targetsOf res fs root rootFile).mp hp
    show res q imp.rel ∈ S
    exact unexp_zero_mem fs (by omega) (defsAt_isSome_mem_keys fs hs)
  | succ n ih =>
    simp only [closure]
    split
    · rename_i hempty
      intro p hp
      by_cases hin : p ∈ S
      · exact hin
      · have : p ∈ (targetsOf res fs root rootFile S).filter (fun p => decide (p ∉ S)) :=
          List.mem_filter.mpr ⟨hp, by simpa using hin⟩
        rw [List.isEmpty_iff.mp hempty] at this
        cases this
    · rename_i hne
      apply ih
      cases hnew : (targetsOf res fs root rootFile S).filter (fun p => decide (p ∉ S)) with
      | nil => rw [hnew] at hne; simp at hne
      | cons p rest =>
        have hpm : p ∈ (targetsOf res fs root rootFile S).filter (fun p => decide (p ∉ S)) := by
          rw [hnew]; simp
        obtain ⟨hpt, hpS⟩ := List.mem_filter.mp hpm
        have hpS' : p ∉ S := by simpa using hpS
        obtain ⟨q, _, imp, _, hs, rfl⟩ := (mem_targetsOf res fs root rootFile).mp hpt
        have h1 := unexp_lt fs (defsAt_isSome_mem_keys fs hs) hpS'
        have h2 : unexp fs (S ++ res q imp.rel :: rest) ≤ unexp fs (res q imp.rel :: S) :=
          unexp_anti fs (by
            intro x hx
            rcases List.mem_cons.mp hx with rfl | hx
            · simp
            · exact List.mem_append_left _ hx)
        omega

theorem mem_reachList (q : κ) : q ∈ reachList res fs root rootFile ↔ Reach res fs root rootFile q := by
  unfold reachList
  constructor
  · exact closure_sound res fs root rootFile _ _ (by intro q hq; simp at hq; subst hq; exact Reach.root) q
  · intro h
    have hc := closure_closed res fs root rootFile fs.length [root] (unexp_le_length fs _)
    induction h with
    | root => exact closure_subset res fs root rootFile _ _ root (by simp)
    | step _ hi hs ih => exact hc _ ((mem_targetsOf res fs root rootFile).mpr ⟨_, ih, _, hi, hs, rfl⟩)

theorem mem_requestedFrom (t : Targets) (ds : List Def) (k i : Nat) :
    i ∈ requestedFrom t k ds ↔ ∃ j n, i = k + j ∧ ds[j]? = some (Def.frag n) ∧ Requests t n := by
  induction ds generalizing k with
  | nil => simp [requestedFrom]
  | cons d ds ih =>
    have shift : (∃ j n, i = k + 1 + j ∧ ds[j]? = some (Def.frag n) ∧ Requests t n) ↔
        ∃ j n, i = k + (j + 1) ∧ (d :: ds)[j + 1]? = some (Def.frag n) ∧ Requests t n := by
      constructor
      · rintro ⟨j, n, rfl, h1, h2⟩; exact ⟨j, n, by omega, by simpa using h1, h2⟩
      · rintro ⟨j, n, rfl, h1, h2⟩; exact ⟨j, n, by omega, by simpa using h1, h2⟩
    have split0 : (∃ j n, i = k + j ∧ (d :: ds)[j]? = some (Def.frag n) ∧ Requests t n) ↔
        (∃ n, i = k ∧ d = Def.frag n ∧ Requests t n) ∨
        ∃ j n, i = k + (j + 1) ∧ (d :: ds)[j + 1]? = some (Def.frag n) ∧ Requests t n := by
      constructor
      · rintro ⟨j, n, rfl, h1, h2⟩
        cases j with
        | zero => left; exact ⟨n, by simp, by simpa using h1, h2⟩
        | succ j => right; exact ⟨j, n, rfl, h1, h2⟩
      · rintro (⟨n, rfl, rfl, h2⟩ | ⟨j, n, rfl, h1, h2⟩)
        · exact ⟨0, n, by simp, by simp, h2⟩
        · exact ⟨j + 1, n, rfl, h1, h2⟩
    rw [split0, ← shift, ← ih (k + 1)]
    cases d with
    | other => simp [requestedFrom]
    | frag m =>
      simp only [requestedFrom]
      by_cases hr : Requests t m
      · simp only [hr, if_true, List.mem_cons, Def.frag.injEq]
        constructor
        · rintro (rfl | h)
          · left; exact ⟨m, rfl, rfl, hr⟩
          · right; exact h
        · rintro (⟨n, rfl, _, _⟩ | h)
          · left; rfl
          · right; exact h
      · simp only [hr, if_false, Def.frag.injEq]
        constructor
        · exact Or.inr
        · rintro (⟨n, _, rfl, h⟩ | h)
          · exact absurd h hr
          · exact h

theorem mem_lineSel {q : κ} {imp : Import ρ} {x : DefId κ} :
    x ∈ lineSel res fs q imp ↔ res q imp.rel = x.1 ∧
      ∃ ds n, defsAt fs x.1 = some ds ∧ ds[x.2]? = some (Def.frag n) ∧ Requests imp.targets n := by
  unfold lineSel
  obtain ⟨a, b⟩ := x
  cases hd : defsAt fs (res q imp.rel) with
  | none =>
    simp only [List.not_mem_nil, false_iff]
    rintro ⟨h1, ds, n, h2, _⟩
    rw [← h1, hd] at h2
    cases h2
  | some ds =>
    simp only [List.mem_map, mem_requestedFrom, Prod.mk.injEq]
    constructor
    · rintro ⟨i, ⟨j, n, rfl, h1, h2⟩, rfl, rfl⟩
      exact ⟨rfl, ds, n, hd, by simpa using h1, h2⟩
    · rintro ⟨h1, ds', n, h2, h3, h4⟩
      subst h1
      rw [hd] at h2
      injection h2 with h2
      subst h2
      exact ⟨b, ⟨b, n, by simp, h3, h4⟩, rfl, rfl⟩

theorem mem_refImports (x : DefId κ) : x ∈ refImports res fs root rootFile ↔ InRef res fs root rootFile x := by
  unfold refImports InRef Selected
  simp only [mem_dedup, List.mem_filter, List.mem_flatMap, mem_reachList, mem_lineSel, decide_eq_true_eq]
  constructor
  · rintro ⟨⟨q, hq, imp, hi, h1, ds, n, h2, h3, h4⟩, hn⟩
    exact ⟨⟨q, imp, ds, n, hq, hi, h1, h2, h3, h4⟩, hn⟩
  · rintro ⟨⟨q, imp, ds, n, hq, hi, h1, h2, h3, h4⟩, hn⟩
    exact ⟨⟨q, hq, imp, hi, h1, ds, n, h2, h3, h4⟩, hn⟩

theorem nodup_refImports : (refImports res fs root rootFile).Nodup := nodup_dedup _

theorem lineBad_iff {q : κ} {imp : Import ρ} :
    lineBad res fs q imp = true ↔ defsAt fs (res q imp.rel) = none ∨
      ∃ ds n, defsAt fs (res q imp.rel) = some ds ∧ n ∈ namesOf imp.targets ∧ Def.frag n ∉ ds := by
  unfold lineBad
  cases hd : defsAt fs (res q imp.rel) with
  | none => simp
  | some ds =>
    simp only [List.any_eq_true, Bool.not_eq_eq_eq_not, Bool.not_true, List.contains_eq_mem, decide_eq_false_iff_not,
      Option.some.injEq, false_or, reduceCtorEq]
    constructor
    · rintro ⟨n, h1, h2⟩; exact ⟨ds, n, rfl, h1, h2⟩
    · rintro ⟨_, n, rfl, h1, h2⟩; exact ⟨n, h1, h2⟩

theorem refError_iff :
    refError res fs root rootFile = true ↔ Dangling res fs root rootFile ∨ MissingName res fs root rootFile := by
  unfold refError Dangling MissingName
  simp only [List.any_eq_true, mem_reachList, lineBad_iff]
  constructor
  · rintro ⟨q, hq, imp, hi, h | ⟨ds, n, h1, h2, h3⟩⟩
    · exact Or.inl ⟨q, imp, hq, hi, h⟩
    · exact Or.inr ⟨q, imp, ds, n, hq, hi, h1, h2, h3⟩
  · rintro (⟨q, imp, hq, hi, h⟩ | ⟨q, imp, ds, n, hq, hi, h1, h2, h3⟩)
    · exact ⟨q, hq, imp, hi, Or.inl h⟩
    · exact ⟨q, hq, imp, hi, Or.inr ⟨ds, n, h1, h2, h3⟩⟩

/-! ### merging of import lines (`resolve_operation_extensions`) keeps what is requested -/

/-- what a raw line asks for -/
def RawRequests (ts : List RawTarget) (n : Nat) : Prop := RawTarget.wildcard ∈ ts ∨ RawTarget.name n ∈ ts

theorem requests_specific_snoc (ids : List Ident) (id : Ident) (n : Nat) :
    Requests (.specific (ids ++ [id])) n ↔ Requests (.specific ids) n ∨ id.name = n := by
  simp only [Requests, List.mem_append, List.mem_singleton]
  constructor
  · rintro ⟨x, hx | rfl, h⟩
    · exact Or.inl ⟨x, hx, h⟩
    · exact Or.inr h
  · rintro (⟨x, hx, h⟩ | h)
    · exact ⟨x, Or.inl hx, h⟩
    · exact ⟨id, Or.inr rfl, h⟩

theorem foldTargets_sem (line : Nat) (ts : List RawTarget) : ∀ (t : Targets) (i : Nat) (t' : Targets),
    foldTargets line t i ts = .ok t' →
    (∀ n, Requests t' n ↔ Requests t n ∨ RawRequests ts n) ∧
    (∀ n, n ∈ namesOf t' ↔ n ∈ namesOf t ∨ RawTarget.name n ∈ ts) := by
  induction ts with
  | nil =>
    intro t i t' h
    simp only [foldTargets] at h
    injection h with h
    subst h
    simp [RawRequests]
  | cons a ts ih =>
    intro t i t' h
    cases t with
    | wildcard => cases a <;> simp [foldTargets] at h
    | specific ids =>
      cases a with
      | wildcard =>
        simp only [foldTargets] at h
        by_cases he : ids.isEmpty = true
        · simp only [he, if_true] at h
          obtain ⟨h1, h2⟩ := ih _ _ _ h
          have hids : ids = [] := List.isEmpty_iff.mp he
          subst hids
          refine ⟨fun n => ?_, fun n => ?_⟩
          · rw [h1]; simp [Requests, RawRequests]
          · rw [h2]; simp [namesOf]
        · simp [he] at h
      | name m =>
        simp only [foldTargets] at h
        obtain ⟨h1, h2⟩ := ih _ _ _ h
        refine ⟨fun n => ?_, fun n => ?_⟩
        · rw [h1, requests_specific_snoc]
          simp only [RawRequests, List.mem_cons, RawTarget.name.injEq, reduceCtorEq, false_or]
          constructor
          · rintro ((h | h) | h | h)
            · exact Or.inl h
            · exact Or.inr (Or.inr (Or.inl h.symm))
            · exact Or.inr (Or.inl h)
            · exact Or.inr (Or.inr (Or.inr h))
          · rintro (h | h | h | h)
            · exact Or.inl (Or.inl h)
            · exact Or.inr (Or.inl h)
            · exact Or.inl (Or.inr h.symm)
            · exact Or.inr (Or.inr h)
        · rw [h2]
          simp only [namesOf, List.map_append, List.map_cons, List.map_nil, List.mem_append,
            List.mem_cons, RawTarget.name.injEq, List.not_mem_nil, or_false]
          constructor
          · rintro ((h | h) | h)
            · exact Or.inl h
            · exact Or.inr (Or.inl h)
            · exact Or.inr (Or.inr h)
          · rintro (h | h | h)
            · exact Or.inl (Or.inl h)
            · exact Or.inl (Or.inr h)
            · exact Or.inr h

/-- the three views of an import list the specification depends on -/
structure SameRequests (A : List (Import ρ)) (P1 : ρ → Prop) (P2 P3 : ρ → Nat → Prop) : Prop where
  rel : ∀ r, (∃ e ∈ A, e.rel = r) ↔ P1 r
  req : ∀ r n, (∃ e ∈ A, e.rel = r ∧ Requests e.targets n) ↔ P2 r n
  names : ∀ r n, (∃ e ∈ A, e.rel = r ∧ n ∈ namesOf e.targets) ↔ P3 r n

omit [DecidableEq κ] in
theorem exists_mem_eraseP_or {A : List (Import ρ)} {r0 : ρ} {e0 : Import ρ}
    (hf : A.find? (fun i => decide (i.rel = r0)) = some e0) (Q : Import ρ → Prop) :
    (∃ e ∈ A, Q e) ↔ Q e0 ∨ ∃ e ∈ A.eraseP (fun i => decide (i.rel = r0)), Q e := by
  induction A with
  | nil => simp at hf
  | cons a A ih =>
    by_cases ha : a.rel = r0
    · have : (a :: A).find? (fun i => decide (i.rel = r0)) = some a := by simp [List.find?_cons, ha]
      rw [this] at hf
      injection hf with hf
      subst hf
      simp [List.eraseP_cons, ha]
    · have hfa : A.find? (fun i => decide (i.rel = r0)) = some e0 := by
        simpa [List.find?_cons, ha] using hf
      have := ih hfa
      simp only [List.eraseP_cons, ha, decide_false, cond_false, List.mem_cons, exists_eq_or_imp]
      rw [this]
      constructor
      · rintro (h | h | h)
        · exact Or.inr (Or.inl h)
        · exact Or.inl h
        · exact Or.inr (Or.inr h)
      · rintro (h | h | h)
        · exact Or.inr (Or.inl h)
        · exact Or.inl h
        · exact Or.inr (Or.inr h)

omit [DecidableEq κ] in
theorem eraseP_of_find_none {A : List (Import ρ)} {r0 : ρ}
    (hf : A.find? (fun i => decide (i.rel = r0)) = none) : A.eraseP (fun i => decide (i.rel = r0)) = A := by
  induction A with
  | nil => rfl
  | cons a A ih =>
    by_cases ha : a.rel = r0
    · simp [List.find?_cons, ha] at hf
    · have hfa : A.find? (fun i => decide (i.rel = r0)) = none := by simpa [List.find?_cons, ha] using hf
      simp [List.eraseP_cons, ha, ih hfa]

omit [DecidableEq κ] in
theorem extStep_sem {acc acc' : List (Import ρ)} {line : Nat} {raw : RawImport ρ}
    (h : extStep acc line raw = .ok acc') :
    (∀ r, (∃ e ∈ acc', e.rel = r) ↔ (∃ e ∈ acc, e.rel = r) ∨ r = raw.rel) ∧
    (∀ r n, (∃ e ∈ acc', e.rel = r ∧ Requests e.targets n) ↔
      (∃ e ∈ acc, e.rel = r ∧ Requests e.targets n) ∨ (r = raw.rel ∧ RawRequests raw.targets n)) ∧
    (∀ r n, (∃ e ∈ acc', e.rel = r ∧ n ∈ namesOf e.targets) ↔
      (∃ e ∈ acc, e.rel = r ∧ n ∈ namesOf e.targets) ∨ (r = raw.rel ∧ RawTarget.name n ∈ raw.targets)) := by
  unfold extStep at h
  cases hf : acc.find? (fun i => decide (i.rel = raw.rel)) with
  | none =>
    simp only [hf] at h
    cases hfold : foldTargets line (.specific []) 0 raw.targets with
    | error e => simp [hfold] at h
    | ok t =>
      simp only [hfold] at h
      injection h with h
      rw [eraseP_of_find_none hf] at h
      subst h
      obtain ⟨h1, h2⟩ := foldTargets_sem line raw.targets _ _ _ hfold
      refine ⟨fun r => ?_, fun r n => ?_, fun r n => ?_⟩
      · simp only [List.mem_append, List.mem_singleton]
        constructor
        · rintro ⟨e, he | rfl, rfl⟩
          · exact Or.inl ⟨e, he, rfl⟩
          · exact Or.inr rfl
        · rintro (⟨e, he, rfl⟩ | rfl)
          · exact ⟨e, Or.inl he, rfl⟩
          · exact ⟨_, Or.inr rfl, rfl⟩
      · simp only [List.mem_append, List.mem_singleton]
        constructor
        · rintro ⟨e, he | rfl, rfl, hr⟩
          · exact Or.inl ⟨e, he, rfl, hr⟩
          · right
            refine ⟨rfl, ?_⟩
            rcases (h1 n).mp hr with h | h
            · simp [Requests] at h
            · exact h
        · rintro (⟨e, he, rfl, hr⟩ | ⟨rfl, hr⟩)
          · exact ⟨e, Or.inl he, rfl, hr⟩
          · exact ⟨_, Or.inr rfl, rfl, (h1 n).mpr (Or.inr hr)⟩
      · simp only [List.mem_append, List.mem_singleton]
        constructor
        · rintro ⟨e, he | rfl, rfl, hr⟩
          · exact Or.inl ⟨e, he, rfl, hr⟩
          · right
            refine ⟨rfl, ?_⟩
            rcases (h2 n).mp hr with h | h
            · simp [namesOf] at h
            · exact h
        · rintro (⟨e, he, rfl, hr⟩ | ⟨rfl, hr⟩)
          · exact ⟨e, Or.inl he, rfl, hr⟩
          · exact ⟨_, Or.inr rfl, rfl, (h2 n).mpr (Or.inr hr)⟩
  | some e0 =>
    simp only [hf] at h
    have he0 : e0.rel = raw.rel := by simpa using List.find?_some hf
    cases hfold : foldTargets line e0.targets 0 raw.targets with
    | error e => simp [hfold] at h
    | ok t =>
      simp only [hfold] at h
      injection h with h
      subst h
      obtain ⟨h1, h2⟩ := foldTargets_sem line raw.targets _ _ _ hfold
      refine ⟨fun r => ?_, fun r n => ?_, fun r n => ?_⟩
      · rw [exists_mem_eraseP_or hf (fun e => e.rel = r)]
        simp only [List.mem_append, List.mem_singleton]
        constructor
        · rintro ⟨e, he | rfl, rfl⟩
          · exact Or.inl (Or.inr ⟨e, he, rfl⟩)
          · exact Or.inr rfl
        · rintro ((h | ⟨e, he, rfl⟩) | rfl)
          · exact ⟨_, Or.inr rfl, by rw [← h, he0]⟩
          · exact ⟨e, Or.inl he, rfl⟩
          · exact ⟨_, Or.inr rfl, rfl⟩
      · rw [exists_mem_eraseP_or hf (fun e => e.rel = r ∧ Requests e.targets n)]
        simp only [List.mem_append, List.mem_singleton]
        constructor
        · rintro ⟨e, he | rfl, rfl, hr⟩
          · exact Or.inl (Or.inr ⟨e, he, rfl, hr⟩)
          · rcases (h1 n).mp hr with h | h
            · exact Or.inl (Or.inl ⟨he0, h⟩)
            · exact Or.inr ⟨rfl, h⟩
        · rintro ((⟨hr0, hr⟩ | ⟨e, he, rfl, hr⟩) | ⟨rfl, hr⟩)
          · exact ⟨_, Or.inr rfl, by rw [← hr0, he0], (h1 n).mpr (Or.inl hr)⟩
          · exact ⟨e, Or.inl he, rfl, hr⟩
          · exact ⟨_, Or.inr rfl, rfl, (h1 n).mpr (Or.inr hr)⟩
      · rw [exists_mem_eraseP_or hf (fun e => e.rel = r ∧ n ∈ namesOf e.targets)]
        simp only [List.mem_append, List.mem_singleton]
        constructor
        · rintro ⟨e, he | rfl, rfl, hr⟩
          · exact Or.inl (Or.inr ⟨e, he, rfl, hr⟩)
          · rcases (h2 n).mp hr with h | h
            · exact Or.inl (Or.inl ⟨he0, h⟩)
            · exact Or.inr ⟨rfl, h⟩
        · rintro ((⟨hr0, hr⟩ | ⟨e, he, rfl, hr⟩) | ⟨rfl, hr⟩)
          · exact ⟨_, Or.inr rfl, by rw [← hr0, he0], (h2 n).mpr (Or.inl hr)⟩
          · exact ⟨e, Or.inl he, rfl, hr⟩
          · exact ⟨_, Or.inr rfl, rfl, (h2 n).mpr (Or.inr hr)⟩

omit [DecidableEq κ] in
theorem extLoop_sem (lines : List (RawImport ρ)) : ∀ (acc : List (Import ρ)) (k : Nat) (imps : List (Import ρ)),
    extLoop acc k lines = .ok imps →
    (∀ r, (∃ e ∈ imps, e.rel = r) ↔ (∃ e ∈ acc, e.rel = r) ∨ ∃ l ∈ lines, l.rel = r) ∧
    (∀ r n, (∃ e ∈ imps, e.rel = r ∧ Requests e.targets n) ↔
      (∃ e ∈ acc, e.rel = r ∧ Requests e.targets n) ∨ ∃ l ∈ lines, l.rel = r ∧ RawRequests l.targets n) ∧
    (∀ r n, (∃ e ∈ imps, e.rel = r ∧ n ∈ namesOf e.targets) ↔
      (∃ e ∈ acc, e.rel = r ∧ n ∈ namesOf e.targets) ∨ ∃ l ∈ lines, l.rel = r ∧ RawTarget.name n ∈ l.targets) := by
  induction lines with
  | nil =>
    intro acc k imps h
    simp only [extLoop] at h
    injection h with h
    subst h
    simp
  | cons l lines ih =>
    intro acc k imps h
    simp only [extLoop] at h
    cases hs : extStep acc k l with
    | error e => simp [hs] at h
    | ok acc' =>
      simp only [hs] at h
      obtain ⟨a1, a2, a3⟩ := extStep_sem hs
      obtain ⟨b1, b2, b3⟩ := ih _ _ _ h
      refine ⟨fun r => ?_, fun r n => ?_, fun r n => ?_⟩
      · rw [b1, a1]
        simp only [List.mem_cons, exists_eq_or_imp]
        constructor
        · rintro ((h | h) | h)
          · exact Or.inl h
          · exact Or.inr (Or.inl h.symm)
          · exact Or.inr (Or.inr h)
        · rintro (h | h | h)
          · exact Or.inl (Or.inl h)
          · exact Or.inl (Or.inr h.symm)
          · exact Or.inr h
      · rw [b2, a2]
        simp only [List.mem_cons, exists_eq_or_imp]
        constructor
        · rintro ((h | ⟨h1, h2⟩) | h)
          · exact Or.inl h
          · exact Or.inr (Or.inl ⟨h1.symm, h2⟩)
          · exact Or.inr (Or.inr h)
        · rintro (h | ⟨h1, h2⟩ | h)
          · exact Or.inl (Or.inl h)
          · exact Or.inl (Or.inr ⟨h1.symm, h2⟩)
          · exact Or.inr h
      · rw [b3, a3]
        simp only [List.mem_cons, exists_eq_or_imp]
        constructor
        · rintro ((h | ⟨h1, h2⟩) | h)
          · exact Or.inl h
          · exact Or.inr (Or.inl ⟨h1.symm, h2⟩)
          · exact Or.inr (Or.inr h)
        · rintro (h | ⟨h1, h2⟩ | h)
          · exact Or.inl (Or.inl h)
          · exact Or.inl (Or.inr ⟨h1.symm, h2⟩)
          · exact Or.inr h

/-! ### the specification depends on an import list only through three views -/

section views
variable {fs} {rootFile} {fs' : FS κ ρ} {rootFile' : File ρ}
variable (hd : ∀ p, defsAt fs p = defsAt fs' p)
variable (h1 : ∀ q r, (∃ imp ∈ importsOf fs root rootFile q, imp.rel = r) →
  ∃ imp ∈ importsOf fs' root rootFile' q, imp.rel = r)
variable (h2 : ∀ q r n, (∃ imp ∈ importsOf fs root rootFile q, imp.rel = r ∧ Requests imp.targets n) →
  ∃ imp ∈ importsOf fs' root rootFile' q, imp.rel = r ∧ Requests imp.targets n)
variable (h3 : ∀ q r n, (∃ imp ∈ importsOf fs root rootFile q, imp.rel = r ∧ n ∈ namesOf imp.targets) →
  ∃ imp ∈ importsOf fs' root rootFile' q, imp.rel = r ∧ n ∈ namesOf imp.targets)
include hd h1

theorem reach_views {q : κ} (h : Reach res fs root rootFile q) : Reach res fs' root rootFile' q := by
  induction h with
  | root => exact Reach.root
  | @step q imp _ himp hsome ih =>
    obtain ⟨imp', hi', hr⟩ := h1 q imp.rel ⟨imp, himp, rfl⟩
    rw [← hr]
    exact Reach.step ih hi' (by rw [hr, ← hd]; exact hsome)

theorem dangling_views (h : Dangling res fs root rootFile) : Dangling res fs' root rootFile' := by
  obtain ⟨q, imp, a1, a2, a3⟩ := h
  obtain ⟨imp', hi', hr⟩ := h1 q imp.rel ⟨imp, a2, rfl⟩
  exact ⟨q, imp', reach_views res root hd h1 a1, hi', by rw [hr, ← hd]; exact a3⟩

include h2 in
theorem selected_views {x : DefId κ} (h : Selected res fs root rootFile x) : Selected res fs' root rootFile' x := by
  obtain ⟨q, imp, ds, n, a1, a2, a3, a4, a5, a6⟩ := h
  obtain ⟨imp', hi', hr, hreq⟩ := h2 q imp.rel n ⟨imp, a2, rfl, a6⟩
  exact ⟨q, imp', ds, n, reach_views res root hd h1 a1, hi', by rw [hr]; exact a3, by rw [← hd]; exact a4, a5, hreq⟩

include h3 in
theorem missing_views (h : MissingName res fs root rootFile) : MissingName res fs' root rootFile' := by
  obtain ⟨q, imp, ds, n, a1, a2, a3, a4, a5⟩ := h
  obtain ⟨imp', hi', hr, hn⟩ := h3 q imp.rel n ⟨imp, a2, rfl, a4⟩
  exact ⟨q, imp', ds, n, reach_views res root hd h1 a1, hi', by rw [hr, ← hd]; exact a3, hn, a5⟩

end views

end NitroVerif.Imports
