import NitroVerif.Model.Imports
import NitroVerif.Spec.Imports
/-! Helper lemmas for C13 (no property statements here). -/
namespace NitroVerif.Imports
open NitroVerif.Imports.Spec

variable {κ ρ : Type} [DecidableEq κ] [DecidableEq ρ]

/-! ### selection of definitions by an import line -/

theorem selects_iff (t : Targets) (d : Def) :
    selects t d = true ↔ ∃ n, d = Def.frag n ∧ Requests t n := by
  cases d with
  | other => simp [selects]
  | frag m =>
    cases t with
    | wildcard => simp [selects, Requests]
    | specific ids => simp [selects, Requests]

theorem mem_selectedFrom (t : Targets) (ds : List Def) (k i : Nat) :
    i ∈ selectedFrom t k ds ↔ ∃ j d, i = k + j ∧ ds[j]? = some d ∧ selects t d = true := by
  induction ds generalizing k with
  | nil => simp [selectedFrom]
  | cons d ds ih =>
    unfold selectedFrom
    constructor
    · intro h
      by_cases hd : selects t d = true
      · simp only [hd, if_true, List.mem_cons] at h
        rcases h with rfl | h
        · exact ⟨0, d, by simp, by simp, hd⟩
        · obtain ⟨j, d', rfl, hj, hs⟩ := (ih (k + 1)).mp h
          exact ⟨j + 1, d', by omega, by simpa using hj, hs⟩
      · simp only [hd] at h
        obtain ⟨j, d', rfl, hj, hs⟩ := (ih (k + 1)).mp h
        exact ⟨j + 1, d', by omega, by simpa using hj, hs⟩
    · rintro ⟨j, d', rfl, hj, hs⟩
      cases j with
      | zero =>
        simp at hj; subst hj
        simp [hs]
      | succ j =>
        have : k + (j + 1) ∈ selectedFrom t (k + 1) ds :=
          (ih (k + 1)).mpr ⟨j, d', by omega, by simpa using hj, hs⟩
        split
        · exact List.mem_cons_of_mem _ this
        · exact this

theorem mem_selectedIdx (t : Targets) (ds : List Def) (i : Nat) :
    i ∈ selectedIdx t ds ↔ ∃ n, ds[i]? = some (Def.frag n) ∧ Requests t n := by
  unfold selectedIdx
  rw [mem_selectedFrom]
  constructor
  · rintro ⟨j, d, rfl, hj, hs⟩
    obtain ⟨n, rfl, hr⟩ := (selects_iff t d).mp hs
    exact ⟨n, by simpa using hj, hr⟩
  · rintro ⟨n, hi, hr⟩
    exact ⟨i, Def.frag n, by simp, hi, (selects_iff t _).mpr ⟨n, rfl, hr⟩⟩

theorem any_isFragNamed (n : Nat) (ds : List Def) : ds.any (isFragNamed n) = true ↔ Def.frag n ∈ ds := by
  induction ds with
  | nil => simp
  | cons d ds ih =>
    cases d with
    | other => simp [isFragNamed, ih]
    | frag m =>
      simp only [List.any_cons, Bool.or_eq_true, ih, List.mem_cons, isFragNamed, beq_iff_eq]
      constructor
      · rintro (h | h)
        · left; rw [h]
        · right; exact h
      · rintro (h | h)
        · left; injection h with h; exact h.symm
        · right; exact h

theorem missingTarget_none (t : Targets) (ds : List Def) :
    missingTarget t ds = none ↔ ∀ n ∈ namesOf t, Def.frag n ∈ ds := by
  cases t with
  | wildcard => simp [missingTarget, namesOf]
  | specific ids =>
    simp only [missingTarget, namesOf, List.find?_eq_none, List.mem_map, forall_exists_index, and_imp,
      forall_apply_eq_imp_iff₂]
    constructor
    · intro h id hid
      have := h id hid
      rw [Bool.not_eq_eq_eq_not, Bool.not_true, Bool.not_eq_false] at this
      exact (any_isFragNamed _ _).mp this
    · intro h id hid
      rw [Bool.not_eq_eq_eq_not, Bool.not_true, Bool.not_eq_false]
      exact (any_isFragNamed _ _).mpr (h id hid)

theorem missingTarget_some {t : Targets} {ds : List Def} {id : Ident} (h : missingTarget t ds = some id) :
    id.name ∈ namesOf t ∧ Def.frag id.name ∉ ds := by
  cases t with
  | wildcard => simp [missingTarget] at h
  | specific ids =>
    simp only [missingTarget] at h
    have hm := List.mem_of_find?_eq_some h
    have hp := List.find?_some h
    refine ⟨by simpa [namesOf] using ⟨id, hm, rfl⟩, ?_⟩
    intro hin
    have := (any_isFragNamed id.name ds).mpr hin
    simp [this] at hp

/-! ### the resolver's map -/

omit [DecidableEq ρ] in
theorem lookup_some_mem_keys {fs : FS κ ρ} {p : κ} {f : File ρ} (h : fs.lookup p = some f) :
    p ∈ fs.map Prod.fst := by
  induction fs with
  | nil => simp at h
  | cons a fs ih =>
    obtain ⟨k, v⟩ := a
    by_cases hk : p = k
    · simp [hk]
    · have : (p == k) = false := by simpa using hk
      simp only [List.lookup_cons, this] at h
      simp [ih h]

/-- `k` is not in `E` (kept opaque to `simp` so that the filters below keep one shape) -/
def fresh (E : List κ) (k : κ) : Bool := decide (k ∉ E)

theorem fresh_true {E : List κ} {k : κ} : fresh E k = true ↔ k ∉ E := by simp [fresh]
theorem fresh_false {E : List κ} {k : κ} : fresh E k = false ↔ k ∈ E := by simp [fresh]

/-- number of configured files not yet expanded (the termination measure) -/
def unexp (fs : FS κ ρ) (E : List κ) : Nat := ((fs.map Prod.fst).filter (fresh E)).length

omit [DecidableEq ρ] in
theorem unexp_le_length (fs : FS κ ρ) (E : List κ) : unexp fs E ≤ fs.length := by
  unfold unexp
  exact Nat.le_trans (List.length_filter_le _ _) (by simp)

theorem filter_fresh_anti (l : List κ) {E E' : List κ} (h : ∀ x ∈ E, x ∈ E') :
    (l.filter (fresh E')).length ≤ (l.filter (fresh E)).length := by
  induction l with
  | nil => simp
  | cons a l ih =>
    rw [List.filter_cons, List.filter_cons]
    cases h2 : fresh E' a with
    | false =>
      cases h1 : fresh E a with
      | false => simpa using ih
      | true => simp only [Bool.false_eq_true, if_false, if_true, List.length_cons]; omega
    | true =>
      have : fresh E a = true := fresh_true.mpr (fun hin => (fresh_true.mp h2) (h a hin))
      simp only [this, if_true, List.length_cons]; omega

omit [DecidableEq ρ] in
theorem unexp_anti (fs : FS κ ρ) {E E' : List κ} (h : ∀ x ∈ E, x ∈ E') : unexp fs E' ≤ unexp fs E :=
  filter_fresh_anti _ h

theorem filter_fresh_lt (l : List κ) {E : List κ} {p : κ} (hp : p ∈ l) (hE : p ∉ E) :
    (l.filter (fresh (p :: E))).length < (l.filter (fresh E)).length := by
  induction l with
  | nil => simp at hp
  | cons a l ih =>
    have hanti : (l.filter (fresh (p :: E))).length ≤ (l.filter (fresh E)).length :=
      filter_fresh_anti l (fun x hx => List.mem_cons_of_mem _ hx)
    rw [List.filter_cons, List.filter_cons]
    by_cases hap : a = p
    · subst hap
      have h1 : fresh (a :: E) a = false := fresh_false.mpr (by simp)
      have h2 : fresh E a = true := fresh_true.mpr hE
      simp only [h1, h2, Bool.false_eq_true, if_false, if_true, List.length_cons]; omega
    · have hp' : p ∈ l := by
        rcases List.mem_cons.mp hp with h | h
        · exact absurd h.symm hap
        · exact h
      have := ih hp'
      cases h1 : fresh E a with
      | false =>
        have : fresh (p :: E) a = false := fresh_false.mpr (List.mem_cons_of_mem _ (fresh_false.mp h1))
        simp only [this, Bool.false_eq_true, if_false]; assumption
      | true =>
        have : fresh (p :: E) a = true := fresh_true.mpr (by
          intro hin
          rcases List.mem_cons.mp hin with h | h
          · exact hap h
          · exact (fresh_true.mp h1) h)
        simp only [this, if_true, List.length_cons]; omega

omit [DecidableEq ρ] in
theorem unexp_lt (fs : FS κ ρ) {E : List κ} {p : κ} (hp : p ∈ fs.map Prod.fst) (hE : p ∉ E) :
    unexp fs (p :: E) < unexp fs E :=
  filter_fresh_lt _ hp hE

/-! ### inversion of one loop iteration -/

variable (res : κ → ρ → κ) (fs : FS κ ρ)

/-- the state handed to the recursive call -/
def enter (st : St κ) (p : κ) : St κ := { st with expanded := p :: st.expanded }
/-- the state after the recursive call returned -/
def leave (st : St κ) (p : κ) : St κ := { st with finished := st.finished ++ [p] }
/-- the state after the targets of the line were recorded -/
def record (st : St κ) (p : κ) (t : Targets) (ds : List Def) : St κ :=
  { st with requested := st.requested ++ (selectedIdx t ds).map (fun i => (p, i)) }

omit [DecidableEq ρ] in
theorem step_ok_inv {expand : κ → List (Import ρ) → St κ → Res κ ρ (St κ)} {doc : κ} {st st' : St κ}
    {imp : Import ρ} (h : step res fs expand doc st imp = .ok st') :
    ∃ file st1, fs.lookup (res doc imp.rel) = some file ∧ missingTarget imp.targets file.defs = none ∧
      st' = record st1 (res doc imp.rel) imp.targets file.defs ∧
      ((res doc imp.rel ∈ st.expanded ∧ st1 = st) ∨
       (res doc imp.rel ∉ st.expanded ∧ ∃ st0, expand (res doc imp.rel) file.imports (enter st (res doc imp.rel)) = .ok st0 ∧
          st1 = leave st0 (res doc imp.rel))) := by
  simp only [step] at h
  cases hl : fs.lookup (res doc imp.rel) with
  | none => simp [hl] at h
  | some file =>
    simp only [hl] at h
    by_cases hp : res doc imp.rel ∈ st.expanded
    · simp only [hp, if_true] at h
      cases hm : missingTarget imp.targets file.defs with
      | some id => simp [hm] at h
      | none =>
        simp only [hm] at h
        injection h with h
        exact ⟨file, st, rfl, hm, h.symm, Or.inl ⟨hp, rfl⟩⟩
    · simp only [hp, if_false] at h
      cases he : expand (res doc imp.rel) file.imports { st with expanded := res doc imp.rel :: st.expanded } with
      | err e => simp [he] at h
      | outOfFuel => simp [he] at h
      | ok st0 =>
        simp only [he] at h
        cases hm : missingTarget imp.targets file.defs with
        | some id => simp [hm] at h
        | none =>
          simp only [hm] at h
          injection h with h
          exact ⟨file, leave st0 (res doc imp.rel), rfl, hm, h.symm, Or.inr ⟨hp, st0, he, rfl⟩⟩

omit [DecidableEq ρ] in
theorem step_err_inv {expand : κ → List (Import ρ) → St κ → Res κ ρ (St κ)} {doc : κ} {st : St κ}
    {imp : Import ρ} {e : ImpErr κ ρ} (h : step res fs expand doc st imp = .err e) :
    (fs.lookup (res doc imp.rel) = none ∧ e = .fileNotFound doc imp.rel imp.line) ∨
    (∃ file, fs.lookup (res doc imp.rel) = some file ∧ res doc imp.rel ∉ st.expanded ∧
      expand (res doc imp.rel) file.imports (enter st (res doc imp.rel)) = .err e) ∨
    (∃ file id, fs.lookup (res doc imp.rel) = some file ∧ missingTarget imp.targets file.defs = some id ∧
      e = .fragmentNotFound doc imp.rel id) := by
  simp only [step] at h
  cases hl : fs.lookup (res doc imp.rel) with
  | none =>
    simp only [hl] at h
    injection h with h
    exact Or.inl ⟨rfl, h.symm⟩
  | some file =>
    simp only [hl] at h
    by_cases hp : res doc imp.rel ∈ st.expanded
    · simp only [hp, if_true] at h
      cases hm : missingTarget imp.targets file.defs with
      | none => simp [hm] at h
      | some id =>
        simp only [hm] at h
        injection h with h
        exact Or.inr (Or.inr ⟨file, id, rfl, hm, h.symm⟩)
    · simp only [hp, if_false] at h
      cases he : expand (res doc imp.rel) file.imports { st with expanded := res doc imp.rel :: st.expanded } with
      | err e' =>
        simp only [he] at h
        injection h with h
        exact Or.inr (Or.inl ⟨file, rfl, hp, by rw [← h]; exact he⟩)
      | outOfFuel => simp [he] at h
      | ok st0 =>
        simp only [he] at h
        cases hm : missingTarget imp.targets file.defs with
        | none => simp [hm] at h
        | some id =>
          simp only [hm] at h
          injection h with h
          exact Or.inr (Or.inr ⟨file, id, rfl, hm, h.symm⟩)

omit [DecidableEq ρ] in
theorem step_fuel_inv {expand : κ → List (Import ρ) → St κ → Res κ ρ (St κ)} {doc : κ} {st : St κ}
    {imp : Import ρ} (h : step res fs expand doc st imp = .outOfFuel) :
    ∃ file, fs.lookup (res doc imp.rel) = some file ∧ res doc imp.rel ∉ st.expanded ∧
      expand (res doc imp.rel) file.imports (enter st (res doc imp.rel)) = .outOfFuel := by
  simp only [step] at h
  cases hl : fs.lookup (res doc imp.rel) with
  | none => simp [hl] at h
  | some file =>
    simp only [hl] at h
    by_cases hp : res doc imp.rel ∈ st.expanded
    · simp only [hp, if_true] at h
      cases hm : missingTarget imp.targets file.defs <;> simp [hm] at h
    · simp only [hp, if_false] at h
      cases he : expand (res doc imp.rel) file.imports { st with expanded := res doc imp.rel :: st.expanded } with
      | err e' => simp [he] at h
      | outOfFuel => exact ⟨file, rfl, hp, he⟩
      | ok st0 =>
        simp only [he] at h
        cases hm : missingTarget imp.targets file.defs <;> simp [hm] at h

omit [DecidableEq ρ] in
theorem iter_cons_ok {expand : κ → List (Import ρ) → St κ → Res κ ρ (St κ)} {doc : κ} {st st' : St κ}
    {imp : Import ρ} {rest : List (Import ρ)} (h : iter res fs expand doc (imp :: rest) st = .ok st') :
    ∃ st1, step res fs expand doc st imp = .ok st1 ∧ iter res fs expand doc rest st1 = .ok st' := by
  simp only [iter] at h
  cases hs : step res fs expand doc st imp with
  | ok st1 => simp only [hs] at h; exact ⟨st1, rfl, h⟩
  | err e => simp [hs] at h
  | outOfFuel => simp [hs] at h

omit [DecidableEq ρ] in
theorem iter_cons_err {expand : κ → List (Import ρ) → St κ → Res κ ρ (St κ)} {doc : κ} {st : St κ}
    {imp : Import ρ} {rest : List (Import ρ)} {e : ImpErr κ ρ}
    (h : iter res fs expand doc (imp :: rest) st = .err e) :
    step res fs expand doc st imp = .err e ∨
    ∃ st1, step res fs expand doc st imp = .ok st1 ∧ iter res fs expand doc rest st1 = .err e := by
  simp only [iter] at h
  cases hs : step res fs expand doc st imp with
  | ok st1 => simp only [hs] at h; exact Or.inr ⟨st1, rfl, h⟩
  | err e' => simp only [hs] at h; injection h with h; left; rw [h]
  | outOfFuel => simp [hs] at h

omit [DecidableEq ρ] in
theorem iter_cons_fuel {expand : κ → List (Import ρ) → St κ → Res κ ρ (St κ)} {doc : κ} {st : St κ}
    {imp : Import ρ} {rest : List (Import ρ)}
    (h : iter res fs expand doc (imp :: rest) st = .outOfFuel) :
    step res fs expand doc st imp = .outOfFuel ∨
    ∃ st1, step res fs expand doc st imp = .ok st1 ∧ iter res fs expand doc rest st1 = .outOfFuel := by
  simp only [iter] at h
  cases hs : step res fs expand doc st imp with
  | ok st1 => simp only [hs] at h; exact Or.inr ⟨st1, rfl, h⟩
  | err e' => simp [hs] at h
  | outOfFuel => left; rfl

/-! ### the state only grows -/

structure Le (a b : St κ) : Prop where
  exp : ∀ x ∈ a.expanded, x ∈ b.expanded
  req : ∀ x ∈ a.requested, x ∈ b.requested
  fin : ∀ x ∈ a.finished, x ∈ b.finished

omit [DecidableEq κ] in
theorem Le.refl (a : St κ) : Le a a := ⟨fun _ h => h, fun _ h => h, fun _ h => h⟩
omit [DecidableEq κ] in
theorem Le.trans {a b c : St κ} (h1 : Le a b) (h2 : Le b c) : Le a c :=
  ⟨fun x h => h2.exp x (h1.exp x h), fun x h => h2.req x (h1.req x h), fun x h => h2.fin x (h1.fin x h)⟩

omit [DecidableEq κ] in
theorem le_enter (st : St κ) (p : κ) : Le st (enter st p) :=
  ⟨fun _ h => List.mem_cons_of_mem _ h, fun _ h => h, fun _ h => h⟩
omit [DecidableEq κ] in
theorem le_leave (st : St κ) (p : κ) : Le st (leave st p) :=
  ⟨fun _ h => h, fun _ h => h, fun _ h => List.mem_append_left _ h⟩
omit [DecidableEq κ] in
theorem le_record (st : St κ) (p : κ) (t : Targets) (ds : List Def) : Le st (record st p t ds) :=
  ⟨fun _ h => h, fun _ h => List.mem_append_left _ h, fun _ h => h⟩

def Mono (expand : κ → List (Import ρ) → St κ → Res κ ρ (St κ)) : Prop :=
  ∀ doc imps st st', expand doc imps st = .ok st' → Le st st'

theorem step_mono {expand : κ → List (Import ρ) → St κ → Res κ ρ (St κ)} (hm : Mono expand) {doc : κ}
    {st st' : St κ} {imp : Import ρ} (h : step res fs expand doc st imp = .ok st') : Le st st' := by
  obtain ⟨file, st1, _, _, hst, hc⟩ := step_ok_inv res fs h
  clear h
  subst hst
  rcases hc with ⟨_, rfl⟩ | ⟨_, st0, he, rfl⟩
  · exact le_record _ _ _ _
  · exact ((le_enter st _).trans (hm _ _ _ _ he)).trans ((le_leave _ _).trans (le_record _ _ _ _))

theorem iter_mono {expand : κ → List (Import ρ) → St κ → Res κ ρ (St κ)} (hm : Mono expand) :
    Mono (iter res fs expand) := by
  intro doc imps
  induction imps with
  | nil => intro st st' h; simp only [iter] at h; injection h with h; subst h; exact Le.refl _
  | cons imp rest ih =>
    intro st st' h
    obtain ⟨st1, hs, hr⟩ := iter_cons_ok res fs h
    exact (step_mono res fs hm hs).trans (ih _ _ hr)

theorem expandFuel_mono (n : Nat) : Mono (expandFuel res fs n) := by
  induction n with
  | zero => intro doc imps st st' h; simp [expandFuel] at h
  | succ n ih => intro doc imps st st' h; exact iter_mono res fs ih doc imps st st' h

/-! ### the recursion budget is sufficient -/

theorem iter_fuel (n : Nat) : ∀ (doc : κ) (imps : List (Import ρ)) (st : St κ),
    unexp fs st.expanded ≤ n → iter res fs (expandFuel res fs n) doc imps st ≠ .outOfFuel := by
  induction n with
  | zero =>
    intro doc imps
    induction imps with
    | nil => intro st _ h; simp [iter] at h
    | cons imp rest ih =>
      intro st hn h
      rcases iter_cons_fuel res fs h with hs | ⟨st1, hs, hr⟩
      · obtain ⟨file, hl, hp, _⟩ := step_fuel_inv res fs hs
        have := unexp_lt fs (lookup_some_mem_keys hl) hp
        omega
      · have hle := step_mono res fs (expandFuel_mono res fs 0) hs
        exact ih st1 (Nat.le_trans (unexp_anti fs hle.exp) hn) hr
  | succ n ihn =>
    intro doc imps
    induction imps with
    | nil => intro st _ h; simp [iter] at h
    | cons imp rest ih =>
      intro st hn h
      rcases iter_cons_fuel res fs h with hs | ⟨st1, hs, hr⟩
      · obtain ⟨file, hl, hp, he⟩ := step_fuel_inv res fs hs
        have hlt := unexp_lt fs (lookup_some_mem_keys hl) hp
        exact ihn _ _ (enter st (res doc imp.rel)) (by simp only [enter]; omega) he
      · have hle := step_mono res fs (expandFuel_mono res fs (n + 1)) hs
        exact ih st1 (Nat.le_trans (unexp_anti fs hle.exp) hn) hr

end NitroVerif.Imports
