/-
Helper lemmas for C05, part 6: the executable closure of `Spec/ValidTs.lean` (`reachable`, `|T| + 1` rounds
of "add everything referenced") contains every node the relation `SpecReaches` reaches.
-/
import NitroVerif.Lemmas.CheckTsRec
namespace NitroVerif.ValidTs
open NitroVerif.Gql

theorem ncontains_false {l : List Node} {a : Node} : l.contains a = false ↔ a ∉ l := by
  rw [← Bool.not_eq_true, List.contains_iff_mem]

theorem mem_insertNew : ∀ (ns acc : List Node) (x : Node), x ∈ insertNew acc ns ↔ x ∈ acc ∨ x ∈ ns := by
  intro ns
  induction ns with
  | nil => intro acc x; simp [insertNew]
  | cons n r ih =>
    intro acc x
    simp only [insertNew]
    cases hc : acc.contains n with
    | true =>
      simp only [if_true]
      rw [ih]
      have hn : n ∈ acc := List.contains_iff_mem.mp hc
      constructor
      · rintro (h | h)
        · exact Or.inl h
        · exact Or.inr (List.mem_cons_of_mem _ h)
      · rintro (h | h)
        · exact Or.inl h
        · rcases List.mem_cons.mp h with rfl | h
          · exact Or.inl hn
          · exact Or.inr h
    | false =>
      simp only [Bool.false_eq_true, if_false]
      rw [ih, List.mem_append, List.mem_singleton, List.mem_cons]
      constructor
      · rintro ((h | h) | h)
        · exact Or.inl h
        · exact Or.inr (Or.inl h)
        · exact Or.inr (Or.inr h)
      · rintro (h | h | h)
        · exact Or.inl (Or.inl h)
        · exact Or.inl (Or.inr h)
        · exact Or.inr h

/-- nothing new to insert: the list is unchanged -/
theorem insertNew_of_subset : ∀ (ns acc : List Node), (∀ x ∈ ns, x ∈ acc) → insertNew acc ns = acc := by
  intro ns
  induction ns with
  | nil => intro acc _; rfl
  | cons n r ih =>
    intro acc h
    have hn : acc.contains n = true := List.contains_iff_mem.mpr (h n List.mem_cons_self)
    simp only [insertNew, hn, if_true]
    exact ih acc fun x hx => h x (List.mem_cons_of_mem _ hx)

def ClosedSet (S : Schema) (V : List Node) : Prop := ∀ x ∈ V, ∀ y ∈ refs S x, y ∈ V

theorem closure_of_closed {S : Schema} : ∀ (k : Nat) (V : List Node), ClosedSet S V → closure S k V = V := by
  intro k
  induction k with
  | zero => intro V _; rfl
  | succ k ih =>
    intro V hV
    simp only [closure]
    rw [insertNew_of_subset]
    · exact ih V hV
    · intro y hy
      obtain ⟨x, hx, hyx⟩ := List.mem_flatMap.mp hy
      exact hV x hx y hyx

/-- the nodes that have a definition (only these have references) -/
def definedNodes (T : TsDoc) : List Node :=
  (directiveDefs T).map (fun d => Node.dir d.name) ++ (typeDefs T).map (fun t => Node.ty t.name)

theorem mem_definedNodes_of_refs {T : TsDoc} {x y : Node} (h : y ∈ refs ⟨T⟩ x) : x ∈ definedNodes T := by
  cases x with
  | dir n =>
    simp only [refs] at h
    cases hd : (Schema.mk T).directiveDef? n with
    | none => rw [hd] at h; cases h
    | some d =>
      unfold Schema.directiveDef? at hd
      have hm := List.mem_of_find?_eq_some hd
      have hn : d.name = n := by simpa using List.find?_some hd
      exact List.mem_append_left _ (List.mem_map.mpr ⟨d, hm, by rw [hn]⟩)
  | ty n =>
    simp only [refs] at h
    cases hd : (Schema.mk T).typeDef? n with
    | none => rw [hd] at h; cases h
    | some d =>
      unfold Schema.typeDef? at hd
      have hm := List.mem_of_find?_eq_some hd
      have hn : d.name = n := by simpa using List.find?_some hd
      exact List.mem_append_right _ (List.mem_map.mpr ⟨d, hm, by rw [hn]⟩)

/-- defined nodes not yet in `V` -/
def unexpanded (T : TsDoc) (V : List Node) : Nat := ((definedNodes T).filter fun n => !V.contains n).length

theorem unexpanded_mono {T : TsDoc} {P V : List Node} (h : ∀ x ∈ P, x ∈ V) : unexpanded T V ≤ unexpanded T P := by
  unfold unexpanded
  generalize definedNodes T = l
  induction l with
  | nil => simp
  | cons y r ih =>
    cases hv : V.contains y with
    | true =>
      cases hp : P.contains y with
      | true => simp only [List.filter, hv, hp, Bool.not_true]; exact ih
      | false => simp only [List.filter, hv, hp, Bool.not_true, Bool.not_false, List.length_cons]; omega
    | false =>
      have : P.contains y = false := ncontains_false.mpr fun hin => (ncontains_false.mp hv) (h y hin)
      simp only [List.filter, hv, this, Bool.not_false, List.length_cons]; omega

theorem closure_closed {T : TsDoc} :
    ∀ (k : Nat) (P V : List Node), (∀ x ∈ P, x ∈ V) → (∀ x ∈ P, ∀ y ∈ refs ⟨T⟩ x, y ∈ V) →
      unexpanded T P < k →
      (∀ x ∈ V, x ∈ closure ⟨T⟩ k V) ∧ ClosedSet ⟨T⟩ (closure ⟨T⟩ k V) := by
  intro k
  induction k with
  | zero => intro _ _ _ _ h; omega
  | succ k ih =>
    intro P V hPV hrefs hu
    simp only [closure]
    have hVV' : ∀ x ∈ V, x ∈ insertNew V (V.flatMap (refs ⟨T⟩)) := fun x hx => (mem_insertNew _ _ _).mpr (Or.inl hx)
    have hrefs' : ∀ x ∈ V, ∀ y ∈ refs ⟨T⟩ x, y ∈ insertNew V (V.flatMap (refs ⟨T⟩)) := by
      intro x hx y hy
      exact (mem_insertNew _ _ _).mpr (Or.inr (List.mem_flatMap.mpr ⟨x, hx, hy⟩))
    by_cases hlt : unexpanded T V < k
    · obtain ⟨h1, h2⟩ := ih V _ hVV' hrefs' hlt
      exact ⟨fun x hx => h1 x (hVV' x hx), h2⟩
    · -- no defined node was added since `P`: `V` is already closed
      have hmono := unexpanded_mono (T := T) hPV
      have heq : unexpanded T V = unexpanded T P := by omega
      have hclosed : ClosedSet ⟨T⟩ V := by
        intro x hx y hy
        by_cases hxP : x ∈ P
        · exact hrefs x hxP y hy
        · exfalso
          have hxd : x ∈ definedNodes T := mem_definedNodes_of_refs hy
          have : unexpanded T V < unexpanded T P := by
            unfold unexpanded
            apply NitroVerif.CheckTs.filter_length_lt_of
            · intro n hn
              simp only [Bool.not_eq_true'] at hn ⊢
              exact ncontains_false.mpr fun hin => (ncontains_false.mp hn) (hPV n hin)
            · refine ⟨x, hxd, ?_, ?_⟩
              · simp only [Bool.not_eq_true']; exact ncontains_false.mpr hxP
              · simp only [Bool.not_eq_false']; exact List.contains_iff_mem.mpr hx
          omega
      have hins : insertNew V (V.flatMap (refs ⟨T⟩)) = V := by
        apply insertNew_of_subset
        intro y hy
        obtain ⟨x, hx, hyx⟩ := List.mem_flatMap.mp hy
        exact hclosed x hx y hyx
      rw [hins, closure_of_closed k V hclosed]
      exact ⟨fun x hx => hx, hclosed⟩

theorem defs_length_le (T : TsDoc) : (directiveDefs T).length + (typeDefs T).length ≤ T.length := by
  unfold directiveDefs typeDefs Schema.directiveDefs Schema.typeDefs
  induction T with
  | nil => simp
  | cons it r ih =>
    cases it <;> simp only [List.filterMap_cons, List.length_cons] at ih ⊢ <;> omega

theorem unexpanded_le (T : TsDoc) (V : List Node) : unexpanded T V ≤ T.length := by
  unfold unexpanded
  have h1 : ((definedNodes T).filter fun n => !V.contains n).length ≤ (definedNodes T).length :=
    List.length_filter_le _ _
  have h2 : (definedNodes T).length = (directiveDefs T).length + (typeDefs T).length := by
    simp [definedNodes]
  have h3 := defs_length_le T
  omega

/-- everything the relation reaches is in the executable closure -/
theorem mem_reachable_of_specReaches {T : TsDoc} {a b : Node} (h : SpecReaches ⟨T⟩ a b) : b ∈ reachable T a := by
  unfold reachable
  obtain ⟨hsub, hclosed⟩ := closure_closed (T := T) (T.length + 1) [] (insertNew [] (refs ⟨T⟩ a))
    (by intro x hx; cases hx) (by intro x hx; cases hx) (Nat.lt_succ_of_le (unexpanded_le T []))
  have hstart : ∀ y ∈ refs ⟨T⟩ a, y ∈ closure ⟨T⟩ (T.length + 1) (insertNew [] (refs ⟨T⟩ a)) :=
    fun y hy => hsub y ((mem_insertNew _ _ _).mpr (Or.inr hy))
  have key : ∀ x y, SpecReaches ⟨T⟩ x y →
      (∀ z ∈ refs ⟨T⟩ x, z ∈ closure ⟨T⟩ (T.length + 1) (insertNew [] (refs ⟨T⟩ a))) →
      y ∈ closure ⟨T⟩ (T.length + 1) (insertNew [] (refs ⟨T⟩ a)) := by
    intro x y hxy
    induction hxy with
    | step h1 => intro hx; exact hx _ h1
    | cons h1 _ ih => intro hx; exact ih (fun z hz => hclosed _ (hx _ h1) z hz)
  exact key a b h hstart

/-- the executable form of the recursion rule implies the relational form -/
theorem noSpecRecursion_of_exec {T : TsDoc} (h : noRecursiveDirectives T = true) : NoSpecRecursion T := by
  intro d hd hreach
  simp only [noRecursiveDirectives, List.all_eq_true, Bool.not_eq_true'] at h
  have := h d hd
  exact (ncontains_false.mp this) (mem_reachable_of_specReaches hreach)

/-! ### the converse: the executable closure contains only what the relation reaches -/

theorem SpecReaches.snoc {S : Schema} {a b c : Node} (h : SpecReaches S a b) (hc : c ∈ refs S b) : SpecReaches S a c := by
  induction h with
  | step h1 => exact .cons h1 (.step hc)
  | cons h1 _ ih => exact .cons h1 (ih hc)

theorem closure_sound {S : Schema} {a : Node} : ∀ (k : Nat) (V : List Node), (∀ x ∈ V, SpecReaches S a x) →
    ∀ x ∈ closure S k V, SpecReaches S a x := by
  intro k
  induction k with
  | zero => intro V h; exact h
  | succ k ih =>
    intro V h
    simp only [closure]
    apply ih
    intro x hx
    rcases (mem_insertNew _ _ _).mp hx with hx | hx
    · exact h x hx
    · obtain ⟨y, hy, hxy⟩ := List.mem_flatMap.mp hx
      exact (h y hy).snoc hxy

/-- every node of the executable closure is reached by the relation -/
theorem specReaches_of_mem_reachable {T : TsDoc} {a b : Node} (h : b ∈ reachable T a) : SpecReaches ⟨T⟩ a b := by
  unfold reachable at h
  refine closure_sound _ _ ?_ b h
  intro x hx
  rcases (mem_insertNew _ _ _).mp hx with hx | hx
  · cases hx
  · exact .step hx

/-- the relational form of the recursion rule implies the executable form: the two are the same rule -/
theorem exec_of_noSpecRecursion {T : TsDoc} (h : NoSpecRecursion T) : noRecursiveDirectives T = true := by
  simp only [noRecursiveDirectives, List.all_eq_true, Bool.not_eq_true']
  intro d hd
  exact ncontains_false.mpr fun hm => h d hd (specReaches_of_mem_reachable hm)

theorem noRecursiveDirectives_iff {T : TsDoc} : noRecursiveDirectives T = true ↔ NoSpecRecursion T :=
  ⟨noSpecRecursion_of_exec, exec_of_noSpecRecursion⟩

end NitroVerif.ValidTs
