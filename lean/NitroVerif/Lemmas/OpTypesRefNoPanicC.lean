/-
No-panic, part C: nesting bound from `fits`, and the deep merge of the entries of one branch succeeds.
-/
import NitroVerif.Lemmas.OpTypesRefNoPanicA
import NitroVerif.Lemmas.OpTypesRefNoPanicB
import NitroVerif.Lemmas.OpTypesRefMain
namespace NitroVerif.OpTypes.Ref
open NitroVerif.Gql NitroVerif.Ts NitroVerif.Exec NitroVerif.OpTypes

/-! ### nesting bound -/

theorem fits_all_zero {F : FragMap} {ss : List Selection} (h : ∀ x ∈ ss, fits F 0 x = true) : ss = [] := by
  cases ss with
  | nil => rfl
  | cons x xs => have := h x (by simp); simp [fits] at this

theorem inFlat_sub_fits {S : Schema} {F : FragMap} {o : Name} {inc : Inc} {V : List Name} {ss : List Selection} {t : FT}
    (h : InFlat S F o inc V ss t) : ∀ D, (∀ x ∈ ss, fits F (D + 1) x = true) → ∀ s', t.sub = some s' →
      ∀ x ∈ s', fits F D x = true := by
  induction h with
  | @field alias name p args ds sub rest _ =>
    intro D hf s' hs' x hx
    have := hf _ (List.mem_cons_self)
    simp only at hs'; subst hs'
    simp only [fits] at this
    exact List.all_eq_true.1 this x hx
  | @inline cond ds cs p rest t _ _ hin ih =>
    intro D hf s' hs' x hx
    have := hf _ (List.mem_cons_self)
    simp only [fits] at this
    have hcs : ∀ y ∈ cs, fits F D y = true := fun y hy => List.all_eq_true.1 this y hy
    cases D with
    | zero => rw [fits_all_zero hcs] at hin; exact absurd hin inFlat_nil
    | succ D' => exact (fits_esz_succ F D' x (ih D' hcs s' hs' x hx)).1
  | @spread nm np ds p rest f t _ _ hF _ hin ih =>
    intro D hf s' hs' x hx
    have := hf _ (List.mem_cons_self)
    simp only [fits, hF] at this
    have hcs : ∀ y ∈ f.sel, fits F D y = true := fun y hy => List.all_eq_true.1 this y hy
    cases D with
    | zero => rw [fits_all_zero hcs] at hin; exact absurd hin inFlat_nil
    | succ D' => exact (fits_esz_succ F D' x (ih D' hcs s' hs' x hx)).1
  | tail _ ih =>
    intro D hf
    exact ih D (fun x hx => hf x (List.mem_cons_of_mem _ hx))

theorem nestLe_of_fits (c : Ctx) : ∀ (D : Nat) (Sb : SSet), (∀ s, Sb s → ∀ x ∈ s, fits c.F D x = true) → NestLe c D Sb
  | 0, Sb, h => by
    intro o t ⟨s, hs, hin⟩
    rw [fits_all_zero (h s hs)] at hin; exact absurd hin inFlat_nil
  | D + 1, Sb, h => by
    intro o t _
    refine nestLe_of_fits c D _ ?_
    rintro s' ⟨t', ⟨s2, hs2, hin⟩, _, hsub⟩ x hx
    exact inFlat_sub_fits hin D (h s2 hs2) s' hsub x hx

theorem nestLe_succ (c : Ctx) : ∀ (k : Nat) (Sb : SSet), NestLe c k Sb → NestLe c (k + 1) Sb
  | 0, Sb, h => by
    intro o t ht o' t' ⟨s', ⟨t2, ht2, _, hsub⟩, _⟩
    rw [h o t2 ht2] at hsub; cases hsub
  | k + 1, Sb, h => by
    intro o t ht
    exact nestLe_succ c k _ (h o t ht)

theorem nestLe_mono (c : Ctx) {k k' : Nat} (hk : k ≤ k') {Sb : SSet} (h : NestLe c k Sb) : NestLe c k' Sb := by
  induction hk with
  | refl => exact h
  | step _ ih => exact nestLe_succ c _ _ ih

/-! ### the entries of one response key can be merged -/

theorem fieldOf_leaf_shape {c : Ctx} {o : Name} {t : FT} {k : Name} {ty : GType} {b : Bool}
    (h : FieldOf c o t (.leaf k ty b)) : (t.name == "__typename") = true ∨ t.sub = none := by
  unfold FieldOf at h
  split at h
  · rename_i htn; exact Or.inl htn
  · obtain ⟨fd, _, h⟩ := h
    split at h
    · rename_i hs; exact Or.inr hs
    · obtain ⟨T, h, _⟩ := h; cases h

theorem accInv_fold_ok {c : Ctx} {mt : SelTree → SelTree → Except Panic SelTree} {N : Nat} (HM : MergeSpec c mt)
    (MP : MergeProg c mt N) {o k : Name} {ss : List Selection} (hcoh : CohAt c (Sb1 ss) o) :
    ∀ (rest ps : List Entry) (g : SField), AccInv c o k ps g →
    (∀ q ∈ ps ++ rest, EntryOk c o q ∧ q.1.1.key = k ∧ InFlat c.S c.F o allInc [] ss q.1.1) →
    (∀ (Q : SSet), (∀ s, Q s → ∃ q ∈ ps ++ rest, q.1.1.sub = some s) → ∀ fd q, q ∈ ps ++ rest →
      c.S.field? o q.1.1.name = some fd → ∀ d, Coh c d Q fd.ty.unwrapped) →
    (∀ (Q : SSet), (∀ s, Q s → ∃ q ∈ ps ++ rest, q.1.1.sub = some s) → ∀ T fd q, q ∈ ps ++ rest →
      c.S.field? o q.1.1.name = some fd → RelTree c T fd.ty Q → wd T ≤ N) →
    ∃ m, mergeAll mt g (rest.map (·.2.2)) = .ok m
  | [], ps, g, _, _, _, _ => ⟨g, rfl⟩
  | p :: rest, ps, g, hinv, hall, hnest, hwd => by
    have hsub : ∀ q ∈ ps ++ [p], q ∈ ps ++ p :: rest := by
      intro q hq
      rcases List.mem_append.1 hq with hq | hq
      · exact List.mem_append.2 (Or.inl hq)
      · simp only [List.mem_singleton] at hq; subst hq; simp
    have mono : ∀ q ∈ ps, q ∈ ps ++ p :: rest := fun q hq => List.mem_append.2 (Or.inl hq)
    obtain ⟨hok, hkey, hin⟩ := hall p (by simp)
    have hemp := entry_empty_iff hok
    -- the next merge succeeds
    have hstep : ∃ y, mergeFieldsWith mt g p.2.2 = .ok y := by
      -- a leaf and an object entry of one key contradict coherence
      have mixed : ∀ (q q' : Entry), q ∈ ps ++ p :: rest → q' ∈ ps ++ p :: rest →
          ((q.1.1.name == "__typename") = true ∨ q.1.1.sub = none) →
          (q'.1.1.name == "__typename") = false → q'.1.1.sub.isSome = true → False := by
        intro q q' hq hq' h1 h2 h3
        obtain ⟨_, hk1, hin1⟩ := hall q hq
        obtain ⟨_, hk2, hin2⟩ := hall q' hq'
        obtain ⟨_, hnm, hsm⟩ := cohAt_full hcoh q.1.1 q'.1.1 (pu_sb1.2 hin1) (pu_sb1.2 hin2) (by rw [hk1, hk2])
        rcases h1 with h1 | h1
        · rw [hnm, h2] at h1; cases h1
        · rw [h1, h3] at hsm; cases hsm
      cases hg : g with
      | empty kg =>
        cases p.2.2 <;> exact ⟨_, rfl⟩
      | leaf kg tyg bg =>
        rw [hg] at hinv
        simp only [AccInv] at hinv
        obtain ⟨q, hq, _, hfo⟩ := hinv
        cases hf : p.2.2 with
        | empty _ => exact ⟨_, rfl⟩
        | leaf _ _ _ => exact ⟨_, rfl⟩
        | object kp Tp =>
          exfalso
          have hs : p.1.2 = false := by rw [← hemp, hf]; rfl
          have hfo' : FieldOf c o p.1.1 (.object kp Tp) := by
            have := hok.2; simp only [hs, Bool.false_eq_true, ↓reduceIte, hf] at this; exact this
          obtain ⟨htn, _, fd', s, _, hsub', _⟩ := fieldOf_object hfo'
          exact mixed q p (mono q hq) (by simp) (fieldOf_leaf_shape hfo) htn (by simp [hsub'])
      | object kg Tg =>
        rw [hg] at hinv
        simp only [AccInv] at hinv
        obtain ⟨_, q, hq, fd, _, htnq, hsq, hfdq, hrelq⟩ := hinv
        cases hf : p.2.2 with
        | empty _ => exact ⟨_, rfl⟩
        | leaf kp typ bp =>
          exfalso
          have hs : p.1.2 = false := by rw [← hemp, hf]; rfl
          have hfo' : FieldOf c o p.1.1 (.leaf kp typ bp) := by
            have := hok.2; simp only [hs, Bool.false_eq_true, ↓reduceIte, hf] at this; exact this
          exact mixed p q (by simp) (mono q hq) (fieldOf_leaf_shape hfo') htnq hsq
        | object kp Tp =>
          have hs : p.1.2 = false := by rw [← hemp, hf]; rfl
          have hfo' : FieldOf c o p.1.1 (.object kp Tp) := by
            have := hok.2; simp only [hs, Bool.false_eq_true, ↓reduceIte, hf] at this; exact this
          obtain ⟨_, _, fd', s, hfd', hsub', hrel'⟩ := fieldOf_object hfo'
          obtain ⟨_, hqk, hqin⟩ := hall q (mono q hq)
          have hsame := (cohAt_full hcoh q.1.1 p.1.1 (pu_sb1.2 hqin) (pu_sb1.2 hin) (by rw [hqk, hkey])).2.1
          rw [← hsame, hfdq] at hfd'; cases hfd'
          have hQ : ∀ s', SUnion (subsOf ps) (Sb1 s) s' → ∃ q' ∈ ps ++ p :: rest, q'.1.1.sub = some s' := by
            rintro s' (⟨q', hq', _, h6⟩ | h6)
            · exact ⟨q', mono q' hq', h6⟩
            · simp only [Sb1] at h6; subst h6; exact ⟨p, by simp, hsub'⟩
          obtain ⟨Tm, hTm⟩ := MP Tg Tp fd.ty _ _ hrelq hrel' (hnest _ hQ fd q (mono q hq) hfdq)
            (hwd (subsOf ps) (fun s' ⟨q', hq', _, h6⟩ => ⟨q', mono q' hq', h6⟩) Tg fd q (mono q hq) hfdq hrelq)
          exact ⟨.object kg Tm, by simp [mergeFieldsWith, hTm, bind, Except.bind]⟩
    obtain ⟨y, hy⟩ := hstep
    simp only [List.map_cons, mergeAll, hy]
    have hinv' := accInv_step HM hinv (fun q hq => hall q (hsub q hq)) hcoh
      (fun Q hQ fd q hq => hnest Q (fun s hs => by
        obtain ⟨q', hq', h⟩ := hQ s hs; exact ⟨q', hsub q' hq', h⟩) fd q (hsub q hq)) hy
    have := accInv_fold_ok HM MP hcoh rest (ps ++ [p]) y hinv' (by simpa using hall) (by simpa using hnest)
      (by simpa using hwd)
    exact this

end NitroVerif.OpTypes.Ref
