/-
Helper lemmas and witnesses for C01 / C02 (never the property statements).
  * `mem_hook_iff`            — inversion of `Mem` at an application handled by `Env.appHook` (`__SelectionSet`)
  * `assignments_mem`          — `assignments vs` lists exactly the total assignments of `vs`
  * `orNull` / `leafTs` shape  — facts about the wrapper translation
  * `W`                        — the witness schema (`Query { a: A }`, `A { x: Int, y: String }`), its schema declaration
                                 file (written as `SchemaTypePrinter` prints it) and the witness documents
-/
import NitroVerif.Model.OpTypes
import NitroVerif.Spec.Exec
import NitroVerif.Ts.SelSem
import NitroVerif.Lemmas.TsSem
import NitroVerif.Lemmas.TsSemSound
namespace NitroVerif.OpTypes
open NitroVerif.Gql NitroVerif.Ts

/-- membership in an application the hook interprets is membership in the type the hook returns -/
theorem mem_hook_iff {e : Env} {v : J} {f : Ty} {as : List Ty} {t' : Ty} (h : e.appHook e.decls f as = some t') :
    Mem e v (.app f as) ↔ Mem e v t' := by
  constructor
  · intro hm
    cases hm with
    | hook _ _ _ t'' h' hm' => rw [h] at h'; cases h'; exact hm'
    | opaqueTy _ ho => simp [Ty.isOpaque, h] at ho
  · intro hm; exact .hook v f as t' h hm

/-! ### branch enumeration -/

theorem assignments_mem (vs : List Name) (a : List (Name × Bool)) :
    a ∈ assignments vs ↔ a.map Prod.fst = vs := by
  induction vs generalizing a with
  | nil => cases a <;> simp [assignments]
  | cons v vs ih =>
    simp only [assignments, List.mem_append, List.mem_map]
    constructor
    · rintro (⟨b, hb, rfl⟩ | ⟨b, hb, rfl⟩) <;> simp [(ih b).1 hb]
    · intro h
      cases a with
      | nil => simp at h
      | cons p rest =>
        obtain ⟨w, b⟩ := p
        simp only [List.map_cons, List.cons.injEq] at h
        obtain ⟨rfl, hr⟩ := h
        cases b
        · exact Or.inl ⟨rest, (ih rest).2 hr, rfl⟩
        · exact Or.inr ⟨rest, (ih rest).2 hr, rfl⟩

/-! ### witnesses -/
namespace W
open NitroVerif.Ts.SelSem

def S : Schema := ⟨[
  .typeDef { kind := .scalar, name := "Int" },
  .typeDef { kind := .scalar, name := "String" },
  .typeDef { kind := .scalar, name := "Boolean" },
  .typeDef { kind := .object, name := "Query", fields := [{ name := "a", ty := .named "A" {} }, { name := "name", ty := .nonNull (.named "String" {}) }] },
  .typeDef { kind := .object, name := "A", fields := [{ name := "x", ty := .named "Int" {} }, { name := "y", ty := .named "String" {} }] }]⟩

/-- the schema declaration file of `S` as `SchemaTypePrinter::print_document` prints it (operation-output part) -/
def schemaFile : Ts.File := [
  .rawType false "__Beautify" beautifyText,
  .rawType true "__SelectionSet" preludeText,
  .namespace true "__OperationOutput" [
    .type true "Int" [] (.prim "number"),
    .type true "String" [] (.prim "string"),
    .type true "Boolean" [] (.prim "boolean"),
    .type true "Query" [] (.obj [("__typename", false, false, .strLit "Query"),
      ("a", false, false, .union [.ref "A", .prim "null"]), ("name", false, false, .ref "String")]),
    .type true "A" [] (.obj [("__typename", false, false, .strLit "A"),
      ("x", false, false, .union [.ref "Int", .prim "null"]), ("y", false, false, .union [.ref "String", .prim "null"])])]]

def opFile : Ts.File := [.import "" true (.star "Schema")]

def env : Env := envOf opFile "" schemaFile

/-- a type of the operation file, closed -/
def close (t : Ty) : Ty := globalise env.decls [] [] t

def ctx : Exec.Ctx :=
  { S := S, F := fun _ => none,
    scalar := fun n v => memG env 16 v (close (.qref ["Schema", "__OperationOutput", n])), fuel := 16 }

def skipV : Directive := { name := "skip", args := [("if", {}, .var "v" {})] }

def selX : List Selection := [.field none "x" {} [] [] none]
def selYskip : List Selection := [.field none "y" {} [] [skipV] none]

/-- `{ a { x } a { y @skip(if: $v) } }` -/
def selA : List Selection := [.field none "a" {} [] [] (some selX), .field none "a" {} [] [] (some selYskip)]

/-- `{ t: __typename }` -/
def selT : List Selection := [.field (some ("t", {})) "__typename" {} [] [] none]

/-- `{ __typename: name }` -/
def selN : List Selection := [.field (some ("__typename", {})) "name" {} [] [] none]

def noFrags : Frags := fun _ => none

end W
end NitroVerif.OpTypes

namespace NitroVerif.OpTypes
open NitroVerif.Gql NitroVerif.Ts

/-! ### wrapper translation of leaf types -/

mutual
/-- CompleteValue for a leaf position, wrapper structure only: `null` exactly at nullable positions, lists
    element-wise, the named type's values given by `leaf` -/
def WrapConf (leaf : Name → J → Prop) : GType → J → Prop
  | .named n _, v => v = .null ∨ leaf n v
  | .list t _, v => v = .null ∨ ∃ xs, v = .arr xs ∧ ∀ x ∈ xs, WrapConf leaf t x
  | .nonNull t, v => WrapConfNN leaf t v
def WrapConfNN (leaf : Name → J → Prop) : GType → J → Prop
  | .named n _, v => leaf n v
  | .list t _, v => ∃ xs, v = .arr xs ∧ ∀ x ∈ xs, WrapConf leaf t x
  | .nonNull t, v => WrapConfNN leaf t v
end

theorem mem_orNull_iff {e : Env} {v : J} {t : Ty} (ht : ∀ ts, t ≠ .union ts) :
    Mem e v (orNull t) ↔ v = .null ∨ Mem e v t := by
  have : orNull t = .union [t, .prim "null"] := by
    cases t <;> simp_all [orNull]
  rw [this, mem_union_iff]
  constructor
  · rintro ⟨t', ht', hm⟩
    simp only [List.mem_cons, List.mem_nil_iff, or_false] at ht'
    rcases ht' with rfl | rfl
    · exact Or.inr hm
    · exact Or.inl (mem_null_iff.1 hm)
  · rintro (rfl | hm)
    · exact ⟨.prim "null", by simp, mem_null_iff.2 rfl⟩
    · exact ⟨t, by simp, hm⟩

end NitroVerif.OpTypes

namespace NitroVerif.OpTypes
open NitroVerif.Gql NitroVerif.Ts

/-- PRE-REPAIR `field_to_type` (before 72cec20): the literal was chosen by RESPONSE KEY -/
def fieldTsByKey (ns : String) (parent : Name) : SField → Ts.Field
  | .leaf n ty _ => (n, false, false, if n == "__typename" then .strLit parent else leafTs (Refs.ofNs ns).out ty)
  | f => fieldTs (Refs.ofNs ns) parent f


namespace W
/-! ### the §9-a witness: `a { x } a { y @skip(if: $v) }` at `a` -/

/-- the tree of `a`'s merged sub-selection as the PRE-REPAIR `merge_selection_trees` built it -/
def oldTree : Except Panic SelTree := do
  let l ← implTree S noFrags 16 16 (.named "A" {}) selX
  let r ← implTree S noFrags 16 16 (.named "A" {}) selYskip
  mergeTreesOld 8 l r

/-- … and as the repaired one builds it -/
def newTree : Except Panic SelTree := do
  let l ← implTree S noFrags 16 16 (.named "A" {}) selX
  let r ← implTree S noFrags 16 16 (.named "A" {}) selYskip
  mergeTrees 8 l r

def tInt : Ty := .union [.other "abs" ["Schema", "__OperationOutput", "Int"], .prim "null"]
def tStr : Ty := .union [.other "abs" ["Schema", "__OperationOutput", "String"], .prim "null"]
def objXY : List Field := [("x", false, false, tInt), ("y", false, false, tStr)]
def objXnoY : List Field := [("x", false, false, tInt), ("y", false, true, .prim "never")]
def selSet (o : List Field) : Ty :=
  .app (.other "abs" ["Schema", "__SelectionSet"]) [.other "abs" ["Schema", "__OperationOutput", "A"], .obj o, .obj []]
/-- `Schema.__SelectionSet<A, {x, y}, {}> | null` -/
def oldTy : Ty := .union [selSet objXY, .prim "null"]
/-- `Schema.__SelectionSet<A, {x, y}, {}> | Schema.__SelectionSet<A, {x, y?: never}, {}> | null` -/
def newTy : Ty := .union [selSet objXY, selSet objXnoY, .prim "null"]

theorem oldTree_ty : (oldTree.toOption.map fun t => close (toTs "Schema" t)) = some oldTy := by rfl
theorem newTree_ty : (newTree.toOption.map fun t => close (toTs "Schema" t)) = some newTy := by rfl

set_option maxRecDepth 16384 in
theorem hookXY : env.appHook env.decls (.other "abs" ["Schema", "__SelectionSet"])
    [.other "abs" ["Schema", "__OperationOutput", "A"], .obj objXY, .obj []] = some (.obj objXY) := by rfl

set_option maxRecDepth 16384 in
theorem hookXnoY : env.appHook env.decls (.other "abs" ["Schema", "__SelectionSet"])
    [.other "abs" ["Schema", "__OperationOutput", "A"], .obj objXnoY, .obj []] = some (.obj objXnoY) := by rfl

theorem bodyString : env.decls.body? ["Schema", "__OperationOutput", "String"] = some ([], .prim "string") := by rfl
theorem bodyInt : env.decls.body? ["Schema", "__OperationOutput", "Int"] = some ([], .prim "number") := by rfl

/-- the response of `a { x } a { y @skip(if: $v) }` at `a` for v = true -/
def respX : J := .obj [("x", .num)]


end W
end NitroVerif.OpTypes

namespace NitroVerif.OpTypes
open NitroVerif.Gql NitroVerif.Ts

/-! ### parent objects of a branch enumeration -/

theorem typeDef?_name {S : Schema} {n : Name} {t : TypeDef} (h : S.typeDef? n = some t) : t.name = n := by
  have := List.find?_some h
  simpa using this

def memberObj (S : Schema) (m : Name × Pos) : Except Panic TypeDef :=
  match S.typeDef? m.1 with
  | some o => if o.kind == .object then .ok o else .error .typeSystemError
  | none => .error .typeSystemError

theorem mapM_member_names (S : Schema) : ∀ (ms : List (Name × Pos)) (objs : List TypeDef),
    ms.mapM (memberObj S) = .ok objs → objs.map (·.name) = ms.map (·.1) := by
  intro ms
  induction ms with
  | nil => intro objs h; simp [pure, Except.pure] at h; subst h; rfl
  | cons m ms ih =>
    intro objs h
    simp only [List.mapM_cons, bind, Except.bind] at h
    cases hm : memberObj S m with
    | error e => simp [hm] at h
    | ok o =>
      simp only [hm] at h
      cases hr : ms.mapM (memberObj S) with
      | error e => simp [hr] at h
      | ok os =>
        simp only [hr, pure, Except.pure] at h
        cases h
        simp only [List.map_cons, ih os hr]
        congr 1
        unfold memberObj at hm
        split at hm
        · rename_i o' ho'
          split at hm
          · cases hm; exact typeDef?_name ho'
          · cases hm
        · cases hm


end NitroVerif.OpTypes

namespace NitroVerif.OpTypes
open NitroVerif.Gql NitroVerif.Ts

/-- wrapper-exactness of the leaf translation (restated as `leafTs_exact` in Props/C02.lean) -/
theorem leafTs_den {e : Env} (q : Name → Ty) (hq : ∀ n ts, q n ≠ .union ts) (ty : GType) :
    (∀ v, Mem e v (leafTs q ty) ↔ WrapConf (fun n v => Mem e v (q n)) ty v) ∧
    (∀ v, Mem e v (leafCore q ty) ↔ WrapConfNN (fun n v => Mem e v (q n)) ty v) := by
  induction ty with
  | named n p =>
    constructor
    · intro v; simp only [leafTs, WrapConf]; exact mem_orNull_iff (hq n)
    · intro v; simp only [leafCore, WrapConfNN]
  | list t p ih =>
    have harr : ∀ v, Mem e v (.arr (leafTs q t)) ↔
        ∃ xs, v = .arr xs ∧ ∀ x ∈ xs, WrapConf (fun n v => Mem e v (q n)) t x := by
      intro v
      rw [mem_arr_iff]
      constructor
      · rintro ⟨xs, rfl, hx⟩; exact ⟨xs, rfl, fun x hxm => (ih.1 x).1 (hx x hxm)⟩
      · rintro ⟨xs, rfl, hx⟩; exact ⟨xs, rfl, fun x hxm => (ih.1 x).2 (hx x hxm)⟩
    constructor
    · intro v
      simp only [leafTs, WrapConf]
      rw [mem_orNull_iff (by intro ts h; cases h), harr v]
    · intro v
      simp only [leafCore, WrapConfNN]
      exact harr v
  | nonNull t ih =>
    constructor
    · intro v; simp only [leafTs, WrapConf]; exact ih.2 v
    · intro v; simp only [leafCore, WrapConfNN]; exact ih.2 v


end NitroVerif.OpTypes
