/-
Lookahead transparency of the PEG interpreter (helper lemmas for Props/C07, third stage). Three facts about
`eval / doSkip / starRest / callRule` for ANY grammar table, each an induction on the depth bound:

* `noPairs`    — under lookahead (`la ≠ .none`) a successful evaluation returns no pairs;
* `fuelMono`   — a result that is not "out of depth" is the result for every larger depth bound (trace and pairs included);
* `lookShape`  — whether an evaluation succeeds, fails or runs out of depth, and the cursor where it ends, depend neither
                 on the lookahead state nor on the trace.

Consequence (`RunsL.look`, `FailsL.look`, …): every forward lemma proved outside lookahead (`Runs`, `Fails`, `RunsRule`,
`SkipTo`) holds under any lookahead state, with the empty pair list. This is what makes `COMMENT`'s negative lookahead
`!ext_ImportStatementContent` tractable: the import statement is parsed once outside lookahead and transferred.
-/
import NitroVerif.Lemmas.ParseRun
namespace NitroVerif.Peg

variable (g : G)

/-! ### no pairs under lookahead -/

structure NoPairs (fuel : Nat) : Prop where
  ev : ∀ sk e at_ la tr c tr' c' ps, la ≠ .none → eval g fuel sk e at_ la tr c = (tr', .ok c' ps) → ps = []
  sk : ∀ sk at_ la tr c tr' c' ps, la ≠ .none → doSkip g fuel sk at_ la tr c = (tr', .ok c' ps) → ps = []
  sr : ∀ a at_ la tr c tr' c' ps, la ≠ .none → starRest g fuel a at_ la tr c = (tr', .ok c' ps) → ps = []
  cr : ∀ r at_ la tr c tr' c' ps, la ≠ .none → callRule g fuel r at_ la tr c = (tr', .ok c' ps) → ps = []

theorem lookNot_ne (la : Look) : lookNot la ≠ .none := by cases la <;> simp [lookNot]
theorem lookAnd_ne (la : Look) : lookAnd la ≠ .none := by cases la <;> simp [lookAnd]

theorem noPairs : ∀ fuel, NoPairs g fuel := by
  intro fuel
  induction fuel with
  | zero =>
    exact ⟨fun _ _ _ _ _ _ _ _ _ _ h => by simp [eval_zero] at h, fun _ _ _ _ _ _ _ _ _ h => by simp [doSkip_zero] at h,
      fun _ _ _ _ _ _ _ _ _ h => by simp [starRest_zero] at h, fun _ _ _ _ _ _ _ _ _ h => by simp [callRule_zero] at h⟩
  | succ fuel ih =>
    refine ⟨?_, ?_, ?_, ?_⟩
    · intro sk e at_ la tr c tr' c' ps hla h
      cases e with
      | str s => exact (eval_str_ok g h).2
      | insens s => exact (eval_insens_ok g h).2
      | range lo hi => exact (eval_range_ok g h).2
      | any => exact (eval_any_ok g h).2
      | soi => exact (eval_soi_ok g h).2
      | eoi => exact (eval_eoi_ok g h).2
      | seq a b =>
        obtain ⟨tr1, c1, p1, tr2, c2, p2, p3, h1, h2, h3, rfl⟩ := eval_seq_ok g h
        rw [ih.ev _ _ _ _ _ _ _ _ _ hla h1, ih.sk _ _ _ _ _ _ _ _ hla h2, ih.ev _ _ _ _ _ _ _ _ _ hla h3]; rfl
      | choice a b =>
        rcases eval_choice_ok g h with h1 | ⟨tr1, _, h2⟩
        · exact ih.ev _ _ _ _ _ _ _ _ _ hla h1
        · exact ih.ev _ _ _ _ _ _ _ _ _ hla h2
      | opt a =>
        rcases eval_opt_ok g h with h1 | ⟨_, rfl⟩
        · exact ih.ev _ _ _ _ _ _ _ _ _ hla h1
        · rfl
      | star a =>
        cases sk with
        | true =>
          rcases eval_star_sk_ok g h with ⟨tr1, c1, p1, p2, h1, h2, rfl⟩ | ⟨_, rfl⟩
          · rw [ih.ev _ _ _ _ _ _ _ _ _ hla h1, ih.sr _ _ _ _ _ _ _ _ hla h2]; rfl
          · rfl
        | false =>
          rcases eval_star_nosk_ok g h with ⟨tr1, c1, p1, p2, h1, h2, rfl⟩ | ⟨_, rfl⟩
          · rw [ih.ev _ _ _ _ _ _ _ _ _ hla h1, ih.ev _ _ _ _ _ _ _ _ _ hla h2]; rfl
          · rfl
      | plus a => rw [eval_plus] at h; exact ih.ev _ _ _ _ _ _ _ _ _ hla h
      | rep n a => rw [eval_rep] at h; exact ih.ev _ _ _ _ _ _ _ _ _ hla h
      | not a => exact (eval_not_ok g h).2
      | and a => exact (eval_and_ok g h).2
      | call r => rw [eval_call] at h; exact ih.cr _ _ _ _ _ _ _ _ hla h
    · intro sk at_ la tr c tr' c' ps hla h
      rcases doSkip_ok g h with ⟨_, _, e, _, h1⟩ | ⟨_, rfl⟩
      · exact ih.ev _ _ _ _ _ _ _ _ _ hla h1
      · rfl
    · intro a at_ la tr c tr' c' ps hla h
      rcases starRest_ok g h with ⟨tr1, c1, p1, tr2, c2, p2, p3, h1, h2, h3, rfl⟩ | ⟨_, rfl⟩
      · rw [ih.sk _ _ _ _ _ _ _ _ hla h1, ih.ev _ _ _ _ _ _ _ _ _ hla h2, ih.sr _ _ _ _ _ _ _ _ hla h3]; rfl
      · rfl
    · intro r at_ la tr c tr' c' ps hla h
      obtain ⟨kind, body, tr0, tr1, ps0, hl, hb, hps⟩ := callRule_ok g h
      have h0 := ih.ev _ _ _ _ _ _ _ _ _ hla hb
      subst h0
      simp only [hla, false_and, if_false, ite_self] at hps
      exact hps

/-! ### the result does not change when the depth bound grows -/

structure FuelMono (fuel : Nat) : Prop where
  ev : ∀ sk e at_ la tr c tr' o, eval g fuel sk e at_ la tr c = (tr', o) → o ≠ .oof →
    eval g (fuel + 1) sk e at_ la tr c = (tr', o)
  sk : ∀ sk at_ la tr c tr' o, doSkip g fuel sk at_ la tr c = (tr', o) → o ≠ .oof →
    doSkip g (fuel + 1) sk at_ la tr c = (tr', o)
  sr : ∀ a at_ la tr c tr' o, starRest g fuel a at_ la tr c = (tr', o) → o ≠ .oof →
    starRest g (fuel + 1) a at_ la tr c = (tr', o)
  cr : ∀ r at_ la tr c tr' o, callRule g fuel r at_ la tr c = (tr', o) → o ≠ .oof →
    callRule g (fuel + 1) r at_ la tr c = (tr', o)

theorem ruleWrap_oof {r seen la c res tr'} (h : ruleWrap r seen la c res = (tr', .oof)) : res.2 = .oof := by
  rcases res with ⟨t, o⟩
  cases o <;> simp [ruleWrap] at h ⊢

theorem ruleWrap_ne_oof {r seen la c} {res : Tr × Out} (h : res.2 ≠ .oof) : (ruleWrap r seen la c res).2 ≠ .oof := by
  rcases res with ⟨t, o⟩
  cases o <;> simp [ruleWrap] at h ⊢


theorem fuelMono : ∀ fuel, FuelMono g fuel := by
  intro fuel
  induction fuel with
  | zero =>
    exact ⟨fun _ _ _ _ _ _ _ _ h ho => by simp [eval_zero] at h; exact absurd h.2.symm ho,
      fun _ _ _ _ _ _ _ h ho => by simp [doSkip_zero] at h; exact absurd h.2.symm ho,
      fun _ _ _ _ _ _ _ h ho => by simp [starRest_zero] at h; exact absurd h.2.symm ho,
      fun _ _ _ _ _ _ _ h ho => by simp [callRule_zero] at h; exact absurd h.2.symm ho⟩
  | succ fuel ih =>
    have oofC : ∀ {t t' : Tr} {o : Out}, (t, Out.oof) = (t', o) → o ≠ .oof → False := by
      intro t t' o h ho
      simp only [Prod.mk.injEq] at h
      exact ho h.2.symm
    refine ⟨?_, ?_, ?_, ?_⟩
    · intro sk e at_ la tr c tr' o h ho
      cases e with
      | str s => simpa only [eval] using h
      | insens s => simpa only [eval] using h
      | range lo hi => simpa only [eval] using h
      | any => simpa only [eval] using h
      | soi => simpa only [eval] using h
      | eoi => simpa only [eval] using h
      | seq a b =>
        rw [eval] at h ⊢
        rcases e1 : eval g fuel sk a at_ la tr c with ⟨t1, o1⟩
        rw [e1] at h
        cases o1 with
        | oof => exact (oofC h ho).elim
        | fail => rw [ih.ev _ _ _ _ _ _ _ _ e1 (by simp)]; exact h
        | ok c1 p1 =>
          rw [ih.ev _ _ _ _ _ _ _ _ e1 (by simp)]
          dsimp only at h ⊢
          rcases e2 : doSkip g fuel sk at_ la t1 c1 with ⟨t2, o2⟩
          rw [e2] at h
          cases o2 with
          | oof => exact (oofC h ho).elim
          | fail => rw [ih.sk _ _ _ _ _ _ _ e2 (by simp)]; exact h
          | ok c2 p2 =>
            rw [ih.sk _ _ _ _ _ _ _ e2 (by simp)]
            dsimp only at h ⊢
            rcases e3 : eval g fuel sk b at_ la t2 c2 with ⟨t3, o3⟩
            rw [e3] at h
            cases o3 with
            | oof => exact (oofC h ho).elim
            | fail => rw [ih.ev _ _ _ _ _ _ _ _ e3 (by simp)]; exact h
            | ok c3 p3 => rw [ih.ev _ _ _ _ _ _ _ _ e3 (by simp)]; exact h
      | choice a b =>
        rw [eval] at h ⊢
        rcases e1 : eval g fuel sk a at_ la tr c with ⟨t1, o1⟩
        rw [e1] at h
        cases o1 with
        | oof => exact (oofC h ho).elim
        | ok c1 p1 => rw [ih.ev _ _ _ _ _ _ _ _ e1 (by simp)]; exact h
        | fail =>
          rw [ih.ev _ _ _ _ _ _ _ _ e1 (by simp)]
          dsimp only at h ⊢
          exact ih.ev _ _ _ _ _ _ _ _ h ho
      | opt a =>
        rw [eval] at h ⊢
        rcases e1 : eval g fuel sk a at_ la tr c with ⟨t1, o1⟩
        rw [e1] at h
        cases o1 with
        | oof => exact (oofC h ho).elim
        | ok c1 p1 => rw [ih.ev _ _ _ _ _ _ _ _ e1 (by simp)]; exact h
        | fail => rw [ih.ev _ _ _ _ _ _ _ _ e1 (by simp)]; exact h
      | star a =>
        cases sk with
        | true =>
          rw [eval] at h ⊢
          simp only [if_true] at h ⊢
          rcases e1 : eval g fuel true a at_ la tr c with ⟨t1, o1⟩
          rw [e1] at h
          cases o1 with
          | oof => exact (oofC h ho).elim
          | fail => rw [ih.ev _ _ _ _ _ _ _ _ e1 (by simp)]; exact h
          | ok c1 p1 =>
            rw [ih.ev _ _ _ _ _ _ _ _ e1 (by simp)]
            dsimp only at h ⊢
            rcases e2 : starRest g fuel a at_ la t1 c1 with ⟨t2, o2⟩
            rw [e2] at h
            cases o2 with
            | oof => exact (oofC h ho).elim
            | fail => rw [ih.sr _ _ _ _ _ _ _ e2 (by simp)]; exact h
            | ok c2 p2 => rw [ih.sr _ _ _ _ _ _ _ e2 (by simp)]; exact h
        | false =>
          rw [eval] at h ⊢
          simp only [Bool.false_eq_true, if_false] at h ⊢
          rcases e1 : eval g fuel false a at_ la tr c with ⟨t1, o1⟩
          rw [e1] at h
          cases o1 with
          | oof => exact (oofC h ho).elim
          | fail => rw [ih.ev _ _ _ _ _ _ _ _ e1 (by simp)]; exact h
          | ok c1 p1 =>
            rw [ih.ev _ _ _ _ _ _ _ _ e1 (by simp)]
            dsimp only at h ⊢
            rcases e2 : eval g fuel false (.star a) at_ la t1 c1 with ⟨t2, o2⟩
            rw [e2] at h
            cases o2 with
            | oof => exact (oofC h ho).elim
            | fail => rw [ih.ev _ _ _ _ _ _ _ _ e2 (by simp)]; exact h
            | ok c2 p2 => rw [ih.ev _ _ _ _ _ _ _ _ e2 (by simp)]; exact h
      | plus a => rw [eval_plus] at h ⊢; exact ih.ev _ _ _ _ _ _ _ _ h ho
      | rep n a => rw [eval_rep] at h ⊢; exact ih.ev _ _ _ _ _ _ _ _ h ho
      | not a =>
        rw [eval] at h ⊢
        rcases e1 : eval g fuel sk a at_ (lookNot la) tr c with ⟨t1, o1⟩
        rw [e1] at h
        cases o1 with
        | oof => exact (oofC h ho).elim
        | ok c1 p1 => rw [ih.ev _ _ _ _ _ _ _ _ e1 (by simp)]; exact h
        | fail => rw [ih.ev _ _ _ _ _ _ _ _ e1 (by simp)]; exact h
      | and a =>
        rw [eval] at h ⊢
        rcases e1 : eval g fuel sk a at_ (lookAnd la) tr c with ⟨t1, o1⟩
        rw [e1] at h
        cases o1 with
        | oof => exact (oofC h ho).elim
        | ok c1 p1 => rw [ih.ev _ _ _ _ _ _ _ _ e1 (by simp)]; exact h
        | fail => rw [ih.ev _ _ _ _ _ _ _ _ e1 (by simp)]; exact h
      | call r => rw [eval_call] at h ⊢; exact ih.cr _ _ _ _ _ _ _ h ho
    · intro sk at_ la tr c tr' o h ho
      rw [doSkip] at h ⊢
      split
      · rename_i hc
        rw [if_pos hc] at h
        split
        · rename_i e he
          rw [he] at h
          exact ih.ev _ _ _ _ _ _ _ _ h ho
        · rename_i he
          rw [he] at h
          exact h
      · rename_i hc
        rw [if_neg hc] at h
        exact h
    · intro a at_ la tr c tr' o h ho
      rw [starRest] at h ⊢
      rcases e1 : doSkip g fuel true at_ la tr c with ⟨t1, o1⟩
      rw [e1] at h
      cases o1 with
      | oof => exact (oofC h ho).elim
      | fail => rw [ih.sk _ _ _ _ _ _ _ e1 (by simp)]; exact h
      | ok c1 p1 =>
        rw [ih.sk _ _ _ _ _ _ _ e1 (by simp)]
        dsimp only at h ⊢
        rcases e2 : eval g fuel true a at_ la t1 c1 with ⟨t2, o2⟩
        rw [e2] at h
        cases o2 with
        | oof => exact (oofC h ho).elim
        | fail => rw [ih.ev _ _ _ _ _ _ _ _ e2 (by simp)]; exact h
        | ok c2 p2 =>
          rw [ih.ev _ _ _ _ _ _ _ _ e2 (by simp)]
          dsimp only at h ⊢
          rcases e3 : starRest g fuel a at_ la t2 c2 with ⟨t3, o3⟩
          rw [e3] at h
          cases o3 with
          | oof => exact (oofC h ho).elim
          | fail => rw [ih.sr _ _ _ _ _ _ _ e3 (by simp)]; exact h
          | ok c3 p3 => rw [ih.sr _ _ _ _ _ _ _ e3 (by simp)]; exact h
    · intro r at_ la tr c tr' o h ho
      rw [callRule] at h ⊢
      cases hl : g.look r with
      | none => rw [hl] at h; exact h
      | some kb =>
        obtain ⟨kind, body⟩ := kb
        rw [hl] at h
        dsimp only at h ⊢
        have key : ∀ (sk : Bool) (a : Atomicity) (seen : Atomicity),
            ruleWrap r seen la c (eval g fuel sk body a la { tr with steps := tr.steps + 1 } c) = (tr', o) →
            ruleWrap r seen la c (eval g (fuel + 1) sk body a la { tr with steps := tr.steps + 1 } c) = (tr', o) := by
          intro sk a seen hh
          rcases e1 : eval g fuel sk body a la { tr with steps := tr.steps + 1 } c with ⟨t1, o1⟩
          have hne : o1 ≠ .oof := by
            intro e
            subst e
            rw [e1] at hh
            simp only [ruleWrap, Prod.mk.injEq] at hh
            exact ho hh.2.symm
          rw [ih.ev _ _ _ _ _ _ _ _ e1 hne, ← e1]
          exact hh
        cases kind with
        | silent =>
          dsimp only at h ⊢
          split
          · rename_i hs; rw [if_pos hs] at h; exact ih.ev _ _ _ _ _ _ _ _ h ho
          · rename_i hs; rw [if_neg hs] at h; exact ih.ev _ _ _ _ _ _ _ _ h ho
        | normal =>
          dsimp only at h ⊢
          split
          · rename_i hs; rw [if_pos hs] at h; exact key _ _ _ h
          · rename_i hs; rw [if_neg hs] at h; exact key _ _ _ h
        | atomic => exact key _ _ _ h
        | compound => exact key _ _ _ h
        | nonAtomic => exact key _ _ _ h


/-! ### success / failure and the end cursor do not depend on the lookahead state or the trace -/

/-- two results agree up to trace and pairs -/
def Sim (r r' : Tr × Out) : Prop :=
  match r.2, r'.2 with
  | .ok c _, .ok c' _ => c = c'
  | .fail, .fail => True
  | .oof, .oof => True
  | _, _ => False

theorem sim_ruleWrap {r : RuleId} {seen seen' : Atomicity} {la la' : Look} {c : Cur} {x x' : Tr × Out} (h : Sim x x') :
    Sim (ruleWrap r seen la c x) (ruleWrap r seen' la' c x') := by
  rcases x with ⟨t, o⟩
  rcases x' with ⟨t', o'⟩
  cases o <;> cases o' <;> simp_all [Sim, ruleWrap]

structure LookShape (fuel : Nat) : Prop where
  ev : ∀ sk e at_ la la' tr tr' c, Sim (eval g fuel sk e at_ la tr c) (eval g fuel sk e at_ la' tr' c)
  sk : ∀ sk at_ la la' tr tr' c, Sim (doSkip g fuel sk at_ la tr c) (doSkip g fuel sk at_ la' tr' c)
  sr : ∀ a at_ la la' tr tr' c, Sim (starRest g fuel a at_ la tr c) (starRest g fuel a at_ la' tr' c)
  cr : ∀ r at_ la la' tr tr' c, Sim (callRule g fuel r at_ la tr c) (callRule g fuel r at_ la' tr' c)

theorem lookShape : ∀ fuel, LookShape g fuel := by
  intro fuel
  induction fuel with
  | zero =>
    exact ⟨fun _ _ _ _ _ _ _ _ => by simp [eval_zero, Sim], fun _ _ _ _ _ _ _ => by simp [doSkip_zero, Sim],
      fun _ _ _ _ _ _ _ => by simp [starRest_zero, Sim], fun _ _ _ _ _ _ _ => by simp [callRule_zero, Sim]⟩
  | succ fuel ih =>
    refine ⟨?_, ?_, ?_, ?_⟩
    · intro sk e at_ la la' tr tr' c
      cases e with
      | str s => simp only [eval]; split <;> simp [Sim]
      | insens s => simp only [eval]; split <;> simp [Sim]
      | range lo hi => simp only [eval]; split <;> (try split) <;> simp [Sim]
      | any => simp only [eval]; split <;> simp [Sim]
      | soi => simp only [eval]; split <;> simp [Sim]
      | eoi => simp only [eval]; split <;> simp [Sim]
      | seq a b =>
        rw [eval, eval]
        have h1 := ih.ev sk a at_ la la' tr tr' c
        rcases e1 : eval g fuel sk a at_ la tr c with ⟨t1, o1⟩
        rcases e1' : eval g fuel sk a at_ la' tr' c with ⟨t1', o1'⟩
        rw [e1, e1'] at h1
        cases o1 <;> cases o1' <;> simp only [Sim] at h1 ⊢ <;> try trivial
        subst h1
        rename_i c1 p1 p1'
        have h2 := ih.sk sk at_ la la' t1 t1' c1
        rcases e2 : doSkip g fuel sk at_ la t1 c1 with ⟨t2, o2⟩
        rcases e2' : doSkip g fuel sk at_ la' t1' c1 with ⟨t2', o2'⟩
        rw [e2, e2'] at h2
        cases o2 <;> cases o2' <;> simp only [Sim] at h2 ⊢ <;> try trivial
        subst h2
        rename_i c2 p2 p2'
        have h3 := ih.ev sk b at_ la la' t2 t2' c2
        rcases e3 : eval g fuel sk b at_ la t2 c2 with ⟨t3, o3⟩
        rcases e3' : eval g fuel sk b at_ la' t2' c2 with ⟨t3', o3'⟩
        rw [e3, e3'] at h3
        cases o3 <;> cases o3' <;> simp only [Sim] at h3 ⊢ <;> trivial
      | choice a b =>
        rw [eval, eval]
        have h1 := ih.ev sk a at_ la la' tr tr' c
        rcases e1 : eval g fuel sk a at_ la tr c with ⟨t1, o1⟩
        rcases e1' : eval g fuel sk a at_ la' tr' c with ⟨t1', o1'⟩
        rw [e1, e1'] at h1
        cases o1 <;> cases o1' <;> simp only [Sim] at h1 ⊢ <;> try trivial
        exact ih.ev sk b at_ la la' t1 t1' c
      | opt a =>
        rw [eval, eval]
        have h1 := ih.ev sk a at_ la la' tr tr' c
        rcases e1 : eval g fuel sk a at_ la tr c with ⟨t1, o1⟩
        rcases e1' : eval g fuel sk a at_ la' tr' c with ⟨t1', o1'⟩
        rw [e1, e1'] at h1
        cases o1 <;> cases o1' <;> simp only [Sim] at h1 ⊢ <;> trivial
      | star a =>
        cases sk with
        | true =>
          rw [eval, eval]
          simp only [if_true]
          have h1 := ih.ev true a at_ la la' tr tr' c
          rcases e1 : eval g fuel true a at_ la tr c with ⟨t1, o1⟩
          rcases e1' : eval g fuel true a at_ la' tr' c with ⟨t1', o1'⟩
          rw [e1, e1'] at h1
          cases o1 <;> cases o1' <;> simp only [Sim] at h1 ⊢ <;> try trivial
          subst h1
          rename_i c1 p1 p1'
          have h2 := ih.sr a at_ la la' t1 t1' c1
          rcases e2 : starRest g fuel a at_ la t1 c1 with ⟨t2, o2⟩
          rcases e2' : starRest g fuel a at_ la' t1' c1 with ⟨t2', o2'⟩
          rw [e2, e2'] at h2
          cases o2 <;> cases o2' <;> simp only [Sim] at h2 ⊢ <;> trivial
        | false =>
          rw [eval, eval]
          simp only [Bool.false_eq_true, if_false]
          have h1 := ih.ev false a at_ la la' tr tr' c
          rcases e1 : eval g fuel false a at_ la tr c with ⟨t1, o1⟩
          rcases e1' : eval g fuel false a at_ la' tr' c with ⟨t1', o1'⟩
          rw [e1, e1'] at h1
          cases o1 <;> cases o1' <;> simp only [Sim] at h1 ⊢ <;> try trivial
          subst h1
          rename_i c1 p1 p1'
          have h2 := ih.ev false (.star a) at_ la la' t1 t1' c1
          rcases e2 : eval g fuel false (.star a) at_ la t1 c1 with ⟨t2, o2⟩
          rcases e2' : eval g fuel false (.star a) at_ la' t1' c1 with ⟨t2', o2'⟩
          rw [e2, e2'] at h2
          cases o2 <;> cases o2' <;> simp only [Sim] at h2 ⊢ <;> trivial
      | plus a => rw [eval_plus, eval_plus]; exact ih.ev _ _ _ _ _ _ _ _
      | rep n a => rw [eval_rep, eval_rep]; exact ih.ev _ _ _ _ _ _ _ _
      | not a =>
        rw [eval, eval]
        have h1 := ih.ev sk a at_ (lookNot la) (lookNot la') tr tr' c
        rcases e1 : eval g fuel sk a at_ (lookNot la) tr c with ⟨t1, o1⟩
        rcases e1' : eval g fuel sk a at_ (lookNot la') tr' c with ⟨t1', o1'⟩
        rw [e1, e1'] at h1
        cases o1 <;> cases o1' <;> simp only [Sim] at h1 ⊢ <;> trivial
      | and a =>
        rw [eval, eval]
        have h1 := ih.ev sk a at_ (lookAnd la) (lookAnd la') tr tr' c
        rcases e1 : eval g fuel sk a at_ (lookAnd la) tr c with ⟨t1, o1⟩
        rcases e1' : eval g fuel sk a at_ (lookAnd la') tr' c with ⟨t1', o1'⟩
        rw [e1, e1'] at h1
        cases o1 <;> cases o1' <;> simp only [Sim] at h1 ⊢ <;> trivial
      | call r => rw [eval_call, eval_call]; exact ih.cr _ _ _ _ _ _ _
    · intro sk at_ la la' tr tr' c
      rw [doSkip, doSkip]
      split
      · split
        · exact ih.ev _ _ _ _ _ _ _ _
        · simp [Sim]
      · simp [Sim]
    · intro a at_ la la' tr tr' c
      rw [starRest, starRest]
      have h1 := ih.sk true at_ la la' tr tr' c
      rcases e1 : doSkip g fuel true at_ la tr c with ⟨t1, o1⟩
      rcases e1' : doSkip g fuel true at_ la' tr' c with ⟨t1', o1'⟩
      rw [e1, e1'] at h1
      cases o1 <;> cases o1' <;> simp only [Sim] at h1 ⊢ <;> try trivial
      subst h1
      rename_i c1 p1 p1'
      have h2 := ih.ev true a at_ la la' t1 t1' c1
      rcases e2 : eval g fuel true a at_ la t1 c1 with ⟨t2, o2⟩
      rcases e2' : eval g fuel true a at_ la' t1' c1 with ⟨t2', o2'⟩
      rw [e2, e2'] at h2
      cases o2 <;> cases o2' <;> simp only [Sim] at h2 ⊢ <;> try trivial
      subst h2
      rename_i c2 p2 p2'
      have h3 := ih.sr a at_ la la' t2 t2' c2
      rcases e3 : starRest g fuel a at_ la t2 c2 with ⟨t3, o3⟩
      rcases e3' : starRest g fuel a at_ la' t2' c2 with ⟨t3', o3'⟩
      rw [e3, e3'] at h3
      cases o3 <;> cases o3' <;> simp only [Sim] at h3 ⊢ <;> trivial
    · intro r at_ la la' tr tr' c
      rw [callRule, callRule]
      cases hl : g.look r with
      | none => simp [Sim]
      | some kb =>
        obtain ⟨kind, body⟩ := kb
        dsimp only
        cases kind with
        | silent =>
          dsimp only
          split
          · exact ih.ev _ _ _ _ _ _ _ _
          · exact ih.ev _ _ _ _ _ _ _ _
        | normal =>
          dsimp only
          split
          · exact sim_ruleWrap (ih.ev _ _ _ _ _ _ _ _)
          · exact sim_ruleWrap (ih.ev _ _ _ _ _ _ _ _)
        | atomic => exact sim_ruleWrap (ih.ev _ _ _ _ _ _ _ _)
        | compound => exact sim_ruleWrap (ih.ev _ _ _ _ _ _ _ _)
        | nonAtomic => exact sim_ruleWrap (ih.ev _ _ _ _ _ _ _ _)


/-! ### consequences for the forward calculus -/

variable {g}

theorem eval_mono_le {f sk e at_ la tr c tr' o} (h : eval g f sk e at_ la tr c = (tr', o)) (ho : o ≠ .oof) :
    ∀ f', f ≤ f' → eval g f' sk e at_ la tr c = (tr', o) := by
  intro f' hf
  induction f' with
  | zero =>
    have : f = 0 := by omega
    subst this; exact h
  | succ k ih =>
    by_cases hk : f ≤ k
    · exact (fuelMono g k).ev _ _ _ _ _ _ _ _ (ih hk) ho
    · have : f = k + 1 := by omega
      subst this; exact h

theorem callRule_mono_le {f r at_ la tr c tr' o} (h : callRule g f r at_ la tr c = (tr', o)) (ho : o ≠ .oof) :
    ∀ f', f ≤ f' → callRule g f' r at_ la tr c = (tr', o) := by
  intro f' hf
  induction f' with
  | zero =>
    have : f = 0 := by omega
    subst this; exact h
  | succ k ih =>
    by_cases hk : f ≤ k
    · exact (fuelMono g k).cr _ _ _ _ _ _ _ (ih hk) ho
    · have : f = k + 1 := by omega
      subst this; exact h

theorem doSkip_mono_le {f sk at_ la tr c tr' o} (h : doSkip g f sk at_ la tr c = (tr', o)) (ho : o ≠ .oof) :
    ∀ f', f ≤ f' → doSkip g f' sk at_ la tr c = (tr', o) := by
  intro f' hf
  induction f' with
  | zero =>
    have : f = 0 := by omega
    subst this; exact h
  | succ k ih =>
    by_cases hk : f ≤ k
    · exact (fuelMono g k).sk _ _ _ _ _ _ _ (ih hk) ho
    · have : f = k + 1 := by omega
      subst this; exact h

/-- a run outside (or under any) lookahead also runs under every lookahead state `la' ≠ .none`, without pairs -/
theorem RunsL.look {la la' n sk e at_ c c' ps} (h : RunsL g la n sk e at_ c c' ps) (hla : la' ≠ .none) :
    RunsL g la' n sk e at_ c c' [] := by
  intro tr
  obtain ⟨t0, h0⟩ := h tr
  have h1 := h0 n (Nat.le_refl _)
  have hs := (lookShape g n).ev sk e at_ la la' tr tr c
  rw [h1] at hs
  rcases e1 : eval g n sk e at_ la' tr c with ⟨t1, o1⟩
  rw [e1] at hs
  cases o1 with
  | ok c1 p1 =>
    simp only [Sim] at hs
    subst hs
    have := (noPairs g n).ev _ _ _ _ _ _ _ _ _ hla e1
    subst this
    exact ⟨t1, fun f hf => eval_mono_le e1 (by simp) f hf⟩
  | fail => simp [Sim] at hs
  | oof => simp [Sim] at hs

/-- … and a failure is a failure under every lookahead state -/
theorem FailsL.look {la n sk e at_ c} (h : FailsL g la n sk e at_ c) (la' : Look) : FailsL g la' n sk e at_ c := by
  intro tr
  obtain ⟨t0, h0⟩ := h tr
  have h1 := h0 n (Nat.le_refl _)
  have hs := (lookShape g n).ev sk e at_ la la' tr tr c
  rw [h1] at hs
  rcases e1 : eval g n sk e at_ la' tr c with ⟨t1, o1⟩
  rw [e1] at hs
  cases o1 with
  | ok c1 p1 => simp [Sim] at hs
  | fail => exact ⟨t1, fun f hf => eval_mono_le e1 (by simp) f hf⟩
  | oof => simp [Sim] at hs

theorem RunsRuleL.look {la la' n r at_ c c' ps} (h : RunsRuleL g la n r at_ c c' ps) (hla : la' ≠ .none) :
    RunsRuleL g la' n r at_ c c' [] := by
  intro tr
  obtain ⟨t0, h0⟩ := h tr
  have h1 := h0 n (Nat.le_refl _)
  have hs := (lookShape g n).cr r at_ la la' tr tr c
  rw [h1] at hs
  rcases e1 : callRule g n r at_ la' tr c with ⟨t1, o1⟩
  rw [e1] at hs
  cases o1 with
  | ok c1 p1 =>
    simp only [Sim] at hs
    subst hs
    have := (noPairs g n).cr _ _ _ _ _ _ _ _ hla e1
    subst this
    exact ⟨t1, fun f hf => callRule_mono_le e1 (by simp) f hf⟩
  | fail => simp [Sim] at hs
  | oof => simp [Sim] at hs

theorem FailsRuleL.look {la n r at_ c} (h : FailsRuleL g la n r at_ c) (la' : Look) : FailsRuleL g la' n r at_ c := by
  intro tr
  obtain ⟨t0, h0⟩ := h tr
  have h1 := h0 n (Nat.le_refl _)
  have hs := (lookShape g n).cr r at_ la la' tr tr c
  rw [h1] at hs
  rcases e1 : callRule g n r at_ la' tr c with ⟨t1, o1⟩
  rw [e1] at hs
  cases o1 with
  | ok c1 p1 => simp [Sim] at hs
  | fail => exact ⟨t1, fun f hf => callRule_mono_le e1 (by simp) f hf⟩
  | oof => simp [Sim] at hs

theorem Runs.look {la' n sk e at_ c c' ps} (h : Runs g n sk e at_ c c' ps) (hla : la' ≠ .none) :
    RunsL g la' n sk e at_ c c' [] := RunsL.look (la := .none) h hla
theorem Fails.look {n sk e at_ c} (h : Fails g n sk e at_ c) (la' : Look) : FailsL g la' n sk e at_ c :=
  FailsL.look (la := .none) h la'
theorem RunsRule.look {la' n r at_ c c' ps} (h : RunsRule g n r at_ c c' ps) (hla : la' ≠ .none) :
    RunsRuleL g la' n r at_ c c' [] := RunsRuleL.look (la := .none) h hla
theorem FailsRule.look {n r at_ c} (h : FailsRule g n r at_ c) (la' : Look) : FailsRuleL g la' n r at_ c :=
  FailsRuleL.look (la := .none) h la'

end NitroVerif.Peg
