import NitroVerif.Lemmas.GqlPrintOwnFitsTs
import NitroVerif.Lemmas.GqlPrintOwnFlatLead
/-!
C16 over nitrogql's own parser: the printed TEXT of a document is a C07 rendering — glue of `own_render` (generic theorem),
the flat forms of C07's renderings and the `Fits` walk over the printing functions.
-/
namespace NitroVerif.C16Own
open NitroVerif.Gql NitroVerif.GqlPrint NitroVerif.ValueParse NitroVerif.DocParse NitroVerif.TypeParse NitroVerif.StringParse

/-- every string the printer writes for the token list is one for which `print_string` writes C07's `specEscape` form -/
def strsQ (ts : List Tok) : Bool := ts.all tokQ

theorem strsQ_mem {ts : List Tok} (h : strsQ ts = true) : ∀ t ∈ ts, tokQ t = true := List.all_eq_true.mp h

/-- executable documents: the printed text (after any prefix of layout characters) is C07's rendering of the document
    under the trivia read off the text, without the `{ … }` shorthand -/
theorem own_text_exec (doc : List ExecDef) (hwf : ∀ d ∈ doc, WFDef d) (hq : strsQ (printDoc doc) = true)
    (pre0 : List Char) (hpre : ∀ x ∈ pre0, isGapC x = true) :
    rDoc (gaps (pre0 ++ text (printDoc doc))) noSh doc = pre0 ++ text (printDoc doc) := by
  rw [flat_doc]
  exact own_render _ _ pre0 hpre (fits_doc doc hwf) (strsQ_mem hq)

/-- type-system documents, in the printer's form (leading separators written) -/
theorem own_text_ts_lead (doc : List TsItem) (hwf : ∀ d ∈ doc, WFTsItem d) (hok : ∀ d ∈ doc, itemOK d = true)
    (hq : strsQ (printTsDoc doc) = true) (pre0 : List Char) (hpre : ∀ x ∈ pre0, isGapC x = true) :
    gaps (pre0 ++ text (printTsDoc doc)) 0 ++
      rToks (gaps (pre0 ++ text (printTsDoc doc))) (gaps (pre0 ++ text (printTsDoc doc)) 0).length (cTsDoc true doc) =
    pre0 ++ text (printTsDoc doc) :=
  own_render _ _ pre0 hpre (fits_tsDoc doc hwf hok) (strsQ_mem hq)

theorem own_text_tsext_lead (doc : List TsItem) (hwf : ∀ d ∈ doc, WFTsItem d) (hok : ∀ d ∈ doc, itemOK d = true)
    (hq : strsQ (printTsExtDoc doc) = true) (pre0 : List Char) (hpre : ∀ x ∈ pre0, isGapC x = true) :
    gaps (pre0 ++ text (printTsExtDoc doc)) 0 ++
      rToks (gaps (pre0 ++ text (printTsExtDoc doc))) (gaps (pre0 ++ text (printTsExtDoc doc)) 0).length (cTsDoc true doc) =
    pre0 ++ text (printTsExtDoc doc) :=
  own_render _ _ pre0 hpre (fits_tsExtDoc doc hwf hok) (strsQ_mem hq)

/-! ### items without a list that takes a leading separator -/

/-- no `implements` list, no union member list, no directive-location list (where C07's renderings and the printer differ
    by the optional leading `&` / `|`) -/
def noLeadItem : TsItem → Bool
  | .typeDef t => t.implements.isEmpty && t.members.isEmpty
  | .typeExt t => t.implements.isEmpty && t.members.isEmpty
  | .directiveDef d => d.locations.isEmpty
  | _ => true

theorem cNamesLd_nil (lead : Bool) (c : Char) (sep : Bool) : cNamesLd lead c sep [] = [] := rfl

theorem cTsItem_noLead (it : TsItem) (h : noLeadItem it = true) (sep : Bool) : cTsItem true sep it = cTsItem false sep it := by
  cases it with
  | typeDef t =>
    simp only [noLeadItem, Bool.and_eq_true, List.isEmpty_iff] at h
    simp only [cTsItem, cTypeDefAny, cObjDef, cUnionDef, h.1, h.2, cOptImpl, cNamesLd_nil]
  | typeExt t =>
    simp only [noLeadItem, Bool.and_eq_true, List.isEmpty_iff] at h
    simp only [cTsItem, cTypeExtAny, cObjExt, cUnionExt, cUnionExtM, h.1, h.2, cOptImpl, cNamesLd_nil]
  | directiveDef d =>
    simp only [noLeadItem, List.isEmpty_iff] at h
    simp only [cTsItem, cDirectiveDef, locNames, h, List.map_nil, cNamesLd_nil]
  | schemaDef s => rfl
  | schemaExt s => rfl

theorem cTsDoc_noLead : ∀ (doc : List TsItem), (∀ d ∈ doc, noLeadItem d = true) → cTsDoc true doc = cTsDoc false doc := by
  intro doc
  induction doc with
  | nil => intro _; rfl
  | cons d ds ih =>
    intro h
    have ih' := ih fun x hx => h x (by simp [hx])
    simp only [cTsDoc, cList] at ih' ⊢
    rw [cTsItem_noLead d (h d (by simp)), ih']

/-- type-system documents without such lists: the printed text IS C07's rendering `rTsDoc` -/
theorem own_text_ts_noLead (doc : List TsItem) (hwf : ∀ d ∈ doc, WFTsItem d) (hok : ∀ d ∈ doc, itemOK d = true)
    (hnl : ∀ d ∈ doc, noLeadItem d = true) (hq : strsQ (printTsDoc doc) = true) (pre0 : List Char)
    (hpre : ∀ x ∈ pre0, isGapC x = true) :
    rTsDoc (gaps (pre0 ++ text (printTsDoc doc))) doc = pre0 ++ text (printTsDoc doc) := by
  rw [flat_tsDoc, ← cTsDoc_noLead doc hnl]
  exact own_text_ts_lead doc hwf hok hq pre0 hpre

theorem own_text_tsext_noLead (doc : List TsItem) (hwf : ∀ d ∈ doc, WFTsItem d) (hok : ∀ d ∈ doc, itemOK d = true)
    (hnl : ∀ d ∈ doc, noLeadItem d = true) (hq : strsQ (printTsExtDoc doc) = true) (pre0 : List Char)
    (hpre : ∀ x ∈ pre0, isGapC x = true) :
    rTsDoc (gaps (pre0 ++ text (printTsExtDoc doc))) doc = pre0 ++ text (printTsExtDoc doc) := by
  rw [flat_tsDoc, ← cTsDoc_noLead doc hnl]
  exact own_text_tsext_lead doc hwf hok hq pre0 hpre

/-! ### the general case: renderings with leading separators (`NitroVerif.DocParseL`) -/

/-- type-system documents: the printed text (after any prefix of layout characters) is the rendering WITH leading
    separators of the document under the trivia read off the text -/
theorem own_text_ts (doc : List TsItem) (hwf : ∀ d ∈ doc, WFTsItem d) (hok : ∀ d ∈ doc, itemOK d = true)
    (hq : strsQ (printTsDoc doc) = true) (pre0 : List Char) (hpre : ∀ x ∈ pre0, isGapC x = true) :
    DocParseL.rTsDoc (gaps (pre0 ++ text (printTsDoc doc))) doc = pre0 ++ text (printTsDoc doc) := by
  rw [flatL_tsDoc]
  exact own_text_ts_lead doc hwf hok hq pre0 hpre

theorem own_text_tsext (doc : List TsItem) (hwf : ∀ d ∈ doc, WFTsItem d) (hok : ∀ d ∈ doc, itemOK d = true)
    (hq : strsQ (printTsExtDoc doc) = true) (pre0 : List Char) (hpre : ∀ x ∈ pre0, isGapC x = true) :
    DocParseL.rTsDoc (gaps (pre0 ++ text (printTsExtDoc doc))) doc = pre0 ++ text (printTsExtDoc doc) := by
  rw [flatL_tsDoc]
  exact own_text_tsext_lead doc hwf hok hq pre0 hpre

/-- the parser model on a rendering with leading separators: the document, up to positions -/
theorem parseTs_lead_erase (τ : Trivia) (hτ : ∀ q, Ws (τ q)) (doc : List TsItem) (hne : doc ≠ [])
    (hwf : ∀ d ∈ doc, WFTsItem d) (hn : ∀ d ∈ doc, NormalItem d) :
    ∃ A, Build.parseTs (DocParseL.rTsDoc τ doc) = .ok A ∧ GqlTokens.eraseTsDoc A = GqlTokens.eraseTsDoc doc :=
  ⟨_, DocParseL.parseTs_rTsDoc τ hτ doc hne hwf, DocParseL.tsErase_wpTsDoc τ _ doc hn⟩

/-- every name / number / variable token the printer writes for a well-formed document is a safe chunk for the template
    writer (the hypothesis of C16's template layer) -/
theorem nameOK_tsDoc (doc : List TsItem) (hwf : ∀ d ∈ doc, WFTsItem d) (hok : ∀ d ∈ doc, itemOK d = true) :
    ∀ t ∈ printTsDoc doc, t.nameOK = true :=
  nameOK_of_fits _ _ (fits_tsDoc doc hwf hok)

end NitroVerif.C16Own
