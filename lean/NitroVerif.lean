import NitroVerif.Base.Sexp
