#!/usr/bin/env python3
"""
parts_patterns.py — extract the positional child patterns of the pair → AST builders
(/repo/crates/parser/src/parser/builder.rs and builder/**.rs) into lean/NitroVerif/Gen/Parts.lean.

Every occurrence of
    parts!(pair, A, B opt, …)      positional matcher (required / optional items, left to right)
    x.only_child()                 exactly one child; if a `match y.as_rule() { Rule::A => … rule => panic!(…) }`
                                   follows, the arms are the allowed rules of the child
    x.all_children(Rule::R)        every child is R
    x.into_inner()                 hand-rolled loops (documents' filter, import targets, ImplementsInterfaces,
                                   string characters)
in a builder function is listed with the rule of the pair it is applied to (the SUBJECT). The macro arguments,
the `all_children` rule and the `match` arms are read from the source; the subject of each occurrence is not
written in the source (it is the rule of whatever pair flows there), so it comes from the CONTEXT table below:
per function, the ordered list of occurrences this script expects. An occurrence that is not in the table, a
table row without an occurrence, a kind mismatch, a missing witness text or a missing `match` makes the script
fail (exit 1): the builders changed in a way the model does not know.

Output: `Gen/Parts.lean` — `builderTable : List Entry` (subject ↦ pattern, with the source site) and one named
definition per pattern (`P_<Subject> : List Item`, `OC_<Subject> : List RuleId`, `AC_<Subject> : RuleId`) that the
Lean builders (`Model/Build.lean`) USE, so the model's matchers are the extracted ones by construction.
"""
import os
import re
import sys

BASE = os.environ.get("NV_PARSER_DIR", "/repo/crates/parser/src/parser")
ROOT = os.path.dirname(os.path.dirname(os.path.abspath(__file__)))
OUT = os.path.join(ROOT, "lean", "NitroVerif", "Gen", "Parts.lean")
GRAMMAR_LEAN = os.path.join(ROOT, "lean", "NitroVerif", "Gen", "Grammar.lean")


class Fail(Exception):
    pass


ANY = None
MATCH = "match"

# (kind, subject, extra, witness-regex or None)
#   parts:       extra unused
#   only_child:  extra = MATCH (arms of the next `match ….as_rule()` after the occurrence)
#                      | ("match_fn", fn)  (arms of the first such match in function fn)
#                      | [rules]  (what the callee that receives the child requires; needs a witness)
#                      | ANY      (the child is only read as text / position)
#   all_children: extra unused (rule read from the source)
#   into_inner:  extra = ("any",) | ("all", R) | ("head", H, R)
CONTEXT = {
    "builder.rs": {
        "build_operation_document": [
            ("into_inner", "ExecutableDocument", ("any",), r"filter\(\|pair\| pair\.is_rule\(Rule::ExecutableDefinition\)\)"),
        ],
        "build_type_system_or_extension_document": [
            ("into_inner", "TypeSystemExtensionDocument", ("any",), r"filter\(\|pair\| pair\.is_rule\(Rule::TypeSystemDefinitionOrExtension\)\)"),
        ],
    },
    "builder/base.rs": {
        "build_variable": [("only_child", "Variable", ANY, r"name\.as_str\(\)")],
    },
    "builder/directives.rs": {
        "build_directives": [("all_children", "Directives", None, None), ("parts", "Directive", None, None)],
    },
    "builder/operation.rs": {
        "build_variables_definition": [("all_children", "VariablesDefinition", None, None)],
        "build_variable_definition": [
            ("parts", "VariableDefinition", None, None),
            ("only_child", "DefaultValue", ["Value"], r"build_value\(child\)"),
        ],
        "build_executable_definition": [
            ("only_child", "ExecutableDefinition", MATCH, None),
            ("parts", "OperationDefinition", None, None),
            ("parts", "FragmentDefinition", None, None),
            ("parts", "TypeCondition", None, None),
            ("only_child", "ext_ImportStatement", ["ext_ImportStatementContent"], r"// pair becomes ext_ImportStatementContent"),
            ("parts", "ext_ImportStatementContent", None, None),
            ("into_inner", "ext_ImportTargets", ("any",), r"if pair\.is_rule\(Rule::Name\)"),
        ],
    },
    "builder/selection_set.rs": {
        "build_selection_set": [("all_children", "SelectionSet", None, None), ("only_child", "Selection", MATCH, None)],
        "build_field": [("parts", "Field", None, None), ("only_child", "Alias", ANY, r"name_pair\.to_ident\(\)")],
        "build_fragment_spread": [("parts", "FragmentSpread", None, None)],
        "build_inline_fragment": [("parts", "InlineFragment", None, None), ("parts", "TypeCondition", None, None)],
    },
    "builder/type.rs": {
        "build_type": [("only_child", "Type", ("match_fn", "build_type_of"), r"build_type_of\(pair\.only_child\(\)\)")],
        "build_type_of": [
            ("only_child", "NonNullType", MATCH, None),
            ("only_child", "ListType", ["Type"], r"build_type\(child\)"),
            ("only_child", "NamedType", ANY, r"pair\.only_child\(\)\.to_ident\(\)"),
        ],
    },
    "builder/value.rs": {
        "build_value": [
            ("only_child", "Value", MATCH, None),
            ("only_child", "BooleanValue", MATCH, None),
            ("all_children", "ListValue", None, None),
            ("all_children", "ObjectValue", None, None),
            ("parts", "ObjectField", None, None),
        ],
        "build_arguments": [("all_children", "Arguments", None, None), ("parts", "Argument", None, None)],
        "build_string_value": [
            ("only_child", "StringValue", MATCH, None),
            ("into_inner", "NormalStringValue", ("all", "StringCharacter"),
             r"let mut characters = pair\.into_inner\(\)\.map\(\|pair\| pair\.only_child\(\)\)\.peekable\(\)"),
            ("only_child", "StringCharacter", MATCH, None),
            ("only_child", "EscapedUnicodeBrace", ANY, r"from_str_radix\(pair\.as_str\(\), 16\)"),
        ],
    },
    "builder/type_system/mod.rs": {
        "build_type_system_definition_or_extension": [
            ("only_child", "TypeSystemDefinitionOrExtension", MATCH, None),
            ("only_child", "TypeSystemDefinition", MATCH, None),
            ("only_child", "TypeSystemExtension", MATCH, None),
        ],
        "build_schema_definition": [("parts", "SchemaDefinition", None, None)],
        "build_directive_definition": [("parts", "DirectiveDefinition", None, None), ("all_children", "DirectiveLocations", None, None)],
        "build_schema_extension": [("parts", "SchemaExtension", None, None)],
        "build_root_operation_type_definitions": [
            ("all_children", "RootOperationTypeDefinitions", None, None),
            ("parts", "RootOperationTypeDefinition", None, None),
        ],
        "build_description": [("only_child", "Description", ["StringValue"], r"pair\.as_rule\(\) != Rule::StringValue")],
    },
    "builder/type_system/type_definition.rs": {
        "build_type_definition": [("only_child", "TypeDefinition", MATCH, None)],
        "build_scalar_type_definition": [("parts", "ScalarTypeDefinition", None, None)],
        "build_object_type_definition": [("parts", "ObjectTypeDefinition", None, None)],
        "build_interface_type_definition": [("parts", "InterfaceTypeDefinition", None, None)],
        "build_union_type_definition": [("parts", "UnionTypeDefinition", None, None), ("all_children", "UnionMemberTypes", None, None)],
        "build_enum_type_definition": [("parts", "EnumTypeDefinition", None, None), ("all_children", "EnumValuesDefinition", None, None)],
        "build_input_object_type_definition": [("parts", "InputObjectTypeDefinition", None, None)],
        "build_implements_interfaces": [
            ("into_inner", "ImplementsInterfaces", ("head", "KEYWORD_implements", "NamedType"),
             r"first_pair\.as_rule\(\) != Rule::KEYWORD_implements[\s\S]*pair\.as_rule\(\) != Rule::NamedType"),
        ],
        "build_fields_definition": [("all_children", "FieldsDefinition", None, None), ("parts", "FieldDefinition", None, None)],
        "build_arguments_definition": [
            ("all_children", "ArgumentsDefinition", None, None),
            ("parts", "InputValueDefinition", None, None),
            ("only_child", "DefaultValue", ["Value"], r"build_value\(child\)"),
        ],
        "build_enum_value_definition": [("parts", "EnumValueDefinition", None, None)],
        "build_input_fields_definition": [
            ("all_children", "InputFieldsDefinition", None, None),
            ("parts", "InputValueDefinition", None, None),
            ("only_child", "DefaultValue", ["Value"], r"build_value\(pair\.only_child\(\)\)"),
        ],
    },
    "builder/type_system/type_extension.rs": {
        "build_type_extension": [("only_child", "TypeExtension", MATCH, None)],
        "build_scalar_type_extension": [("parts", "ScalarTypeExtension", None, None)],
        "build_object_type_extension": [("parts", "ObjectTypeExtension", None, None)],
        "build_interface_type_extension": [("parts", "InterfaceTypeExtension", None, None)],
        "build_union_type_extension": [("parts", "UnionTypeExtension", None, None), ("all_children", "UnionMemberTypes", None, None)],
        "build_enum_type_extension": [("parts", "EnumTypeExtension", None, None), ("all_children", "EnumValuesDefinition", None, None)],
        "build_input_object_type_extension": [("parts", "InputObjectTypeExtension", None, None)],
    },
}
# files that must contain no occurrence at all outside macros/trait definitions
IGNORED_FILES = {"builder/utils.rs"}


def strip_comments(text):
    """blank out // comments and string literals' contents are kept (they never contain our patterns)"""
    out = list(text)
    i, n = 0, len(text)
    while i < n:
        if text.startswith("//", i):
            while i < n and text[i] != "\n":
                out[i] = " "
                i += 1
        elif skip_literal(text, i) is not None:
            i = skip_literal(text, i) + 1
        else:
            i += 1
    return "".join(out)


CHAR_LIT = re.compile(r"'(\\u\{[0-9a-fA-F]+\}|\\.|[^'\\])'")


def skip_literal(text, i):
    """if a string or character literal starts at i, return the index of its last character, else None"""
    c = text[i]
    if c == '"':
        i += 1
        while i < len(text) and text[i] != '"':
            i += 2 if text[i] == "\\" else 1
        return i
    if c == "'":
        m = CHAR_LIT.match(text, i)
        if m:
            return m.end() - 1
    return None


def close_of(text, i, open_c, close_c):
    """index of the bracket closing the one at i (strings skipped)"""
    depth, n = 0, len(text)
    while i < n:
        c = text[i]
        lit = skip_literal(text, i)
        if lit is not None:
            i = lit
        elif c == open_c:
            depth += 1
        elif c == close_c:
            depth -= 1
            if depth == 0:
                return i
        i += 1
    raise Fail("unbalanced brackets")


def functions(text):
    """[(name, body_start, body_end)] for every fn (nested ones too)"""
    res = []
    for m in re.finditer(r"\bfn\s+(\w+)\s*(?:<[^>]*>)?\s*\(", text):
        j = close_of(text, m.end() - 1, "(", ")")
        k = text.find("{", j)
        semi = text.find(";", j)
        if k < 0 or (0 <= semi < k):
            continue  # declaration without body (trait)
        res.append((m.group(1), k, close_of(text, k, "{", "}")))
    return res


OCC = re.compile(r"parts!\s*\(|\.only_child\(\)|\.all_children\(\s*Rule::(\w+)\s*\)|\.into_inner\(\)")


def match_arms(text, start, end):
    """rules named in the arms (at depth 0) of the first `match x.as_rule() {` in text[start:end]"""
    m = re.compile(r"match\s+[\w.]+\.as_rule\(\)\s*\{").search(text, start, end)
    if not m:
        raise Fail("no `match ….as_rule()` follows")
    open_i = m.end() - 1
    close_i = close_of(text, open_i, "{", "}")
    body = text[open_i + 1:close_i]
    rules, depth, i, has_default = [], 0, 0, False
    arm = re.compile(r"\s*((?:Rule::\w+\s*\|?\s*)+)=>")
    dflt = re.compile(r"\s*(\w+)\s*=>\s*panic!")
    at_arm_start = True
    while i < len(body):
        c = body[i]
        if at_arm_start and depth == 0:
            mm = arm.match(body, i)
            if mm:
                rules += re.findall(r"Rule::(\w+)", mm.group(1))
                i = mm.end()
                at_arm_start = False
                continue
            md = dflt.match(body, i)
            if md:
                has_default = True
                i = md.end()
                at_arm_start = False
                continue
            if not c.isspace():
                at_arm_start = False
        lit = skip_literal(body, i)
        if lit is not None:
            i = lit
        elif c in "({[":
            depth += 1
        elif c in ")}]":
            depth -= 1
            if depth == 0 and c == "}":
                at_arm_start = True  # block arm ended (a comma may follow)
        elif c == "," and depth == 0:
            at_arm_start = True
        i += 1
    if not has_default:
        raise Fail("the match has no `rule => panic!(…)` arm (not the dispatch this script expects)")
    if not rules:
        raise Fail("no Rule:: arm found")
    return rules


def parts_items(text, open_i):
    close_i = close_of(text, open_i, "(", ")")
    args = [a.strip() for a in text[open_i + 1:close_i].split(",")]
    if len(args) < 2 or not re.fullmatch(r"\w+", args[0]):
        raise Fail("parts! without a pair expression")
    items = []
    for a in args[1:]:
        if a == "":
            continue
        m = re.fullmatch(r"(\w+)(\s+opt)?", a)
        if not m:
            raise Fail(f"parts! item not understood: {a!r}")
        items.append((m.group(1), bool(m.group(2))))
    if not items:
        raise Fail("parts! without items")
    return items


def main():
    rule_names = re.findall(r"^abbrev («?\w+»?) : RuleId", open(GRAMMAR_LEAN, encoding="utf-8").read(), re.M)
    rule_names = {r.strip("«»") for r in rule_names}
    if not rule_names:
        raise Fail("Gen/Grammar.lean not found or empty (run pest2lean.py first)")

    def need_rule(r, where):
        if r not in rule_names:
            raise Fail(f"{where}: rule {r} is not a rule of the grammar")

    files = ["builder.rs"]
    for d, _, fs in sorted(os.walk(os.path.join(BASE, "builder"))):
        for f in sorted(fs):
            if f.endswith(".rs"):
                files.append(os.path.relpath(os.path.join(d, f), BASE))
    entries = []  # (subject, pattern tuple, site)
    seen_ctx = set()
    for rel in files:
        raw = open(os.path.join(BASE, rel), encoding="utf-8").read()
        text = strip_comments(raw)
        if rel in IGNORED_FILES:
            continue
        fns = functions(text)
        per_fn = {}
        for m in OCC.finditer(text):
            inner = None
            for (name, s, e) in fns:
                if s < m.start() < e and (inner is None or s > inner[1]):
                    inner = (name, s, e)
            if inner is None:
                raise Fail(f"{rel}: pattern outside any function at offset {m.start()}")
            per_fn.setdefault(inner, []).append(m)
        table = CONTEXT.get(rel, {})
        for (name, s, e), occs in sorted(per_fn.items(), key=lambda kv: kv[0][1]):
            if name not in table:
                raise Fail(f"{rel}: function {name} uses parts!/only_child/all_children/into_inner but is not in the CONTEXT table")
            rows = table[name]
            seen_ctx.add((rel, name))
            if len(rows) != len(occs):
                raise Fail(f"{rel}::{name}: {len(occs)} occurrences in the source, {len(rows)} in the CONTEXT table")
            for k, (m, row) in enumerate(zip(occs, rows)):
                kind, subject, extra, witness = row
                line = text.count("\n", 0, m.start()) + 1
                site = f"{rel}:{name}#{k}"
                where = f"{rel}:{line} ({name})"
                need_rule(subject, where)
                src_kind = ("parts" if m.group(0).startswith("parts!") else
                            "only_child" if "only_child" in m.group(0) else
                            "all_children" if "all_children" in m.group(0) else "into_inner")
                if src_kind != kind:
                    raise Fail(f"{where}: occurrence #{k} is {src_kind}, the CONTEXT table expects {kind}")
                if witness and not re.search(witness, raw[s:e]):
                    raise Fail(f"{where}: the text that justifies the table row is gone: /{witness}/")
                if kind == "parts":
                    items = parts_items(text, m.end() - 1)
                    for r, _ in items:
                        need_rule(r, where)
                    entries.append((subject, ("parts", items), site))
                elif kind == "all_children":
                    need_rule(m.group(1), where)
                    entries.append((subject, ("allChildren", m.group(1)), site))
                elif kind == "only_child":
                    if extra == MATCH:
                        try:
                            allowed = match_arms(text, m.end(), e)
                        except Fail as ex:
                            raise Fail(f"{where}: {ex}")
                    elif isinstance(extra, tuple) and extra[0] == "match_fn":
                        tgt = [f for f in fns if f[0] == extra[1]]
                        if not tgt:
                            raise Fail(f"{where}: function {extra[1]} not found")
                        allowed = match_arms(text, tgt[0][1], tgt[0][2])
                    elif extra is ANY:
                        allowed = []
                    else:
                        if not witness:
                            raise Fail(f"{where}: explicit allowed set without witness")
                        allowed = list(extra)
                    for r in allowed:
                        need_rule(r, where)
                    entries.append((subject, ("onlyChild", allowed), site))
                else:
                    if extra[0] == "any":
                        entries.append((subject, ("anyChildren",), site))
                    elif extra[0] == "all":
                        need_rule(extra[1], where)
                        entries.append((subject, ("expectAll", extra[1]), site))
                    elif extra[0] == "head":
                        need_rule(extra[1], where)
                        need_rule(extra[2], where)
                        entries.append((subject, ("headThenAll", extra[1], extra[2]), site))
                    else:
                        raise Fail(f"{where}: bad table row")
    for rel, fns_ in CONTEXT.items():
        for name in fns_:
            if (rel, name) not in seen_ctx:
                raise Fail(f"{rel}: function {name} of the CONTEXT table has no pattern occurrence any more")

    def ident(r):
        return f"R.«{r}»" if r in ("Type",) else f"R.{r}"

    def lean_pat(p):
        if p[0] == "parts":
            return ".parts [" + ", ".join((".opt " if o else ".req ") + ident(r) for r, o in p[1]) + "]"
        if p[0] == "onlyChild":
            return ".onlyChild [" + ", ".join(ident(r) for r in p[1]) + "]"
        if p[0] == "allChildren":
            return f".allChildren {ident(p[1])}"
        if p[0] == "expectAll":
            return f".allChildren {ident(p[1])}"
        if p[0] == "headThenAll":
            return f".headThenAll {ident(p[1])} {ident(p[2])}"
        return ".anyChildren"

    out = ["/-",
           "GENERATED by translate/parts_patterns.py from crates/parser/src/parser/builder.rs and builder/**.rs — do not edit.",
           "`builderTable`: for every place where a builder takes a pair apart, the rule of that pair (subject) and the",
           "positional pattern the Rust code applies to its children; `site` = file:function#ordinal.",
           "The named definitions below are what `Model/Build.lean` matches with.",
           "-/",
           "import NitroVerif.Gen.Grammar",
           "namespace NitroVerif.Gen.Parts",
           "open NitroVerif.Peg NitroVerif.Gen",
           "",
           "inductive Item where",
           "  | req (r : RuleId)",
           "  | opt (r : RuleId)",
           "  deriving Repr, DecidableEq, Inhabited",
           "",
           "inductive Pattern where",
           "  /-- `parts!(pair, …)`: required item panics when the next child is missing or of another rule; optional item",
           "      takes the next child iff it has the rule; left-over children are ignored -/",
           "  | parts (items : List Item)",
           "  /-- `only_child()` followed by a dispatch on the child's rule (`[]` = the child's rule is not inspected) -/",
           "  | onlyChild (allowed : List RuleId)",
           "  /-- `all_children(R)` (or a loop that hands every child to a builder that requires rule R) -/",
           "  | allChildren (r : RuleId)",
           "  /-- first child must be `h`, every further child `r` (build_implements_interfaces) -/",
           "  | headThenAll (h r : RuleId)",
           "  /-- children are filtered / mapped without a panic path -/",
           "  | anyChildren",
           "  deriving Repr, Inhabited",
           "",
           "structure Entry where",
           "  subject : RuleId",
           "  pat : Pattern",
           "  site : String",
           "  deriving Repr, Inhabited",
           ""]
    named = {}
    for subject, p, site in entries:
        if p[0] == "parts":
            key, val = f"P_{subject}", "[" + ", ".join((".opt " if o else ".req ") + ident(r) for r, o in p[1]) + "]"
            ty = "List Item"
        elif p[0] == "onlyChild":
            key, val, ty = f"OC_{subject}", "[" + ", ".join(ident(r) for r in p[1]) + "]", "List RuleId"
        elif p[0] in ("allChildren", "expectAll"):
            key, val, ty = f"AC_{subject}", ident(p[1]), "RuleId"
        else:
            continue
        k, n = key, 1
        while k in named and named[k][0] != val:
            n += 1
            k = f"{key}_{n}"
        named[k] = (val, ty, site)
    for k, (val, ty, site) in named.items():
        out.append(f"/-- {site} -/")
        out.append(f"def {k} : {ty} := {val}")
    out.append("")
    out.append("def builderTable : List Entry := [")
    out.append(",\n".join(f'  ⟨{ident(s)}, {lean_pat(p)}, "{site}"⟩' for s, p, site in entries))
    out.append("]")
    out.append("")
    out.append("end NitroVerif.Gen.Parts")
    new = "\n".join(out) + "\n"
    old = open(OUT, encoding="utf-8").read() if os.path.exists(OUT) else None
    if old != new:
        with open(OUT, "w", encoding="utf-8") as f:
            f.write(new)
    print(f"parts_patterns: {len(entries)} pattern sites in {len(files)} files -> {os.path.relpath(OUT, ROOT)}" +
          ("" if old == new else " (changed)"))


if __name__ == "__main__":
    try:
        main()
    except Fail as e:
        print(f"parts_patterns: cannot extract the builder patterns: {e}", file=sys.stderr)
        sys.exit(1)
    except (OSError, ValueError, IndexError) as e:
        print(f"parts_patterns: cannot extract the builder patterns: {e!r}", file=sys.stderr)
        sys.exit(1)
