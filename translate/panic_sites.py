#!/usr/bin/env python3
"""
panic_sites.py — the panic-site accounting of DESIGN §4-C08 for the parser crate (the part of C08 that has theorems).

Lists every  panic!( / unreachable!( / unimplemented!( / todo!( / assert!( / assert_eq!( / .unwrap() / .expect( /
split_at( / slice indexing `[a..b]`  in the NON-TEST sources of /repo/crates/parser/src/parser (mod.rs, builder.rs,
builder/**.rs). Identity of a site = (file, enclosing fn, normalised expression, ordinal among equal ones) — no line
numbers, so unrelated edits do not move sites. Writes translate/Sites.json and compares it with
translate/sites_accounted.json, where every site is accounted for as one of
    theorem:<name>      discharged: unreachable given the theorem (Props/C08.lean / Props/C07.lean)
    pattern             it IS the panic arm of a positional matcher listed in Gen/Parts.lean (covered by builders_total)
    dispatch            the `rule => panic!` arm of a dispatch after only_child (covered by builders_total: onlyChild sets)
    finding:<file>      reachable, known finding with a replay
    constant            cannot fail for a reason visible at the site (stated in "why")
    model:<Panic ctor>  modelled as an explicit `Except Panic` outcome in Model/Build.lean and compared by K
Exit 1 when a site is unaccounted (a NEW panic site) or an accounted site vanished (stale accounting).
`--init` writes a fresh sites_accounted.json skeleton with "UNACCOUNTED" entries (never used by ./check).
"""
import json
import os
import re
import sys

BASE = os.environ.get("NV_PARSER_DIR", "/repo/crates/parser/src/parser")
ROOT = os.path.dirname(os.path.dirname(os.path.abspath(__file__)))
SITES = os.path.join(ROOT, "translate", "Sites.json")
ACCOUNTED = os.path.join(ROOT, "translate", "sites_accounted.json")

PAT = re.compile(
    r"\b(panic|unreachable|unimplemented|todo|assert|assert_eq|assert_ne)!\s*\(|\.unwrap\(\)|\.expect\(|\.split_at\(|\[[^\[\]\n]*\.\.[^\[\]\n]*\]")


CHAR_LIT = re.compile(r"'(\\u\{[0-9a-fA-F]+\}|\\.|[^'\\])'")


def strip(text):
    out = list(text)
    i, n = 0, len(text)
    while i < n:
        if text.startswith("//", i):
            while i < n and text[i] != "\n":
                out[i] = " "
                i += 1
        elif text[i] == "'" and CHAR_LIT.match(text, i):
            i = CHAR_LIT.match(text, i).end()
        elif text[i] == '"':
            j = i + 1
            while j < n and text[j] != '"':
                j += 2 if text[j] == "\\" else 1
            for k in range(i + 1, min(j, n)):
                if out[k] != "\n":
                    out[k] = "_"
            i = j + 1
        else:
            i += 1
    return "".join(out)


def functions(text):
    res = []
    for m in re.finditer(r"\bfn\s+(\w+)", text):
        k = text.find("{", m.end())
        semi = text.find(";", m.end())
        if k < 0 or (0 <= semi < k):
            continue
        depth, i = 0, k
        while i < len(text):
            if text[i] == "{":
                depth += 1
            elif text[i] == "}":
                depth -= 1
                if depth == 0:
                    break
            i += 1
        res.append((m.group(1), k, i))
    return res


def scan():
    files = ["mod.rs", "builder.rs"]
    for d, _, fs in sorted(os.walk(os.path.join(BASE, "builder"))):
        for f in sorted(fs):
            if f.endswith(".rs"):
                files.append(os.path.relpath(os.path.join(d, f), BASE))
    sites = []
    for rel in files:
        raw = open(os.path.join(BASE, rel), encoding="utf-8").read()
        # drop #[cfg(test)] modules
        raw = re.split(r"#\[cfg\(test\)\]", raw)[0]
        text = strip(raw)
        fns = functions(text)
        seen = {}
        for m in PAT.finditer(text):
            inner = None
            for (name, s, e) in fns:
                if s < m.start() < e and (inner is None or s > inner[1]):
                    inner = (name, s, e)
            fn = inner[0] if inner else "<macro or top level>"
            # normalised expression: the statement line around the site, strings blanked, whitespace collapsed
            ls = text.rfind("\n", 0, m.start()) + 1
            le = text.find("\n", m.end())
            expr = re.sub(r"\s+", " ", text[ls:le if le >= 0 else len(text)]).strip()
            key = (rel, fn, expr)
            seen[key] = seen.get(key, 0) + 1
            sites.append({"file": rel, "fn": fn, "expr": expr, "ordinal": seen[key], "id": f"{rel}::{fn}::{expr}#{seen[key]}"})
    return sites


def main():
    sites = scan()
    with open(SITES, "w", encoding="utf-8") as f:
        json.dump({"crate": "crates/parser/src/parser", "sites": sites}, f, indent=1)
    if "--init" in sys.argv:
        old = {}
        if os.path.exists(ACCOUNTED):
            old = {e["id"]: e for e in json.load(open(ACCOUNTED))["sites"]}
        out = [old.get(s["id"], {"id": s["id"], "status": "UNACCOUNTED", "why": ""}) for s in sites]
        json.dump({"sites": out}, open(ACCOUNTED, "w", encoding="utf-8"), indent=1)
        print(f"panic_sites: wrote skeleton with {sum(1 for o in out if o['status'] == 'UNACCOUNTED')} unaccounted of {len(out)}")
        return
    if not os.path.exists(ACCOUNTED):
        print("panic_sites: translate/sites_accounted.json is missing", file=sys.stderr)
        sys.exit(1)
    acc = {e["id"]: e for e in json.load(open(ACCOUNTED))["sites"]}
    ids = {s["id"] for s in sites}
    new = [i for i in ids if i not in acc or acc[i].get("status", "UNACCOUNTED") == "UNACCOUNTED"]
    gone = [i for i in acc if i not in ids]
    if new or gone:
        for i in sorted(new):
            print(f"panic_sites: UNACCOUNTED panic site: {i}", file=sys.stderr)
        for i in sorted(gone):
            print(f"panic_sites: accounted site no longer in the source (stale accounting): {i}", file=sys.stderr)
        sys.exit(1)
    by = {}
    for e in acc.values():
        k = e["status"].split(":")[0]
        by[k] = by.get(k, 0) + 1
    print(f"panic_sites: {len(sites)} sites, all accounted: " + ", ".join(f"{k}={v}" for k, v in sorted(by.items())))


if __name__ == "__main__":
    try:
        main()
    except (OSError, ValueError, KeyError) as e:
        print(f"panic_sites: failed: {e!r}", file=sys.stderr)
        sys.exit(1)
