#!/usr/bin/env python3
"""
pest2lean.py — translate /repo/crates/parser/src/parser/grammar.pest into lean/NitroVerif/Gen/Grammar.lean.

The output is a `def grammar : List (RuleId × RuleKind × Expr)` over the `Expr` type of
`NitroVerif/Model/Peg.lean`, rule names Nat-coded (id = index in the list) with a name table and one
`abbrev R.<Name> : RuleId` per rule, so that hand-written Lean (the builders) refers to rules by name and a
renamed/removed rule breaks the build.

What is translated (pest 2.7 surface syntax):
  name = { e }   normal        name = _{ e }  silent       name = @{ e }  atomic
  name = ${ e }  compound      name = !{ e }  non-atomic
  e ::= e | e  (lowest, optional leading |)   e ~ e   !e  &e   e*  e+  e?  e{n}  e{n,}  e{,m}  e{n,m}
        "string" (escapes \\" \\\\ \\n \\r \\t \\0 \\' \\xHH \\u{H+})   ^"insensitive"   'a'..'z'   ident   ( e )
Built-in rules that the grammar uses become extra rules of the table, defined the way pest_generator
defines them (generator.rs `generate_builtin_rules`): ANY → `Expr.any`, SOI → `Expr.soi` (neither is a rule
that yields a token), EOI → NORMAL rule with body `Expr.eoi` (it yields an `EOI` token), NEWLINE and the
ASCII_* classes → silent rules.
`e+` is kept as `plus` (the interpreter reads it as `e ~ e*`, as pest_meta's unroller does without the
grammar-extras feature); `e{n}` is `rep n e`; the other bounded repetitions are desugared as the unroller does.

Anything else (PUSH/POP/PEEK, tags `#t = e`, unknown built-ins, unknown modifiers, unterminated strings …) is an
error: the script exits with status 1 and writes nothing.
"""
import os
import sys

SRC = os.environ.get("NV_GRAMMAR", "/repo/crates/parser/src/parser/grammar.pest")
ROOT = os.path.dirname(os.path.dirname(os.path.abspath(__file__)))
OUT = os.path.join(ROOT, "lean", "NitroVerif", "Gen", "Grammar.lean")


class Fail(Exception):
    pass


# ------------------------------------------------------------------------------------------- lexer
def lex(text):
    toks = []  # (kind, value, line)
    i, n, line = 0, len(text), 1
    while i < n:
        c = text[i]
        if c == "\n":
            line += 1
            i += 1
        elif c in " \t\r":
            i += 1
        elif text.startswith("//", i):
            while i < n and text[i] != "\n":
                i += 1
        elif text.startswith("/*", i):
            depth = 1
            i += 2
            while i < n and depth:
                if text.startswith("/*", i):
                    depth += 1
                    i += 2
                elif text.startswith("*/", i):
                    depth -= 1
                    i += 2
                else:
                    if text[i] == "\n":
                        line += 1
                    i += 1
            if depth:
                raise Fail(f"line {line}: unterminated block comment")
        elif c == '"':
            s, i = lex_string(text, i + 1, line)
            toks.append(("str", s, line))
        elif c == "'":
            ch, i = lex_char(text, i + 1, line)
            toks.append(("chr", ch, line))
        elif c.isalpha() or c == "_":
            j = i
            while j < n and (text[j].isalnum() or text[j] == "_"):
                j += 1
            toks.append(("id", text[i:j], line))
            i = j
        elif c.isdigit():
            j = i
            while j < n and text[j].isdigit():
                j += 1
            toks.append(("num", int(text[i:j]), line))
            i = j
        elif text.startswith("..", i):
            toks.append(("..", "..", line))
            i += 2
        elif c in "={}()|~!&*+?^,@$_#":
            toks.append((c, c, line))
            i += 1
        else:
            raise Fail(f"line {line}: unexpected character {c!r}")
    toks.append(("eof", None, line))
    return toks


def lex_escape(text, i, line):
    c = text[i]
    simple = {'"': '"', "\\": "\\", "n": "\n", "r": "\r", "t": "\t", "0": "\0", "'": "'"}
    if c in simple:
        return simple[c], i + 1
    if c == "x":
        h = text[i + 1:i + 3]
        if len(h) != 2 or any(x not in "0123456789abcdefABCDEF" for x in h):
            raise Fail(f"line {line}: bad \\x escape")
        return chr(int(h, 16)), i + 3
    if c == "u":
        if text[i + 1] != "{":
            raise Fail(f"line {line}: bad \\u escape")
        j = text.index("}", i)
        h = text[i + 2:j]
        if not h or any(x not in "0123456789abcdefABCDEF" for x in h):
            raise Fail(f"line {line}: bad \\u escape")
        return chr(int(h, 16)), j + 1
    raise Fail(f"line {line}: unknown escape \\{c}")


def lex_string(text, i, line):
    out = []
    while True:
        if i >= len(text) or text[i] == "\n":
            raise Fail(f"line {line}: unterminated string")
        c = text[i]
        if c == '"':
            return "".join(out), i + 1
        if c == "\\":
            ch, i = lex_escape(text, i + 1, line)
            out.append(ch)
        else:
            out.append(c)
            i += 1


def lex_char(text, i, line):
    if text[i] == "\\":
        ch, i = lex_escape(text, i + 1, line)
    else:
        ch, i = text[i], i + 1
    if i >= len(text) or text[i] != "'":
        raise Fail(f"line {line}: unterminated character literal")
    return ch, i + 1


# ------------------------------------------------------------------------------------------ parser
class P:
    def __init__(self, toks):
        self.t = toks
        self.i = 0

    def peek(self, k=0):
        return self.t[self.i + k]

    def next(self):
        x = self.t[self.i]
        self.i += 1
        return x

    def expect(self, kind):
        x = self.next()
        if x[0] != kind:
            raise Fail(f"line {x[2]}: expected {kind!r}, found {x[0]!r} {x[1]!r}")
        return x

    def grammar(self):
        rules = []
        while self.peek()[0] != "eof":
            rules.append(self.rule())
        return rules

    def rule(self):
        name = self.expect("id")
        self.expect("=")
        kind = "normal"
        m = self.peek()
        if m[0] == "id" and m[1] == "_":
            self.next()
            kind = "silent"
        elif m[0] in ("@", "$", "!"):
            self.next()
            kind = {"@": "atomic", "$": "compound", "!": "nonAtomic"}[m[0]]
        elif m[0] != "{":
            raise Fail(f"line {m[2]}: unknown rule modifier {m[1]!r}")
        self.expect("{")
        e = self.expr()
        self.expect("}")
        return (name[1], kind, e, name[2])

    def expr(self):
        if self.peek()[0] == "|":
            self.next()
        alts = [self.seq()]
        while self.peek()[0] == "|":
            self.next()
            alts.append(self.seq())
        return fold("choice", alts)

    def seq(self):
        items = [self.term()]
        while self.peek()[0] == "~":
            self.next()
            items.append(self.term())
        return fold("seq", items)

    def term(self):
        k = self.peek()[0]
        if k == "#":
            raise Fail(f"line {self.peek()[2]}: node tags (#tag = e) are not supported")
        if k == "!":
            self.next()
            return ("not", self.term())
        if k == "&":
            self.next()
            return ("and", self.term())
        e = self.atom()
        while True:
            k = self.peek()[0]
            if k == "*":
                self.next()
                e = ("star", e)
            elif k == "+":
                self.next()
                e = ("plus", e)
            elif k == "?":
                self.next()
                e = ("opt", e)
            elif k == "{":
                e = self.bounded(e)
            else:
                return e

    def bounded(self, e):
        line = self.expect("{")[2]
        lo = hi = None
        comma = False
        if self.peek()[0] == "num":
            lo = self.next()[1]
        if self.peek()[0] == ",":
            self.next()
            comma = True
            if self.peek()[0] == "num":
                hi = self.next()[1]
        self.expect("}")
        if not comma:
            if lo is None or lo == 0:
                raise Fail(f"line {line}: bad repetition count")
            return ("rep", lo, e)
        if lo is not None and hi is None:  # {n,}  =  e×n ~ e*
            return fold("seq", [e] * lo + [("star", e)])
        if lo is None and hi is not None:  # {,m}  =  e? × m
            if hi == 0:
                raise Fail(f"line {line}: bad repetition count")
            return fold("seq", [("opt", e)] * hi)
        if lo is not None and hi is not None:
            if hi == 0 or lo > hi:
                raise Fail(f"line {line}: bad repetition bounds")
            return fold("seq", [e] * lo + [("opt", e)] * (hi - lo))
        raise Fail(f"line {line}: bad repetition")

    def atom(self):
        k, v, line = self.next()
        if k == "str":
            if v == "":
                raise Fail(f"line {line}: empty string literal")
            return ("str", v)
        if k == "^":
            s = self.expect("str")
            return ("insens", s[1])
        if k == "chr":
            self.expect("..")
            hi = self.expect("chr")
            return ("range", v, hi[1])
        if k == "(":
            e = self.expr()
            self.expect(")")
            return e
        if k == "id":
            if v in ("PUSH", "PUSH_LITERAL", "PEEK", "PEEK_ALL", "POP", "POP_ALL", "DROP"):
                raise Fail(f"line {line}: the stack operation {v} is not supported")
            return ("call", v)
        raise Fail(f"line {line}: unexpected token {k!r} {v!r}")


def fold(tag, xs):
    """right-nested binary tree (what pest_meta's rotater produces)"""
    e = xs[-1]
    for x in reversed(xs[:-1]):
        e = (tag, x, e)
    return e


# --------------------------------------------------------------------------------------- built-ins
def rng(a, b):
    return ("range", a, b)


BUILTINS = {
    # name: (kind, expr)   — pest_generator::generate_builtin_rules
    "EOI": ("normal", ("eoi",)),
    "NEWLINE": ("silent", fold("choice", [("str", "\n"), ("str", "\r\n"), ("str", "\r")])),
    "ASCII_DIGIT": ("silent", rng("0", "9")),
    "ASCII_NONZERO_DIGIT": ("silent", rng("1", "9")),
    "ASCII_BIN_DIGIT": ("silent", rng("0", "1")),
    "ASCII_OCT_DIGIT": ("silent", rng("0", "7")),
    "ASCII_HEX_DIGIT": ("silent", fold("choice", [rng("0", "9"), rng("a", "f"), rng("A", "F")])),
    "ASCII_ALPHA_LOWER": ("silent", rng("a", "z")),
    "ASCII_ALPHA_UPPER": ("silent", rng("A", "Z")),
    "ASCII_ALPHA": ("silent", fold("choice", [rng("a", "z"), rng("A", "Z")])),
    "ASCII_ALPHANUMERIC": ("silent", fold("choice", [rng("a", "z"), rng("A", "Z"), rng("0", "9")])),
    "ASCII": ("silent", rng("\x00", "\x7f")),
}
INLINE = {"ANY": ("any",), "SOI": ("soi",)}


def calls(e, out):
    if e[0] == "call":
        out.add(e[1])
    for x in e[1:]:
        if isinstance(x, tuple):
            calls(x, out)


# ------------------------------------------------------------------------------------------ output
def lean_char(c):
    o = ord(c)
    if c == "'":
        return "'\\''"
    if c == "\\":
        return "'\\\\'"
    if 32 <= o < 127:
        return f"'{c}'"
    return f"(Char.ofNat {o})"


def lean_chars(s):
    return "[" + ", ".join(lean_char(c) for c in s) + "]"


def lean_expr(e, ids):
    t = e[0]
    if t == "str":
        return f"(.str {lean_chars(e[1])})"
    if t == "insens":
        return f"(.insens {lean_chars(e[1])})"
    if t == "range":
        return f"(.range {lean_char(e[1])} {lean_char(e[2])})"
    if t in ("any", "soi", "eoi"):
        return f".{t}"
    if t in ("seq", "choice"):
        return f"(.{t} {lean_expr(e[1], ids)} {lean_expr(e[2], ids)})"
    if t in ("star", "plus", "opt", "not", "and"):
        return f"(.{t} {lean_expr(e[1], ids)})"
    if t == "rep":
        return f"(.rep {e[1]} {lean_expr(e[2], ids)})"
    if t == "call":
        if e[1] in INLINE:
            return lean_expr(INLINE[e[1]], ids)
        return f"(.call R.{lean_ident(e[1])})"
    raise Fail(f"internal: unknown node {t}")


LEAN_KEYWORDS = {"Type", "Prop", "Sort", "open", "end", "from", "import", "at", "in", "do", "if", "then", "else", "fun", "def"}


def lean_ident(name):
    return f"«{name}»" if name in LEAN_KEYWORDS else name


def main():
    text = open(SRC, encoding="utf-8").read()
    rules = P(lex(text)).grammar()
    names = [r[0] for r in rules]
    dup = {n for n in names if names.count(n) > 1}
    if dup:
        raise Fail(f"rules defined twice: {sorted(dup)}")
    for n in names:
        if n in BUILTINS or n in INLINE:
            raise Fail(f"rule {n} redefines a built-in")
    used = set()
    for r in rules:
        calls(r[2], used)
    extra = []
    for u in sorted(used):
        if u in names or u in INLINE:
            continue
        if u in BUILTINS:
            extra.append((u, BUILTINS[u][0], BUILTINS[u][1], 0))
        else:
            raise Fail(f"rule {u} is used but not defined (and is not a supported built-in)")
    allrules = rules + extra
    ids = {r[0]: i for i, r in enumerate(allrules)}
    out = []
    out.append("/-")
    out.append("GENERATED by translate/pest2lean.py from crates/parser/src/parser/grammar.pest — do not edit.")
    out.append("Rule ids are positions in `grammar`; `R.<Name>` are the ids by name; `ruleNames` is the name table.")
    out.append("Built-in rules used by the grammar are appended after the user rules (see the script header).")
    out.append("-/")
    out.append("import NitroVerif.Model.Peg")
    out.append("namespace NitroVerif.Gen")
    out.append("open NitroVerif.Peg")
    out.append("")
    out.append("namespace R")
    for i, r in enumerate(allrules):
        out.append(f"abbrev {lean_ident(r[0])} : RuleId := {i}")
    out.append("end R")
    out.append("")
    out.append(f"def ruleCount : Nat := {len(allrules)}")
    out.append("")
    out.append("def ruleNames : List String := [")
    out.append(",\n".join(f'  "{r[0]}"' for r in allrules))
    out.append("]")
    out.append("")
    out.append("def grammar : List (RuleId × RuleKind × Expr) := [")
    rows = []
    for i, r in enumerate(allrules):
        rows.append(f"  -- {r[0]}" + (f" (grammar.pest line {r[3]})" if r[3] else " (pest built-in)") +
                    f"\n  (R.{lean_ident(r[0])}, .{r[1]}, {lean_expr(r[2], ids)})")
    out.append(",\n".join(rows))
    out.append("]")
    out.append("")
    has_ws = "WHITESPACE" in ids
    has_cm = "COMMENT" in ids
    out.append("/-- the two rules pest skips implicitly (`none` when the grammar does not define them) -/")
    out.append(f"def whitespaceRule : Option RuleId := {'some R.WHITESPACE' if has_ws else 'none'}")
    out.append(f"def commentRule : Option RuleId := {'some R.COMMENT' if has_cm else 'none'}")
    out.append("")
    out.append("end NitroVerif.Gen")
    os.makedirs(os.path.dirname(OUT), exist_ok=True)
    new = "\n".join(out) + "\n"
    old = open(OUT, encoding="utf-8").read() if os.path.exists(OUT) else None
    if old != new:
        with open(OUT, "w", encoding="utf-8") as f:
            f.write(new)
    print(f"pest2lean: {len(rules)} rules + {len(extra)} built-ins -> {os.path.relpath(OUT, ROOT)}" +
          ("" if old == new else " (changed)"))


if __name__ == "__main__":
    try:
        main()
    except Fail as e:
        print(f"pest2lean: cannot translate {SRC}: {e}", file=sys.stderr)
        sys.exit(1)
    except (OSError, ValueError, IndexError) as e:
        print(f"pest2lean: cannot translate {SRC}: {e!r}", file=sys.stderr)
        sys.exit(1)
