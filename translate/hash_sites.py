#!/usr/bin/env python3
"""
C17 — hash-iteration site scanner.

Scans the NON-TEST Rust sources of /repo/crates (files under a `tests/` directory, `tests.rs`, `#[cfg(test)]`
modules — inline or out of line — and `#[test]` functions are skipped) for every place that ITERATES a
`std::collections::HashMap` / `HashSet` (iteration order = the per-process hash seed), by a conservative
syntactic analysis:

  1. hash-typed NAMES
       * type aliases whose right-hand side mentions HashMap/HashSet (e.g. `FragmentMap`);
       * struct fields, function parameters and `let` bindings whose declared type mentions a hash type
         (behind `&`, `&mut`, `Option<…>`, … — any mention counts);
       * `let` bindings whose initialiser mentions a hash type (`HashMap::new()`, `.collect::<HashSet<_>>()`, …)
         or is a call / fold over calls of a function or method whose RETURN type mentions a hash type
         (`get_scalar_types(…)`, `plugin.transform_resolver_output_types(…)`), or rebinds a hash-typed name;
       * closure parameters are not typed: a `fold(<hash>, |acc, …| …)` makes `acc` hash-typed.
     Field names are global (any file); parameter / let names are scoped to the enclosing top-level `fn`.
  2. iteration SITES = an iterating method (`iter iter_mut keys values values_mut into_iter into_keys into_values
     drain retain`) whose receiver is a path ending in a hash-typed name or a call of a hash-returning function,
     a `for … in <such an expression>`, or a hash-typed expression handed to a generic consumer
     (`extend( … )`, `from_iter( … )`, `chain( … )`, `zip( … )`).

The analysis is name based and over-approximates (a Vec field that shares its name with a hash field is reported;
such a site is then classified `not-hash` in the accounted file with the declaration that proves it).

Outputs
  translate/hash_sites.json                 the sites found now: file, function, normalised expression, count
  lean/NitroVerif/Gen/HashSites.lean        the accounted list as Lean data (for Props/C17.lean)
and compares with the committed classification translate/hash_sites_accounted.json. Exit status is non-zero if
  * a source file cannot be tokenised (unbalanced braces),
  * a found site is not accounted for, or an accounted site has vanished / changed multiplicity,
  * an accounted entry has an unknown class or lacks its theorem / justification.
"""
import json
import os
import re
import sys

REPO = os.environ.get("NV_REPO", "/repo")
CRATES = os.path.join(REPO, "crates")
HERE = os.path.dirname(os.path.abspath(__file__))
OUT_JSON = os.path.join(HERE, "hash_sites.json")
ACCOUNTED = os.path.join(HERE, "hash_sites_accounted.json")
OUT_LEAN = os.path.join(HERE, "..", "lean", "NitroVerif", "Gen", "HashSites.lean")

HASH_TYPES = {"HashMap", "HashSet", "FxHashMap", "FxHashSet", "AHashMap", "AHashSet", "DashMap", "DashSet"}
ITER_METHODS = {"iter", "iter_mut", "keys", "values", "values_mut", "into_iter", "into_keys", "into_values", "drain", "retain"}
CONSUMERS = {"extend", "from_iter", "chain", "zip"}
# methods that hand the receiver's container on (the result is hash-typed when the receiver is)
PASS_THROUGH = {"clone", "unwrap", "as_ref", "as_mut", "borrow", "borrow_mut", "expect", "unwrap_or_default", "to_owned", "lock", "get_mut", "deref"}
CLASSES = {"order-insensitive", "order-sensitive", "not-hash"}


class ScanError(Exception):
    pass


# ------------------------------------------------------------------------------------------------
# lexical layer

def blank_comments_and_strings(text):
    """comments, string / char literals replaced by spaces (newlines kept); the `r#` of raw identifiers dropped"""
    out = list(text)
    i, n = 0, len(text)

    def blank(a, b):
        for k in range(a, b):
            if out[k] != "\n":
                out[k] = " "

    while i < n:
        c = text[i]
        if text.startswith("//", i):
            j = text.find("\n", i)
            j = n if j < 0 else j
            blank(i, j)
            i = j
        elif text.startswith("/*", i):
            depth, j = 1, i + 2
            while j < n and depth > 0:
                if text.startswith("/*", j):
                    depth += 1
                    j += 2
                elif text.startswith("*/", j):
                    depth -= 1
                    j += 2
                else:
                    j += 1
            blank(i, j)
            i = j
        elif c == "r" and re.match(r'r#*"', text[i:i + 12]) and (i == 0 or not (text[i - 1].isalnum() or text[i - 1] == "_")):
            m = re.match(r'r(#*)"', text[i:])
            close = '"' + m.group(1)
            j = text.find(close, i + len(m.group(0)))
            j = n if j < 0 else j + len(close)
            blank(i + 1, j)          # keep one char so that the token does not vanish
            out[i] = '"'
            i = j
        elif c == '"':
            j = i + 1
            while j < n and text[j] != '"':
                j += 2 if text[j] == "\\" else 1
            j = min(n, j + 1)
            blank(i + 1, j - 1)
            i = j
        elif c == "'":
            # char literal or lifetime
            m = re.match(r"'(\\.[^']*|[^'\\])'", text[i:i + 12])
            if m:
                blank(i + 1, i + len(m.group(0)) - 1)
                i += len(m.group(0))
            else:
                i += 1
        elif c == "r" and text.startswith("r#", i) and (i == 0 or not (text[i - 1].isalnum() or text[i - 1] == "_")) \
                and i + 2 < n and (text[i + 2].isalpha() or text[i + 2] == "_"):
            # raw identifier r#type: keep the identifier, glue it to what precedes (`x.r#type` -> `x.  type` would break paths)
            out[i] = ""
            out[i + 1] = ""
            i += 2
        else:
            i += 1
    return "".join(out)


def match_close(text, i, open_c, close_c):
    """index just after the bracket closing the one at text[i]"""
    depth, n = 0, len(text)
    while i < n:
        c = text[i]
        if c == open_c:
            depth += 1
        elif c == close_c:
            depth -= 1
            if depth == 0:
                return i + 1
        i += 1
    raise ScanError("unbalanced " + open_c)


def remove_test_code(text):
    """blank `#[cfg(test)]` items and `#[test]` functions; returns (text, names of out-of-line test modules)"""
    out = list(text)
    test_mods = []
    for m in re.finditer(r"#\[\s*(cfg\s*\(\s*test\s*\)|test)\s*\]", text):
        j = m.end()
        # skip further attributes
        while True:
            mm = re.match(r"\s*#\[", text[j:])
            if not mm:
                break
            j = match_close(text, j + mm.end() - 1, "[", "]")
        mm = re.match(r"\s*(pub(\([^)]*\))?\s+)?mod\s+(\w+)\s*;", text[j:])
        if mm:
            test_mods.append(mm.group(3))
            end = j + mm.end()
        else:
            # an item with a body: find its `{` (or `;`)
            k = j
            while k < len(text) and text[k] not in "{;":
                k += 1
            if k >= len(text):
                continue
            end = match_close(text, k, "{", "}") if text[k] == "{" else k + 1
        for q in range(m.start(), end):
            if out[q] != "\n":
                out[q] = " "
    return "".join(out), test_mods


def rust_files():
    files = []
    for root, dirs, names in os.walk(CRATES):
        dirs[:] = sorted(d for d in dirs if d not in ("tests", "target", "node_modules", "__snapshots__", "snapshots"))
        for nm in sorted(names):
            if nm.endswith(".rs") and nm != "tests.rs":
                files.append(os.path.join(root, nm))
    return files


# ------------------------------------------------------------------------------------------------
# syntactic layer

IDENT = r"[A-Za-z_][A-Za-z0-9_]*"


def mentions_hash(s, hash_type_names):
    return any(re.search(r"\b" + re.escape(t) + r"\b", s) for t in hash_type_names)


def type_text_after(text, i):
    """the type expression starting at text[i] (after a `:` or `->`), up to a top-level `,` `)` `=` `;` `{` or `where`"""
    depth_a = depth_p = depth_b = 0
    j, n = i, len(text)
    while j < n:
        c = text[j]
        if c == "<":
            depth_a += 1
        elif c == ">":
            if j > 0 and text[j - 1] == "-":
                pass
            elif depth_a == 0:
                break
            else:
                depth_a -= 1
        elif c == "(":
            depth_p += 1
        elif c == ")":
            if depth_p == 0:
                break
            depth_p -= 1
        elif c == "[":
            depth_b += 1
        elif c == "]":
            if depth_b == 0:
                break
            depth_b -= 1
        elif depth_a == 0 and depth_p == 0 and depth_b == 0:
            if c in ",=;{|":
                break
            if text.startswith("where", j) and not (text[j - 1].isalnum() or text[j - 1] == "_"):
                break
        j += 1
    return text[i:j]


def functions(text):
    """(name, start of body, end of body) of every `fn` with a body, outermost first; nested fns are separate entries"""
    out = []
    for m in re.finditer(r"\bfn\s+(" + IDENT + r")", text):
        # find the parameter list and then the body `{` at depth 0 (skipping the return type / where clause)
        j = m.end()
        # generics
        k = j
        while k < len(text) and text[k].isspace():
            k += 1
        if k < len(text) and text[k] == "<":
            depth = 0
            while k < len(text):
                if text[k] == "<":
                    depth += 1
                elif text[k] == ">" and text[k - 1] != "-":
                    depth -= 1
                    if depth == 0:
                        k += 1
                        break
                k += 1
        while k < len(text) and text[k].isspace():
            k += 1
        if k >= len(text) or text[k] != "(":
            continue
        pend = match_close(text, k, "(", ")")
        params = text[k + 1:pend - 1]
        q = pend
        depth_a = 0
        while q < len(text):
            c = text[q]
            if c == "<":
                depth_a += 1
            elif c == ">" and text[q - 1] != "-":
                depth_a = max(0, depth_a - 1)
            elif c == "(":
                q = match_close(text, q, "(", ")") - 1
            elif depth_a == 0 and c in "{;":
                break
            q += 1
        if q >= len(text) or text[q] == ";":
            ret = text[pend:q]
            out.append((m.group(1), params, ret, None, None, m.start()))
            continue
        bend = match_close(text, q, "{", "}")
        out.append((m.group(1), params, text[pend:q], q, bend, m.start()))
    return out


def split_top(s, sep=","):
    parts, depth, cur = [], 0, []
    for idx, c in enumerate(s):
        if c in "(<[{":
            depth += 1
        elif c in ")]}":
            depth -= 1
        elif c == ">" and idx > 0 and s[idx - 1] != "-":
            depth -= 1
        if c == sep and depth == 0:
            parts.append("".join(cur))
            cur = []
        else:
            cur.append(c)
    parts.append("".join(cur))
    return parts


def receiver_before(text, dot):
    """the postfix expression that ends just before text[dot] == '.'; returns (start, expression text)"""
    j = dot
    while True:
        k = j - 1
        while k >= 0 and text[k].isspace():
            k -= 1
        if k < 0:
            break
        c = text[k]
        if c == ")" or c == "]":
            open_c = "(" if c == ")" else "["
            depth, q = 0, k
            while q >= 0:
                if text[q] == c:
                    depth += 1
                elif text[q] == open_c:
                    depth -= 1
                    if depth == 0:
                        break
                q -= 1
            if q < 0:
                raise ScanError("unbalanced " + c)
            j = q
            continue
        if c == "?":
            j = k
            continue
        if c == ">":
            # turbofish `::<…>` before a call
            depth, q = 0, k
            while q >= 0:
                if text[q] == ">" and text[q - 1] != "-":
                    depth += 1
                elif text[q] == "<":
                    depth -= 1
                    if depth == 0:
                        break
                q -= 1
            if q >= 2 and text[q - 2:q] == "::":
                j = q - 2
                continue
            break
        if c.isalnum() or c == "_":
            q = k
            while q >= 0 and (text[q].isalnum() or text[q] == "_"):
                q -= 1
            j = q + 1
            # continue through `.` or `::`
            p = q
            while p >= 0 and text[p].isspace():
                p -= 1
            if p >= 0 and text[p] == ".":
                j = p
                continue
            if p >= 1 and text[p - 1:p + 1] == "::":
                j = p - 1
                continue
            break
        if c == ".":
            j = k
            continue
        break
    # leading & / &mut / * are not part of the postfix expression but belong to the operand
    return j, text[j:dot]


def normalise(expr):
    e = re.sub(r"\s+", "", expr)
    e = re.sub(r"\((?:[^()]|\((?:[^()]|\([^()]*\))*\))*\)", "(…)", e)   # drop call arguments (3 levels)
    return e


def last_segment(expr):
    """classify the tail of a postfix expression: ('name', ident) | ('call', callee ident, receiver expr) | ('other',)"""
    e = expr.strip()
    while e.endswith("?"):
        e = e[:-1].rstrip()
    while e.startswith("&") or e.startswith("*"):
        e = e[1:].lstrip()
        if e.startswith("mut "):
            e = e[4:].lstrip()
    # peel redundant parentheses
    while e.startswith("(") and match_close(e, 0, "(", ")") == len(e):
        e = e[1:-1].strip()
        while e.startswith("&") or e.startswith("*"):
            e = e[1:].lstrip()
            if e.startswith("mut "):
                e = e[4:].lstrip()
    if e.endswith(")"):
        depth, q = 0, len(e) - 1
        while q >= 0:
            if e[q] == ")":
                depth += 1
            elif e[q] == "(":
                depth -= 1
                if depth == 0:
                    break
            q -= 1
        head = e[:q].rstrip()
        head = re.sub(r"::\s*<.*>$", "", head)          # turbofish
        m = re.search(r"(" + IDENT + r")$", head)
        if not m:
            return ("other",)
        rest = head[:m.start()].rstrip()
        recv = rest[:-1] if rest.endswith(".") else ""
        return ("call", m.group(1), recv, e[q + 1:-1])
    m = re.search(r"(" + IDENT + r")$", e)
    if m:
        return ("name", m.group(1))
    return ("other",)


class Scan:
    def __init__(self):
        self.texts = {}          # rel path -> blanked text
        self.alias = set()       # type alias names that are hash types
        self.fields = {}         # field name -> declaration note
        self.hash_fns = {}       # fn / method name -> declaration note
        self.iter_fns = {}       # fn / method name returning an iterator over a hash container -> declaration note
        self.typedefs = {}       # struct / enum / alias name -> text of its definition (for the carrier closure)
        self.nonhash_decl = {}   # field name -> [struct names declaring it with a non-hash type]
        self.hash_decl = {}      # field name -> [struct names declaring it with a hash type]
        self.field_types = {}    # field name -> [declared type texts]
        self.fn_rets = {}        # fn name -> [return type texts]
        self.dismissed = {}      # field name -> number of sites dismissed by the ambiguity rule
        self._carriers = {}
        self.ctx = {}
        self.sites = []

    def hash_names(self):
        return HASH_TYPES | self.alias

    def carriers(self, field):
        """names whose presence in a function means a value of a struct declaring `field` as a hash container may be
        at hand: the declaring structs, every type that (transitively) contains one, functions returning such a type,
        fields declared with such a type"""
        if field in self._carriers:
            return self._carriers[field]
        types = set(self.hash_decl.get(field, []))
        changed = True
        while changed:
            changed = False
            for name, text in self.typedefs.items():
                if name not in types and mentions_hash(text, types):
                    types.add(name)
                    changed = True
        names = set(types)
        for fn, rets in self.fn_rets.items():
            if any(mentions_hash(r, types) for r in rets):
                names.add(fn)
        for f, tys in self.field_types.items():
            if f != field and any(mentions_hash(t, types) for t in tys):
                names.add(f)
        self._carriers[field] = names
        return names

    def field_is_hash(self, expr, field):
        """`expr` = `<prefix>.<field>` with `field` declared as a hash container in some struct"""
        if field not in self.nonhash_decl:
            return True
        prefix = re.sub(r"\s+", "", expr)
        prefix = prefix[:prefix.rfind("." + field)] if ("." + field) in prefix else ""
        prefix = prefix.lstrip("&*")
        if prefix.startswith("mut"):
            prefix = prefix[3:]
        if prefix == "self" and self.ctx.get("impl_type"):
            if self.ctx["impl_type"] in self.hash_decl.get(field, []):
                return True
            if self.ctx["impl_type"] in self.nonhash_decl.get(field, []):
                self.dismissed[field] = self.dismissed.get(field, 0) + 1
                return False
        if mentions_hash(self.ctx.get("fn_text", ""), self.carriers(field)):
            return True          # unresolved: must be accounted for by hand
        self.dismissed[field] = self.dismissed.get(field, 0) + 1
        return False

    def is_hash_expr(self, expr, local):
        seg = last_segment(expr)
        if seg[0] == "name":
            if seg[1] in local:
                return True
            return seg[1] in self.fields and ("." in expr) and self.field_is_hash(expr, seg[1])
        if seg[0] == "call":
            _, callee, recv, args = seg
            if callee in self.hash_fns:
                return True
            if callee in self.iter_fns and self.ctx.get("fn_name") != callee:
                return True
            if callee in PASS_THROUGH and recv:
                return self.is_hash_expr(recv, local)
            if callee == "fold":
                first = split_top(args)[0]
                return self.is_hash_expr(first, local) if first.strip() else False
            if callee in ("new", "default", "with_capacity", "from") and mentions_hash(expr, self.hash_names()):
                return True
            if callee == "collect" and mentions_hash(expr[expr.rfind("collect"):], self.hash_names()):
                return True
        return False

    # -- pass 1: declarations ---------------------------------------------------------------------
    def declarations(self):
        for rel, text in self.texts.items():
            for m in re.finditer(r"\btype\s+(" + IDENT + r")\s*(<[^=]*>)?\s*=\s*([^;]*);", text):
                if mentions_hash(m.group(3), HASH_TYPES):
                    self.alias.add(m.group(1))
        for rel, text in self.texts.items():
            # struct fields
            for m in re.finditer(r"\bstruct\s+(" + IDENT + r")\b[^;{(]*\{", text):
                end = match_close(text, m.end() - 1, "{", "}")
                body = text[m.end():end - 1]
                self.typedefs[m.group(1)] = self.typedefs.get(m.group(1), "") + " " + body
                for part in split_top(body):
                    fm = re.match(r"\s*(?:#\[[^\]]*\]\s*)*(?:pub(?:\([^)]*\))?\s+)?(" + IDENT + r")\s*:\s*(.*)$", part, flags=re.S)
                    if not fm:
                        continue
                    self.field_types.setdefault(fm.group(1), []).append(fm.group(2))
                    if mentions_hash(fm.group(2), self.hash_names()):
                        self.fields.setdefault(fm.group(1), f"{rel}: struct {m.group(1)}")
                        self.hash_decl.setdefault(fm.group(1), []).append(m.group(1))
                    else:
                        self.nonhash_decl.setdefault(fm.group(1), []).append(m.group(1))
            for m in re.finditer(r"\bstruct\s+(" + IDENT + r")\b[^;{(]*\(", text):
                end = match_close(text, m.end() - 1, "(", ")")
                self.typedefs[m.group(1)] = self.typedefs.get(m.group(1), "") + " " + text[m.end():end - 1]
            for m in re.finditer(r"\btype\s+(" + IDENT + r")\s*(<[^=]*>)?\s*=\s*([^;]*);", text):
                self.typedefs[m.group(1)] = self.typedefs.get(m.group(1), "") + " " + m.group(3)
            # enum struct-variants
            for m in re.finditer(r"\benum\s+(" + IDENT + r")\b[^;{(]*\{", text):
                end = match_close(text, m.end() - 1, "{", "}")
                body = text[m.end():end - 1]
                self.typedefs[m.group(1)] = self.typedefs.get(m.group(1), "") + " " + body
                for fm in re.finditer(r"\b(" + IDENT + r")\s*:\s*", body):
                    ty = type_text_after(body, fm.end())
                    self.field_types.setdefault(fm.group(1), []).append(ty)
                    if mentions_hash(ty, self.hash_names()):
                        self.fields.setdefault(fm.group(1), f"{rel}: enum {m.group(1)}")
                        self.hash_decl.setdefault(fm.group(1), []).append(m.group(1))
                    else:
                        self.nonhash_decl.setdefault(fm.group(1), []).append(m.group(1))
            for (name, params, ret, bstart, bend, at) in functions(text):
                if "->" in ret:
                    self.fn_rets.setdefault(name, []).append(ret.split("->", 1)[1])
                    if mentions_hash(ret.split("->", 1)[1], self.hash_names()):
                        self.hash_fns.setdefault(name, rel)

    # -- pass 2: sites ----------------------------------------------------------------------------
    def local_names(self, params, body):
        local = {}
        for part in split_top(params):
            pm = re.match(r"\s*(?:mut\s+)?(" + IDENT + r")\s*:\s*(.*)$", part, flags=re.S)
            if pm and mentions_hash(pm.group(2), self.hash_names()):
                local[pm.group(1)] = "param"
        # closure parameters with a declared type
        for cm in re.finditer(r"\|([^|]*)\|", body):
            for part in split_top(cm.group(1)):
                pm = re.match(r"\s*(?:mut\s+)?(" + IDENT + r")\s*:\s*(.*)$", part, flags=re.S)
                if pm and mentions_hash(pm.group(2), self.hash_names()):
                    local[pm.group(1)] = "closure-param"
        changed = True
        lets = list(re.finditer(r"\blet\s+(?:mut\s+)?(" + IDENT + r")\s*(:\s*)?", body))
        while changed:
            changed = False
            for lm in lets:
                name = lm.group(1)
                if name in local:
                    continue
                j = lm.end()
                ty = ""
                if lm.group(2):
                    ty = type_text_after(body, j)
                    j += len(ty)
                init = ""
                k = j
                while k < len(body) and body[k].isspace():
                    k += 1
                if k < len(body) and body[k] == "=":
                    # initialiser up to the `;` at depth 0
                    depth, q = 0, k + 1
                    while q < len(body):
                        c = body[q]
                        if c in "({[":
                            depth += 1
                        elif c in ")}]":
                            depth -= 1
                        elif c == ";" and depth == 0:
                            break
                        q += 1
                    init = body[k + 1:q]
                hashy = mentions_hash(ty, self.hash_names())
                if not hashy and init:
                    if mentions_hash(init, self.hash_names()):
                        # constructed or collected as a hash container somewhere in the initialiser — conservative
                        hashy = True
                    elif self.is_hash_expr(init, local):
                        hashy = True
                if hashy:
                    local[name] = "let"
                    changed = True
            # fold(<hash>, |acc, …|)
            for fm in re.finditer(r"\.fold\s*\(", body):
                end = match_close(body, fm.end() - 1, "(", ")")
                args = split_top(body[fm.end():end - 1])
                if len(args) >= 2 and self.is_hash_expr(args[0], local):
                    cm = re.match(r"\s*(?:move\s+)?\|\s*(?:mut\s+)?(" + IDENT + r")", args[1])
                    if cm and cm.group(1) not in local:
                        local[cm.group(1)] = "fold-acc"
                        changed = True
        return local

    def add_site(self, rel, fn, expr, how):
        self.sites.append({"file": rel, "function": fn, "expr": normalise(expr), "how": how})

    def scan_body(self, rel, fn, params, body):
        local = self.local_names(params, body)
        for itf in self.iter_fns:
            if itf == fn:
                continue
            for m in re.finditer(r"(\.\s*)?\b" + re.escape(itf) + r"\s*\(", body):
                if re.search(r"\bfn\s+$", body[:m.start()]):
                    continue
                if m.group(1):
                    start, recv = receiver_before(body, m.start())
                    self.add_site(rel, fn, recv.strip() + "." + itf + "()", "via-iterator-fn")
                else:
                    self.add_site(rel, fn, itf + "()", "via-iterator-fn")
        # method-call iteration
        for m in re.finditer(r"\.\s*(" + IDENT + r")\s*(?:::\s*<[^>]*>\s*)?\(", body):
            meth = m.group(1)
            if meth in ITER_METHODS:
                start, recv = receiver_before(body, m.start())
                if recv.strip() and self.is_hash_expr(recv, local):
                    self.add_site(rel, fn, recv.strip() + "." + meth + "()", "method")
            if meth in CONSUMERS:
                end = match_close(body, m.end() - 1, "(", ")")
                arg = body[m.end():end - 1].strip()
                if arg and "|" not in arg and self.is_hash_expr(arg, local):
                    self.add_site(rel, fn, meth + "<-" + arg, "consumer")
        for m in re.finditer(r"\b(" + "|".join(sorted(CONSUMERS)) + r")\s*\(", body):
            if m.start() > 0 and body[m.start() - 1] == ".":
                continue
            pre = body[max(0, m.start() - 2):m.start()]
            if pre != "::":
                continue
            end = match_close(body, m.end() - 1, "(", ")")
            arg = body[m.end():end - 1].strip()
            if arg and self.is_hash_expr(arg, local):
                self.add_site(rel, fn, m.group(1) + "<-" + arg, "consumer")
        # for loops
        for m in re.finditer(r"\bfor\s+", body):
            # pattern up to ` in ` at depth 0
            depth, q = 0, m.end()
            found = -1
            while q < len(body):
                c = body[q]
                if c in "([{":
                    depth += 1
                elif c in ")]}":
                    depth -= 1
                    if depth < 0:
                        break
                elif depth == 0 and re.match(r"\bin\b", body[q:q + 3]) and not (body[q - 1].isalnum() or body[q - 1] == "_") \
                        and not (body[q + 2].isalnum() or body[q + 2] == "_"):
                    found = q
                    break
                elif c == ";":
                    break
                q += 1
            if found < 0:
                continue
            # iterated expression up to the `{` at depth 0
            depth, q = 0, found + 2
            while q < len(body):
                c = body[q]
                if c in "([":
                    depth += 1
                elif c in ")]":
                    depth -= 1
                elif c == "{" and depth == 0:
                    break
                q += 1
            expr = body[found + 2:q].strip()
            if expr and self.is_hash_expr(expr, local):
                seg = last_segment(expr)
                if seg[0] == "call" and (seg[1] in ITER_METHODS or seg[1] in self.iter_fns):
                    continue    # already reported as a method / iterator-function site
                self.add_site(rel, fn, "for-in:" + expr, "for")

    def run(self):
        test_mod_files = set()
        raw = {}
        for path in rust_files():
            rel = os.path.relpath(path, REPO)
            text = blank_comments_and_strings(open(path, encoding="utf-8").read())
            text, tmods = remove_test_code(text)
            for tm in tmods:
                d = os.path.dirname(path)
                stem = os.path.splitext(os.path.basename(path))[0]
                for cand in (os.path.join(d, tm + ".rs"), os.path.join(d, tm, "mod.rs"),
                             os.path.join(d, stem, tm + ".rs"), os.path.join(d, stem, tm, "mod.rs")):
                    test_mod_files.add(os.path.normpath(cand))
            raw[path] = (rel, text)
        for path, (rel, text) in raw.items():
            if os.path.normpath(path) in test_mod_files:
                continue
            if text.count("{") != text.count("}"):
                raise ScanError(f"{rel}: unbalanced braces after blanking")
            self.texts[rel] = text
        self.declarations()
        while True:
            self.sites = []
            self.dismissed = {}
            self.scan_all()
            new_iter = {}
            for s in self.sites:
                rets = self.fn_rets_at.get((s["file"], s["function"]), "")
                if re.search(r"\bIterator\b", rets) and s["function"] not in self.iter_fns:
                    new_iter[s["function"]] = s["file"]
            if not new_iter:
                break
            self.iter_fns.update(new_iter)
        self.merge()

    def scan_all(self):
        self.fn_rets_at = {}
        for rel, text in sorted(self.texts.items()):
            impls = []
            for m in re.finditer(r"\bimpl\b", text):
                k = m.end()
                depth = 0
                while k < len(text):           # header up to the `{` at angle depth 0
                    c = text[k]
                    if c == "<":
                        depth += 1
                    elif c == ">" and text[k - 1] != "-":
                        depth -= 1
                    elif c == "{" and depth <= 0:
                        break
                    elif c == ";" and depth <= 0:
                        k = -1
                        break
                    k += 1
                if k < 0 or k >= len(text):
                    continue
                header = text[m.end():k]
                header = re.split(r"\bwhere\b", header)[0]
                target = header.split(" for ")[-1] if re.search(r"\bfor\b", header) else re.sub(r"^\s*<.*?>\s*(?=[A-Za-z_&])", "", header, count=1, flags=re.S)
                tm = re.search(r"(" + IDENT + r")\s*(<|$|\s)", target.strip())
                impls.append((k, match_close(text, k, "{", "}"), tm.group(1) if tm else None))
            fns = [f for f in functions(text) if f[3] is not None]
            # every function is scanned on its own body with nested fns blanked
            for (name, params, ret, bstart, bend, at) in fns:
                inner = [g for g in fns if g[3] > bstart and g[4] < bend]
                body = list(text[bstart:bend])
                for g in inner:
                    for q in range(g[5] - bstart, g[4] - bstart):
                        if 0 <= q < len(body) and body[q] != "\n":
                            body[q] = " "
                body = "".join(body)
                impl_type = None
                for (a, b, t) in impls:
                    if a < bstart and bend <= b:
                        impl_type = t
                self.ctx = {"fn_name": name, "impl_type": impl_type, "fn_text": params + " " + ret + " " + body}
                self.fn_rets_at[(rel, name)] = self.fn_rets_at.get((rel, name), "") + " " + ret
                self.scan_body(rel, name, params, body)

    def merge(self):
        # merge duplicates
        merged = {}
        for s in self.sites:
            key = (s["file"], s["function"], s["expr"])
            if key in merged:
                merged[key]["count"] += 1
            else:
                merged[key] = dict(s, count=1)
        self.sites = [merged[k] for k in sorted(merged)]


# ------------------------------------------------------------------------------------------------
# Lean output

def lean_str(s):
    return '"' + s.replace("\\", "\\\\").replace('"', '\\"') + '"'


def lean_ident_ok(s):
    return re.fullmatch(r"[A-Za-z_][A-Za-z0-9_']*", s) is not None


def write_lean(accounted):
    covers = []
    for a in accounted:
        if a["class"] == "order-insensitive" and a["theorem"] not in covers:
            covers.append(a["theorem"])
    lines = [
        "/-",
        "GENERATED by translate/hash_sites.py from the non-test sources of /repo/crates and",
        "translate/hash_sites_accounted.json — do not edit.",
        "Every place where non-test code iterates a HashMap/HashSet (syntactic scan), with its classification.",
        "`Cover` has one constructor per theorem name used by an order-insensitive site; `Props/C17.lean` must give",
        "the statement proved for each constructor (a non-exhaustive match there breaks the build).",
        "-/",
        "namespace NitroVerif.Gen.HashSites",
        "",
        "/-- names of the covering theorems (in `NitroVerif.Determinism`, see Props/C17.lean) -/",
        "inductive Cover where",
    ]
    for c in covers:
        lines.append(f"  | {c}")
    lines += [
        "  deriving DecidableEq, Repr",
        "",
        "inductive Verdict where",
        "  /-- the iteration order cannot be observed in the result; covered by the named theorem -/",
        "  | insensitive (cover : Cover)",
        "  /-- the iteration order is observable in the result (finding / justification text) -/",
        "  | sensitive (note : String)",
        "  /-- reported by the name-based scan, but the container is not a hash container -/",
        "  | notHash (note : String)",
        "  deriving DecidableEq, Repr",
        "",
        "structure Site where",
        "  file : String",
        "  fn : String",
        "  expr : String",
        "  count : Nat",
        "  verdict : Verdict",
        "  deriving Repr",
        "",
        "def sites : List Site := [",
    ]
    rows = []
    for a in accounted:
        if a["class"] == "order-insensitive":
            v = f".insensitive .{a['theorem']}"
        elif a["class"] == "order-sensitive":
            v = f".sensitive {lean_str(a['justification'])}"
        else:
            v = f".notHash {lean_str(a['justification'])}"
        rows.append(f"  ⟨{lean_str(a['file'])}, {lean_str(a['function'])}, {lean_str(a['expr'])}, {a.get('count', 1)}, {v}⟩")
    lines.append(",\n".join(rows))
    lines += ["]", "", "end NitroVerif.Gen.HashSites", ""]
    new = "\n".join(lines)
    old = open(OUT_LEAN, encoding="utf-8").read() if os.path.exists(OUT_LEAN) else None
    if old != new:                      # keep the mtime when nothing changed (no needless lake rebuild)
        os.makedirs(os.path.dirname(OUT_LEAN), exist_ok=True)
        with open(OUT_LEAN, "w", encoding="utf-8") as f:
            f.write(new)


SELFTEST_SRC = r'''
use std::collections::{HashMap, HashSet};
type Table<'a> = HashMap<&'a str, usize>;
pub struct Ctx<'a> { pub names: Table<'a>, pub order: Vec<&'a str>, seen: HashSet<String> }
pub struct Ast { pub names: Vec<String> }
impl<'a> Ctx<'a> {
    pub fn all(&self) -> impl Iterator<Item = (&&'a str, &usize)> { self.names.iter() }          // SITE all: self.names.iter()
    fn ordered(&self) -> Vec<usize> { self.order.iter().filter_map(|n| self.names.get(n).copied()).collect() } // lookup only
    fn dump(&self) -> Vec<String> { let mut v: Vec<_> = self.seen.iter().cloned().collect(); v.sort(); v }  // SITE dump
}
impl Ast { fn f(&self) -> usize { self.names.iter().count() } }                                  // Vec: dismissed (impl type)
fn make(xs: &[(String, u32)]) -> HashMap<String, u32> { xs.iter().cloned().collect() }           // iterates a slice
fn user(c: &Ctx, a: &Ast) -> usize {
    let m = make(&[]);
    let mut n = 0;
    for (k, v) in &m { n += *v as usize + k.len(); }                                             // SITE user: for-in:&m
    for (_k, _v) in c.all() { n += 1; }                                                          // SITE user: c.all()
    let s: HashSet<u32> = m.values().copied().collect();                                         // SITE user: m.values()
    let mut out = vec![]; out.extend(s);                                                         // SITE user: extend(s)
    let folded = [1u32].iter().fold(m.clone(), |acc, _| acc);
    n += folded.keys().count();                                                                  // SITE user: folded.keys()
    n + a.names.iter().count() + "m.iter()".len() // m.iter() in a comment                       // unresolved (Ctx at hand): SITE a.names.iter()
}
fn plain(a: &Ast) -> usize { a.names.iter().count() }                                            // dismissed (no carrier in fn)
#[cfg(test)]
mod tests { use super::*; #[test] fn t() { let m: HashMap<u8, u8> = HashMap::new(); for _ in m.iter() {} } }
'''

SELFTEST_EXPECT = [
    ("all", "self.names.iter(…)"), ("dump", "self.seen.iter(…)"), ("user", "for-in:&m"), ("user", "c.all(…)"),
    ("user", "m.values(…)"), ("user", "extend<-s"), ("user", "folded.keys(…)"), ("user", "a.names.iter(…)"),
]


def selftest():
    """the scanner finds exactly the planted sites of a synthetic module (guards the scanner itself)"""
    sc = Scan()
    text = blank_comments_and_strings(SELFTEST_SRC)
    text, _ = remove_test_code(text)
    sc.texts = {"selftest.rs": text}
    sc.declarations()
    while True:
        sc.sites = []
        sc.scan_all()
        new = {s["function"]: s["file"] for s in sc.sites
               if re.search(r"\bIterator\b", sc.fn_rets_at.get((s["file"], s["function"]), "")) and s["function"] not in sc.iter_fns}
        if not new:
            break
        sc.iter_fns.update(new)
    sc.merge()
    got = sorted((s["function"], s["expr"]) for s in sc.sites)
    if got != sorted(SELFTEST_EXPECT):
        print("hash_sites: SELF-TEST FAILED\n  expected", sorted(SELFTEST_EXPECT), "\n  got     ", got)
        return False
    return True


def main():
    if not selftest():
        return 2
    sc = Scan()
    try:
        sc.run()
    except ScanError as e:
        print(f"hash_sites: cannot analyse the source: {e}")
        return 2
    found = [{k: s[k] for k in ("file", "function", "expr", "how", "count")} for s in sc.sites]
    doc = {
        "generated_by": "translate/hash_sites.py",
        "hash_type_aliases": sorted(sc.alias),
        "hash_fields": {k: sc.fields[k] for k in sorted(sc.fields)},
        "hash_returning_functions": {k: sc.hash_fns[k] for k in sorted(sc.hash_fns)},
        "hash_iterator_returning_functions": {k: sc.iter_fns[k] for k in sorted(sc.iter_fns)},
        "ambiguous_fields": {k: {"hash_in": sorted(set(sc.hash_decl.get(k, []))), "non_hash_in": sorted(set(sc.nonhash_decl[k])),
                                 "sites_dismissed_by_rule": sc.dismissed.get(k, 0)}
                             for k in sorted(sc.fields) if k in sc.nonhash_decl},
        "files_scanned": len(sc.texts),
        "sites": found,
    }
    new = json.dumps(doc, indent=1, ensure_ascii=False) + "\n"
    if not os.path.exists(OUT_JSON) or open(OUT_JSON, encoding="utf-8").read() != new:
        with open(OUT_JSON, "w", encoding="utf-8") as f:
            f.write(new)
    if len(sc.texts) < 50:
        print(f"hash_sites: only {len(sc.texts)} source files found under {CRATES} — refusing to conclude")
        return 2
    if not os.path.exists(ACCOUNTED):
        print("hash_sites: translate/hash_sites_accounted.json is missing")
        return 2
    accounted = json.load(open(ACCOUNTED, encoding="utf-8"))["sites"]
    problems = []
    acc_by_key = {}
    for a in accounted:
        key = (a.get("file"), a.get("function"), a.get("expr"))
        if key in acc_by_key:
            problems.append(f"accounted twice: {key}")
        acc_by_key[key] = a
        cls = a.get("class")
        if cls not in CLASSES:
            problems.append(f"unknown class {cls!r}: {key}")
        elif cls == "order-insensitive":
            if not a.get("theorem") or not lean_ident_ok(a["theorem"]):
                problems.append(f"order-insensitive site without a (valid) theorem name: {key}")
        elif not a.get("justification"):
            problems.append(f"{cls} site without justification: {key}")
    found_by_key = {(s["file"], s["function"], s["expr"]): s for s in found}
    for key, s in found_by_key.items():
        if key not in acc_by_key:
            problems.append(f"UNACCOUNTED hash-iteration site: {key[0]} fn {key[1]}: {key[2]}")
        elif acc_by_key[key].get("count", 1) != s["count"]:
            problems.append(f"multiplicity changed ({acc_by_key[key].get('count', 1)} accounted, {s['count']} found): {key}")
    for key in acc_by_key:
        if key not in found_by_key:
            problems.append(f"VANISHED accounted site (model no longer anchored): {key[0]} fn {key[1]}: {key[2]}")
    if not any(p.startswith("unknown class") or "without" in p for p in problems):
        write_lean(accounted)
    n_ins = sum(1 for a in accounted if a.get("class") == "order-insensitive")
    n_sen = sum(1 for a in accounted if a.get("class") == "order-sensitive")
    n_not = sum(1 for a in accounted if a.get("class") == "not-hash")
    print(f"hash_sites: {len(sc.texts)} files, {len(found)} sites found; accounted: {n_ins} order-insensitive, {n_sen} order-sensitive, {n_not} not-hash")
    for p in problems:
        print("hash_sites: " + p)
    return 1 if problems else 0


if __name__ == "__main__":
    sys.exit(main())
