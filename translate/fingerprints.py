#!/usr/bin/env python3
"""
translate/fingerprints.py [--write]

Source fingerprints of the code each property is anchored in (DESIGN §2.2-1). For every property: the files named in
properties.jsonl `anchors.files`, every non-test source file in the same directories, and the extra files listed under
"anchored_files" in checks/Cxx.json. `--write` records sha256 of each at /repo's committed HEAD (git show HEAD:<file>) into
translate/fingerprints.json (committed; regenerate after every `fix:` commit in /repo). Without --write: prints the files
whose working-tree content differs from the record. ./check reads the record: when an anchored file of the property has
changed, the quick tier re-runs the harness with the thorough budget if the quick budget found nothing ("change-aware budget").
"""
import hashlib, json, os, subprocess, sys

ROOT = os.path.dirname(os.path.dirname(os.path.abspath(__file__)))
REPO = "/repo"


def anchored(pid, prop):
    files = set()
    for f in prop.get("anchors", {}).get("files", []):
        files.add(f)
        d = os.path.dirname(f)
        full = os.path.join(REPO, d)
        if os.path.isdir(full):
            for n in os.listdir(full):
                if n.endswith((".rs", ".pest")) and n != "tests.rs" and os.path.isfile(os.path.join(full, n)):
                    files.add(os.path.join(d, n))
    cfgp = os.path.join(ROOT, "checks", pid + ".json")
    if os.path.exists(cfgp):
        for f in json.load(open(cfgp)).get("anchored_files", []):
            files.add(f)
    return sorted(files)


def head_hash(rel):
    r = subprocess.run(["git", "-C", REPO, "show", "HEAD:" + rel], stdout=subprocess.PIPE, stderr=subprocess.DEVNULL)
    return hashlib.sha256(r.stdout).hexdigest() if r.returncode == 0 else "missing"


def main():
    props = [json.loads(l) for l in open(os.path.join(ROOT, "properties.jsonl")) if l.strip()]
    out = {}
    for p in props:
        out[p["id"]] = {f: head_hash(f) for f in anchored(p["id"], p)}
    path = os.path.join(ROOT, "translate", "fingerprints.json")
    if "--write" in sys.argv:
        head = subprocess.run(["git", "-C", REPO, "rev-parse", "HEAD"], stdout=subprocess.PIPE, text=True).stdout.strip()
        out["_repo_head"] = head
        json.dump(out, open(path, "w"), indent=1, sort_keys=True)
        print("wrote", path, "for", head, sum(len(v) for k, v in out.items() if k != "_repo_head"), "entries")
        return
    known = json.load(open(path))
    for pid, files in known.items():
        if pid.startswith("_"):
            continue
        for rel, h in files.items():
            p = os.path.join(REPO, rel)
            cur = hashlib.sha256(open(p, "rb").read()).hexdigest() if os.path.exists(p) else "missing"
            if cur != h:
                print(pid, rel)


if __name__ == "__main__":
    main()
