#!/usr/bin/env python3
"""
stage_sites.py — panic-site accounting for the stages AFTER parsing (C08, Props/C08Stages.lean).

Same site extractor as panic_sites.py (panic!/unreachable!/unimplemented!/todo!/assert*!/.unwrap()/.expect(/split_at(/
range slicing in NON-TEST code; identity = (file, enclosing fn, normalised statement, ordinal), no line numbers), applied
to the source files whose functions the stage theorems are about:

    crates/semantics/src            resolve_schema_extensions, resolve_operation_extensions, resolve_operation_imports, …
    crates/checker/src              check_type_system_document, check_operation_document
    crates/printer/src/{operation_type_printer, operation_js_printer, json_printer, schema_type_printer,
                        resolver_type_printer, ts_types, utils.rs}
    crates/error/src/lib.rs, crates/utils/src/chars.rs        print_positioned_error, message_for_line, skip_chars
    crates/graphql-loader/src       the loader ABI
    crates/cli/src/file_store.rs    FileStore

Writes translate/StageSites.json and compares it with translate/stage_sites_accounted.json, where every site has a status
    theorem:<name>      unreachable (or reachable exactly as stated) by that theorem of Props/C08Stages.lean / another Props file
    finding:<file|id>   reachable on a known input (open finding)
    constant            cannot fail for a reason visible at the site (stated in "why")
Exit 1 when a site is unaccounted (a NEW panic site) or an accounted site vanished (stale accounting).
`--init` (never used by ./check) writes a skeleton that keeps existing entries and marks new ones UNACCOUNTED.
"""
import json
import os
import re
import sys

sys.path.insert(0, os.path.dirname(os.path.abspath(__file__)))
import panic_sites as ps  # noqa: E402

REPO = os.environ.get("NV_REPO", "/repo")
ROOT = os.path.dirname(os.path.dirname(os.path.abspath(__file__)))
SITES = os.path.join(ROOT, "translate", "StageSites.json")
ACCOUNTED = os.path.join(ROOT, "translate", "stage_sites_accounted.json")

TARGETS = [
    "crates/semantics/src",
    "crates/checker/src",
    "crates/printer/src/operation_type_printer",
    "crates/printer/src/operation_js_printer",
    "crates/printer/src/json_printer",
    "crates/printer/src/schema_type_printer",
    "crates/printer/src/resolver_type_printer",
    "crates/printer/src/ts_types",
    "crates/printer/src/utils.rs",
    "crates/error/src/lib.rs",
    "crates/utils/src/chars.rs",
    "crates/graphql-loader/src",
    "crates/cli/src/file_store.rs",
]


def is_test_path(rel):
    parts = rel.replace("\\", "/").split("/")
    return "tests" in parts or parts[-1] in ("tests.rs", "test.rs") or parts[-1].endswith("_tests.rs") \
        or parts[-1].endswith("_test.rs") or "__snapshots__" in parts or "snapshots" in parts


def files():
    out = []
    for t in TARGETS:
        p = os.path.join(REPO, t)
        if os.path.isfile(p):
            out.append(t)
        elif os.path.isdir(p):
            for d, _, fs in sorted(os.walk(p)):
                for f in sorted(fs):
                    rel = os.path.relpath(os.path.join(d, f), REPO)
                    if f.endswith(".rs") and not is_test_path(rel):
                        out.append(rel)
        else:
            raise OSError(f"target {t} does not exist in {REPO}")
    return out


def scan():
    sites = []
    for rel in files():
        raw = open(os.path.join(REPO, rel), encoding="utf-8").read()
        raw = re.split(r"#\[cfg\(test\)\]", raw)[0]
        text = ps.strip(raw)
        fns = ps.functions(text)
        seen = {}
        for m in ps.PAT.finditer(text):
            inner = None
            for (name, s, e) in fns:
                if s < m.start() < e and (inner is None or s > inner[1]):
                    inner = (name, s, e)
            fn = inner[0] if inner else "<macro or top level>"
            ls = text.rfind("\n", 0, m.start()) + 1
            le = text.find("\n", m.end())
            expr = re.sub(r"\s+", " ", text[ls:le if le >= 0 else len(text)]).strip()
            key = (rel, fn, expr)
            seen[key] = seen.get(key, 0) + 1
            sites.append({"file": rel, "fn": fn, "expr": expr, "ordinal": seen[key],
                          "id": f"{rel}::{fn}::{expr}#{seen[key]}"})
    return sites


def main():
    sites = scan()
    with open(SITES, "w", encoding="utf-8") as f:
        json.dump({"targets": TARGETS, "sites": sites}, f, indent=1)
    if "--init" in sys.argv:
        old = {}
        if os.path.exists(ACCOUNTED):
            old = {e["id"]: e for e in json.load(open(ACCOUNTED))["sites"]}
        out = [old.get(s["id"], {"id": s["id"], "status": "UNACCOUNTED", "why": ""}) for s in sites]
        json.dump({"sites": out}, open(ACCOUNTED, "w", encoding="utf-8"), indent=1, ensure_ascii=False)
        n = sum(1 for o in out if o["status"] == "UNACCOUNTED")
        print(f"stage_sites: wrote skeleton with {n} unaccounted of {len(out)}")
        return
    if not os.path.exists(ACCOUNTED):
        print("stage_sites: translate/stage_sites_accounted.json is missing", file=sys.stderr)
        sys.exit(1)
    acc = {e["id"]: e for e in json.load(open(ACCOUNTED))["sites"]}
    ids = {s["id"] for s in sites}
    new = [i for i in ids if i not in acc or acc[i].get("status", "UNACCOUNTED") == "UNACCOUNTED"]
    gone = [i for i in acc if i not in ids]
    if new or gone:
        for i in sorted(new):
            print(f"stage_sites: UNACCOUNTED panic site: {i}", file=sys.stderr)
        for i in sorted(gone):
            print(f"stage_sites: accounted site no longer in the source (stale accounting): {i}", file=sys.stderr)
        sys.exit(1)
    by = {}
    for e in acc.values():
        k = e["status"].split(":")[0]
        by[k] = by.get(k, 0) + 1
    print(f"stage_sites: {len(sites)} sites, all accounted: " + ", ".join(f"{k}={v}" for k, v in sorted(by.items())))


if __name__ == "__main__":
    try:
        main()
    except (OSError, ValueError, KeyError) as e:
        print(f"stage_sites: failed: {e!r}", file=sys.stderr)
        sys.exit(1)
